#!/bin/bash
# usage: confirm_seed.sh <prop> <m>   — confirms a seeded change inside its scratch worktree /tmp/seed/<prop>
# (compiles, pinned suite passes with it, demo fails with it and passes without) and stores it as /verif/seeded/<prop>-<m>/
set -u
P=$1; M=$2; BASE=${3:-/tmp/seed}; W=$BASE/$P; O=$W/out/$M
export GOFLAGS=-mod=mod GOPROXY=off
cd $W || exit 2
git checkout -q -- . 
DEMO=$(ls -d $W/seeddemo_$M 2>/dev/null | head -1)
if [ -z "$DEMO" ]; then mkdir -p $W/seeddemo_$M; cp -r $O/demo/* $W/seeddemo_$M/; DEMO=$W/seeddemo_$M; fi
res() { echo "$1" ; }
go test -vet=off -count=1 ./$(basename $DEMO)/... > $BASE/$P-$M-demo-without.log 2>&1; DW=$?
git apply $O/patch.diff || { echo "PATCH DOES NOT APPLY"; exit 2; }
go build ./... > $BASE/$P-$M-build.log 2>&1; B=$?
go test -vet=off -count=1 $(go list ./... | grep -v seeddemo | grep -v "/out/") > $BASE/$P-$M-suite.log 2>&1; S=$?
go test -vet=off -count=1 ./$(basename $DEMO)/... > $BASE/$P-$M-demo-with.log 2>&1; DC=$?
git checkout -q -- .
APPLIES=no; git -C /repo apply --check $O/patch.diff 2>/dev/null && APPLIES=yes
echo "$P $M: build=$B suite=$S demo_without=$DW (want 0) demo_with=$DC (want !=0) applies_to_repo_head=$APPLIES"
if [ $B -eq 0 ] && [ $S -eq 0 ] && [ $DW -eq 0 ] && [ $DC -ne 0 ]; then
  D=/verif/seeded/$P-$M; mkdir -p $D; cp $O/patch.diff $D/; rm -rf $D/demo; cp -r $DEMO $D/demo; cp $O/notes.md $D/notes.md 2>/dev/null
  echo "CONFIRMED -> $D"
else
  echo "NOT CONFIRMED"; tail -5 $BASE/$P-$M-suite.log
fi
