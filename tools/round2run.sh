#!/bin/bash
# run the property's own check against already confirmed round-2 seeds
cd /verif
for P in "$@"; do for M in m3 m4; do
  [ -d seeded/$P-$M ] || continue
  [ -f seeded/$P-$M/result.txt ] && continue
  if git -C /repo apply --check /verif/seeded/$P-$M/patch.diff 2>/dev/null; then
    echo "== $P-$M"; tools/seedrun.sh $P-$M $P 2>&1 | grep -v KNOWN | tail -2 | tee seeded/$P-$M/result.txt
  else echo "$P-$M: patch does not apply to /repo HEAD" | tee seeded/$P-$M/result.txt; fi
done; done
