#!/bin/bash
# usage: seedrun_wt.sh <seeded-dir-name> <prop> [tier] [seed]
# Like seedrun.sh, but never touches /repo or /verif: the seeded change is applied to a scratch worktree of /repo's HEAD
# and the check runs from a scratch copy of /verif whose harness module points at that worktree. Several can run at once.
# Output: the VIOLATION / summary lines; the scratch copies are removed afterwards.
set -u
S=/verif/seeded/$1; P=$2; T=${3:-quick}; SEED=${4:-1}
B=/tmp/swt/$1-$P-$$; W=$B/repo; V=$B/verif
mkdir -p $B
git -C /repo worktree add -q --detach $W HEAD || { echo "worktree failed"; exit 2; }
cleanup() { git -C /repo worktree remove --force $W 2>/dev/null; rm -rf $B; git -C /repo worktree prune; }
trap cleanup EXIT
if [ "$1" != "none" ]; then
  git -C $W apply $S/patch.diff || { echo "patch does not apply"; exit 2; }
fi
mkdir -p $V
rsync -a --exclude .work --exclude harness/bin --exclude replays/found --exclude .git --exclude seeded /verif/ $V/
sed -i "s#=> /repo\$#=> $W#" $V/harness/go.mod
if [ -n "${SEEDRUN_REPLAY:-}" ]; then
  cd $V && VERIF_REPO=$W VERIF_SHOW_HISTORY=1 ./check $P --replay $SEEDRUN_REPLAY 2>&1 | tail -${SEEDRUN_LINES:-40}
  exit 0
fi
cd $V && VERIF_REPO=$W VERIF_EVIDENCE_DIR=$B/evidence ./check $P --tier $T --seed $SEED 2>&1 | grep -E "^VIOLATION|^  [A-Za-z]|^INCONCLUSIVE|tier=" | cut -c1-400 | head -${SEEDRUN_LINES:-6}
