#!/bin/bash
# Runs the thorough tier of the given properties (default: all) one after the other.
# In a `vp run --with-repo` snapshot it points the harness at the repository snapshot.
cd "$(dirname "$0")/.."
if [ -n "${VP_RUN_REPO:-}" ]; then
  sed -i "s#github.com/yorkie-team/yorkie => /repo#github.com/yorkie-team/yorkie => $VP_RUN_REPO#" harness/go.mod
  export VERIF_REPO=$VP_RUN_REPO
fi
PROPS=${@:-C01 C02 C03 C04 C05 C06 C07 C08 C09 C10 C11 C12 C13 C14 C15 C16 C17 C18 C19 C20}
for p in $PROPS; do
  VERIF_EVIDENCE_DIR=${VERIF_EVIDENCE_DIR:-/tmp/thorough-ev} ./check $p --tier thorough --seed ${VERIF_SEED:-1} 2>&1 | grep -E "^VIOLATION|^INCONCLUSIVE|^  |tier=" | cut -c1-400
done
