#!/bin/bash
# confirm + run (in scratch worktrees) round-4 seeds (one per property, m7) from /tmp/seed4: round4.sh C14 C12 ...
cd /verif
for P in "$@"; do M=m7
  [ -f /tmp/seed4/$P/out/$M/patch.diff ] || continue
  [ -f seeded/$P-$M/result.txt ] && continue
  tools/confirm_seed.sh $P $M /tmp/seed4 2>&1 | tail -2
  [ -d seeded/$P-$M ] || continue
  tools/seedrun_wt.sh $P-$M $P 2>&1 | tail -3 | tee seeded/$P-$M/result.txt
done
