#!/bin/bash
# confirm + run (in scratch worktrees) round-3 seeds that are ready and not yet processed: round3b.sh C10 C05 ...
cd /verif
for P in "$@"; do for M in m5 m6; do
  [ -f /tmp/seed3/$P/out/$M/patch.diff ] || continue
  [ -f seeded/$P-$M/result.txt ] && continue
  tools/confirm_seed.sh $P $M /tmp/seed3 2>&1 | tail -2
  [ -d seeded/$P-$M ] || continue
  tools/seedrun_wt.sh $P-$M $P 2>&1 | tail -3 | tee seeded/$P-$M/result.txt
done; done
