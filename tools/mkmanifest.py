#!/usr/bin/env python3
"""Regenerates /verif/MANIFEST.json from checkspec.py + the texts below."""
import json, os, subprocess, sys
ROOT = os.path.dirname(os.path.dirname(os.path.abspath(__file__)))
sys.path.insert(0, ROOT)
from checkspec import SPEC
props = [json.loads(l) for l in open(os.path.join(ROOT, "properties.jsonl"))]

TEXT = {
 "C01": ("random multi-client histories through the real in-process server (memdb) with real clients; oracle: no failing sync/attach, byte-identical replicas after a quiescent round, clone==root, final-round-order twin; failures shrink to a replayable program", "property-based testing (rapid): generated programs-as-data, metamorphic twin run"),
 "C02": ("generated histories under snapshot interval/threshold 1..6 with late attachers, cache purge/remove and tail edits on snapshot-fed replicas; differential oracle: every server rebuild == from-scratch log replay, snapshot-fed == change-fed replicas, and (for causally ordered histories) == a no-snapshot twin run", "property-based testing (rapid): differential against log replay + twin run"),
 "C03": ("the identical generated program is run with GC on and GC off; any failing sync/rebuild or content difference is a violation; known finding F2 excluded by construction", "property-based testing (rapid): differential twin (GC on vs off)"),
 "C04": ("recorded request/response history of real clients (incl. lost responses and push-only) checked against the stored log: gap-free 1..N, per-actor clientSeq order, exact delivery to every client, monotone checkpoints", "property-based testing (rapid): history invariant over recorded traffic"),
 "C05": ("every storage event and every response of every sync step of generated programs is faulted once (enumerated per program), with immediate and deferred retry; log uniqueness, convergence and equality with the fault-free twin", "fault enumeration over generated programs (rapid) with a database decorator"),
 "C06": ("clock causality checked at creation time of every local change against harness-tracked applied clocks; stored-log clock invariants; minimum vector of every response bounded by what attached clients acknowledged (tracked client-side)", "property-based testing (rapid): history invariants over recorded traffic"),
}
checks = []
for pid in sorted(SPEC):
    spec = SPEC[pid]
    text, tech = TEXT.get(pid, (spec["rule"][:300], "property-based testing (rapid)"))
    checks.append({
        "property_id": pid,
        "quick_cmd": "./check %s --tier quick" % pid,
        "thorough_cmd": "./check %s --tier thorough" % pid,
        "evidence_file": "evidence/%s.json" % pid,
        "replay_cmd_template": "./check %s --replay {path}" % pid,
        "engine": spec.get("engine", "world"),
        "level_claimed": {"category": spec.get("level", "exploration"), "text": text, "design_ref": "DESIGN.md §6 " + pid},
        "level_note": "; ".join(spec.get("assumptions", [])) or "sampling of a generated space against the stated oracle; not exhaustive",
        "technique": tech,
    })
hooks = subprocess.run(["git", "-C", "/repo", "log", "--format=%h %s"], capture_output=True, text=True).stdout.splitlines()
hook_commits = [l.split()[0] for l in hooks if "verif hook" in l]
m = {
 "version": 1,
 "setup_cmd": "./check --setup",
 "hooks": {"guard": "verif", "enable": "the checks build /repo through the harness module with `go test -c -tags verif`",
           "baseline_off_cmd": "cd /repo && go test -vet=off -count=1 ./...", "source_commits": hook_commits, "add_only": True},
 "engines": [
  {"name": "world", "path": "harness/world + harness/prog", "serves_properties": [c["property_id"] for c in checks if c["engine"] == "world"],
   "kind_free_text": "real server (memdb) + real clients in one process, harness-owned schedule, transport recorder, database decorator; rapid program generation and shrinking"},
 ],
 "checks": checks,
 "not_applicable": [{"property_id": p["id"], "reason": "check not built yet in this session; will be claimed once its check exists"} for p in props if p["id"] not in SPEC],
 "notes": "exit 0 held / 1 VIOLATION / 2 inconclusive. Known findings: known_findings.json; regression replays: replays/regress/<id>/.",
}
json.dump(m, open(os.path.join(ROOT, "MANIFEST.json"), "w"), indent=1)
print("claimed:", [c["property_id"] for c in checks])
