#!/usr/bin/env python3
"""Regenerates /verif/MANIFEST.json from checkspec.py + the texts below."""
import json, os, subprocess, sys
ROOT = os.path.dirname(os.path.dirname(os.path.abspath(__file__)))
sys.path.insert(0, ROOT)
from checkspec import SPEC
props = [json.loads(l) for l in open(os.path.join(ROOT, "properties.jsonl"))]

TEXT = {
 "C01": ("random multi-client histories through the real in-process server (memdb) with real clients; oracle: no failing sync/attach, byte-identical replicas after a quiescent round, clone==root, final-round-order twin; failures shrink to a replayable program", "property-based testing (rapid): generated programs-as-data, metamorphic twin run"),
 "C02": ("generated histories under snapshot interval/threshold 1..6 with late attachers, cache purge/remove and tail edits on snapshot-fed replicas; differential oracle: every server rebuild == from-scratch log replay, snapshot-fed == change-fed replicas, and (for causally ordered histories) == a no-snapshot twin run", "property-based testing (rapid): differential against log replay + twin run"),
 "C03": ("the identical generated program is run with GC off and GC on (same exclusion decisions); any failing sync/rebuild or content difference is a violation; known findings F2, F48 excluded by construction; schedules include lost responses and edits made while the sync request is in flight, staggered-purge and in-flight episodes (snapshot-served laggard)", "property-based testing (rapid): differential twin (GC on vs off)"),
 "C04": ("recorded request/response history of real clients (incl. lost responses, push-only) checked against the stored log: gap-free 1..N, per-actor clientSeq order, exact delivery, monotone checkpoints; parallel part under -race with a duplicate-request peer; part inflight: two requests of one client in flight together under a schedule the harness owns (park points via lock hook H3 and the DB decorator)", "property-based testing (rapid): history invariant over recorded traffic; parallel workloads; owned two-request schedules"),
 "C05": ("every storage event and every response of every sync step of generated programs is faulted once (enumerated per program), with immediate and deferred retry; log uniqueness, convergence and counter equality with the fault-free twin; part inflight: the repetition is sent while the original is still in flight (owned schedule)", "fault enumeration over generated programs (rapid) with a database decorator; owned two-request schedules"),
 "C06": ("clock causality checked at creation time of every local change against harness-tracked applied clocks (log-derived for snapshots); stored-log clock invariants; minimum vector of every response bounded by what attached clients acknowledged (tracked client-side); strata: GC-free attachments, edits made while a sync is in flight, orphan stratum (all clients detach; lamport rules only)", "property-based testing (rapid): history invariants over recorded traffic"),
 "C07": ("model-based: every editing call on non-pristine replicas (tombstones, split nodes, dead slots from a generated two-replica history, snapshot round trips, safe GC) compared with plain Go models (UTF-16 slice + attributes, slice, map, wrap-around ints, XML splice) and index/path round trips; substrate trees vs slice models; small-scope enumerations in thorough", "property-based testing (rapid): reference models + small-scope enumeration"),
 "C08": ("generated histories with failing Updates (error, panic, schema, size) at drawn positions, remote packs, snapshots, safe GC, undo/redo; clone==root after every step and full pre-state equality around a failed Update; alphabet incl. YSON entry points, dedup counters, tree split/merge/index styles, up to 3 edits per callback", "property-based testing (rapid): invariant + before/after equality"),
 "C09": ("behavioural round-trip equivalence of every pack/snapshot/vector/stored row produced by generated histories (direct world vs wire world incl. physical node order and a metamorphic tail), structured protobuf mutants and native fuzz targets fed to the 8 decoders: value or error, never panic/crash/hang", "property-based testing (rapid) round trip + structured mutation; native go fuzzing (thorough)"),
 "C10": ("generated history -> compaction through the real cluster RPC (refused while attached, forced, all-detached, empty content, second compaction) -> stale sync/detach, fresh attach; epoch, content, error code and log-row oracles", "property-based testing (rapid): scenario oracle over generated histories"),
 "C11": ("words over a 28-letter lifecycle alphabet (+ PushOnly in random words) sent as raw RPCs, exhaustive up to length 4/5 (canonical under renaming) and random 6..10; reference automaton from the lifecycle document decides accept/reject; stored-row, removed-flag, status and GC-probe oracles", "small-scope exhaustive enumeration + rapid, reference automaton"),
 "C12": ("histories mixing presence writes with edits, attach options, detach/deactivate/late attach and snapshots; replicas agree on exactly the attached actors with each actor's own view; presenceless documents store/return/snapshot nothing", "property-based testing (rapid): convergence + server-side invariants"),
 "C13": ("all 64 procedures from the service descriptors x generated identifier picks x 12 credentials over raw Connect; victim state byte-identical, no planted secret in any response, admin/cluster credentials enforced, rotated keys dead; owner's calls on a control project for non-vacuity", "property-based testing (rapid) over an enumerated procedure set"),
 "C14": ("stack model of normalised (before, after) contents over the content alphabet with nested undo/redo on replicas carrying tombstones; robustness stratum; peer application of produced changes; small-scope enumeration in thorough", "property-based testing (rapid): stack model + enumeration"),
 "C15": ("enumerated sub-scope (406 200 words: 2 clients, one edit each, undo/redo, all interleavings, <=3 syncs) + random strata incl. undo after GC, staggered undo, serial multi-writer histories with multi-operation updates, style-only histories; C01 oracle on content; F6/F10/F11/F33/F48/F49 excluded by construction", "small-scope exhaustive enumeration + rapid"),
 "C16": ("generated parallel workloads (clients x documents, background compaction/history views/housekeeping, snapshot storms) under the race detector with a supervising parent process; no race, no deadlock (watchdog + goroutine dump), C01/C04 oracles on the outcome, no goroutine leak; lock-discipline recorder on every named-lock event (hook H3: per-goroutine order doc->pull->attachment->push, no re-acquisition) with seeded yield injection at lock boundaries and storage calls; generated three-request schedules owned through the hook (park/second/writer/release) that must all return", "property-based testing (rapid) of parallel workloads and owned schedules under -race, lock-order invariant over the recorded lock events"),
 "C17": ("generated concurrent subscribe/unsubscribe/publish scripts directly on PubSub under -race with entry/exit stamps; every draining subscriber is told (or closed) about publishes after its Subscribe; stall episodes (pruned subscribers must see their channel closed); churn; no leak, no panic; unsubscribe-vs-subscribe race loop", "property-based testing (rapid) of concurrent scripts under -race"),
 "C18": ("generated YSON literals (hostile strings, all primitives, counters incl. dedup registers, attributed text/trees) and reachable documents: SetYSON(FromCRDT(d)) round trip, stored-change round trip, textual Unmarshal(Marshal), server revision restore and compaction", "property-based testing (rapid): grammar-based generation + round trips"),
 "C19": ("upstream's five operation x range matrices as data x both push orders x clock arrangements/roles (4 quick, 6 thorough) x third snapshot-fed client at every cut (none / after both pushes / between the pushes) = 38 208 (quick) / 57 312 (thorough) named cases through the real server, each tier exhaustive over its declared space", "exhaustive enumeration of a finite case matrix"),
 "C20": ("ChangeStore vs ground-truth table with holes, fetcher faults and a covered-set model; LRU caches vs reference models; snapshot cache end-to-end: warm-cache builds and history views (incl. sequences beyond the head) == log replay, compaction steps", "property-based testing (rapid): reference models"),
}
ENGINE = {"C07": "replica-models", "C08": "replica-models", "C09": "replica-models", "C14": "replica-models", "C18": "replica-models",
          "C20": "replica-models", "C16": "schedule", "C17": "schedule"}
checks = []
for pid in sorted(SPEC):
    spec = SPEC[pid]
    text, tech = TEXT.get(pid, (spec["rule"][:300], "property-based testing (rapid)"))
    checks.append({
        "property_id": pid,
        "quick_cmd": "./check %s --tier quick" % pid,
        "thorough_cmd": "./check %s --tier thorough" % pid,
        "evidence_file": "evidence/%s.json" % pid,
        "replay_cmd_template": "./check %s --replay {path}" % pid,
        "engine": ENGINE.get(pid, "world"),
        "level_claimed": {"category": spec.get("level", "exploration"), "text": text, "design_ref": "DESIGN.md §6 " + pid},
        "level_note": "; ".join(spec.get("assumptions", [])) or "sampling of a generated space against the stated oracle; not exhaustive",
        "technique": tech,
    })
hooks = subprocess.run(["git", "-C", "/repo", "log", "--format=%h %s"], capture_output=True, text=True).stdout.splitlines()
hook_commits = [l.split()[0] for l in hooks if "verif hook" in l]
fix_commits = [l.split()[0] for l in hooks if l.split(" ", 1)[1].startswith("fix:")]
m = {
 "version": 1,
 "setup_cmd": "./check --setup",
 "hooks": {"guard": "verif", "enable": "the checks build /repo through the harness module with `go test -c -tags verif`",
           "baseline_off_cmd": "cd /repo && go test -vet=off -count=1 ./...", "source_commits": hook_commits, "add_only": True},
 "engines": [
  {"name": "world", "path": "harness/world + harness/prog + harness/props", "serves_properties": [c["property_id"] for c in checks if c["engine"] == "world"],
   "kind_free_text": "real server (memdb) + real clients in one process, harness-owned schedule, transport recorder, database decorator; rapid program generation and shrinking; enumerators"},
  {"name": "replica-models", "path": "harness/c07 c08 c09 c14 c18 c20", "serves_properties": [c["property_id"] for c in checks if c["engine"] == "replica-models"],
   "kind_free_text": "in-memory replicas exchanging packs through the protobuf converter, reference models, structured mutators, native fuzz targets"},
  {"name": "schedule", "path": "harness/c16 c17 + harness/kit (supervisor)", "serves_properties": [c["property_id"] for c in checks if c["engine"] == "schedule"],
   "kind_free_text": "goroutine workloads under the race detector; child-process supervisor turns races/crashes into replayable violations"},
 ],
 "checks": checks,
 "not_applicable": [{"property_id": p["id"], "reason": "check not built yet in this session; will be claimed once its check exists"} for p in props if p["id"] not in SPEC],
 "notes": "exit 0 held / 1 VIOLATION / 2 inconclusive. Known findings: known_findings.json (open: KNOWN-FINDING line + exclusion by construction; fixed: regression replay under replays/regress/<id>/). fix: commits in /repo: " + " ".join(fix_commits) + ". Seeded regressions: seeded/ (round 1: 40 of 40 caught; round 2: 40 of 40; DESIGN.md section 9).",
}
json.dump(m, open(os.path.join(ROOT, "MANIFEST.json"), "w"), indent=1)
print("claimed:", [c["property_id"] for c in checks])
