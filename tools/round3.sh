#!/bin/bash
# confirm + run round-2 seeds that are ready and not yet processed
cd /verif
for P in "$@"; do for M in m5 m6; do
  [ -f /tmp/seed3/$P/out/$M/patch.diff ] || continue
  [ -f seeded/$P-$M/result.txt ] && continue
  tools/confirm_seed.sh $P $M /tmp/seed3 2>&1 | tail -2
  [ -d seeded/$P-$M ] || continue
  if git -C /repo apply --check /verif/seeded/$P-$M/patch.diff 2>/dev/null; then
    tools/seedrun.sh $P-$M $P 2>&1 | grep -v KNOWN | tail -2 | tee seeded/$P-$M/result.txt
  else echo "$P-$M: patch does not apply to /repo HEAD" | tee seeded/$P-$M/result.txt; fi
done; done
