#!/bin/bash
# usage: seedrun.sh <seeded-dir-name> <prop> [tier] [seed]  — apply a seeded change to /repo, run one check, undo it.
set -u
S=/verif/seeded/$1; P=$2; T=${3:-quick}; SEED=${4:-1}
[ -z "$(git -C /repo status --porcelain)" ] || { echo "/repo not clean"; exit 2; }
git -C /repo apply $S/patch.diff || { echo "patch does not apply"; exit 2; }
trap 'git -C /repo checkout -q -- . ; git -C /repo clean -fdq' EXIT
cd /verif && VERIF_EVIDENCE_DIR=/tmp/seedrun-evidence ./check $P --tier $T --seed $SEED 2>&1 | grep -E "^VIOLATION|^KNOWN|^INCONCLUSIVE|tier=" | cut -c1-300
