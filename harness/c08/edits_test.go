package c08

import (
	"fmt"
	"math"

	"github.com/yorkie-team/yorkie/pkg/document/crdt"
	"github.com/yorkie-team/yorkie/pkg/document/json"
	"github.com/yorkie-team/yorkie/pkg/document/presence"

	"verifharness/prog"
)

// editIn applies one edit of the shared alphabet (same shapes and the same
// modulo resolution as prog.ApplyEdit) through the proxies handed to an
// updater, so that several edits can run inside ONE callback and the callback
// can fail after any of them. It reports whether the edit issued an operation
// or a presence change (i.e. mutated the clone).
func editIn(cx *cbCtx, r *json.Object, p *presence.Presence, s prog.Step) (desc string, mutated bool) {
	mutated = true
	if isExtOp(s.Op) {
		// the edits only this package has: every one of them issues an operation
		return editExt(cx, r, p, s), true
	}
	switch s.Op {
	case "pset":
		k := []string{"cursor", "name"}[s.A%2]
		v := fmt.Sprintf("v%d", s.B)
		p.Set(k, v)
		desc = fmt.Sprintf("presence.%s=%s", k, v)
	case "pmix":
		// one callback step that edits the root AND the presence (same shape as prog.ApplyEdit)
		k := []string{"cursor", "name"}[s.A%2]
		v := fmt.Sprintf("m%d", s.B)
		r.SetInteger([]string{"k0", "k1"}[s.C%2], s.B)
		p.Set(k, v)
		desc = fmt.Sprintf("root.k%d=%d + presence.%s=%s", s.C%2, s.B, k, v)
	case "pclear":
		p.Clear()
		desc = "presence.clear"
	case "rootset":
		key := []string{"k0", "k1"}[s.A%2]
		r.SetInteger(key, s.B)
		desc = fmt.Sprintf("root.%s=%d", key, s.B)
	case "rootdel":
		key := []string{"k0", "k1"}[s.A%2]
		mutated = r.Has(key)
		r.Delete(key)
		desc = fmt.Sprintf("root.del %s", key)
	case "oset", "odel", "onest":
		o := r.GetObject("o")
		if o == nil {
			r.SetNewObject("o")
			return "recreate o", true
		}
		key := []string{"x", "y", "z"}[s.A%3]
		switch s.Op {
		case "oset":
			o.SetInteger(key, s.B)
			desc = fmt.Sprintf("o.%s=%d", key, s.B)
		case "odel":
			mutated = o.Has(key)
			o.Delete(key)
			desc = fmt.Sprintf("o.del %s", key)
		case "onest":
			o.SetNewObject(key).SetInteger("n", s.B)
			desc = fmt.Sprintf("o.%s={n:%d}", key, s.B)
		}
	case "replObj":
		r.SetNewObject("o").SetInteger("x", s.B)
		desc = "replace o"
	case "replArr":
		r.SetNewArray("a").AddInteger(100 + s.B)
		desc = "replace a"
	case "replText":
		r.SetNewText("t").Edit(0, 0, "R")
		desc = "replace t"
	case "aadd", "ains", "adel", "amove", "amovefront", "aset":
		a := r.GetArray("a")
		if a == nil {
			r.SetNewArray("a")
			return "recreate a", true
		}
		n := a.Len()
		v := s.C*10 + s.B
		switch {
		case s.Op == "aadd" || n == 0:
			a.AddInteger(v)
			desc = fmt.Sprintf("a.add %d", v)
		case s.Op == "ains":
			a.InsertIntegerAfter(s.A%n, v)
			desc = fmt.Sprintf("a.insAfter %d %d", s.A%n, v)
		case s.Op == "adel":
			a.Delete(s.A % n)
			desc = fmt.Sprintf("a.del %d", s.A%n)
		case s.Op == "aset":
			a.SetInteger(s.A%n, v)
			cx.aset = true
			desc = fmt.Sprintf("a.set %d %d", s.A%n, v)
		case n < 2:
			a.AddInteger(v)
			desc = fmt.Sprintf("a.add %d", v)
		case s.Op == "amove":
			i, j := s.A%n, s.B%n
			if i == j {
				j = (j + 1) % n
			}
			a.MoveAfterByIndex(i, j)
			desc = fmt.Sprintf("a.moveAfter prev=%d target=%d", i, j)
		case s.Op == "amovefront":
			i, j := s.A%n, s.B%n
			if i == j {
				j = (j + 1) % n
			}
			a.MoveBefore(a.Get(i).CreatedAt(), a.Get(j).CreatedAt())
			desc = fmt.Sprintf("a.moveBefore next=%d target=%d", i, j)
		}
	case "tedit", "tstyle":
		tx := r.GetText("t")
		if tx == nil {
			r.SetNewText("t")
			return "recreate t", true
		}
		n := prog.UTF16Len(tx.String())
		from := s.A % (n + 1)
		to := min(n, from+s.B%4)
		if s.Op == "tedit" {
			c := prog.Contents[s.C%len(prog.Contents)]
			if c == "" && from == to {
				c = "q"
			}
			tx.Edit(from, to, c)
			desc = fmt.Sprintf("t.edit %d %d %q", from, to, c)
		} else {
			key := []string{"b", "i"}[s.C%2]
			val := []string{"1", "2"}[(s.C/2)%2]
			tx.Style(from, to, map[string]string{key: val})
			desc = fmt.Sprintf("t.style %d %d %s=%s", from, to, key, val)
		}
	case "cinc":
		c := r.GetCounter("c")
		if c == nil {
			r.SetNewCounter("c", 0)
			return "recreate c", true
		}
		v := s.B - 3
		if s.C == 8 {
			v = math.MaxInt32 - s.B // wraps a 32-bit counter
		}
		c.Increase(v)
		desc = fmt.Sprintf("c.inc %d", v)
	case "trtext", "trins", "trdel", "trstyle":
		tr := r.GetTree("tr")
		if tr == nil {
			r.SetInteger("k0", 0)
			return "no tree", true
		}
		if !simpleShape(tr.Tree) {
			// The structure-preserving edits address doc > p* > text* by
			// path. Once an edit by index has left text directly under the
			// root or nested elements, those paths are not valid any more:
			// the edit is executed as its by-index counterpart.
			op := map[string]string{"trtext": "tredit", "trins": "tredit", "trdel": "trmerge", "trstyle": "trstylex"}[s.Op]
			c := s.C
			switch s.Op {
			case "trtext":
				c = 1 + s.C%2 // a text
			case "trins":
				c = 3 + s.C%2 // an element
			}
			cx.count("tree_structured_edit_on_free_shape")
			return "tr: " + treeExt(cx, tr, prog.Step{Op: op, A: s.A*8 + s.B, B: s.B, C: c}), true
		}
		var ps []*crdt.TreeNode
		for _, ch := range tr.Root().Index.Children() {
			ps = append(ps, ch.Value)
		}
		if s.Op != "trins" && len(ps) == 0 {
			tr.EditByPath([]int{0}, []int{0}, &json.TreeNode{Type: "p"}, 0)
			return "tr.insP at 0", true
		}
		switch s.Op {
		case "trins":
			i := s.A % (len(ps) + 1)
			c := []string{"", "q", "rs"}[s.C%3]
			node := &json.TreeNode{Type: "p"}
			if c != "" {
				node.Children = []json.TreeNode{{Type: "text", Value: c}}
			}
			tr.EditByPath([]int{i}, []int{i}, node, 0)
			desc = fmt.Sprintf("tr.insP at %d %q", i, c)
		case "trdel":
			i := s.A % len(ps)
			tr.EditByPath([]int{i}, []int{i + 1}, nil, 0)
			desc = fmt.Sprintf("tr.delP %d", i)
		case "trstyle":
			i := s.A % len(ps)
			j := min(len(ps), i+1+(s.B/2)%3)
			if s.C%2 == 0 {
				tr.RemoveStyleByPath([]int{i}, []int{j}, []string{"b"})
				desc = fmt.Sprintf("tr.rmstyle %d..%d", i, j)
			} else {
				val := []string{"1", "2"}[s.B%2]
				tr.StyleByPath([]int{i}, []int{j}, map[string]string{"b": val})
				desc = fmt.Sprintf("tr.style %d..%d b=%s", i, j, val)
			}
		case "trtext":
			i := s.A % len(ps)
			plen := ps[i].Index.Len()
			from := s.B % (plen + 1)
			to := min(plen, from+s.C%3)
			c := []string{"", "X", "YZ"}[(s.C/3)%3]
			if from == to && c == "" {
				c = "W"
			}
			var node *json.TreeNode
			if c != "" {
				node = &json.TreeNode{Type: "text", Value: c}
			}
			tr.EditByPath([]int{i, from}, []int{i, to}, node, 0)
			desc = fmt.Sprintf("tr.text p%d %d..%d %q", i, from, to, c)
		}
	default:
		panic(harnessBug("unknown edit op " + s.Op))
	}
	return desc, mutated
}

// harnessBug marks a panic raised by the harness itself (never by the code
// under test).
type harnessBug string
