package c08

import (
	"fmt"
	"os"
	"testing"

	"pgregory.net/rapid"
)

func TestDbgAborts(t *testing.T) {
	seen := map[string]int{}
	gen := genCase()
	rapid.Check(t, func(rt *rapid.T) {
		c := gen.Draw(rt, "case")
		o := evaluate(c)
		key := o.Abort
		if o.Diverged {
			key = "diverged"
		}
		if key != "" && seen[key] < 3 && len(c.Steps) < 12 {
			seen[key]++
			fmt.Fprintf(os.Stderr, "=== %s\n%s\n", key, c.compact())
			for _, h := range o.Hist {
				fmt.Fprintf(os.Stderr, "   %s\n", h)
			}
		}
	})
}
