// Package c08 checks property C08: Document.Update is all-or-nothing and the
// copy handed to user callbacks (Root()) always shows the same content as the
// authoritative document (Marshal()).
//
// A case is a plain value (a list of steps with raw integer parameters) drawn
// up front by rapid and executed by a total interpreter on one Document D and
// an in-memory second replica P; parameters are resolved modulo the current
// state, so every generated step is an input the public API accepts.
//
// The edit alphabet is the shared prog alphabet (edits_test.go) plus the
// entry points only this package calls (ext_test.go): the YSON entry points
// with tabled / copied values, dedup counters, and tree edits by index
// (splits, boundary-crossing deletes, styles over arbitrary index ranges,
// nested content).
package c08

import (
	"bytes"
	"encoding/hex"
	gojson "encoding/json"
	"errors"
	"fmt"
	"hash/fnv"
	"os"
	"sort"
	"strings"
	"testing"

	"google.golang.org/protobuf/proto"
	"pgregory.net/rapid"

	"github.com/yorkie-team/yorkie/api/converter"
	"github.com/yorkie-team/yorkie/api/types"
	api "github.com/yorkie-team/yorkie/api/yorkie/v1"
	"github.com/yorkie-team/yorkie/pkg/document"
	"github.com/yorkie-team/yorkie/pkg/document/change"
	"github.com/yorkie-team/yorkie/pkg/document/crdt"
	"github.com/yorkie-team/yorkie/pkg/document/json"
	"github.com/yorkie-team/yorkie/pkg/document/operations"
	"github.com/yorkie-team/yorkie/pkg/document/presence"
	"github.com/yorkie-team/yorkie/pkg/document/time"
	"github.com/yorkie-team/yorkie/pkg/key"

	"verifharness/kit"
	"verifharness/prog"
	"verifharness/stats"
)

const (
	propID     = "C08"
	replayKind = "c08case"
	docKey     = key.Key("c08-doc")
)

func init() { kit.Pkg = "c08" }

// ---------------------------------------------------------------------------
// The case (program-as-data)

// Step is one step of a history.
//
//	edit   D: one successful Update running Edits (1..3 edits)
//	fail   D: one Update whose callback runs the first K' edits and then fails
//	       according to Mode (error | panic | schema | size)
//	pedit  P: one Update running Edits (1..2 edits)
//	pull   the first n pending changes of P are delivered to D (D keeps its own)
//	push   the first n pending changes of D are delivered to P and acknowledged
//	sync   full exchange in both directions (A odd: the packs carry the safe GC vector)
//	snap   D receives a snapshot of P's root after pushing a prefix of its pending changes
//	gc     D and P collect garbage at the safe vector
//	undo   D.Undo() when CanUndo
//	redo   D.Redo() when CanRedo
type Step struct {
	Op    string      `json:"op"`
	Edits []prog.Step `json:"e,omitempty"`
	Mode  string      `json:"m,omitempty"`
	K     int         `json:"k,omitempty"`
	A     int         `json:"a,omitempty"`
	// Probe: right after a failed Update run one fixed valid Update and check
	// that it succeeds and is visible in Root() and Marshal().
	Probe bool `json:"probe,omitempty"`
}

// Case is a complete generated history.
type Case struct {
	Steps []Step `json:"steps"`
}

func (c Case) compact() string {
	b, _ := gojson.Marshal(c)
	return string(b)
}

func (c Case) hash() uint64 {
	h := fnv.New64a()
	_, _ = h.Write([]byte(c.compact()))
	return h.Sum64()
}

func (c Case) size() int {
	n := 0
	for _, s := range c.Steps {
		n += 3 + 2*len(s.Edits)
	}
	return n
}

// ---------------------------------------------------------------------------
// Generator

var editKinds = []string{"obj", "nested", "arr", "move", "aset", "text", "tstyle", "counter", "tree", "pres"}

var stepPool = []string{
	"edit", "edit", "edit", "edit", "edit", "edit",
	"fail", "fail", "fail", "fail", "fail", "fail",
	"pedit", "pedit", "pedit", "pedit",
	"pull", "pull", "pull", "push", "push", "sync", "sync",
	"snap", "gc", "gc", "undo", "undo", "redo", "redo",
}

var failModes = []string{"error", "error", "error", "panic", "panic", "schema", "schema", "size", "size"}

func genEdit(pool []string) *rapid.Generator[prog.Step] {
	return rapid.Custom(func(t *rapid.T) prog.Step {
		op := rapid.SampledFrom(pool).Draw(t, "op")
		if isExtOp(op) {
			// the edits of this package select among more alternatives
			// (entry point x key x shape, 22 tabled leaves, index ranges of a
			// tree) than the shared ones
			return prog.Step{
				Op: op,
				A:  rapid.IntRange(0, 71).Draw(t, "a"),
				B:  rapid.IntRange(0, 43).Draw(t, "b"),
				C:  rapid.IntRange(0, 71).Draw(t, "c"),
			}
		}
		return prog.Step{
			Op: op,
			A:  rapid.IntRange(0, 7).Draw(t, "a"),
			B:  rapid.IntRange(0, 7).Draw(t, "b"),
			C:  rapid.IntRange(0, 8).Draw(t, "c"),
		}
	})
}

func opsOfKind(k string) []string {
	if ops, ok := extOpsByKind[k]; ok {
		return ops
	}
	return prog.OpsByKind[k]
}

func genCase() *rapid.Generator[Case] {
	maxSteps := kit.Pick(24, 40)
	kinds := append(append([]string{}, editKinds...), extKinds...)
	return rapid.Custom(func(t *rapid.T) Case {
		// A case edits a drawn subset of the element kinds so that the edits
		// of D, of its failing callbacks and of P collide on the same
		// containers.
		mask := rapid.IntRange(1, (1<<len(kinds))-1).Draw(t, "kinds")
		switch rapid.IntRange(0, 7).Draw(t, "focus") {
		case 0, 1:
			mask = (1 << len(kinds)) - 1
		case 2:
			// the entry points only this package calls, alone or with a
			// few of the shared kinds
			mask = mask&((1<<len(editKinds))-1)&rapid.IntRange(0, (1<<len(editKinds))-1).Draw(t, "few") |
				rapid.IntRange(1, (1<<len(extKinds))-1).Draw(t, "ext")<<len(editKinds)
		}
		var pool []string
		var oneKind []*rapid.Generator[prog.Step]
		for i, k := range kinds {
			if mask&(1<<i) != 0 {
				pool = append(pool, opsOfKind(k)...)
				oneKind = append(oneKind, genEdit(opsOfKind(k)))
			}
		}
		all := genEdit(pool)
		step := rapid.Custom(func(t *rapid.T) Step {
			s := Step{Op: rapid.SampledFrom(stepPool).Draw(t, "step")}
			edit := all
			switch s.Op {
			case "edit", "pedit", "fail":
				// one callback in three works on ONE kind of element (split then
				// style, create then add, set then copy, ...)
				if rapid.IntRange(0, 2).Draw(t, "onekind") == 0 {
					edit = oneKind[rapid.IntRange(0, len(oneKind)-1).Draw(t, "kind")]
				}
			}
			switch s.Op {
			case "edit":
				s.Edits = rapid.SliceOfN(edit, 1, 3).Draw(t, "edits")
			case "pedit":
				s.Edits = rapid.SliceOfN(edit, 1, 2).Draw(t, "edits")
			case "fail":
				s.Mode = rapid.SampledFrom(failModes).Draw(t, "mode")
				s.Edits = rapid.SliceOfN(edit, 0, 4).Draw(t, "edits")
				s.K = rapid.IntRange(0, 4).Draw(t, "k")
				s.A = rapid.IntRange(0, 7).Draw(t, "a")
				s.Probe = rapid.Bool().Draw(t, "probe")
			case "pull", "push", "sync", "snap":
				s.A = rapid.IntRange(0, 4).Draw(t, "a")
			}
			return s
		})
		return Case{Steps: rapid.SliceOfN(step, 1, maxSteps).Draw(t, "steps")}
	})
}

// ---------------------------------------------------------------------------
// Interpreter

type runOpts struct {
	// skip (twin run used to attribute a final D/P divergence): the indices
	// of the steps whose Update failed in the main run; the twin leaves
	// exactly those updates out and executes everything else identically.
	skip   map[int]bool
	noExcl bool
}

type outcome struct {
	Fail       *kit.Failure
	Hist       []string
	Ev         map[string]int
	NonTrivial bool
	// Abort names the reason the evaluation stopped early because a step
	// outside the property (peer update, pack application, GC, undo) failed.
	Abort string
	// Diverged: D and P differ after the final exchange.
	Diverged bool
	// FailedSteps: indices of the steps whose Update failed.
	FailedSteps map[int]bool
	// TwinDeviated: an update that succeeded in the main run failed in the twin.
	TwinDeviated bool
	// ConcurrentSM: both replicas made split / merge edits of a tree that
	// were concurrent (neither had seen the other's).
	ConcurrentSM bool
	// Step: index of the step at which the run ended (failure or abort).
	Step int
	// DrawnUpdateRejected: the failure is a drawn valid update (not the fixed
	// probe) that was rejected after a failed update.
	DrawnUpdateRejected bool
}

type world struct {
	D, P      *document.Document
	serverSeq int64
	probeSeq  int
	ev        map[string]int
	hist      []string
	opts      runOpts

	// bookkeeping for the non-trivial rule and the "next valid Update" oracle
	// born remembers the version vector every local change carried when it
	// was made, keyed by replica and clientSeq: the vector of a still pending
	// change is not stable in the code under test (it shares its map with the
	// document's clock and moves when a remote change is applied).
	born [2]map[uint32]time.VersionVector

	dUpdates        int  // Update calls made on D (successful or failing)
	remoteArrived   bool // a remote pack/snapshot reached D after >= 1 local update
	failedSinceGood bool // a failing update happened and no valid D update succeeded since
	failedSteps     map[int]bool
	// f6Seqs: clientSeq of D's changes made by an undo/redo whose entry held
	// an Object.Set (trigger of known finding F6 when such a change is
	// applied as a remote change).
	f6Seqs map[uint32]bool
	cur    int
	// epilogue: the fixed closing steps are running (they do not count for
	// the non-trivial rule).
	epilogue     bool
	twinDeviated bool

	// Concurrent split/merge bookkeeping (restriction of the final D/P
	// convergence oracle, see evaluate): smSeqs[i] holds the clientSeq of the
	// changes of replica i (0 = D, 1 = P) that split an element or deleted
	// across an element boundary; everSM[0]: D ever made such a change (its
	// undo/redo changes then count as such, too).
	smSeqs       [2]map[uint32]bool
	everSM       [2]bool
	concurrentSM bool

	drawnUpdateRejected bool

	// asetSeen: an ArraySet was executed on either replica (trigger of F46,
	// see gcGuard).
	asetSeen bool
}

// unregisteredGarbage reports whether D's authoritative root holds garbage
// (tombstoned elements, dead array slots, removed text/tree nodes) that its GC
// bookkeeping does not know: a root rebuilt from a deep copy of it -- what the
// next Root() hands out after the clone was dropped -- registers everything
// that is physically there.
func unregisteredGarbage(d *document.Document) bool {
	cp, err := d.RootObject().DeepCopy()
	if err != nil {
		return false
	}
	have, fresh := d.InternalDocument().Root(), crdt.NewRoot(cp.(*crdt.Object))
	// internal nodes (dead array slots, removed text / tree nodes, attributes)
	if have.GarbageLen()-have.GarbageElementLen() != fresh.GarbageLen()-fresh.GarbageElementLen() {
		return true
	}
	// tombstoned elements
	hm, fm := have.GCElementPairMap(), fresh.GCElementPairMap()
	if len(hm) != len(fm) {
		return true
	}
	for k := range fm {
		if _, ok := hm[k]; !ok {
			return true
		}
	}
	return false
}

// gcGuard is evaluated BEFORE a garbage collection runs on D. Known finding
// F46: the element replaced by an ArraySet is tombstoned without GC
// registration on the executing root (json/array.go setByIndexInternal says so
// in a TODO; operations/array_set.go), while a root rebuilt from a deep copy --
// the clone after a failed Update, a failed Undo, ... -- registers every
// tombstone that is physically there. A collection then purges the tombstone
// on the clone only, and since tombstones act as RGA barriers a later insert /
// move / set lands at different places on the two: Root() != Marshal().
// Trigger: an ArraySet was executed in this history AND the authoritative
// root holds unregistered garbage right now. The collection is then left out.
func (w *world) gcGuard() bool {
	if w.opts.noExcl || !w.asetSeen || !unregisteredGarbage(w.D) {
		return false
	}
	w.ev["excluded:F46"]++
	return true
}

func nonPrimitive(e crdt.Element) bool {
	switch e.(type) {
	case *crdt.Primitive:
		return false
	}
	return e != nil
}

// restoresDuplicate inspects the history entry an Undo/Redo is about to
// execute (known finding F6, family): the reverse of a Set / Remove / ArraySet
// re-inserts a deep copy of the element that was replaced or removed. The
// Set reverse keeps the copy's creation ticket (F6 proper); the Add and
// ArraySet reverses give the copy itself a fresh one (document.go
// executeUndoRedo explains why: "the restored element and its own tombstone
// would collide under the same identity") -- but everything INSIDE the copy
// keeps its identity: nested containers / counters / texts / trees, and the
// internal garbage nodes of arrays, texts and trees (dead slots, removed
// nodes). While the original is still held by the root as a tombstone, two
// things share one identity. crdt.Root keys its element map and its GC maps by
// identity, last registration wins: the executing root registers the copy
// last, a root rebuilt from a deep copy (the clone after a failed Update)
// registers in traversal order. A later operation addressed to such an
// identity, or a later collection, then acts on different objects on the
// authoritative root and on the copy handed to callbacks.
// It reports true when the entry would create such a duplicate.
func restoresDuplicate(d *document.Document, top []document.HistoryOperation) bool {
	var present map[string]bool
	held := func(e crdt.Element) bool {
		if present == nil {
			present = map[string]bool{}
			d.RootObject().Descendants(func(x crdt.Element, _ crdt.Container) bool {
				if nonPrimitive(x) {
					present[x.CreatedAt().Key()] = true
				}
				return false
			})
		}
		return present[e.CreatedAt().Key()]
	}
	innerGarbage := func(e crdt.Element) bool {
		switch x := e.(type) {
		case *crdt.Array:
			return len(x.GCPairs()) > 0
		case *crdt.Text:
			return len(x.GCPairs()) > 0
		case *crdt.Tree:
			return len(x.GCPairs()) > 0
		}
		return false
	}
	dup := false
	for _, h := range top {
		var v crdt.Element
		switch op := h.Op.(type) {
		case *operations.Set:
			v = op.Value()
		case *operations.Add:
			v = op.Value()
		case *operations.ArraySet:
			v = op.Value()
		}
		if v == nil || !nonPrimitive(v) {
			continue
		}
		// the copy itself: its internal nodes
		if innerGarbage(v) && held(v) {
			return true
		}
		if c, ok := v.(crdt.Container); ok {
			c.Descendants(func(e crdt.Element, _ crdt.Container) bool {
				if nonPrimitive(e) && held(e) {
					dup = true
				}
				return dup
			})
		}
		if dup {
			return true
		}
	}
	return false
}

// noteSplitMerge is called right after replica i (0 = D, 1 = P) made a
// change that contains a split / merge. The change is concurrent with every
// split / merge change the other replica has made and not yet delivered.
func (w *world) noteSplitMerge(i int) {
	docs := [2]*document.Document{w.D, w.P}
	for _, c := range docs[1-i].CreateChangePack().Changes {
		if w.smSeqs[1-i][c.ClientSeq()] {
			if !w.concurrentSM {
				w.ev["hist_concurrent_split_merge_on_both_sides"]++
			}
			w.concurrentSM = true
			break
		}
	}
	w.everSM[i] = true
	w.smSeqs[i][lastSeq(docs[i], docs[i].CreateChangePack().Changes)] = true
}

var errDeliberate = errors.New("c08: deliberate updater failure")

type deliberatePanic struct{}

// callUpdate runs d.Update and recovers a panic the way a user who wraps
// doc.Update in recover() would.
func callUpdate(d *document.Document, fn func(r *json.Object, p *presence.Presence) error) (err error, panicked any) {
	defer func() {
		if r := recover(); r != nil {
			panicked = r
		}
	}()
	return d.Update(fn), nil
}

func guarded(fn func() error) (err error, panicked any) {
	defer func() {
		if r := recover(); r != nil {
			panicked = r
		}
	}()
	return fn(), nil
}

func (w *world) logf(format string, a ...any) { w.hist = append(w.hist, fmt.Sprintf(format, a...)) }

// wire passes changes through the protobuf encoding, as a real client/server
// exchange does, so the two replicas never share operation or element values.
func wire(changes []*change.Change) ([]*change.Change, error) {
	if len(changes) == 0 {
		return nil, nil
	}
	pb, err := converter.ToChangePack(change.NewPack(docKey, change.InitialCheckpoint, changes, time.NewVersionVector(), nil))
	if err != nil {
		return nil, err
	}
	b, err := proto.Marshal(pb)
	if err != nil {
		return nil, err
	}
	var back api.ChangePack
	if err := proto.Unmarshal(b, &back); err != nil {
		return nil, err
	}
	pack, err := converter.FromChangePack(&back)
	if err != nil {
		return nil, err
	}
	return pack.Changes, nil
}

func (w *world) stamp(changes []*change.Change) {
	for _, c := range changes {
		w.serverSeq++
		c.SetServerSeq(w.serverSeq)
	}
}

// safeVector is the pointwise minimum of what D and P have applied and of
// what the author of every still undelivered change had applied when it made
// the change (a missing entry counts as 0). It is never ahead of the minimum
// version vector a server would hand out.
func (w *world) safeVector() time.VersionVector {
	w.track()
	vs := []time.VersionVector{w.D.VersionVector(), w.P.VersionVector()}
	for i, d := range []*document.Document{w.D, w.P} {
		for _, c := range d.CreateChangePack().Changes {
			if v, ok := w.born[i][c.ClientSeq()]; ok {
				vs = append(vs, v)
			}
		}
	}
	out := time.NewVersionVector()
	for _, v := range vs {
		for a := range v {
			out[a] = 0
		}
	}
	for a := range out {
		m := int64(-1)
		for _, v := range vs {
			x := v[a] // missing = 0
			if m < 0 || x < m {
				m = x
			}
		}
		out[a] = m
	}
	return out
}

// track records the creation-time vector of every new pending change. It is
// called after every step, i.e. before anything else can touch the clocks.
func (w *world) track() {
	for i, d := range []*document.Document{w.D, w.P} {
		if w.born[i] == nil {
			w.born[i] = map[uint32]time.VersionVector{}
		}
		for _, c := range d.CreateChangePack().Changes {
			if _, ok := w.born[i][c.ClientSeq()]; !ok && c.ID().HasClocks() {
				w.born[i][c.ClientSeq()] = c.ID().VersionVector().DeepCopy()
			}
		}
	}
}

func prefix(a, n int) int {
	if n == 0 {
		return 0
	}
	if a == 0 {
		return n
	}
	return 1 + (a-1)%n
}

func lastSeq(d *document.Document, changes []*change.Change) uint32 {
	if len(changes) == 0 {
		return d.Checkpoint().ClientSeq
	}
	return changes[len(changes)-1].ClientSeq()
}

// deliver sends the first n pending changes of from to to and acknowledges
// them to the sender.
func (w *world) deliver(from, to *document.Document, n int) error {
	pend := from.CreateChangePack().Changes[:n]
	wired, err := wire(pend)
	if err != nil {
		return fmt.Errorf("wire: %w", err)
	}
	w.stamp(wired)
	cp := change.NewCheckpoint(w.serverSeq, to.Checkpoint().ClientSeq)
	if err := to.ApplyChangePack(change.NewPack(docKey, cp, wired, time.NewVersionVector(), nil)); err != nil {
		return err
	}
	ack := change.NewCheckpoint(w.serverSeq, lastSeq(from, pend))
	return from.ApplyChangePack(change.NewPack(docKey, ack, nil, time.NewVersionVector(), nil))
}

func (w *world) noteRemote(n int) {
	if n > 0 && w.dUpdates > 1 { // InitDoc is update #1
		w.remoteArrived = true
	}
}

func (w *world) noteLocal() {
	w.dUpdates++
	if w.remoteArrived && !w.epilogue {
		w.ev["remote_between_local"]++
		w.remoteArrived = false
	}
}

// observation of D around a failing update
type observation struct {
	Marshal   string
	NChanges  int
	PackHex   string
	CP        change.Checkpoint
	VV        string
	UndoLen   int
	CanUndo   bool
	CanRedo   bool
	RedoTop   int
	Presences string
	RootFP    string
	Garbage   int
	DocSize   string
}

func canonElement(e *api.JSONElement) {
	if e == nil {
		return
	}
	switch b := e.GetBody().(type) {
	case *api.JSONElement_JsonObject:
		nodes := b.JsonObject.Nodes
		keys := make([][]byte, len(nodes))
		for i, n := range nodes {
			canonElement(n.Element)
			eb, _ := proto.MarshalOptions{Deterministic: true}.Marshal(n.Element)
			keys[i] = append([]byte(n.Key+"\x00"), eb...)
		}
		idx := make([]int, len(nodes))
		for i := range idx {
			idx[i] = i
		}
		sort.Slice(idx, func(i, j int) bool { return bytes.Compare(keys[idx[i]], keys[idx[j]]) < 0 })
		sorted := make([]*api.RHTNode, len(nodes))
		for i, j := range idx {
			sorted[i] = nodes[j]
		}
		b.JsonObject.Nodes = sorted
	case *api.JSONElement_JsonArray:
		for _, n := range b.JsonArray.Nodes {
			canonElement(n.Element)
		}
	}
}

// canonSimple re-encodes the embedded bytes of a container value carried by
// an operation canonically: the converter encodes object members in Go map
// order and nested protobuf maps non-deterministically, so two encodings of
// the SAME unchanged change may differ byte-wise.
func canonSimple(v *api.JSONElementSimple) {
	if v == nil {
		return
	}
	switch v.Type {
	case api.ValueType_VALUE_TYPE_JSON_OBJECT, api.ValueType_VALUE_TYPE_JSON_ARRAY, api.ValueType_VALUE_TYPE_TREE:
		var e api.JSONElement
		if err := proto.Unmarshal(v.Value, &e); err != nil {
			return
		}
		canonElement(&e)
		if b, err := (proto.MarshalOptions{Deterministic: true}).Marshal(&e); err == nil {
			v.Value = b
		}
	}
}

func canonPack(pb *api.ChangePack) {
	for _, c := range pb.Changes {
		for _, op := range c.Operations {
			switch b := op.GetBody().(type) {
			case *api.Operation_Set_:
				canonSimple(b.Set.Value)
			case *api.Operation_Add_:
				canonSimple(b.Add.Value)
			case *api.Operation_ArraySet_:
				canonSimple(b.ArraySet.Value)
			}
		}
	}
}

// rootFingerprint is a canonical encoding of the whole CRDT structure of the
// authoritative root (live elements, tombstones, dead array slots, text and
// tree nodes with their tickets), independent of map iteration order.
func rootFingerprint(d *document.Document) (string, error) {
	raw, err := converter.SnapshotToBytes(d.RootObject(), nil)
	if err != nil {
		return "", err
	}
	var snap api.Snapshot
	if err := proto.Unmarshal(raw, &snap); err != nil {
		return "", err
	}
	canonElement(snap.Root)
	b, err := proto.MarshalOptions{Deterministic: true}.Marshal(snap.Root)
	if err != nil {
		return "", err
	}
	h := fnv.New128a()
	_, _ = h.Write(b)
	return fmt.Sprintf("%d:%s", len(b), hex.EncodeToString(h.Sum(nil))), nil
}

func presencesString(m map[string]presence.Data) string {
	ids := make([]string, 0, len(m))
	for id := range m {
		ids = append(ids, id)
	}
	sort.Strings(ids)
	var sb strings.Builder
	for _, id := range ids {
		b, _ := gojson.Marshal(map[string]string(m[id])) // encoding/json sorts map keys
		sb.WriteString(id + "=" + string(b) + ";")
	}
	return sb.String()
}

func observe(d *document.Document) (observation, error) {
	var o observation
	o.Marshal = d.Marshal()
	pack := d.CreateChangePack()
	o.NChanges = len(pack.Changes)
	pb, err := converter.ToChangePack(pack)
	if err != nil {
		return o, err
	}
	canonPack(pb)
	b, err := proto.MarshalOptions{Deterministic: true}.Marshal(pb)
	if err != nil {
		return o, err
	}
	o.PackHex = hex.EncodeToString(b)
	o.CP = d.Checkpoint()
	o.VV = d.VersionVector().Marshal()
	o.UndoLen = d.UndoStackLenForTest()
	o.CanUndo = d.CanUndo()
	o.CanRedo = d.CanRedo()
	o.RedoTop = len(d.RedoStackTopForTest())
	o.Presences = presencesString(d.AllPresences())
	if o.RootFP, err = rootFingerprint(d); err != nil {
		return o, err
	}
	o.Garbage = d.GarbageLen()
	o.DocSize = fmt.Sprintf("%+v", d.DocSize())
	return o, nil
}

func diffObservation(pre, post observation) *kit.Failure {
	switch {
	case pre.Marshal != post.Marshal:
		return kit.Failf("FAILED-UPDATE-CHANGED-DOCUMENT", "Marshal() before %s after %s", pre.Marshal, post.Marshal)
	case pre.NChanges != post.NChanges:
		return kit.Failf("FAILED-UPDATE-CHANGED-PENDING", "CreateChangePack() had %d changes, now %d", pre.NChanges, post.NChanges)
	case pre.PackHex != post.PackHex:
		return kit.Failf("FAILED-UPDATE-CHANGED-PENDING", "encoded CreateChangePack() differs (%d changes): before %s after %s",
			pre.NChanges, pre.PackHex, post.PackHex)
	case pre.CP != post.CP:
		return kit.Failf("FAILED-UPDATE-CHANGED-CHECKPOINT", "before %s after %s", pre.CP.String(), post.CP.String())
	case pre.VV != post.VV:
		return kit.Failf("FAILED-UPDATE-CHANGED-VECTOR", "version vector before %s after %s", pre.VV, post.VV)
	case pre.UndoLen != post.UndoLen || pre.CanUndo != post.CanUndo || pre.CanRedo != post.CanRedo || pre.RedoTop != post.RedoTop:
		return kit.Failf("FAILED-UPDATE-CHANGED-HISTORY", "undo depth %d->%d canUndo %v->%v canRedo %v->%v redo-top ops %d->%d",
			pre.UndoLen, post.UndoLen, pre.CanUndo, post.CanUndo, pre.CanRedo, post.CanRedo, pre.RedoTop, post.RedoTop)
	case pre.Presences != post.Presences:
		return kit.Failf("FAILED-UPDATE-CHANGED-PRESENCE", "AllPresences() before %s after %s", pre.Presences, post.Presences)
	case pre.RootFP != post.RootFP || pre.Garbage != post.Garbage || pre.DocSize != post.DocSize:
		return kit.Failf("FAILED-UPDATE-CHANGED-STRUCTURE",
			"same Marshal() but the root's CRDT structure changed: fingerprint %s->%s garbage %d->%d docSize %s->%s",
			pre.RootFP, post.RootFP, pre.Garbage, post.Garbage, pre.DocSize, post.DocSize)
	}
	return nil
}

// checkCloneEqRoot is the oracle evaluated after every step.
func (w *world) checkCloneEqRoot(after string) *kit.Failure {
	var cm, ct, cx string
	_, pan := guarded(func() error {
		r := w.D.Root()
		cm = r.Marshal()
		if tx, ok := r.Get("t").(*crdt.Text); ok {
			ct = tx.String()
		}
		if tr, ok := r.Get("tr").(*crdt.Tree); ok {
			cx = tr.ToXML()
		}
		return nil
	})
	if pan != nil {
		return kit.Failf("CLONE-UNAVAILABLE", "Root() panicked after %s: %v", after, pan)
	}
	rm := w.D.Marshal()
	if cm != rm {
		return kit.Failf("CLONE-NE-ROOT", "after %s: Root().Marshal()=%s but Marshal()=%s", after, cm, rm)
	}
	var rt, rx string
	if tx, ok := w.D.RootObject().Get("t").(*crdt.Text); ok {
		rt = tx.String()
	}
	if tr, ok := w.D.RootObject().Get("tr").(*crdt.Tree); ok {
		rx = tr.ToXML()
	}
	if ct != rt || cx != rx {
		return kit.Failf("CLONE-NE-ROOT", "after %s: clone text %q tree %s but root text %q tree %s", after, ct, cx, rt, rx)
	}
	return nil
}

func describeEdits(ds []string) string { return "[" + strings.Join(ds, "; ") + "]" }

// schemaHolds is the harness's own reading of the rule set (independent of
// pkg/schema): every rule's path resolves, through live object keys, to an
// element of the rule's kind. Primitive rules only require a primitive here.
func schemaHolds(root *crdt.Object, rules []types.Rule) (bool, string) {
	for _, rule := range rules {
		var cur crdt.Element = root
		for _, k := range strings.Split(rule.Path, ".")[1:] {
			o, ok := cur.(*crdt.Object)
			if !ok {
				cur = nil
				break
			}
			cur = o.Get(k)
		}
		ok := false
		switch rule.Type {
		case "object":
			_, ok = cur.(*crdt.Object)
		case "array":
			_, ok = cur.(*crdt.Array)
		case "yorkie.Text":
			_, ok = cur.(*crdt.Text)
		case "yorkie.Tree":
			_, ok = cur.(*crdt.Tree)
		case "yorkie.Counter":
			_, ok = cur.(*crdt.Counter)
		default:
			_, ok = cur.(*crdt.Primitive)
		}
		if !ok {
			return false, fmt.Sprintf("%s is not a %s (it is %T)", rule.Path, rule.Type, cur)
		}
	}
	return true, ""
}

// failingUpdate executes one "fail" step. It returns a violation, or an abort
// reason when the case cannot be continued for a reason outside the property.
func (w *world) failingUpdate(s Step) (*kit.Failure, string) {
	mode := s.Mode
	edits := append([]prog.Step(nil), s.Edits...)
	k := len(edits)
	if mode == "error" || mode == "panic" {
		k = s.K % (len(edits) + 1)
	}
	edits = edits[:k]
	if !w.opts.noExcl {
		// (F7 — a panic after the callback mutated the clone left the dirty
		// clone in place — is repaired; the panic variant runs with any k.)
		// F25 (new finding, provisional id): a presence Set inside a failing callback writes through to the
		// presence carried by an earlier pending change / to the
		// authoritative presence map.
		for i := range edits {
			if edits[i].Op == "pset" || edits[i].Op == "pmix" {
				edits[i].Op = "rootset"
				w.ev["excluded:F25"]++
			}
		}
	}

	pre, err := observe(w.D)
	if err != nil {
		return kit.Failf("HARNESS", "observe: %v", err), ""
	}
	if f := w.checkCloneEqRoot("(before the failing update)"); f != nil {
		return f, ""
	}

	var rules []types.Rule
	breaker := ""
	validBefore := false
	switch mode {
	case "schema":
		switch s.A % 4 {
		case 0:
			rules = []types.Rule{{Path: "$.k1", Type: "string"}}
			breaker = "k1int"
		case 1:
			rules = []types.Rule{{Path: "$.c", Type: "yorkie.Counter"}}
			breaker = "delc"
		case 2:
			rules = []types.Rule{{Path: "$.o", Type: "object"}, {Path: "$.a", Type: "array"}, {Path: "$.t", Type: "yorkie.Text"},
				{Path: "$.c", Type: "yorkie.Counter"}, {Path: "$.tr", Type: "yorkie.Tree"}}
			if s.A >= 4 {
				// the callback removes one of the required containers
				breaker = "del:" + []string{"o", "a", "t", "c", "tr"}[s.K%5]
			}
		case 3:
			rules = []types.Rule{{Path: "$.o.x", Type: "integer"}}
			if s.A >= 4 {
				breaker = "delox"
			}
		}
		if s.A >= 4 && s.K%2 == 0 {
			// removal-only callback: nothing but the schema-breaking removal
			edits = nil
		}
		w.D.SchemaRules = rules
		validBefore, _ = schemaHolds(w.D.RootObject(), rules)
		if validBefore && breaker != "" {
			w.ev["schema_breaker_on_valid_doc"]++
			if len(edits) == 0 {
				w.ev["schema_removal_only_breaker"]++
			}
		}
	case "size":
		total := func() int { ds := w.D.DocSize(); return ds.Total() }()
		switch s.A % 3 {
		case 0:
			w.D.MaxSizeLimit = 1
		case 1:
			w.D.MaxSizeLimit = max(1, total-1)
		case 2:
			w.D.MaxSizeLimit = total + 8*(s.A/3)
		}
	}

	var descs []string
	mutatedCount := 0
	cx := newCbCtx(w.ev, "fail", w.D)
	uerr, pan := callUpdate(w.D, func(r *json.Object, p *presence.Presence) error {
		for _, e := range edits {
			d, m := editIn(cx, r, p, e)
			descs = append(descs, d)
			if m {
				mutatedCount++
			}
		}
		switch mode {
		case "error":
			return errDeliberate
		case "panic":
			panic(deliberatePanic{})
		}
		switch breaker {
		case "k1int":
			r.SetInteger("k1", 7)
		case "delc":
			r.Delete("c")
		case "delox":
			if o := r.GetObject("o"); o != nil {
				o.Delete("x")
			} else {
				r.Delete("o")
			}
		default:
			if strings.HasPrefix(breaker, "del:") {
				r.Delete(strings.TrimPrefix(breaker, "del:"))
			}
		}
		return nil
	})
	validAfter, whyInvalid := true, ""
	if mode == "schema" {
		validAfter, whyInvalid = schemaHolds(w.D.RootObject(), rules)
	}
	w.D.SchemaRules = nil
	w.D.MaxSizeLimit = 0
	w.noteLocal()

	if pan != nil {
		if hb, ok := pan.(harnessBug); ok {
			return kit.Failf("HARNESS", "%s", string(hb)), ""
		}
		if _, ok := pan.(deliberatePanic); !ok {
			// A proxy panicked on a valid edit: outside this property, and the
			// dirty clone it leaves behind is F7.
			w.logf("D fail(%s) %s -> UNEXPECTED PANIC %v", mode, describeEdits(descs), pan)
			return nil, "edit_panic_in_failing_update"
		}
	}
	if pan == nil && uerr == nil && mode == "schema" && validBefore && !validAfter {
		// an update that breaks the attached schema must fail and leave
		// everything as before; this one was committed
		return kit.Failf("SCHEMA-BREAKING-UPDATE-COMMITTED", "with the rules %v attached the document satisfied them before the update %s; the update returned nil and now %s (document: %s)",
			rules, describeEdits(append(descs, breaker)), whyInvalid, w.D.Marshal()), ""
	}
	if pan == nil && uerr == nil {
		// The drawn rule set / size limit was not violated: an ordinary
		// successful update.
		w.ev["fail_step_succeeded_"+mode]++
		w.failedSinceGood = false
		if cx.sm {
			w.noteSplitMerge(0)
		}
		w.asetSeen = w.asetSeen || cx.aset
		w.logf("D update(%s attached, not violated) %s -> ok", mode, describeEdits(descs))
		return nil, ""
	}
	what := "panic"
	if pan == nil {
		what = "error: " + uerr.Error()
		switch mode {
		case "error":
			if !errors.Is(uerr, errDeliberate) {
				w.ev["fail_other_error"]++
			}
		case "schema":
			if !errors.Is(uerr, document.ErrSchemaValidationFailed) {
				w.ev["fail_other_error"]++
			}
		case "size":
			if !errors.Is(uerr, document.ErrDocumentSizeExceedsLimit) {
				w.ev["fail_other_error"]++
			}
		}
	}
	w.logf("D FAILING update(%s) after %d edits %s -> %s", mode, len(descs), describeEdits(descs), what)
	w.failedSinceGood = true
	w.failedSteps[w.cur] = true
	if w.opts.skip != nil {
		w.twinDeviated = true
	}
	w.ev["fail_"+mode]++
	w.ev[fmt.Sprintf("fail_after_%d_edits", len(descs))]++
	if mutatedCount > 0 {
		for _, e := range edits {
			w.ev["fail_dirty_op_"+e.Op]++
		}
		w.ev["fail_dirty"]++
		w.ev["fail_dirty_"+mode]++
	} else {
		w.ev["fail_clean"]++
	}
	if pre.NChanges > 0 {
		w.ev["fail_with_pending"]++
	}
	if pre.UndoLen > 0 {
		w.ev["fail_with_undo_stack"]++
	}
	if pre.CanRedo {
		w.ev["fail_with_redo_stack"]++
	}
	if pre.Garbage > 0 {
		w.ev["fail_with_garbage"]++
	}

	post, err := observe(w.D)
	if err != nil {
		return kit.Failf("HARNESS", "observe: %v", err), ""
	}
	if f := diffObservation(pre, post); f != nil {
		return f, ""
	}
	if f := w.checkCloneEqRoot("the failed update"); f != nil {
		return f, ""
	}
	if s.Probe {
		if f := w.probe(); f != nil {
			return f, ""
		}
	}
	return nil, ""
}

// probe runs one fixed valid update and checks that it succeeds and is
// visible in both views.
func (w *world) probe() *kit.Failure {
	w.probeSeq++
	val := 1000 + w.probeSeq
	err, pan := callUpdate(w.D, func(r *json.Object, p *presence.Presence) error {
		r.SetInteger("k0", val)
		return nil
	})
	w.noteLocal()
	afterFail := w.failedSinceGood
	if err != nil || pan != nil {
		kind := "VALID-UPDATE-FAILED"
		if afterFail {
			kind = "NEXT-UPDATE-FAILED"
		}
		return kit.Failf(kind, "probe update root.k0=%d: err=%v panic=%v", val, err, pan)
	}
	w.failedSinceGood = false
	w.logf("D probe root.k0=%d -> ok", val)
	want := fmt.Sprintf(`"k0":%d`, val)
	rm := w.D.Marshal()
	if !strings.Contains(rm, want) {
		return kit.Failf("NEXT-UPDATE-INVISIBLE", "probe update root.k0=%d succeeded but Marshal()=%s", val, rm)
	}
	var cm string
	if _, pan := guarded(func() error { cm = w.D.Root().Marshal(); return nil }); pan != nil {
		return kit.Failf("CLONE-UNAVAILABLE", "Root() panicked after the probe update: %v", pan)
	}
	if !strings.Contains(cm, want) {
		return kit.Failf("NEXT-UPDATE-INVISIBLE", "probe update root.k0=%d succeeded but Root().Marshal()=%s", val, cm)
	}
	if afterFail {
		w.ev["next_update_after_fail_ok"]++
	}
	return nil
}

// validUpdate executes one "edit" step on D.
func (w *world) validUpdate(s Step) (*kit.Failure, string) {
	var descs []string
	cx := newCbCtx(w.ev, "edit", w.D)
	err, pan := callUpdate(w.D, func(r *json.Object, p *presence.Presence) error {
		for _, e := range s.Edits {
			d, _ := editIn(cx, r, p, e)
			descs = append(descs, d)
		}
		return nil
	})
	w.noteLocal()
	if hb, ok := pan.(harnessBug); ok {
		return kit.Failf("HARNESS", "%s", string(hb)), ""
	}
	if err != nil || pan != nil {
		w.logf("D update %s -> err=%v panic=%v", describeEdits(descs), err, pan)
		if w.failedSinceGood {
			f := kit.Failf("NEXT-UPDATE-FAILED", "the first valid update %s after a failed one: err=%v panic=%v",
				describeEdits(descs), err, pan)
			w.drawnUpdateRejected = true
			return f, ""
		}
		// A valid edit the code under test rejects without a preceding failed
		// update is outside this property (and a panic leaves F7's dirty clone).
		return nil, "valid_update_rejected"
	}
	if w.failedSinceGood {
		w.ev["next_update_after_fail_ok"]++
	}
	w.failedSinceGood = false
	w.logf("D update %s -> ok", describeEdits(descs))
	if cx.sm {
		w.noteSplitMerge(0)
	}
	w.asetSeen = w.asetSeen || cx.aset
	return nil, ""
}

func (w *world) step(i int, s Step) (*kit.Failure, string) {
	w.cur = i
	w.ev["step_"+s.Op]++
	switch s.Op {
	case "edit":
		return w.validUpdate(s)
	case "fail":
		if w.opts.skip[i] {
			if s.Probe {
				return w.probe(), ""
			}
			return nil, ""
		}
		return w.failingUpdate(s)
	case "pedit":
		var descs []string
		cx := newCbCtx(w.ev, "pedit", w.P)
		err, pan := callUpdate(w.P, func(r *json.Object, p *presence.Presence) error {
			for _, e := range s.Edits {
				d, _ := editIn(cx, r, p, e)
				descs = append(descs, d)
			}
			return nil
		})
		if hb, ok := pan.(harnessBug); ok {
			return kit.Failf("HARNESS", "%s", string(hb)), ""
		}
		if err != nil || pan != nil {
			w.logf("P update %s -> err=%v panic=%v", describeEdits(descs), err, pan)
			return nil, "peer_update_failed"
		}
		w.logf("P update %s", describeEdits(descs))
		if cx.sm {
			w.noteSplitMerge(1)
		}
		w.asetSeen = w.asetSeen || cx.aset
	case "pull":
		n := prefix(s.A, len(w.P.CreateChangePack().Changes))
		if n == 0 {
			w.logf("pull: nothing pending on P")
			return nil, ""
		}
		pendingD := len(w.D.CreateChangePack().Changes)
		err, pan := guarded(func() error { return w.deliver(w.P, w.D, n) })
		w.logf("pull: %d change(s) P -> D (D keeps %d pending)", n, pendingD)
		if err != nil || pan != nil {
			w.logf("  -> err=%v panic=%v", err, pan)
			return nil, "apply_failed"
		}
		w.noteRemote(n)
		w.ev["remote_pack"]++
		if pendingD > 0 {
			w.ev["remote_pack_over_pending"]++
		}
		if w.D.CanUndo() || w.D.CanRedo() {
			w.ev["remote_pack_over_history"]++
		}
	case "push":
		n := prefix(s.A, len(w.D.CreateChangePack().Changes))
		if n == 0 {
			w.logf("push: nothing pending on D")
			return nil, ""
		}
		err, pan := guarded(func() error { return w.deliver(w.D, w.P, n) })
		w.logf("push: %d change(s) D -> P", n)
		if err != nil || pan != nil {
			w.logf("  -> err=%v panic=%v", err, pan)
			return nil, "apply_failed"
		}
	case "sync":
		return w.sync(s.A%2 == 1)
	case "snap":
		return w.snapshot(s.A)
	case "gc":
		if w.gcGuard() {
			w.logf("gc left out (known finding: D's root holds garbage its GC bookkeeping does not know)")
			return nil, ""
		}
		vec := w.safeVector()
		var nd, np int
		_, pan := guarded(func() error {
			nd = w.D.GarbageCollect(vec.DeepCopy())
			np = w.P.GarbageCollect(vec.DeepCopy())
			return nil
		})
		w.logf("gc at %s: D purged %d, P purged %d", vec.Marshal(), nd, np)
		if pan != nil {
			w.logf("  -> panic=%v", pan)
			return nil, "gc_failed"
		}
		if nd > 0 {
			w.ev["gc_purged"]++
		}
	case "undo", "redo":
		can := w.D.CanUndo()
		if s.Op == "redo" {
			can = w.D.CanRedo()
		}
		if !can {
			w.logf("D %s (nothing)", s.Op)
			return nil, ""
		}
		_, f6 := prog.GuardF6(w.D, prog.Step{Op: s.Op})
		top := w.D.UndoStackTopForTest()
		if s.Op == "redo" {
			top = w.D.RedoStackTopForTest()
		}
		if !w.opts.noExcl && restoresDuplicate(w.D, top) {
			w.ev["excluded:F6"]++
			w.logf("D %s left out (known finding F6: it re-inserts a copy whose inner elements / garbage nodes keep the identity of their tombstoned originals)", s.Op)
			return nil, ""
		}
		seqBefore := lastSeq(w.D, w.D.CreateChangePack().Changes)
		err, pan := guarded(func() error {
			if s.Op == "undo" {
				return w.D.Undo()
			}
			return w.D.Redo()
		})
		if seqAfter := lastSeq(w.D, w.D.CreateChangePack().Changes); seqAfter != seqBefore {
			if f6 != "" {
				w.f6Seqs[seqAfter] = true
			}
			if w.everSM[0] {
				// the reverse of a split is a merge and vice versa
				w.noteSplitMerge(0)
			}
		}
		w.logf("D %s -> err=%v", s.Op, err)
		if err != nil || pan != nil {
			w.logf("  -> panic=%v", pan)
			return nil, s.Op + "_failed"
		}
		w.ev[s.Op+"_done"]++
		if w.failedSinceGood {
			w.ev[s.Op+"_right_after_fail"]++
		}
	default:
		return kit.Failf("HARNESS", "unknown step op %q", s.Op), ""
	}
	return nil, ""
}

// sync is a full exchange: each side pushes all its pending changes and
// receives all of the other side's in one pack, like a push-pull response.
func (w *world) sync(gc bool) (*kit.Failure, string) {
	w.track()
	if gc && w.gcGuard() {
		gc = false
	}
	vec := time.NewVersionVector()
	dp := w.D.CreateChangePack().Changes
	pp := w.P.CreateChangePack().Changes
	err, pan := guarded(func() error {
		dw, err := wire(dp)
		if err != nil {
			return err
		}
		pw, err := wire(pp)
		if err != nil {
			return err
		}
		w.stamp(dw)
		w.stamp(pw)
		if err := w.P.ApplyChangePack(change.NewPack(docKey,
			change.NewCheckpoint(w.serverSeq, lastSeq(w.P, pp)), dw, time.NewVersionVector(), nil)); err != nil {
			return err
		}
		if err := w.D.ApplyChangePack(change.NewPack(docKey,
			change.NewCheckpoint(w.serverSeq, lastSeq(w.D, dp)), pw, time.NewVersionVector(), nil)); err != nil {
			return err
		}
		if !gc {
			return nil
		}
		// A following response without changes carries the minimum vector:
		// the collection runs inside ApplyChangePack.
		vec = w.safeVector()
		if err := w.P.ApplyChangePack(change.NewPack(docKey,
			change.NewCheckpoint(w.serverSeq, w.P.Checkpoint().ClientSeq), nil, vec.DeepCopy(), nil)); err != nil {
			return err
		}
		before := w.D.GarbageLen()
		if err := w.D.ApplyChangePack(change.NewPack(docKey,
			change.NewCheckpoint(w.serverSeq, w.D.Checkpoint().ClientSeq), nil, vec.DeepCopy(), nil)); err != nil {
			return err
		}
		if w.D.GarbageLen() < before {
			w.ev["gc_purged"]++
		}
		return nil
	})
	w.logf("sync: D pushes %d, pulls %d (gc vector %s)", len(dp), len(pp), vec.Marshal())
	if err != nil || pan != nil {
		w.logf("  -> err=%v panic=%v", err, pan)
		return nil, "apply_failed"
	}
	if len(pp) > 0 {
		w.noteRemote(len(pp))
		w.ev["remote_pack"]++
	}
	if gc {
		w.ev["sync_with_gc_vector"]++
	}
	return nil, ""
}

// snapshot: D pushes a prefix of its pending changes, then receives P's whole
// root as a snapshot (which contains every change D has pushed and all of P's
// own changes); D replays its still pending changes on top of it.
func (w *world) snapshot(a int) (*kit.Failure, string) {
	dp := w.D.CreateChangePack().Changes
	m := a % (len(dp) + 1)
	if !w.opts.noExcl {
		// F6 (upstream-known): an undo/redo change that restores an object
		// member under its original identity leaves a stale GC registration
		// on every root that applies it as a REMOTE change. A snapshot makes
		// D replay its own pending changes that way, so such a change is
		// pushed before the snapshot instead of being replayed on top of it.
		for _, c := range dp[m:] {
			if w.f6Seqs[c.ClientSeq()] {
				m = len(dp)
				w.ev["excluded:F6"]++
				break
			}
		}
	}
	pushed := dp[:m]
	hadHistory := w.D.CanUndo() || w.D.CanRedo()
	err, pan := guarded(func() error {
		dw, err := wire(pushed)
		if err != nil {
			return err
		}
		w.stamp(dw)
		if len(dw) > 0 {
			if err := w.P.ApplyChangePack(change.NewPack(docKey,
				change.NewCheckpoint(w.serverSeq, w.P.Checkpoint().ClientSeq), dw, time.NewVersionVector(), nil)); err != nil {
				return err
			}
		}
		// Every pending change of P is part of the snapshot: acknowledge them.
		pp := w.P.CreateChangePack().Changes
		w.serverSeq += int64(len(pp))
		if err := w.P.ApplyChangePack(change.NewPack(docKey,
			change.NewCheckpoint(w.serverSeq, lastSeq(w.P, pp)), nil, time.NewVersionVector(), nil)); err != nil {
			return err
		}
		snap, err := converter.SnapshotToBytes(w.P.RootObject(), w.P.AllPresences())
		if err != nil {
			return err
		}
		return w.D.ApplyChangePack(change.NewPack(docKey,
			change.NewCheckpoint(w.serverSeq, lastSeq(w.D, pushed)), nil, w.P.VersionVector().DeepCopy(), snap))
	})
	w.logf("snapshot: D pushes %d of %d pending, receives P's root, replays %d", m, len(dp), len(dp)-m)
	if err != nil || pan != nil {
		w.logf("  -> err=%v panic=%v", err, pan)
		return nil, "snapshot_failed"
	}
	w.noteRemote(1)
	w.ev["snapshot"]++
	if len(dp)-m > 0 {
		w.ev["snapshot_replays_pending"]++
	}
	if hadHistory {
		w.ev["snapshot_over_history"]++
	}
	return nil, ""
}

func newWorld(opts runOpts) (*world, error) {
	w := &world{ev: map[string]int{}, opts: opts, failedSteps: map[int]bool{}, f6Seqs: map[uint32]bool{},
		smSeqs: [2]map[uint32]bool{{}, {}}}
	a1, err := time.ActorIDFromHex("0000000000000000000000d1")
	if err != nil {
		return nil, err
	}
	a2, err := time.ActorIDFromHex("0000000000000000000000b2")
	if err != nil {
		return nil, err
	}
	w.D, w.P = document.New(docKey), document.New(docKey)
	w.D.SetActor(a1)
	w.P.SetActor(a2)
	if err := prog.InitDoc(w.D); err != nil {
		return nil, err
	}
	// The history starts after the initial schema: Undo never reaches into it.
	if err := w.D.ClearHistory(); err != nil {
		return nil, err
	}
	w.dUpdates = 1
	if err := w.deliver(w.D, w.P, len(w.D.CreateChangePack().Changes)); err != nil {
		return nil, err
	}
	return w, nil
}

// run executes a case once.
func run(c Case, opts runOpts) outcome {
	w, err := newWorld(opts)
	if err != nil {
		return outcome{Fail: kit.Failf("HARNESS", "init: %v", err), Ev: map[string]int{}}
	}
	finish := func(f *kit.Failure, abort string) outcome {
		o := outcome{Fail: f, Hist: w.hist, Ev: w.ev, Abort: abort, FailedSteps: w.failedSteps, TwinDeviated: w.twinDeviated,
			ConcurrentSM: w.concurrentSM, Step: w.cur, DrawnUpdateRejected: w.drawnUpdateRejected}
		if abort != "" {
			w.ev["abort_"+abort]++
			// A step other than Update failed (a pack could not be applied,
			// Undo returned an error, ...): the case ends here. F24 (new finding, provisional id): an
			// Undo/Redo that fails half-way keeps the half-executed clone, so
			// with exclusions on the clone==root oracle is not evaluated after
			// a failed Undo/Redo (trigger: Undo/Redo returned an error).
			if abort == "undo_failed" || abort == "redo_failed" {
				// (F24 is repaired: the oracle is evaluated after a failed Undo/Redo too.)
				if cf := w.checkCloneEqRoot("the failed " + abort[:4]); cf != nil && f == nil {
					o.Fail = cf
				}
			}
		}
		o.NonTrivial = w.ev["fail_dirty"] > 0 || w.ev["remote_between_local"] > 0
		return o
	}
	if f := w.checkCloneEqRoot("init"); f != nil {
		return finish(f, "")
	}
	for i, s := range c.Steps {
		f, abort := w.step(i, s)
		w.track()
		if f != nil {
			return finish(f, "")
		}
		if abort != "" {
			return finish(nil, abort)
		}
		if f := w.checkCloneEqRoot(fmt.Sprintf("step %d (%s)", i, s.Op)); f != nil {
			return finish(f, "")
		}
	}
	// Epilogue: one more valid update, then exchange everything.
	w.epilogue = true
	if f := w.probe(); f != nil {
		return finish(f, "")
	}
	if f := w.checkCloneEqRoot("the final probe update"); f != nil {
		return finish(f, "")
	}
	if f, abort := w.sync(false); f != nil || abort != "" {
		return finish(f, abort)
	}
	if f := w.checkCloneEqRoot("the final exchange"); f != nil {
		return finish(f, "")
	}
	o := finish(nil, "")
	if dm, pm := w.D.Marshal(), w.P.Marshal(); dm != pm {
		o.Diverged = true
		w.logf("final: D=%s", dm)
		w.logf("final: P=%s", pm)
		o.Hist = w.hist
	}
	return o
}

// evaluate is the oracle of the property over one case. A final divergence
// of D and P only counts when it is caused by the failing updates: the same
// history with its failing updates left out (they must be no-ops) converges.
func evaluate(c Case) outcome {
	noExcl := kit.NoExclusions()
	o := run(c, runOpts{noExcl: noExcl})
	if o.Fail != nil && o.Fail.Kind == "NEXT-UPDATE-FAILED" && o.DrawnUpdateRejected {
		// A drawn valid update was rejected (a proxy panicked or Update
		// returned an error) after a failed one. That is the failed update's
		// doing only if the same update is accepted when the failed updates
		// are left out (they must be no-ops). The tree has known defects
		// (concurrent delete vs split: a valid index does not resolve any
		// more) that reject a valid edit with or without them; such a case
		// ends like every other rejected valid update (abort).
		t := run(c, runOpts{noExcl: noExcl, skip: o.FailedSteps})
		if t.Fail == nil && t.Abort == "valid_update_rejected" && t.Step == o.Step {
			o.Ev["next_update_rejected_also_without_failing_updates"]++
			o.Ev["abort_valid_update_rejected"]++
			o.Fail, o.Abort = nil, "valid_update_rejected"
			return o
		}
	}
	if o.Fail != nil || o.Abort != "" {
		return o
	}
	if !o.Diverged {
		o.Ev["final_converged"]++
		return o
	}
	// D != P. Known replica-divergence defects of the CRDTs (undo with a
	// concurrent peer edit, ArraySet on a moved element, ...) are not this
	// property. Attribute: three more runs must diverge again and three twin
	// runs without the failing updates must all converge.
	if o.ConcurrentSM {
		// Replica divergence after CONCURRENT splits / merges of a tree on
		// both sides is a matter of the convergence properties (C19/C01; known
		// tree defects, upstream docs/design/concurrent-merge-split.md), and
		// with it the twin comparison is not meaningful. Keyed on the history
		// (what was executed), not on the outcome; clone==root was checked on
		// every step as in every other case.
		o.Ev["final_diverged_with_concurrent_split_merge"]++
		return o
	}
	if len(o.FailedSteps) == 0 {
		o.Ev["final_diverged_without_failing_update"]++
		return o
	}
	for i := 0; i < 3; i++ {
		if t := run(c, runOpts{noExcl: noExcl, skip: o.FailedSteps}); t.Fail != nil || t.Abort != "" || t.Diverged || t.TwinDeviated {
			o.Ev["final_diverged_also_without_failing_updates"]++
			return o
		}
		if r := run(c, runOpts{noExcl: noExcl}); !r.Diverged {
			o.Ev["final_diverged_not_reproducible"]++
			return o
		}
	}
	o.Fail = kit.Failf("FAILED-UPDATE-CORRUPTED-REPLICA",
		"D and P differ after exchanging everything, but converge when the failing updates are left out: %s", strings.Join(o.Hist[max(0, len(o.Hist)-2):], " | "))
	return o
}

// ---------------------------------------------------------------------------
// Test entry points

func sampleOf(c Case, o outcome) any {
	h := o.Hist
	if len(h) > 40 {
		h = append(append([]string{}, h[:40]...), fmt.Sprintf("... (%d more)", len(o.Hist)-40))
	}
	ev := map[string]int{}
	for k, v := range o.Ev {
		if v > 0 {
			ev[k] = v
		}
	}
	return map[string]any{"case": c.compact(), "history": h, "events": ev}
}

var debugAborts = os.Getenv("C08_DEBUG_ABORT")

func TestC08(t *testing.T) {
	col := stats.New(propID, "random")
	type rec struct {
		c Case
		o outcome
	}
	var best *rec
	harnessErr := ""
	defer func() {
		if best != nil {
			path := kit.WriteReplay(propID, replayKind, fmt.Sprintf("random-%016x", best.c.hash()), best.c, best.o.Fail, best.o.Hist)
			col.AddViolation(stats.Violation{Replay: path, Kind: best.o.Fail.Kind, Msg: best.o.Fail.Msg})
			kit.ReportViolation(propID, path, best.o.Fail)
			fmt.Println("  history:")
			for _, h := range best.o.Hist {
				fmt.Printf("    %s\n", h)
			}
		}
		if harnessErr != "" {
			fmt.Printf("HARNESS-ERROR property=%s %s\n", propID, harnessErr)
		}
		col.Flush(true)
	}()
	gen := genCase()
	rapid.Check(t, func(rt *rapid.T) {
		c := gen.Draw(rt, "case")
		o := evaluate(c)
		col.Record(c.hash(), o.NonTrivial && o.Fail == nil, o.Ev, func() any { return sampleOf(c, o) })
		if debugAborts != "" && o.Abort != "" && strings.Contains(o.Abort, debugAborts) {
			// debugging aid: C08_DEBUG_ABORT=<substring of the abort reason>
			fmt.Printf("ABORT %s case=%s\n", o.Abort, c.compact())
			for _, h := range o.Hist[max(0, len(o.Hist)-6):] {
				fmt.Printf("    %s\n", h)
			}
		}
		if o.Fail != nil {
			if o.Fail.Kind == "HARNESS" {
				harnessErr = o.Fail.Msg
				rt.Fatalf("harness error: %s", o.Fail.Msg)
			}
			if best == nil || c.size() < best.c.size() {
				best = &rec{c, o}
			}
			rt.Fatalf("%s", o.Fail.Error())
		}
	})
}

// TestReplay re-executes a saved case without rapid.
func TestReplay(t *testing.T) {
	kit.Replay(t, map[string]kit.Replayer{
		replayKind: func(raw gojson.RawMessage) *kit.Failure {
			var c Case
			if err := gojson.Unmarshal(raw, &c); err != nil {
				return kit.Failf("HARNESS", "bad case: %v", err)
			}
			o := evaluate(c)
			if o.Fail != nil {
				for _, h := range o.Hist {
					fmt.Printf("    %s\n", h)
				}
			}
			return o.Fail
		},
	})
}
