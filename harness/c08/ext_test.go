package c08

// The part of the edit alphabet that only this package has (the shared prog
// alphabet is not touched): the YSON entry points, dedup counters, and tree
// edits by index (splits, merges, styles over arbitrary index ranges, nested
// content). Same conventions as the shared alphabet: an edit is a plain
// prog.Step{Op, A, B, C}; the raw integers are resolved modulo the state the
// callback sees, so every executed call is one the public API accepts.

import (
	"fmt"
	"sort"
	"strings"
	"sync"
	gotime "time"

	"github.com/yorkie-team/yorkie/pkg/document"
	"github.com/yorkie-team/yorkie/pkg/document/crdt"
	"github.com/yorkie-team/yorkie/pkg/document/json"
	"github.com/yorkie-team/yorkie/pkg/document/presence"
	"github.com/yorkie-team/yorkie/pkg/document/time"
	"github.com/yorkie-team/yorkie/pkg/document/yson"

	"verifharness/prog"
)

// extOpsByKind are the edit kinds of this package (drawn into a case's kind
// subset exactly like the shared kinds).
var extOpsByKind = map[string][]string{
	"yson":  {"yset", "yset", "yadd", "ycopy", "ycinc", "ynest"},
	"dedup": {"dcnew", "dcadd", "dcadd", "yadd"},
	"treex": {"trsplit", "trsplit", "trstylex", "trstylex", "trmerge", "tredit"},
}

var extKinds = []string{"yson", "dedup", "treex"}

func isExtOp(op string) bool {
	switch op {
	case "yset", "yadd", "ycopy", "ycinc", "ynest", "dcnew", "dcadd", "trsplit", "trstylex", "trmerge", "tredit":
		return true
	}
	return false
}

func extKindOf(op string) string {
	switch op {
	case "yset", "yadd", "ycopy", "ycinc", "ynest":
		return "yson"
	case "dcnew", "dcadd":
		return "dedup"
	case "trsplit", "trstylex", "trmerge", "tredit":
		return "treex"
	}
	return ""
}

// cbCtx is the state of ONE updater callback (D valid, D failing, or P).
type cbCtx struct {
	ev    map[string]int
	role  string // edit | fail | pedit
	actor time.ActorID
	// splitTrees: the trees (by creation ticket) this callback has already
	// split with splitLevel >= 1.
	splitTrees map[string]bool
	// sm: the callback executed a split or a boundary-crossing delete (merge).
	sm bool
	// aset: the callback executed an Array set-by-index (ArraySet operation).
	aset bool
}

func newCbCtx(ev map[string]int, role string, d *document.Document) *cbCtx {
	return &cbCtx{ev: ev, role: role, actor: d.ActorID(), splitTrees: map[string]bool{}}
}

func (cx *cbCtx) count(class string) { cx.ev[class]++ }

// ---------------------------------------------------------------------------
// YSON values

// regActors are the actors counted in the registers of the tabled dedup
// counters; addActors are the actors the "dcadd" edit records. "r0" is in
// every tabled register set and is never added by an edit, which makes
// "this counter carries registers that came in through YSON" observable.
var regActors = []string{"r0", "r1", "r2", "r3", "r4"}
var addActors = []string{"r1", "r2", "r3", "r4", "n0", "n1", "n2", "n3"}

var (
	dedupOnce sync.Once
	dedupRegs [6]yson.Counter
)

// dedupWithRegisters returns the YSON form of a dedup counter that has counted
// n (1..5) actors. It is built the ordinary way: SetNewDedupCounter, Add per
// actor, yson.FromCRDT.
func dedupWithRegisters(n int) yson.Counter {
	dedupOnce.Do(func() {
		for k := 1; k <= 5; k++ {
			d := document.New("c08-registers")
			if err := d.Update(func(r *json.Object, p *presence.Presence) error {
				c := r.SetNewDedupCounter("d")
				for _, a := range regActors[:k] {
					c.Add(a)
				}
				return nil
			}); err != nil {
				panic(harnessBug("building dedup registers: " + err.Error()))
			}
			v, err := yson.FromCRDT(d.RootObject().Get("d"))
			if err != nil {
				panic(harnessBug("yson.FromCRDT(dedup counter): " + err.Error()))
			}
			c, ok := v.(yson.Counter)
			if !ok || c.Type != crdt.IntegerDedupCnt || len(c.Registers) == 0 {
				panic(harnessBug(fmt.Sprintf("yson.FromCRDT(dedup counter) gave %T without registers", v)))
			}
			nonZero := false
			for _, b := range c.Registers {
				nonZero = nonZero || b != 0
			}
			if !nonZero || fmt.Sprint(c.Value) != fmt.Sprint(k) {
				panic(harnessBug(fmt.Sprintf("dedup counter of %d actors has value %v / empty registers", k, c.Value)))
			}
			dedupRegs[k] = c
		}
	})
	c := dedupRegs[n]
	c.Registers = append([]byte(nil), c.Registers...)
	return c
}

type ysonLeaf struct {
	name string
	make func() interface{}
}

var ysonLeaves = []ysonLeaf{
	{"null", func() interface{} { return nil }},
	{"bool", func() interface{} { return true }},
	{"int32", func() interface{} { return int32(-7) }},
	{"int64", func() interface{} { return int64(1) << 40 }},
	{"double", func() interface{} { return 1.5 }},
	{"string", func() interface{} { return "s\"한😀" }},
	{"bytes", func() interface{} { return []byte{0, 255, 7} }},
	{"date", func() interface{} { return gotime.Date(2024, 2, 29, 12, 30, 45, 0, gotime.UTC) }},
	{"cnt_int", func() interface{} { return yson.Counter{Type: crdt.IntegerCnt, Value: int32(3)} }},
	{"cnt_long", func() interface{} { return yson.Counter{Type: crdt.LongCnt, Value: int64(1) << 33} }},
	{"dedup_empty", func() interface{} { return yson.Counter{Type: crdt.IntegerDedupCnt, Value: int32(0)} }},
	{"dedup_regs", func() interface{} { return dedupWithRegisters(1) }},
	{"dedup_regs", func() interface{} { return dedupWithRegisters(2) }},
	{"dedup_regs", func() interface{} { return dedupWithRegisters(3) }},
	{"dedup_regs", func() interface{} { return dedupWithRegisters(4) }},
	{"dedup_regs", func() interface{} { return dedupWithRegisters(5) }},
	{"text_empty", func() interface{} { return yson.Text{} }},
	{"text_attr", func() interface{} {
		return yson.Text{Nodes: []yson.TextNode{
			{Value: "ab", Attributes: map[string]string{"b": "1"}},
			{Value: "한😀"},
			{Value: "c", Attributes: map[string]string{"b": "2", "i": "1"}},
		}}
	}},
	{"text_plain", func() interface{} {
		return yson.Text{Nodes: []yson.TextNode{{Value: "xy"}, {Value: "z"}}}
	}},
	{"tree_simple", func() interface{} {
		return yson.Tree{Root: yson.TreeNode{Type: "doc", Children: []yson.TreeNode{
			{Type: "p", Children: []yson.TreeNode{{Type: "text", Value: "mn"}}},
		}}}
	}},
	{"tree_attr_nested", func() interface{} {
		return yson.Tree{Root: yson.TreeNode{Type: "doc", Children: []yson.TreeNode{
			{Type: "p", Attributes: map[string]string{"b": "1"}, Children: []yson.TreeNode{{Type: "text", Value: "xy"}}},
			{Type: "q", Children: []yson.TreeNode{
				{Type: "p", Attributes: map[string]string{"i": "2", "b": "2"}, Children: []yson.TreeNode{{Type: "text", Value: "k"}}},
			}},
		}}}
	}},
	{"tree_empty", func() interface{} { return yson.Tree{Root: yson.TreeNode{Type: "doc"}} }},
}

// placed is one leaf of a generated YSON value with the chain of containers
// that leads to it inside the value ('A' = element of an array, 'O' = member
// of an object).
type placed struct {
	leaf string
	ctx  string
}

// ysonValue builds a YSON value of depth <= 3 from three integers.
func ysonValue(shape, l1, l2 int) (interface{}, []placed, string) {
	n := len(ysonLeaves)
	lf := func(i int) (interface{}, string) {
		l := ysonLeaves[((i%n)+n)%n]
		return l.make(), l.name
	}
	a, an := lf(l1)
	b, bn := lf(l2)
	switch shape % 6 {
	case 0:
		return a, []placed{{an, ""}}, an
	case 1:
		return yson.Array{a, b}, []placed{{an, "A"}, {bn, "A"}}, fmt.Sprintf("[%s,%s]", an, bn)
	case 2:
		return yson.Object{"p": a, "q": b}, []placed{{an, "O"}, {bn, "O"}}, fmt.Sprintf("{p:%s,q:%s}", an, bn)
	case 3:
		c, cn := lf(l1 + l2)
		return yson.Array{a, yson.Object{"m": b, "l": yson.Array{c}}},
			[]placed{{an, "A"}, {bn, "AO"}, {cn, "AOA"}}, fmt.Sprintf("[%s,{m:%s,l:[%s]}]", an, bn, cn)
	case 4:
		c, cn := lf(l1 + l2)
		return yson.Object{"l": yson.Array{a, yson.Array{b}}, "n": yson.Object{"d": c}},
			[]placed{{an, "OA"}, {bn, "OAA"}, {cn, "OO"}}, fmt.Sprintf("{l:[%s,[%s]],n:{d:%s}}", an, bn, cn)
	default:
		c, cn := lf(l1 + 1)
		d, dn := lf(l2 + 1)
		return yson.Array{yson.Array{a, b}, yson.Object{"d": c}, d},
			[]placed{{an, "AA"}, {bn, "AA"}, {cn, "AO"}, {dn, "A"}}, fmt.Sprintf("[[%s,%s],{d:%s},%s]", an, bn, cn, dn)
	}
}

// countYSON records where the leaves of a value went. entry is the container
// chain of the entry point itself ("O": set under an object key, "A": added
// to an array, "AO"/"OA".. for nested targets).
func (cx *cbCtx) countYSON(entry string, leaves []placed) {
	for _, l := range leaves {
		ctx := entry + l.ctx
		cx.count("yson_leaf_" + l.leaf)
		where := "under_key"
		if strings.HasSuffix(ctx, "A") {
			where = "in_array"
		}
		cx.count("yson_" + l.leaf + "_" + where)
		if i := strings.IndexByte(ctx, 'A'); i >= 0 && strings.Contains(ctx[i:], "O") {
			cx.count("yson_" + l.leaf + "_in_object_in_array")
		}
	}
}

// ysonWeight bounds what "ycopy" copies (a dedup counter carries 16 KiB of
// registers).
func ysonWeight(v interface{}) int {
	switch y := v.(type) {
	case yson.Object:
		n := 1
		for _, e := range y {
			n += ysonWeight(e)
		}
		return n
	case yson.Array:
		n := 1
		for _, e := range y {
			n += ysonWeight(e)
		}
		return n
	case yson.Counter:
		if y.Type == crdt.IntegerDedupCnt {
			return 8
		}
		return 1
	case yson.Text:
		return 1 + len(y.Nodes)
	case yson.Tree:
		var rec func(n yson.TreeNode) int
		rec = func(n yson.TreeNode) int {
			k := 1
			for _, c := range n.Children {
				k += rec(c)
			}
			return k
		}
		return rec(y.Root)
	}
	return 1
}

func asYSONObject(v interface{}, other interface{}) yson.Object {
	if o, ok := v.(yson.Object); ok {
		return o
	}
	return yson.Object{"v": v, "w": other}
}

// ---------------------------------------------------------------------------
// Walking the document the callback sees

type loc struct {
	path  []any    // string = object key, int = array index
	kinds []string // kind of the element reached after each path step
	el    crdt.Element
}

func (l loc) kind() string { return l.kinds[len(l.kinds)-1] }

func (l loc) String() string {
	var sb strings.Builder
	sb.WriteString("root")
	for _, s := range l.path {
		switch x := s.(type) {
		case string:
			sb.WriteString("." + x)
		case int:
			fmt.Fprintf(&sb, "[%d]", x)
		}
	}
	return sb.String()
}

// ctxOf is the container chain of the location ('O'/'A' per step).
func (l loc) ctxOf() string {
	var sb strings.Builder
	for _, s := range l.path {
		if _, ok := s.(string); ok {
			sb.WriteByte('O')
		} else {
			sb.WriteByte('A')
		}
	}
	return sb.String()
}

func unwrap(e crdt.Element) crdt.Element {
	switch x := e.(type) {
	case *json.Object:
		return x.Object
	case *json.Array:
		return x.Array
	case *json.Text:
		return x.Text
	case *json.Tree:
		return x.Tree
	case *json.Counter:
		return x.Counter
	}
	return e
}

func elemKind(e crdt.Element) string {
	switch x := unwrap(e).(type) {
	case *crdt.Object:
		return "obj"
	case *crdt.Array:
		return "arr"
	case *crdt.Text:
		return "text"
	case *crdt.Tree:
		return "tree"
	case *crdt.Counter:
		if x.IsDedup() {
			return "dedup"
		}
		return "cnt"
	case *crdt.Primitive:
		return "prim"
	}
	return "other"
}

// walk lists the live elements below root (depth <= 4, at most 160) in a
// fixed order: object members by key, array elements by index.
func walk(root *crdt.Object) []loc {
	var out []loc
	var rec func(e crdt.Element, path []any, kinds []string)
	rec = func(e crdt.Element, path []any, kinds []string) {
		if len(path) >= 4 || len(out) >= 160 {
			return
		}
		visit := func(step any, c crdt.Element) {
			if c == nil || len(out) >= 160 {
				return
			}
			p := append(append([]any{}, path...), step)
			k := append(append([]string{}, kinds...), elemKind(c))
			out = append(out, loc{p, k, unwrap(c)})
			rec(unwrap(c), p, k)
		}
		switch x := e.(type) {
		case *crdt.Object:
			m := x.Members()
			keys := make([]string, 0, len(m))
			for k := range m {
				keys = append(keys, k)
			}
			sort.Strings(keys)
			for _, k := range keys {
				visit(k, m[k])
			}
		case *crdt.Array:
			for i, c := range x.Elements() {
				visit(i, c)
			}
		}
	}
	rec(root, nil, nil)
	return out
}

func pick(ls []loc, keep func(l loc) bool) []loc {
	var out []loc
	for _, l := range ls {
		if keep(l) {
			out = append(out, l)
		}
	}
	return out
}

func isKey(l loc, k string) bool {
	if len(l.path) != 1 {
		return false
	}
	s, ok := l.path[0].(string)
	return ok && s == k
}

// resolve follows a location through the proxies of the callback and returns
// the proxy of the element (*json.Object, *json.Array, *json.Text, *json.Tree
// or *json.Counter).
func resolve(r *json.Object, l loc) any {
	var cur any = r
	for i, step := range l.path {
		kind := l.kinds[i]
		switch c := cur.(type) {
		case *json.Object:
			k := step.(string)
			switch kind {
			case "obj":
				cur = c.GetObject(k)
			case "arr":
				cur = c.GetArray(k)
			case "text":
				cur = c.GetText(k)
			case "tree":
				cur = c.GetTree(k)
			case "cnt", "dedup":
				cur = c.GetCounter(k)
			default:
				panic(harnessBug("resolve: no proxy for a " + kind))
			}
		case *json.Array:
			j := step.(int)
			switch kind {
			case "obj":
				cur = c.GetObject(j)
			case "arr":
				cur = c.GetArray(j)
			case "text":
				cur = c.GetText(j)
			case "tree":
				cur = c.GetTree(j)
			case "cnt", "dedup":
				cur = c.GetCounter(j)
			default:
				panic(harnessBug("resolve: no proxy for a " + kind))
			}
		default:
			panic(harnessBug(fmt.Sprintf("resolve: %T is not a container", cur)))
		}
	}
	return cur
}

// ---------------------------------------------------------------------------
// YSON and dedup-counter edits

func ysonKey(i int) string { return []string{"y0", "y1"}[((i%2)+2)%2] }

// putYSON writes a YSON value through one of the entry points. entry:
//
//	0 root.SetYSONElement(yk, v)            1 <nested object>.SetYSONElement(yk, v)
//	2 root.SetNewObject(yk, yson.Object)    3 root.SetYSON(yson.Object{yk: v, yk': v2})
//	4 root.a.AddYSON(v)                     5 <nested array>.AddYSON(v)
func putYSON(cx *cbCtx, r *json.Object, entry, ki int, v, v2 interface{}, leaves []placed, vdesc string) string {
	yk := ysonKey(ki)
	switch entry % 6 {
	case 1:
		// a nested object: the shared "o", or any other object in the document
		objs := pick(walk(r.Object), func(l loc) bool { return l.kind() == "obj" })
		if len(objs) > 0 {
			l := objs[ki/2%len(objs)]
			o := resolve(r, l).(*json.Object)
			o.SetYSONElement(yk, v)
			cx.count("yson_SetYSONElement_nested")
			cx.countYSON(l.ctxOf()+"O", leaves)
			return fmt.Sprintf("%s.SetYSONElement(%s, %s)", l, yk, vdesc)
		}
	case 2:
		obj := asYSONObject(v, v2)
		r.SetNewObject(yk, obj)
		cx.count("yson_SetNewObject_with_value")
		if _, ok := v.(yson.Object); ok {
			cx.countYSON("O", leaves)
		} else {
			cx.countYSON("OO", leaves)
		}
		return fmt.Sprintf("root.SetNewObject(%s, yson.Object of %s)", yk, vdesc)
	case 3:
		r.SetYSON(yson.Object{yk: v, ysonKey(ki + 1): v2})
		cx.count("yson_SetYSON")
		cx.countYSON("O", leaves)
		return fmt.Sprintf("root.SetYSON({%s: %s, %s: ..})", yk, vdesc, ysonKey(ki+1))
	case 4:
		if a := r.GetArray("a"); a != nil {
			a.AddYSON(v)
			cx.count("yson_AddYSON_shared_array")
			cx.countYSON("OA", leaves)
			return fmt.Sprintf("root.a.AddYSON(%s)", vdesc)
		}
	case 5:
		arrs := pick(walk(r.Object), func(l loc) bool { return l.kind() == "arr" && !isKey(l, "a") })
		if len(arrs) > 0 {
			l := arrs[ki/2%len(arrs)]
			a := resolve(r, l).(*json.Array)
			a.AddYSON(v)
			cx.count("yson_AddYSON_nested_array")
			cx.countYSON(l.ctxOf()+"A", leaves)
			return fmt.Sprintf("%s.AddYSON(%s)", l, vdesc)
		}
		if a := r.GetArray("a"); a != nil {
			a.AddYSON(v)
			cx.count("yson_AddYSON_shared_array")
			cx.countYSON("OA", leaves)
			return fmt.Sprintf("root.a.AddYSON(%s)", vdesc)
		}
	}
	r.SetYSONElement(yk, v)
	cx.count("yson_SetYSONElement_root")
	cx.countYSON("O", leaves)
	return fmt.Sprintf("root.SetYSONElement(%s, %s)", yk, vdesc)
}

func hasRegistersFromYSON(c *crdt.Counter) bool {
	cp, err := c.DeepCopy()
	if err != nil {
		return false
	}
	cc := cp.(*crdt.Counter)
	before := cc.Marshal()
	one, err := crdt.NewPrimitive(int32(1), time.InitialTicket)
	if err != nil {
		return false
	}
	if _, err := cc.IncreaseDedup(one, regActors[0]); err != nil {
		return false
	}
	return cc.Marshal() == before && before != "0"
}

func editExt(cx *cbCtx, r *json.Object, p *presence.Presence, s prog.Step) (desc string) {
	cx.count("ext_op_" + s.Op)
	cx.count("role_" + cx.role + "_" + extKindOf(s.Op))
	switch s.Op {
	case "yset", "yadd":
		// A: entry point (6) x key (2) x shape (6); B, C: the leaves
		entry, ki, shape := s.A%6, s.A/6%2, s.A/12
		if s.Op == "yadd" {
			// always through Array.AddYSON; arrays of their own are created
			// with SetYSONElement(yk, yson.Array{..}) by "yset"
			entry = 4 + s.A%2
		}
		v, leaves, vdesc := ysonValue(shape, s.B, s.C)
		v2, _, _ := ysonValue(0, s.C, 0)
		cx.count("yson_op")
		return putYSON(cx, r, entry, ki+2*(s.B+s.C), v, v2, leaves, vdesc)
	case "ycopy":
		// convert an element of the document with yson.FromCRDT (what
		// compaction does) and write it back through an entry point
		srcs := pick(walk(r.Object), func(l loc) bool { return l.kind() != "prim" && l.kind() != "other" })
		if len(srcs) == 0 {
			r.SetYSONElement("y0", int32(s.B))
			return "root.SetYSONElement(y0, int32) (nothing to copy)"
		}
		l := srcs[s.B%len(srcs)]
		v, err := yson.FromCRDT(l.el)
		if err != nil {
			panic(harnessBug("yson.FromCRDT: " + err.Error()))
		}
		vdesc := "copy of " + l.String() + " (" + l.kind() + ")"
		if ysonWeight(v) > 24 {
			v, _, vdesc = ysonValue(0, s.C, 0)
			vdesc += " (copy too large)"
		} else {
			cx.count("yson_copy_" + l.kind())
		}
		v2, _, _ := ysonValue(0, s.C, 0)
		cx.count("yson_op")
		return putYSON(cx, r, s.A%6, s.A/6, v, v2, nil, vdesc)
	case "ycinc":
		cs := pick(walk(r.Object), func(l loc) bool { return l.kind() == "cnt" && !isKey(l, "c") })
		if len(cs) == 0 {
			r.SetYSONElement(ysonKey(s.A), yson.Counter{Type: crdt.LongCnt, Value: int64(s.B)})
			cx.count("yson_op")
			cx.count("yson_SetYSONElement_root")
			return fmt.Sprintf("root.SetYSONElement(%s, Counter(Long(%d)))", ysonKey(s.A), s.B)
		}
		l := cs[s.A%len(cs)]
		c := resolve(r, l).(*json.Counter)
		c.Increase(s.B - 3)
		cx.count("yson_counter_increase")
		return fmt.Sprintf("%s.Increase(%d)", l, s.B-3)
	case "ynest":
		// edit a Text / Tree other than the shared root.t / root.tr (they come
		// in through YSON: under y0/y1, inside arrays, nested)
		ts := pick(walk(r.Object), func(l loc) bool {
			return (l.kind() == "text" && !isKey(l, "t")) || (l.kind() == "tree" && !isKey(l, "tr"))
		})
		if len(ts) == 0 {
			v, leaves, vdesc := ysonValue(0, 17+3*(s.B%2), 0) // text_attr | tree_attr_nested
			cx.count("yson_op")
			return putYSON(cx, r, 4, s.A, v, nil, leaves, vdesc)
		}
		l := ts[s.A%len(ts)]
		if l.kind() == "text" {
			tx := resolve(r, l).(*json.Text)
			n := prog.UTF16Len(tx.String())
			from := s.B % (n + 1)
			to := min(n, from+s.C%4)
			cx.count("yson_nested_text_edit")
			if s.C%3 == 0 {
				tx.Style(from, to, map[string]string{"b": fmt.Sprint(s.C % 2)})
				return fmt.Sprintf("%s.Style(%d,%d)", l, from, to)
			}
			c := prog.Contents[s.C%len(prog.Contents)]
			if c == "" && from == to {
				c = "q"
			}
			tx.Edit(from, to, c)
			return fmt.Sprintf("%s.Edit(%d,%d,%q)", l, from, to, c)
		}
		tr := resolve(r, l).(*json.Tree)
		cx.count("yson_nested_tree_edit")
		op := []string{"trsplit", "trstylex", "trmerge", "tredit"}[s.C%4]
		return l.String() + ": " + treeExt(cx, tr, prog.Step{Op: op, A: s.B, B: s.A, C: s.C / 4})
	case "dcnew":
		switch s.A % 4 {
		case 1:
			if a := r.GetArray("a"); a != nil {
				a.AddNewCounter(crdt.IntegerDedupCnt, 0)
				cx.count("dedup_new_in_array")
				return "root.a.AddNewCounter(dedup)"
			}
		case 2:
			if o := r.GetObject("o"); o != nil {
				o.SetNewDedupCounter("dc")
				cx.count("dedup_new_nested")
				return "root.o.SetNewDedupCounter(dc)"
			}
		case 3:
			c := r.SetNewDedupCounter("dc")
			c.Add(addActors[s.B%len(addActors)])
			c.Add(addActors[s.C%len(addActors)])
			cx.count("dedup_new_under_key")
			cx.count("dedup_new_and_add_in_one_callback")
			return fmt.Sprintf("root.SetNewDedupCounter(dc).Add(%s).Add(%s)", addActors[s.B%len(addActors)], addActors[s.C%len(addActors)])
		}
		r.SetNewDedupCounter("dc")
		cx.count("dedup_new_under_key")
		return "root.SetNewDedupCounter(dc)"
	case "dcadd":
		cs := pick(walk(r.Object), func(l loc) bool { return l.kind() == "dedup" })
		if len(cs) == 0 {
			r.SetNewDedupCounter("dc")
			cx.count("dedup_new_under_key")
			return "root.SetNewDedupCounter(dc) (no dedup counter yet)"
		}
		l := cs[s.A%len(cs)]
		c := resolve(r, l).(*json.Counter)
		actor := addActors[s.B%len(addActors)]
		fromYSON := hasRegistersFromYSON(c.Counter)
		before := c.Counter.Marshal()
		c.Add(actor)
		cx.count("dedup_add")
		if c.Counter.Marshal() == before {
			cx.count("dedup_add_repeated_actor")
		} else {
			cx.count("dedup_add_new_actor")
		}
		if strings.HasSuffix(l.ctxOf(), "A") {
			cx.count("dedup_add_in_array")
		} else {
			cx.count("dedup_add_under_key")
		}
		if fromYSON {
			cx.count("dedup_add_on_yson_registers")
			if strings.HasSuffix(l.ctxOf(), "A") {
				cx.count("dedup_add_on_yson_registers_in_array")
			}
		}
		return fmt.Sprintf("%s.Add(%s) %s->%s", l, actor, before, c.Counter.Marshal())
	case "trsplit", "trstylex", "trmerge", "tredit":
		tr := r.GetTree("tr")
		if tr == nil {
			r.SetInteger("k0", 0)
			return "no tree"
		}
		return "tr: " + treeExt(cx, tr, s)
	}
	panic(harnessBug("unknown edit op " + s.Op))
}

// ---------------------------------------------------------------------------
// Tree edits by index

// ttok is one index token of the visible tree: an element's open tag, its
// close tag, or one UTF-16 unit of text.
type ttok struct {
	kind byte // 'o' | 'c' | 't'
	node *crdt.TreeNode
}

func treeTokens(t *crdt.Tree) []ttok {
	var out []ttok
	var rec func(n *crdt.TreeNode)
	rec = func(n *crdt.TreeNode) {
		for _, c := range n.Children() {
			if c.IsText() {
				for i := 0; i < prog.UTF16Len(c.Value); i++ {
					out = append(out, ttok{'t', c})
				}
				continue
			}
			out = append(out, ttok{'o', c})
			rec(c)
			out = append(out, ttok{'c', c})
		}
	}
	rec(t.Root())
	return out
}

// depths[i] is the number of elements open at boundary i (0..len(toks)).
func depths(toks []ttok) []int {
	d := make([]int, len(toks)+1)
	for i, t := range toks {
		d[i+1] = d[i]
		switch t.kind {
		case 'o':
			d[i+1]++
		case 'c':
			d[i+1]--
		}
	}
	return d
}

// simpleShape: doc > element* > text* (what the path variants address).
func simpleShape(t *crdt.Tree) bool {
	for _, c := range t.Root().Children() {
		if c.IsText() {
			return false
		}
		for _, g := range c.Children() {
			if !g.IsText() {
				return false
			}
		}
	}
	return true
}

// simplePath is the path of boundary idx in a tree of simple shape: [i] at
// the top level, [i, k] inside the i-th element after k units of text.
func simplePath(toks []ttok, idx int) []int {
	i, k, inside := 0, 0, false
	for _, t := range toks[:idx] {
		switch t.kind {
		case 'o':
			inside, k = true, 0
		case 'c':
			inside = false
			i++
		case 't':
			k++
		}
	}
	if inside {
		return []int{i, k}
	}
	return []int{i}
}

func splitSibling(t *crdt.Tree, n *crdt.TreeNode) *crdt.TreeNode {
	if n.InsNextID == nil {
		return nil
	}
	_, next := t.NodeMapByID.Floor(n.InsNextID)
	if next == nil || next.IsText() || !next.ID().Equal(n.InsNextID) {
		return nil
	}
	return next
}

// classifyRange records which elements the index range [from,to) reaches only
// through their End token / only through their Start token.
func (cx *cbCtx) classifyRange(what string, t *crdt.Tree, toks []ttok, from, to int) {
	open := map[*crdt.TreeNode]bool{}
	endOnly, startOnly, splitLeft := false, false, false
	for _, tk := range toks[from:to] {
		switch tk.kind {
		case 'o':
			open[tk.node] = true
		case 'c':
			if open[tk.node] {
				delete(open, tk.node)
				continue
			}
			endOnly = true
			if sib := splitSibling(t, tk.node); sib != nil {
				splitLeft = true
				if sib.ID().CreatedAt.ActorID() == cx.actor {
					cx.count(what + "_end_only_of_own_split_left")
				} else {
					cx.count(what + "_end_only_of_peer_split_left")
				}
			}
		}
	}
	startOnly = len(open) > 0
	if endOnly {
		cx.count(what + "_partial_left_element")
	}
	if startOnly {
		cx.count(what + "_partial_right_element")
	}
	if endOnly || startOnly {
		cx.count(what + "_boundary_crossing")
	}
	treeKey := t.CreatedAt().Key()
	if cx.splitTrees[treeKey] {
		cx.count(what + "_after_split_in_same_callback")
		if endOnly {
			cx.count(what + "_partial_left_after_split_in_same_callback")
		}
		if splitLeft {
			cx.count(what + "_end_only_of_split_left_in_same_callback")
		}
	}
}

var treeContents = []struct {
	desc string
	node *json.TreeNode
}{
	{"nil", nil},
	{`text "Q"`, &json.TreeNode{Type: "text", Value: "Q"}},
	{`text "한z"`, &json.TreeNode{Type: "text", Value: "한z"}},
	{"<p></p>", &json.TreeNode{Type: "p"}},
	{"<p>mn</p>", &json.TreeNode{Type: "p", Children: []json.TreeNode{{Type: "text", Value: "mn"}}}},
	{`<q><p i="2">k</p></q>`, &json.TreeNode{Type: "q", Children: []json.TreeNode{
		{Type: "p", Attributes: map[string]string{"i": "2"}, Children: []json.TreeNode{{Type: "text", Value: "k"}}}}}},
	{`<p b="1">uv</p>`, &json.TreeNode{Type: "p", Attributes: map[string]string{"b": "1"},
		Children: []json.TreeNode{{Type: "text", Value: "uv"}}}},
}

// treeExt executes one tree edit by index on tr. json.Tree accepts every
// 0 <= from <= to <= Len() and every splitLevel >= 0.
func treeExt(cx *cbCtx, tr *json.Tree, s prog.Step) string {
	n := tr.Len()
	toks := treeTokens(tr.Tree)
	known := len(toks) == n // otherwise the classes are not recorded; the calls stay valid
	if !known {
		cx.count("tree_len_differs_from_visible_tokens")
		toks = nil
	}
	var dep []int
	var inside []int // boundaries inside an element
	if known {
		dep = depths(toks)
		for i, d := range dep {
			if d >= 1 {
				inside = append(inside, i)
			}
		}
	}
	simple := known && simpleShape(tr.Tree)
	treeKey := tr.Tree.CreatedAt().Key()
	pathsOf := func(from, to int) ([]int, []int, bool) {
		if !simple {
			return nil, nil, false
		}
		fp, tp := simplePath(toks, from), simplePath(toks, to)
		return fp, tp, len(fp) == len(tp)
	}
	switch s.Op {
	case "trsplit":
		at := s.A % (n + 1)
		if s.B%4 != 3 && len(inside) > 0 {
			at = inside[s.A%len(inside)]
		}
		level := 1 + s.C%2
		cx.count("tree_split")
		cx.count(fmt.Sprintf("tree_split_level%d", level))
		if known && dep[at] >= 1 {
			cx.count("tree_split_inside_element")
			cx.sm = true
			cx.splitTrees[treeKey] = true
		}
		if fp, tp, ok := pathsOf(at, at); ok && s.C/2%2 == 1 {
			cx.count("tree_edit_by_path")
			tr.EditByPath(fp, tp, nil, level)
			return fmt.Sprintf("EditByPath(%v,%v,nil,splitLevel %d)", fp, tp, level)
		}
		tr.Edit(at, at, nil, level)
		return fmt.Sprintf("Edit(%d,%d,nil,splitLevel %d)", at, at, level)
	case "trmerge":
		if n == 0 {
			tr.Edit(0, 0, &json.TreeNode{Type: "p", Children: []json.TreeNode{{Type: "text", Value: "ab"}}}, 0)
			return "Edit(0,0,<p>ab</p>,0) (empty tree)"
		}
		from := s.A % (n + 1)
		to := min(n, from+1+s.B%6)
		if s.C%3 != 0 && len(inside) > 1 {
			// from inside one element, to inside a later one
			i := s.A % len(inside)
			j := min(len(inside)-1, i+1+s.B%5)
			from, to = inside[i], inside[j]
		}
		if from == to {
			from = max(0, to-1)
		}
		cx.count("tree_delete_by_index")
		if known {
			open, crossing := 0, false
			for _, tk := range toks[from:to] {
				switch tk.kind {
				case 'o':
					open++
				case 'c':
					if open == 0 {
						crossing = true
					} else {
						open--
					}
				}
			}
			if crossing || open > 0 {
				cx.count("tree_merge_boundary_crossing_delete")
				cx.sm = true
			}
		} else {
			cx.sm = true
		}
		if fp, tp, ok := pathsOf(from, to); ok && s.C/3%2 == 1 {
			cx.count("tree_edit_by_path")
			tr.EditByPath(fp, tp, nil, 0)
			return fmt.Sprintf("EditByPath(%v,%v,nil,0)", fp, tp)
		}
		tr.Edit(from, to, nil, 0)
		return fmt.Sprintf("Edit(%d,%d,nil,0)", from, to)
	case "tredit":
		from := s.A % (n + 1)
		to := min(n, from+s.B%5)
		c := treeContents[s.C%len(treeContents)]
		level := s.C / len(treeContents) % 3
		if c.node == nil && from == to && level == 0 {
			c = treeContents[1]
		}
		cx.count("tree_free_edit")
		if level > 0 {
			cx.count("tree_split")
			cx.count(fmt.Sprintf("tree_split_level%d", level))
			cx.count("tree_split_with_content_or_delete")
			cx.sm = true
			cx.splitTrees[treeKey] = true
		}
		if c.node != nil && len(c.node.Children) > 0 && c.node.Children[0].Type != "text" {
			cx.count("tree_insert_nested_elements")
		}
		if c.node != nil && c.node.Attributes != nil {
			cx.count("tree_insert_element_with_attributes")
		}
		if known && from < to {
			cx.classifyRange("tree_delete", tr.Tree, toks, from, to)
			if d := dep[from]; d != dep[to] {
				cx.sm = true
			} else {
				for _, x := range dep[from:to] {
					if x < d {
						cx.sm = true
					}
				}
			}
		} else if !known {
			cx.sm = true
		}
		if fp, tp, ok := pathsOf(from, to); ok && s.B/5%2 == 1 {
			cx.count("tree_edit_by_path")
			tr.EditByPath(fp, tp, c.node, level)
			return fmt.Sprintf("EditByPath(%v,%v,%s,splitLevel %d)", fp, tp, c.desc, level)
		}
		tr.Edit(from, to, c.node, level)
		return fmt.Sprintf("Edit(%d,%d,%s,splitLevel %d)", from, to, c.desc, level)
	case "trstylex":
		from := s.A % (n + 1)
		to := min(n, from+1+s.B%7)
		if s.B%8 == 7 {
			to = n
		}
		key := []string{"b", "i"}[s.C/3%2]
		val := []string{"1", "2"}[s.C/6%2]
		byPath := s.C/12%2 == 1
		cx.count("tree_style_by_index_range")
		if known {
			cx.classifyRange("tree_style", tr.Tree, toks, from, to)
		}
		fp, tp, ok := pathsOf(from, to)
		byPath = byPath && ok
		if byPath {
			cx.count("tree_style_by_path")
		}
		if s.C%3 == 0 {
			if byPath {
				tr.RemoveStyleByPath(fp, tp, []string{key})
				return fmt.Sprintf("RemoveStyleByPath(%v,%v,[%s])", fp, tp, key)
			}
			tr.RemoveStyle(from, to, []string{key})
			return fmt.Sprintf("RemoveStyle(%d,%d,[%s])", from, to, key)
		}
		attrs := map[string]string{key: val}
		if s.C/24%3 == 2 {
			attrs = map[string]string{"b": val, "i": val}
		}
		if byPath {
			tr.StyleByPath(fp, tp, attrs)
			return fmt.Sprintf("StyleByPath(%v,%v,%v)", fp, tp, attrs)
		}
		tr.Style(from, to, attrs)
		return fmt.Sprintf("Style(%d,%d,%v)", from, to, attrs)
	}
	panic(harnessBug("unknown tree op " + s.Op))
}
