package c17

import (
	"context"
	"encoding/json"
	"fmt"
	"strconv"
	"strings"
	"sync"
	"sync/atomic"
	"testing"
	gotime "time"

	"pgregory.net/rapid"

	"github.com/yorkie-team/yorkie/api/types"
	"github.com/yorkie-team/yorkie/api/types/events"
	"github.com/yorkie-team/yorkie/server/backend/pubsub"

	"verifharness/kit"
	"verifharness/stats"
)

// ChurnCase is one case of the churn stratum: on each of Docs document keys,
// Watchers long-lived subscribers (established before anything is published,
// reading promptly, never unsubscribing until the end) while Churners
// goroutines subscribe and unsubscribe OTHER actors in a loop; a writer
// publishes one DocChanged per round and every long-lived watcher must be told
// about it (or see its channel closed) before the next round starts.
type ChurnCase struct {
	Docs     int `json:"docs"`
	Watchers int `json:"watchers"`
	Churners int `json:"churners"`
	Rounds   int `json:"rounds"`
	Spin     int `json:"spin"`  // busy-wait of a churner between Subscribe and Unsubscribe
	Pool     int `json:"pool"`  // distinct actors per churner
	Pause    int `json:"pause"` // jitter code of the writer before each publish
}

func genChurn() *rapid.Generator[ChurnCase] {
	return rapid.Custom(func(t *rapid.T) ChurnCase {
		return ChurnCase{
			Docs:     rapid.IntRange(1, 4).Draw(t, "docs"),
			Watchers: rapid.IntRange(2, 14).Draw(t, "watchers"),
			Churners: rapid.IntRange(1, 4).Draw(t, "churners"),
			Rounds:   rapid.IntRange(10, kit.Pick(30, 80)).Draw(t, "rounds"),
			Spin:     rapid.IntRange(0, 300).Draw(t, "spin"),
			Pool:     rapid.IntRange(1, 16).Draw(t, "pool"),
			Pause:    rapid.IntRange(0, 7).Draw(t, "pause"),
		}
	})
}

const (
	churnKeyTag  = "0000000000000000000c4a17"
	idChurnWrite = 200
	idChurnProbe = 300 // + n%50: publishes the n-th probe change of refute
)

type churnWatcher struct {
	id     int
	sub    *pubsub.DocSubscription
	told   atomic.Int64 // stamp of the last DocChanged of the writer
	probe  atomic.Int64 // number of the last probe change received (see refute)
	closed atomic.Bool
	done   chan struct{}
}

type churnRun struct {
	cc    ChurnCase
	seq   int64 // number of the case in this process (part of the actor ids)
	ps    *pubsub.PubSub
	clock atomic.Int64
	churn atomic.Int64
	// rounds in which a watcher was not told within the cap while the process
	// was starved of CPU (inconclusive, see lagWatch)
	starvedMiss atomic.Int64
	probes      atomic.Int64
	mu          sync.Mutex
	fail        *kit.Failure
	notes       []string
}

func (r *churnRun) failf(kind, format string, a ...any) {
	r.mu.Lock()
	defer r.mu.Unlock()
	if r.fail == nil {
		r.fail = kit.Failf(kind, format, a...)
	}
}

func (r *churnRun) failed() bool {
	r.mu.Lock()
	defer r.mu.Unlock()
	return r.fail != nil
}

func (r *churnRun) guard(who string) {
	if x := recover(); x != nil {
		r.failf("PANIC", "%s panicked: %v", who, x)
	}
}

// churnActor is the id of actor i of document d in case seq of this process
// (unique per process, so that a line of the publisher log names one watcher).
func churnActor(seq int64, d, i int) [12]byte {
	return [12]byte{0: 0xc1, 1: 0x17, 2: byte(seq >> 8), 3: byte(seq), 4: byte(d), 9: byte(i >> 16), 10: byte(i >> 8), 11: byte(i)}
}

func (r *churnRun) doc(d int, lw *lagWatch) {
	defer r.guard("doc loop")
	ctx := context.Background()
	key := types.DocRefKey{ProjectID: types.ID(churnKeyTag), DocID: types.ID(fmt.Sprintf("%024x", d+1))}
	writer := churnActor(r.seq, d, idChurnWrite)
	cc := r.cc
	ws := make([]*churnWatcher, cc.Watchers)
	for i := range ws {
		sub, _, err := r.ps.Subscribe(ctx, churnActor(r.seq, d, 1+i), key, 0)
		if err != nil {
			r.failf("SUBSCRIBE-ERROR", "doc %d: Subscribe of watcher %d failed: %v", d, i, err)
			return
		}
		w := &churnWatcher{id: 1 + i, sub: sub, done: make(chan struct{})}
		ws[i] = w
		go func() {
			defer close(w.done)
			for ev := range w.sub.Events() {
				if ev.Type == events.DocChanged && ev.Actor == writer {
					w.told.Store(r.clock.Add(1))
				}
				if n, err := strconv.Atoi(strings.TrimPrefix(ev.Body.Topic, "probe:")); err == nil && strings.HasPrefix(ev.Body.Topic, "probe:") {
					w.probe.Store(int64(n))
				}
			}
			w.closed.Store(true)
		}()
	}
	stop := make(chan struct{})
	var cw sync.WaitGroup
	for c := 0; c < cc.Churners; c++ {
		cw.Add(1)
		go func() {
			defer cw.Done()
			defer r.guard("churner")
			for n := 0; ; n++ {
				select {
				case <-stop:
					return
				default:
				}
				id := 1000 + c*100 + n%cc.Pool
				sub, _, err := r.ps.Subscribe(ctx, churnActor(r.seq, d, id), key, 0)
				if err != nil {
					r.failf("SUBSCRIBE-ERROR", "doc %d: Subscribe of a churning actor failed: %v", d, err)
					return
				}
				drained := make(chan struct{})
				go func() {
					defer close(drained)
					for range sub.Events() {
					}
				}()
				spin((cc.Spin * (n%5 + 1)) % 700)
				r.ps.Unsubscribe(ctx, key, sub)
				select {
				case <-drained:
				case <-gotime.After(waitCap):
					r.failf("OPEN-AFTER-UNSUBSCRIBE", "doc %d: %v after Unsubscribe of a churning actor returned its event channel is still open", d, waitCap)
					return
				}
				r.churn.Add(1)
			}
		}()
	}
rounds:
	for round := 1; round <= cc.Rounds && !r.failed(); round++ {
		pause(cc.Pause + round)
		pEntry := r.clock.Add(1)
		r.ps.Publish(ctx, writer, events.DocEvent{Type: events.DocChanged, Key: key, Actor: writer})
		deadline := gotime.Now().Add(waitCap)
		for {
			var missing *churnWatcher
			for _, w := range ws {
				if w.told.Load() < pEntry && !w.closed.Load() {
					missing = w
					break
				}
			}
			if missing == nil {
				break
			}
			if gotime.Now().After(deadline) {
				refuted := ""
				if lw.starved() {
					probe := r.refute(ctx, key, d, missing)
					if missing.told.Load() >= pEntry || missing.closed.Load() {
						deadline = gotime.Now().Add(waitCap) // told in the meantime; the others get a cap of their own
						continue
					}
					if probe != "" {
						refuted = fmt.Sprintf(" The process was starved of CPU during the case (a 1 ms sleeper overslept %v), but that does not explain it: the publisher logged no failed send to "+
							"this watcher, and the watcher has received the later change %q, so the batches before it were flushed.", gotime.Duration(lw.max.Load()), probe)
					}
				}
				if lw.starved() && refuted == "" {
					r.starvedMiss.Add(1)
					logged := loggedTimeouts(churnActor(r.seq, d, missing.id))
					r.mu.Lock()
					r.notes = append(r.notes, fmt.Sprintf("churn (inconclusive, process starved: a 1 ms sleeper overslept %v): doc %d round %d: watcher actor %d, subscribed and reading "+
						"(its previous event was received at stamp %d, so its one-slot buffer was empty), was not told about the DocChanged published at stamp %d within %v and its channel stayed open; "+
						"failed sends to this watcher in the publisher's log: %d",
						gotime.Duration(lw.max.Load()), d, round, missing.id, missing.told.Load(), pEntry, waitCap, logged))
					r.mu.Unlock()
				} else {
					r.failf("NEVER-TOLD", "doc %d round %d: watcher (actor %d) subscribed before anything was published and is still subscribed, but %v after the DocChanged "+
						"of the writer was published (stamp %d) it has neither received it (last told at stamp %d) nor had its channel closed; "+
						"%d other watchers, %d churning goroutines subscribing/unsubscribing other actors on the same key.%s",
						d, round, missing.id, waitCap, pEntry, missing.told.Load(), cc.Watchers-1, cc.Churners, refuted)
				}
				break rounds // (the watchers still unsubscribe below: the leak checks need that)
			}
			gotime.Sleep(gotime.Millisecond)
		}
	}
	close(stop)
	cw.Wait()
	func() {
		defer r.guard("Unsubscribe")
		for _, w := range ws {
			r.ps.Unsubscribe(ctx, key, w.sub)
		}
	}()
	for _, w := range ws {
		select {
		case <-w.done:
		case <-gotime.After(waitCap):
			r.failf("OPEN-AFTER-UNSUBSCRIBE", "doc %d: %v after Unsubscribe of watcher (actor %d) returned its event channel is still open", d, waitCap, w.id)
		}
	}
	if ids := r.ps.ClientIDs(key); len(ids) != 0 {
		r.failf("LEAK-SUBSCRIPTION", "doc %d: after every subscriber unsubscribed, ClientIDs still lists %v", d, ids)
	}
}

// refute checks the excuse "a send to this watcher may have timed out because
// the process was starved" (see (*world).refute): a probe change is published
// under a fresh actor; if the watcher receives it and the publisher has logged
// no failed send to the watcher, it returns the probe's tag, else "".
func (r *churnRun) refute(ctx context.Context, key types.DocRefKey, d int, w *churnWatcher) string {
	if tap == nil || !tap.ok() {
		return ""
	}
	n := r.probes.Add(1)
	tag := fmt.Sprintf("probe:%d", n)
	prober := churnActor(r.seq, d, idChurnProbe+int(n%50))
	r.ps.Publish(ctx, prober, events.DocEvent{Type: events.DocChanged, Key: key, Actor: prober, Body: events.DocEventBody{Topic: tag}})
	deadline := gotime.Now().Add(waitCap)
	for w.probe.Load() != n {
		if w.closed.Load() || gotime.Now().After(deadline) {
			return ""
		}
		gotime.Sleep(gotime.Millisecond)
	}
	if !tap.barrier(waitCap) || tap.timeoutsOf(churnActor(r.seq, d, w.id)) > 0 {
		return ""
	}
	return tag
}

func evalChurn(cc ChurnCase) (fail *kit.Failure, churn int, starved bool, starvedMiss []string) {
	r := &churnRun{cc: cc, seq: caseSeq.Add(1), ps: pubsub.New()}
	lw := startLagWatch()
	defer lw.close()
	var wg sync.WaitGroup
	for d := 0; d < cc.Docs; d++ {
		wg.Add(1)
		go func() {
			defer wg.Done()
			r.doc(d, lw)
		}()
	}
	wg.Wait()
	if r.fail == nil {
		if left := waitNoPublishers(waitCap); left != 0 {
			r.failf("LEAK-PUBLISHER", "%d batch-publisher goroutine(s) still run after every subscriber of every key unsubscribed", left)
		}
	}
	return r.fail, int(r.churn.Load()), lw.starved(), r.notes
}

func TestC17Churn(t *testing.T) {
	col := stats.New(prop, "churn")
	var best *ChurnCase
	var bestFail *kit.Failure
	defer func() {
		if best != nil {
			name := fmt.Sprintf("churn-%016x", hashOf(*best))
			path := kit.WriteReplay(prop, "churn", name, *best, bestFail, nil)
			col.AddViolation(stats.Violation{Replay: path, Kind: bestFail.Kind, Msg: bestFail.Msg})
			kit.ReportViolation(prop, path, bestFail)
		}
		col.Flush(true)
	}()
	gen := genChurn()
	total := 0
	rapid.Check(t, func(rt *rapid.T) {
		cc := gen.Draw(rt, "case")
		if best != nil {
			rt.Fatalf("%s", bestFail.Error())
		}
		h := hashOf(cc)
		setInflight("churn", "churn", fmt.Sprintf("churn-%016x", h), cc)
		fail, churn, starved, miss := evalChurn(cc)
		total += churn
		col.SetExtra("churn_subscribe_unsubscribe_pairs", total)
		cl := map[string]int{fmt.Sprintf("churn:docs=%d", cc.Docs): 1, "churn:rounds": cc.Rounds * cc.Docs}
		if starved {
			cl["churn:starved"] = 1
		}
		if len(miss) > 0 {
			cl["churn:inconclusive_starved"] = 1
			for _, n := range miss {
				col.Note("%s", n)
				fmt.Println("NOTE " + n)
			}
		}
		// non-trivial: on average at least one subscribe/unsubscribe pair of another actor per published round
		col.Record(h, fail == nil && churn >= cc.Rounds*cc.Docs, cl, func() any {
			return map[string]any{"case": cc, "subscribe_unsubscribe_pairs_during_the_rounds": churn}
		})
		col.Flush(false)
		if fail != nil {
			c := cc
			best, bestFail = &c, fail
			rt.Fatalf("%s", fail.Error())
		}
	})
}

func replayChurn(raw json.RawMessage) *kit.Failure {
	var cc ChurnCase
	if err := json.Unmarshal(raw, &cc); err != nil {
		return kit.Failf("HARNESS", "HARNESS-ERROR bad case: %v", err)
	}
	for i := 0; i < 5; i++ {
		if fail, _, _, _ := evalChurn(cc); fail != nil {
			return fail
		}
	}
	return nil
}
