package c17

import (
	"context"
	"encoding/json"
	"fmt"
	"runtime"
	"sync"
	"sync/atomic"
	"testing"
	gotime "time"

	"pgregory.net/rapid"

	"github.com/yorkie-team/yorkie/api/types"
	"github.com/yorkie-team/yorkie/api/types/events"
	"github.com/yorkie-team/yorkie/server/backend/pubsub"

	"verifharness/kit"
	"verifharness/stats"
)

// RaceCase is one case of the focused stratum: Iters times, on a fresh
// document key each, the last NOld subscribers unsubscribe while NNew new
// subscribers subscribe; afterwards a change is published that every new
// subscriber must be told about.
type RaceCase struct {
	Iters     int  `json:"iters"`
	NOld      int  `json:"nold"`
	NNew      int  `json:"nnew"`
	SpinU     int  `json:"spinu"`               // busy-wait before Unsubscribe (varied per iteration)
	SpinS     int  `json:"spins"`               // busy-wait before Subscribe (varied per iteration)
	PubDuring bool `json:"pubduring,omitempty"` // a third party publishes while the race runs
	SameActor bool `json:"sameactor,omitempty"` // the first new subscriber is the first old one (reconnect)
	Workers   int  `json:"workers"`
}

func genRace() *rapid.Generator[RaceCase] {
	return rapid.Custom(func(t *rapid.T) RaceCase {
		return RaceCase{
			Iters:     kit.Pick(2000, 4000),
			NOld:      rapid.IntRange(1, 2).Draw(t, "nold"),
			NNew:      rapid.IntRange(1, 2).Draw(t, "nnew"),
			SpinU:     rapid.IntRange(0, 400).Draw(t, "spinu"),
			SpinS:     rapid.IntRange(0, 400).Draw(t, "spins"),
			PubDuring: rapid.IntRange(0, 2).Draw(t, "pubduring") == 0,
			SameActor: rapid.IntRange(0, 3).Draw(t, "sameactor") == 0,
			Workers:   rapid.IntRange(1, 3).Draw(t, "workers"),
		}
	})
}

const (
	raceBatch  = 250 // keys whose delivery is awaited together (one batch window)
	idOld      = 0   // old subscribers: 0, 1
	idNew      = 2   // new subscribers: 2, 3
	idChanger  = 5   // publishes the change that must arrive
	idBystand  = 6   // publishes during the race
	raceKeyTag = "00000000000000000000ace1"
)

type newSub struct {
	iter   int
	key    types.DocRefKey
	id     int
	sub    *pubsub.DocSubscription
	got    atomic.Bool
	closed atomic.Bool
	done   chan struct{}
	pEntry int64
	pExit  int64
	note   string
}

type raceRun struct {
	rc      RaceCase
	ps      *pubsub.PubSub
	clock   atomic.Int64
	overlap atomic.Int64
	mu      sync.Mutex
	fail    *kit.Failure
	pending []*newSub
}

func (r *raceRun) failf(kind, format string, a ...any) {
	r.mu.Lock()
	defer r.mu.Unlock()
	if r.fail == nil {
		r.fail = kit.Failf(kind, format, a...)
	}
}

func (r *raceRun) guard(who string) {
	if x := recover(); x != nil {
		r.failf("PANIC", "%s panicked: %v", who, x)
	}
}

func raceKey(iter int) types.DocRefKey {
	return types.DocRefKey{ProjectID: types.ID(raceKeyTag), DocID: types.ID(fmt.Sprintf("%024x", iter+1))}
}

// one runs the race on one fresh key.
func (r *raceRun) one(iter int) {
	ctx := context.Background()
	key := raceKey(iter)
	rc := r.rc
	olds := make([]*pubsub.DocSubscription, rc.NOld)
	for j := range olds {
		sub, _, err := r.ps.Subscribe(ctx, actorID(idOld+j), key, 0)
		if err != nil {
			r.failf("SUBSCRIBE-ERROR", "iteration %d: Subscribe failed: %v", iter, err)
			return
		}
		olds[j] = sub
	}
	n := rc.NOld + rc.NNew
	if rc.PubDuring {
		n++
	}
	var ready atomic.Int32
	var gate atomic.Bool
	var wg sync.WaitGroup
	wg.Add(n)
	enter := func() {
		ready.Add(1)
		for !gate.Load() {
			runtime.Gosched()
		}
	}
	type span struct{ entry, exit int64 }
	us := make([]span, rc.NOld)
	ss := make([]span, rc.NNew)
	news := make([]*newSub, rc.NNew)
	for j := range olds {
		go func(j int) {
			defer wg.Done()
			defer r.guard("Unsubscribe")
			enter()
			spin((rc.SpinU * (iter%7 + 1)) % 500)
			us[j].entry = r.clock.Add(1)
			r.ps.Unsubscribe(ctx, key, olds[j])
			us[j].exit = r.clock.Add(1)
		}(j)
	}
	for j := range news {
		id := idNew + j
		if rc.SameActor && j == 0 {
			id = idOld
		}
		go func(j, id int) {
			defer wg.Done()
			defer r.guard("Subscribe")
			enter()
			spin((rc.SpinS * (iter%5 + 1)) % 500)
			ss[j].entry = r.clock.Add(1)
			sub, _, err := r.ps.Subscribe(ctx, actorID(id), key, 0)
			ss[j].exit = r.clock.Add(1)
			if err != nil {
				r.failf("SUBSCRIBE-ERROR", "iteration %d: Subscribe failed: %v", iter, err)
				return
			}
			news[j] = &newSub{iter: iter, key: key, id: id, sub: sub, done: make(chan struct{})}
		}(j, id)
	}
	if rc.PubDuring {
		go func() {
			defer wg.Done()
			defer r.guard("Publish")
			enter()
			r.ps.Publish(ctx, actorID(idBystand), events.DocEvent{Type: events.DocChanged, Key: key, Actor: actorID(idBystand)})
		}()
	}
	for int(ready.Load()) < n {
		runtime.Gosched()
	}
	gate.Store(true)
	wg.Wait()

	ov := false
	for _, u := range us {
		for _, s := range ss {
			if u.entry < s.exit && s.entry < u.exit {
				ov = true
			}
		}
	}
	if ov {
		r.overlap.Add(1)
	}
	var live []*newSub
	for _, ns := range news {
		if ns == nil {
			continue
		}
		live = append(live, ns)
		go func(ns *newSub) {
			defer close(ns.done)
			for ev := range ns.sub.Events() {
				if ev.Type == events.DocChanged && actorIdx(ev.Actor) == idChanger {
					ns.got.Store(true)
				}
			}
			ns.closed.Store(true)
		}(ns)
	}
	// every Subscribe has returned: this change must reach every new subscriber
	pEntry := r.clock.Add(1)
	r.ps.Publish(ctx, actorID(idChanger), events.DocEvent{Type: events.DocChanged, Key: key, Actor: actorID(idChanger)})
	pExit := r.clock.Add(1)
	for _, ns := range live {
		ns.pEntry, ns.pExit = pEntry, pExit
		ns.note = fmt.Sprintf("Unsubscribe spans %v, Subscribe spans %v", us, ss)
	}
	r.mu.Lock()
	r.pending = append(r.pending, live...)
	r.mu.Unlock()
}

// settle waits until every new subscriber of the batch was told, then
// unsubscribes them and checks that nothing is left.
func (r *raceRun) settle(lw *lagWatch) {
	ctx := context.Background()
	r.mu.Lock()
	pend := r.pending
	r.pending = nil
	r.mu.Unlock()
	deadline := gotime.Now().Add(waitCap)
	for {
		var missing *newSub
		for _, ns := range pend {
			if !ns.got.Load() && !ns.closed.Load() {
				missing = ns
				break
			}
		}
		if missing == nil {
			break
		}
		if gotime.Now().After(deadline) {
			if lw.starved() {
				break
			}
			registered := false
			for _, id := range r.ps.ClientIDs(missing.key) {
				if actorIdx(id) == missing.id {
					registered = true
				}
			}
			r.failf("NEVER-TOLD", "iteration %d: a subscriber (actor %d) whose Subscribe returned while the last subscriber(s) of the key unsubscribed "+
				"(%s) never received the DocChanged published afterwards at stamps [%d,%d] (waited %v; channel open; listed in ClientIDs: %v)",
				missing.iter, missing.id, missing.note, missing.pEntry, missing.pExit, waitCap, registered)
			break
		}
		gotime.Sleep(2 * gotime.Millisecond)
	}
	func() {
		defer r.guard("Unsubscribe")
		for _, ns := range pend {
			r.ps.Unsubscribe(ctx, ns.key, ns.sub)
		}
	}()
	for _, ns := range pend {
		select {
		case <-ns.done:
		case <-gotime.After(waitCap):
			r.failf("OPEN-AFTER-UNSUBSCRIBE", "iteration %d: %v after Unsubscribe of actor %d returned its event channel is still open", ns.iter, waitCap, ns.id)
		}
		if ids := r.ps.ClientIDs(ns.key); len(ids) != 0 {
			r.failf("LEAK-SUBSCRIPTION", "iteration %d: after every subscriber unsubscribed, ClientIDs still lists %v", ns.iter, ids)
		}
	}
	if left := waitNoPublishers(waitCap); left != 0 {
		r.failf("LEAK-PUBLISHER", "%d batch-publisher goroutine(s) still run after every subscriber of every key unsubscribed", left)
	}
}

func evalRace(rc RaceCase) (fail *kit.Failure, overlapped int, starved bool) {
	r := &raceRun{rc: rc, ps: pubsub.New()}
	lw := startLagWatch()
	defer lw.close()
	workers := max(1, rc.Workers)
	for base := 0; base < rc.Iters && r.fail == nil; base += raceBatch {
		end := min(rc.Iters, base+raceBatch)
		var next atomic.Int64
		next.Store(int64(base))
		var wg sync.WaitGroup
		for w := 0; w < workers; w++ {
			wg.Add(1)
			go func() {
				defer wg.Done()
				defer r.guard("worker")
				for {
					i := int(next.Add(1)) - 1
					if i >= end {
						return
					}
					r.one(i)
				}
			}()
		}
		wg.Wait()
		r.settle(lw)
	}
	return r.fail, int(r.overlap.Load()), lw.starved()
}

func TestC17UnsubSubRace(t *testing.T) {
	col := stats.New(prop, "unsubsub")
	var best *RaceCase
	var bestFail *kit.Failure
	defer func() {
		if best != nil {
			name := fmt.Sprintf("unsubsub-%016x", hashOf(*best))
			path := kit.WriteReplay(prop, "race", name, *best, bestFail, nil)
			col.AddViolation(stats.Violation{Replay: path, Kind: bestFail.Kind, Msg: bestFail.Msg})
			kit.ReportViolation(prop, path, bestFail)
		}
		col.Flush(true)
	}()
	gen := genRace()
	evals := 0
	races, overlaps := 0, 0
	rapid.Check(t, func(rt *rapid.T) {
		rc := gen.Draw(rt, "case")
		h := hashOf(rc)
		setInflight("unsubsub", "race", fmt.Sprintf("unsubsub-%016x", h), rc)
		fail, ov, starved := evalRace(rc)
		races += rc.Iters
		overlaps += ov
		col.SetExtra("unsubsub_races", races)
		col.SetExtra("unsubsub_races_overlapping_by_stamps", overlaps)
		cl := map[string]int{
			fmt.Sprintf("race:old=%d,new=%d", rc.NOld, rc.NNew): 1,
		}
		if rc.PubDuring {
			cl["race:publish_during"] = 1
		}
		if rc.SameActor {
			cl["race:reconnect_same_actor"] = 1
		}
		if starved {
			cl["race:starved"] = 1
		}
		switch pct := 100 * ov / max(1, rc.Iters); {
		case ov == 0:
			cl["race:overlap=0"] = 1
		case pct < 10:
			cl["race:overlap<10%"] = 1
		case pct < 50:
			cl["race:overlap10-50%"] = 1
		default:
			cl["race:overlap>=50%"] = 1
		}
		col.Record(h, ov > 0 && fail == nil, cl, func() any {
			return map[string]any{"case": rc, "iterations_with_overlapping_unsubscribe_and_subscribe": ov}
		})
		if evals++; evals%3 == 0 {
			col.Flush(false) // keep the shard file fresh: the process may be killed by a crash in the code under test
		}
		if fail != nil {
			if best == nil {
				c := rc
				best, bestFail = &c, fail
			}
			rt.Fatalf("%s", fail.Error())
		}
	})
}

// replayRace re-executes a saved case of the focused stratum 10 times.
func replayRace(raw json.RawMessage) *kit.Failure {
	var rc RaceCase
	if err := json.Unmarshal(raw, &rc); err != nil {
		return kit.Failf("HARNESS", "HARNESS-ERROR bad case: %v", err)
	}
	for i := 0; i < 10; i++ {
		if fail, _, _ := evalRace(rc); fail != nil {
			return fail
		}
	}
	return nil
}
