package c17

import (
	"context"
	"encoding/json"
	"errors"
	"fmt"
	"os"
	"sort"
	"strings"
	"sync"
	"sync/atomic"
	"testing"
	gotime "time"

	"pgregory.net/rapid"

	"github.com/yorkie-team/yorkie/api/types"
	"github.com/yorkie-team/yorkie/api/types/events"
	"github.com/yorkie-team/yorkie/pkg/document/time"
	"github.com/yorkie-team/yorkie/server/backend/pubsub"

	"verifharness/kit"
	"verifharness/stats"
)

// ---------------------------------------------------------------------------
// case shape

// Step is one scripted action of an actor.
//
//	subscriber ops: sub, unsub, unsubtold (wait until told, then unsubscribe),
//	                await (wait until told), stall, drain, wait,
//	                episode (a stall episode, see (*world).episode)
//	publisher ops:  pub (DocChanged), pubw (DocWatched noise), wait
type Step struct {
	Op   string `json:"op"`
	Key  int    `json:"k,omitempty"`   // document key index (sub, pub, pubw)
	Mode int    `json:"m,omitempty"`   // sub: 0 drain, 1 stalled from the start, 2 slow 5ms, 3 slow 25ms; episode: style (see epStyle*)
	Arg  int    `json:"arg,omitempty"` // wait: x10 ms; episode: number of sends to the stalled subscriber that are meant to time out
	Pre  int    `json:"pre,omitempty"` // jitter code executed before the step
}

// Styles of a stall episode.
const (
	epPaced  = 0 // one tagged change per batch, each flush awaited through the sentinel; the consumer resumes after the last flush is complete
	epBurst  = 1 // all tagged changes at once (distinct actors: no de-duplication), then as epPaced
	epRacing = 2 // as epPaced, but the consumer resumes without waiting for the last flush: resume races the prune decision
)

// Actor is one goroutine of the case.
type Actor struct {
	Kind     string `json:"kind"`           // "S" subscriber, "P" publisher
	ID       int    `json:"id"`             // actor identity (publishers may share a subscriber's identity)
	Steps    []Step `json:"steps"`          // main phase
	Tail     []Step `json:"tail,omitempty"` // publishers: run concurrently with the final unsubscribes
	FinalPre int    `json:"fpre,omitempty"` // subscribers: jitter before the final unsubscribe
}

// Script is one generated case.
type Script struct {
	Actors  []Actor `json:"actors"`
	Keys    int     `json:"keys"`              // 1 or 2 document keys
	Limit   int     `json:"limit,omitempty"`   // subscriber limit passed to Subscribe (0 = none)
	MaxFail int     `json:"maxfail,omitempty"` // SetDefaultMaxConsecutivePublishFailures (0 = keep 100)
	Worlds  int     `json:"worlds,omitempty"`  // independent concurrent executions of the script
}

func (s Script) size() int {
	n := 0
	for _, a := range s.Actors {
		n += 2 + len(a.Steps) + len(a.Tail)
	}
	return n
}

func genScript() *rapid.Generator[Script] {
	return rapid.Custom(func(t *rapid.T) Script {
		nSub := rapid.IntRange(1, 4).Draw(t, "nsub")
		nPub := rapid.IntRange(1, 3).Draw(t, "npub")
		sc := Script{Keys: 1, Worlds: kit.Pick(12, 16)}
		if rapid.IntRange(0, 3).Draw(t, "twokeys") == 0 {
			sc.Keys = 2
		}
		if rapid.IntRange(0, 5).Draw(t, "limited") == 0 {
			sc.Limit = rapid.IntRange(1, 3).Draw(t, "limit")
		}
		sc.MaxFail = rapid.SampledFrom([]int{0, 0, 0, 3, 2}).Draw(t, "maxfail")
		key := func() int {
			if sc.Keys == 2 && rapid.IntRange(0, 2).Draw(t, "key") == 0 {
				return 1
			}
			return 0
		}
		lazyLeft := rapid.IntRange(0, 2).Draw(t, "lazy") // at most two non-draining subscriber actors
		episodeLeft := 0                                 // a stall episode costs ~0.5 s: at most one per script of this part (TestC17Stall has the focused ones)
		if rapid.IntRange(0, 3).Draw(t, "episodes") == 0 {
			episodeLeft = 1
		}
		noiseLeft := 3              // DocWatched events are not de-duplicated: bound them (see waitCap)
		maxWait := kit.Pick(20, 30) // x10 ms per actor
		for i := 0; i < nSub; i++ {
			a := Actor{Kind: "S", ID: i, FinalPre: rapid.IntRange(0, 7).Draw(t, "fpre")}
			lazy := false
			if lazyLeft > 0 && rapid.Bool().Draw(t, "islazy") {
				lazy = true
				lazyLeft--
			}
			n := rapid.IntRange(1, 8).Draw(t, "nsteps")
			waited := 0
			for j := 0; j < n; j++ {
				st := Step{Pre: rapid.IntRange(0, 7).Draw(t, "pre")}
				ops := []string{"sub", "sub", "unsub", "unsubtold", "unsubtold", "await", "await", "await", "wait", "wait"}
				if lazy {
					ops = append(ops, "stall", "drain")
					if episodeLeft > 0 && j > 0 {
						ops = append(ops, "episode", "episode")
					}
				}
				if j == 0 && rapid.IntRange(0, 4).Draw(t, "first") > 0 {
					st.Op = "sub"
				} else {
					st.Op = rapid.SampledFrom(ops).Draw(t, "op")
				}
				switch st.Op {
				case "sub":
					st.Key = key()
					if lazy {
						st.Mode = rapid.SampledFrom([]int{0, 1, 1, 2, 3}).Draw(t, "mode")
					}
				case "wait":
					st.Arg = rapid.IntRange(1, 12).Draw(t, "arg")
					if waited+st.Arg > maxWait {
						st.Arg = max(0, maxWait-waited)
					}
					waited += st.Arg
				case "episode":
					episodeLeft--
					st.Arg, st.Mode = drawEpisode(t, sc.MaxFail)
				}
				a.Steps = append(a.Steps, st)
			}
			sc.Actors = append(sc.Actors, a)
		}
		for i := 0; i < nPub; i++ {
			a := Actor{Kind: "P", ID: rapid.IntRange(0, nSub+1).Draw(t, "pubid")}
			n := rapid.IntRange(1, 10).Draw(t, "nsteps")
			waited := 0
			for j := 0; j < n; j++ {
				st := Step{Pre: rapid.IntRange(0, 7).Draw(t, "pre")}
				st.Op = rapid.SampledFrom([]string{"pub", "pub", "pub", "pub", "pub", "pub", "pubw", "wait", "wait", "wait"}).Draw(t, "op")
				if st.Op == "pubw" {
					if noiseLeft == 0 {
						st.Op = "pub"
					} else {
						noiseLeft--
					}
				}
				switch st.Op {
				case "pub", "pubw":
					st.Key = key()
				case "wait":
					st.Arg = rapid.IntRange(1, 15).Draw(t, "arg")
					if waited+st.Arg > maxWait {
						st.Arg = max(0, maxWait-waited)
					}
					waited += st.Arg
				}
				a.Steps = append(a.Steps, st)
			}
			nt := rapid.IntRange(0, 2).Draw(t, "ntail")
			for j := 0; j < nt; j++ {
				a.Tail = append(a.Tail, Step{Op: "pub", Key: key(), Pre: rapid.IntRange(0, 7).Draw(t, "pre")})
			}
			sc.Actors = append(sc.Actors, a)
		}
		return sc
	})
}

// drawEpisode draws the size of a stall episode relative to the self-prune
// threshold (below, at, above) and its style.
func drawEpisode(t *rapid.T, maxFail int) (n, style int) {
	th := maxFail
	if th == 0 {
		th = 2 // default threshold 100: every generated episode stays far below it
	}
	n = rapid.SampledFrom([]int{th - 1, th - 1, th, th, th, th + 1, th + 2, 0}).Draw(t, "timeouts")
	n = min(max(n, 0), 4)
	style = rapid.SampledFrom([]int{epPaced, epPaced, epPaced, epBurst, epBurst, epRacing}).Draw(t, "style")
	return n, style
}

// genStallScript generates the scripts of the focused stall stratum: a small
// self-prune threshold, one or two subscriber actors that go through stall
// episodes below, at and above the threshold (and resubscribe afterwards), up
// to two healthy subscribers and, in half of the cases, background publishers.
func genStallScript() *rapid.Generator[Script] {
	return rapid.Custom(func(t *rapid.T) Script {
		sc := Script{Keys: 1, Worlds: kit.Pick(12, 16)}
		sc.MaxFail = rapid.SampledFrom([]int{1, 2, 2, 2, 3, 3}).Draw(t, "maxfail")
		if rapid.IntRange(0, 4).Draw(t, "twokeys") == 0 {
			sc.Keys = 2
		}
		key := func() int {
			if sc.Keys == 2 && rapid.IntRange(0, 2).Draw(t, "key") == 0 {
				return 1
			}
			return 0
		}
		nStall := rapid.SampledFrom([]int{1, 1, 1, 2}).Draw(t, "nstall")
		nHealthy := rapid.IntRange(0, 2).Draw(t, "nhealthy")
		nPub := rapid.SampledFrom([]int{0, 0, 0, 1, 2}).Draw(t, "npub")
		episodesLeft := kit.Pick(2, 3)
		id := 0
		for i := 0; i < nStall; i++ {
			a := Actor{Kind: "S", ID: id, FinalPre: rapid.IntRange(0, 7).Draw(t, "fpre")}
			id++
			first := Step{Op: "sub", Key: key(), Pre: rapid.IntRange(0, 7).Draw(t, "pre")}
			first.Mode = rapid.SampledFrom([]int{0, 0, 0, 0, 1, 2}).Draw(t, "mode")
			a.Steps = append(a.Steps, first)
			n := rapid.IntRange(1, 5).Draw(t, "nsteps")
			had := false
			for j := 0; j < n; j++ {
				st := Step{Pre: rapid.IntRange(0, 7).Draw(t, "pre")}
				ops := []string{"await", "unsub", "unsubtold", "sub", "drain"}
				if episodesLeft > 0 {
					ops = append(ops, "episode", "episode", "episode", "episode")
				}
				st.Op = rapid.SampledFrom(ops).Draw(t, "op")
				if !had && episodesLeft > 0 && (j == 0 || j == n-1) && rapid.IntRange(0, 3).Draw(t, "force") > 0 {
					st.Op = "episode"
				}
				switch st.Op {
				case "sub":
					st.Key = key()
				case "episode":
					had = true
					episodesLeft--
					st.Key = a.Steps[0].Key // (used when the actor is not subscribed at that point)
					st.Arg, st.Mode = drawEpisode(t, sc.MaxFail)
				}
				a.Steps = append(a.Steps, st)
			}
			sc.Actors = append(sc.Actors, a)
		}
		for i := 0; i < nHealthy; i++ {
			a := Actor{Kind: "S", ID: id, FinalPre: rapid.IntRange(0, 7).Draw(t, "fpre")}
			id++
			a.Steps = append(a.Steps, Step{Op: "sub", Key: key(), Pre: rapid.IntRange(0, 7).Draw(t, "pre")})
			n := rapid.IntRange(1, 4).Draw(t, "nsteps")
			waited := 0
			for j := 0; j < n; j++ {
				st := Step{Pre: rapid.IntRange(0, 7).Draw(t, "pre")}
				st.Op = rapid.SampledFrom([]string{"await", "await", "wait", "wait", "unsubtold", "sub"}).Draw(t, "op")
				switch st.Op {
				case "sub":
					st.Key = key()
				case "wait":
					st.Arg = rapid.IntRange(1, 15).Draw(t, "arg")
					if waited+st.Arg > 30 {
						st.Arg = max(0, 30-waited)
					}
					waited += st.Arg
				}
				a.Steps = append(a.Steps, st)
			}
			sc.Actors = append(sc.Actors, a)
		}
		for i := 0; i < nPub; i++ {
			a := Actor{Kind: "P", ID: rapid.IntRange(0, id+1).Draw(t, "pubid")}
			n := rapid.IntRange(1, 8).Draw(t, "nsteps")
			waited := 0
			for j := 0; j < n; j++ {
				st := Step{Pre: rapid.IntRange(0, 7).Draw(t, "pre")}
				st.Op = rapid.SampledFrom([]string{"pub", "pub", "wait", "wait", "wait"}).Draw(t, "op")
				switch st.Op {
				case "pub":
					st.Key = key()
				case "wait":
					st.Arg = rapid.IntRange(2, 15).Draw(t, "arg")
					if waited+st.Arg > 40 {
						st.Arg = max(0, 40-waited)
					}
					waited += st.Arg
				}
				a.Steps = append(a.Steps, st)
			}
			if rapid.Bool().Draw(t, "tail") {
				a.Tail = append(a.Tail, Step{Op: "pub", Key: key(), Pre: rapid.IntRange(0, 7).Draw(t, "pre")})
			}
			sc.Actors = append(sc.Actors, a)
		}
		return sc
	})
}

// ---------------------------------------------------------------------------
// execution of one world

func actorID(i int) time.ActorID { return time.ActorID{0: 0xc1, 1: 0x17, 11: byte(i + 1)} }

func actorIdx(id time.ActorID) int { return int(id[11]) - 1 }

func docKey(world, k int) types.DocRefKey {
	return types.DocRefKey{
		ProjectID: types.ID(fmt.Sprintf("0000000000000000000c17%02x", world&0xff)),
		DocID:     types.ID(fmt.Sprintf("00000000000000000000d0%02x", k&0xff)),
	}
}

// Actor identities used by stall episodes (the script's own actors use 0..5).
const (
	epDriverBase   = 20 // + actor index: publishes the paced changes of an episode and the change after the resume
	epBurstBase    = 30 // + j: the distinct actors of a one-batch burst
	epSentinelBase = 40 // + actor index: the sentinel subscriber of an episode
	probeBase      = 60 // + n%20: publishes the n-th probe change of refute
)

type receipt struct {
	stamp   int64
	id      int
	changed bool
	tag     string
}

// subRec is one subscription (Subscribe .. Unsubscribe) of a subscriber actor.
type subRec struct {
	actor, id, key int
	sentinel       bool
	sub            *pubsub.DocSubscription
	subEntry       int64
	subExit        int64
	unsubEntry     int64        // 0 while subscribed
	unsubExit      int64        //
	lazy           atomic.Bool  // was ever stalled or slow (classification only)
	paused         atomic.Bool  // the consumer does not read; set and cleared only by the owning actor
	parked         atomic.Bool  // the consumer has acknowledged the pause
	resumedAt      atomic.Int64 // stamp taken just before the last resume (0: never stalled)
	prunedSeen     atomic.Bool  // an episode saw the subscription flagged dead / removed from the set
	slow           gotime.Duration
	wake, ctl      chan struct{}
	quit, done     chan struct{}

	mu       sync.Mutex
	receipts []receipt
	closedAt int64
}

func (r *subRec) closedSeen() bool {
	r.mu.Lock()
	defer r.mu.Unlock()
	return r.closedAt != 0
}

// call is one stamped API call.
type call struct {
	actor, step int
	op          string
	key, id     int
	entry, exit int64
	note        string
	tag         string // publishes: the Topic the event carries
	rec         *subRec
}

type mark struct {
	at int64
	s  string
}

type world struct {
	sc    *Script
	idx   int
	seq   int64 // number of the case in this process (part of the actor ids)
	ps    *pubsub.PubSub
	clock atomic.Int64
	lw    *lagWatch

	mu     sync.Mutex
	calls  []*call
	subs   []*subRec
	marks  []mark
	notes  []string
	probes int
	fail   *kit.Failure
	ev     map[string]int
}

func (w *world) tick() int64 { return w.clock.Add(1) }

// aid is the actor id of script identity i in this instance of this case
// (unique per process, so that a line of the publisher log names one watcher).
func (w *world) aid(i int) time.ActorID {
	return time.ActorID{0: 0xc1, 1: 0x17, 2: byte(w.idx), 3: byte(w.seq >> 8), 4: byte(w.seq), 11: byte(i + 1)}
}

func (w *world) failf(kind, format string, a ...any) {
	w.mu.Lock()
	defer w.mu.Unlock()
	if w.fail == nil {
		w.fail = kit.Failf(kind, "world %d: %s", w.idx, fmt.Sprintf(format, a...))
	}
}

func (w *world) count(k string) {
	w.mu.Lock()
	w.ev[k]++
	w.mu.Unlock()
}

// mark adds a line to the history (not a call).
func (w *world) mark(format string, a ...any) {
	w.mu.Lock()
	w.marks = append(w.marks, mark{w.tick(), fmt.Sprintf(format, a...)})
	w.mu.Unlock()
}

func (w *world) begin(actor, step int, op string, key, id int, rec *subRec, tag string) *call {
	c := &call{actor: actor, step: step, op: op, key: key, id: id, rec: rec, tag: tag}
	w.mu.Lock()
	w.calls = append(w.calls, c)
	c.entry = w.tick() // stamped under the lock: calls are ordered by entry
	w.mu.Unlock()
	return c
}

func (w *world) end(c *call, note string) {
	w.mu.Lock()
	c.exit = w.tick()
	c.note = note
	w.mu.Unlock()
}

func (w *world) guard(who string) {
	if r := recover(); r != nil {
		w.failf("PANIC", "%s panicked: %v", who, r)
	}
}

// threshold is the number of consecutive timed-out sends after which the
// publisher prunes a subscription of this case.
func (w *world) threshold() int {
	if w.sc.MaxFail > 0 {
		return w.sc.MaxFail
	}
	return 100
}

// jitter varies the drawn pause code per world so that the concurrent worlds
// of one case explore different interleavings of the same script.
func (w *world) jitter(code, salt int) {
	if w.idx > 0 {
		code = code + w.idx*3 + salt*w.idx
	}
	pause(code)
}

func (w *world) consume(r *subRec) {
	defer close(r.done)
	defer w.guard("consumer")
	ch := r.sub.Events()
	for {
		if r.paused.Load() {
			// stalled: acknowledge and do not touch the channel until resumed
			r.parked.Store(true)
			select {
			case <-r.wake:
			case <-r.quit:
				return
			}
			r.parked.Store(false)
			continue
		}
		if r.slow > 0 {
			gotime.Sleep(r.slow)
			if r.paused.Load() {
				continue
			}
		}
		select {
		case ev, ok := <-ch:
			st := w.tick()
			r.mu.Lock()
			if !ok {
				r.closedAt = st
				r.mu.Unlock()
				return
			}
			r.receipts = append(r.receipts, receipt{stamp: st, id: actorIdx(ev.Actor), changed: ev.Type == events.DocChanged, tag: ev.Body.Topic})
			r.mu.Unlock()
		case <-r.ctl: // the owner changed paused
		case <-r.quit:
			return
		}
	}
}

// stall makes the consumer of r stop reading and returns when it has
// acknowledged (or has ended because the channel was closed).
func (w *world) stall(r *subRec) {
	r.lazy.Store(true)
	r.paused.Store(true)
	select {
	case r.ctl <- struct{}{}:
	default:
	}
	for !r.parked.Load() {
		select {
		case <-r.done:
			return
		default:
		}
		gotime.Sleep(50 * gotime.Microsecond)
	}
}

// resume lets the consumer of r read again. The stamp taken before is the
// floor of r's obligations: whatever was published before it may have run
// into the publish timeout while the consumer did not read.
func (w *world) resume(r *subRec) {
	if !r.paused.Load() {
		return
	}
	r.resumedAt.Store(w.tick())
	r.paused.Store(false)
	select {
	case r.wake <- struct{}{}:
	default:
	}
}

// listed reports whether r's actor is in ClientIDs of its key.
func (w *world) listed(r *subRec) bool {
	for _, id := range w.ps.ClientIDs(docKey(w.idx, r.key)) {
		if actorIdx(id) == r.id {
			return true
		}
	}
	return false
}

// pending lists the completed DocChanged publishes this subscription must
// have been told about by now and has not (and the number of obligations):
// those by another actor on its key that started after Subscribe returned
// and after its consumer last resumed reading.
//
// s was told about publish p of actor x when, after p started, it received
// the event of p itself or of a later publish of x (identified by their tags),
// or two events of earlier publishes of x: the documented de-duplication drops
// p only when two DocChanged of x are already queued in the batch that is
// taken after p, and both are then sent to s. One earlier event alone proves
// nothing: it may have sat in the buffer since before p (a stalled consumer
// that resumes reads such a one first).
func (w *world) pending(r *subRec) (out []*call, obligations int) {
	floor := max(r.subExit, r.resumedAt.Load())
	w.mu.Lock()
	var ps []*call
	entryOf := map[string]int64{}
	for _, c := range w.calls {
		if c.op != "pub" || c.key != r.key {
			continue
		}
		entryOf[c.tag] = c.entry
		if c.exit != 0 && c.id != r.id && c.entry > floor {
			ps = append(ps, c)
		}
	}
	w.mu.Unlock()
	r.mu.Lock()
	defer r.mu.Unlock()
	for _, p := range ps {
		told, earlier := false, 0
		for _, rc := range r.receipts {
			if !rc.changed || rc.id != p.id || rc.stamp <= p.entry {
				continue
			}
			if e, known := entryOf[rc.tag]; !known || e >= p.entry {
				told = true
				break
			}
			if earlier++; earlier >= 2 {
				told = true
				break
			}
		}
		if !told {
			out = append(out, p)
		}
	}
	return out, len(ps)
}

// await blocks until the subscription (whose consumer is reading) was told
// about every completed publish it has to be told about, or its channel was
// closed; hitting the cap with an open channel is the violation. It is called
// by the owning actor only, so the consumer reads for the whole wait.
func (w *world) await(r *subRec, where string) {
	if r.slow > slowTolerated || r.paused.Load() {
		return // not reading (or reading too slowly) by script: the documented publish timeout may drop its events
	}
	deadline := gotime.Now().Add(waitCap)
	var prunedSince gotime.Time // when the subscription was first seen flagged dead / removed from the set
	dead, listed := false, true
	for iter := 0; ; iter++ {
		if r.closedSeen() {
			w.count("closed_while_subscribed")
			return
		}
		pend, obligations := w.pending(r)
		if iter == 0 {
			w.count("await")
			if len(pend) > 0 {
				w.count("await_had_to_wait")
			}
			w.mu.Lock()
			w.ev["obligation"] += obligations
			if r.resumedAt.Load() != 0 {
				w.ev["obligation_after_resume"] += obligations
			}
			w.mu.Unlock()
		}
		if len(pend) == 0 {
			return
		}
		now := gotime.Now()
		late := now.After(deadline)
		if late || iter%100 == 99 {
			// (IsDead waits for a send that is running into its timeout: not on every poll)
			dead, listed = r.sub.IsDead(), w.listed(r)
			if !dead && listed {
				prunedSince = gotime.Time{}
			} else if prunedSince.IsZero() {
				prunedSince = now
			}
		}
		if late {
			pruned := !prunedSince.IsZero() // flagged dead by the publisher (self-prune) or otherwise out of the set
			refuted := ""
			if !pruned && w.lw.starved() {
				// still subscribed: a send may have timed out because this process did not get the CPU
				if probe := w.refute(r); probe != "" {
					// only what was due before the probe was published counts
					now2, _ := w.pending(r)
					var still []*call
					for _, c := range pend {
						for _, d := range now2 {
							if c == d {
								still = append(still, c)
							}
						}
					}
					if len(still) == 0 {
						// told in the meantime; whatever else is untold has its own cap
						deadline = gotime.Now().Add(waitCap)
						continue
					}
					pend = still
					w.count("starved_but_no_send_timed_out")
					refuted = fmt.Sprintf(" The process was starved of CPU during the case (a 1 ms sleeper overslept %v), but that does not explain it: the publisher logged no failed send to "+
						"this watcher, and the watcher has received the later change %q, so the batches before it were flushed.", gotime.Duration(w.lw.max.Load()), probe)
				}
			}
			if !pruned && w.lw.starved() && refuted == "" {
				w.count("inconclusive_starved")
				logged := loggedTimeouts(w.aid(r.id))
				w.mu.Lock()
				w.notes = append(w.notes, fmt.Sprintf("scripts (inconclusive, process starved: a 1 ms sleeper overslept %v): %s: subscriber actor %d, still subscribed and reading, "+
					"was not told about %d completed publish(es) (first: %q by actor %d) within %v and its channel stayed open; failed sends to this watcher in the publisher's log: %d",
					gotime.Duration(w.lw.max.Load()), where, r.id, len(pend), pend[0].tag, pend[0].id, waitCap, logged))
				w.mu.Unlock()
				return
			}
			if pruned && now.Before(prunedSince.Add(waitCap)) {
				// pruned by the publisher: the consumer is reading and gets the same cap to reach the close
				gotime.Sleep(2 * gotime.Millisecond)
				continue
			}
			p := pend[0]
			var tags []string
			for _, q := range pend {
				tags = append(tags, fmt.Sprintf("%q[%d,%d]", q.tag, q.entry, q.exit))
			}
			state := "still subscribed: listed in ClientIDs, not flagged dead"
			if pruned {
				state = fmt.Sprintf("no longer in the subscription set but not closed: IsDead=%v, listed in ClientIDs=%v, for %v or more", dead, listed, waitCap)
			}
			resumed := ""
			if ra := r.resumedAt.Load(); ra != 0 {
				resumed = fmt.Sprintf(", its consumer had stopped reading and resumed at stamp %d", ra)
			}
			w.failf("NEVER-TOLD", "%s: subscriber actor %d (Subscribe returned at stamp %d%s; channel still open; %s) "+
				"was not told about Publish %q [%d,%d] by actor %d on key %d, completed %v ago or more: after stamp %d it received neither the event of that or of a later "+
				"publish of actor %d nor two events of earlier ones (de-duplication); untold publishes: %v.%s",
				where, r.id, r.subExit, resumed, state, p.tag, p.entry, p.exit, p.id, p.key, waitCap, p.entry, p.id, tags, refuted)
			return
		}
		gotime.Sleep(2 * gotime.Millisecond)
	}
}

// refute is called when a still-subscribed, reading watcher hit the cap in a
// case during which the process was starved of CPU. By the package's
// convention that is inconclusive: a send to the watcher may have run into the
// 100 ms publish timeout (Subscription.Publish gives up when 100 ms pass
// between the creation of its timer and its select, whoever is late). The
// publisher logs every failed send, so the excuse can be checked: one more
// change ("probe") is published under a fresh actor; if the watcher receives
// it, every batch queued before it has been flushed to the watcher (batches
// are flushed one after the other, events in order); if then the log has no
// failed send to this watcher at all, no timeout explains the missing
// notification. refute returns the tag of the probe in that case, "" when the
// excuse stands or cannot be checked.
func (w *world) refute(r *subRec) string {
	if tap == nil || !tap.ok() {
		return ""
	}
	w.mu.Lock()
	w.probes++
	n := w.probes
	w.mu.Unlock()
	tag := fmt.Sprintf("probe%d", n)
	w.count("probe_after_starved_cap_hit")
	w.publish(r.actor, -1, "pub", probeBase+n%20, r.key, tag)
	deadline := gotime.Now().Add(waitCap)
	for got := false; !got; {
		if r.closedSeen() || gotime.Now().After(deadline) {
			return ""
		}
		r.mu.Lock()
		for _, rc := range r.receipts {
			if rc.tag == tag {
				got = true
			}
		}
		r.mu.Unlock()
		if !got {
			gotime.Sleep(2 * gotime.Millisecond)
		}
	}
	if !tap.barrier(waitCap) || tap.timeoutsOf(w.aid(r.id)) > 0 {
		return ""
	}
	return tag
}

type actorState struct {
	cur *subRec
}

// slowTolerated: a consumer that pauses this long between two reads is far
// from the 100 ms publish timeout and has the same obligations as a prompt
// one (the 25 ms one is left out: its margin is not above the lag guard's).
const slowTolerated = 5 * gotime.Millisecond

// subscribe subscribes actor id on key k and starts its consumer; nil if the
// subscriber limit rejected it.
func (w *world) subscribe(ai, si, id, k, mode int, sentinel bool) *subRec {
	r := &subRec{actor: ai, id: id, key: k, sentinel: sentinel, wake: make(chan struct{}, 1), ctl: make(chan struct{}, 1),
		quit: make(chan struct{}), done: make(chan struct{})}
	switch mode {
	case 1:
		r.lazy.Store(true)
		r.paused.Store(true)
	case 2:
		r.lazy.Store(true)
		r.slow = 5 * gotime.Millisecond
	case 3:
		r.lazy.Store(true)
		r.slow = 25 * gotime.Millisecond
	}
	c := w.begin(ai, si, "sub", k, id, r, "")
	sub, _, err := w.ps.Subscribe(context.Background(), w.aid(id), docKey(w.idx, k), w.sc.Limit)
	if err != nil {
		w.end(c, "rejected")
		if w.sc.Limit > 0 && errors.Is(err, pubsub.ErrTooManySubscribers) {
			w.count("limit_rejected")
		} else {
			w.failf("SUBSCRIBE-ERROR", "Subscribe of actor %d failed: %v", id, err)
		}
		return nil
	}
	w.end(c, "")
	r.sub, r.subEntry, r.subExit = sub, c.entry, c.exit
	w.mu.Lock()
	w.subs = append(w.subs, r)
	w.mu.Unlock()
	go w.consume(r)
	return r
}

func (w *world) unsubscribe(ai, si int, r *subRec) {
	if r.sub.IsDead() {
		w.count("closed_by_publisher_before_unsub") // self-pruned after MaxFail timed-out sends
	}
	c := w.begin(ai, si, "unsub", r.key, r.id, r, "")
	w.mu.Lock()
	r.unsubEntry = c.entry
	w.mu.Unlock()
	w.ps.Unsubscribe(context.Background(), docKey(w.idx, r.key), r.sub)
	w.end(c, "")
	w.mu.Lock()
	r.unsubExit = c.exit
	w.mu.Unlock()
	// let a stalled consumer run so that it can observe the close
	r.paused.Store(false)
	select {
	case r.wake <- struct{}{}:
	default:
	}
}

func (w *world) publish(ai, si int, op string, id, k int, tag string) *call {
	typ := events.DocChanged
	if op == "pubw" {
		typ = events.DocWatched
	}
	c := w.begin(ai, si, op, k, id, nil, tag)
	w.ps.Publish(context.Background(), w.aid(id), events.DocEvent{Type: typ, Key: docKey(w.idx, k), Actor: w.aid(id),
		Body: events.DocEventBody{Topic: tag}})
	w.end(c, "")
	return c
}

// episode runs one stall episode on the actor's current subscription r (an
// actor that is not subscribed subscribes first; one that has seen its channel
// closed - pruned earlier - unsubscribes and subscribes again, like a client
// whose watch stream ended):
//
//  1. a sentinel subscriber (own actor id, reading promptly) joins the key, r
//     is brought up to date (await) and its consumer stops reading
//     (acknowledged);
//  2. n+1 tagged changes are published: the first one fills r's one-slot
//     buffer, each of the other n sends to r runs into the 100 ms publish
//     timeout and counts as a consecutive failure (epPaced: one change per
//     batch, the next one is published once the sentinel has the previous one;
//     epBurst: all at once under distinct actors). Then a marker change is
//     published under r's own actor id (it is never sent to r) and awaited
//     through the sentinel: the publisher goroutine flushes the batches one
//     after the other, so all n timeouts have happened by then (epRacing skips
//     the marker: the resume races the last flush);
//  3. the consumer resumes and one more tagged change is published.
//
// There is no oracle of its own: await demands, as everywhere, that r is told
// (see pending) about every completed change published after its consumer
// resumed or observes its channel closed; the changes of step 2 may be dropped
// by the publish timeout. Whether r was pruned is only recorded (classes).
func (w *world) episode(ai, si int, a *Actor, s Step, st *actorState) {
	r := st.cur
	if r == nil {
		// not watching at the moment: watch first
		if r = w.subscribe(ai, si, a.ID, s.Key%w.sc.Keys, 0, false); r == nil {
			return
		}
		st.cur = r
	}
	if r.closedSeen() {
		// The publisher has closed this subscription (pruned earlier). Do what
		// a client does whose watch stream ended: clean up and watch again, so
		// that the episode runs on a live subscription.
		w.count("episode:reconnected_first")
		st.cur = nil
		w.unsubscribe(ai, si, r)
		if r = w.subscribe(ai, si, r.id, r.key, 0, false); r == nil {
			return
		}
		st.cur = r
	}
	th, n, style := w.threshold(), min(max(s.Arg, 0), 6), s.Mode
	rel := "below"
	if n == th {
		rel = "at"
	} else if n > th {
		rel = "above"
	}
	w.count("episode")
	w.count("episode:" + rel + "_threshold")
	w.count(fmt.Sprintf("episode:style=%d", style))
	where := fmt.Sprintf("actor %d step %d (episode: %d sends meant to time out, threshold %d)", ai, si, n, th)
	name := fmt.Sprintf("ep.a%d.s%d", ai, si)

	sen := w.subscribe(ai, si, epSentinelBase+ai, r.key, 0, true)
	pace := func() {
		if sen != nil {
			w.await(sen, where+", sentinel")
		} else {
			gotime.Sleep(250 * gotime.Millisecond) // the subscriber limit rejected the sentinel
		}
	}
	w.await(r, where+", before the stall")
	w.stall(r)
	w.mark("subscriber id %d key=%d stops reading (%s)", r.id, r.key, name)
	drv := epDriverBase + ai
	if style == epBurst {
		for j := 0; j <= n; j++ {
			w.publish(ai, si, "pub", epBurstBase+j, r.key, fmt.Sprintf("%s.stalled%d", name, j))
		}
		pace()
	} else {
		for j := 0; j <= n; j++ {
			w.publish(ai, si, "pub", drv, r.key, fmt.Sprintf("%s.stalled%d", name, j))
			if style != epRacing || j < n {
				pace()
			}
		}
	}
	pruned := false
	if style != epRacing {
		w.publish(ai, si, "pub", r.id, r.key, name+".marker")
		pace()
		pruned = r.sub.IsDead() || !w.listed(r)
		if pruned {
			r.prunedSeen.Store(true)
			w.count("episode:pruned")
			w.count("episode:" + rel + "_threshold->pruned")
		} else {
			w.count("episode:kept")
			w.count("episode:" + rel + "_threshold->kept")
		}
	}
	w.jitter(s.Pre+3, si)
	w.mark("subscriber id %d key=%d resumes reading (%s; pruned by now: %v)", r.id, r.key, name, pruned)
	w.resume(r)
	resumedAt := r.resumedAt.Load()
	w.publish(ai, si, "pub", drv, r.key, name+".after-resume")
	w.await(r, where+", after the resume")

	if left, _ := w.pending(r); r.closedSeen() {
		w.count("episode:channel_closed_observed")
		if pruned {
			w.count("episode:pruned->closed_observed")
		}
	} else if len(left) == 0 && r.slow <= slowTolerated {
		w.count("episode:told_after_resume")
	}
	r.mu.Lock()
	for _, rc := range r.receipts {
		if rc.stamp > resumedAt && len(rc.tag) > len(name) && rc.tag[:len(name)+1] == name+"." && rc.tag != name+".after-resume" {
			w.count("episode:buffered_change_read_after_resume")
			break
		}
	}
	r.mu.Unlock()
	if sen != nil {
		w.unsubscribe(ai, si, sen)
	}
}

func (w *world) exec(ai int, a *Actor, si int, s Step, st *actorState) {
	w.jitter(s.Pre, si)
	switch s.Op {
	case "wait":
		gotime.Sleep(gotime.Duration(s.Arg) * 10 * gotime.Millisecond)
	case "sub":
		if st.cur != nil {
			return
		}
		st.cur = w.subscribe(ai, si, a.ID, s.Key%w.sc.Keys, s.Mode, false)
	case "unsub":
		if st.cur != nil {
			r := st.cur
			st.cur = nil
			w.unsubscribe(ai, si, r)
		}
	case "unsubtold":
		if st.cur != nil {
			r := st.cur
			st.cur = nil
			w.await(r, fmt.Sprintf("actor %d step %d (unsubtold)", ai, si))
			w.unsubscribe(ai, si, r)
		}
	case "await":
		if st.cur != nil {
			w.await(st.cur, fmt.Sprintf("actor %d step %d (await)", ai, si))
		}
	case "stall":
		if st.cur != nil {
			w.stall(st.cur)
			w.mark("subscriber id %d key=%d stops reading", st.cur.id, st.cur.key)
		}
	case "drain":
		if st.cur != nil && st.cur.paused.Load() {
			w.resume(st.cur)
			w.mark("subscriber id %d key=%d resumes reading", st.cur.id, st.cur.key)
		}
	case "episode":
		w.episode(ai, si, a, s, st)
	case "pub", "pubw":
		w.publish(ai, si, s.Op, a.ID, s.Key%w.sc.Keys, fmt.Sprintf("a%d.s%d", ai, si))
	}
}

func (w *world) run() {
	n := len(w.sc.Actors)
	var mainWG, awaitWG, tailWG sync.WaitGroup
	mainWG.Add(n)
	awaitWG.Add(n)
	tailWG.Add(n)
	start, mainDone, finalGo := make(chan struct{}), make(chan struct{}), make(chan struct{})
	for ai := range w.sc.Actors {
		a := &w.sc.Actors[ai]
		st := &actorState{}
		who := fmt.Sprintf("actor %d (%s%d)", ai, a.Kind, a.ID)
		go func() {
			func() {
				defer mainWG.Done()
				defer w.guard(who)
				<-start
				for si, s := range a.Steps {
					w.exec(ai, a, si, s, st)
				}
			}()
			<-mainDone
			func() {
				defer awaitWG.Done()
				defer w.guard(who)
				if a.Kind == "S" && st.cur != nil {
					w.await(st.cur, fmt.Sprintf("actor %d (final)", ai))
				}
			}()
			<-finalGo
			func() {
				defer tailWG.Done()
				defer w.guard(who)
				if a.Kind == "S" {
					w.jitter(a.FinalPre, ai)
					if st.cur != nil {
						r := st.cur
						st.cur = nil
						w.unsubscribe(ai, len(a.Steps), r)
					}
					return
				}
				for si, s := range a.Tail {
					w.exec(ai, a, len(a.Steps)+si, s, st)
				}
			}()
		}()
	}
	close(start)
	mainWG.Wait()
	close(mainDone)
	awaitWG.Wait()
	close(finalGo)
	tailWG.Wait()

	// every subscription has been unsubscribed (also those the publisher had
	// pruned before): its consumer, woken if it was stalled, must get to the
	// closed channel
	w.mu.Lock()
	subs := append([]*subRec{}, w.subs...)
	w.mu.Unlock()
	closeCap, expired := gotime.After(waitCap), false // one cap for all: every Unsubscribe has returned by now
	for _, r := range subs {
		if !expired {
			select {
			case <-r.done:
			case <-closeCap:
				expired = true
			}
		}
		select {
		case <-r.done:
		default:
			w.count("channel_left_open_after_unsub")
			if r.unsubExit != 0 {
				w.failf("OPEN-AFTER-UNSUBSCRIBE", "subscriber actor %d on key %d: %v after its Unsubscribe returned (stamp %d) its event channel is still open "+
					"(IsDead=%v, seen pruned by the publisher before: %v): whoever reads the channel is never released",
					r.id, r.key, waitCap, r.unsubExit, r.sub.IsDead(), r.prunedSeen.Load())
			}
			close(r.quit)
			<-r.done
		}
		// "after it unsubscribes it receives nothing": one event may still sit
		// in the (size 1) buffer when the channel is closed and one may have
		// been taken out but not yet stamped by the consumer; more than that
		// was sent after Unsubscribe returned.
		late := 0
		r.mu.Lock()
		for _, rc := range r.receipts {
			if r.unsubExit != 0 && rc.stamp > r.unsubExit {
				late++
			}
		}
		r.mu.Unlock()
		if late > 2 {
			w.failf("TOLD-AFTER-UNSUBSCRIBE", "subscriber actor %d received %d events after its Unsubscribe returned (stamp %d)", r.id, late, r.unsubExit)
		}
	}
	for k := 0; k < w.sc.Keys; k++ {
		if ids := w.ps.ClientIDs(docKey(w.idx, k)); len(ids) != 0 {
			w.failf("LEAK-SUBSCRIPTION", "after every subscriber unsubscribed, ClientIDs(key %d) still lists %d subscriber(s): %v", k, len(ids), ids)
		}
	}
}

// ---------------------------------------------------------------------------
// history analysis (coverage only)

func overlap(a, b *call) bool { return a.entry < b.exit && b.entry < a.exit }

func (w *world) classify() {
	calls := w.calls
	ev := w.ev
	isLast := func(u *call) bool {
		for _, t := range w.subs {
			if t == u.rec || t.key != u.key {
				continue
			}
			if t.subExit < u.exit && (t.unsubExit == 0 || t.unsubExit > u.exit) {
				return false
			}
		}
		return true
	}
	norm := func(op string) string {
		if op == "pubw" {
			return "pub"
		}
		return op
	}
	for i, a := range calls {
		for _, b := range calls[i+1:] {
			if a.key != b.key || a.exit == 0 || b.exit == 0 || !overlap(a, b) {
				continue
			}
			xo, yo := norm(a.op), norm(b.op)
			if xo > yo {
				xo, yo = yo, xo
			}
			ev["overlap:"+xo+"-"+yo]++
			if xo == "sub" || yo == "sub" {
				ev["nontrivial"]++
			}
			for _, u := range []*call{a, b} {
				if u.op == "unsub" && isLast(u) {
					o := a
					if u == a {
						o = b
					}
					ev["overlap:last-unsub-vs-"+norm(o.op)]++
					ev["nontrivial"]++
				}
			}
		}
	}
	perActor := map[int]int{}
	for _, r := range w.subs {
		ev["events_received"] += len(r.receipts)
		if r.sentinel {
			ev["sentinel_subscription"]++
			continue
		}
		perActor[r.actor]++
		if r.lazy.Load() {
			ev["lazy_subscription"]++
			if r.resumedAt.Load() != 0 {
				ev["stalled_then_resumed_subscription"]++
			}
		} else {
			ev["draining_subscription"]++
		}
		if r.prunedSeen.Load() {
			ev["pruned_subscription"]++
			if r.closedAt != 0 && (r.unsubEntry == 0 || r.closedAt < r.unsubEntry) {
				ev["pruned_subscription_saw_close_before_unsubscribing"]++
			}
		}
	}
	for _, n := range perActor {
		if n > 1 {
			ev["resubscribed"]++
		}
	}
	for _, c := range calls {
		if c.op == "pub" {
			ev["publish"]++
			for _, r := range w.subs {
				if r.id == c.id && r.key == c.key && r.subExit < c.entry && (r.unsubEntry == 0 || r.unsubEntry > c.exit) {
					ev["publish_by_subscribed_actor"]++
					break
				}
			}
		}
	}
}

func (w *world) history(limit int) []string {
	type line struct {
		at int64
		s  string
	}
	var ls []line
	for _, c := range w.calls {
		tag := ""
		if c.tag != "" {
			tag = fmt.Sprintf(" tag=%q", c.tag)
		}
		ls = append(ls, line{c.entry, fmt.Sprintf("[%d,%d] actor#%d(id %d) %s key=%d%s %s", c.entry, c.exit, c.actor, c.id, c.op, c.key, tag, c.note)})
	}
	for _, m := range w.marks {
		ls = append(ls, line{m.at, fmt.Sprintf("[%d] %s", m.at, m.s)})
	}
	for _, r := range w.subs {
		for _, rc := range r.receipts {
			t := "other"
			if rc.changed {
				t = "DocChanged"
			}
			ls = append(ls, line{rc.stamp, fmt.Sprintf("[%d] subscriber id %d key=%d receives %s of id %d tag=%q", rc.stamp, r.id, r.key, t, rc.id, rc.tag)})
		}
		if r.closedAt != 0 {
			ls = append(ls, line{r.closedAt, fmt.Sprintf("[%d] subscriber id %d key=%d sees its channel closed", r.closedAt, r.id, r.key)})
		}
	}
	sort.Slice(ls, func(i, j int) bool { return ls[i].at < ls[j].at })
	var out []string
	for _, l := range ls {
		out = append(out, l.s)
	}
	if len(out) > limit {
		out = append(out[:limit:limit], fmt.Sprintf("... (%d more)", len(out)-limit))
	}
	return out
}

// ---------------------------------------------------------------------------
// evaluation of one case

type outcome struct {
	notes      []string
	fail       *kit.Failure
	hist       []string
	ev         map[string]int
	nonTrivial bool
}

var maxFailMu sync.Mutex

// evalScript runs the script in sc.Worlds independent PubSub instances at the
// same time and applies the oracle to each.
func evalScript(sc Script) outcome {
	maxFailMu.Lock()
	defer maxFailMu.Unlock()
	if sc.MaxFail > 0 {
		prev := pubsub.SetDefaultMaxConsecutivePublishFailures(sc.MaxFail)
		defer pubsub.SetDefaultMaxConsecutivePublishFailures(prev)
	}
	nw := max(1, sc.Worlds)
	seq := caseSeq.Add(1)
	lw := startLagWatch()
	worlds := make([]*world, nw)
	var wg sync.WaitGroup
	for i := range worlds {
		worlds[i] = &world{sc: &sc, idx: i, seq: seq, ps: pubsub.New(), lw: lw, ev: map[string]int{}}
		wg.Add(1)
		go func(w *world) {
			defer wg.Done()
			defer w.guard("world")
			w.run()
		}(worlds[i])
	}
	wg.Wait()
	lw.close()
	out := outcome{ev: map[string]int{}}
	// no batch-publisher goroutine may be left once everybody unsubscribed
	if left := waitNoPublishers(waitCap); left != 0 {
		out.fail = kit.Failf("LEAK-PUBLISHER", "%d batch-publisher goroutine(s) still run after every subscriber of every key unsubscribed", left)
	}
	for _, w := range worlds {
		w.classify()
		for k, v := range w.ev {
			out.ev[k] += v
		}
		out.notes = append(out.notes, w.notes...)
		if w.fail != nil && (out.fail == nil || out.fail.Kind == "LEAK-PUBLISHER") {
			out.fail = w.fail
			out.hist = w.history(250)
		}
	}
	if out.fail != nil && out.hist == nil {
		out.hist = worlds[0].history(250)
	}
	if out.fail == nil && os.Getenv("VERIF_SHOW_HISTORY") != "" {
		out.hist = worlds[0].history(400)
	}
	out.nonTrivial = out.ev["nontrivial"] > 0
	if lw.starved() {
		out.ev["case_with_starved_process"] = 1 // cap hits of still-subscribed watchers were inconclusive in this case
	}
	return out
}

func scriptClasses(sc Script, ev map[string]int) map[string]int {
	cl := map[string]int{}
	for k, v := range ev {
		if v > 0 {
			cl[k] = 1
		}
	}
	nS, nP := 0, 0
	for _, a := range sc.Actors {
		if a.Kind == "S" {
			nS++
		} else {
			nP++
			burst := 0
			for _, s := range a.Steps {
				if s.Op == "pub" {
					burst++
					if burst >= 3 {
						cl["script:burst>=3_same_actor"] = 1
					}
				} else if s.Op == "wait" && s.Arg > 0 {
					burst = 0
				}
			}
		}
	}
	cl[fmt.Sprintf("script:subscribers=%d", nS)] = 1
	cl[fmt.Sprintf("script:publishers=%d", nP)] = 1
	if sc.Keys > 1 {
		cl["script:two_keys"] = 1
	}
	if sc.Limit > 0 {
		cl["script:limit"] = 1
	}
	if sc.MaxFail > 0 {
		cl["script:small_maxfail"] = 1
		cl[fmt.Sprintf("script:maxfail=%d", sc.MaxFail)] = 1
	}
	if n := sc.episodes(); n > 0 {
		cl[fmt.Sprintf("script:episodes=%d", n)] = 1
	}
	return cl
}

func (s Script) episodes() int {
	n := 0
	for _, a := range s.Actors {
		for _, st := range a.Steps {
			if st.Op == "episode" {
				n++
			}
		}
	}
	return n
}

// runScripts is the body of the two script parts.
func runScripts(t *testing.T, part string, gen *rapid.Generator[Script], nonTrivial func(outcome) bool) {
	col := stats.New(prop, part)
	var best *Script
	var bestOut outcome
	harnessErr := ""
	defer func() {
		if best != nil {
			name := fmt.Sprintf("%s-%016x", part, hashOf(*best))
			path := kit.WriteReplay(prop, "script", name, *best, bestOut.fail, bestOut.hist)
			col.AddViolation(stats.Violation{Replay: path, Kind: bestOut.fail.Kind, Msg: bestOut.fail.Msg})
			kit.ReportViolation(prop, path, bestOut.fail)
			for _, h := range bestOut.hist {
				fmt.Printf("    %s\n", h)
			}
		}
		if harnessErr != "" {
			fmt.Printf("HARNESS-ERROR property=%s %s\n", prop, harnessErr)
		}
		col.Flush(true)
	}()
	evals := 0
	totals := map[string]int{} // per executed world, not per case
	rapid.Check(t, func(rt *rapid.T) {
		sc := gen.Draw(rt, "script")
		h := hashOf(sc)
		setInflight(part, "script", fmt.Sprintf("%s-%016x", part, h), sc)
		reps := 1
		if best != nil {
			reps = 3 // shrinking a schedule-dependent failure
			if sc.episodes() > 0 {
				reps = 1 // (a failing episode costs the cap)
			}
		}
		var out outcome
		for i := 0; i < reps; i++ {
			out = evalScript(sc)
			if out.fail != nil {
				break
			}
		}
		for k, v := range out.ev {
			if strings.HasPrefix(k, "episode") || strings.HasPrefix(k, "pruned_subscription") || k == "inconclusive_starved" ||
				k == "obligation_after_resume" || k == "closed_by_publisher_before_unsub" {
				totals[k] += v
				col.SetExtra("worlds:"+k, totals[k])
			}
		}
		if os.Getenv("C17_DEBUG") != "" {
			b, _ := json.Marshal(sc)
			eps := map[string]int{}
			for k, v := range out.ev {
				if strings.HasPrefix(k, "episode") {
					eps[k] = v
				}
			}
			fmt.Printf("DEBUG case %s\n      %v\n", b, eps)
		}
		for _, n := range out.notes {
			col.Note("%s", n)
			fmt.Println("NOTE " + n)
		}
		col.Record(h, nonTrivial(out) && out.fail == nil, scriptClasses(sc, out.ev), func() any {
			return map[string]any{"script": sc, "events": out.ev}
		})
		if evals++; evals%25 == 0 || part == "stall" {
			col.Flush(false) // keep the shard file fresh: the process may be killed by a crash in the code under test
		}
		if out.fail != nil {
			if out.fail.Kind == "HARNESS" {
				harnessErr = out.fail.Msg
				rt.Fatalf("harness error: %s", out.fail.Msg)
			}
			if best == nil || sc.size() < best.size() {
				c := sc
				best, bestOut = &c, out
			}
			rt.Fatalf("%s", out.fail.Error())
		}
	})
}

func TestC17Scripts(t *testing.T) {
	runScripts(t, "scripts", genScript(), func(out outcome) bool { return out.nonTrivial })
}

// TestC17Stall is the focused stall stratum. Non-trivial: in some world a
// stall episode ran on a live subscription and the publisher then either
// pruned the stalled subscriber or kept it (i.e. the flushes were observed).
func TestC17Stall(t *testing.T) {
	runScripts(t, "stall", genStallScript(), func(out outcome) bool {
		return out.ev["episode:pruned"]+out.ev["episode:kept"]+out.ev["episode:style=2"] > 0
	})
}

// replayScript re-executes a saved script. Failures depend on the schedule, so
// the script is run 200 times (25 rounds of 8 concurrent worlds); a script
// with stall episodes (about a second each, and what they look for does not
// depend on a narrow window) 40 times.
func replayScript(raw json.RawMessage) *kit.Failure {
	var sc Script
	if err := json.Unmarshal(raw, &sc); err != nil {
		return kit.Failf("HARNESS", "HARNESS-ERROR bad script: %v", err)
	}
	sc.Worlds = 8
	rounds := 25
	if sc.episodes() > 0 {
		rounds = 5
	}
	for i := 0; i < rounds; i++ {
		out := evalScript(sc)
		if out.fail != nil || (i == 0 && os.Getenv("VERIF_SHOW_HISTORY") != "") {
			for _, h := range out.hist {
				fmt.Printf("    %s\n", h)
			}
		}
		if out.fail != nil {
			return out.fail
		}
	}
	return nil
}
