package c17

import (
	"context"
	"encoding/json"
	"errors"
	"fmt"
	"sort"
	"sync"
	"sync/atomic"
	"testing"
	gotime "time"

	"pgregory.net/rapid"

	"github.com/yorkie-team/yorkie/api/types"
	"github.com/yorkie-team/yorkie/api/types/events"
	"github.com/yorkie-team/yorkie/pkg/document/time"
	"github.com/yorkie-team/yorkie/server/backend/pubsub"

	"verifharness/kit"
	"verifharness/stats"
)

// ---------------------------------------------------------------------------
// case shape

// Step is one scripted action of an actor.
//
//	subscriber ops: sub, unsub, unsubtold (wait until told, then unsubscribe),
//	                await (wait until told), stall, drain, wait
//	publisher ops:  pub (DocChanged), pubw (DocWatched noise), wait
type Step struct {
	Op   string `json:"op"`
	Key  int    `json:"k,omitempty"`   // document key index (sub, pub, pubw)
	Mode int    `json:"m,omitempty"`   // sub: 0 drain, 1 stalled from the start, 2 slow 5ms, 3 slow 25ms
	Arg  int    `json:"arg,omitempty"` // wait: x10 ms
	Pre  int    `json:"pre,omitempty"` // jitter code executed before the step
}

// Actor is one goroutine of the case.
type Actor struct {
	Kind     string `json:"kind"`           // "S" subscriber, "P" publisher
	ID       int    `json:"id"`             // actor identity (publishers may share a subscriber's identity)
	Steps    []Step `json:"steps"`          // main phase
	Tail     []Step `json:"tail,omitempty"` // publishers: run concurrently with the final unsubscribes
	FinalPre int    `json:"fpre,omitempty"` // subscribers: jitter before the final unsubscribe
}

// Script is one generated case.
type Script struct {
	Actors  []Actor `json:"actors"`
	Keys    int     `json:"keys"`              // 1 or 2 document keys
	Limit   int     `json:"limit,omitempty"`   // subscriber limit passed to Subscribe (0 = none)
	MaxFail int     `json:"maxfail,omitempty"` // SetDefaultMaxConsecutivePublishFailures (0 = keep 100)
	Worlds  int     `json:"worlds,omitempty"`  // independent concurrent executions of the script
}

func (s Script) size() int {
	n := 0
	for _, a := range s.Actors {
		n += 2 + len(a.Steps) + len(a.Tail)
	}
	return n
}

func genScript() *rapid.Generator[Script] {
	return rapid.Custom(func(t *rapid.T) Script {
		nSub := rapid.IntRange(1, 4).Draw(t, "nsub")
		nPub := rapid.IntRange(1, 3).Draw(t, "npub")
		sc := Script{Keys: 1, Worlds: kit.Pick(12, 16)}
		if rapid.IntRange(0, 3).Draw(t, "twokeys") == 0 {
			sc.Keys = 2
		}
		if rapid.IntRange(0, 5).Draw(t, "limited") == 0 {
			sc.Limit = rapid.IntRange(1, 3).Draw(t, "limit")
		}
		sc.MaxFail = rapid.SampledFrom([]int{0, 0, 0, 3, 2}).Draw(t, "maxfail")
		key := func() int {
			if sc.Keys == 2 && rapid.IntRange(0, 2).Draw(t, "key") == 0 {
				return 1
			}
			return 0
		}
		lazyLeft := rapid.IntRange(0, 2).Draw(t, "lazy") // at most two non-draining subscriber actors
		noiseLeft := 3                                   // DocWatched events are not de-duplicated: bound them (see waitCap)
		maxWait := kit.Pick(20, 30)                      // x10 ms per actor
		for i := 0; i < nSub; i++ {
			a := Actor{Kind: "S", ID: i, FinalPre: rapid.IntRange(0, 7).Draw(t, "fpre")}
			lazy := false
			if lazyLeft > 0 && rapid.Bool().Draw(t, "islazy") {
				lazy = true
				lazyLeft--
			}
			n := rapid.IntRange(1, 8).Draw(t, "nsteps")
			waited := 0
			for j := 0; j < n; j++ {
				st := Step{Pre: rapid.IntRange(0, 7).Draw(t, "pre")}
				ops := []string{"sub", "sub", "unsub", "unsubtold", "unsubtold", "await", "await", "await", "wait", "wait"}
				if lazy {
					ops = append(ops, "stall", "drain")
				}
				if j == 0 && rapid.IntRange(0, 4).Draw(t, "first") > 0 {
					st.Op = "sub"
				} else {
					st.Op = rapid.SampledFrom(ops).Draw(t, "op")
				}
				switch st.Op {
				case "sub":
					st.Key = key()
					if lazy {
						st.Mode = rapid.SampledFrom([]int{0, 1, 1, 2, 3}).Draw(t, "mode")
					}
				case "wait":
					st.Arg = rapid.IntRange(1, 12).Draw(t, "arg")
					if waited+st.Arg > maxWait {
						st.Arg = max(0, maxWait-waited)
					}
					waited += st.Arg
				}
				a.Steps = append(a.Steps, st)
			}
			sc.Actors = append(sc.Actors, a)
		}
		for i := 0; i < nPub; i++ {
			a := Actor{Kind: "P", ID: rapid.IntRange(0, nSub+1).Draw(t, "pubid")}
			n := rapid.IntRange(1, 10).Draw(t, "nsteps")
			waited := 0
			for j := 0; j < n; j++ {
				st := Step{Pre: rapid.IntRange(0, 7).Draw(t, "pre")}
				st.Op = rapid.SampledFrom([]string{"pub", "pub", "pub", "pub", "pub", "pub", "pubw", "wait", "wait", "wait"}).Draw(t, "op")
				if st.Op == "pubw" {
					if noiseLeft == 0 {
						st.Op = "pub"
					} else {
						noiseLeft--
					}
				}
				switch st.Op {
				case "pub", "pubw":
					st.Key = key()
				case "wait":
					st.Arg = rapid.IntRange(1, 15).Draw(t, "arg")
					if waited+st.Arg > maxWait {
						st.Arg = max(0, maxWait-waited)
					}
					waited += st.Arg
				}
				a.Steps = append(a.Steps, st)
			}
			nt := rapid.IntRange(0, 2).Draw(t, "ntail")
			for j := 0; j < nt; j++ {
				a.Tail = append(a.Tail, Step{Op: "pub", Key: key(), Pre: rapid.IntRange(0, 7).Draw(t, "pre")})
			}
			sc.Actors = append(sc.Actors, a)
		}
		return sc
	})
}

// ---------------------------------------------------------------------------
// execution of one world

func actorID(i int) time.ActorID { return time.ActorID{0: 0xc1, 1: 0x17, 11: byte(i + 1)} }

func actorIdx(id time.ActorID) int { return int(id[11]) - 1 }

func docKey(world, k int) types.DocRefKey {
	return types.DocRefKey{
		ProjectID: types.ID(fmt.Sprintf("0000000000000000000c17%02x", world&0xff)),
		DocID:     types.ID(fmt.Sprintf("00000000000000000000d0%02x", k&0xff)),
	}
}

type receipt struct {
	stamp   int64
	id      int
	changed bool
}

// subRec is one subscription (Subscribe .. Unsubscribe) of a subscriber actor.
type subRec struct {
	actor, id, key int
	sub            *pubsub.DocSubscription
	subEntry       int64
	subExit        int64
	unsubEntry     int64 // 0 while subscribed
	unsubExit      int64
	lazy           atomic.Bool // was ever stalled or slow: excluded from the obligations
	paused         atomic.Bool
	slow           gotime.Duration
	wake           chan struct{}
	quit           chan struct{}
	done           chan struct{}

	mu       sync.Mutex
	receipts []receipt
	closedAt int64
}

func (r *subRec) closedSeen() bool {
	r.mu.Lock()
	defer r.mu.Unlock()
	return r.closedAt != 0
}

// call is one stamped API call.
type call struct {
	actor, step int
	op          string
	key, id     int
	entry, exit int64
	note        string
	rec         *subRec
}

type world struct {
	sc    *Script
	idx   int
	ps    *pubsub.PubSub
	clock atomic.Int64
	lw    *lagWatch

	mu    sync.Mutex
	calls []*call
	subs  []*subRec
	fail  *kit.Failure
	ev    map[string]int
}

func (w *world) tick() int64 { return w.clock.Add(1) }

func (w *world) failf(kind, format string, a ...any) {
	w.mu.Lock()
	defer w.mu.Unlock()
	if w.fail == nil {
		w.fail = kit.Failf(kind, "world %d: %s", w.idx, fmt.Sprintf(format, a...))
	}
}

func (w *world) count(k string) {
	w.mu.Lock()
	w.ev[k]++
	w.mu.Unlock()
}

func (w *world) begin(actor, step int, op string, key, id int, rec *subRec) *call {
	c := &call{actor: actor, step: step, op: op, key: key, id: id, rec: rec}
	w.mu.Lock()
	w.calls = append(w.calls, c)
	c.entry = w.tick() // stamped under the lock: calls are ordered by entry
	w.mu.Unlock()
	return c
}

func (w *world) end(c *call, note string) {
	w.mu.Lock()
	c.exit = w.tick()
	c.note = note
	w.mu.Unlock()
}

func (w *world) guard(who string) {
	if r := recover(); r != nil {
		w.failf("PANIC", "%s panicked: %v", who, r)
	}
}

// jitter varies the drawn pause code per world so that the concurrent worlds
// of one case explore different interleavings of the same script.
func (w *world) jitter(code, salt int) {
	if w.idx > 0 {
		code = code + w.idx*3 + salt*w.idx
	}
	pause(code)
}

func (w *world) consume(r *subRec) {
	defer close(r.done)
	defer w.guard("consumer")
	ch := r.sub.Events()
	for {
		for r.paused.Load() {
			select {
			case <-r.wake:
			case <-r.quit:
				return
			}
		}
		if r.slow > 0 {
			gotime.Sleep(r.slow)
		}
		select {
		case ev, ok := <-ch:
			st := w.tick()
			r.mu.Lock()
			if !ok {
				r.closedAt = st
				r.mu.Unlock()
				return
			}
			r.receipts = append(r.receipts, receipt{stamp: st, id: actorIdx(ev.Actor), changed: ev.Type == events.DocChanged})
			r.mu.Unlock()
		case <-r.quit:
			return
		}
	}
}

// pending lists the completed DocChanged publishes this subscription must
// have been told about by now and has not.
func (w *world) pending(r *subRec) []*call {
	w.mu.Lock()
	var ps []*call
	for _, c := range w.calls {
		if c.op == "pub" && c.exit != 0 && c.key == r.key && c.id != r.id && c.entry > r.subExit {
			ps = append(ps, c)
		}
	}
	w.mu.Unlock()
	r.mu.Lock()
	defer r.mu.Unlock()
	var out []*call
	for _, p := range ps {
		told := false
		for _, rc := range r.receipts {
			if rc.changed && rc.id == p.id && rc.stamp > p.entry {
				told = true
				break
			}
		}
		if !told {
			out = append(out, p)
		}
	}
	return out
}

// await blocks until the (draining) subscription was told about every
// completed publish, or its channel was closed; hitting the cap with an open
// channel is the violation.
func (w *world) await(r *subRec, where string) {
	if r.lazy.Load() {
		return
	}
	deadline := gotime.Now().Add(waitCap)
	first := true
	for {
		if r.closedSeen() {
			w.count("closed_while_subscribed")
			return
		}
		if r.lazy.Load() {
			return
		}
		pend := w.pending(r)
		if first {
			first = false
			w.count("await")
			if len(pend) > 0 {
				w.count("await_had_to_wait")
			}
			w.mu.Lock()
			for _, c := range w.calls {
				if c.op == "pub" && c.exit != 0 && c.key == r.key && c.id != r.id && c.entry > r.subExit {
					w.ev["obligation"]++
				}
			}
			w.mu.Unlock()
		}
		if len(pend) == 0 {
			return
		}
		if gotime.Now().After(deadline) {
			if r.sub.IsDead() {
				// closed by the publisher (self-prune); the consumer will see it
				gotime.Sleep(20 * gotime.Millisecond)
				if r.closedSeen() || gotime.Now().After(deadline.Add(2*gotime.Second)) {
					return
				}
				continue
			}
			if w.lw.starved() {
				w.count("inconclusive_starved")
				return
			}
			registered := false
			for _, id := range w.ps.ClientIDs(docKey(w.idx, r.key)) {
				if actorIdx(id) == r.id {
					registered = true
				}
			}
			p := pend[0]
			w.failf("NEVER-TOLD", "%s: subscriber actor %d (Subscribe returned at stamp %d, channel still open, listed in ClientIDs: %v) "+
				"received no DocChanged of actor %d after stamp %d although Publish [%d,%d] by actor %d on key %d completed %v ago or more (%d publishes untold)",
				where, r.id, r.subExit, registered, p.id, p.entry, p.entry, p.exit, p.id, p.key, waitCap, len(pend))
			return
		}
		gotime.Sleep(2 * gotime.Millisecond)
	}
}

type actorState struct {
	cur *subRec
}

func (w *world) unsubscribe(ai, si int, st *actorState) {
	r := st.cur
	st.cur = nil
	if r.sub.IsDead() {
		w.count("closed_by_publisher_before_unsub") // self-pruned after MaxFail timed-out sends
	}
	c := w.begin(ai, si, "unsub", r.key, r.id, r)
	w.mu.Lock()
	r.unsubEntry = c.entry
	w.mu.Unlock()
	w.ps.Unsubscribe(context.Background(), docKey(w.idx, r.key), r.sub)
	w.end(c, "")
	w.mu.Lock()
	r.unsubExit = c.exit
	w.mu.Unlock()
	// let a stalled consumer run so that it can observe the close
	r.paused.Store(false)
	select {
	case r.wake <- struct{}{}:
	default:
	}
}

func (w *world) exec(ai int, a *Actor, si int, s Step, st *actorState) {
	w.jitter(s.Pre, si)
	ctx := context.Background()
	switch s.Op {
	case "wait":
		gotime.Sleep(gotime.Duration(s.Arg) * 10 * gotime.Millisecond)
	case "sub":
		if st.cur != nil {
			return
		}
		k := s.Key % w.sc.Keys
		r := &subRec{actor: ai, id: a.ID, key: k, wake: make(chan struct{}, 1), quit: make(chan struct{}), done: make(chan struct{})}
		switch s.Mode {
		case 1:
			r.lazy.Store(true)
			r.paused.Store(true)
		case 2:
			r.lazy.Store(true)
			r.slow = 5 * gotime.Millisecond
		case 3:
			r.lazy.Store(true)
			r.slow = 25 * gotime.Millisecond
		}
		c := w.begin(ai, si, "sub", k, a.ID, r)
		sub, _, err := w.ps.Subscribe(ctx, actorID(a.ID), docKey(w.idx, k), w.sc.Limit)
		if err != nil {
			w.end(c, "rejected")
			if w.sc.Limit > 0 && errors.Is(err, pubsub.ErrTooManySubscribers) {
				w.count("limit_rejected")
			} else {
				w.failf("SUBSCRIBE-ERROR", "Subscribe of actor %d failed: %v", a.ID, err)
			}
			return
		}
		w.end(c, "")
		r.sub, r.subEntry, r.subExit = sub, c.entry, c.exit
		w.mu.Lock()
		w.subs = append(w.subs, r)
		w.mu.Unlock()
		st.cur = r
		go w.consume(r)
	case "unsub":
		if st.cur != nil {
			w.unsubscribe(ai, si, st)
		}
	case "unsubtold":
		if st.cur != nil {
			w.await(st.cur, fmt.Sprintf("actor %d step %d (unsubtold)", ai, si))
			w.unsubscribe(ai, si, st)
		}
	case "await":
		if st.cur != nil {
			w.await(st.cur, fmt.Sprintf("actor %d step %d (await)", ai, si))
		}
	case "stall":
		if st.cur != nil {
			st.cur.lazy.Store(true)
			st.cur.paused.Store(true)
		}
	case "drain":
		if st.cur != nil && st.cur.paused.Load() {
			st.cur.paused.Store(false)
			select {
			case st.cur.wake <- struct{}{}:
			default:
			}
		}
	case "pub", "pubw":
		k := s.Key % w.sc.Keys
		typ := events.DocChanged
		if s.Op == "pubw" {
			typ = events.DocWatched
		}
		c := w.begin(ai, si, s.Op, k, a.ID, nil)
		w.ps.Publish(ctx, actorID(a.ID), events.DocEvent{Type: typ, Key: docKey(w.idx, k), Actor: actorID(a.ID)})
		w.end(c, "")
	}
}

func (w *world) run() {
	n := len(w.sc.Actors)
	var mainWG, awaitWG, tailWG sync.WaitGroup
	mainWG.Add(n)
	awaitWG.Add(n)
	tailWG.Add(n)
	start, mainDone, finalGo := make(chan struct{}), make(chan struct{}), make(chan struct{})
	for ai := range w.sc.Actors {
		a := &w.sc.Actors[ai]
		st := &actorState{}
		who := fmt.Sprintf("actor %d (%s%d)", ai, a.Kind, a.ID)
		go func() {
			func() {
				defer mainWG.Done()
				defer w.guard(who)
				<-start
				for si, s := range a.Steps {
					w.exec(ai, a, si, s, st)
				}
			}()
			<-mainDone
			func() {
				defer awaitWG.Done()
				defer w.guard(who)
				if a.Kind == "S" && st.cur != nil {
					w.await(st.cur, fmt.Sprintf("actor %d (final)", ai))
				}
			}()
			<-finalGo
			func() {
				defer tailWG.Done()
				defer w.guard(who)
				if a.Kind == "S" {
					w.jitter(a.FinalPre, ai)
					if st.cur != nil {
						w.unsubscribe(ai, len(a.Steps), st)
					}
					return
				}
				for si, s := range a.Tail {
					w.exec(ai, a, len(a.Steps)+si, s, st)
				}
			}()
		}()
	}
	close(start)
	mainWG.Wait()
	close(mainDone)
	awaitWG.Wait()
	close(finalGo)
	tailWG.Wait()

	// every subscription has been unsubscribed: consumers must see the close
	w.mu.Lock()
	subs := append([]*subRec{}, w.subs...)
	w.mu.Unlock()
	for _, r := range subs {
		select {
		case <-r.done:
		case <-gotime.After(3 * gotime.Second):
			w.count("channel_left_open_after_unsub")
			close(r.quit)
			<-r.done
		}
		// "after it unsubscribes it receives nothing": one event may still sit
		// in the (size 1) buffer when the channel is closed and one may have
		// been taken out but not yet stamped by the consumer; more than that
		// was sent after Unsubscribe returned.
		late := 0
		r.mu.Lock()
		for _, rc := range r.receipts {
			if r.unsubExit != 0 && rc.stamp > r.unsubExit {
				late++
			}
		}
		r.mu.Unlock()
		if late > 2 && !r.lazy.Load() {
			w.failf("TOLD-AFTER-UNSUBSCRIBE", "subscriber actor %d received %d events after its Unsubscribe returned (stamp %d)", r.id, late, r.unsubExit)
		}
	}
	for k := 0; k < w.sc.Keys; k++ {
		if ids := w.ps.ClientIDs(docKey(w.idx, k)); len(ids) != 0 {
			w.failf("LEAK-SUBSCRIPTION", "after every subscriber unsubscribed, ClientIDs(key %d) still lists %d subscriber(s): %v", k, len(ids), ids)
		}
	}
}

// ---------------------------------------------------------------------------
// history analysis (coverage only)

func overlap(a, b *call) bool { return a.entry < b.exit && b.entry < a.exit }

func (w *world) classify() {
	calls := w.calls
	ev := w.ev
	isLast := func(u *call) bool {
		for _, t := range w.subs {
			if t == u.rec || t.key != u.key {
				continue
			}
			if t.subExit < u.exit && (t.unsubExit == 0 || t.unsubExit > u.exit) {
				return false
			}
		}
		return true
	}
	norm := func(op string) string {
		if op == "pubw" {
			return "pub"
		}
		return op
	}
	for i, a := range calls {
		for _, b := range calls[i+1:] {
			if a.key != b.key || a.exit == 0 || b.exit == 0 || !overlap(a, b) {
				continue
			}
			xo, yo := norm(a.op), norm(b.op)
			if xo > yo {
				xo, yo = yo, xo
			}
			ev["overlap:"+xo+"-"+yo]++
			if xo == "sub" || yo == "sub" {
				ev["nontrivial"]++
			}
			for _, u := range []*call{a, b} {
				if u.op == "unsub" && isLast(u) {
					o := a
					if u == a {
						o = b
					}
					ev["overlap:last-unsub-vs-"+norm(o.op)]++
					ev["nontrivial"]++
				}
			}
		}
	}
	perActor := map[int]int{}
	for _, r := range w.subs {
		perActor[r.actor]++
		if r.lazy.Load() {
			ev["lazy_subscription"]++
		} else {
			ev["draining_subscription"]++
		}
		ev["events_received"] += len(r.receipts)
	}
	for _, n := range perActor {
		if n > 1 {
			ev["resubscribed"]++
		}
	}
	for _, c := range calls {
		if c.op == "pub" {
			ev["publish"]++
			for _, r := range w.subs {
				if r.id == c.id && r.key == c.key && r.subExit < c.entry && (r.unsubEntry == 0 || r.unsubEntry > c.exit) {
					ev["publish_by_subscribed_actor"]++
					break
				}
			}
		}
	}
}

func (w *world) history(limit int) []string {
	type line struct {
		at int64
		s  string
	}
	var ls []line
	for _, c := range w.calls {
		ls = append(ls, line{c.entry, fmt.Sprintf("[%d,%d] actor#%d(id %d) %s key=%d %s", c.entry, c.exit, c.actor, c.id, c.op, c.key, c.note)})
	}
	for _, r := range w.subs {
		for _, rc := range r.receipts {
			t := "other"
			if rc.changed {
				t = "DocChanged"
			}
			ls = append(ls, line{rc.stamp, fmt.Sprintf("[%d] subscriber id %d key=%d receives %s of id %d", rc.stamp, r.id, r.key, t, rc.id)})
		}
		if r.closedAt != 0 {
			ls = append(ls, line{r.closedAt, fmt.Sprintf("[%d] subscriber id %d key=%d sees its channel closed", r.closedAt, r.id, r.key)})
		}
	}
	sort.Slice(ls, func(i, j int) bool { return ls[i].at < ls[j].at })
	var out []string
	for _, l := range ls {
		out = append(out, l.s)
	}
	if len(out) > limit {
		out = append(out[:limit:limit], fmt.Sprintf("... (%d more)", len(out)-limit))
	}
	return out
}

// ---------------------------------------------------------------------------
// evaluation of one case

type outcome struct {
	fail       *kit.Failure
	hist       []string
	ev         map[string]int
	nonTrivial bool
}

var maxFailMu sync.Mutex

// evalScript runs the script in sc.Worlds independent PubSub instances at the
// same time and applies the oracle to each.
func evalScript(sc Script) outcome {
	maxFailMu.Lock()
	defer maxFailMu.Unlock()
	if sc.MaxFail > 0 {
		prev := pubsub.SetDefaultMaxConsecutivePublishFailures(sc.MaxFail)
		defer pubsub.SetDefaultMaxConsecutivePublishFailures(prev)
	}
	nw := max(1, sc.Worlds)
	lw := startLagWatch()
	worlds := make([]*world, nw)
	var wg sync.WaitGroup
	for i := range worlds {
		worlds[i] = &world{sc: &sc, idx: i, ps: pubsub.New(), lw: lw, ev: map[string]int{}}
		wg.Add(1)
		go func(w *world) {
			defer wg.Done()
			defer w.guard("world")
			w.run()
		}(worlds[i])
	}
	wg.Wait()
	lw.close()
	out := outcome{ev: map[string]int{}}
	// no batch-publisher goroutine may be left once everybody unsubscribed
	if left := waitNoPublishers(waitCap); left != 0 {
		out.fail = kit.Failf("LEAK-PUBLISHER", "%d batch-publisher goroutine(s) still run after every subscriber of every key unsubscribed", left)
	}
	for _, w := range worlds {
		w.classify()
		for k, v := range w.ev {
			out.ev[k] += v
		}
		if w.fail != nil && (out.fail == nil || out.fail.Kind == "LEAK-PUBLISHER") {
			out.fail = w.fail
			out.hist = w.history(250)
		}
	}
	if out.fail != nil && out.hist == nil {
		out.hist = worlds[0].history(250)
	}
	out.nonTrivial = out.ev["nontrivial"] > 0
	return out
}

func scriptClasses(sc Script, ev map[string]int) map[string]int {
	cl := map[string]int{}
	for k, v := range ev {
		if v > 0 {
			cl[k] = 1
		}
	}
	nS, nP := 0, 0
	for _, a := range sc.Actors {
		if a.Kind == "S" {
			nS++
		} else {
			nP++
			burst := 0
			for _, s := range a.Steps {
				if s.Op == "pub" {
					burst++
					if burst >= 3 {
						cl["script:burst>=3_same_actor"] = 1
					}
				} else if s.Op == "wait" && s.Arg > 0 {
					burst = 0
				}
			}
		}
	}
	cl[fmt.Sprintf("script:subscribers=%d", nS)] = 1
	cl[fmt.Sprintf("script:publishers=%d", nP)] = 1
	if sc.Keys > 1 {
		cl["script:two_keys"] = 1
	}
	if sc.Limit > 0 {
		cl["script:limit"] = 1
	}
	if sc.MaxFail > 0 {
		cl["script:small_maxfail"] = 1
	}
	return cl
}

func TestC17Scripts(t *testing.T) {
	col := stats.New(prop, "scripts")
	var best *Script
	var bestOut outcome
	harnessErr := ""
	defer func() {
		if best != nil {
			name := fmt.Sprintf("scripts-%016x", hashOf(*best))
			path := kit.WriteReplay(prop, "script", name, *best, bestOut.fail, bestOut.hist)
			col.AddViolation(stats.Violation{Replay: path, Kind: bestOut.fail.Kind, Msg: bestOut.fail.Msg})
			kit.ReportViolation(prop, path, bestOut.fail)
			for _, h := range bestOut.hist {
				fmt.Printf("    %s\n", h)
			}
		}
		if harnessErr != "" {
			fmt.Printf("HARNESS-ERROR property=%s %s\n", prop, harnessErr)
		}
		col.Flush(true)
	}()
	gen := genScript()
	evals := 0
	rapid.Check(t, func(rt *rapid.T) {
		sc := gen.Draw(rt, "script")
		h := hashOf(sc)
		setInflight("scripts", "script", fmt.Sprintf("scripts-%016x", h), sc)
		reps := 1
		if best != nil {
			reps = 3 // shrinking a schedule-dependent failure
		}
		var out outcome
		for i := 0; i < reps; i++ {
			out = evalScript(sc)
			if out.fail != nil {
				break
			}
		}
		col.Record(h, out.nonTrivial && out.fail == nil, scriptClasses(sc, out.ev), func() any {
			return map[string]any{"script": sc, "events": out.ev}
		})
		if evals++; evals%25 == 0 {
			col.Flush(false) // keep the shard file fresh: the process may be killed by a crash in the code under test
		}
		if out.fail != nil {
			if out.fail.Kind == "HARNESS" {
				harnessErr = out.fail.Msg
				rt.Fatalf("harness error: %s", out.fail.Msg)
			}
			if best == nil || sc.size() < best.size() {
				c := sc
				best, bestOut = &c, out
			}
			rt.Fatalf("%s", out.fail.Error())
		}
	})
}

// replayScript re-executes a saved script. Failures depend on the schedule, so
// the script is run 200 times (25 rounds of 8 concurrent worlds).
func replayScript(raw json.RawMessage) *kit.Failure {
	var sc Script
	if err := json.Unmarshal(raw, &sc); err != nil {
		return kit.Failf("HARNESS", "HARNESS-ERROR bad script: %v", err)
	}
	sc.Worlds = 8
	for i := 0; i < 25; i++ {
		if out := evalScript(sc); out.fail != nil {
			for _, h := range out.hist {
				fmt.Printf("    %s\n", h)
			}
			return out.fail
		}
	}
	return nil
}
