package c17

import (
	"encoding/json"
	"fmt"
	"os"
	"os/exec"
	"runtime"
	"sync"
	"sync/atomic"
	"testing"
	gotime "time"

	"github.com/yorkie-team/yorkie/api/types/events"
	"github.com/yorkie-team/yorkie/server/backend/pubsub"

	"verifharness/kit"
)

// TestC17ProbeReadySendVsTimeout is NOT part of the check (it is skipped
// unless C17_PROBE=1): it is the minimal demonstration of an observation the
// script parts can only count as "inconclusive_starved".
//
// Subscription.Publish selects between the send and a 100 ms timer created
// just before. If the process is held up for >= 100 ms between the creation of
// the timer and the select (overloaded host, CPU-quota throttling, a long
// stop-the-world), both cases are ready when the select polls and Go picks
// one at random: the event is dropped although the watcher's buffer is EMPTY,
// the subscription stays alive (failure count 1 of 100) and the watcher is
// neither told nor closed. Here every worker alternates Publish / receive on
// its own subscription, so the one-slot buffer is empty at every Publish, and
// a helper stops the process (SIGSTOP) for 150 ms every 200 ms.
func TestC17ProbeReadySendVsTimeout(t *testing.T) {
	if os.Getenv("C17_PROBE") == "" {
		t.Skip("demonstration only: set C17_PROBE=1")
	}
	published, lost, skip := readySendProbe(20)
	if skip != "" {
		t.Skip(skip)
	}
	fmt.Printf("publishes=%d dropped_with_empty_buffer=%d\n", published, lost)
	if lost > 0 {
		t.Fatalf("%d events were dropped although the send was ready", lost)
	}
}

// replayReadySend is the regression form of the probe (known finding F63, repaired):
// a few seconds of alternating Publish / receive under periodic process stops.
func replayReadySend(raw json.RawMessage) *kit.Failure {
	var c struct {
		Seconds int `json:"seconds"`
	}
	_ = json.Unmarshal(raw, &c)
	if c.Seconds <= 0 {
		c.Seconds = 5
	}
	published, lost, skip := readySendProbe(c.Seconds)
	if skip != "" {
		fmt.Println("  (probe skipped: " + skip + ")")
		return nil
	}
	fmt.Printf("  publishes=%d dropped_with_empty_buffer=%d\n", published, lost)
	if lost > 0 {
		return kit.Failf("READY-SEND-DROPPED", "%d of %d events were dropped by Publish although the subscriber's buffer was empty and it was reading (the watcher stays subscribed: neither told nor closed)", lost, published)
	}
	return nil
}

func readySendProbe(seconds int) (published, dropped int64, skip string) {
	// The helper always continues the process after stopping it and ends when
	// the flag file appears (or the process is gone).
	flag := fmt.Sprintf("%s/c17-probe-%d.done", os.TempDir(), os.Getpid())
	helper := exec.Command("sh", "-c", fmt.Sprintf("while [ ! -e %s ] && kill -STOP %d 2>/dev/null; do sleep 0.15; kill -CONT %d; sleep 0.05; done",
		flag, os.Getpid(), os.Getpid()))
	if err := helper.Start(); err != nil {
		return 0, 0, fmt.Sprintf("cannot start the helper: %v", err)
	}
	defer func() {
		_ = os.WriteFile(flag, nil, 0o644)
		_ = helper.Wait()
		_ = os.Remove(flag)
	}()
	var lost, sent atomic.Int64
	deadline := gotime.Now().Add(gotime.Duration(seconds) * gotime.Second)
	var wg sync.WaitGroup
	for w := 0; w < runtime.GOMAXPROCS(0); w++ {
		wg.Add(1)
		go func() {
			defer wg.Done()
			sub := pubsub.NewDocSubscription(actorID(1))
			ev := events.DocEvent{Type: events.DocChanged, Actor: actorID(2)}
			for gotime.Now().Before(deadline) && lost.Load() < 3 {
				t0 := gotime.Now()
				if sub.Publish(ev) {
					<-sub.Events()
					sent.Add(1)
				} else {
					fmt.Printf("Publish to a subscription with an empty buffer (len=%d) reported a timeout after %v; IsDead=%v: the event is dropped, the watcher stays subscribed\n",
						len(sub.Events()), gotime.Since(t0), sub.IsDead())
					lost.Add(1)
				}
			}
		}()
	}
	wg.Wait()
	return sent.Load() + lost.Load(), lost.Load(), ""
}
