// Package c17 checks property C17 (a watcher is told about every change made
// after it subscribed) directly on server/backend/pubsub.PubSub with generated
// concurrent scripts. The package is built with -race; the race detector is
// part of the oracle.
package c17

import (
	"bufio"
	"bytes"
	"context"
	"encoding/json"
	"fmt"
	"hash/fnv"
	"os"
	"os/exec"
	"path/filepath"
	"regexp"
	"runtime"
	"strconv"
	"strings"
	"sync"
	"sync/atomic"
	"testing"
	"time"

	"github.com/yorkie-team/yorkie/api/types"
	"github.com/yorkie-team/yorkie/api/types/events"
	yorkietime "github.com/yorkie-team/yorkie/pkg/document/time"
	"github.com/yorkie-team/yorkie/server/backend/pubsub"
	"github.com/yorkie-team/yorkie/server/logging"

	"verifharness/kit"
)

const (
	prop        = "C17"
	childEnv    = "C17_CHILD"
	inflightEnv = "C17_INFLIGHT"
)

func init() {
	kit.Pkg = "c17"
	kit.Race = true
	// (The child process taps the publisher's info-level log, see startLogTap.)
	_ = logging.SetLogLevel("fatal")
}

// TestMain runs the real tests in a child process. A send on a closed channel
// or a double close inside the batch-publisher goroutine cannot be recovered
// by the test: it kills the process, and so does the race detector (the child
// runs with halt_on_error=1 so that the case being executed when the race is
// reported is the racing one). The supervisor turns such a death into a
// recorded violation with the in-flight case as the replay file.
func TestMain(m *testing.M) {
	if os.Getenv(childEnv) != "" {
		startLogTap()
		code := m.Run()
		stopLogTap()
		os.Exit(code)
	}
	os.Exit(supervise())
}

// ---------------------------------------------------------------------------
// publisher log tap
//
// The batch publisher logs every failed send ("Publish to <actor> timeout or
// closed", info level, to the *os.File that os.Stdout names when the
// publisher is created). The child process therefore runs with os.Stdout
// replaced by a pipe: a reader goroutine counts these lines per actor and
// forwards everything else to the real stdout. The counts are not an oracle;
// they decide how a cap hit in a starved process is attributed (see
// (*world).refute): "a send to this watcher may have timed out" can be checked.

type logTap struct {
	real     *os.File
	w        *os.File
	done     chan struct{}
	mu       sync.Mutex
	timeouts map[string]int
	barriers map[string]chan struct{}
	seq      atomic.Int64
	selfOnce sync.Once
	usable   bool
}

var (
	tap         *logTap
	timeoutLine = regexp.MustCompile(`Publish to ([0-9a-f]{24}) timeout or closed`)
)

const barrierPrefix = "C17-LOGTAP-BARRIER "

func startLogTap() {
	r, w, err := os.Pipe()
	if err != nil {
		return
	}
	t := &logTap{real: os.Stdout, w: w, done: make(chan struct{}), timeouts: map[string]int{}, barriers: map[string]chan struct{}{}}
	os.Stdout = w
	_ = logging.SetLogLevel("info")
	go t.read(r)
	tap = t
}

func stopLogTap() {
	if tap == nil {
		return
	}
	os.Stdout = tap.real
	_ = tap.w.Close()
	<-tap.done
}

func (t *logTap) read(r *os.File) {
	defer close(t.done)
	br := bufio.NewReaderSize(r, 1<<16)
	for {
		line, err := br.ReadString('\n')
		switch {
		case line == "":
		case strings.Contains(line, " timeout or closed"):
			if m := timeoutLine.FindStringSubmatch(line); m != nil {
				t.mu.Lock()
				t.timeouts[m[1]]++
				t.mu.Unlock()
			}
		case strings.HasPrefix(line, barrierPrefix):
			tok := strings.TrimSpace(line[len(barrierPrefix):])
			t.mu.Lock()
			if ch := t.barriers[tok]; ch != nil {
				close(ch)
				delete(t.barriers, tok)
			}
			t.mu.Unlock()
		default:
			_, _ = t.real.WriteString(line)
		}
		if err != nil {
			return
		}
	}
}

// barrier returns true once the reader has processed everything that was
// written to the pipe before the call.
func (t *logTap) barrier(limit time.Duration) bool {
	tok := strconv.FormatInt(t.seq.Add(1), 10)
	ch := make(chan struct{})
	t.mu.Lock()
	t.barriers[tok] = ch
	t.mu.Unlock()
	if _, err := t.w.WriteString(barrierPrefix + tok + "\n"); err != nil {
		return false
	}
	select {
	case <-ch:
		return true
	case <-time.After(limit):
		return false
	}
}

// timeoutsOf is the number of failed sends to the actor logged so far.
func (t *logTap) timeoutsOf(id yorkietime.ActorID) int {
	t.mu.Lock()
	defer t.mu.Unlock()
	return t.timeouts[id.String()]
}

// ok reports whether the tap really sees the publisher's failed sends (checked
// once, on first use: a subscription nobody reads must produce such a line).
// If not - the log line changed, say - the attribution falls back to the
// plain convention.
func (t *logTap) ok() bool {
	t.selfOnce.Do(func() {
		ctx := context.Background()
		ps := pubsub.New()
		id := yorkietime.ActorID{0: 0xc1, 1: 0x17, 2: 0xff, 3: 0xff, 4: 0xff, 11: 1}
		other := yorkietime.ActorID{0: 0xc1, 1: 0x17, 2: 0xff, 3: 0xff, 4: 0xff, 11: 2}
		key := types.DocRefKey{ProjectID: types.ID("0000000000000000000c17ff"), DocID: types.ID("00000000000000000000d0ff")}
		sub, _, err := ps.Subscribe(ctx, id, key, 0)
		if err != nil {
			return
		}
		defer ps.Unsubscribe(ctx, key, sub)
		deadline := time.Now().Add(waitCap)
		for time.Now().Before(deadline) {
			ps.Publish(ctx, other, events.DocEvent{Type: events.DocChanged, Key: key, Actor: other})
			time.Sleep(120 * time.Millisecond)
			if t.barrier(time.Second) && t.timeoutsOf(id) > 0 {
				t.usable = true
				return
			}
		}
	})
	return t.usable
}

// loggedTimeouts is timeoutsOf after a barrier; -1 when the tap is not usable.
func loggedTimeouts(id yorkietime.ActorID) int {
	if tap == nil || !tap.ok() || !tap.barrier(waitCap) {
		return -1
	}
	return tap.timeoutsOf(id)
}

// caseSeq numbers the evaluated cases of this process; it is part of the actor
// ids so that a logged line belongs to exactly one instance of one case.
var caseSeq atomic.Int64

// capWriter tees to stdout and keeps the last part of the output.
type capWriter struct {
	mu  sync.Mutex
	buf []byte
}

func (c *capWriter) Write(p []byte) (int, error) {
	c.mu.Lock()
	defer c.mu.Unlock()
	c.buf = append(c.buf, p...)
	if len(c.buf) > 1<<20 {
		c.buf = append([]byte{}, c.buf[len(c.buf)-(1<<19):]...)
	}
	return os.Stdout.Write(p)
}

type inflightFile struct {
	Part string          `json:"part"`
	Kind string          `json:"kind"`
	Name string          `json:"name"`
	Case json.RawMessage `json:"case"`
}

func supervise() int {
	dir, err := os.MkdirTemp("", "c17-inflight-")
	if err != nil {
		fmt.Printf("HARNESS-ERROR property=%s cannot create temp dir: %v\n", prop, err)
		return 2
	}
	defer func() { _ = os.RemoveAll(dir) }()
	inflight := filepath.Join(dir, "case.json")
	exe, err := os.Executable()
	if err != nil {
		exe = os.Args[0]
	}
	cmd := exec.Command(exe, os.Args[1:]...)
	gorace := strings.TrimSpace("halt_on_error=1 " + os.Getenv("GORACE"))
	cmd.Env = append(os.Environ(), childEnv+"=1", inflightEnv+"="+inflight, "GORACE="+gorace)
	cw := &capWriter{}
	cmd.Stdout, cmd.Stderr = cw, cw
	cmd.Stdin = nil
	runErr := cmd.Run()
	if runErr == nil {
		return 0
	}
	code := 1
	if ee, ok := runErr.(*exec.ExitError); ok {
		if c := ee.ExitCode(); c > 0 {
			code = c
		}
	} else {
		fmt.Printf("HARNESS-ERROR property=%s cannot run child: %v\n", prop, runErr)
		return 2
	}
	out := string(cw.buf)
	if strings.Contains(out, "VIOLATION-FOUND") || strings.Contains(out, "HARNESS-ERROR") ||
		strings.Contains(out, "REPLAY-RESULT") || strings.Contains(out, "test timed out") {
		return code
	}
	kind, msg := "", ""
	lines := strings.Split(out, "\n")
	for i, l := range lines {
		switch {
		case strings.Contains(l, "WARNING: DATA RACE"):
			kind = "DATA-RACE"
			msg = strings.Join(lines[i:min(len(lines), i+40)], "\n")
		case strings.HasPrefix(l, "panic: ") || strings.HasPrefix(l, "fatal error: "):
			kind = "CRASH"
			msg = strings.Join(lines[i:min(len(lines), i+30)], "\n")
		}
		if kind != "" {
			break
		}
	}
	if kind == "" {
		return code
	}
	fail := kit.Failf(kind, "the test process died while executing this case:\n%s", msg)
	if os.Getenv("VERIF_REPLAY") != "" {
		fmt.Printf("REPLAY-RESULT fail property=%s %s\n", prop, fail.Error())
		return 1
	}
	b, err := os.ReadFile(inflight)
	var inf inflightFile
	if err != nil || json.Unmarshal(b, &inf) != nil {
		// died outside any case: nothing to replay; leave the verdict to the driver
		return code
	}
	path := kit.WriteReplay(prop, inf.Kind, inf.Name+"-crash", inf.Case, fail, nil)
	kit.ReportViolation(prop, path, fail)
	patchShardFile(inf.Part, path, fail)
	return 1
}

// patchShardFile adds the violation to the shard statistics the dead child
// flushed last (if any) and marks the shard done.
func patchShardFile(part, replay string, fail *kit.Failure) {
	out := os.Getenv("VERIF_OUT")
	if out == "" {
		return
	}
	path := out
	if part != "" {
		path = out + "." + part
	}
	sf := map[string]any{}
	if b, err := os.ReadFile(path); err == nil {
		_ = json.Unmarshal(b, &sf)
	}
	if len(sf) == 0 {
		sf = map[string]any{"prop": prop, "part": part, "evaluations": 0, "nontrivial_hashes": []string{},
			"classes": map[string]int{}, "excluded": map[string]int{}, "samples": []any{}, "notes": []string{}, "extra": map[string]any{}, "wall_s": 0}
	}
	vs, _ := sf["violations"].([]any)
	sf["violations"] = append(vs, map[string]any{"replay": replay, "kind": fail.Kind, "msg": fail.Msg})
	sf["done"] = true
	if b, err := json.Marshal(sf); err == nil {
		_ = os.WriteFile(path, b, 0o644)
	}
}

// setInflight records the case that is about to run so that the supervisor can
// attribute a process death to it.
func setInflight(part, kind, name string, c any) {
	path := os.Getenv(inflightEnv)
	if path == "" {
		return
	}
	raw, err := json.Marshal(c)
	if err != nil {
		return
	}
	b, _ := json.Marshal(inflightFile{Part: part, Kind: kind, Name: name, Case: raw})
	tmp := path + ".tmp"
	if os.WriteFile(tmp, b, 0o644) == nil {
		_ = os.Rename(tmp, path)
	}
}

func hashOf(c any) uint64 {
	b, _ := json.Marshal(c)
	h := fnv.New64a()
	_, _ = h.Write(b)
	return h.Sum64()
}

// publisherGoroutines counts goroutines running the batch publisher loop.
func publisherGoroutines() int {
	buf := make([]byte, 1<<18)
	for {
		n := runtime.Stack(buf, true)
		if n < len(buf) {
			buf = buf[:n]
			break
		}
		buf = make([]byte, 2*len(buf))
	}
	n := 0
	for _, g := range bytes.Split(buf, []byte("\n\n")) {
		if bytes.Contains(g, []byte("BatchPublisher")) && bytes.Contains(g, []byte(").processLoop")) {
			n++
		}
	}
	return n
}

// waitNoPublishers polls until no batch-publisher goroutine is left.
func waitNoPublishers(limit time.Duration) int {
	deadline := time.Now().Add(limit)
	for {
		n := publisherGoroutines()
		if n == 0 || time.Now().After(deadline) {
			return n
		}
		time.Sleep(3 * time.Millisecond)
	}
}

// waitCap is the bound after which a missing notification counts as "never
// told". It is far above anything the documented batching can cause with the
// generated number of stalled consumers (see SPEC.py.txt).
const waitCap = 8 * time.Second

// lagWatch measures how late a 1 ms sleeper wakes up. It is not an oracle: a
// case in which the process itself was starved of CPU for longer than the
// guard cannot tell a stalled consumer from a draining one, so a "never told"
// verdict of such a case is counted as inconclusive instead of reported.
type lagWatch struct {
	max  atomic.Int64
	stop chan struct{}
	done chan struct{}
}

const lagGuard = 40 * time.Millisecond

func startLagWatch() *lagWatch {
	lw := &lagWatch{stop: make(chan struct{}), done: make(chan struct{})}
	go func() {
		defer close(lw.done)
		for {
			select {
			case <-lw.stop:
				return
			default:
			}
			t0 := time.Now()
			time.Sleep(time.Millisecond)
			if lag := int64(time.Since(t0) - time.Millisecond); lag > lw.max.Load() {
				lw.max.Store(lag)
			}
		}
	}()
	return lw
}

func (lw *lagWatch) starved() bool { return forceStarved || time.Duration(lw.max.Load()) >= lagGuard }

// forceStarved (C17_FORCE_STARVED=1) makes every case count as starved: a
// testing aid for the attribution path of an overloaded machine (refute).
var forceStarved = os.Getenv("C17_FORCE_STARVED") != ""

func (lw *lagWatch) close() {
	close(lw.stop)
	<-lw.done
}

func spin(n int) {
	var x uint32
	for i := 0; i < n; i++ {
		x = x*1664525 + 1013904223
	}
	spinSink.Store(x)
}

var spinSink atomic.Uint32

// pause is the interleaving jitter between steps; the code comes from the
// rapid-drawn case.
func pause(code int) {
	switch code & 7 {
	case 0:
	case 1:
		runtime.Gosched()
	case 2:
		for i := 0; i < 3; i++ {
			runtime.Gosched()
		}
	case 3:
		spin(300)
	case 4:
		time.Sleep(20 * time.Microsecond)
	case 5:
		time.Sleep(100 * time.Microsecond)
	case 6:
		time.Sleep(500 * time.Microsecond)
	case 7:
		time.Sleep(2 * time.Millisecond)
	}
}

func TestReplay(t *testing.T) {
	kit.Replay(t, map[string]kit.Replayer{
		"script":    replayScript,
		"race":      replayRace,
		"churn":     replayChurn,
		"readysend": replayReadySend,
	})
}
