package c09

import (
	"encoding/base64"
	"fmt"
	"os"
	"strings"
	"testing"

	"google.golang.org/protobuf/proto"

	"verifharness/kit"
	"verifharness/stats"
)

// Native fuzz targets (thorough tier): coverage-guided byte-level fuzzing of
// each decoder, seeded with the harvested valid messages. The oracle is the
// same as in TestC09Mutants (no panic; if the input decodes, re-encoding does
// not panic either; no run-away decoding).

func isFuzzWorker() bool {
	for _, a := range os.Args {
		if strings.HasPrefix(a, "-test.fuzzworker") {
			return true
		}
	}
	return false
}

func fuzzDecoder(f *testing.F, name string, seeds func(c *corpus) [][]byte, maxLen int) {
	cp := harvest()
	n := 0
	for _, b := range seeds(cp) {
		if len(b) > 0 && len(b) <= maxLen {
			f.Add(b)
			n++
		}
	}
	f.Add([]byte{})
	if n == 0 {
		fmt.Printf("HARNESS-ERROR property=C09 no seeds for %s\n", name)
		f.FailNow()
	}
	var col *stats.Collector
	if !isFuzzWorker() {
		// the coordinator runs the seed corpus in-process; the executions of
		// the workers are reported by the fuzzing engine in the log
		col = stats.New("C09", "fuzz-"+name)
		col.SetExtra("fuzz_seeds_"+name, n)
		defer col.Flush(true)
	}
	f.Fuzz(func(t *testing.T, data []byte) {
		if len(data) > maxLen {
			return
		}
		v := runWithTimeout(name, data)
		if col != nil {
			col.Record(hash64([]byte(name), data), v.reached, map[string]int{"decoder:" + name: 1, "fuzz_seed_corpus": 1}, nil)
		}
		fail := failureOf(name, v)
		if fail == nil {
			return
		}
		in := hostileInput{Decoder: name, Input: base64.StdEncoding.EncodeToString(data), Note: "native fuzzing"}
		path := kit.WriteReplay("C09", "hostile", fmt.Sprintf("fuzz-%s-%016x", name, hash64([]byte(name), data)), in, fail, nil)
		vc := col
		if vc == nil {
			vc = stats.New("C09", fmt.Sprintf("fuzz-%s-w%d", name, os.Getpid()))
		}
		vc.AddViolation(stats.Violation{Replay: path, Kind: fail.Kind, Msg: fail.Msg})
		vc.Flush(true)
		t.Fatalf("VIOLATION-FOUND property=C09 replay=%s kind=%s\n  failure: %s", path, fail.Kind, fail.Error())
	})
}

func marshalAll[M proto.Message](ms []M) [][]byte {
	var out [][]byte
	for _, m := range ms {
		if b, err := detMarshal.Marshal(m); err == nil {
			out = append(out, b)
		}
	}
	return out
}

func FuzzC09FromChangePack(f *testing.F) {
	fuzzDecoder(f, "FromChangePack", func(c *corpus) [][]byte { return marshalAll(c.packs) }, maxInput)
}

func FuzzC09BytesToSnapshot(f *testing.F) {
	fuzzDecoder(f, "BytesToSnapshot", func(c *corpus) [][]byte { return marshalAll(c.snaps) }, maxInput)
}

func FuzzC09BytesToObject(f *testing.F) {
	fuzzDecoder(f, "BytesToObject", func(c *corpus) [][]byte { return marshalAll(c.elems) }, maxInput)
}

func FuzzC09BytesToArray(f *testing.F) {
	fuzzDecoder(f, "BytesToArray", func(c *corpus) [][]byte { return marshalAll(c.elems) }, maxInput)
}

func FuzzC09BytesToTree(f *testing.F) {
	fuzzDecoder(f, "BytesToTree", func(c *corpus) [][]byte { return marshalAll(c.elems) }, maxInput)
}

func FuzzC09VersionVectorFromBytes(f *testing.F) {
	fuzzDecoder(f, "VersionVectorFromBytes", func(c *corpus) [][]byte { return c.vvs }, maxInput)
}

func FuzzC09DecompressSnapshot(f *testing.F) {
	// inputs are capped at 4 KiB here: a valid zstd stream expands by up to
	// 128 KiB per 4 input bytes, which is load, not a defect
	fuzzDecoder(f, "DecompressSnapshot", func(c *corpus) [][]byte { return c.zsnaps }, 4<<10)
}

func FuzzC09ChangeInfoToChange(f *testing.F) {
	fuzzDecoder(f, "ChangeInfoToChange", func(c *corpus) [][]byte {
		var out [][]byte
		for _, ch := range c.changes {
			var ops [][]byte
			for _, op := range ch.Operations {
				if b, err := detMarshal.Marshal(op); err == nil {
					ops = append(ops, b)
				}
			}
			out = append(out, frameInfo(ch.Message, ops))
		}
		return out
	}, maxInput)
}
