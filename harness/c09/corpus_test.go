package c09

import (
	"encoding/binary"
	"sync"

	"google.golang.org/protobuf/proto"

	"github.com/yorkie-team/yorkie/api/converter"
	api "github.com/yorkie-team/yorkie/api/yorkie/v1"
	"github.com/yorkie-team/yorkie/pkg/document"
	"github.com/yorkie-team/yorkie/server/backend/database"

	"verifharness/kit"
)

// corpus holds valid messages harvested from wire-world histories; they are
// the seeds of the structured mutator and of the native fuzz targets.
type corpus struct {
	packs   []*api.ChangePack
	snaps   []*api.Snapshot
	elems   []*api.JSONElement
	changes []*api.Change // stored rows: id + operations (ChangeInfo seeds)
	vvs     [][]byte
	zsnaps  [][]byte
	seen    map[uint64]bool
}

const corpusCap = 400

var detMarshal = proto.MarshalOptions{Deterministic: true}

func (c *corpus) fresh(kind string, b []byte) bool {
	h := hash64([]byte(kind), b)
	if c.seen[h] {
		return false
	}
	c.seen[h] = true
	return true
}

func (c *corpus) add(m proto.Message) {
	b, err := detMarshal.Marshal(m)
	if err != nil || len(b) == 0 || len(b) > maxInput/2 {
		return
	}
	switch v := m.(type) {
	case *api.ChangePack:
		if len(c.packs) < corpusCap && (len(v.Changes) > 0 || len(v.Snapshot) > 0) && c.fresh("pack", b) {
			c.packs = append(c.packs, proto.Clone(v).(*api.ChangePack))
		}
	case *api.Snapshot:
		if len(c.snaps) < corpusCap && c.fresh("snap", b) {
			c.snaps = append(c.snaps, proto.Clone(v).(*api.Snapshot))
		}
	case *api.JSONElement:
		if len(c.elems) < corpusCap && c.fresh("elem", b) {
			c.elems = append(c.elems, proto.Clone(v).(*api.JSONElement))
		}
	}
}

func (c *corpus) addBytes(kind string, b []byte) {
	if len(b) == 0 || len(b) > maxInput/2 || !c.fresh(kind, b) {
		return
	}
	cp := append([]byte(nil), b...)
	switch kind {
	case "vv":
		if len(c.vvs) < corpusCap {
			c.vvs = append(c.vvs, cp)
		}
	case "zsnap":
		if len(c.zsnaps) < corpusCap {
			c.zsnaps = append(c.zsnaps, cp)
		}
	}
}

// addInfo keeps a stored row as an api.Change (id + decoded operations).
func (c *corpus) addInfo(info *database.ChangeInfo) {
	if len(c.changes) >= corpusCap || len(info.Operations) == 0 {
		return
	}
	ch := &api.Change{Id: &api.ChangeID{ClientSeq: info.ClientSeq, Lamport: info.Lamport}, Message: info.ActorID.String()}
	for _, ob := range info.Operations {
		op := &api.Operation{}
		if proto.Unmarshal(ob, op) != nil {
			return
		}
		ch.Operations = append(ch.Operations, op)
	}
	if b, err := detMarshal.Marshal(ch); err == nil && c.fresh("change", b) {
		c.changes = append(c.changes, ch)
	}
}

// harvestDoc keeps the encoded elements of a server document (the inputs of
// BytesToObject / BytesToArray / BytesToTree).
func (c *corpus) harvestDoc(doc *document.InternalDocument) {
	b, err := converter.ObjectToBytes(doc.RootObject())
	if err != nil {
		return
	}
	root := &api.JSONElement{}
	if proto.Unmarshal(b, root) != nil {
		return
	}
	c.add(root)
	for _, n := range root.GetJsonObject().GetNodes() {
		if n.Element != nil {
			c.add(n.Element)
		}
	}
}

func (c *corpus) size() int {
	return len(c.packs) + len(c.snaps) + len(c.elems) + len(c.changes) + len(c.vvs) + len(c.zsnaps)
}

var (
	corpusOnce sync.Once
	theCorpus  *corpus
)

// harvest builds the corpus deterministically: wire-world runs of cases drawn
// from the round-trip generator with explicit seeds derived from VERIF_SEED.
func harvest() *corpus {
	corpusOnce.Do(func() {
		c := &corpus{seen: map[uint64]bool{}}
		gen := genCase()
		n := kit.Pick(60, 150)
		for i := 0; i < n; i++ {
			cs := gen.Example(kit.Seed()*100003 + i)
			ob := &observer{classes: map[string]int{}, corpus: c}
			_, _ = runCase(cs, ob)
		}
		theCorpus = c
	})
	return theCorpus
}

// ---- framing of a stored row as one byte string (ChangeInfo.ToChange input)

// frameInfo renders (actor hex, operation byte strings) as
// uvarint(len) bytes ... ; the first segment is the actor id text.
func frameInfo(actor string, ops [][]byte) []byte {
	var out []byte
	put := func(b []byte) {
		out = binary.AppendUvarint(out, uint64(len(b)))
		out = append(out, b...)
	}
	put([]byte(actor))
	for _, o := range ops {
		put(o)
	}
	return out
}

// unframeInfo is total: a broken length takes the rest of the input.
func unframeInfo(b []byte) (string, [][]byte) {
	var segs [][]byte
	for len(b) > 0 {
		n, k := binary.Uvarint(b)
		if k <= 0 {
			segs = append(segs, b)
			break
		}
		b = b[k:]
		if n > uint64(len(b)) {
			n = uint64(len(b))
		}
		segs = append(segs, b[:n])
		b = b[n:]
	}
	if len(segs) == 0 {
		return "", nil
	}
	return string(segs[0]), segs[1:]
}
