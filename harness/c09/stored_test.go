package c09

import (
	"context"
	"fmt"
	"testing"

	"pgregory.net/rapid"

	"github.com/yorkie-team/yorkie/api/converter"
	"github.com/yorkie-team/yorkie/api/types"
	"github.com/yorkie-team/yorkie/pkg/document"
	"github.com/yorkie-team/yorkie/pkg/document/change"
	"github.com/yorkie-team/yorkie/pkg/document/json"
	"github.com/yorkie-team/yorkie/pkg/document/presence"
	"github.com/yorkie-team/yorkie/server/backend/database"
	"github.com/yorkie-team/yorkie/server/backend/database/memory"

	"verifharness/kit"
	"verifharness/stats"
)

// Stored snapshots: what the (in-memory) database hands back for a snapshot it
// was given is the snapshot - for every size, in particular on both sides of
// database.SnapshotBodyThreshold, above which the compressed bytes are kept in
// a separate table.

// StoredCase is one generated case.
type StoredCase struct {
	Class int    `json:"class"` // size class of the incompressible payload
	Delta int    `json:"delta"` // fine adjustment of the size
	Seed  uint32 `json:"seed"`  // payload bytes are an xorshift stream of this value
	Text  bool   `json:"text"`  // also hold a small text and array
	Seq   int    `json:"seq"`   // serverSeq the snapshot is stored at (1..5)
}

func storedPayload(c StoredCase) []byte {
	th := database.SnapshotBodyThreshold
	sizes := []int{0, 1, 4 << 10, 512 << 10, th - (64 << 10), th + (64 << 10), th + (1 << 20)}
	n := sizes[c.Class%len(sizes)] + c.Delta
	if n < 0 {
		n = 0
	}
	b := make([]byte, n)
	x := c.Seed | 1
	for i := range b {
		x ^= x << 13
		x ^= x >> 17
		x ^= x << 5
		b[i] = byte(x)
	}
	return b
}

func evalStored(c StoredCase) (*kit.Failure, map[string]int) {
	ev := map[string]int{}
	ctx := context.Background()
	db, err := memory.New()
	if err != nil {
		return kit.Failf("HARNESS", "memory.New: %v", err), ev
	}
	defer func() { _ = db.Close() }()
	payload := storedPayload(c)
	d := document.New("stored")
	if err := d.Update(func(r *json.Object, p *presence.Presence) error {
		r.SetBytes("blob", payload)
		if c.Text {
			r.SetNewText("t").Edit(0, 0, "héllo 😀")
			r.SetNewArray("a").AddInteger(1).AddInteger(2)
		}
		return nil
	}); err != nil {
		return kit.Failf("HARNESS", "update: %v", err), ev
	}
	seq := int64(1 + c.Seq%5)
	in := document.NewInternalDocument("stored")
	pack := d.CreateChangePack()
	if err := in.ApplyChangePack(change.NewPack(pack.DocumentKey, change.InitialCheckpoint.NextServerSeq(seq), pack.Changes, nil, nil), true); err != nil {
		return kit.Failf("HARNESS", "apply: %v", err), ev
	}
	want, err := converter.SnapshotToBytes(in.RootObject(), in.AllPresences())
	if err != nil {
		return kit.Failf("HARNESS", "SnapshotToBytes: %v", err), ev
	}
	ref := types.DocRefKey{ProjectID: types.ID("000000000000000000000001"), DocID: types.ID("000000000000000000000002")}
	if err := db.CreateSnapshotInfo(ctx, ref, in); err != nil {
		return kit.Failf("STORE-ERROR", "CreateSnapshotInfo of a %d byte document: %v", len(want), err), ev
	}
	compressed, _ := database.CompressSnapshot(want)
	if len(compressed) > database.SnapshotBodyThreshold {
		ev["stored_out_of_line"] = 1
	} else {
		ev["stored_inline"] = 1
	}
	ev[fmt.Sprintf("size_class_%d", c.Class%7)] = 1
	check := func(how string, info *database.SnapshotInfo, err error) *kit.Failure {
		if err != nil {
			return kit.Failf("STORED-SNAPSHOT-READ-ERROR", "%s of a stored snapshot (%d bytes, compressed %d): %v", how, len(want), len(compressed), err)
		}
		if info == nil || info.ServerSeq != seq {
			return kit.Failf("STORED-SNAPSHOT-LOST", "%s does not return the snapshot stored at serverSeq %d (got %+v)", how, seq, info != nil)
		}
		// (the bytes are not compared: SnapshotToBytes is not deterministic,
		// protobuf map fields are written in Go map order)
		got, derr := document.NewInternalDocumentFromSnapshot("stored", seq, in.Lamport(), in.VersionVector().DeepCopy(), info.Snapshot)
		if derr != nil {
			return kit.Failf("STORED-SNAPSHOT-DIFF", "%s returns %d bytes that do not decode (snapshot of %d bytes, compressed %d, threshold %d): %v",
				how, len(info.Snapshot), len(want), len(compressed), database.SnapshotBodyThreshold, derr)
		}
		if a, b := got.Marshal(), in.Marshal(); a != b || len(info.Snapshot) != len(want) {
			if len(a) > 200 {
				a = a[:200] + "..."
			}
			return kit.Failf("STORED-SNAPSHOT-DIFF", "%s returns %d bytes for a snapshot of %d bytes (compressed %d, threshold %d); decoded content differs from the stored document: %s",
				how, len(info.Snapshot), len(want), len(compressed), database.SnapshotBodyThreshold, a)
		}
		return nil
	}
	info, err := db.FindSnapshotInfo(ctx, ref, seq)
	if f := check("FindSnapshotInfo", info, err); f != nil {
		return f, ev
	}
	info, err = db.FindClosestSnapshotInfo(ctx, ref, seq+3, true)
	if f := check("FindClosestSnapshotInfo", info, err); f != nil {
		return f, ev
	}
	return nil, ev
}

func TestC09Stored(t *testing.T) {
	col := stats.New("C09", "stored")
	defer col.Flush(true)
	rapid.Check(t, func(rt *rapid.T) {
		c := StoredCase{
			Class: rapid.IntRange(0, 6).Draw(rt, "class"),
			Delta: rapid.IntRange(-3, 3).Draw(rt, "delta"),
			Seed:  rapid.Uint32().Draw(rt, "seed"),
			Text:  rapid.Bool().Draw(rt, "text"),
			Seq:   rapid.IntRange(0, 4).Draw(rt, "seq"),
		}
		fail, ev := evalStored(c)
		col.Record(hash64([]byte(fmt.Sprintf("%+v", c)), nil), fail == nil && ev["stored_out_of_line"] > 0, ev, func() any { return c })
		if fail != nil {
			if fail.Kind == "HARNESS" {
				fmt.Printf("HARNESS-ERROR property=C09 %s\n", fail.Msg)
				rt.Fatalf("harness: %s", fail.Msg)
			}
			path := kit.WriteReplay("C09", "stored", fmt.Sprintf("stored-%d-%d-%d", c.Class, c.Delta, c.Seed), c, fail, nil)
			col.AddViolation(stats.Violation{Replay: path, Kind: fail.Kind, Msg: fail.Msg})
			kit.ReportViolation("C09", path, fail)
			rt.Fatalf("%s", fail.Error())
		}
	})
}
