package c09

import (
	"encoding/base64"
	"encoding/binary"
	gojson "encoding/json"
	"fmt"
	"os"
	"os/exec"
	"path/filepath"
	"runtime/debug"
	"sort"
	"strings"
	"sync"
	"sync/atomic"
	"testing"
	gotime "time"

	"google.golang.org/protobuf/proto"
	"pgregory.net/rapid"

	"github.com/yorkie-team/yorkie/api/converter"
	"github.com/yorkie-team/yorkie/api/types"
	api "github.com/yorkie-team/yorkie/api/yorkie/v1"
	"github.com/yorkie-team/yorkie/pkg/document/change"
	"github.com/yorkie-team/yorkie/pkg/document/time"
	"github.com/yorkie-team/yorkie/server/backend/database"

	"verifharness/kit"
	"verifharness/stats"
)

const (
	maxInput    = 64 << 10 // hostile inputs are capped at 64 KiB
	watchdogSec = 10
	// A compressed snapshot of at most 64 KiB cannot legitimately expand
	// beyond this; frames that declare more trigger finding F40.
	hugeDeclared = 256 << 20
	findingZstd  = "F40"
)

// verdict of one decoder run.
type verdict struct {
	accepted bool   // the decoder returned a value
	reached  bool   // the input passed the outer syntax (proto.Unmarshal / header) and reached the shape checks
	errClass string // first words of the error
	panicked string // recovered panic (with stage)
	stack    string
	excluded string // not executed: trigger of a listed known finding
	crashed  string // child process died (fatal error)
	viaChild bool
	overrun  bool
}

type decoder func(b []byte, v *verdict)

var decoderNames = []string{"FromChangePack", "BytesToSnapshot", "BytesToObject", "BytesToArray", "BytesToTree",
	"VersionVectorFromBytes", "DecompressSnapshot", "ChangeInfoToChange"}

var decoders = map[string]decoder{
	"FromChangePack": func(b []byte, v *verdict) {
		pb := &api.ChangePack{}
		if err := proto.Unmarshal(b, pb); err != nil {
			v.errClass = "proto.Unmarshal"
			return
		}
		v.reached = true
		pack, err := converter.FromChangePack(pb)
		if err != nil {
			v.errClass = errClass(err)
			return
		}
		v.accepted = true
		stage(v, "re-encode ToChangePack", func() { _, _ = converter.ToChangePack(pack) })
		// the server stores what it accepted
		stage(v, "re-encode NewFromChange", func() {
			for _, c := range pack.Changes {
				_, _ = database.NewFromChange(refKey, c)
			}
		})
		if len(pack.Snapshot) > 0 {
			// a client decodes the snapshot carried by a pack it accepted
			stage(v, "BytesToSnapshot(pack.Snapshot)", func() { _, _, _ = converter.BytesToSnapshot(pack.Snapshot) })
		}
	},
	"BytesToSnapshot": func(b []byte, v *verdict) {
		v.reached = proto.Unmarshal(b, &api.Snapshot{}) == nil
		obj, pres, err := converter.BytesToSnapshot(b)
		if err != nil {
			v.errClass = errClass(err)
			return
		}
		v.accepted = true
		stage(v, "re-encode SnapshotToBytes", func() { _, _ = converter.SnapshotToBytes(obj, pres.ToMap()) })
	},
	"BytesToObject": func(b []byte, v *verdict) {
		v.reached = len(b) > 0 && proto.Unmarshal(b, &api.JSONElement{}) == nil
		obj, err := converter.BytesToObject(b)
		if err != nil {
			v.errClass = errClass(err)
			return
		}
		v.accepted = true
		stage(v, "re-encode ObjectToBytes", func() { _, _ = converter.ObjectToBytes(obj) })
	},
	"BytesToArray": func(b []byte, v *verdict) {
		v.reached = len(b) > 0 && proto.Unmarshal(b, &api.JSONElement{}) == nil
		arr, err := converter.BytesToArray(b)
		if err != nil {
			v.errClass = errClass(err)
			return
		}
		v.accepted = true
		stage(v, "re-encode ArrayToBytes", func() { _, _ = converter.ArrayToBytes(arr) })
	},
	"BytesToTree": func(b []byte, v *verdict) {
		v.reached = len(b) > 0 && proto.Unmarshal(b, &api.JSONElement{}) == nil
		tr, err := converter.BytesToTree(b)
		if err != nil {
			v.errClass = errClass(err)
			return
		}
		v.accepted = true
		stage(v, "re-encode TreeToBytes", func() { _, _ = converter.TreeToBytes(tr) })
	},
	"VersionVectorFromBytes": func(b []byte, v *verdict) {
		v.reached = len(b) >= 8
		vv, err := time.VersionVectorFromBytes(b)
		if err != nil {
			v.errClass = errClass(err)
			return
		}
		v.accepted = true
		stage(v, "re-encode VersionVector.Bytes", func() { _, _ = vv.Bytes() })
	},
	"DecompressSnapshot": func(b []byte, v *verdict) {
		v.reached = len(b) > 0 && b[0] == database.SnapshotFormatZstd
		out, err := database.DecompressSnapshot(b)
		if err != nil {
			v.errClass = errClass(err)
			return
		}
		v.accepted = true
		// what the server does next with a stored snapshot
		stage(v, "BytesToSnapshot(decompressed)", func() { _, _, _ = converter.BytesToSnapshot(out) })
	},
	"ChangeInfoToChange": func(b []byte, v *verdict) {
		actor, ops := unframeInfo(b)
		info := &database.ChangeInfo{ActorID: types.ID(actor), ClientSeq: 1, ServerSeq: 1, Lamport: 1, Operations: ops}
		for _, o := range ops {
			if proto.Unmarshal(o, &api.Operation{}) == nil {
				v.reached = true
			}
		}
		c, err := info.ToChange()
		if err != nil {
			v.errClass = errClass(err)
			return
		}
		v.accepted = true
		stage(v, "re-encode NewFromChange", func() { _, _ = database.NewFromChange(refKey, c) })
		stage(v, "re-encode ToChanges", func() { _, _ = converter.ToChanges([]*change.Change{c}) })
	},
}

func errClass(err error) string {
	s := err.Error()
	if i := strings.LastIndex(s, ": "); i >= 0 {
		s = s[i+2:]
	}
	var sb strings.Builder
	for _, r := range s {
		if (r >= 'a' && r <= 'z') || (r >= 'A' && r <= 'Z') || r == ' ' {
			sb.WriteRune(r)
		}
		if sb.Len() >= 40 {
			break
		}
	}
	s = strings.TrimSpace(sb.String())
	if len(strings.Fields(s)) < 2 {
		// a bare token is user data (a key, an id), not a message
		if i := strings.Index(err.Error(), ": "); i > 0 {
			return strings.TrimSpace(err.Error()[:min(i, 40)])
		}
		return "other"
	}
	return s
}

// stage runs a follow-up step on an accepted value; a panic there is
// reported with the stage name.
func stage(v *verdict, name string, f func()) {
	defer func() {
		if r := recover(); r != nil && v.panicked == "" {
			v.panicked = fmt.Sprintf("%s: %v", name, r)
			v.stack = string(debug.Stack())
		}
	}()
	f()
}

// declaredHuge reports whether the input contains a zstd frame header that
// declares a content size above hugeDeclared (the decoder allocates the
// declared size up front).
func declaredHuge(b []byte) (uint64, bool) {
	var worst uint64
	for i := 0; i+5 < len(b); i++ {
		if b[i] != 0x28 || b[i+1] != 0xB5 || b[i+2] != 0x2F || b[i+3] != 0xFD {
			continue
		}
		fhd := b[i+4]
		p := i + 5
		single := fhd&0x20 != 0
		if !single {
			p++ // window descriptor
		}
		p += []int{0, 1, 2, 4}[fhd&3] // dictionary id
		var size uint64
		switch fhd >> 6 {
		case 0:
			if single && p < len(b) {
				size = uint64(b[p])
			}
		case 1:
			if p+2 <= len(b) {
				size = uint64(binary.LittleEndian.Uint16(b[p:])) + 256
			}
		case 2:
			if p+4 <= len(b) {
				size = uint64(binary.LittleEndian.Uint32(b[p:]))
			}
		case 3:
			if p+8 <= len(b) {
				size = binary.LittleEndian.Uint64(b[p:])
			} else if p < len(b) {
				// truncated field: assume the worst
				size = 1 << 62
			}
		}
		worst = max(worst, size)
	}
	return worst, worst > hugeDeclared
}

// ---- watchdog: a per-input guard against run-away decoding

type wdState struct {
	name  string
	input []byte
	start gotime.Time
}

var (
	wdCur     atomic.Pointer[wdState]
	wdOnce    sync.Once
	wdSuspect atomic.Pointer[wdState]
)

func startWatchdog(onSuspect func(s *wdState)) {
	wdOnce.Do(func() {
		go func() {
			var reported *wdState
			for {
				gotime.Sleep(500 * gotime.Millisecond)
				s := wdCur.Load()
				if s != nil && s != reported && gotime.Since(s.start) > watchdogSec*gotime.Second {
					reported = s
					wdSuspect.Store(s)
					onSuspect(s)
				}
			}
		}()
	})
}

// runWithTimeout runs a decoder in its own goroutine; it reports an overrun
// instead of waiting forever (used for replays and for re-checking suspects).
func runWithTimeout(name string, b []byte) verdict {
	done := make(chan verdict, 1)
	go func() { done <- runDecoder(name, b, false) }()
	select {
	case v := <-done:
		return v
	case <-gotime.After(watchdogSec * gotime.Second):
		return verdict{overrun: true}
	}
}

// runDecoder feeds one input to one decoder; panics are recovered.
func runDecoder(name string, b []byte, watched bool) (v verdict) {
	if len(b) > maxInput {
		b = b[:maxInput]
	}
	if name == "DecompressSnapshot" {
		if size, huge := declaredHuge(b); huge {
			// F40 (no decoder memory cap: an 18-byte frame declaring 64 GiB
			// killed the process) is repaired; such frames are executed, in a
			// child process so that a regression ends the child, not the shard.
			return runInChild(name, b, size)
		}
	}
	if watched {
		wdCur.Store(&wdState{name: name, input: b, start: gotime.Now()})
		defer wdCur.Store(nil)
	}
	defer func() {
		if r := recover(); r != nil {
			v.panicked = fmt.Sprintf("%s: %v", name, r)
			v.stack = string(debug.Stack())
		}
	}()
	decoders[name](b, &v)
	return v
}

// runInChild executes a decoder in a child process: an allocation the size a
// hostile frame declares can end the process with a fatal error that no
// recover() sees.
func runInChild(name string, b []byte, size uint64) (v verdict) {
	v.viaChild, v.reached = true, true
	dir, err := os.MkdirTemp("", "c09child")
	if err != nil {
		v.errClass = "HARNESS mkdir"
		return v
	}
	defer os.RemoveAll(dir)
	in := filepath.Join(dir, "input")
	if err := os.WriteFile(in, b, 0o644); err != nil {
		v.errClass = "HARNESS write"
		return v
	}
	cmd := exec.Command(os.Args[0], "-test.run", "^TestC09Child$", "-test.timeout", "60s")
	cmd.Env = append(os.Environ(), "C09_CHILD_DECODER="+name, "C09_CHILD_INPUT="+in, "VERIF_OUT=", "VERIF_NO_EXCLUSIONS=")
	out, err := cmd.CombinedOutput()
	s := string(out)
	switch {
	case strings.Contains(s, "C09-CHILD-RESULT"):
		v.accepted = strings.Contains(s, "C09-CHILD-RESULT accepted")
		if strings.Contains(s, "C09-CHILD-RESULT panic") {
			v.panicked = firstLine(s[strings.Index(s, "C09-CHILD-RESULT panic"):])
		}
	case err != nil:
		l := firstLine(s)
		if i := strings.Index(s, "fatal error:"); i >= 0 {
			l = firstLine(s[i:])
		}
		v.crashed = fmt.Sprintf("process died (%v) decoding a %d-byte input that declares %d bytes of content: %s", err, len(b), size, l)
	}
	return v
}

// TestC09Child is the body of the child process of runInChild.
func TestC09Child(t *testing.T) {
	name, in := os.Getenv("C09_CHILD_DECODER"), os.Getenv("C09_CHILD_INPUT")
	if name == "" {
		t.Skip("not a child")
	}
	b, err := os.ReadFile(in)
	if err != nil {
		t.Fatalf("HARNESS-ERROR child input: %v", err)
	}
	var v verdict
	func() {
		defer func() {
			if r := recover(); r != nil {
				v.panicked = fmt.Sprint(r)
			}
		}()
		decoders[name](b, &v)
	}()
	switch {
	case v.panicked != "":
		fmt.Printf("C09-CHILD-RESULT panic %s\n", v.panicked)
	case v.accepted:
		fmt.Println("C09-CHILD-RESULT accepted")
	default:
		fmt.Println("C09-CHILD-RESULT rejected")
	}
}

// ---- the structured mutator

// MCase is one hostile-input case: a harvested valid message, k mutations, an
// optional truncation / bit flip of the encoded bytes, and the decoder.
type MCase struct {
	Kind  int   `json:"kind"`  // seed category (see seedKinds)
	Seed  int   `json:"seed"`  // index into the category, modulo its size
	Muts  []Mut `json:"muts"`  // protobuf-level (byte-level for vv/zsnap) mutations
	Trunc int   `json:"trunc"` // >0: truncate the encoded bytes at (Trunc-1) mod (len+1)
	Flip  int   `json:"flip"`  // >0: flip one bit of the encoded bytes
}

var seedKinds = []string{"pack", "pack", "pack", "snap", "snap", "elem", "elem", "change", "change", "vv", "zsnap"}

// hostileInput is what a case evaluates to: decoder name + input bytes.
type hostileInput struct {
	Decoder string `json:"decoder"`
	Input   string `json:"input_base64"`
	Note    string `json:"note,omitempty"`
}

func genMCase() *rapid.Generator[MCase] {
	mut := rapid.Custom(func(t *rapid.T) Mut {
		return Mut{
			Op: rapid.IntRange(0, 23).Draw(t, "op"),
			A:  rapid.IntRange(0, 1<<16).Draw(t, "a"),
			B:  rapid.IntRange(0, 1<<12).Draw(t, "b"),
			C:  rapid.IntRange(0, 1<<12).Draw(t, "c"),
		}
	})
	return rapid.Custom(func(t *rapid.T) MCase {
		c := MCase{
			Kind: rapid.IntRange(0, len(seedKinds)-1).Draw(t, "kind"),
			Seed: rapid.IntRange(0, 1<<12).Draw(t, "seed"),
			Muts: rapid.SliceOfN(mut, 1, 4).Draw(t, "muts"),
		}
		if rapid.IntRange(0, 4).Draw(t, "truncate") == 0 {
			c.Trunc = 1 + rapid.IntRange(0, 1<<16).Draw(t, "trunc")
		}
		if rapid.IntRange(0, 7).Draw(t, "flipbit") == 0 {
			c.Flip = 1 + rapid.IntRange(0, 1<<19).Draw(t, "flip")
		}
		return c
	})
}

// build turns a case into inputs: (decoder, bytes) pairs plus class labels.
func (c MCase) build(cp *corpus) (ins []hostileInput, raw [][]byte, classes map[string]int) {
	classes = map[string]int{}
	kind := seedKinds[c.Kind%len(seedKinds)]
	post := func(b []byte) []byte {
		if c.Trunc > 0 {
			b = b[:(c.Trunc-1)%(len(b)+1)]
			classes["mut:truncate_encoded"] = 1
		}
		if c.Flip > 0 && len(b) > 0 {
			b = append([]byte{}, b...)
			b[((c.Flip-1)/8)%len(b)] ^= 1 << uint((c.Flip-1)%8)
			classes["mut:bitflip_encoded"] = 1
		}
		if len(b) > maxInput {
			b = b[:maxInput]
		}
		return b
	}
	emit := func(dec string, b []byte) {
		ins = append(ins, hostileInput{Decoder: dec, Input: base64.StdEncoding.EncodeToString(b)})
		raw = append(raw, b)
	}
	mutMsg := func(m proto.Message) []byte {
		for _, mu := range c.Muts {
			classes["mut:"+mutate(m.ProtoReflect(), mu, 0)] = 1
		}
		b, err := detMarshal.Marshal(m)
		if err != nil {
			classes["marshal_error"] = 1
			b, _ = proto.MarshalOptions{Deterministic: true, AllowPartial: true}.Marshal(m)
		}
		return post(b)
	}
	switch kind {
	case "pack":
		if len(cp.packs) == 0 {
			return
		}
		emit("FromChangePack", mutMsg(proto.Clone(cp.packs[c.Seed%len(cp.packs)])))
	case "snap":
		if len(cp.snaps) == 0 {
			return
		}
		b := mutMsg(proto.Clone(cp.snaps[c.Seed%len(cp.snaps)]))
		emit("BytesToSnapshot", b)
		// the same bytes as the snapshot field of an otherwise valid pack
		if pb, err := proto.Marshal(&api.ChangePack{DocumentKey: "d", Checkpoint: &api.Checkpoint{ServerSeq: 1}, Snapshot: b}); err == nil {
			emit("FromChangePack", pb)
		}
	case "elem":
		if len(cp.elems) == 0 {
			return
		}
		b := mutMsg(proto.Clone(cp.elems[c.Seed%len(cp.elems)]))
		emit("BytesToObject", b)
		emit("BytesToArray", b)
		emit("BytesToTree", b)
	case "change":
		if len(cp.changes) == 0 {
			return
		}
		ch := proto.Clone(cp.changes[c.Seed%len(cp.changes)]).(*api.Change)
		actor := ch.Message
		ch.Message = ""
		for _, mu := range c.Muts {
			classes["mut:"+mutate(ch.ProtoReflect(), mu, 0)] = 1
		}
		if ch.Message != "" { // a mutation hit the actor text
			actor = ch.Message
		}
		var ops [][]byte
		for i, op := range ch.Operations {
			b, _ := proto.MarshalOptions{Deterministic: true, AllowPartial: true}.Marshal(op)
			if i == len(ch.Operations)-1 {
				b = post(b) // truncation / bit flip hit one stored operation
			}
			ops = append(ops, b)
		}
		emit("ChangeInfoToChange", frameInfo(actor, ops))
	case "vv", "zsnap":
		seeds, dec := cp.vvs, "VersionVectorFromBytes"
		if kind == "zsnap" {
			seeds, dec = cp.zsnaps, "DecompressSnapshot"
		}
		if len(seeds) == 0 {
			return
		}
		b := seeds[c.Seed%len(seeds)]
		for _, mu := range c.Muts {
			var name string
			b, name = mutateBytes(b, mu, kind)
			classes["mut:bytes_"+name] = 1
		}
		emit(dec, post(b))
	}
	return ins, raw, classes
}

func failureOf(dec string, v verdict) *kit.Failure {
	switch {
	case v.panicked != "":
		return kit.Failf("DECODER-PANIC", "%s panics on hostile input: %s\n%s", dec, v.panicked, trimStack(v.stack))
	case v.crashed != "":
		return kit.Failf("DECODER-CRASH", "%s: %s", dec, v.crashed)
	case v.overrun:
		return kit.Failf("DECODER-HANG", "%s did not return within %d s on an input of at most 64 KiB", dec, watchdogSec)
	}
	return nil
}

func trimStack(s string) string {
	var keep []string
	for _, l := range strings.Split(s, "\n") {
		if strings.Contains(l, "yorkie") && !strings.Contains(l, "verifharness") {
			keep = append(keep, strings.TrimSpace(l))
		}
		if len(keep) >= 8 {
			break
		}
	}
	return strings.Join(keep, "\n")
}

// TestC09Mutants: structurally mutated valid messages never crash a decoder.
func TestC09Mutants(t *testing.T) {
	col := stats.New("C09", "mutants")
	cp := harvest()
	if len(cp.packs) == 0 || len(cp.snaps) == 0 || len(cp.elems) == 0 || len(cp.changes) == 0 || len(cp.vvs) == 0 || len(cp.zsnaps) == 0 {
		fmt.Printf("HARNESS-ERROR property=C09 empty corpus: %d packs %d snapshots %d elements %d changes %d vectors %d compressed\n",
			len(cp.packs), len(cp.snaps), len(cp.elems), len(cp.changes), len(cp.vvs), len(cp.zsnaps))
		t.FailNow()
	}
	col.SetExtra("corpus_packs", len(cp.packs))
	col.SetExtra("corpus_snapshots", len(cp.snaps))
	col.SetExtra("corpus_elements", len(cp.elems))
	col.SetExtra("corpus_stored_changes", len(cp.changes))
	var best *hostileInput
	var bestFail *kit.Failure
	report := func(in hostileInput, fail *kit.Failure) {
		path := kit.WriteReplay("C09", "hostile", fmt.Sprintf("hostile-%s-%016x", in.Decoder, hash64([]byte(in.Decoder), []byte(in.Input))), in, fail, nil)
		col.AddViolation(stats.Violation{Replay: path, Kind: fail.Kind, Msg: fail.Msg})
		kit.ReportViolation("C09", path, fail)
	}
	startWatchdog(func(s *wdState) {
		// the main goroutine is stuck in a decoder: re-check on fresh
		// goroutines; only a reproducible overrun is a violation
		in := hostileInput{Decoder: s.name, Input: base64.StdEncoding.EncodeToString(s.input), Note: "watchdog suspect"}
		again := 0
		for i := 0; i < 3; i++ {
			if runWithTimeout(s.name, s.input).overrun {
				again++
			}
		}
		if again == 3 {
			report(in, failureOf(s.name, verdict{overrun: true}))
			col.Flush(true)
			os.Exit(1)
		}
		path := kit.WriteReplay("C09", "hostile", "suspect-"+s.name, in, kit.Failf("SUSPECT", "overrun not reproduced (%d/3)", again), nil)
		fmt.Printf("HARNESS-ERROR property=C09 decoder %s overran %d s once but not reproducibly (%d/3); input saved to %s\n", s.name, watchdogSec, again, path)
	})
	defer func() {
		if best != nil {
			report(*best, bestFail)
		}
		col.Flush(true)
	}()
	gen := genMCase()
	rapid.Check(t, func(rt *rapid.T) {
		c := gen.Draw(rt, "case")
		ins, raw, classes := c.build(cp)
		for i, in := range ins {
			v := runDecoder(in.Decoder, raw[i], true)
			cl := map[string]int{"decoder:" + in.Decoder: 1}
			for k := range classes {
				cl[k] = 1
			}
			switch {
			case v.excluded != "":
				cl["excluded:"+v.excluded] = 1
			case v.accepted:
				cl["outcome:accepted"] = 1
			case !v.reached:
				cl["outcome:rejected_by_outer_syntax"] = 1
			default:
				cl["outcome:rejected_by_shape_check"] = 1
				cl["reject:"+in.Decoder+":"+v.errClass] = 1
			}
			if v.viaChild {
				cl["ran_in_child_process"] = 1
			}
			fail := failureOf(in.Decoder, v)
			in := in
			col.Record(hash64([]byte(in.Decoder), raw[i]), v.reached && fail == nil && v.excluded == "", cl, func() any {
				return map[string]any{"decoder": in.Decoder, "input_base64": in.Input, "accepted": v.accepted, "error": v.errClass, "mutations": keysOf(classes)}
			})
			if fail != nil {
				if best == nil || len(in.Input) < len(best.Input) {
					best, bestFail = &in, fail
				}
				rt.Fatalf("%s", fail.Error())
			}
		}
	})
}

func keysOf(m map[string]int) []string {
	var ks []string
	for k := range m {
		ks = append(ks, k)
	}
	sort.Strings(ks)
	return ks
}

func replayHostile(raw gojson.RawMessage) *kit.Failure {
	var in hostileInput
	if err := gojson.Unmarshal(raw, &in); err != nil {
		return kit.Failf("HARNESS", "bad case: %v", err)
	}
	b, err := base64.StdEncoding.DecodeString(in.Input)
	if err != nil {
		return kit.Failf("HARNESS", "bad input: %v", err)
	}
	if _, ok := decoders[in.Decoder]; !ok {
		return kit.Failf("HARNESS", "unknown decoder %q", in.Decoder)
	}
	v := runWithTimeout(in.Decoder, b)
	if v.excluded != "" {
		fmt.Printf("input is the trigger of known finding %s; set VERIF_NO_EXCLUSIONS=1 to execute it\n", v.excluded)
	}
	return failureOf(in.Decoder, v)
}

// TestReplay re-executes a saved case without rapid.
func TestReplay(t *testing.T) {
	kit.Replay(t, map[string]kit.Replayer{
		"roundtrip": replayRoundTrip,
		"hostile":   replayHostile,
		"stored": func(raw gojson.RawMessage) *kit.Failure {
			var c StoredCase
			if err := gojson.Unmarshal(raw, &c); err != nil {
				return kit.Failf("HARNESS", "%v", err)
			}
			f, _ := evalStored(c)
			return f
		},
	})
}
