package c09

import (
	"encoding/binary"
	"math"
	"sort"
	"strings"

	"google.golang.org/protobuf/proto"
	"google.golang.org/protobuf/reflect/protoreflect"

	api "github.com/yorkie-team/yorkie/api/yorkie/v1"
)

// Mut is one protobuf-level (or byte-level) mutation with raw selectors that
// are resolved modulo whatever the message currently contains.
type Mut struct {
	Op int `json:"op"`
	A  int `json:"a"`
	B  int `json:"b"`
	C  int `json:"c"`
}

type site struct {
	m   protoreflect.Message
	fd  protoreflect.FieldDescriptor
	set bool
}

type siteSet struct {
	all, set, nested []site
	byType           map[protoreflect.FullName][]protoreflect.Message
}

func isNestedProtoBytes(m protoreflect.Message, fd protoreflect.FieldDescriptor) bool {
	if fd.Kind() != protoreflect.BytesKind || fd.IsList() || len(m.Get(fd).Bytes()) == 0 {
		return false
	}
	switch string(m.Descriptor().Name()) + "." + string(fd.Name()) {
	case "ChangePack.snapshot":
		return true
	case "JSONElementSimple.value":
		switch api.ValueType(m.Get(m.Descriptor().Fields().ByName("type")).Enum()) {
		case api.ValueType_VALUE_TYPE_JSON_OBJECT, api.ValueType_VALUE_TYPE_JSON_ARRAY, api.ValueType_VALUE_TYPE_TREE:
			return true
		}
	}
	return false
}

func collectSites(m protoreflect.Message, ss *siteSet) {
	ss.byType[m.Descriptor().FullName()] = append(ss.byType[m.Descriptor().FullName()], m)
	fds := m.Descriptor().Fields()
	for i := 0; i < fds.Len(); i++ {
		fd := fds.Get(i)
		s := site{m: m, fd: fd, set: m.Has(fd)}
		ss.all = append(ss.all, s)
		if !s.set {
			continue
		}
		ss.set = append(ss.set, s)
		if isNestedProtoBytes(m, fd) {
			ss.nested = append(ss.nested, s)
		}
		v := m.Get(fd)
		switch {
		case fd.IsList():
			if fd.Message() != nil {
				for j := 0; j < v.List().Len(); j++ {
					collectSites(v.List().Get(j).Message(), ss)
				}
			}
		case fd.IsMap():
			if fd.MapValue().Message() != nil {
				for _, k := range sortedKeys(v.Map()) {
					collectSites(v.Map().Get(k).Message(), ss)
				}
			}
		case fd.Message() != nil:
			collectSites(v.Message(), ss)
		}
	}
}

func sortedKeys(m protoreflect.Map) []protoreflect.MapKey {
	var ks []protoreflect.MapKey
	m.Range(func(k protoreflect.MapKey, _ protoreflect.Value) bool { ks = append(ks, k); return true })
	sort.Slice(ks, func(i, j int) bool { return ks[i].String() < ks[j].String() })
	return ks
}

var mutNames = []string{"clear", "empty_msg", "donor_msg", "oneof_swap", "list_drop", "list_dup", "list_swap",
	"map_edit", "scalar_extreme", "scalar_extreme", "nested_bytes", "nested_bytes"}

// mutate applies one mutation to the message tree and returns its class name.
func mutate(root protoreflect.Message, mu Mut, depth int) string {
	ss := &siteSet{byType: map[protoreflect.FullName][]protoreflect.Message{}}
	collectSites(root, ss)
	op := mutNames[mu.Op%len(mutNames)]
	if op == "nested_bytes" {
		if len(ss.nested) > 0 && depth < 3 {
			s := ss.nested[mu.A%len(ss.nested)]
			var inner proto.Message = &api.JSONElement{}
			if s.fd.Name() == "snapshot" {
				inner = &api.Snapshot{}
			}
			if proto.Unmarshal(s.m.Get(s.fd).Bytes(), inner) == nil {
				name := mutate(inner.ProtoReflect(), Mut{Op: mu.B, A: mu.C, B: mu.A / 7, C: mu.B / 3}, depth+1)
				if b, err := detMarshal.Marshal(inner); err == nil {
					s.m.Set(s.fd, protoreflect.ValueOfBytes(b))
				}
				return "nested:" + name
			}
		}
		op = "scalar_extreme"
	}
	// choose a site that fits the operation, falling back to any set site
	fits := func(s site) bool {
		switch op {
		case "clear":
			return s.set
		case "empty_msg", "donor_msg":
			return s.fd.Message() != nil && !s.fd.IsList() && !s.fd.IsMap()
		case "oneof_swap":
			return s.set && s.fd.ContainingOneof() != nil
		case "list_drop", "list_dup", "list_swap":
			return s.fd.IsList() && s.set
		case "map_edit":
			return s.fd.IsMap()
		case "scalar_extreme":
			return s.fd.Message() == nil && !s.fd.IsMap()
		}
		return false
	}
	var cand []site
	for _, s := range ss.all {
		if fits(s) && (s.set || mu.A%4 == 0) {
			cand = append(cand, s)
		}
	}
	if len(cand) == 0 {
		for _, s := range ss.set {
			cand = append(cand, s)
		}
		op = "clear"
	}
	if len(cand) == 0 {
		return "none"
	}
	s := cand[(mu.A/4)%len(cand)]
	m, fd := s.m, s.fd
	donor := func(md protoreflect.MessageDescriptor) protoreflect.Message {
		if l := ss.byType[md.FullName()]; len(l) > 0 && mu.C%3 != 0 {
			return proto.Clone(l[mu.C%len(l)].Interface()).ProtoReflect()
		}
		return nil
	}
	switch op {
	case "clear":
		m.Clear(fd)
	case "empty_msg":
		m.Set(fd, m.NewField(fd))
	case "donor_msg":
		if d := donor(fd.Message()); d != nil {
			m.Set(fd, protoreflect.ValueOfMessage(d))
		} else {
			m.Set(fd, m.NewField(fd))
		}
	case "oneof_swap":
		od := fd.ContainingOneof()
		other := od.Fields().Get(mu.B % od.Fields().Len())
		m.Clear(fd)
		if other.Message() != nil {
			if d := donor(other.Message()); d != nil {
				m.Set(other, protoreflect.ValueOfMessage(d))
			} else {
				m.Set(other, m.NewField(other))
			}
		} else {
			m.Set(other, other.Default())
		}
	case "list_drop", "list_dup", "list_swap":
		l := m.Mutable(fd).List()
		n := l.Len()
		if n == 0 {
			return op
		}
		items := make([]protoreflect.Value, n)
		for i := range items {
			items[i] = l.Get(i)
		}
		i, j := mu.B%n, mu.C%n
		cloneItem := func(v protoreflect.Value) protoreflect.Value {
			if fd.Message() != nil {
				return protoreflect.ValueOfMessage(proto.Clone(v.Message().Interface()).ProtoReflect())
			}
			return v
		}
		switch op {
		case "list_drop":
			items = append(items[:i:i], items[i+1:]...)
		case "list_dup":
			dup := cloneItem(items[i])
			items = append(items[:j+1:j+1], append([]protoreflect.Value{dup}, items[j+1:]...)...)
		case "list_swap":
			if i == j {
				for a, b := 0, n-1; a < b; a, b = a+1, b-1 { // reverse
					items[a], items[b] = items[b], items[a]
				}
			} else {
				items[i], items[j] = items[j], items[i]
			}
		}
		l.Truncate(0)
		for _, v := range items {
			l.Append(v)
		}
	case "map_edit":
		mp := m.Mutable(fd).Map()
		ks := sortedKeys(mp)
		newVal := func() protoreflect.Value {
			if fd.MapValue().Message() != nil {
				if d := donor(fd.MapValue().Message()); d != nil {
					return protoreflect.ValueOfMessage(d)
				}
				return mp.NewValue()
			}
			return extreme(fd.MapValue(), mp.NewValue(), mu.C)
		}
		switch {
		case mu.B%4 == 0 && len(ks) > 0:
			mp.Clear(ks[mu.C%len(ks)])
		case mu.B%4 == 1 && len(ks) > 0:
			mp.Set(ks[mu.C%len(ks)], newVal())
		default:
			if fd.MapKey().Kind() == protoreflect.StringKind {
				keys := []string{"", "x", "AAAAAAAAAAAAAAAB", "not base64!", "AAAAAAAAAAAAAAA=", strings.Repeat("A", 64)}
				mp.Set(protoreflect.ValueOfString(keys[mu.C%len(keys)]).MapKey(), newVal())
			}
		}
	case "scalar_extreme":
		if fd.IsList() {
			l := m.Mutable(fd).List()
			if l.Len() == 0 {
				l.Append(extreme(fd, l.NewElement(), mu.C))
			} else {
				i := mu.B % l.Len()
				l.Set(i, extreme(fd, l.Get(i), mu.C))
			}
		} else {
			m.Set(fd, extreme(fd, m.Get(fd), mu.B+mu.C))
		}
	}
	return op
}

// extreme returns a boundary value for a scalar field.
func extreme(fd protoreflect.FieldDescriptor, cur protoreflect.Value, sel int) protoreflect.Value {
	switch fd.Kind() {
	case protoreflect.BoolKind:
		return protoreflect.ValueOfBool(!cur.Bool())
	case protoreflect.EnumKind:
		c := int32(cur.Enum())
		vs := []int32{0, 1, 99, -1, c + 1, c - 1, math.MaxInt32}
		if n := fd.Enum().Values().Len(); n > 0 {
			vs = append(vs, int32(fd.Enum().Values().Get(sel/7%n).Number()))
		}
		return protoreflect.ValueOfEnum(protoreflect.EnumNumber(vs[sel%len(vs)]))
	case protoreflect.Int32Kind, protoreflect.Sint32Kind, protoreflect.Sfixed32Kind:
		c := int32(cur.Int())
		vs := []int32{0, -1, 1, math.MaxInt32, math.MinInt32, c + 1, c - 1, c + 2, -c, 1 << 20, -(1 << 20), 1 << 30}
		return protoreflect.ValueOfInt32(vs[sel%len(vs)])
	case protoreflect.Int64Kind, protoreflect.Sint64Kind, protoreflect.Sfixed64Kind:
		c := cur.Int()
		vs := []int64{0, -1, 1, math.MaxInt64, math.MinInt64, c + 1, c - 1, -c, math.MaxInt32 + 1, 1 << 40}
		return protoreflect.ValueOfInt64(vs[sel%len(vs)])
	case protoreflect.Uint32Kind, protoreflect.Fixed32Kind:
		c := uint32(cur.Uint())
		vs := []uint32{0, 1, math.MaxUint32, c + 1, c - 1, math.MaxInt32, 1 << 31}
		return protoreflect.ValueOfUint32(vs[sel%len(vs)])
	case protoreflect.Uint64Kind, protoreflect.Fixed64Kind:
		c := cur.Uint()
		vs := []uint64{0, 1, math.MaxUint64, c + 1, c - 1, math.MaxInt64, 1 << 63}
		return protoreflect.ValueOfUint64(vs[sel%len(vs)])
	case protoreflect.StringKind:
		c := cur.String()
		r := []rune(c)
		vs := []string{"", "x", strings.Repeat("A", 300), "\x00", c + c, string(r[:len(r)/2]), "😀", "not base64!", " "}
		return protoreflect.ValueOfString(vs[sel%len(vs)])
	case protoreflect.BytesKind:
		c := cur.Bytes()
		var v []byte
		switch sel % 12 {
		case 0:
			v = nil
		case 1:
			v = append([]byte{}, c[:max(0, len(c)-1)]...)
		case 2:
			v = append([]byte{}, c[:len(c)/2]...)
		case 3:
			v = append(append([]byte{}, c...), 0)
		case 4:
			v = []byte{1}
		case 5:
			v = []byte{1, 2, 3}
		case 6:
			v = []byte{1, 2, 3, 4, 5, 6, 7}
		case 7:
			v = make([]byte, 12)
		case 8:
			v = make([]byte, 13)
		case 9:
			v = []byte{0xff, 0xff, 0xff, 0xff, 0xff, 0xff, 0xff, 0xff}
		case 10:
			v = append([]byte{}, c...)
			if len(v) > 0 {
				v[(sel/12)%len(v)] ^= 1 << uint(sel%8)
			}
		case 11:
			v = make([]byte, 11)
		}
		return protoreflect.ValueOfBytes(v)
	case protoreflect.DoubleKind:
		return protoreflect.ValueOfFloat64([]float64{0, -1, math.Inf(1), math.NaN(), math.MaxFloat64}[sel%5])
	case protoreflect.FloatKind:
		return protoreflect.ValueOfFloat32([]float32{0, -1, float32(math.Inf(1)), float32(math.NaN())}[sel%4])
	}
	return cur
}

var byteMutNames = []string{"truncate", "bitflip", "int64_extreme", "insert", "dup_range", "drop_range", "set_byte", "header"}

// mutateBytes is the byte-level mutator for the non-protobuf encodings
// (version vector bytes, compressed snapshots) and for truncation.
func mutateBytes(b []byte, mu Mut, kind string) ([]byte, string) {
	b = append([]byte{}, b...)
	n := len(b)
	op := byteMutNames[mu.Op%len(byteMutNames)]
	ext := []uint64{0, 1, math.MaxUint64, math.MaxInt64, 1 << 63, 1 << 32, 1 << 36, (1 << 36) - 1, 1 << 31, 2, 3, 1 << 20, 1 << 40}
	switch op {
	case "truncate":
		return b[:mu.A%(n+1)], op
	case "bitflip":
		if n > 0 {
			b[mu.A%n] ^= 1 << uint(mu.B%8)
		}
	case "int64_extreme":
		if n >= 8 {
			off := mu.A % (n - 7)
			if kind == "vv" && mu.C%2 == 0 {
				off = off / 4 * 4 // vv layout: 8-byte count, then 12-byte actor + 8-byte clock
			}
			if kind == "zsnap" {
				binary.LittleEndian.PutUint64(b[off:], ext[mu.B%len(ext)])
			} else {
				binary.BigEndian.PutUint64(b[off:], ext[mu.B%len(ext)])
			}
		}
	case "insert":
		off := mu.A % (n + 1)
		ins := [][]byte{{0}, {0xff}, {0x01}, make([]byte, 12), {0x28, 0xB5, 0x2F, 0xFD}, make([]byte, 20)}[mu.B%6]
		b = append(b[:off:off], append(append([]byte{}, ins...), b[off:]...)...)
	case "dup_range":
		if n > 0 {
			from := mu.A % n
			to := from + 1 + mu.B%min(n-from, 40)
			b = append(b[:to:to], append(append([]byte{}, b[from:to]...), b[to:]...)...)
		}
	case "drop_range":
		if n > 0 {
			from := mu.A % n
			to := from + 1 + mu.B%min(n-from, 40)
			b = append(b[:from:from], b[to:]...)
		}
	case "set_byte":
		if n > 0 {
			b[mu.A%n] = byte(mu.B)
		}
	case "header":
		switch kind {
		case "vv":
			if n >= 8 {
				binary.BigEndian.PutUint64(b, ext[mu.B%len(ext)])
			}
		case "zsnap":
			// rewrite the zstd frame header: descriptor byte and declared
			// content size ("huge lengths")
			if n >= 6 {
				fhd := []byte{0xC0, 0xC0, 0xC0, 0xE0, 0x80, 0xA0, 0x40, 0x60, 0x20, 0x00, byte(mu.C)}[mu.A%11]
				hdr := []byte{b[0], 0x28, 0xB5, 0x2F, 0xFD, fhd}
				if fhd&0x20 == 0 {
					hdr = append(hdr, byte(mu.C%256)) // window descriptor
				}
				// declared content sizes around the decoder's own limits
				sizes := []uint64{1 << 36, (1 << 36) - 1, 1 << 36, 1 << 35, 3 << 34, 1 << 32, 1 << 31, 1 << 30, 300 << 20, math.MaxUint64, 0, 1, (1 << 36) + 1}
				v := sizes[mu.B%len(sizes)]
				switch fhd >> 6 {
				case 3:
					hdr = binary.LittleEndian.AppendUint64(hdr, v)
				case 2:
					hdr = binary.LittleEndian.AppendUint32(hdr, uint32(v))
				case 1:
					hdr = binary.LittleEndian.AppendUint16(hdr, uint16(v))
				default:
					if fhd&0x20 != 0 {
						hdr = append(hdr, byte(v))
					}
				}
				rest := b[min(n, 6+mu.C%8):]
				b = append(hdr, rest...)
			}
		default:
			if n > 0 {
				b[0] = byte(mu.B)
			}
		}
	}
	return b, op
}
