package c09

import (
	"fmt"
	"testing"
)

func TestProbeLen(t *testing.T) {
	g := genCase()
	h := map[int]int{}
	ops := map[string]int{}
	for i := 0; i < 2000; i++ {
		c := g.Example(i)
		h[len(c.Steps)/5*5]++
		for _, s := range c.Steps {
			ops[s.Op]++
		}
	}
	fmt.Println(h)
	fmt.Println(ops)
}
