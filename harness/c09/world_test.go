package c09

import (
	"bytes"
	"fmt"
	"reflect"
	"regexp"
	"runtime/debug"
	"sort"
	"strings"

	"google.golang.org/protobuf/encoding/prototext"
	"google.golang.org/protobuf/proto"
	"google.golang.org/protobuf/reflect/protoreflect"

	"github.com/yorkie-team/yorkie/api/converter"
	"github.com/yorkie-team/yorkie/api/types"
	api "github.com/yorkie-team/yorkie/api/yorkie/v1"
	"github.com/yorkie-team/yorkie/pkg/document"
	"github.com/yorkie-team/yorkie/pkg/document/change"
	"github.com/yorkie-team/yorkie/pkg/document/json"
	"github.com/yorkie-team/yorkie/pkg/document/operations"
	"github.com/yorkie-team/yorkie/pkg/document/presence"
	"github.com/yorkie-team/yorkie/pkg/document/time"
	"github.com/yorkie-team/yorkie/pkg/key"
	"github.com/yorkie-team/yorkie/server/backend/database"
	"github.com/yorkie-team/yorkie/server/packs"

	"verifharness/kit"
	"verifharness/prog"
)

// A case is executed in two worlds that run the same steps:
//
//	direct: replicas and the mini server exchange the in-memory change.Pack
//	        values (no encoding at all, except snapshot bytes which have no
//	        in-memory form);
//	wire:   every pack goes ToChangePack -> proto.Marshal -> Unmarshal ->
//	        FromChangePack in both directions, the server stores
//	        database.ChangeInfo rows (NewFromChange) and answers through
//	        packs.ServerPack.ToPBChangePack, its replay document is fed by
//	        ChangeInfo.ToChange, client vectors go through Bytes /
//	        VersionVectorFromBytes and snapshots through Compress/Decompress.
//
// The encodings are lossless iff nothing observable differs between the two.

const docKey = key.Key("c09-doc")

var refKey = types.DocRefKey{ProjectID: "000000000000000000000001", DocID: "000000000000000000000002"}

const maxTwins = 3

// Case is one generated round-trip history.
type Case struct {
	N        int         `json:"n"`         // initial replicas (2..3)
	SrvGC    bool        `json:"srv_gc"`    // server documents collect garbage at the minimum vector
	PresMask int         `json:"pres_mask"` // bit i: replica i attaches with an initial presence
	Steps    []prog.Step `json:"steps"`
}

func actorOf(i int) time.ActorID {
	a, err := time.ActorIDFromHex(fmt.Sprintf("%024x", i+1))
	if err != nil {
		panic(err)
	}
	return a
}

// observer collects what the wire world saw.
type observer struct {
	classes map[string]int
	corpus  *corpus
}

func (o *observer) hit(k string) {
	if o != nil {
		o.classes[k]++
	}
}

type rep struct {
	idx    int
	actor  time.ActorID
	d      *document.Document
	broken bool
}

type cliState struct {
	clientSeq uint32
	vv        time.VersionVector
}

type twin struct {
	at   int64
	doc  *document.InternalDocument
	dead bool
}

type server struct {
	w       *world
	head    int64
	stored  []*change.Change       // what the server received, serverSeq set (native / decoded)
	infos   []*database.ChangeInfo // wire world: the stored rows
	clients map[time.ActorID]*cliState
	order   []time.ActorID
	doc     *document.InternalDocument // replay document (snapshot source)
	applied int64
	dead    string // first replay error of doc
	twins   []*twin
	// sawArraySet: a stored change holds an ArraySet (see findingArraySetGC)
	sawArraySet bool
}

type world struct {
	// undoSeq marks the changes (by clientSeq) that an undo/redo produced
	undoSeq map[time.ActorID]map[uint32]bool
	wire    bool
	reps    []*rep
	srv     *server
	ob      *observer
	c       Case
}

func newWorld(wire bool, c Case, ob *observer) *world {
	w := &world{wire: wire, c: c, undoSeq: map[time.ActorID]map[uint32]bool{}}
	if wire {
		w.ob = ob
	}
	w.srv = &server{w: w, clients: map[time.ActorID]*cliState{}, doc: document.NewInternalDocument(docKey)}
	return w
}

var ptrRe = regexp.MustCompile(`0x[0-9a-f]{6,}`)

// firstLine is the comparable part of an error text: first line, with
// pointer values (some errors of the code under test print them) masked.
func firstLine(s string) string {
	if i := strings.IndexByte(s, '\n'); i >= 0 {
		s = s[:i]
	}
	return ptrRe.ReplaceAllString(s, "0x?")
}

// safe runs f and turns an error or a panic of the code under test into text.
func safe(f func() error) (msg string) {
	defer func() {
		if r := recover(); r != nil {
			msg = fmt.Sprintf("PANIC: %v", r)
			_ = debug.Stack()
		}
	}()
	if err := f(); err != nil {
		return "ERR: " + err.Error()
	}
	return ""
}

func pbText(m proto.Message) string {
	s := prototext.MarshalOptions{Multiline: false}.Format(m)
	if len(s) > 1500 {
		s = s[:1500] + "…"
	}
	return s
}

// ---------------------------------------------------------------- wire

// viaWire sends a protobuf pack over the "wire" and checks that what comes
// out re-encodes to the same message.
func (w *world) viaWire(pb *api.ChangePack, what string) (*change.Pack, *kit.Failure) {
	w.observe(pb)
	b, err := proto.Marshal(pb)
	if err != nil {
		return nil, kit.Failf("ENCODE-ERROR", "%s: proto.Marshal: %v", what, err)
	}
	pb2 := &api.ChangePack{}
	if err := proto.Unmarshal(b, pb2); err != nil {
		return nil, kit.Failf("DECODE-ERROR", "%s: proto.Unmarshal of a pack the system produced: %v", what, err)
	}
	var p2 *change.Pack
	if msg := safe(func() error { var e error; p2, e = converter.FromChangePack(pb2); return e }); msg != "" {
		return nil, kit.Failf("DECODE-ERROR", "%s: FromChangePack rejects a pack the system produced: %s\npack: %s", what, msg, pbText(pb))
	}
	var pb3 *api.ChangePack
	if msg := safe(func() error { var e error; pb3, e = converter.ToChangePack(p2); return e }); msg != "" {
		return nil, kit.Failf("REENCODE-ERROR", "%s: ToChangePack(FromChangePack(p)): %s", what, msg)
	}
	if !sameMeaning(pb, pb3) {
		return nil, kit.Failf("REENCODE-DIFF", "%s: ToChangePack(FromChangePack(p)) != p\n%s", what, packDiff(pb, pb3, "sent", "re-encoded"))
	}
	return p2, nil
}

func packDiff(a, b *api.ChangePack, la, lb string) string {
	a, b = proto.Clone(a).(*api.ChangePack), proto.Clone(b).(*api.ChangePack)
	canon(a)
	canon(b)
	la, lb = fmt.Sprintf("%-11s", la+":"), fmt.Sprintf("%-11s", lb+":")
	if len(a.Changes) != len(b.Changes) {
		return fmt.Sprintf("changes %d vs %d", len(a.Changes), len(b.Changes))
	}
	for i := range a.Changes {
		if proto.Equal(a.Changes[i], b.Changes[i]) {
			continue
		}
		ca, cb := a.Changes[i], b.Changes[i]
		if len(ca.Operations) == len(cb.Operations) {
			for j := range ca.Operations {
				if !proto.Equal(ca.Operations[j], cb.Operations[j]) {
					return fmt.Sprintf("change %d op %d:\n   %s %s\n   %s %s", i, j, la, pbText(ca.Operations[j]), lb, pbText(cb.Operations[j]))
				}
			}
		}
		return fmt.Sprintf("change %d:\n   %s %s\n   %s %s", i, la, pbText(ca), lb, pbText(cb))
	}
	ha, hb := proto.Clone(a).(*api.ChangePack), proto.Clone(b).(*api.ChangePack)
	ha.Changes, hb.Changes = nil, nil
	return fmt.Sprintf("pack header:\n   %s %s\n   %s %s", la, pbText(ha), lb, pbText(hb))
}

func (w *world) observe(m proto.Message) {
	if w.ob == nil {
		return
	}
	scanShapes(m.ProtoReflect(), w.ob.classes)
	if w.ob.corpus != nil {
		w.ob.corpus.add(m)
	}
}

// vvWire sends a version vector through its storage encoding.
func vvWire(vv time.VersionVector, ob *observer) (time.VersionVector, *kit.Failure) {
	if vv == nil {
		return nil, nil
	}
	var b []byte
	if msg := safe(func() error { var e error; b, e = vv.Bytes(); return e }); msg != "" {
		return nil, kit.Failf("VV-ENCODE-ERROR", "VersionVector.Bytes: %s", msg)
	}
	var out time.VersionVector
	if msg := safe(func() error { var e error; out, e = time.VersionVectorFromBytes(b); return e }); msg != "" {
		return nil, kit.Failf("VV-DECODE-ERROR", "VersionVectorFromBytes(vv.Bytes()) of %v: %s", vv, msg)
	}
	if len(out) != len(vv) {
		return nil, kit.Failf("VV-DIFF", "VersionVectorFromBytes(vv.Bytes()) = %v, want %v", out, vv)
	}
	for k, v := range vv {
		if got, ok := out[k]; !ok || got != v {
			return nil, kit.Failf("VV-DIFF", "VersionVectorFromBytes(vv.Bytes()) = %v, want %v", out, vv)
		}
	}
	if ob != nil {
		ob.hit("vv_roundtrip")
		if len(vv) >= 3 {
			ob.hit("vv_3plus_actors")
		}
		if ob.corpus != nil {
			ob.corpus.addBytes("vv", b)
		}
	}
	return out, nil
}

// snapWire sends snapshot bytes through the storage compression, and checks
// the header byte and the legacy (uncompressed) input form.
func snapWire(b []byte, ob *observer) ([]byte, *kit.Failure) {
	var z []byte
	if msg := safe(func() error { var e error; z, e = database.CompressSnapshot(b); return e }); msg != "" {
		return nil, kit.Failf("COMPRESS-ERROR", "CompressSnapshot: %s", msg)
	}
	if len(b) > 0 && (len(z) == 0 || z[0] != database.SnapshotFormatZstd) {
		return nil, kit.Failf("COMPRESS-HEADER", "CompressSnapshot output does not start with the format byte 0x01: % x", z[:min(len(z), 8)])
	}
	var back []byte
	if msg := safe(func() error { var e error; back, e = database.DecompressSnapshot(z); return e }); msg != "" {
		return nil, kit.Failf("DECOMPRESS-ERROR", "DecompressSnapshot(CompressSnapshot(b)): %s", msg)
	}
	if !bytes.Equal(back, b) {
		return nil, kit.Failf("COMPRESS-DIFF", "DecompressSnapshot(CompressSnapshot(b)) != b (len %d vs %d)", len(back), len(b))
	}
	var legacy []byte
	if msg := safe(func() error { var e error; legacy, e = database.DecompressSnapshot(b); return e }); msg != "" {
		return nil, kit.Failf("DECOMPRESS-LEGACY", "DecompressSnapshot of an uncompressed (legacy) snapshot: %s", msg)
	}
	if !bytes.Equal(legacy, b) {
		return nil, kit.Failf("DECOMPRESS-LEGACY", "DecompressSnapshot changed an uncompressed (legacy) snapshot (first byte %#x)", b[0])
	}
	if ob != nil {
		ob.hit("snapshot_compress_roundtrip")
		if ob.corpus != nil {
			ob.corpus.addBytes("zsnap", z)
		}
	}
	return back, nil
}

// ---------------------------------------------------------------- server

func (s *server) client(a time.ActorID) *cliState {
	ci, ok := s.clients[a]
	if !ok {
		ci = &cliState{}
		s.clients[a] = ci
		s.order = append(s.order, a)
	}
	return ci
}

func (s *server) minVector(extra time.VersionVector) time.VersionVector {
	vs := []time.VersionVector{extra}
	for _, a := range s.order {
		vs = append(vs, s.clients[a].vv)
	}
	return time.MinVersionVector(vs...)
}

func applyTo(doc *document.InternalDocument, seq int64, c *change.Change) string {
	return safe(func() error {
		return doc.ApplyChangePack(change.NewPack(docKey, change.InitialCheckpoint.NextServerSeq(seq),
			[]*change.Change{c}, nil, nil), true)
	})
}

// advance replays the newly stored changes into the server's document (and,
// in the wire world, into every snapshot twin) and compares the twins.
func (s *server) advance() *kit.Failure {
	for s.applied < s.head {
		seq := s.applied + 1
		c := s.stored[seq-1]
		if s.w.wire {
			info := s.infos[seq-1]
			var fromStore *change.Change
			if msg := safe(func() error { var e error; fromStore, e = info.ToChange(); return e }); msg != "" {
				return kit.Failf("STORED-DECODE-ERROR", "ChangeInfo.ToChange of a row written by NewFromChange (serverSeq %d): %s", seq, msg)
			}
			pa, ea := converter.ToChanges([]*change.Change{c})
			pb, eb := converter.ToChanges([]*change.Change{fromStore})
			if ea != nil || eb != nil {
				return kit.Failf("STORED-REENCODE-ERROR", "ToChanges: %v / %v", ea, eb)
			}
			if !sameMeaning(pa[0], pb[0]) {
				return kit.Failf("STORED-CHANGE-DIFF", "ChangeInfo round trip changed the change at serverSeq %d:\n   received: %s\n   stored:   %s",
					seq, pbText(pa[0]), pbText(pb[0]))
			}
			if c.PresenceChange() != nil {
				s.w.ob.hit("stored_presence_change")
			}
			s.w.ob.hit("changeinfo_roundtrip")
			c = fromStore
		}
		if s.dead != "" {
			// the replay document already failed (identically checked
			// between the worlds by compareServers); nothing follows it
			return nil
		}
		msg := firstLine(applyTo(s.doc, seq, c))
		for _, tw := range s.twins {
			if tw.dead {
				continue
			}
			// each twin gets its own decoded instance of the stored change
			tc, err := s.infos[seq-1].ToChange()
			if err != nil {
				return kit.Failf("STORED-DECODE-ERROR", "ChangeInfo.ToChange (serverSeq %d): %v", seq, err)
			}
			if tmsg := firstLine(applyTo(tw.doc, seq, tc)); tmsg != msg {
				return kit.Failf("SNAPSHOT-TAIL-DIFF", "remote change serverSeq %d applied to the snapshot taken at serverSeq %d: original %q, round-tripped %q",
					seq, tw.at, msg, tmsg)
			}
			if msg != "" {
				tw.dead = true
			}
		}
		s.applied = seq
		if msg != "" {
			s.dead = msg
			s.w.ob.hit("server_replay_error_both")
			return nil
		}
		if f := s.compareTwins(fmt.Sprintf("after remote change serverSeq %d", seq), false); f != nil {
			return f
		}
	}
	if s.dead == "" {
		return s.compareTwins(fmt.Sprintf("at serverSeq %d", s.applied), true)
	}
	return nil
}

func (s *server) compareTwins(when string, physical bool) *kit.Failure {
	if len(s.twins) == 0 {
		return nil
	}
	m, g := s.doc.Marshal(), s.doc.GarbageLen()
	var d string
	if physical {
		d = dump(s.doc.RootObject())
	}
	for _, tw := range s.twins {
		if tw.dead {
			continue
		}
		if tm := tw.doc.Marshal(); tm != m {
			return kit.Failf("SNAPSHOT-TAIL-DIFF", "%s the snapshot round-tripped at serverSeq %d diverged:\n   original: %s\n    decoded: %s", when, tw.at, m, tm)
		}
		if same, ex := garbageSame(s.doc, tw.doc); !same {
			if ex {
				tw.dead = true
				s.w.ob.hit("excluded:" + findingGarbageLeak)
				continue
			}
			return kit.Failf("SNAPSHOT-TAIL-GARBAGE", "%s GarbageLen of the snapshot round-tripped at serverSeq %d: original %d, decoded %d", when, tw.at, g, tw.doc.GarbageLen())
		}
		if physical {
			if !kit.NoExclusions() && removedTreeNodeWithRemovedAttr(tw.doc.RootObject()) {
				// F68: the decoded document never collects the attribute tombstones of removed tree elements
				tw.dead = true
				s.w.ob.hit("excluded:" + findingRemovedNodeAttr)
				continue
			}
			if td := dump(tw.doc.RootObject()); td != d {
				return kit.Failf("SNAPSHOT-TAIL-PHYSICAL", "%s physical nodes of the snapshot round-tripped at serverSeq %d differ, %s", when, tw.at, firstDiff(d, td))
			}
			if !reflect.DeepEqual(normPres(tw.doc.AllPresences()), normPres(s.doc.AllPresences())) {
				return kit.Failf("SNAPSHOT-TAIL-PRESENCE", "%s presences differ: original %v decoded %v", when, s.doc.AllPresences(), tw.doc.AllPresences())
			}
			s.w.ob.hit("tail_compared")
		}
	}
	return nil
}

func normPres(m map[string]presence.Data) map[string]map[string]string {
	out := map[string]map[string]string{}
	for k, v := range m {
		e := map[string]string{}
		for a, b := range v {
			e[a] = b
		}
		out[k] = e
	}
	return out
}

// collect runs the garbage collection the real server runs before building a
// snapshot (minimum vector of the attached clients), on every server document.
func (s *server) collect() (int, *kit.Failure) {
	if !s.w.c.SrvGC || s.dead != "" {
		return 0, nil
	}
	if s.sawArraySet && !kit.NoExclusions() {
		s.w.ob.hit("excluded:" + findingArraySetGC)
		return 0, nil
	}
	vec := s.minVector(s.doc.VersionVector())
	n := 0
	msg := safe(func() error { var e error; n, e = s.doc.GarbageCollect(vec); return e })
	if msg != "" {
		s.dead = firstLine(msg)
	}
	for _, tw := range s.twins {
		if tw.dead {
			continue
		}
		tn := 0
		tmsg := safe(func() error { var e error; tn, e = tw.doc.GarbageCollect(vec); return e })
		if firstLine(tmsg) != firstLine(msg) {
			return 0, kit.Failf("SNAPSHOT-TAIL-GC", "garbage collection at %v on the snapshot round-tripped at serverSeq %d: original purged %d (%q), decoded purged %d (%q)",
				vec, tw.at, n, msg, tn, tmsg)
		}
		if tmsg != "" {
			tw.dead = true
			continue
		}
		if same, ex := garbageSame(s.doc, tw.doc); !same {
			if !ex {
				return 0, kit.Failf("SNAPSHOT-TAIL-GC", "garbage collection at %v on the snapshot round-tripped at serverSeq %d: original purged %d and keeps %d, decoded purged %d and keeps %d; %s",
					vec, tw.at, n, s.doc.GarbageLen(), tn, tw.doc.GarbageLen(), firstDiff(dump(s.doc.RootObject()), dump(tw.doc.RootObject())))
			}
			// the original counts garbage its own deep copy does not hold
			tw.dead = true
			s.w.ob.hit("excluded:" + findingGarbageLeak)
		}
	}
	if n > 0 {
		s.w.ob.hit("server_gc_purged")
	}
	return n, nil
}

// snapshotBytes brings the replay document to the head and encodes it.
func (s *server) snapshotBytes() ([]byte, string, *kit.Failure) {
	if f := s.advance(); f != nil {
		return nil, "", f
	}
	if s.dead != "" {
		return nil, s.dead, nil
	}
	if _, f := s.collect(); f != nil {
		return nil, "", f
	}
	if s.dead != "" {
		return nil, s.dead, nil
	}
	var b []byte
	if msg := safe(func() error {
		var e error
		b, e = converter.SnapshotToBytes(s.doc.RootObject(), s.doc.AllPresences())
		return e
	}); msg != "" {
		return nil, "", kit.Failf("ENCODE-ERROR", "SnapshotToBytes of the server document at serverSeq %d: %s", s.applied, msg)
	}
	return b, "", nil
}

// snap (wire world) round-trips the server document through the snapshot
// encoding, compares, and keeps the decoded document as a twin that follows
// every later remote change.
var dbgHook func(s *server, when string)

func (s *server) snap() *kit.Failure {
	if dbgHook != nil {
		dbgHook(s, "snap")
	}
	b, dead, f := s.snapshotBytes()
	if f != nil || dead != "" || !s.w.wire {
		return f
	}
	ob := s.w.ob
	if id := snapshotExclusion(s.doc); id != "" {
		ob.hit("excluded:" + id)
		return nil
	}
	pbSnap := &api.Snapshot{}
	if err := proto.Unmarshal(b, pbSnap); err != nil {
		return kit.Failf("DECODE-ERROR", "proto.Unmarshal(SnapshotToBytes): %v", err)
	}
	s.w.observe(pbSnap)
	stored, f := snapWire(b, ob)
	if f != nil {
		return f
	}
	var tdoc *document.InternalDocument
	if msg := safe(func() error {
		var e error
		tdoc, e = document.NewInternalDocumentFromSnapshot(docKey, s.applied, s.doc.Lamport(), s.doc.VersionVector().DeepCopy(), stored)
		return e
	}); msg != "" {
		return kit.Failf("DECODE-ERROR", "BytesToSnapshot rejects a snapshot the system produced (serverSeq %d): %s\ndocument: %s", s.applied, msg, s.doc.Marshal())
	}
	if m, tm := s.doc.Marshal(), tdoc.Marshal(); m != tm {
		return kit.Failf("SNAPSHOT-CONTENT", "BytesToSnapshot(SnapshotToBytes(d)).Marshal() differs at serverSeq %d:\n   original: %s\n    decoded: %s", s.applied, m, tm)
	}
	if g, tg := s.doc.GarbageLen(), tdoc.GarbageLen(); g != tg {
		if _, ex := garbageSame(s.doc, tdoc); ex {
			ob.hit("excluded:" + findingGarbageLeak)
			return nil
		}
		return kit.Failf("SNAPSHOT-GARBAGE", "GarbageLen after the snapshot round trip at serverSeq %d: original %d, decoded %d\ndocument: %s", s.applied, g, tg, s.doc.Marshal())
	}
	if d, td := dump(s.doc.RootObject()), dump(tdoc.RootObject()); d != td {
		return kit.Failf("SNAPSHOT-PHYSICAL", "tickets/tombstones/physical order differ after the snapshot round trip at serverSeq %d, %s", s.applied, firstDiff(d, td))
	}
	if p, tp := normPres(s.doc.AllPresences()), normPres(tdoc.AllPresences()); !reflect.DeepEqual(p, tp) {
		return kit.Failf("SNAPSHOT-PRESENCE", "presences after the snapshot round trip: original %v, decoded %v", p, tp)
	}
	var b2 []byte
	if msg := safe(func() error {
		var e error
		b2, e = converter.SnapshotToBytes(tdoc.RootObject(), tdoc.AllPresences())
		return e
	}); msg != "" {
		return kit.Failf("REENCODE-ERROR", "SnapshotToBytes of the decoded snapshot: %s", msg)
	}
	pbSnap2 := &api.Snapshot{}
	if err := proto.Unmarshal(b2, pbSnap2); err != nil {
		return kit.Failf("REENCODE-ERROR", "re-encoded snapshot does not unmarshal: %v", err)
	}
	if !sameMeaning(pbSnap, pbSnap2) {
		return kit.Failf("REENCODE-DIFF", "SnapshotToBytes(BytesToSnapshot(b)) != b at serverSeq %d\n   first:  %s\n   second: %s", s.applied, pbText(pbSnap), pbText(pbSnap2))
	}
	ob.hit("snapshot_roundtrip")
	if s.doc.GarbageLen() > 0 {
		ob.hit("snapshot_with_garbage")
	}
	if len(s.twins) < maxTwins {
		s.twins = append(s.twins, &twin{at: s.applied, doc: tdoc})
		ob.hit("snapshot_twin")
	}
	if ob.corpus != nil {
		ob.corpus.harvestDoc(s.doc)
	}
	return nil
}

// canon brings a message into a normal form in place, so that two encodings
// of the same value compare equal with proto.Equal: object members ordered
// (the encoder emits them in Go map order), moved_at made explicit, and the
// protobuf bytes nested in JSONElementSimple.value / ChangePack.snapshot
// normalised the same way.
func canon(m proto.Message) {
	var walk func(m protoreflect.Message)
	walk = func(m protoreflect.Message) {
		m.Range(func(fd protoreflect.FieldDescriptor, v protoreflect.Value) bool {
			switch {
			case fd.IsList() && fd.Message() != nil:
				for i := 0; i < v.List().Len(); i++ {
					walk(v.List().Get(i).Message())
				}
			case fd.IsMap():
			case fd.Message() != nil:
				walk(v.Message())
			case isNestedProtoBytes(m, fd):
				var inner proto.Message = &api.JSONElement{}
				if fd.Name() == "snapshot" {
					inner = &api.Snapshot{}
				}
				if proto.Unmarshal(v.Bytes(), inner) == nil {
					walk(inner.ProtoReflect())
					if b, err := detMarshal.Marshal(inner); err == nil {
						m.Set(fd, protoreflect.ValueOfBytes(b))
					}
				}
			}
			return true
		})
		switch m.Descriptor().Name() {
		case "JSONObject", "JSONArray", "Primitive", "Text", "Counter", "Tree":
			// an absent moved_at means "positioned at created_at"
			fs := m.Descriptor().Fields()
			if mv, cr := fs.ByName("moved_at"), fs.ByName("created_at"); mv != nil && cr != nil && !m.Has(mv) && m.Has(cr) {
				m.Set(mv, protoreflect.ValueOfMessage(proto.Clone(m.Get(cr).Message().Interface()).ProtoReflect()))
			}
		}
		if m.Descriptor().Name() == "JSONObject" {
			fd := m.Descriptor().Fields().ByName("nodes")
			l := m.Mutable(fd).List()
			items := make([]protoreflect.Value, l.Len())
			keys := make([]string, l.Len())
			for i := range items {
				items[i] = l.Get(i)
				b, _ := detMarshal.Marshal(items[i].Message().Interface())
				keys[i] = string(b)
			}
			idx := make([]int, len(items))
			for i := range idx {
				idx[i] = i
			}
			sort.Slice(idx, func(a, b int) bool { return keys[idx[a]] < keys[idx[b]] })
			sorted := make([]protoreflect.Value, len(items))
			for i, j := range idx {
				sorted[i] = items[j]
			}
			for i, v := range sorted {
				l.Set(i, v)
			}
		}
	}
	walk(m.ProtoReflect())
}

// sameMeaning compares two messages in normal form (the arguments are cloned).
func sameMeaning(a, b proto.Message) bool {
	if proto.Equal(a, b) {
		return true
	}
	ca, cb := proto.Clone(a), proto.Clone(b)
	canon(ca)
	canon(cb)
	return proto.Equal(ca, cb)
}

// garbageSame compares GarbageLen of two documents that must agree. A
// difference that disappears on the documents' own in-memory deep copies is
// stale bookkeeping of the original (known finding), not a lost tombstone.
func garbageSame(a, b *document.InternalDocument) (same, excluded bool) {
	if a.GarbageLen() == b.GarbageLen() {
		return true, false
	}
	if excl(findingGarbageLeak) {
		ca, ea := a.DeepCopy()
		cb, eb := b.DeepCopy()
		if ea == nil && eb == nil && ca.GarbageLen() == cb.GarbageLen() {
			return false, true
		}
	}
	return false, false
}

type pullResult struct {
	cp       change.Checkpoint
	from, to int64 // pulled range (from, to]
	actor    time.ActorID
	maxOwn   uint32
	vv       time.VersionVector
	snapshot []byte
	dead     string
}

// pushPull mirrors packs.PushPull: store what is new, pull what the client
// lacks (or a snapshot), answer with the minimum vector.
func (s *server) pushPull(actor time.ActorID, req *change.Pack, wantSnapshot bool) (pullResult, *kit.Failure) {
	ci := s.client(actor)
	initial := s.head
	for _, c := range req.Changes {
		if c.ClientSeq() <= ci.clientSeq {
			continue
		}
		s.head++
		if s.w.wire {
			var info *database.ChangeInfo
			if msg := safe(func() error { var e error; info, e = database.NewFromChange(refKey, c); return e }); msg != "" {
				return pullResult{}, kit.Failf("ENCODE-ERROR", "database.NewFromChange: %s", msg)
			}
			info.ServerSeq = s.head
			s.infos = append(s.infos, info)
			if s.w.ob.corpus != nil {
				s.w.ob.corpus.addInfo(info)
			}
		}
		// The id is copied deeply: a Document keeps mutating the version
		// vector map its unsent changes share with its own clock
		// (ID.SyncClocks works in place), so the direct world must freeze the
		// vector at sending time exactly as encoding does.
		// The same holds for the presence of a change: it is the very map
		// the sender's next presence update writes to.
		pc := c.PresenceChange()
		if pc != nil {
			pc = &presence.Change{ChangeType: pc.ChangeType, Presence: pc.Presence.DeepCopy()}
		}
		ops := c.Operations()
		for _, op := range ops {
			if _, ok := op.(*operations.ArraySet); ok {
				s.sawArraySet = true
			}
		}
		if !s.w.wire && s.w.undoSeq[actor][c.ClientSeq()] {
			ops = withoutUndoState(ops)
		}
		s.stored = append(s.stored, change.New(c.ID().DeepCopy().SetServerSeq(s.head), c.Message(), ops, pc))
		ci.clientSeq = c.ClientSeq()
	}
	vv := req.VersionVector.DeepCopy()
	if s.w.wire {
		var f *kit.Failure
		if vv, f = vvWire(vv, s.w.ob); f != nil {
			return pullResult{}, f
		}
	}
	ci.vv = vv
	res := pullResult{cp: change.NewCheckpoint(s.head, ci.clientSeq), actor: actor, maxOwn: ci.clientSeq}
	if wantSnapshot {
		b, dead, f := s.snapshotBytes()
		if f != nil {
			return res, f
		}
		if dead != "" {
			res.dead = dead
			return res, nil
		}
		res.snapshot = b
		res.vv = s.doc.VersionVector().DeepCopy()
		return res, nil
	}
	res.from, res.to = req.Checkpoint.ServerSeq, initial
	res.vv = s.minVector(req.VersionVector)
	return res, nil
}

// withoutUndoState replaces the reverse Edit/TreeEdit operations of an
// undo/redo change by their decoded copies. Such an operation object carries
// state that is local to the undoing replica by design (isUndoOp and its
// visible-index range: every Execute re-derives from/to from them and rewrites
// the operation), which no peer ever sees in the real system; handing the
// object itself to a peer would execute the undoing replica's local path
// there. All other operations of the change stay native.
func withoutUndoState(ops []operations.Operation) []operations.Operation {
	out := make([]operations.Operation, len(ops))
	for i, op := range ops {
		out[i] = op
		switch op.(type) {
		case *operations.Edit, *operations.TreeEdit:
			pb, err := converter.ToOperations([]operations.Operation{op})
			if err != nil {
				continue
			}
			if dec, err := converter.FromOperations(pb); err == nil && len(dec) == 1 {
				out[i] = dec[0]
			}
		}
	}
	return out
}

func (s *server) pulled(r pullResult) []int {
	var idx []int
	for seq := r.from + 1; seq <= r.to; seq++ {
		c := s.stored[seq-1]
		if c.ID().ActorID() == r.actor && c.ClientSeq() <= r.maxOwn {
			continue
		}
		idx = append(idx, int(seq-1))
	}
	return idx
}

// ---------------------------------------------------------------- replicas

func (w *world) addReplica(late bool) (string, *kit.Failure) {
	i := len(w.reps)
	r := &rep{idx: i, actor: actorOf(i), d: document.New(docKey)}
	r.d.SetActor(r.actor)
	r.d.SetStatus(document.StatusAttached)
	w.reps = append(w.reps, r)
	if i == 0 {
		if err := prog.InitDoc(r.d); err != nil {
			return "", kit.Failf("HARNESS", "InitDoc: %v", err)
		}
	}
	if w.c.PresMask&(1<<uint(i)) != 0 {
		if err := r.d.Update(func(_ *json.Object, p *presence.Presence) error {
			p.Set("name", fmt.Sprintf("c%d", i))
			return nil
		}); err != nil {
			return "", kit.Failf("HARNESS", "initial presence: %v", err)
		}
	}
	return w.sync(r, late)
}

// sync is one push-pull of a replica; it returns the text of an apply error.
func (w *world) sync(r *rep, wantSnapshot bool) (string, *kit.Failure) {
	req := r.d.CreateChangePack()
	toServer := req
	if w.wire {
		pb, err := converter.ToChangePack(req)
		if err != nil {
			return "", kit.Failf("ENCODE-ERROR", "ToChangePack of c%d's request: %v", r.idx, err)
		}
		var f *kit.Failure
		if toServer, f = w.viaWire(pb, fmt.Sprintf("request of c%d", r.idx)); f != nil {
			return "", f
		}
	}
	res, f := w.srv.pushPull(r.actor, toServer, wantSnapshot)
	if f != nil {
		return "", f
	}
	if res.dead != "" {
		return "server document unavailable: " + res.dead, nil
	}
	idx := w.srv.pulled(res)
	var resPack *change.Pack
	if w.wire {
		snapshot := res.snapshot
		if len(snapshot) > 0 {
			if snapshot, f = snapWire(snapshot, w.ob); f != nil {
				return "", f
			}
		}
		infos := make([]*database.ChangeInfo, 0, len(idx))
		for _, i := range idx {
			infos = append(infos, w.srv.infos[i])
		}
		sp := packs.NewServerPack(docKey, res.cp, infos, snapshot)
		sp.VersionVector = res.vv
		var pb *api.ChangePack
		if msg := safe(func() error { var e error; pb, e = sp.ToPBChangePack(); return e }); msg != "" {
			return "", kit.Failf("STORED-DECODE-ERROR", "ServerPack.ToPBChangePack over rows written by NewFromChange: %s", msg)
		}
		if resPack, f = w.viaWire(pb, fmt.Sprintf("response to c%d", r.idx)); f != nil {
			return "", f
		}
		if len(snapshot) > 0 {
			w.ob.hit("snapshot_pack")
		}
	} else {
		cs := make([]*change.Change, 0, len(idx))
		for _, i := range idx {
			cs = append(cs, w.srv.stored[i])
		}
		resPack = change.NewPack(docKey, res.cp, cs, res.vv, res.snapshot)
	}
	before := r.d.GarbageLen()
	msg := safe(func() error { return r.d.ApplyChangePack(resPack) })
	if w.wire && msg == "" {
		if len(idx) > 0 {
			w.ob.hit("remote_changes_applied")
		}
		if before > 0 && r.d.GarbageLen() < before && len(res.snapshot) == 0 {
			w.ob.hit("client_gc_purged")
		}
	}
	return firstLine(msg), nil
}

// ---------------------------------------------------------------- twin run

type run struct {
	c    Case
	d, w *world
	hist []string
}

func (x *run) logf(format string, a ...any) { x.hist = append(x.hist, fmt.Sprintf(format, a...)) }

// compare checks that replica i behaves identically in both worlds.
func (x *run) compare(i int, when string) *kit.Failure {
	a, b := x.d.reps[i], x.w.reps[i]
	if ma, mb := a.d.Marshal(), b.d.Marshal(); ma != mb {
		return kit.Failf("CONTENT-DIFF", "%s: c%d differs between direct and encoded delivery:\n    direct: %s\n   encoded: %s", when, i, ma, mb)
	}
	if same, ex := garbageSame(a.d.InternalDocument(), b.d.InternalDocument()); ex {
		x.w.ob.hit("excluded:" + findingGarbageLeak)
	} else if ga, gb := a.d.GarbageLen(), b.d.GarbageLen(); !same {
		return kit.Failf("GARBAGE-DIFF", "%s: GarbageLen of c%d: direct %d, encoded %d\ncontent: %s", when, i, ga, gb, a.d.Marshal())
	}
	if da, db := dump(a.d.RootObject()), dump(b.d.RootObject()); da != db {
		return kit.Failf("PHYSICAL-DIFF", "%s: tickets/tombstones of c%d differ between direct and encoded delivery, %s", when, i, firstDiff(da, db))
	}
	if pa, pb := normPres(a.d.AllPresences()), normPres(b.d.AllPresences()); !reflect.DeepEqual(pa, pb) {
		return kit.Failf("PRESENCE-DIFF", "%s: presences on c%d: direct %v, encoded %v", when, i, pa, pb)
	}
	pa, ea := converter.ToChangePack(a.d.CreateChangePack())
	pb, eb := converter.ToChangePack(b.d.CreateChangePack())
	if ea != nil || eb != nil {
		return kit.Failf("ENCODE-ERROR", "%s: ToChangePack of c%d's next request: %v / %v", when, i, ea, eb)
	}
	if !sameMeaning(pa, pb) {
		return kit.Failf("NEXT-REQUEST-DIFF", "%s: the pack c%d would send next differs between direct and encoded delivery\n%s", when, i, packDiff(pa, pb, "direct", "encoded"))
	}
	if a.d.CanUndo() != b.d.CanUndo() || a.d.CanRedo() != b.d.CanRedo() || a.d.UndoStackLenForTest() != b.d.UndoStackLenForTest() {
		return kit.Failf("HISTORY-DIFF", "%s: undo/redo stacks of c%d differ (canUndo %v/%v canRedo %v/%v len %d/%d)", when, i,
			a.d.CanUndo(), b.d.CanUndo(), a.d.CanRedo(), b.d.CanRedo(), a.d.UndoStackLenForTest(), b.d.UndoStackLenForTest())
	}
	return nil
}

func (x *run) compareServers(when string) *kit.Failure {
	a, b := x.d.srv, x.w.srv
	if a.dead != b.dead {
		return kit.Failf("SERVER-REPLAY-DIFF", "%s: replay of the log: native changes %q, stored ChangeInfo rows %q", when, a.dead, b.dead)
	}
	if a.dead != "" || a.applied != b.applied {
		return nil
	}
	if ma, mb := a.doc.Marshal(), b.doc.Marshal(); ma != mb {
		return kit.Failf("STORED-CONTENT-DIFF", "%s: replay of the stored ChangeInfo rows differs from replay of the native changes:\n   native: %s\n   stored: %s", when, ma, mb)
	}
	if same, ex := garbageSame(a.doc, b.doc); ex {
		x.w.ob.hit("excluded:" + findingGarbageLeak)
	} else if ga, gb := a.doc.GarbageLen(), b.doc.GarbageLen(); !same {
		return kit.Failf("STORED-GARBAGE-DIFF", "%s: GarbageLen of the replayed log: native %d, stored %d", when, ga, gb)
	}
	if da, db := dump(a.doc.RootObject()), dump(b.doc.RootObject()); da != db {
		return kit.Failf("STORED-PHYSICAL-DIFF", "%s: replay of stored rows differs physically from replay of native changes, %s", when, firstDiff(da, db))
	}
	return nil
}

func (x *run) syncBoth(i int, late bool) *kit.Failure {
	var ea, eb string
	var f *kit.Failure
	if late {
		if ea, f = x.d.addReplica(true); f != nil {
			return f
		}
		if eb, f = x.w.addReplica(true); f != nil {
			return f
		}
		i = len(x.d.reps) - 1
		x.w.ob.hit("late_join_from_snapshot")
	} else {
		if ea, f = x.d.sync(x.d.reps[i], false); f != nil {
			return f
		}
		if eb, f = x.w.sync(x.w.reps[i], false); f != nil {
			return f
		}
	}
	if ea != eb {
		return kit.Failf("APPLY-DIFF", "c%d applying the server's response: direct %q, encoded %q", i, ea, eb)
	}
	if ea != "" {
		x.logf("   c%d: apply failed identically in both worlds: %s", i, ea)
		x.d.reps[i].broken, x.w.reps[i].broken = true, true
		x.w.ob.hit("apply_error_both")
		return nil
	}
	return x.compare(i, fmt.Sprintf("after sync of c%d", i))
}

func (x *run) snapBoth() *kit.Failure {
	if f := x.d.srv.snap(); f != nil {
		return f
	}
	if f := x.w.srv.snap(); f != nil {
		return f
	}
	return x.compareServers("at snapshot")
}

// runCase executes a case in both worlds.
func runCase(c Case, ob *observer) (fail *kit.Failure, hist []string) {
	x := &run{c: c}
	defer func() {
		hist = x.hist
		if r := recover(); r != nil {
			fail = kit.Failf("HARNESS", "panic in the harness: %v\n%s", r, debug.Stack())
		}
	}()
	if ob == nil {
		ob = &observer{classes: map[string]int{}}
	}
	x.d, x.w = newWorld(false, c, nil), newWorld(true, c, ob)
	n := min(max(c.N, 2), 3)
	for i := 0; i < n; i++ {
		ea, f := x.d.addReplica(false)
		if f != nil {
			return f, x.hist
		}
		eb, f := x.w.addReplica(false)
		if f != nil {
			return f, x.hist
		}
		if ea != eb || ea != "" {
			return kit.Failf("APPLY-DIFF", "attach of c%d: direct %q, encoded %q", i, ea, eb), x.hist
		}
		x.logf("c%d: attach", i)
		if f := x.compare(i, fmt.Sprintf("after attach of c%d", i)); f != nil {
			return f, x.hist
		}
	}
	step := func(s prog.Step) *kit.Failure {
		i := s.Who % len(x.d.reps)
		if x.d.reps[i].broken && s.Op != "snap" {
			return nil
		}
		switch s.Op {
		case "sync":
			x.logf("c%d: sync", i)
			return x.syncBoth(i, false)
		case "snap":
			x.logf("server: snapshot")
			return x.snapBoth()
		case "late":
			if len(x.d.reps) >= n+2 {
				x.logf("c%d: sync", i)
				return x.syncBoth(i, false)
			}
			if !kit.NoExclusions() {
				// a replica built from a snapshot whose decoding is lossy or
				// not deterministic (known findings) cannot be compared
				if f := x.snapBoth(); f != nil {
					return f
				}
				if id := snapshotExclusion(x.w.srv.doc); x.w.srv.dead == "" && id != "" {
					ob.hit("excluded:" + id)
					x.logf("c%d: sync (late attach excluded: %s)", i, id)
					return x.syncBoth(i, false)
				}
			}
			x.logf("c%d: attach from a snapshot", len(x.d.reps))
			return x.syncBoth(0, true)
		}
		if !kit.NoExclusions() {
			// F6 (open, upstream-known): an undo/redo whose reverse holds an
			// Object.Set restores an element by value under its original
			// createdAt. Under C09 the same trigger loses content: the wire
			// form of a Text value carries no nodes, so a peer restores an
			// empty text where direct delivery restores the content.
			_, why := prog.GuardF6(x.d.reps[i].d, s)
			if why == "" {
				why = guardSpanOrder(x.d.reps[i].d, s)
			}
			if why != "" {
				ob.hit("excluded:" + why)
				x.logf("c%d: %s skipped (%s)", i, s.Op, why)
				return nil
			}
		}
		da, ea := applyEdit(x.d.reps[i].d, s)
		db, eb := applyEdit(x.w.reps[i].d, s)
		x.logf("c%d: %s", i, da)
		sa, sb := "", ""
		if ea != nil {
			sa = firstLine(ea.Error())
		}
		if eb != nil {
			sb = firstLine(eb.Error())
		}
		if da != db || sa != sb {
			return kit.Failf("EDIT-DIFF", "the same edit on c%d: direct %q (%s), encoded %q (%s)", i, da, sa, db, sb)
		}
		if sa != "" {
			x.logf("   edit failed identically in both worlds: %s", sa)
			ob.hit("edit_error_both")
		} else if (s.Op == "undo" || s.Op == "redo") && da == s.Op {
			ob.hit("undo_redo_executed")
			if cs := x.d.reps[i].d.CreateChangePack().Changes; len(cs) > 0 {
				a := x.d.reps[i].actor
				if x.d.undoSeq[a] == nil {
					x.d.undoSeq[a] = map[uint32]bool{}
				}
				x.d.undoSeq[a][cs[len(cs)-1].ClientSeq()] = true
			}
		}
		return x.compare(i, fmt.Sprintf("after %q on c%d", da, i))
	}
	for _, s := range c.Steps {
		if f := step(s); f != nil {
			return f, x.hist
		}
	}
	// a snapshot while replicas still hold unsent changes: the final rounds
	// deliver them as a tail onto the decoded twin
	if f := step(prog.Step{Op: "snap"}); f != nil {
		return f, x.hist
	}
	for round := 0; round < 2; round++ {
		for i := range x.d.reps {
			if f := step(prog.Step{Who: i, Op: "sync"}); f != nil {
				return f, x.hist
			}
		}
	}
	if f := step(prog.Step{Op: "snap"}); f != nil {
		return f, x.hist
	}
	return nil, x.hist
}

// ---------------------------------------------------------------- shapes

// scanShapes marks which optional shapes a protobuf message contains.
func scanShapes(m protoreflect.Message, cl map[string]int) {
	d := m.Descriptor()
	has := func(name string) bool {
		fd := d.Fields().ByName(protoreflect.Name(name))
		return fd != nil && m.Has(fd)
	}
	get := func(name string) protoreflect.Value {
		return m.Get(d.Fields().ByName(protoreflect.Name(name)))
	}
	switch string(d.Name()) {
	case "RGANode":
		if !has("element") {
			cl["shape:array_dead_slot"]++
		}
		if has("position_moved_at") {
			cl["shape:array_moved_element"]++
		}
	case "TextNode":
		if has("removed_at") {
			cl["shape:text_tombstone"]++
		}
		if has("attributes") {
			cl["shape:text_styled"]++
		}
		if has("id") && get("id").Message().Get(get("id").Message().Descriptor().Fields().ByName("offset")).Int() > 0 {
			cl["shape:text_split_node"]++
		}
	case "TreeNode":
		if has("removed_at") {
			cl["shape:tree_removed_node"]++
		}
		if has("attributes") {
			cl["shape:tree_attributes"]++
		}
		if has("merged_from") {
			cl["shape:tree_merged_from"]++
		}
		if has("ins_prev_id") || has("ins_next_id") {
			cl["shape:tree_split_links"]++
		}
	case "JSONObject", "JSONArray", "Primitive", "Text", "Tree", "Counter":
		if has("removed_at") {
			cl["shape:element_tombstone"]++
		}
		if has("moved_at") {
			cl["has:element_moved_at"]++
		}
		if d.Name() == "Counter" {
			cl["has:counter_element"]++
		}
	case "Increase":
		cl["shape:counter_increase"]++
	case "Change":
		if has("presence_change") {
			cl["shape:presence"]++
		}
	case "Snapshot":
		if has("presences") {
			cl["shape:presence"]++
		}
	case "Edit":
		if has("restore_spans") || has("retombstone_spans") {
			cl["shape:undo_text_restore_spans"]++
		}
	case "TreeEdit":
		if has("restore_spans") || has("retombstone_spans") {
			cl["shape:undo_tree_restore_spans"]++
		}
		if has("split_tickets") {
			cl["shape:tree_split_tickets"]++
		}
	case "Style", "TreeStyle":
		if has("attributes_to_remove") {
			cl["shape:style_remove"]++
		}
	case "NodeAttr":
		if has("is_removed") {
			cl["shape:attr_removed"]++
		}
	case "Operation":
		if od := d.Oneofs().ByName("body"); od != nil {
			if fd := m.WhichOneof(od); fd != nil {
				cl["op:"+string(fd.Name())]++
			}
		}
	case "JSONElementSimple":
		if b := get("value").Bytes(); len(b) > 0 {
			switch api.ValueType(get("type").Enum()) {
			case api.ValueType_VALUE_TYPE_JSON_OBJECT, api.ValueType_VALUE_TYPE_JSON_ARRAY, api.ValueType_VALUE_TYPE_TREE:
				e := &api.JSONElement{}
				if proto.Unmarshal(b, e) == nil {
					cl["has:nested_element_bytes"]++
					scanShapes(e.ProtoReflect(), cl)
				}
			}
		}
	case "ChangePack":
		if b := get("snapshot").Bytes(); len(b) > 0 {
			sn := &api.Snapshot{}
			if proto.Unmarshal(b, sn) == nil {
				scanShapes(sn.ProtoReflect(), cl)
			}
		}
	}
	m.Range(func(fd protoreflect.FieldDescriptor, v protoreflect.Value) bool {
		switch {
		case fd.IsList():
			if fd.Message() != nil {
				for i := 0; i < v.List().Len(); i++ {
					scanShapes(v.List().Get(i).Message(), cl)
				}
			}
		case fd.IsMap():
			if fd.MapValue().Message() != nil {
				v.Map().Range(func(_ protoreflect.MapKey, mv protoreflect.Value) bool {
					scanShapes(mv.Message(), cl)
					return true
				})
			}
		case fd.Message() != nil:
			scanShapes(v.Message(), cl)
		}
		return true
	})
}
