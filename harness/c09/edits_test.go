package c09

import (
	"fmt"
	"runtime/debug"

	"github.com/yorkie-team/yorkie/pkg/document"
	"github.com/yorkie-team/yorkie/pkg/document/crdt"
	"github.com/yorkie-team/yorkie/pkg/document/json"
	"github.com/yorkie-team/yorkie/pkg/document/presence"

	"verifharness/prog"
)

// Two tree edits the shared alphabet does not contain but whose encodings
// carry optional fields of their own: an element split (split level 1: split
// tickets, insPrev/insNext links) and a paragraph merge (mergedFrom/mergedAt).
var treeExtraOps = []string{"trsplit", "trmerge"}

// applyEdit executes one edit step (shared alphabet + the two local ops).
func applyEdit(d *document.Document, s prog.Step) (desc string, err error) {
	if s.Op != "trsplit" && s.Op != "trmerge" {
		return prog.ApplyEdit(d, s)
	}
	defer func() {
		if r := recover(); r != nil {
			err = fmt.Errorf("PANIC in %s: %v\n%s", desc, r, debug.Stack())
		}
	}()
	desc = s.Op
	err = d.Update(func(r *json.Object, _ *presence.Presence) error {
		tr := r.GetTree("tr")
		if tr == nil {
			desc = "no tree"
			r.SetInteger("k0", 0)
			return nil
		}
		var ps []*crdt.TreeNode
		for _, ch := range tr.Root().Index.Children() {
			ps = append(ps, ch.Value)
		}
		switch {
		case len(ps) == 0:
			tr.EditByPath([]int{0}, []int{0}, &json.TreeNode{Type: "p", Children: []json.TreeNode{{Type: "text", Value: "mn"}}}, 0)
			desc = "tr.insP at 0 \"mn\""
		case s.Op == "trsplit" || len(ps) < 2:
			i := s.A % len(ps)
			k := s.B % (ps[i].Index.Len() + 1)
			tr.EditByPath([]int{i, k}, []int{i, k}, nil, 1)
			desc = fmt.Sprintf("tr.split p%d at %d", i, k)
		default:
			i := s.A % (len(ps) - 1)
			tr.EditByPath([]int{i, ps[i].Index.Len()}, []int{i + 1, 0}, nil, 0)
			desc = fmt.Sprintf("tr.merge p%d with p%d", i, i+1)
		}
		return nil
	})
	return desc, err
}
