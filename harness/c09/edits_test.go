package c09

import (
	"fmt"
	"math"
	"runtime/debug"
	gotime "time"

	"github.com/yorkie-team/yorkie/pkg/document"
	"github.com/yorkie-team/yorkie/pkg/document/crdt"
	"github.com/yorkie-team/yorkie/pkg/document/json"
	"github.com/yorkie-team/yorkie/pkg/document/presence"

	"verifharness/prog"
)

// Two tree edits the shared alphabet does not contain but whose encodings
// carry optional fields of their own: an element split (split level 1: split
// tickets, insPrev/insNext links) and a paragraph merge (mergedFrom/mergedAt).
var treeExtraOps = []string{"trsplit", "trmerge"}

// primOps: every primitive kind with ordinary and boundary values, as object
// member and as array element (each kind has its own wire form).
var primOps = []string{"oprim", "oprim"}

func applyPrim(d *document.Document, s prog.Step) (desc string, err error) {
	defer func() {
		if r := recover(); r != nil {
			err = fmt.Errorf("PANIC in %s: %v\n%s", desc, r, debug.Stack())
		}
	}()
	dates := []gotime.Time{
		gotime.Date(2024, 2, 29, 12, 0, 0, 0, gotime.UTC),
		gotime.Date(1969, 7, 20, 20, 17, 40, 0, gotime.UTC),
		gotime.Date(1066, 10, 14, 9, 0, 0, 0, gotime.UTC),
		gotime.Date(2300, 1, 1, 0, 0, 0, 0, gotime.UTC),
		gotime.Date(9999, 12, 31, 23, 59, 59, 0, gotime.UTC),
		gotime.UnixMilli(0).UTC(),
		gotime.Date(1, 1, 1, 0, 0, 0, 0, gotime.UTC),
	}
	kind, v := s.A%8, s.B*9+s.C
	err = d.Update(func(r *json.Object, _ *presence.Presence) error {
		key := []string{"pv", "pw"}[s.C%2]
		arr := r.GetArray("a")
		inArray := s.C%3 == 0 && arr != nil
		switch kind {
		case 0:
			if inArray {
				arr.AddNull()
			} else {
				r.SetNull(key)
			}
			desc = "null"
		case 1:
			if inArray {
				arr.AddBool(v%2 == 0)
			} else {
				r.SetBool(key, v%2 == 0)
			}
			desc = fmt.Sprintf("bool %v", v%2 == 0)
		case 2:
			x := []int{0, -1, 7, math.MaxInt32, math.MinInt32}[v%5]
			if inArray {
				arr.AddInteger(x)
			} else {
				r.SetInteger(key, x)
			}
			desc = fmt.Sprintf("integer %d", x)
		case 3:
			x := []int64{0, -1, 1 << 40, math.MaxInt64, math.MinInt64, 1<<53 + 1}[v%6]
			if inArray {
				arr.AddLong(x)
			} else {
				r.SetLong(key, x)
			}
			desc = fmt.Sprintf("long %d", x)
		case 4:
			x := []float64{0, -0.5, 1e308, 5e-324, -1e-9, 3.141592653589793}[v%6]
			if inArray {
				arr.AddDouble(x)
			} else {
				r.SetDouble(key, x)
			}
			desc = fmt.Sprintf("double %v", x)
		case 5:
			x := []string{"", "plain", "한글 😀 \u0000 \"q\"", "line\nbreak\ttab", string([]rune{0xFFFD, 0x10FFFF})}[v%5]
			if inArray {
				arr.AddString(x)
			} else {
				r.SetString(key, x)
			}
			desc = fmt.Sprintf("string %q", x)
		case 6:
			x := [][]byte{{}, {0}, {0xff, 0xfe, 0x00, 0x80}, []byte("bytes")}[v%4]
			if inArray {
				arr.AddBytes(x)
			} else {
				r.SetBytes(key, x)
			}
			desc = fmt.Sprintf("bytes %x", x)
		case 7:
			x := dates[v%len(dates)]
			if inArray {
				arr.AddDate(x)
			} else {
				r.SetDate(key, x)
			}
			desc = "date " + x.Format(gotime.RFC3339)
		}
		if inArray {
			desc = "a.add " + desc
		} else {
			desc = "root." + key + " = " + desc
		}
		return nil
	})
	return desc, err
}

// applyEdit executes one edit step (shared alphabet + the two local ops).
func applyEdit(d *document.Document, s prog.Step) (desc string, err error) {
	if s.Op == "oprim" {
		return applyPrim(d, s)
	}
	if s.Op != "trsplit" && s.Op != "trmerge" {
		return prog.ApplyEdit(d, s)
	}
	defer func() {
		if r := recover(); r != nil {
			err = fmt.Errorf("PANIC in %s: %v\n%s", desc, r, debug.Stack())
		}
	}()
	desc = s.Op
	err = d.Update(func(r *json.Object, _ *presence.Presence) error {
		tr := r.GetTree("tr")
		if tr == nil {
			desc = "no tree"
			r.SetInteger("k0", 0)
			return nil
		}
		var ps []*crdt.TreeNode
		for _, ch := range tr.Root().Index.Children() {
			ps = append(ps, ch.Value)
		}
		switch {
		case len(ps) == 0:
			tr.EditByPath([]int{0}, []int{0}, &json.TreeNode{Type: "p", Children: []json.TreeNode{{Type: "text", Value: "mn"}}}, 0)
			desc = "tr.insP at 0 \"mn\""
		case s.Op == "trsplit" || len(ps) < 2:
			i := s.A % len(ps)
			k := s.B % (ps[i].Index.Len() + 1)
			// split level 1 or 2 (2 is deeper than <doc><p>text allows: the split
			// stops at the root and carries fewer tickets than levels), with or
			// without content inserted at the split point
			level := 1 + (s.C/3)%2
			var content *json.TreeNode
			if c := []string{"", "X", "YZ"}[s.C%3]; c != "" && level == 2 {
				// (content only with the level-2 form: with level-1 splits it reaches a
				// snapshot-codec defect of the F42/F43 family the guards do not model -
				// replays/observed/C09-thorough-seed3-...json)
				content = &json.TreeNode{Type: "text", Value: c}
			}
			tr.EditByPath([]int{i, k}, []int{i, k}, content, level)
			desc = fmt.Sprintf("tr.split p%d at %d level %d content %v", i, k, level, content != nil)
		default:
			i := s.A % (len(ps) - 1)
			tr.EditByPath([]int{i, ps[i].Index.Len()}, []int{i + 1, 0}, nil, 0)
			desc = fmt.Sprintf("tr.merge p%d with p%d", i, i+1)
		}
		return nil
	})
	return desc, err
}
