package c09

import (
	"fmt"
	"hash/fnv"
	"sort"
	"strings"

	"github.com/yorkie-team/yorkie/pkg/document/crdt"
	"github.com/yorkie-team/yorkie/pkg/document/time"
	"github.com/yorkie-team/yorkie/pkg/index"
)

// The physical dump renders a CRDT element through its public accessors only
// (never through the converter), with every ticket, tombstone and the physical
// order of sequence nodes. Two values with the same dump hold the same
// tickets, tombstones and content; orders that come out of Go maps are sorted.

func tk(t *time.Ticket) string {
	if t == nil {
		return "-"
	}
	return fmt.Sprintf("%d:%d:%x", t.Lamport(), t.Delimiter(), t.ActorIDBytes()[10:])
}

func rhtDump(r *crdt.RHT) string {
	if r == nil {
		return "{}" // an absent attribute table and an empty one are the same value
	}
	var parts []string
	for _, n := range r.Nodes() {
		parts = append(parts, fmt.Sprintf("%s=%q@%s rm=%v", n.Key(), n.Value(), tk(n.UpdatedAt()), n.IsRemoved()))
	}
	sort.Strings(parts)
	return "{" + strings.Join(parts, ",") + "}"
}

func treeIDDump(id *crdt.TreeNodeID) string {
	if id == nil {
		return "-"
	}
	return fmt.Sprintf("%s/%d", tk(id.CreatedAt), id.Offset)
}

func dumpElem(sb *strings.Builder, e crdt.Element, ind string, member bool) {
	if e == nil {
		sb.WriteString(ind + "<nil>\n")
		return
	}
	// movedAt is only ever read through crdt.PositionedAt (movedAt, else
	// createdAt) and only for object members (the last-writer-wins race of a
	// key), so an absent movedAt and one equal to createdAt are the same
	// value and the movedAt of an array element is dead data; the dump shows
	// the positioning ticket of object members.
	hdr := fmt.Sprintf("c=%s r=%s", tk(e.CreatedAt()), tk(e.RemovedAt()))
	if member {
		hdr = fmt.Sprintf("c=%s p=%s r=%s", tk(e.CreatedAt()), tk(crdt.PositionedAt(e)), tk(e.RemovedAt()))
	}
	switch v := e.(type) {
	case *crdt.Object:
		fmt.Fprintf(sb, "%sobj %s\n", ind, hdr)
		nodes := v.RHTNodes()
		sort.Slice(nodes, func(i, j int) bool {
			if nodes[i].Key() != nodes[j].Key() {
				return nodes[i].Key() < nodes[j].Key()
			}
			return nodes[i].Element().CreatedAt().Compare(nodes[j].Element().CreatedAt()) < 0
		})
		for _, n := range nodes {
			fmt.Fprintf(sb, "%s .%s:\n", ind, n.Key())
			dumpElem(sb, n.Element(), ind+"  ", true)
		}
	case *crdt.Array:
		fmt.Fprintf(sb, "%sarr %s\n", ind, hdr)
		for _, n := range v.RGATreeList().AllNodes() {
			if n.Element() == nil {
				fmt.Fprintf(sb, "%s [dead pos=%s rm=%s]\n", ind, tk(n.PositionCreatedAt()), tk(n.RemovedAt()))
				continue
			}
			fmt.Fprintf(sb, "%s [pos=%s moved=%s]\n", ind, tk(n.PositionCreatedAt()), tk(n.PositionMovedAt()))
			dumpElem(sb, n.Element(), ind+"  ", false)
		}
	case *crdt.Primitive:
		fmt.Fprintf(sb, "%sprim %s t=%d v=%s\n", ind, hdr, v.ValueType(), v.Marshal())
	case *crdt.Counter:
		fmt.Fprintf(sb, "%scnt %s t=%d v=%s hll=%x\n", ind, hdr, v.ValueType(), v.Marshal(), v.HLLBytes())
	case *crdt.Text:
		fmt.Fprintf(sb, "%stext %s\n", ind, hdr)
		for _, n := range v.Nodes() {
			ip := "-"
			if n.InsPrevID() != nil {
				ip = fmt.Sprintf("%s/%d", tk(n.InsPrevID().CreatedAt()), n.InsPrevID().Offset())
			}
			fmt.Fprintf(sb, "%s <%s/%d rm=%s insprev=%s %q %s>\n", ind, tk(n.ID().CreatedAt()), n.ID().Offset(),
				tk(n.RemovedAt()), ip, n.Value().Value(), rhtDump(n.Value().Attrs()))
		}
	case *crdt.Tree:
		fmt.Fprintf(sb, "%stree %s\n", ind, hdr)
		index.TraverseNode(v.Root().Index, func(node *index.Node[*crdt.TreeNode], depth int) {
			n := node.Value
			fmt.Fprintf(sb, "%s (d=%d id=%s type=%s val=%q rm=%s ip=%s in=%s mf=%s ma=%s attrs=%s)\n", ind, depth,
				treeIDDump(n.ID()), n.Type(), n.Value, tk(n.RemovedAt()), treeIDDump(n.InsPrevID), treeIDDump(n.InsNextID),
				treeIDDump(n.MergedFrom), tk(n.MergedAt), rhtDump(n.Attrs))
		})
	default:
		fmt.Fprintf(sb, "%s?%T %s\n", ind, e, hdr)
	}
}

// dump returns the physical dump of an element.
func dump(e crdt.Element) string {
	var sb strings.Builder
	dumpElem(&sb, e, "", true)
	return sb.String()
}

// firstDiff renders the first differing line of two dumps.
func firstDiff(a, b string) string {
	la, lb := strings.Split(a, "\n"), strings.Split(b, "\n")
	for i := 0; i < len(la) || i < len(lb); i++ {
		var x, y string
		if i < len(la) {
			x = la[i]
		}
		if i < len(lb) {
			y = lb[i]
		}
		if x != y {
			return fmt.Sprintf("line %d:\n   original: %s\n    decoded: %s", i+1, strings.TrimSpace(x), strings.TrimSpace(y))
		}
	}
	return "(no difference)"
}

func hash64(parts ...[]byte) uint64 {
	h := fnv.New64a()
	for _, p := range parts {
		_, _ = h.Write(p)
		_, _ = h.Write([]byte{0xff})
	}
	return h.Sum64()
}
