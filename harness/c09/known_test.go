package c09

import (
	"encoding/base64"
	"encoding/binary"
	"fmt"
	"os"
	"testing"

	"verifharness/kit"
	"verifharness/prog"
)

// knownCases are the minimal triggers of the defects this check found on the
// pinned tree (see exclusions_test.go). TestC09WriteKnown re-creates their
// replay files under $C09_WRITE_KNOWN (run with VERIF_NO_EXCLUSIONS=1).
var knownCases = []struct {
	id   string
	c    Case
	reps int
}{
	{findingMemberTombstone, Case{N: 2, Steps: []prog.Step{{Who: 0, Op: "replArr"}, {Who: 0, Op: "replArr"}}}, 60},
	{findingGarbageLeak, Case{N: 2, SrvGC: true, Steps: []prog.Step{{Who: 0, Op: "undo"}, {Who: 1, Op: "trdel"}}}, 3},
	{findingTextAttr, Case{N: 2, Steps: []prog.Step{{Who: 0, Op: "tedit", C: 1}, {Who: 0, Op: "tstyle", B: 1}, {Who: 0, Op: "undo"}}}, 3},
	{"F6", Case{N: 2, Steps: []prog.Step{{Who: 0, Op: "replText"}, {Who: 0, Op: "replText"}, {Who: 0, Op: "undo"}}}, 3},
	{findingMergeSplit, Case{N: 2, Steps: []prog.Step{{Who: 0, Op: "trmerge"}, {Who: 0, Op: "trsplit", B: 1}, {Who: 0, Op: "sync"}, {Who: 1, Op: "trtext", A: 1}}}, 3},
	{findingArraySetGC, Case{N: 2, SrvGC: true, Steps: []prog.Step{{Who: 1, Op: "replArr"}, {Who: 1, Op: "aset"}, {Who: 1, Op: "sync"}, {Who: 0, Op: "sync"}, {Who: 0, Op: "snap"}, {Who: 1, Op: "sync"}, {Who: 0, Op: "sync"}}}, 3},
	{findingSpanOrder, Case{N: 2, Steps: []prog.Step{{Who: 0, Op: "tedit", C: 2}, {Who: 0, Op: "tedit", C: 1}, {Who: 0, Op: "tedit", B: 3}, {Who: 0, Op: "undo"}}}, 200},
}

func zstdBomb() []byte {
	b := []byte{0x01, 0x28, 0xB5, 0x2F, 0xFD, 0xC0, 0x00} // format byte, zstd magic, 8-byte content size, 1 KiB window
	b = binary.LittleEndian.AppendUint64(b, 1<<36)        // declares 64 GiB of content
	return append(b, 0x01, 0x00, 0x00)                    // one empty last block
}

func TestC09WriteKnown(t *testing.T) {
	dir := os.Getenv("C09_WRITE_KNOWN")
	if dir == "" {
		t.Skip("C09_WRITE_KNOWN not set")
	}
	if !kit.NoExclusions() {
		t.Fatal("run with VERIF_NO_EXCLUSIONS=1")
	}
	t.Setenv("VERIF_REPLAY_DIR", dir)
	for _, k := range knownCases {
		var fail *kit.Failure
		var hist []string
		n := 0
		for i := 0; i < k.reps; i++ {
			if f, h := runCase(k.c, nil); f != nil {
				n++
				if fail == nil {
					fail, hist = f, h
				}
			}
		}
		if fail == nil {
			t.Errorf("%s: case does not fail in %d repetitions", k.id, k.reps)
			continue
		}
		path := kit.WriteReplay("C09", "roundtrip", k.id+"-C09", k.c, fail, hist)
		fmt.Printf("%s: fails %d/%d: %s\n  -> %s\n", k.id, n, k.reps, firstLine(fail.Error()), path)
	}
	in := hostileInput{Decoder: "DecompressSnapshot", Input: base64.StdEncoding.EncodeToString(zstdBomb()),
		Note: "zstd frame header declaring 64 GiB of content in 18 bytes"}
	v := runDecoder(in.Decoder, zstdBomb(), false)
	if fail := failureOf(in.Decoder, v); fail != nil {
		path := kit.WriteReplay("C09", "hostile", findingZstd+"-C09", in, fail, nil)
		fmt.Printf("%s: %s\n  -> %s\n", findingZstd, firstLine(fail.Error()), path)
	} else {
		t.Errorf("%s: the process survived (this machine can reserve 64 GiB): %+v", findingZstd, v)
	}
}
