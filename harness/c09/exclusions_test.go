package c09

import (
	"github.com/yorkie-team/yorkie/pkg/document"
	"github.com/yorkie-team/yorkie/pkg/document/crdt"
	"github.com/yorkie-team/yorkie/pkg/document/operations"

	"verifharness/kit"
	"verifharness/prog"
)

// Exclusions by construction for real defects of the pinned tree that this
// check found (see SPEC.py.txt / the builder report). Each predicate looks at
// the state that triggers the defect, never at an output; a matching step is
// not executed (or executed in a reduced form) and counted under
// "excluded:<id>". VERIF_NO_EXCLUSIONS=1 switches them off.

const (
	// findingMemberTombstone: fromJSONObject re-plays the last-writer-wins
	// race while rebuilding an object, in Go map order; an overwritten member
	// that is decoded after the key's current occupant gets its removedAt
	// raised to the occupant's ticket. The decoded tombstone carries a later
	// ticket than the original (purged later; GarbageLen after the same
	// collection differs), and which members are hit varies from run to run.
	findingMemberTombstone = "F41"

	// findingGarbageLeak: Root.GarbageCollect purges a removed container
	// (tree/text) but keeps the GC pairs of tombstoned nodes inside it whose
	// own removedAt is not covered yet; GarbageLen() then counts nodes that
	// are no longer part of the document. No encoding of the document's
	// value can carry them (the in-memory DeepCopy loses them too), so the
	// "keeps GarbageLen" clause cannot be decided on such a document.
	findingGarbageLeak = "F42"
)

// findingTextAttr (upstream-known, docs/tasks/active/20260816-remote-redo-
// replica-divergence-todo.md "a text node's tombstoned attribute is resurrected
// by a snapshot round trip"): toTextNodes never writes NodeAttr.is_removed and
// fromTextNode always builds a live attribute, so a style key removed from a
// text node (e.g. by undoing the Style that added it) is back after
// BytesToSnapshot(SnapshotToBytes(d)).
const findingTextAttr = "F43"

// findingMergeSplit: after a paragraph merge followed by an element split in
// the merged paragraph, a snapshot no longer behaves like the document it was
// taken from: a concurrent remote insert anchored in the merged-away parent
// lands in the left half on the original and in the right half on
// BytesToSnapshot(SnapshotToBytes(d)) (the merge relation is rebuilt from
// MergedFrom only). Trigger: a tree holding both a merged node and a split
// element.
const findingMergeSplit = "F45"

func mergedAndSplitTree(e crdt.Element) bool {
	switch v := e.(type) {
	case *crdt.Object:
		for _, n := range v.RHTNodes() {
			if mergedAndSplitTree(n.Element()) {
				return true
			}
		}
	case *crdt.Array:
		for _, n := range v.RGATreeList().AllNodes() {
			if n.Element() != nil && mergedAndSplitTree(n.Element()) {
				return true
			}
		}
	case *crdt.Tree:
		merged, split := false, false
		for _, n := range v.Nodes() {
			if n.MergedFrom != nil {
				merged = true
			}
			if !n.IsText() && (n.InsPrevID != nil || n.InsNextID != nil) {
				split = true
			}
		}
		return merged && split
	}
	return false
}

// findingMergeIntoRemoved: a paragraph merge whose TARGET paragraph was removed
// concurrently moves the source's children under a tombstone. When the target
// is purged, the executing document unlinks it from the index tree but keeps the
// moved-in children in Tree.NodeMapByID (they were not part of the subtree
// registered at the removal): hidden state that no snapshot carries. A change
// of a client that has not seen the merge yet still resolves them there (and
// has no visible effect), while on BytesToSnapshot(SnapshotToBytes(d)) the same
// change fails with "node not found". Minimal: c1 deletes p0, syncs; c0 (has not
// seen it) merges p0 with p1, syncs; c1 deletes a character of the old p1; the
// server collects at the minimum vector; c1's change applies to the server
// document and fails on its snapshot. Trigger: a tree whose id map holds nodes
// that are not in the index tree, or a node with MergedFrom under a removed parent.
const findingMergeIntoRemoved = "F53"

func mergedIntoRemovedParent(e crdt.Element) bool {
	switch v := e.(type) {
	case *crdt.Object:
		for _, n := range v.RHTNodes() {
			if mergedIntoRemovedParent(n.Element()) {
				return true
			}
		}
	case *crdt.Array:
		for _, n := range v.RGATreeList().AllNodes() {
			if n.Element() != nil && mergedIntoRemovedParent(n.Element()) {
				return true
			}
		}
	case *crdt.Tree:
		inIndex := 0
		var walk func(n *crdt.TreeNode) bool
		walk = func(n *crdt.TreeNode) bool {
			inIndex++
			for _, c := range n.Index.Children(true) {
				if c.Value.MergedFrom != nil && n.IsRemoved() {
					return true
				}
				if walk(c.Value) {
					return true
				}
			}
			return false
		}
		if walk(v.Root()) {
			return true
		}
		return v.NodeMapByID.Len() != inIndex
	}
	return false
}

// findingArraySetGC (upstream TODO in operations/array_set.go: "GC logic is
// not implemented here"): ArraySet tombstones the element it replaces without
// registering it for garbage collection, so a document that executed the
// operation never purges that tombstone while BytesToSnapshot(SnapshotToBytes
// (d)) (which registers every tombstone it finds) does: GarbageLen and the
// physical nodes differ after the next collection. Once a server document has
// executed an ArraySet, the server-side collection is not run on it and its
// twins.
const findingArraySetGC = "F46"

// snapshotExclusion names the known finding whose trigger the document holds
// (its snapshot round trip is then not compared), or "".
func snapshotExclusion(doc *document.InternalDocument) string {
	if kit.NoExclusions() {
		return ""
	}
	switch {
	case staleMemberTombstone(doc.RootObject()):
		return findingMemberTombstone
	case removedTextAttr(doc.RootObject()):
		return findingTextAttr
	case mergedAndSplitTree(doc.RootObject()):
		return findingMergeSplit
	case mergedIntoRemovedParent(doc.RootObject()):
		return findingMergeIntoRemoved
	case removedTreeNodeWithRemovedAttr(doc.RootObject()):
		return findingRemovedNodeAttr
	case leakedGarbage(doc):
		return findingGarbageLeak
	}
	return ""
}

// findingRemovedNodeAttr: a tree element that is itself REMOVED and carries a
// removed attribute (RemoveStyle before the element was deleted): the original
// document purges the attribute tombstone with the next collection that covers
// it, BytesToSnapshot(SnapshotToBytes(d)) keeps it (`b="" rm=true` on the
// removed <p>) - the decoded root does not register attribute tombstones of
// tombstoned tree elements for collection. Same family as F42/F43; found by the
// thorough tier at seed 3 (replays/known/F68-C09.json).
const findingRemovedNodeAttr = "F68"

func removedTreeNodeWithRemovedAttr(e crdt.Element) bool {
	switch v := e.(type) {
	case *crdt.Object:
		for _, n := range v.RHTNodes() {
			if removedTreeNodeWithRemovedAttr(n.Element()) {
				return true
			}
		}
	case *crdt.Array:
		for _, n := range v.RGATreeList().AllNodes() {
			if n.Element() != nil && removedTreeNodeWithRemovedAttr(n.Element()) {
				return true
			}
		}
	case *crdt.Tree:
		for _, n := range v.Nodes() {
			if n.IsRemoved() && n.Attrs != nil {
				for _, a := range n.Attrs.Nodes() {
					if a.IsRemoved() {
						return true
					}
				}
			}
		}
	}
	return false
}

// removedTextAttr reports whether some text node holds a tombstoned
// attribute: the trigger of findingTextAttr.
func removedTextAttr(e crdt.Element) bool {
	switch v := e.(type) {
	case *crdt.Object:
		for _, n := range v.RHTNodes() {
			if removedTextAttr(n.Element()) {
				return true
			}
		}
	case *crdt.Array:
		for _, n := range v.RGATreeList().AllNodes() {
			if n.Element() != nil && removedTextAttr(n.Element()) {
				return true
			}
		}
	case *crdt.Text:
		for _, n := range v.Nodes() {
			for _, a := range n.Value().Attrs().Nodes() {
				if a.IsRemoved() {
					return true
				}
			}
		}
	}
	return false
}

// findingSpanOrder: RGATreeSplit.deleteNodes returns the removed nodes as a
// Go map, so the restore spans of the reverse of a text edit that removed two
// or more nodes are in a different order from run to run (RGATreeSplit.restore
// assumes document order). Not an encoding defect, but two executions of the
// same history are then not comparable; undo/redo steps whose top entry holds
// such an Edit are not executed.
const findingSpanOrder = "F44"

// guardSpanOrder is the step guard of findingSpanOrder.
func guardSpanOrder(d *document.Document, s prog.Step) string {
	var top []document.HistoryOperation
	switch s.Op {
	case "undo":
		top = d.UndoStackTopForTest()
	case "redo":
		top = d.RedoStackTopForTest()
	default:
		return ""
	}
	for _, h := range top {
		if e, ok := h.Op.(*operations.Edit); ok && (len(e.RestoreSpans()) > 1 || len(e.RetombstoneSpans()) > 1) {
			return findingSpanOrder
		}
	}
	return ""
}

func excl(id string) bool { return !kit.NoExclusions() && id != "" }

// leakedGarbage reports whether the document counts garbage that its own
// in-memory deep copy does not contain: the trigger of findingGarbageLeak.
func leakedGarbage(doc *document.InternalDocument) bool {
	cp, err := doc.DeepCopy()
	return err == nil && cp.GarbageLen() != doc.GarbageLen()
}

// staleMemberTombstone reports whether some object (at any depth) holds a
// removed member whose removedAt is older than the ticket that positioned the
// current occupant of its key: the trigger of findingMemberTombstone.
func staleMemberTombstone(e crdt.Element) bool {
	switch v := e.(type) {
	case *crdt.Object:
		nodes := v.RHTNodes()
		occupant := map[string]*crdt.ElementRHTNode{}
		for _, n := range nodes {
			if o, ok := occupant[n.Key()]; !ok || crdt.PositionedAt(n.Element()).After(crdt.PositionedAt(o.Element())) {
				occupant[n.Key()] = n
			}
		}
		for _, n := range nodes {
			o := occupant[n.Key()]
			if n != o && n.Element().RemovedAt() != nil && crdt.PositionedAt(o.Element()).After(n.Element().RemovedAt()) {
				return true
			}
		}
		for _, n := range nodes {
			if staleMemberTombstone(n.Element()) {
				return true
			}
		}
	case *crdt.Array:
		for _, n := range v.RGATreeList().AllNodes() {
			if n.Element() != nil && staleMemberTombstone(n.Element()) {
				return true
			}
		}
	}
	return false
}
