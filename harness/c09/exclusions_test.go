package c09

import (
	"github.com/yorkie-team/yorkie/pkg/document"
	"github.com/yorkie-team/yorkie/pkg/document/crdt"

	"verifharness/kit"
)

// Exclusions by construction for real defects of the pinned tree that this
// check found (see SPEC.py.txt / the builder report). Each predicate looks at
// the state that triggers the defect, never at an output; a matching step is
// not executed (or executed in a reduced form) and counted under
// "excluded:<id>". VERIF_NO_EXCLUSIONS=1 switches them off.

const (
	// findingMemberTombstone: fromJSONObject re-plays the last-writer-wins
	// race while rebuilding an object, in Go map order; an overwritten member
	// that is decoded after the key's current occupant gets its removedAt
	// raised to the occupant's ticket. The decoded tombstone carries a later
	// ticket than the original (purged later; GarbageLen after the same
	// collection differs), and which members are hit varies from run to run.
	findingMemberTombstone = "F22"

	// findingGarbageLeak: Root.GarbageCollect purges a removed container
	// (tree/text) but keeps the GC pairs of tombstoned nodes inside it whose
	// own removedAt is not covered yet; GarbageLen() then counts nodes that
	// are no longer part of the document. No encoding of the document's
	// value can carry them (the in-memory DeepCopy loses them too), so the
	// "keeps GarbageLen" clause cannot be decided on such a document.
	findingGarbageLeak = "F23"
)

func excl(id string) bool { return !kit.NoExclusions() && id != "" }

// leakedGarbage reports whether the document counts garbage that its own
// in-memory deep copy does not contain: the trigger of findingGarbageLeak.
func leakedGarbage(doc *document.InternalDocument) bool {
	cp, err := doc.DeepCopy()
	return err == nil && cp.GarbageLen() != doc.GarbageLen()
}

// staleMemberTombstone reports whether some object (at any depth) holds a
// removed member whose removedAt is older than the ticket that positioned the
// current occupant of its key: the trigger of findingMemberTombstone.
func staleMemberTombstone(e crdt.Element) bool {
	switch v := e.(type) {
	case *crdt.Object:
		nodes := v.RHTNodes()
		occupant := map[string]*crdt.ElementRHTNode{}
		for _, n := range nodes {
			if o, ok := occupant[n.Key()]; !ok || crdt.PositionedAt(n.Element()).After(crdt.PositionedAt(o.Element())) {
				occupant[n.Key()] = n
			}
		}
		for _, n := range nodes {
			o := occupant[n.Key()]
			if n != o && n.Element().RemovedAt() != nil && crdt.PositionedAt(o.Element()).After(n.Element().RemovedAt()) {
				return true
			}
		}
		for _, n := range nodes {
			if staleMemberTombstone(n.Element()) {
				return true
			}
		}
	case *crdt.Array:
		for _, n := range v.RGATreeList().AllNodes() {
			if n.Element() != nil && staleMemberTombstone(n.Element()) {
				return true
			}
		}
	}
	return false
}
