package c09

import (
	gojson "encoding/json"
	"fmt"
	"sort"
	"strings"
	"testing"

	"pgregory.net/rapid"

	"verifharness/kit"
	"verifharness/prog"
	"verifharness/stats"
)

func init() { kit.Pkg = "c09" }

// editKinds is the C01 alphabet plus undo/redo (restore spans, reverse style
// operations) and presence.
var editKinds = append(append([]string{}, prog.AllEditKinds...), "undo", "pres")

// genCase draws a round-trip history as a plain value.
func genCase() *rapid.Generator[Case] {
	maxSteps := kit.Pick(40, 64)
	return rapid.Custom(func(t *rapid.T) Case {
		c := Case{
			N:        rapid.IntRange(2, 3).Draw(t, "n"),
			SrvGC:    rapid.IntRange(0, 1).Draw(t, "srvgc") > 0,
			PresMask: rapid.IntRange(0, 31).Draw(t, "presmask"),
		}
		// a history edits a drawn subset of the element kinds so that edits,
		// deletes and undos collide on the same containers
		mask := 0
		for i, nk := 0, rapid.IntRange(1, 4).Draw(t, "nkinds"); i < nk; i++ {
			mask |= 1 << rapid.IntRange(0, len(editKinds)-1).Draw(t, "kind")
		}
		if rapid.IntRange(0, 4).Draw(t, "allkinds") == 0 {
			mask = (1 << len(editKinds)) - 1
		}
		if mask&(1<<6) != 0 { // text style needs text to style
			mask |= 1 << 5
		}
		var edits []string
		for i, k := range editKinds {
			if mask&(1<<i) != 0 {
				edits = append(edits, prog.OpsByKind[k]...)
			}
		}
		if mask&(1<<8) != 0 { // tree in focus: splits and merges too
			edits = append(edits, treeExtraOps...)
		}
		if mask&3 != 0 || rapid.IntRange(0, 3).Draw(t, "prims") == 0 { // objects/arrays in focus: every primitive kind
			edits = append(edits, primOps...)
		}
		pool := append([]string{}, edits...)
		if mask&(1<<(len(editKinds)-2)) != 0 { // undo in focus: make it frequent
			pool = append(pool, "undo", "undo", "redo")
		}
		nSync := max(3, len(pool)/4)
		for i := 0; i < nSync; i++ {
			pool = append(pool, "sync")
		}
		for i := 0; i < max(2, len(pool)/10); i++ {
			pool = append(pool, "snap")
		}
		pool = append(pool, "late")
		nSteps := rapid.IntRange(2, maxSteps).Draw(t, "nsteps")
		c.Steps = prog.GenSteps(t, "steps", c.N, pool, nSteps, nSteps)
		if rapid.IntRange(0, 2).Draw(t, "offline") > 0 {
			// one replica stays offline for a stretch: its later changes are
			// anchored on elements the others have deleted or moved meanwhile
			who := rapid.IntRange(0, c.N-1).Draw(t, "offwho")
			from := rapid.IntRange(0, len(c.Steps)).Draw(t, "offfrom")
			to := rapid.IntRange(from, len(c.Steps)).Draw(t, "offto")
			for i := from; i < to; i++ {
				s := &c.Steps[i]
				if s.Who%c.N == who && s.Op == "sync" {
					s.Op = edits[(s.A+s.B*8)%len(edits)]
				}
			}
		}
		return c
	})
}

func caseJSON(c Case) []byte {
	b, _ := gojson.Marshal(c)
	return b
}

// optionalShapes are the classes that make a round-trip case non-trivial.
func nonTrivialRT(cl map[string]int) bool {
	for k, v := range cl {
		if v > 0 && strings.HasPrefix(k, "shape:") {
			return true
		}
	}
	return cl["undo_redo_executed"] > 0
}

func flatten(cl map[string]int) map[string]int {
	out := map[string]int{}
	for k, v := range cl {
		if v > 0 {
			out[k] = 1
		}
	}
	return out
}

// TestC09RoundTrip: encodings of everything a generated history produces are
// lossless (behavioural equivalence of direct and encoded delivery).
func TestC09RoundTrip(t *testing.T) {
	col := stats.New("C09", "roundtrip")
	var best *Case
	var bestFail *kit.Failure
	var bestHist []string
	defer func() {
		if best != nil {
			path := kit.WriteReplay("C09", "roundtrip", fmt.Sprintf("roundtrip-%016x", hash64(caseJSON(*best))), best, bestFail, bestHist)
			col.AddViolation(stats.Violation{Replay: path, Kind: bestFail.Kind, Msg: bestFail.Msg})
			kit.ReportViolation("C09", path, bestFail)
			fmt.Println("  history:")
			for _, h := range bestHist {
				fmt.Println("    " + h)
			}
		}
		col.Flush(true)
	}()
	gen := genCase()
	rapid.Check(t, func(rt *rapid.T) {
		c := gen.Draw(rt, "case")
		ob := &observer{classes: map[string]int{}}
		fail, hist := runCase(c, ob)
		if fail != nil && fail.Kind == "HARNESS" {
			fmt.Printf("HARNESS-ERROR property=C09 %s\n", fail.Msg)
			rt.Fatalf("harness error: %s", fail.Msg)
		}
		col.Record(hash64(caseJSON(c)), fail == nil && nonTrivialRT(ob.classes), flatten(ob.classes), func() any {
			h := hist
			if len(h) > 30 {
				h = append(append([]string{}, h[:30]...), fmt.Sprintf("... (%d more)", len(hist)-30))
			}
			var shapes []string
			for k := range ob.classes {
				if strings.HasPrefix(k, "shape:") {
					shapes = append(shapes, k[6:])
				}
			}
			sort.Strings(shapes)
			return map[string]any{"case": string(caseJSON(c)), "history": h, "shapes": shapes}
		})
		if fail != nil {
			if best == nil || len(c.Steps) < len(best.Steps) {
				cc := c
				best, bestFail, bestHist = &cc, fail, hist
			}
			rt.Fatalf("%s", fail.Error())
		}
	})
}

func replayRoundTrip(raw gojson.RawMessage) *kit.Failure {
	var c Case
	if err := gojson.Unmarshal(raw, &c); err != nil {
		return kit.Failf("HARNESS", "bad case: %v", err)
	}
	fail, hist := runCase(c, nil)
	if fail != nil {
		for _, h := range hist {
			fmt.Println("    " + h)
		}
	}
	return fail
}
