// Package kit holds the small helpers every check package shares: tier and
// shard environment, replay files, and the replay entry point.
package kit

import (
	"encoding/json"
	"fmt"
	"os"
	"path/filepath"
	"strconv"
	"testing"
)

// EnvInt reads an integer environment variable.
func EnvInt(name string, def int) int {
	if v := os.Getenv(name); v != "" {
		if n, err := strconv.Atoi(v); err == nil {
			return n
		}
	}
	return def
}

// Thorough reports whether the thorough tier is running.
func Thorough() bool { return os.Getenv("VERIF_TIER") == "thorough" }

// Pick returns q in the quick tier and th in the thorough tier.
func Pick(q, th int) int {
	if Thorough() {
		return th
	}
	return q
}

// Shard returns (index, count) of this process among the check's shards.
func Shard() (int, int) { return EnvInt("VERIF_SHARD", 0), EnvInt("VERIF_SHARDS", 1) }

// Seed returns VERIF_SEED (default 1).
func Seed() int { return EnvInt("VERIF_SEED", 1) }

// Checks returns the per-shard case budget the driver passed (VERIF_CHECKS).
func Checks(def int) int { return EnvInt("VERIF_CHECKS", def) }

// NoExclusions reports whether known-finding exclusions are switched off
// (used when replaying a listed known finding).
func NoExclusions() bool { return os.Getenv("VERIF_NO_EXCLUSIONS") != "" }

// Failure is an oracle verdict; nil means the property held.
type Failure struct {
	Kind string
	Msg  string
}

func (f *Failure) Error() string { return f.Kind + ": " + f.Msg }

// Failf builds a failure.
func Failf(kind, format string, a ...any) *Failure {
	return &Failure{Kind: kind, Msg: fmt.Sprintf(format, a...)}
}

// ReplayFile is the on-disk form of a failing case.
type ReplayFile struct {
	Prop    string          `json:"prop"`
	Kind    string          `json:"kind"` // name of the registered replayer
	Case    json.RawMessage `json:"case,omitempty"`
	Failure string          `json:"failure"`
	History []string        `json:"history,omitempty"`
	Race    bool            `json:"race,omitempty"`
	Pkg     string          `json:"pkg,omitempty"`
}

// Pkg and Race describe the test binary that can replay the files this
// process writes; set them in an init() of the check package.
var (
	Pkg  = "props"
	Race = false
)

// WriteReplay stores a failing case under $VERIF_REPLAY_DIR/<prop>/ and
// returns the path. c is marshalled as the "case" field.
func WriteReplay(prop, kind, name string, c any, fail *Failure, history []string) string {
	d := os.Getenv("VERIF_REPLAY_DIR")
	if d == "" {
		d = filepath.Join(os.TempDir(), "verif-replays")
	}
	d = filepath.Join(d, prop)
	_ = os.MkdirAll(d, 0o755)
	raw, _ := json.Marshal(c)
	rf := ReplayFile{Prop: prop, Kind: kind, Case: raw, Failure: fail.Error(), History: history, Pkg: Pkg, Race: Race}
	b, _ := json.MarshalIndent(rf, "", " ")
	path := filepath.Join(d, name+".json")
	_ = os.WriteFile(path, b, 0o644)
	return path
}

// ReportViolation prints the line the driver looks for.
func ReportViolation(prop, path string, fail *Failure) {
	fmt.Printf("VIOLATION-FOUND property=%s replay=%s kind=%s\n  failure: %s\n", prop, path, fail.Kind, fail.Error())
}

// Replayer re-executes one saved case and returns its verdict.
type Replayer func(raw json.RawMessage) *Failure

// Replay implements a package's TestReplay: it loads $VERIF_REPLAY, finds the
// replayer registered for its kind, runs it $VERIF_REPLAY_REPS times (default
// 5) and prints REPLAY-RESULT pass|fail.
func Replay(t *testing.T, replayers map[string]Replayer) {
	path := os.Getenv("VERIF_REPLAY")
	if path == "" {
		t.Skip("VERIF_REPLAY not set")
	}
	b, err := os.ReadFile(path)
	if err != nil {
		t.Fatalf("HARNESS-ERROR read replay: %v", err)
	}
	var rf ReplayFile
	if err := json.Unmarshal(b, &rf); err != nil {
		t.Fatalf("HARNESS-ERROR parse replay: %v", err)
	}
	rp, ok := replayers[rf.Kind]
	if !ok {
		t.Fatalf("HARNESS-ERROR no replayer for kind %q in this package", rf.Kind)
	}
	reps := EnvInt("VERIF_REPLAY_REPS", 5)
	var fail *Failure
	for i := 0; i < reps && fail == nil; i++ {
		fail = rp(rf.Case)
	}
	if fail != nil {
		fmt.Printf("REPLAY-RESULT fail property=%s %s\n", rf.Prop, fail.Error())
		t.Fatalf("replay violates %s", rf.Prop)
	}
	fmt.Printf("REPLAY-RESULT pass property=%s\n", rf.Prop)
}
