package kit

import (
	"encoding/json"
	"fmt"
	"os"
	"os/exec"
	"path/filepath"
	"strings"
	"sync"
)

// capWriter tees to stdout and keeps the last part of the output.
type capWriter struct {
	mu  sync.Mutex
	buf []byte
}

func (c *capWriter) Write(p []byte) (int, error) {
	c.mu.Lock()
	defer c.mu.Unlock()
	c.buf = append(c.buf, p...)
	if len(c.buf) > 1<<20 {
		c.buf = append([]byte{}, c.buf[len(c.buf)-(1<<19):]...)
	}
	return os.Stdout.Write(p)
}

type inflightFile struct {
	Part string          `json:"part"`
	Kind string          `json:"kind"`
	Name string          `json:"name"`
	Case json.RawMessage `json:"case"`
}

// Supervise runs the test binary again as a child (with GORACE=halt_on_error=1)
// and turns a death of the child by a data race report or an unrecoverable
// panic into a recorded violation whose replay file is the case that was in
// flight. Call it from TestMain when the environment variable childEnv is not set.
func Supervise(prop, childEnv string) int {
	inflightEnv := childEnv + "_INFLIGHT"
	dir, err := os.MkdirTemp("", "verif-inflight-")
	if err != nil {
		fmt.Printf("HARNESS-ERROR property=%s cannot create temp dir: %v\n", prop, err)
		return 2
	}
	defer func() { _ = os.RemoveAll(dir) }()
	inflight := filepath.Join(dir, "case.json")
	exe, err := os.Executable()
	if err != nil {
		exe = os.Args[0]
	}
	cmd := exec.Command(exe, os.Args[1:]...)
	gorace := strings.TrimSpace("halt_on_error=1 " + os.Getenv("GORACE"))
	cmd.Env = append(os.Environ(), childEnv+"=1", inflightEnv+"="+inflight, "GORACE="+gorace)
	cw := &capWriter{}
	cmd.Stdout, cmd.Stderr = cw, cw
	cmd.Stdin = nil
	runErr := cmd.Run()
	if runErr == nil {
		return 0
	}
	code := 1
	if ee, ok := runErr.(*exec.ExitError); ok {
		if c := ee.ExitCode(); c > 0 {
			code = c
		}
	} else {
		fmt.Printf("HARNESS-ERROR property=%s cannot run child: %v\n", prop, runErr)
		return 2
	}
	out := string(cw.buf)
	if strings.Contains(out, "VIOLATION-FOUND") || strings.Contains(out, "HARNESS-ERROR") ||
		strings.Contains(out, "REPLAY-RESULT") || strings.Contains(out, "test timed out") {
		return code
	}
	kind, msg := "", ""
	lines := strings.Split(out, "\n")
	for i, l := range lines {
		switch {
		case strings.Contains(l, "WARNING: DATA RACE"):
			kind = "DATA-RACE"
			msg = strings.Join(lines[i:min(len(lines), i+40)], "\n")
		case strings.HasPrefix(l, "panic: ") || strings.HasPrefix(l, "fatal error: "):
			kind = "CRASH"
			msg = strings.Join(lines[i:min(len(lines), i+30)], "\n")
		}
		if kind != "" {
			break
		}
	}
	if kind == "" {
		return code
	}
	fail := Failf(kind, "the test process died while executing this case:\n%s", msg)
	if os.Getenv("VERIF_REPLAY") != "" {
		fmt.Printf("REPLAY-RESULT fail property=%s %s\n", prop, fail.Error())
		return 1
	}
	b, err := os.ReadFile(inflight)
	var inf inflightFile
	if err != nil || json.Unmarshal(b, &inf) != nil {
		// died outside any case: nothing to replay; leave the verdict to the driver
		return code
	}
	path := WriteReplay(prop, inf.Kind, inf.Name+"-crash", inf.Case, fail, nil)
	ReportViolation(prop, path, fail)
	patchShardFile(prop, inf.Part, path, fail)
	return 1
}

// patchShardFile adds the violation to the shard statistics the dead child
// flushed last (if any) and marks the shard done.
func patchShardFile(prop, part, replay string, fail *Failure) {
	out := os.Getenv("VERIF_OUT")
	if out == "" {
		return
	}
	path := out
	if part != "" {
		path = out + "." + part
	}
	sf := map[string]any{}
	if b, err := os.ReadFile(path); err == nil {
		_ = json.Unmarshal(b, &sf)
	}
	if len(sf) == 0 {
		sf = map[string]any{"prop": prop, "part": part, "evaluations": 0, "nontrivial_hashes": []string{},
			"classes": map[string]int{}, "excluded": map[string]int{}, "samples": []any{}, "notes": []string{}, "extra": map[string]any{}, "wall_s": 0}
	}
	vs, _ := sf["violations"].([]any)
	sf["violations"] = append(vs, map[string]any{"replay": replay, "kind": fail.Kind, "msg": fail.Msg})
	sf["done"] = true
	if b, err := json.Marshal(sf); err == nil {
		_ = os.WriteFile(path, b, 0o644)
	}
}

// setInflight records the case that is about to run so that the supervisor can
// attribute a process death to it.
// SetInflight records the case that is about to run (childEnv as given to Supervise).
func SetInflight(childEnv, part, kind, name string, c any) {
	path := os.Getenv(childEnv + "_INFLIGHT")
	if path == "" {
		return
	}
	raw, err := json.Marshal(c)
	if err != nil {
		return
	}
	b, _ := json.Marshal(inflightFile{Part: part, Kind: kind, Name: name, Case: raw})
	tmp := path + ".tmp"
	if os.WriteFile(tmp, b, 0o644) == nil {
		_ = os.Rename(tmp, path)
	}
}
