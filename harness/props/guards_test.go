package props

import (
	"os"

	"verifharness/prog"
)

// guardFor returns the exclusion guard for a property (nil when the
// environment variable VERIF_NO_EXCLUSIONS is set, used to re-confirm that
// the listed known findings still reproduce).
func guardFor(prop string, p prog.Program) prog.Guard {
	if os.Getenv("VERIF_NO_EXCLUSIONS") != "" {
		return nil
	}
	switch prop {
	case "C01", "C02", "C03":
		return prog.Chain(prog.GuardF2, gcGuard(prop, p))
	case "C15":
		// (F35: a range boundary inside a surrogate pair - with undo/redo the halves
		// are re-created from Go strings on purged replicas and revived as UTF-16
		// units elsewhere)
		return prog.Chain(prog.GuardF2, prog.GuardF35, prog.GuardF6, prog.GuardF10F11(p), prog.GuardF49, gcGuard(prop, p))
	}
	return nil
}

// gcGuard: the GC-related exclusion F48. C03 runs every program with GC on and
// off and must exclude the same steps in both, so it is always on there;
// elsewhere the GC-off stratum is not restricted.
func gcGuard(prop string, p prog.Program) prog.Guard {
	if prop == "C03" {
		return prog.GuardF48
	}
	return prog.GCGuard(p, prog.GuardF48)
}
