package props

import (
	"os"

	"verifharness/prog"
)

// guardFor returns the exclusion guard for a property (nil when the
// environment variable VERIF_NO_EXCLUSIONS is set, used to re-confirm that
// the listed known findings still reproduce).
func guardFor(prop string, p prog.Program) prog.Guard {
	if os.Getenv("VERIF_NO_EXCLUSIONS") != "" {
		return nil
	}
	return nil
}
