package props

import (
	"context"
	"encoding/json"
	"fmt"
	"testing"

	"github.com/yorkie-team/yorkie/client"
	"github.com/yorkie-team/yorkie/pkg/document"
	"github.com/yorkie-team/yorkie/pkg/document/crdt"
	yjson "github.com/yorkie-team/yorkie/pkg/document/json"
	"github.com/yorkie-team/yorkie/pkg/document/presence"
	"github.com/yorkie-team/yorkie/pkg/key"

	"verifharness/prog"
	"verifharness/stats"
	"verifharness/world"
)

// C19 — concurrent tree edits including merges, splits and styles converge
// pairwise. The five upstream matrices (test/complex/tree_concurrency_test.go)
// are re-expressed as data below and enumerated exhaustively: every
// (range row, op1, op2) x both sync orders x {without, with} a third passive
// client that attaches late and is fed by a snapshot. Nothing is skipped.

type rsel int

const (
	rFront rsel = iota + 1
	rMiddle
	rBack
	rAll
	rOneQ
	rThreeQ
)

type rwm struct{ from, mid, to int }
type tworanges struct {
	r    [2]rwm
	desc string
}

func mk(f1, m1, t1, f2, m2, t2 int, d string) tworanges {
	return tworanges{[2]rwm{{f1, m1, t1}, {f2, m2, t2}}, d}
}

func getRange(tr tworanges, sel rsel, user int) (int, int) {
	iv := tr.r[user]
	from, mid, to := iv.from, iv.mid, iv.to
	switch sel {
	case rFront:
		return from, from
	case rMiddle:
		return mid, mid
	case rBack:
		return to, to
	case rAll:
		return from, to
	case rOneQ:
		p := (from + mid + 1) / 2
		return p, p
	case rThreeQ:
		p := (mid + to) / 2
		return p, p
	}
	return -1, -1
}

func parseSimpleXML(s string) []string {
	var res []string
	for i := 0; i < len(s); i++ {
		cur := ""
		if s[i] == '<' {
			for i < len(s) && s[i] != '>' {
				cur += string(s[i])
				i++
			}
			cur += string(s[i])
		} else {
			cur += string(s[i])
		}
		res = append(res, cur)
	}
	return res
}

func getMergeRange(xml string, from, to int) (int, int) {
	content := parseSimpleXML(xml)
	st, ed := -1, -1
	for i := from + 1; i <= to; i++ {
		if st == -1 && len(content[i]) >= 2 && content[i][0] == '<' && content[i][1] == '/' {
			st = i - 1
		}
		if len(content[i]) >= 2 && content[i][0] == '<' && content[i][1] != '/' {
			ed = i
		}
	}
	return st, ed
}

type mop struct {
	kind    string // edit, merge, split, style, rmstyle
	sel     rsel
	content *yjson.TreeNode
	level   int
	k, v    string
	desc    string
}

func (op mop) run(d *document.Document, user int, tr tworanges) error {
	from, to := getRange(tr, op.sel, user)
	return d.Update(func(root *yjson.Object, p *presence.Presence) error {
		t := root.GetTree("t")
		switch op.kind {
		case "edit", "split":
			t.Edit(from, to, op.content, op.level)
		case "merge":
			f, e := getMergeRange(t.ToXML(), from, to)
			if f != -1 && e != -1 && f < e {
				t.Edit(f, e, op.content, op.level)
			}
		case "style":
			t.Style(from, to, map[string]string{op.k: op.v})
		case "rmstyle":
			t.RemoveStyle(from, to, []string{op.k})
		}
		return nil
	})
}

type matrix struct {
	name   string
	init   yjson.TreeNode
	xml    string
	ranges []tworanges
	ops1   []mop
	ops2   []mop
}

func tn(typ string, children ...yjson.TreeNode) yjson.TreeNode {
	return yjson.TreeNode{Type: typ, Children: children}
}
func tx(v string) yjson.TreeNode { return yjson.TreeNode{Type: "text", Value: v} }
func withAttr(n yjson.TreeNode, a map[string]string) yjson.TreeNode {
	n.Attributes = a
	return n
}

func matrices() []matrix {
	var ms []matrix
	// edit-edit
	{
		t1, t2 := &yjson.TreeNode{Type: "text", Value: "A"}, &yjson.TreeNode{Type: "text", Value: "B"}
		e1, e2 := &yjson.TreeNode{Type: "b", Children: []yjson.TreeNode{}}, &yjson.TreeNode{Type: "i", Children: []yjson.TreeNode{}}
		mkops := func(t, e *yjson.TreeNode) []mop {
			return []mop{
				{"edit", rFront, t, 0, "", "", "insertTextFront"},
				{"edit", rMiddle, t, 0, "", "", "insertTextMiddle"},
				{"edit", rBack, t, 0, "", "", "insertTextBack"},
				{"edit", rAll, t, 0, "", "", "replaceText"},
				{"edit", rFront, e, 0, "", "", "insertElementFront"},
				{"edit", rMiddle, e, 0, "", "", "insertElementMiddle"},
				{"edit", rBack, e, 0, "", "", "insertElementBack"},
				{"edit", rAll, e, 0, "", "", "replaceElement"},
				{"edit", rAll, nil, 0, "", "", "delete"},
				{"merge", rAll, nil, 0, "", "", "merge"},
			}
		}
		ms = append(ms, matrix{
			name: "edit-edit",
			init: tn("root", tn("p", tx("abc")), tn("p", tx("def")), tn("p", tx("ghi"))),
			xml:  `<root><p>abc</p><p>def</p><p>ghi</p></root>`,
			ranges: []tworanges{
				mk(0, 5, 10, 5, 10, 15, "intersect-element"),
				mk(1, 2, 3, 2, 3, 4, "intersect-text"),
				mk(0, 5, 15, 5, 5, 10, "contain-element"),
				mk(1, 2, 4, 2, 2, 3, "contain-text"),
				mk(0, 5, 15, 6, 7, 9, "contain-mixed-type"),
				mk(0, 5, 5, 5, 5, 10, "side-by-side-element"),
				mk(1, 1, 2, 2, 3, 4, "side-by-side-text"),
				mk(0, 5, 10, 0, 5, 10, "equal-element"),
				mk(1, 2, 4, 1, 2, 4, "equal-text"),
			},
			ops1: mkops(t1, e1), ops2: mkops(t2, e2),
		})
	}
	// split-split
	{
		ops := []mop{
			{"split", rFront, nil, 1, "", "", "split-front-1"},
			{"split", rOneQ, nil, 1, "", "", "split-one-quarter-1"},
			{"split", rThreeQ, nil, 1, "", "", "split-three-quarter-1"},
			{"split", rBack, nil, 1, "", "", "split-back-1"},
			{"split", rFront, nil, 2, "", "", "split-front-2"},
			{"split", rOneQ, nil, 2, "", "", "split-one-quarter-2"},
			{"split", rThreeQ, nil, 2, "", "", "split-three-quarter-2"},
			{"split", rBack, nil, 2, "", "", "split-back-2"},
		}
		ms = append(ms, matrix{
			name: "split-split",
			init: tn("root", tn("p", tn("p", tn("p", tn("p", tx("abcd")), tn("p", tx("efgh"))), tn("p", tx("ijkl"))))),
			xml:  `<root><p><p><p><p>abcd</p><p>efgh</p></p><p>ijkl</p></p></p></root>`,
			ranges: []tworanges{
				mk(3, 6, 9, 3, 6, 9, "equal-single"),
				mk(3, 9, 15, 3, 9, 15, "equal-multiple"),
				mk(3, 9, 15, 9, 12, 15, "A contains B same level"),
				mk(2, 16, 22, 9, 12, 15, "A contains B multiple level"),
				mk(3, 6, 9, 9, 12, 15, "B is next to A"),
			},
			ops1: ops, ops2: ops,
		})
	}
	// split-edit
	{
		it := map[string]string{"italic": "true"}
		content := &yjson.TreeNode{Type: "i", Children: []yjson.TreeNode{}}
		ms = append(ms, matrix{
			name: "split-edit",
			init: tn("root", tn("p",
				withAttr(tn("p", withAttr(tn("p", tx("abcd")), it), withAttr(tn("p", tx("efgh")), it)), it),
				withAttr(tn("p", tx("ijkl")), it))),
			xml: `<root><p><p italic="true"><p italic="true">abcd</p><p italic="true">efgh</p></p><p italic="true">ijkl</p></p></root>`,
			ranges: []tworanges{
				mk(2, 5, 8, 2, 5, 8, "equal"),
				mk(2, 5, 8, 4, 5, 6, "A contains B"),
				mk(2, 5, 8, 2, 8, 14, "B contains A"),
				mk(2, 5, 8, 3, 4, 5, "left node(text)"),
				mk(2, 5, 8, 5, 6, 7, "right node(text)"),
				mk(2, 8, 14, 2, 5, 8, "left node(element)"),
				mk(2, 8, 14, 8, 11, 14, "right node(element)"),
				mk(2, 5, 8, 8, 11, 14, "A -> B"),
				mk(8, 11, 14, 2, 5, 8, "B -> A"),
			},
			ops1: []mop{
				{"split", rMiddle, nil, 1, "", "", "split-1"},
				{"split", rMiddle, nil, 2, "", "", "split-2"},
			},
			ops2: []mop{
				{"edit", rFront, content, 0, "", "", "insertFront"},
				{"edit", rMiddle, content, 0, "", "", "insertMiddle"},
				{"edit", rBack, content, 0, "", "", "insertBack"},
				{"edit", rAll, content, 0, "", "", "replace"},
				{"edit", rAll, nil, 0, "", "", "delete"},
				{"merge", rAll, nil, 0, "", "", "merge"},
				{"style", rAll, nil, 0, "bold", "aa", "style"},
				{"rmstyle", rAll, nil, 0, "italic", "", "remove-style"},
			},
		})
	}
	// style-style
	{
		ops := []mop{
			{"rmstyle", rAll, nil, 0, "bold", "", "remove-bold"},
			{"style", rAll, nil, 0, "bold", "aa", "set-bold-aa"},
			{"style", rAll, nil, 0, "bold", "bb", "set-bold-bb"},
			{"rmstyle", rAll, nil, 0, "italic", "", "remove-italic"},
			{"style", rAll, nil, 0, "italic", "aa", "set-italic-aa"},
			{"style", rAll, nil, 0, "italic", "bb", "set-italic-bb"},
		}
		ms = append(ms, matrix{
			name: "style-style",
			init: tn("root", tn("p", tx("a")), tn("p", tx("b")), tn("p", tx("c"))),
			xml:  `<root><p>a</p><p>b</p><p>c</p></root>`,
			ranges: []tworanges{
				mk(3, -1, 6, 3, -1, 6, "equal"),
				mk(0, -1, 9, 3, -1, 6, "contain"),
				mk(0, -1, 6, 3, -1, 9, "intersect"),
				mk(0, -1, 3, 3, -1, 6, "side-by-side"),
			},
			ops1: ops, ops2: ops,
		})
	}
	// edit-style
	{
		red := map[string]string{"color": "red"}
		content := &yjson.TreeNode{Type: "p", Attributes: map[string]string{"italic": "true", "color": "blue"},
			Children: []yjson.TreeNode{{Type: "text", Value: "d"}}}
		ms = append(ms, matrix{
			name: "edit-style",
			init: tn("root", withAttr(tn("p", tx("a")), red), withAttr(tn("p", tx("b")), red), withAttr(tn("p", tx("c")), red)),
			xml:  `<root><p color="red">a</p><p color="red">b</p><p color="red">c</p></root>`,
			ranges: []tworanges{
				mk(3, 3, 6, 3, -1, 6, "equal"),
				mk(0, 3, 9, 0, 3, 9, "equal multiple"),
				mk(0, 3, 9, 3, -1, 6, "A contains B"),
				mk(3, 3, 6, 0, -1, 9, "B contains A"),
				mk(0, 3, 6, 3, -1, 9, "intersect"),
				mk(0, 3, 3, 3, -1, 6, "A -> B"),
				mk(3, 3, 6, 0, -1, 3, "B -> A"),
			},
			ops1: []mop{
				{"edit", rFront, content, 0, "", "", "insertFront"},
				{"edit", rMiddle, content, 0, "", "", "insertMiddle"},
				{"edit", rBack, content, 0, "", "", "insertBack"},
				{"edit", rAll, nil, 0, "", "", "delete"},
				{"edit", rAll, content, 0, "", "", "replace"},
				{"merge", rAll, nil, 0, "", "", "merge"},
			},
			ops2: []mop{
				{"rmstyle", rAll, nil, 0, "color", "", "remove-color"},
				{"style", rAll, nil, 0, "bold", "aa", "set-bold-aa"},
			},
		})
	}
	return ms
}

func cloneRootTreesEqual(d *document.Document) string {
	for k, elem := range d.RootObject().Members() {
		tree, ok := elem.(*crdt.Tree)
		if !ok {
			continue
		}
		if a, b := tree.ToXML(), d.Root().GetTree(k).ToXML(); a != b {
			return fmt.Sprintf("%s (user copy) vs %s (document)", b, a)
		}
	}
	return ""
}

// c19Case names one enumerated case.
type c19Case struct {
	M, R, O1, O2 int
	Order        int  // 0: editor 1 syncs first, 1: editor 2 first
	Third        bool // a third passive client attaches late (snapshot-fed)
}

func (c c19Case) name(ms []matrix) string {
	m := ms[c.M]
	return fmt.Sprintf("%s/%s(%s,%s)/order%d/third=%v", m.name, m.ranges[c.R].desc, m.ops1[c.O1].desc, m.ops2[c.O2].desc, c.Order, c.Third)
}

type c19peer struct {
	c *client.Client
	d *document.Document
}

func runC19(c c19Case) (fail *prog.Failure, nontrivial bool, hist []string) {
	ms := matrices()
	m := ms[c.M]
	tr, o1, o2 := m.ranges[c.R], m.ops1[c.O1], m.ops2[c.O2]
	s := world.Get()
	ctx := context.Background()
	proj := s.Project(1000, 1000, "c19")
	if c.Third {
		proj = s.Project(2, 4, "c19")
	}
	k := key.Key(world.FreshDocKey("c19"))
	logf := func(f string, a ...any) { hist = append(hist, fmt.Sprintf(f, a...)) }
	var peers []*c19peer
	defer func() {
		if r := recover(); r != nil {
			fail = &prog.Failure{Kind: "PANIC", Msg: fmt.Sprintf("%v", r)}
		}
		for _, p := range peers {
			_ = p.c.Deactivate(ctx)
			_ = p.c.Close()
		}
		s.WaitIdle()
	}()
	attach := func() (*c19peer, *prog.Failure) {
		cl, err := s.NewClient(ctx, proj)
		if err != nil {
			return nil, &prog.Failure{Kind: "HARNESS", Msg: err.Error()}
		}
		p := &c19peer{c: cl, d: document.New(k)}
		peers = append(peers, p)
		if err := cl.Attach(ctx, p.d); err != nil {
			return nil, &prog.Failure{Kind: "ATTACHFAIL", Msg: err.Error()}
		}
		s.WaitIdle()
		return p, nil
	}
	sync := func(p *c19peer, who string) *prog.Failure {
		logf("%s: sync", who)
		if err := p.c.Sync(ctx); err != nil {
			return &prog.Failure{Kind: "SYNCFAIL", Msg: who + ": " + err.Error()}
		}
		s.WaitIdle()
		return nil
	}
	p1, f := attach()
	if f != nil {
		return f, false, hist
	}
	p2, f := attach()
	if f != nil {
		return f, false, hist
	}
	if err := p1.d.Update(func(r *yjson.Object, p *presence.Presence) error {
		r.SetNewTree("t", m.init)
		return nil
	}); err != nil {
		return &prog.Failure{Kind: "HARNESS", Msg: "init: " + err.Error()}, false, hist
	}
	if f := sync(p1, "c1"); f != nil {
		return f, false, hist
	}
	if f := sync(p2, "c2"); f != nil {
		return f, false, hist
	}
	if x := p2.d.Root().GetTree("t").ToXML(); x != m.xml {
		return &prog.Failure{Kind: "HARNESS", Msg: "bad initial xml " + x}, false, hist
	}
	logf("initial: %s", m.xml)
	if err := o1.run(p1.d, 0, tr); err != nil {
		return &prog.Failure{Kind: "EDITFAIL", Msg: "op1 " + o1.desc + ": " + err.Error()}, false, hist
	}
	x1 := p1.d.Root().GetTree("t").ToXML()
	logf("c1: %s on %s -> %s", o1.desc, tr.desc, x1)
	if err := o2.run(p2.d, 1, tr); err != nil {
		return &prog.Failure{Kind: "EDITFAIL", Msg: "op2 " + o2.desc + ": " + err.Error()}, false, hist
	}
	x2 := p2.d.Root().GetTree("t").ToXML()
	logf("c2: %s on %s -> %s", o2.desc, tr.desc, x2)
	nontrivial = x1 != m.xml && x2 != m.xml
	order := []*c19peer{p1, p2}
	names := []string{"c1", "c2"}
	if c.Order == 1 {
		order = []*c19peer{p2, p1}
		names = []string{"c2", "c1"}
	}
	for round := 0; round < 2; round++ {
		for i, p := range order {
			if f := sync(p, names[i]); f != nil {
				return f, nontrivial, hist
			}
		}
	}
	all := []*c19peer{p1, p2}
	if c.Third {
		p3, f := attach()
		if f != nil {
			f.Kind = "THIRD-" + f.Kind
			return f, nontrivial, hist
		}
		logf("c3: late attach (snapshot-fed)")
		all = append(all, p3)
		for round := 0; round < 2; round++ {
			for i, p := range all {
				if f := sync(p, fmt.Sprintf("c%d", i+1)); f != nil {
					return f, nontrivial, hist
				}
			}
		}
	}
	for i, p := range all[1:] {
		if a, b := p1.d.Marshal(), p.d.Marshal(); a != b {
			return &prog.Failure{Kind: "DIVERGED", Msg: fmt.Sprintf("c1 %s vs c%d %s", p1.d.Root().GetTree("t").ToXML(), i+2, p.d.Root().GetTree("t").ToXML())}, nontrivial, hist
		}
	}
	for i, p := range all {
		if s := cloneRootTreesEqual(p.d); s != "" {
			return &prog.Failure{Kind: "CLONE!=ROOT", Msg: fmt.Sprintf("c%d: %s", i+1, s)}, nontrivial, hist
		}
	}
	return nil, nontrivial, hist
}

func init() {
	replayers["c19"] = func(raw json.RawMessage) *prog.Failure {
		var c c19Case
		if err := json.Unmarshal(raw, &c); err != nil {
			return &prog.Failure{Kind: "HARNESS", Msg: err.Error()}
		}
		f, _, _ := runC19(c)
		return f
	}
}

func TestC19(t *testing.T) {
	col := stats.New("C19", "matrix")
	defer col.Flush(true)
	ms := matrices()
	sh, n := shard()
	seed := envInt("VERIF_SEED", 1)
	idx, total, ran := 0, 0, 0
	for mi, m := range ms {
		for ri := range m.ranges {
			for i1, o1 := range m.ops1 {
				for i2, o2 := range m.ops2 {
					for order := 0; order < 2; order++ {
						for _, third := range []bool{false, true} {
							idx++
							total++
							if idx%n != sh {
								continue
							}
							_, _, _ = o1, o2, seed
							c := c19Case{mi, ri, i1, i2, order, third}
							fail, nontrivial, hist := runC19(c)
							ran++
							cls := map[string]int{"matrix:" + m.name: 1}
							if third {
								cls["third_snapshot_client"] = 1
							}
							if !nontrivial {
								cls["trivial_op_changed_nothing"] = 1
							}
							h := uint64(idx)
							col.Record(h, fail == nil && nontrivial, cls, func() any {
								return map[string]any{"case": c.name(ms), "history": hist}
							})
							if fail != nil {
								if fail.Kind == "HARNESS" {
									fmt.Printf("HARNESS-ERROR property=C19 %s\n", fail.Msg)
									t.Fatalf("harness: %s", fail.Msg)
								}
								raw, _ := json.Marshal(c)
								rf := ReplayFile{Prop: "C19", Kind: "c19", Case: raw, Failure: c.name(ms) + ": " + fail.Error(), History: hist}
								path := writeReplay(rf, fmt.Sprintf("matrix-%d-%d-%d-%d-%d-%v", mi, ri, i1, i2, order, third))
								col.AddViolation(stats.Violation{Replay: path, Kind: fail.Kind, Msg: c.name(ms) + ": " + fail.Msg})
								fmt.Printf("VIOLATION-FOUND property=C19 replay=%s kind=%s case=%s\n  %s\n", path, fail.Kind, c.name(ms), fail.Error())
								t.Errorf("%s: %s", c.name(ms), fail.Error())
							}
						}
					}
				}
			}
		}
	}
	col.SetExtra("matrix_cases_total", total)
	col.SetExhaustive(true)
	col.Note("C19: %d enumerated cases in the five matrices x 2 sync orders x {no third, third snapshot-fed client}; this shard ran %d", total, ran)
}
