package props

import (
	"context"
	"encoding/json"
	"fmt"
	"os"
	"sync/atomic"
	"testing"

	api "github.com/yorkie-team/yorkie/api/yorkie/v1"
	"github.com/yorkie-team/yorkie/client"
	"github.com/yorkie-team/yorkie/pkg/document"
	"github.com/yorkie-team/yorkie/pkg/document/crdt"
	yjson "github.com/yorkie-team/yorkie/pkg/document/json"
	"github.com/yorkie-team/yorkie/pkg/document/presence"
	"github.com/yorkie-team/yorkie/pkg/key"

	"verifharness/prog"
	"verifharness/stats"
	"verifharness/world"
)

// C19 — concurrent tree edits including merges, splits and styles converge
// pairwise. The five upstream matrices (test/complex/tree_concurrency_test.go)
// are re-expressed as data below and enumerated exhaustively: every
// (range row, op1, op2) x clock arrangement / role assignment (c19Arrs: which
// client makes which operation and whose clock is ahead, so that each
// operation of a pair is made once with the earlier and once with the later
// ticket) x both push orders x {no third client, a third passive client that
// attaches after both pushes, one that attaches between the two pushes}; the
// third client is fed by a snapshot and receives the rest as changes.

type rsel int

const (
	rFront rsel = iota + 1
	rMiddle
	rBack
	rAll
	rOneQ
	rThreeQ
)

type rwm struct{ from, mid, to int }
type tworanges struct {
	r    [2]rwm
	desc string
}

func mk(f1, m1, t1, f2, m2, t2 int, d string) tworanges {
	return tworanges{[2]rwm{{f1, m1, t1}, {f2, m2, t2}}, d}
}

func getRange(tr tworanges, sel rsel, user int) (int, int) {
	iv := tr.r[user]
	from, mid, to := iv.from, iv.mid, iv.to
	switch sel {
	case rFront:
		return from, from
	case rMiddle:
		return mid, mid
	case rBack:
		return to, to
	case rAll:
		return from, to
	case rOneQ:
		p := (from + mid + 1) / 2
		return p, p
	case rThreeQ:
		p := (mid + to) / 2
		return p, p
	}
	return -1, -1
}

func parseSimpleXML(s string) []string {
	var res []string
	for i := 0; i < len(s); i++ {
		cur := ""
		if s[i] == '<' {
			for i < len(s) && s[i] != '>' {
				cur += string(s[i])
				i++
			}
			cur += string(s[i])
		} else {
			cur += string(s[i])
		}
		res = append(res, cur)
	}
	return res
}

func getMergeRange(xml string, from, to int) (int, int) {
	content := parseSimpleXML(xml)
	st, ed := -1, -1
	for i := from + 1; i <= to; i++ {
		if st == -1 && len(content[i]) >= 2 && content[i][0] == '<' && content[i][1] == '/' {
			st = i - 1
		}
		if len(content[i]) >= 2 && content[i][0] == '<' && content[i][1] != '/' {
			ed = i
		}
	}
	return st, ed
}

type mop struct {
	kind    string // edit, merge, split, style, rmstyle
	sel     rsel
	content *yjson.TreeNode
	level   int
	k, v    string
	desc    string
}

func (op mop) run(d *document.Document, user int, tr tworanges) error {
	from, to := getRange(tr, op.sel, user)
	return d.Update(func(root *yjson.Object, p *presence.Presence) error {
		t := root.GetTree("t")
		switch op.kind {
		case "edit", "split":
			t.Edit(from, to, op.content, op.level)
		case "merge":
			f, e := getMergeRange(t.ToXML(), from, to)
			if f != -1 && e != -1 && f < e {
				t.Edit(f, e, op.content, op.level)
			}
		case "style":
			t.Style(from, to, map[string]string{op.k: op.v})
		case "rmstyle":
			t.RemoveStyle(from, to, []string{op.k})
		}
		return nil
	})
}

type matrix struct {
	name   string
	init   yjson.TreeNode
	xml    string
	ranges []tworanges
	ops1   []mop
	ops2   []mop
}

func tn(typ string, children ...yjson.TreeNode) yjson.TreeNode {
	return yjson.TreeNode{Type: typ, Children: children}
}
func tx(v string) yjson.TreeNode { return yjson.TreeNode{Type: "text", Value: v} }
func withAttr(n yjson.TreeNode, a map[string]string) yjson.TreeNode {
	n.Attributes = a
	return n
}

func matrices() []matrix {
	var ms []matrix
	// edit-edit
	{
		t1, t2 := &yjson.TreeNode{Type: "text", Value: "A"}, &yjson.TreeNode{Type: "text", Value: "B"}
		e1, e2 := &yjson.TreeNode{Type: "b", Children: []yjson.TreeNode{}}, &yjson.TreeNode{Type: "i", Children: []yjson.TreeNode{}}
		mkops := func(t, e *yjson.TreeNode) []mop {
			return []mop{
				{"edit", rFront, t, 0, "", "", "insertTextFront"},
				{"edit", rMiddle, t, 0, "", "", "insertTextMiddle"},
				{"edit", rBack, t, 0, "", "", "insertTextBack"},
				{"edit", rAll, t, 0, "", "", "replaceText"},
				{"edit", rFront, e, 0, "", "", "insertElementFront"},
				{"edit", rMiddle, e, 0, "", "", "insertElementMiddle"},
				{"edit", rBack, e, 0, "", "", "insertElementBack"},
				{"edit", rAll, e, 0, "", "", "replaceElement"},
				{"edit", rAll, nil, 0, "", "", "delete"},
				{"merge", rAll, nil, 0, "", "", "merge"},
			}
		}
		ms = append(ms, matrix{
			name: "edit-edit",
			init: tn("root", tn("p", tx("abc")), tn("p", tx("def")), tn("p", tx("ghi"))),
			xml:  `<root><p>abc</p><p>def</p><p>ghi</p></root>`,
			ranges: []tworanges{
				mk(0, 5, 10, 5, 10, 15, "intersect-element"),
				mk(1, 2, 3, 2, 3, 4, "intersect-text"),
				mk(0, 5, 15, 5, 5, 10, "contain-element"),
				mk(1, 2, 4, 2, 2, 3, "contain-text"),
				mk(0, 5, 15, 6, 7, 9, "contain-mixed-type"),
				mk(0, 5, 5, 5, 5, 10, "side-by-side-element"),
				mk(1, 1, 2, 2, 3, 4, "side-by-side-text"),
				mk(0, 5, 10, 0, 5, 10, "equal-element"),
				mk(1, 2, 4, 1, 2, 4, "equal-text"),
			},
			ops1: mkops(t1, e1), ops2: mkops(t2, e2),
		})
	}
	// split-split
	{
		ops := []mop{
			{"split", rFront, nil, 1, "", "", "split-front-1"},
			{"split", rOneQ, nil, 1, "", "", "split-one-quarter-1"},
			{"split", rThreeQ, nil, 1, "", "", "split-three-quarter-1"},
			{"split", rBack, nil, 1, "", "", "split-back-1"},
			{"split", rFront, nil, 2, "", "", "split-front-2"},
			{"split", rOneQ, nil, 2, "", "", "split-one-quarter-2"},
			{"split", rThreeQ, nil, 2, "", "", "split-three-quarter-2"},
			{"split", rBack, nil, 2, "", "", "split-back-2"},
		}
		ms = append(ms, matrix{
			name: "split-split",
			init: tn("root", tn("p", tn("p", tn("p", tn("p", tx("abcd")), tn("p", tx("efgh"))), tn("p", tx("ijkl"))))),
			xml:  `<root><p><p><p><p>abcd</p><p>efgh</p></p><p>ijkl</p></p></p></root>`,
			ranges: []tworanges{
				mk(3, 6, 9, 3, 6, 9, "equal-single"),
				mk(3, 9, 15, 3, 9, 15, "equal-multiple"),
				mk(3, 9, 15, 9, 12, 15, "A contains B same level"),
				mk(2, 16, 22, 9, 12, 15, "A contains B multiple level"),
				mk(3, 6, 9, 9, 12, 15, "B is next to A"),
			},
			ops1: ops, ops2: ops,
		})
	}
	// split-edit
	{
		it := map[string]string{"italic": "true"}
		content := &yjson.TreeNode{Type: "i", Children: []yjson.TreeNode{}}
		ms = append(ms, matrix{
			name: "split-edit",
			init: tn("root", tn("p",
				withAttr(tn("p", withAttr(tn("p", tx("abcd")), it), withAttr(tn("p", tx("efgh")), it)), it),
				withAttr(tn("p", tx("ijkl")), it))),
			xml: `<root><p><p italic="true"><p italic="true">abcd</p><p italic="true">efgh</p></p><p italic="true">ijkl</p></p></root>`,
			ranges: []tworanges{
				mk(2, 5, 8, 2, 5, 8, "equal"),
				mk(2, 5, 8, 4, 5, 6, "A contains B"),
				mk(2, 5, 8, 2, 8, 14, "B contains A"),
				mk(2, 5, 8, 3, 4, 5, "left node(text)"),
				mk(2, 5, 8, 5, 6, 7, "right node(text)"),
				mk(2, 8, 14, 2, 5, 8, "left node(element)"),
				mk(2, 8, 14, 8, 11, 14, "right node(element)"),
				mk(2, 5, 8, 8, 11, 14, "A -> B"),
				mk(8, 11, 14, 2, 5, 8, "B -> A"),
			},
			ops1: []mop{
				{"split", rMiddle, nil, 1, "", "", "split-1"},
				{"split", rMiddle, nil, 2, "", "", "split-2"},
			},
			ops2: []mop{
				{"edit", rFront, content, 0, "", "", "insertFront"},
				{"edit", rMiddle, content, 0, "", "", "insertMiddle"},
				{"edit", rBack, content, 0, "", "", "insertBack"},
				{"edit", rAll, content, 0, "", "", "replace"},
				{"edit", rAll, nil, 0, "", "", "delete"},
				{"merge", rAll, nil, 0, "", "", "merge"},
				{"style", rAll, nil, 0, "bold", "aa", "style"},
				{"rmstyle", rAll, nil, 0, "italic", "", "remove-style"},
			},
		})
	}
	// style-style
	{
		ops := []mop{
			{"rmstyle", rAll, nil, 0, "bold", "", "remove-bold"},
			{"style", rAll, nil, 0, "bold", "aa", "set-bold-aa"},
			{"style", rAll, nil, 0, "bold", "bb", "set-bold-bb"},
			{"rmstyle", rAll, nil, 0, "italic", "", "remove-italic"},
			{"style", rAll, nil, 0, "italic", "aa", "set-italic-aa"},
			{"style", rAll, nil, 0, "italic", "bb", "set-italic-bb"},
		}
		ms = append(ms, matrix{
			name: "style-style",
			init: tn("root", tn("p", tx("a")), tn("p", tx("b")), tn("p", tx("c"))),
			xml:  `<root><p>a</p><p>b</p><p>c</p></root>`,
			ranges: []tworanges{
				mk(3, -1, 6, 3, -1, 6, "equal"),
				mk(0, -1, 9, 3, -1, 6, "contain"),
				mk(0, -1, 6, 3, -1, 9, "intersect"),
				mk(0, -1, 3, 3, -1, 6, "side-by-side"),
			},
			ops1: ops, ops2: ops,
		})
	}
	// edit-style
	{
		red := map[string]string{"color": "red"}
		content := &yjson.TreeNode{Type: "p", Attributes: map[string]string{"italic": "true", "color": "blue"},
			Children: []yjson.TreeNode{{Type: "text", Value: "d"}}}
		ms = append(ms, matrix{
			name: "edit-style",
			init: tn("root", withAttr(tn("p", tx("a")), red), withAttr(tn("p", tx("b")), red), withAttr(tn("p", tx("c")), red)),
			xml:  `<root><p color="red">a</p><p color="red">b</p><p color="red">c</p></root>`,
			ranges: []tworanges{
				mk(3, 3, 6, 3, -1, 6, "equal"),
				mk(0, 3, 9, 0, 3, 9, "equal multiple"),
				mk(0, 3, 9, 3, -1, 6, "A contains B"),
				mk(3, 3, 6, 0, -1, 9, "B contains A"),
				mk(0, 3, 6, 3, -1, 9, "intersect"),
				mk(0, 3, 3, 3, -1, 6, "A -> B"),
				mk(3, 3, 6, 0, -1, 3, "B -> A"),
			},
			ops1: []mop{
				{"edit", rFront, content, 0, "", "", "insertFront"},
				{"edit", rMiddle, content, 0, "", "", "insertMiddle"},
				{"edit", rBack, content, 0, "", "", "insertBack"},
				{"edit", rAll, nil, 0, "", "", "delete"},
				{"edit", rAll, content, 0, "", "", "replace"},
				{"merge", rAll, nil, 0, "", "", "merge"},
			},
			ops2: []mop{
				{"rmstyle", rAll, nil, 0, "color", "", "remove-color"},
				{"style", rAll, nil, 0, "bold", "aa", "set-bold-aa"},
			},
		})
	}
	return ms
}

func cloneRootTreesEqual(d *document.Document) string {
	for k, elem := range d.RootObject().Members() {
		tree, ok := elem.(*crdt.Tree)
		if !ok {
			continue
		}
		if a, b := tree.ToXML(), d.Root().GetTree(k).ToXML(); a != b {
			return fmt.Sprintf("%s (user copy) vs %s (document)", b, a)
		}
	}
	return ""
}

// c19Case names one enumerated case.
type c19Case struct {
	M, R, O1, O2 int
	Order        int  // which client pushes first: 0 = client 1, 1 = client 2
	Third        bool // a third passive client attaches late (snapshot-fed)
	// Arr is the clock arrangement / role assignment (c19Arrs): who makes
	// which operation and whose clock is ahead when the edits are made.
	Arr int `json:",omitempty"`
	// Cut says where the third client attaches: 0 = after both pushes,
	// 1 = between the two pushes (after the first editor's push, before the
	// second's; it then receives the second edit as an ordinary change).
	Cut int `json:",omitempty"`
}

// c19Arrs are the clock arrangements. Client 1 always activates first (the
// smaller actor id in practice, verified per case) and creates the tree.
//
//	upstream  client 1 makes op 1, client 2 makes op 2 (client 2's clock ends
//	          one tick ahead after the initial exchange)
//	swapped   client 2 makes op 1, client 1 makes op 2: every operation is
//	          made once by the smaller and once by the larger actor id
//	skew-op1  upstream roles, but the maker of op 1 first makes c19SkewK local
//	          changes on another root key the other has not seen, so op 1
//	          carries the later lamport
//	skew-op2  the same for the maker of op 2
//	tie       upstream roles, but the client whose clock is behind first makes
//	          as many unseen local changes as it is behind (one, measured), so
//	          both operations carry the same lamport and the actor id decides:
//	          op 2 (larger actor id) carries the later ticket
//	tie-swapped  the same with the roles swapped: op 1 carries the later ticket
var c19Arrs = []string{"upstream", "swapped", "skew-op1", "skew-op2", "tie", "tie-swapped"}

const (
	c19SkewK = 3
	// Third-client cases run in a project whose snapshot threshold is
	// c19Threshold; client 1 adds c19Pad padding changes to the initial
	// change set so that the document's server sequence is past the threshold
	// at every cut (the third client is always fed by a snapshot), while no
	// editor is ever c19Threshold changes behind (c19SkewK+1 skewed changes
	// plus the third client's attach change at most): editors always pull
	// plain changes. Both facts are measured per case from the responses.
	c19Threshold = 6
	c19Pad       = 3
)

// c19ArrCount is how many of c19Arrs a tier enumerates: the quick tier the first
// four (upstream, both roles, skew on each side), the thorough tier also the
// two lamport-tie arrangements.
func c19ArrCount() int { return pick(4, len(c19Arrs)) }

// c19FindingMergeLater tags the one finding of the pinned tree the new
// arrangements expose (replay: harness/briefs/c19-ext-findings/). A paragraph
// merge (source paragraph tombstoned, its children moved into the target)
// concurrent with a deletion that covers the whole SOURCE paragraph but not the
// target, where the MERGE carries the later ticket. The deleting replica has
// tombstoned the children before the merge moves them; on the merging replica
// the deletion finds the source already tombstoned by a later ticket
// (TreeNode.canDelete: LWW lost), the source never enters toBeRemoveds, so
// propagateMergeDeletes (design doc 6.2) does not reach the moved children and
// they stay alive: <p>abcdef</p> vs <p>abc</p>. With the deletion's ticket
// later (upstream's arrangement) the propagation fires and replicas converge.
const c19FindingMergeLater = "F59"

// c19Known excludes exactly the named cases that fail on the pinned tree for a
// known finding (case name -> finding tag); they are not run and are counted
// as excluded:<tag>. VERIF_NO_EXCLUSIONS=1 runs them.
var c19Known = func() map[string]string {
	known := map[string]string{}
	// edit-edit, row intersect-element: op 1 = merge of <p>abc</p><p>def</p>
	// (editor range [0,10)), op 2 deletes/replaces [5,15) = <p>def</p><p>ghi</p>,
	// in the three arrangements in which op 1 carries the later ticket; every
	// push order and third-client variant diverges the same way (54 names).
	for _, op2 := range []string{"replaceText", "replaceElement", "delete"} {
		for _, arr := range []string{"swapped", "skew-op1", "tie-swapped"} {
			for order := 0; order < 2; order++ {
				for _, third := range []string{"third=false", "third=true", "third=true/cut=between"} {
					known[fmt.Sprintf("edit-edit/intersect-element(merge,%s)/order%d/%s/arr=%s", op2, order, third, arr)] = c19FindingMergeLater
				}
			}
		}
	}
	return known
}()

func (c c19Case) name(ms []matrix) string {
	m := ms[c.M]
	n := fmt.Sprintf("%s/%s(%s,%s)/order%d/third=%v", m.name, m.ranges[c.R].desc, m.ops1[c.O1].desc, m.ops2[c.O2].desc, c.Order, c.Third)
	if c.Third && c.Cut == 1 {
		n += "/cut=between"
	}
	if c.Arr != 0 {
		n += "/arr=" + c19Arrs[c.Arr]
	}
	return n
}

type c19peer struct {
	c *client.Client
	d *document.Document
}

// c19Obs is what one run measured besides the verdict.
type c19Obs struct {
	nontrivial    bool
	later         string // "op1", "op2": which operation carries the later ticket; "" if an operation made no change
	tie           bool   // equal lamports: the actor id decided
	actorInverted bool   // actor ids do not sort in activation order
	thirdSnapshot bool   // the third client's attach was answered with a snapshot
	editorSnap    bool   // an editor's sync was answered with a snapshot
}

func runC19(c c19Case) (fail *prog.Failure, obs c19Obs, hist []string) {
	ms := matrices()
	m := ms[c.M]
	tr, o1, o2 := m.ranges[c.R], m.ops1[c.O1], m.ops2[c.O2]
	s := world.Get()
	ctx := context.Background()
	proj := s.Project(1000, 1000, "c19")
	if c.Third {
		proj = s.Project(2, c19Threshold, "c19")
	}
	k := key.Key(world.FreshDocKey("c19"))
	logf := func(f string, a ...any) { hist = append(hist, fmt.Sprintf(f, a...)) }
	// the recorder tells whether the last response carried a snapshot
	var gotSnap atomic.Bool
	world.Rec.SetSink(func(ex *world.Exchange) {
		switch r := ex.Resp.(type) {
		case *api.AttachDocumentResponse:
			if len(r.GetChangePack().GetSnapshot()) > 0 {
				gotSnap.Store(true)
			}
		case *api.PushPullChangesResponse:
			if len(r.GetChangePack().GetSnapshot()) > 0 {
				gotSnap.Store(true)
			}
		}
	})
	var peers []*c19peer
	defer func() {
		if r := recover(); r != nil {
			fail = &prog.Failure{Kind: "PANIC", Msg: fmt.Sprintf("%v", r)}
		}
		world.Rec.SetSink(nil)
		for _, p := range peers {
			_ = p.c.Deactivate(ctx)
			_ = p.c.Close()
		}
		s.WaitIdle()
	}()
	attach := func() (*c19peer, *prog.Failure) {
		cl, err := s.NewClient(ctx, proj)
		if err != nil {
			return nil, &prog.Failure{Kind: "HARNESS", Msg: err.Error()}
		}
		p := &c19peer{c: cl, d: document.New(k)}
		peers = append(peers, p)
		gotSnap.Store(false)
		if err := cl.Attach(ctx, p.d); err != nil {
			return nil, &prog.Failure{Kind: "ATTACHFAIL", Msg: err.Error()}
		}
		s.WaitIdle()
		for _, q := range peers[:len(peers)-1] {
			if q.d.ActorID().Compare(p.d.ActorID()) >= 0 {
				obs.actorInverted = true
			}
		}
		return p, nil
	}
	sync := func(p *c19peer, who string) *prog.Failure {
		gotSnap.Store(false)
		if err := p.c.Sync(ctx); err != nil {
			logf("%s: sync", who)
			return &prog.Failure{Kind: "SYNCFAIL", Msg: who + ": " + err.Error()}
		}
		if gotSnap.Load() {
			logf("%s: sync (answered with a snapshot)", who)
			if len(peers) < 3 || p != peers[2] {
				obs.editorSnap = true
			}
		} else {
			logf("%s: sync", who)
		}
		s.WaitIdle()
		return nil
	}
	p1, f := attach()
	if f != nil {
		return f, obs, hist
	}
	p2, f := attach()
	if f != nil {
		return f, obs, hist
	}
	if err := p1.d.Update(func(r *yjson.Object, p *presence.Presence) error {
		r.SetNewTree("t", m.init)
		return nil
	}); err != nil {
		return &prog.Failure{Kind: "HARNESS", Msg: "init: " + err.Error()}, obs, hist
	}
	if c.Third {
		for i := 0; i < c19Pad; i++ {
			if err := p1.d.Update(func(r *yjson.Object, p *presence.Presence) error {
				r.SetInteger("pad", i)
				return nil
			}); err != nil {
				return &prog.Failure{Kind: "HARNESS", Msg: "pad: " + err.Error()}, obs, hist
			}
		}
	}
	if f := sync(p1, "c1"); f != nil {
		return f, obs, hist
	}
	if f := sync(p2, "c2"); f != nil {
		return f, obs, hist
	}
	if x := p2.d.Root().GetTree("t").ToXML(); x != m.xml {
		return &prog.Failure{Kind: "HARNESS", Msg: "bad initial xml " + x}, obs, hist
	}
	logf("initial: %s", m.xml)

	// roles and clock skew
	ed := [2]*c19peer{p1, p2} // ed[i] makes operation i+1
	edn := [2]string{"c1", "c2"}
	if a := c19Arrs[c.Arr]; a == "swapped" || a == "tie-swapped" {
		ed, edn = [2]*c19peer{p2, p1}, [2]string{"c2", "c1"}
	}
	if a := c19Arrs[c.Arr]; a == "skew-op1" || a == "skew-op2" {
		w := 0
		if a == "skew-op2" {
			w = 1
		}
		for i := 0; i < c19SkewK; i++ {
			if err := ed[w].d.Update(func(r *yjson.Object, p *presence.Presence) error {
				r.SetInteger("skew", i)
				return nil
			}); err != nil {
				return &prog.Failure{Kind: "HARNESS", Msg: "skew: " + err.Error()}, obs, hist
			}
		}
		logf("%s: %d local changes on root key \"skew\" (not synced)", edn[w], c19SkewK)
	}
	if a := c19Arrs[c.Arr]; a == "tie" || a == "tie-swapped" {
		w, d := 0, ed[1].d.InternalDocument().Lamport()-ed[0].d.InternalDocument().Lamport()
		if d < 0 {
			w, d = 1, -d
		}
		if d > c19SkewK {
			return &prog.Failure{Kind: "HARNESS", Msg: fmt.Sprintf("tie: clocks %d apart", d)}, obs, hist
		}
		for i := 0; i < int(d); i++ {
			if err := ed[w].d.Update(func(r *yjson.Object, p *presence.Presence) error {
				r.SetInteger("skew", i)
				return nil
			}); err != nil {
				return &prog.Failure{Kind: "HARNESS", Msg: "tie: " + err.Error()}, obs, hist
			}
		}
		logf("%s: %d local changes on root key \"skew\" (not synced): clocks level", edn[w], d)
	}
	var lam [2]int64
	var changed [2]bool
	var xs [2]string
	for i, op := range []mop{o1, o2} {
		before := ed[i].d.InternalDocument().Lamport()
		if err := op.run(ed[i].d, i, tr); err != nil {
			return &prog.Failure{Kind: "EDITFAIL", Msg: fmt.Sprintf("op%d %s: %s", i+1, op.desc, err.Error())}, obs, hist
		}
		lam[i] = ed[i].d.InternalDocument().Lamport()
		changed[i] = lam[i] != before
		xs[i] = ed[i].d.Root().GetTree("t").ToXML()
		logf("%s: op%d %s on %s -> %s (lamport %d, actor ..%s)", edn[i], i+1, op.desc, tr.desc, xs[i], lam[i], ed[i].d.ActorID().String()[16:])
	}
	obs.nontrivial = xs[0] != m.xml && xs[1] != m.xml
	if changed[0] && changed[1] {
		cmp := 0
		switch {
		case lam[0] > lam[1]:
			cmp = 1
		case lam[0] < lam[1]:
			cmp = -1
		default:
			obs.tie = true
			cmp = ed[0].d.ActorID().Compare(ed[1].d.ActorID())
		}
		obs.later = "op2"
		if cmp > 0 {
			obs.later = "op1"
		}
	}

	order := []*c19peer{p1, p2}
	names := []string{"c1", "c2"}
	if c.Order == 1 {
		order = []*c19peer{p2, p1}
		names = []string{"c2", "c1"}
	}
	all := []*c19peer{p1, p2}
	third := func(when string) *prog.Failure {
		p3, f := attach()
		if f != nil {
			f.Kind = "THIRD-" + f.Kind
			return f
		}
		obs.thirdSnapshot = gotSnap.Load()
		logf("c3: attach %s (snapshot-fed: %v)", when, obs.thirdSnapshot)
		all = append(all, p3)
		return nil
	}
	for round := 0; round < 2; round++ {
		for i, p := range order {
			if f := sync(p, names[i]); f != nil {
				return f, obs, hist
			}
			if c.Third && c.Cut == 1 && round == 0 && i == 0 {
				if f := third("between the two pushes"); f != nil {
					return f, obs, hist
				}
			}
		}
	}
	if c.Third {
		if c.Cut == 0 {
			if f := third("after both pushes"); f != nil {
				return f, obs, hist
			}
		}
		for round := 0; round < 2; round++ {
			for i, p := range all {
				if f := sync(p, fmt.Sprintf("c%d", i+1)); f != nil {
					return f, obs, hist
				}
			}
		}
	}
	for i, p := range all[1:] {
		if a, b := p1.d.Marshal(), p.d.Marshal(); a != b {
			return &prog.Failure{Kind: "DIVERGED", Msg: fmt.Sprintf("c1 %s vs c%d %s", p1.d.Root().GetTree("t").ToXML(), i+2, p.d.Root().GetTree("t").ToXML())}, obs, hist
		}
	}
	for i, p := range all {
		if s := cloneRootTreesEqual(p.d); s != "" {
			return &prog.Failure{Kind: "CLONE!=ROOT", Msg: fmt.Sprintf("c%d: %s", i+1, s)}, obs, hist
		}
	}
	return nil, obs, hist
}

func init() {
	replayers["c19"] = func(raw json.RawMessage) *prog.Failure {
		var c c19Case
		if err := json.Unmarshal(raw, &c); err != nil {
			return &prog.Failure{Kind: "HARNESS", Msg: err.Error()}
		}
		ms := matrices()
		if c.M < 0 || c.M >= len(ms) || c.R < 0 || c.R >= len(ms[c.M].ranges) || c.O1 < 0 || c.O1 >= len(ms[c.M].ops1) ||
			c.O2 < 0 || c.O2 >= len(ms[c.M].ops2) || c.Arr < 0 || c.Arr >= len(c19Arrs) || c.Cut < 0 || c.Cut > 1 || c.Order < 0 || c.Order > 1 {
			return &prog.Failure{Kind: "HARNESS", Msg: "case out of range"}
		}
		f, _, hist := runC19(c)
		if os.Getenv("VERIF_SHOW_HISTORY") != "" {
			fmt.Printf("    case %s\n", c.name(ms))
			for _, h := range hist {
				fmt.Printf("    %s\n", h)
			}
		}
		return f
	}
}

// c19Thirds are the third-client variants: {Third, Cut}.
var c19Thirds = []struct {
	third bool
	cut   int
	label string
}{
	{false, 0, "third:none"},
	{true, 0, "third:after_both_pushes"},
	{true, 1, "third:between_the_pushes"},
}

func TestC19(t *testing.T) {
	col := stats.New("C19", "matrix")
	defer col.Flush(true)
	ms := matrices()
	sh, n := shard()
	narr := c19ArrCount()
	pairIdx, idx, total, knownTotal := 0, 0, 0, 0
	thirdCases, thirdSnap, editorSnap, inverted := 0, 0, 0, 0
	for mi, m := range ms {
		for ri := range m.ranges {
			for i1 := range m.ops1 {
				for i2 := range m.ops2 {
					// shards take residue classes of the pair index, so that
					// every shard runs all variants of its pairs
					pairIdx++
					mine := pairIdx%n == sh
					for arr := 0; arr < narr; arr++ {
						for order := 0; order < 2; order++ {
							for _, tv := range c19Thirds {
								idx++
								total++
								c := c19Case{M: mi, R: ri, O1: i1, O2: i2, Order: order, Third: tv.third, Arr: arr, Cut: tv.cut}
								name := c.name(ms)
								tag, known := c19Known[name]
								if known {
									knownTotal++
								}
								if !mine {
									continue
								}
								if known && os.Getenv("VERIF_NO_EXCLUSIONS") == "" {
									col.Record(uint64(idx), false, map[string]int{"excluded:" + tag: 1}, nil)
									continue
								}
								fail, obs, hist := runC19(c)
								cls := map[string]int{"matrix:" + m.name: 1, "arr:" + c19Arrs[arr]: 1, tv.label: 1,
									fmt.Sprintf("push_first:c%d", order+1): 1}
								if tv.third {
									cls["third_snapshot_client"] = 1
									thirdCases++
									if obs.thirdSnapshot {
										thirdSnap++
										cls["third_attach_answered_with_snapshot"] = 1
									}
								}
								if obs.editorSnap {
									editorSnap++
									cls["editor_sync_answered_with_snapshot"] = 1
								}
								if obs.actorInverted {
									inverted++
									cls["actor_ids_not_in_activation_order"] = 1
								}
								if obs.later != "" {
									l := "later_ticket:" + obs.later
									cls[l] = 1
									cls["arr:"+c19Arrs[arr]+"/"+l] = 1
									if obs.tie {
										cls["lamport_tie_decided_by_actor"] = 1
									}
									// the kind of operation that carries the later ticket
									lk := m.ops1[i1].kind
									if obs.later == "op2" {
										lk = m.ops2[i2].kind
									}
									cls["later_ticket_kind:"+lk] = 1
								}
								if !obs.nontrivial {
									cls["trivial_op_changed_nothing"] = 1
								}
								col.Record(uint64(idx), fail == nil && obs.nontrivial, cls, func() any {
									return map[string]any{"case": name, "history": hist}
								})
								if fail != nil {
									if fail.Kind == "HARNESS" {
										fmt.Printf("HARNESS-ERROR property=C19 %s\n", fail.Msg)
										t.Fatalf("harness: %s", fail.Msg)
									}
									raw, _ := json.Marshal(c)
									rf := ReplayFile{Prop: "C19", Kind: "c19", Case: raw, Failure: name + ": " + fail.Error(), History: hist}
									path := writeReplay(rf, fmt.Sprintf("matrix-%d-%d-%d-%d-%d-%v-a%d-c%d", mi, ri, i1, i2, order, tv.third, arr, tv.cut))
									col.AddViolation(stats.Violation{Replay: path, Kind: fail.Kind, Msg: name + ": " + fail.Msg})
									fmt.Printf("VIOLATION-FOUND property=C19 replay=%s kind=%s case=%s\n  %s\n", path, fail.Kind, name, fail.Error())
									t.Errorf("%s: %s", name, fail.Error())
								}
							}
						}
					}
				}
			}
		}
	}
	if sh == 0 {
		col.SetExtra("matrix_cases_total", total)
		col.SetExtra("matrix_pairs_total", pairIdx)
		col.SetExtra("known_finding_cases_total", knownTotal)
	}
	col.SetExtra("actor_ids_not_in_activation_order", inverted)
	// The enumeration is complete (every shard ran its whole residue class);
	// it only counts as exhaustive for the stated quantifier if the third
	// client really was fed by a snapshot in every third-client case.
	col.SetExhaustive(thirdSnap == thirdCases)
	if thirdSnap != thirdCases {
		col.Note("C19: the third client was NOT answered with a snapshot in %d of %d third-client cases of shard %d", thirdCases-thirdSnap, thirdCases, sh)
	}
	if editorSnap > 0 {
		col.Note("C19: an editor was answered with a snapshot in %d cases of shard %d (the arrangement intends editors to pull plain changes)", editorSnap, sh)
	}
	col.Note("C19: %d enumerated cases = %d pairs of the five matrices x %d clock arrangements %v x 2 push orders x {no third client, third snapshot-fed client after both pushes, between the pushes}; %d of them are the named cases of a known finding (not run, counted as excluded)",
		total, pairIdx, narr, c19Arrs[:narr], knownTotal)
}
