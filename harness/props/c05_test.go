package props

import (
	"fmt"
	"regexp"
	"sort"
	"testing"
	"time"

	"pgregory.net/rapid"

	"verifharness/prog"
	"verifharness/stats"
	"verifharness/world"
)

// C05 — a retried or half-completed sync never applies an edit twice or loses
// it. Fault enumeration: every storage event (a wrapped database call, before
// or after it took effect) of every sync step of a generated program, and the
// loss of each response, is a fault point; the program is re-run once per
// point with that single fault, the client retries, and the outcome must be
// indistinguishable from the fault-free twin.

func init() { evals["C05"] = evalC05One }

// inF12Window reports whether a fault at event i of the recorded events hits
// the window of known finding F12: the change rows are stored but the client
// checkpoint is not yet persisted.
func inF12Window(events []prog.CallRec, i int) bool {
	if i < 0 || i >= len(events) || !events[i].HasChanges {
		return false
	}
	stored, persisted := -1, len(events)
	for k, e := range events {
		if e.Method == "CreateChangeInfos" && e.Phase == world.After {
			stored = k
		}
		if e.Method == "UpdateClientInfoAfterPushPull" && e.Phase == world.After {
			persisted = k
		}
	}
	return stored >= 0 && i >= stored && i < persisted
}

func c05Opts(p prog.Program, record bool) prog.RunOpts {
	return prog.RunOpts{ProjTag: "c05", Guard: guardFor("C01", p), RecordCalls: record}
}

// runFaulted runs one single-fault program with the log oracle.
func runFaulted(q prog.Program) (Outcome, prog.Result) {
	h := prog.NewHistory()
	o := c05Opts(q, false)
	o.AfterQuiesc = func(r *prog.Runner) *prog.Failure { return h.CheckLog(r, false) }
	res := prog.Run(q, o)
	return Outcome{Fail: res.Fail, Hist: res.Hist, Ev: res.Ev}, res
}

// evalC05One evaluates a program that already contains its fault step(s)
// (replay form): run it, then compare with the same program without faults.
func evalC05One(q prog.Program) Outcome {
	out, res := runFaulted(q)
	if out.Fail != nil {
		return out
	}
	clean := q.Clone()
	strip := func(steps []prog.Step) {
		for i := range steps {
			switch steps[i].Op {
			case "faultsync":
				steps[i].Op = "sync"
			case "faultpushonly":
				steps[i].Op = "pushonly"
			}
		}
	}
	strip(clean.Steps)
	strip(clean.Tail)
	ref := prog.Run(clean, c05Opts(clean, false))
	if ref.Fail != nil {
		ref.Fail.Kind = "FAULTFREE-" + ref.Fail.Kind
		return Outcome{Fail: ref.Fail, Hist: ref.Hist, Ev: out.Ev}
	}
	deferred := false
	for _, st := range append(append([]prog.Step{}, q.Steps...), q.Tail...) {
		if (st.Op == "faultsync" || st.Op == "faultpushonly") && st.B != 0 {
			deferred = true
		}
	}
	// With a deferred retry the client misses one pull, so later edits are
	// made on a different state and with different clocks than in the
	// fault-free run: only the in-run oracles apply there.
	if !deferred {
		out.Fail = c05Differs(res, ref)
	}
	out.NonTrivial = out.Ev["fault_fired"] > 0
	return out
}

var c05Counter = regexp.MustCompile(`"c":(-?[0-9]+)`)

// c05Differs compares the outcome of a faulted run with the fault-free twin.
// Counter increments commute, so the counter value must be equal whatever the
// clocks are (each increase counted exactly once). The full content is only
// comparable when neither run contains concurrent changes: a retry can be
// answered differently (e.g. by a snapshot), which legitimately shifts the
// client's lamport clock and with it the outcome of later last-writer-wins races.
func c05Differs(faulted, ref prog.Result) *prog.Failure {
	a, b := last(faulted.Contents), last(ref.Contents)
	if ca, cb := c05Counter.FindStringSubmatch(a), c05Counter.FindStringSubmatch(b); ca != nil && cb != nil && ca[1] != cb[1] {
		return &prog.Failure{Kind: "FAULT-CHANGES-COUNTER", Msg: "counter after fault+retry is " + ca[1] + ", in the fault-free run " + cb[1] +
			" (an increase was lost or applied twice)\nfaulted:    " + a + "\nfault-free: " + b}
	}
	if faulted.Ev["concurrent_pairs"] == 0 && ref.Ev["concurrent_pairs"] == 0 && faulted.Ordered && ref.Ordered && a != b {
		return &prog.Failure{Kind: "FAULT-CHANGES-CONTENT", Msg: "content after fault+retry differs from the fault-free run (no concurrent changes in either):\nfaulted:    " +
			a + "\nfault-free: " + b}
	}
	return nil
}

type faultPoint struct {
	step, event int
	lost        bool
	rec         prog.CallRec
	carried     bool
}

func TestC05(t *testing.T) {
	col := stats.New("C05", "faults")
	maxPoints := pick(40, 400)
	var best *failRec
	defer func() {
		if best != nil {
			rec := minimise(evalC05One, *best, 40*time.Second, 3)
			rf := ReplayFile{Prop: "C05", Kind: "program", Program: &rec.p, Failure: rec.out.Fail.Error(), History: rec.out.Hist}
			path := writeReplay(rf, fmt.Sprintf("faults-%016x", rec.p.Hash()))
			col.AddViolation(stats.Violation{Replay: path, Kind: rec.out.Fail.Kind, Msg: rec.out.Fail.Msg})
			fmt.Printf("VIOLATION-FOUND property=C05 replay=%s kind=%s\n  %s\n", path, rec.out.Fail.Kind, rec.out.Fail.Error())
			for _, h := range rec.out.Hist {
				fmt.Printf("    %s\n", h)
			}
		}
		col.Flush(true)
	}()
	gen := prog.Gen(prog.GenOpts{
		MinClients: 2, MaxClients: 3, MaxSteps: pick(14, 24), MaxTail: 4,
		Kinds: []string{"counter", "text", "arr", "obj", "pres"}, SchedOps: []string{"pushonly", "attach"},
		SyncWeight: 6, OfflineBias: false,
	})
	snapGen := prog.Gen(prog.GenOpts{
		MinClients: 2, MaxClients: 3, MaxSteps: pick(14, 24), MaxTail: 4,
		Kinds: []string{"counter", "text", "arr", "obj", "pres"}, SchedOps: []string{"pushonly", "attach"},
		SyncWeight: 6, Snapshots: true, OfflineBias: true,
	})
	noExcl := guardFor("C05", prog.Program{}) == nil && envInt("VERIF_NO_EXCLUSIONS", 0) != 0
	rapid.Check(t, func(rt *rapid.T) {
		var p prog.Program
		if rapid.IntRange(0, 2).Draw(rt, "snap") == 0 {
			p = snapGen.Draw(rt, "program")
		} else {
			p = gen.Draw(rt, "program")
		}
		p.Prop = "C05"
		sel := rapid.Uint64().Draw(rt, "sample")
		// 1. fault-free twin, recording the storage events of every sync step
		ref := prog.Run(p, c05Opts(p, true))
		if ref.Fail != nil {
			if ref.Fail.Kind == "HARNESS" {
				rt.Fatalf("harness: %s", ref.Fail.Msg)
			}
			if best == nil || progSize(p) < progSize(best.p) {
				best = &failRec{p, Outcome{Fail: ref.Fail, Hist: ref.Hist, Ev: ref.Ev}}
			}
			rt.Fatalf("%s", ref.Fail.Error())
		}
		// 2. enumerate the fault points
		var points []faultPoint
		steps := make([]int, 0, len(ref.Calls))
		for s := range ref.Calls {
			steps = append(steps, s)
		}
		sort.Ints(steps)
		for _, s := range steps {
			evs := ref.Calls[s]
			carried := len(evs) > 0 && evs[0].HasChanges
			for e := range evs {
				points = append(points, faultPoint{step: s, event: e, rec: evs[e], carried: carried})
			}
			points = append(points, faultPoint{step: s, event: -1, lost: true, carried: carried})
		}
		total := len(points)
		if len(points) > maxPoints {
			// seeded sample without replacement
			x := sel | 1
			for i := len(points) - 1; i > 0; i-- {
				x ^= x << 13
				x ^= x >> 7
				x ^= x << 17
				j := int(x % uint64(i+1))
				points[i], points[j] = points[j], points[i]
			}
			points = points[:maxPoints]
		}
		// 3. one run per fault point
		for k, fp := range points {
			if !fp.lost && !noExcl && inF12Window(ref.Calls[fp.step], fp.event) {
				col.Record(0, false, map[string]int{"excluded:F12": 1}, nil)
				continue
			}
			q := p.Clone()
			list, idx := &q.Steps, fp.step
			if idx >= len(q.Steps) {
				list, idx = &q.Tail, fp.step-len(q.Steps)
			}
			st := &(*list)[idx]
			if st.Op == "pushonly" {
				st.Op = "faultpushonly"
			} else {
				st.Op = "faultsync"
			}
			st.A, st.C = fp.event, boolInt(fp.lost)
			// retry mode: 0 immediate (same request again), 1 deferred to the
			// program's next sync of that client (after possibly further
			// edits), 2 immediate but push-only
			// 3 one more edit, then a push-only sync
			st.B = int((sel >> uint((k%30)*2)) & 3)
			out, res := runFaulted(q)
			if out.Fail == nil && st.B == 0 {
				out.Fail = c05Differs(res, ref)
			}
			cls := map[string]int{"fault_fired": out.Ev["fault_fired"], "fault_not_reached": out.Ev["fault_not_reached"],
				"fault_tolerated_by_server": out.Ev["fault_tolerated_by_server"]}
			pos := "response-lost"
			if !fp.lost {
				pos = fp.rec.String()
			}
			cls["at:"+pos] = 1
			if fp.carried {
				cls["pack_carried_changes"] = 1
			}
			if len(points) == total {
				cls["program_fully_enumerated"] = 0
			}
			nontrivial := out.Fail == nil && out.Ev["fault_fired"] > 0 && fp.carried
			col.Record(q.Hash(), nontrivial, cls, func() any {
				return map[string]any{"program": q.Compact(), "fault": pos, "history": out.Hist}
			})
			if out.Fail != nil {
				if out.Fail.Kind == "HARNESS" {
					rt.Fatalf("harness: %s", out.Fail.Msg)
				}
				if best == nil || progSize(q) < progSize(best.p) {
					best = &failRec{q, out}
				}
				rt.Fatalf("%s", out.Fail.Error())
			}
		}
	})
}
