package props

import (
	"encoding/json"
	"fmt"
	"os"
	"path/filepath"
	"strconv"
	"testing"
	"time"

	"pgregory.net/rapid"

	"verifharness/prog"
	"verifharness/stats"
)

// Outcome is what evaluating one case yields.
type Outcome struct {
	Fail       *prog.Failure
	Hist       []string
	Ev         map[string]int
	NonTrivial bool
}

// Eval evaluates one program against a property's oracle.
type Eval func(p prog.Program) Outcome

// evals maps "<prop>" or "<prop>/<part>" to the evaluation used for replay.
var evals = map[string]Eval{}

// replayers handle replay files that are not programs.
var replayers = map[string]func(raw json.RawMessage) *prog.Failure{}

func envInt(name string, def int) int {
	if v := os.Getenv(name); v != "" {
		if n, err := strconv.Atoi(v); err == nil {
			return n
		}
	}
	return def
}

func thorough() bool { return os.Getenv("VERIF_TIER") == "thorough" }

// pick returns q in the quick tier and th in the thorough tier.
func pick(q, th int) int {
	if thorough() {
		return th
	}
	return q
}

func shard() (int, int) { return envInt("VERIF_SHARD", 0), envInt("VERIF_SHARDS", 1) }

// ReplayFile is the on-disk form of a failing case.
type ReplayFile struct {
	Prop    string          `json:"prop"`
	Kind    string          `json:"kind"` // "program" or a registered replayer
	Part    string          `json:"part,omitempty"`
	Program *prog.Program   `json:"program,omitempty"`
	Case    json.RawMessage `json:"case,omitempty"`
	Failure string          `json:"failure"`
	History []string        `json:"history,omitempty"`
}

func replayDir(prop string) string {
	d := os.Getenv("VERIF_REPLAY_DIR")
	if d == "" {
		d = filepath.Join(os.TempDir(), "verif-replays")
	}
	d = filepath.Join(d, prop)
	_ = os.MkdirAll(d, 0o755)
	return d
}

func writeReplay(rf ReplayFile, name string) string {
	path := filepath.Join(replayDir(rf.Prop), name+".json")
	b, _ := json.MarshalIndent(rf, "", " ")
	_ = os.WriteFile(path, b, 0o644)
	return path
}

type failRec struct {
	p   prog.Program
	out Outcome
}

func progSize(p prog.Program) int { return len(p.Steps)*4 + len(p.Tail)*4 + p.Cfg.N }

// evalRepeated runs eval up to reps times and returns the first failing
// outcome (the code under test iterates Go maps, so some failures are not
// deterministic functions of the program).
func evalRepeated(eval Eval, p prog.Program, reps int) Outcome {
	var out Outcome
	for i := 0; i < reps; i++ {
		out = eval(p)
		if out.Fail != nil {
			return out
		}
	}
	return out
}

// minimise is a delta-debugging pass over the steps of a failing program.
func minimise(eval Eval, rec failRec, budget time.Duration, reps int) failRec {
	deadline := time.Now().Add(budget)
	try := func(q prog.Program) bool {
		if time.Now().After(deadline) {
			return false
		}
		out := evalRepeated(eval, q, reps)
		if out.Fail != nil && out.Fail.Kind != "HARNESS" {
			rec = failRec{q, out}
			return true
		}
		return false
	}
	shrinkList := func(get func(p *prog.Program) *[]prog.Step) {
		for chunk := max(1, len(*get(&rec.p))/2); chunk >= 1; chunk /= 2 {
			for i := 0; i+chunk <= len(*get(&rec.p)); {
				q := rec.p.Clone()
				l := get(&q)
				*l = append((*l)[:i:i], (*l)[i+chunk:]...)
				if !try(q) {
					i += chunk
				}
				if time.Now().After(deadline) {
					return
				}
			}
		}
	}
	for round := 0; round < 3; round++ {
		before := progSize(rec.p)
		shrinkList(func(p *prog.Program) *[]prog.Step { return &p.Tail })
		shrinkList(func(p *prog.Program) *[]prog.Step { return &p.Steps })
		for rec.p.Cfg.N > 2 {
			q := rec.p.Clone()
			q.Cfg.N--
			if !try(q) {
				break
			}
		}
		if progSize(rec.p) == before {
			break
		}
	}
	return rec
}

// checkPrograms drives one program-shaped property with rapid, records
// coverage, and turns a failure into a minimised replay file.
func checkPrograms(t *testing.T, prop, part string, gen *rapid.Generator[prog.Program], eval Eval) {
	col := stats.New(prop, part)
	var best *failRec
	harnessErr := ""
	defer func() {
		if best != nil {
			rec := minimise(eval, *best, 40*time.Second, 3)
			rf := ReplayFile{Prop: prop, Kind: "program", Part: part, Program: &rec.p,
				Failure: rec.out.Fail.Error(), History: rec.out.Hist}
			path := writeReplay(rf, fmt.Sprintf("%s-%016x", part, rec.p.Hash()))
			col.AddViolation(stats.Violation{Replay: path, Kind: rec.out.Fail.Kind, Msg: rec.out.Fail.Msg})
			fmt.Printf("VIOLATION-FOUND property=%s replay=%s kind=%s\n", prop, path, rec.out.Fail.Kind)
			fmt.Printf("  failure: %s\n  history:\n", rec.out.Fail.Error())
			for _, h := range rec.out.Hist {
				fmt.Printf("    %s\n", h)
			}
		}
		if harnessErr != "" {
			fmt.Printf("HARNESS-ERROR property=%s %s\n", prop, harnessErr)
		}
		col.Flush(true)
	}()
	rapid.Check(t, func(rt *rapid.T) {
		p := gen.Draw(rt, "program")
		p.Prop = prop
		reps := 1
		if best != nil {
			reps = 3
		}
		out := evalRepeated(eval, p, reps)
		col.Record(p.Hash(), out.NonTrivial && out.Fail == nil, out.Ev, func() any {
			return sampleOf(p, out)
		})
		if out.Fail != nil {
			if out.Fail.Kind == "HARNESS" {
				harnessErr = out.Fail.Msg
				rt.Fatalf("harness error: %s", out.Fail.Msg)
			}
			if best == nil || progSize(p) < progSize(best.p) {
				best = &failRec{p, out}
			}
			rt.Fatalf("%s", out.Fail.Error())
		}
	})
}

func sampleOf(p prog.Program, out Outcome) any {
	h := out.Hist
	if len(h) > 40 {
		h = append(append([]string{}, h[:40]...), fmt.Sprintf("... (%d more)", len(out.Hist)-40))
	}
	ev := map[string]int{}
	for k, v := range out.Ev {
		if v > 0 {
			ev[k] = v
		}
	}
	return map[string]any{"program": p.Compact(), "history": h, "events": ev}
}

// TestReplay re-executes a replay file without rapid.
func TestReplay(t *testing.T) {
	path := os.Getenv("VERIF_REPLAY")
	if path == "" {
		t.Skip("VERIF_REPLAY not set")
	}
	b, err := os.ReadFile(path)
	if err != nil {
		t.Fatalf("HARNESS-ERROR read replay: %v", err)
	}
	var rf ReplayFile
	if err := json.Unmarshal(b, &rf); err != nil {
		t.Fatalf("HARNESS-ERROR parse replay: %v", err)
	}
	if p := os.Getenv("VERIF_PROP"); p != "" {
		rf.Prop = p
	}
	reps := envInt("VERIF_REPLAY_REPS", 10)
	var fail *prog.Failure
	var hist []string
	if rf.Kind == "program" || rf.Kind == "" {
		name := rf.Prop
		if rf.Part != "" {
			if _, ok := evals[rf.Prop+"/"+rf.Part]; ok {
				name = rf.Prop + "/" + rf.Part
			}
		}
		eval, ok := evals[name]
		if !ok || rf.Program == nil {
			t.Fatalf("HARNESS-ERROR no program evaluation registered for %q", name)
		}
		out := evalRepeated(eval, *rf.Program, reps)
		fail, hist = out.Fail, out.Hist
	} else {
		rp, ok := replayers[rf.Kind]
		if !ok {
			t.Fatalf("HARNESS-ERROR no replayer for kind %q", rf.Kind)
		}
		for i := 0; i < reps && fail == nil; i++ {
			fail = rp(rf.Case)
		}
	}
	if fail != nil {
		fmt.Printf("REPLAY-RESULT fail property=%s %s\n", rf.Prop, fail.Error())
		for _, h := range hist {
			fmt.Printf("    %s\n", h)
		}
		t.Fatalf("replay violates %s", rf.Prop)
	}
	if os.Getenv("VERIF_SHOW_HISTORY") != "" {
		for _, h := range hist {
			fmt.Printf("    %s\n", h)
		}
	}
	fmt.Printf("REPLAY-RESULT pass property=%s\n", rf.Prop)
}
