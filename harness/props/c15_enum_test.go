package props

import (
	"fmt"
	"testing"

	"verifharness/prog"
	"verifharness/stats"
)

// Small-scope exhaustive part of C15: two clients, one edit each (every pair
// of the templates below, i.e. also edits of different containers), one undo
// and an optional redo by either client, every interleaving of those events,
// and every placement of up to three sync steps (each by either client) in
// the gaps. Words are enumerated by index; a shard takes a residue class.

// c15Templates: two per element family, on the fixed base state built by
// c15Base (so deletes and replaces have something to act on).
var c15Templates = []prog.Step{
	{Op: "odel", A: 0}, {Op: "oset", A: 2, B: 3}, // del o.x (undo restores by Set), o.z=3 (new key: undo removes)
	{Op: "ains", A: 0, B: 5}, {Op: "adel", A: 1},
	{Op: "tedit", A: 1, B: 0, C: 1}, {Op: "tedit", A: 1, B: 2, C: 4}, // insert x@1, replace [1,3) by a surrogate pair
	{Op: "cinc", B: 5}, {Op: "cinc", B: 0, C: 8},
	{Op: "trtext", A: 0, B: 1, C: 3}, {Op: "trdel", A: 1},
}

// c15Base brings the document to the base state: o={x:1,y:2}, a=[1,2,3],
// t="abcd", with one deleted array element and text range as tombstones.
var c15Base = []prog.Step{
	{Who: 0, Op: "oset", A: 0, B: 1}, {Who: 0, Op: "oset", A: 1, B: 2},
	{Who: 0, Op: "aadd", B: 1}, {Who: 0, Op: "aadd", B: 9}, {Who: 0, Op: "aadd", B: 2}, {Who: 0, Op: "aadd", B: 3}, {Who: 0, Op: "adel", A: 1},
	{Who: 0, Op: "tedit", A: 0, B: 0, C: 5}, {Who: 0, Op: "tedit", A: 3, B: 0, C: 1}, {Who: 0, Op: "tedit", A: 3, B: 1, C: 1}, {Who: 0, Op: "tedit", A: 3, B: 1, C: 0},
	{Who: 0, Op: "tedit", A: 3, B: 0, C: 1},
	{Who: 0, Op: "sync"}, {Who: 1, Op: "sync"}, {Who: 0, Op: "sync"}, {Who: 1, Op: "sync"},
}

type c15Word struct {
	T0, T1 int  // template of c0 / c1
	Undoer int  // who undoes
	Redo   bool // followed by a redo of the same client
	Order  int  // index of the interleaving of the events
	Syncs  int  // index of the sync placement
}

// c15Orders returns the interleavings of E0, E1, U(ndo), [R(edo)] in which U
// comes after the undoer's own edit and R after U. Events: 0=E0 1=E1 2=U 3=R.
func c15Orders(undoer int, redo bool) [][]int {
	evs := []int{0, 1, 2}
	if redo {
		evs = append(evs, 3)
	}
	var out [][]int
	var rec func(cur []int, used int)
	rec = func(cur []int, used int) {
		if len(cur) == len(evs) {
			out = append(out, append([]int{}, cur...))
			return
		}
		for i, e := range evs {
			if used&(1<<i) != 0 {
				continue
			}
			if e == 2 && used&(1<<undoer) == 0 {
				continue
			}
			if e == 3 && used&(1<<2) == 0 {
				continue
			}
			rec(append(cur, e), used|1<<i)
		}
	}
	rec(nil, 0)
	return out
}

// c15SyncPlacements enumerates sequences of up to 3 (gap, client) pairs in
// non-decreasing gap order (syncs inside one gap are ordered as listed).
func c15SyncPlacements(gaps int) [][][2]int {
	var out [][][2]int
	var rec func(cur [][2]int, minGap int)
	rec = func(cur [][2]int, minGap int) {
		out = append(out, append([][2]int{}, cur...))
		if len(cur) == 3 {
			return
		}
		for g := minGap; g < gaps; g++ {
			for c := 0; c < 2; c++ {
				rec(append(cur, [2]int{g, c}), g)
			}
		}
	}
	rec(nil, 0)
	return out
}

func c15Program(w c15Word) prog.Program {
	orders := c15Orders(w.Undoer, w.Redo)
	ord := orders[w.Order%len(orders)]
	places := c15SyncPlacements(len(ord) + 1)
	pl := places[w.Syncs%len(places)]
	p := prog.Program{Prop: "C15", Cfg: prog.Config{N: 2, Interval: 1000, Threshold: 1000}}
	p.Steps = append(p.Steps, c15Base...)
	emitSyncs := func(gap int) {
		for _, s := range pl {
			if s[0] == gap {
				p.Steps = append(p.Steps, prog.Step{Who: s[1], Op: "sync"})
			}
		}
	}
	for i, e := range ord {
		emitSyncs(i)
		switch e {
		case 0:
			st := c15Templates[w.T0]
			st.Who = 0
			p.Steps = append(p.Steps, st)
		case 1:
			st := c15Templates[w.T1]
			st.Who = 1
			p.Steps = append(p.Steps, st)
		case 2:
			p.Steps = append(p.Steps, prog.Step{Who: w.Undoer, Op: "undo"})
		case 3:
			p.Steps = append(p.Steps, prog.Step{Who: w.Undoer, Op: "redo"})
		}
	}
	emitSyncs(len(ord))
	return p
}

func init() { evals["C15/enum"] = evalC15 }

func TestC15Enum(t *testing.T) {
	col := stats.New("C15", "enum")
	defer col.Flush(true)
	sh, n := shard()
	stride := pick(40, 1) // quick: every 40th word (offset by seed), thorough: all
	offset := envInt("VERIF_SEED", 1) % stride
	nt := len(c15Templates)
	idx := 0
	total, ran := 0, 0
	for t0 := 0; t0 < nt; t0++ {
		for t1 := 0; t1 < nt; t1++ {
			for undoer := 0; undoer < 2; undoer++ {
				for _, redo := range []bool{false, true} {
					orders := c15Orders(undoer, redo)
					for o := range orders {
						places := c15SyncPlacements(len(orders[o]) + 1)
						for s := range places {
							idx++
							total++
							if idx%stride != offset || (idx/stride)%n != sh {
								continue
							}
							w := c15Word{t0, t1, undoer, redo, o, s}
							p := c15Program(w)
							out := evalC15(p)
							ran++
							cls := map[string]int{}
							for k, v := range out.Ev {
								if len(k) > 9 && k[:9] == "excluded:" {
									cls[k] = v
								}
							}
							cls[fmt.Sprintf("family:%d-%d", t0/2, t1/2)] = 1
							col.Record(p.Hash(), out.Fail == nil && out.NonTrivial, cls, func() any { return sampleOf(p, out) })
							if out.Fail != nil {
								if out.Fail.Kind == "HARNESS" {
									fmt.Printf("HARNESS-ERROR property=C15 %s\n", out.Fail.Msg)
									t.Fatalf("harness: %s", out.Fail.Msg)
								}
								rec := minimise(evalC15, failRec{p, out}, 20e9, 3)
								rf := ReplayFile{Prop: "C15", Kind: "program", Part: "enum", Program: &rec.p, Failure: rec.out.Fail.Error(), History: rec.out.Hist}
								path := writeReplay(rf, fmt.Sprintf("enum-%016x", rec.p.Hash()))
								col.AddViolation(stats.Violation{Replay: path, Kind: rec.out.Fail.Kind, Msg: rec.out.Fail.Msg})
								fmt.Printf("VIOLATION-FOUND property=C15 replay=%s kind=%s word=%+v\n  %s\n", path, rec.out.Fail.Kind, w, rec.out.Fail.Error())
								for _, h := range rec.out.Hist {
									fmt.Printf("    %s\n", h)
								}
								t.Fatalf("word %+v violates C15", w)
							}
						}
					}
				}
			}
		}
	}
	col.SetExtra("enum_space_words", total)
	col.SetExhaustive(stride == 1)
	col.Note("C15 enumerated sub-scope: %d words (2 clients, one edit each from 10 templates, one undo + optional redo, all interleavings, <=3 syncs in the gaps); this shard ran %d", total, ran)
}
