package props

import (
	"fmt"
	"reflect"
	"strings"
	"testing"

	"pgregory.net/rapid"

	"github.com/yorkie-team/yorkie/api/converter"
	api "github.com/yorkie-team/yorkie/api/yorkie/v1"
	"github.com/yorkie-team/yorkie/client"
	"github.com/yorkie-team/yorkie/pkg/document"
	"github.com/yorkie-team/yorkie/pkg/document/presence"

	"verifharness/prog"
	"verifharness/world"
)

// C12 — presence converges and obeys the document's presence setting.

func init() { evals["C12"] = evalC12 }

func guardC12(p prog.Program) prog.Guard {
	base := guardFor("C01", p)
	if p.Cfg.Flags["undoable"] == 1 {
		base = guardFor("C15", p) // undo / redo in the alphabet: the undo-related exclusions apply
	}
	return func(d *document.Document, s prog.Step) (prog.Step, string) {
		if base != nil {
			return base(d, s)
		}
		return s, ""
	}
}

func evalC12(p prog.Program) Outcome {
	dpmask, ipmask := p.Cfg.Flags["dpmask"], p.Cfg.Flags["ipmask"]
	presenceless := dpmask&1 == 1
	var exFail *prog.Failure
	psetSeen := map[int]bool{}
	res := prog.Run(p, prog.RunOpts{
		ProjTag: "c12",
		Guard:   guardC12(p), TolerateUndoError: p.Cfg.Flags["undoable"] == 1,
		AttachOpts: func(i int) []interface{} {
			var o []interface{}
			if dpmask&(1<<uint(i%16)) != 0 {
				o = append(o, client.WithDisablePresence())
			}
			if ipmask&(1<<uint(i%16)) != 0 {
				o = append(o, client.WithPresence(presence.Data{"name": fmt.Sprintf("c%d", i)}))
			}
			return o
		},
		OnExchange: func(r *prog.Runner, pe *prog.Peer, ex *world.Exchange) {
			if !presenceless || exFail != nil || ex.Resp == nil {
				return
			}
			var pack *api.ChangePack
			switch m := ex.Resp.(type) {
			case *api.PushPullChangesResponse:
				pack = m.ChangePack
			case *api.AttachDocumentResponse:
				pack = m.ChangePack
			case *api.DetachDocumentResponse:
				pack = m.ChangePack
			}
			if pack == nil {
				return
			}
			for _, c := range pack.Changes {
				if c.PresenceChange != nil {
					exFail = &prog.Failure{Kind: "PRESENCE-RETURNED", Msg: fmt.Sprintf(
						"response to c%d on a presenceless document carries a presence change (serverSeq %d)", pe.Idx, c.Id.ServerSeq)}
				}
			}
			if len(pack.Snapshot) > 0 {
				_, pres, err := converter.BytesToSnapshot(pack.Snapshot)
				if err == nil && pres != nil && len(pres.ToMap()) > 0 {
					exFail = &prog.Failure{Kind: "PRESENCE-IN-SNAPSHOT", Msg: fmt.Sprintf(
						"snapshot sent to c%d on a presenceless document carries presence %v", pe.Idx, pres.ToMap())}
				}
			}
			if exFail != nil && r.ExFail == nil {
				r.ExFail = exFail
			}
		},
		StepGuard: func(s prog.Step) (prog.Step, string) {
			// F20: a client that detaches and re-attaches the same key with a
			// new replica applies its own earlier presence-clear after its new
			// initial presence and disappears from its own view only.
			if s.Op == "reattach" && !presenceless && envInt("VERIF_NO_EXCLUSIONS", 0) == 0 {
				s.Op = "attach"
				return s, "F20"
			}
			return s, ""
		},
		AfterQuiesc: func(r *prog.Runner) *prog.Failure {
			if presenceless {
				infos, _, err := r.Log()
				if err != nil {
					return &prog.Failure{Kind: "HARNESS", Msg: err.Error()}
				}
				for _, ci := range infos {
					if ci.PresenceChange != nil {
						return &prog.Failure{Kind: "PRESENCE-STORED", Msg: fmt.Sprintf(
							"log row %d of a presenceless document stores a presence change", ci.ServerSeq)}
					}
					if len(ci.Operations) == 0 {
						return &prog.Failure{Kind: "PRESENCE-ONLY-ROW", Msg: fmt.Sprintf(
							"log row %d of a presenceless document has no operations (presence-only row)", ci.ServerSeq)}
					}
				}
				for _, q := range r.Peers {
					if !q.Attached {
						continue
					}
					for id, data := range q.D.AllPresences() {
						if id != q.ID {
							return &prog.Failure{Kind: "PRESENCE-ON-PRESENCELESS", Msg: fmt.Sprintf(
								"c%d shows presence of another actor %s on a presenceless document", q.Idx, id)}
						}
						// its own entry can only stem from the initial presence
						// it attached with ({"name":"c<i>"}): every Update on an
						// attached presenceless document drops its presence part
						for k, v := range data {
							if (strings.HasPrefix(v, "v") || strings.HasPrefix(v, "m")) && len(v) > 1 && v[1] >= '0' && v[1] <= '9' {
								return &prog.Failure{Kind: "PRESENCE-KEPT-LOCALLY", Msg: fmt.Sprintf(
									"c%d keeps %s=%s, set by an Update after attaching, in its own view of a presenceless document (nobody else sees it)", q.Idx, k, v)}
							}
						}
					}
				}
				return nil
			}
			// presence-enabled document: all attached replicas agree, on
			// exactly the attached actors, with each actor's own view.
			attached := map[string]*prog.Peer{}
			for _, q := range r.Peers {
				if q.Attached {
					attached[q.ID] = q
				}
			}
			for _, q := range r.Peers {
				if !q.Attached {
					continue
				}
				all := q.D.AllPresences()
				for id, v := range all {
					owner, ok := attached[id]
					if !ok {
						return &prog.Failure{Kind: "PRESENCE-OF-DETACHED", Msg: fmt.Sprintf(
							"c%d still shows presence %v of %s, which detached or was deactivated", q.Idx, v, id)}
					}
					own, has := owner.D.AllPresences()[id]
					if !has || !reflect.DeepEqual(map[string]string(own), map[string]string(v)) {
						return &prog.Failure{Kind: "PRESENCE-DIVERGED", Msg: fmt.Sprintf(
							"c%d sees c%d=%v but c%d sees itself=%v (present %v)", q.Idx, owner.Idx, v, owner.Idx, own, has)}
					}
				}
				for id, owner := range attached {
					if own, has := owner.D.AllPresences()[id]; has {
						if _, ok := all[id]; !ok {
							return &prog.Failure{Kind: "PRESENCE-MISSING", Msg: fmt.Sprintf(
								"c%d does not see attached c%d, which shows itself as %v", q.Idx, owner.Idx, own)}
						}
					}
				}
			}
			return nil
		},
	})
	_ = psetSeen
	out := Outcome{Fail: res.Fail, Hist: res.Hist, Ev: res.Ev}
	if presenceless {
		out.Ev["presenceless_doc"] = 1
	}
	if out.Fail == nil {
		out.NonTrivial = res.Ev["presence_write"] > 1 &&
			(res.Ev["detach"] > 0 || res.Ev["deactivate"] > 0 || res.Ev["snapshot_pull"] > 0 || res.Ev["late_attach"] > 0)
	}
	return out
}

func genC12() *rapid.Generator[prog.Program] {
	sched := []string{"pushonly", "attach", "attach", "detach", "detach", "reattach", "deactivate"}
	mk := func(snap bool) *rapid.Generator[prog.Program] {
		return prog.Gen(prog.GenOpts{
			MinClients: 2, MaxClients: pick(4, 5), MaxSteps: pick(30, 50), MaxTail: 6,
			EditOps:  []string{"pset", "pset", "pset", "pclear", "pmix", "pmix", "rootset", "cinc", "tedit", "oset"},
			SchedOps: sched, SyncWeight: 8, OfflineBias: true, Snapshots: snap,
		})
	}
	a, b := mk(true), mk(false)
	// undoable-presence stratum: updates that append to the array and set a
	// presence key WithHistory in one change; peers delete array elements;
	// undo / redo (the operation half of such an entry may have become a
	// no-op, the presence half must still reach everybody). No client GC: the
	// reverse Remove of a purged element is the known "GC vs undo" family.
	hist := prog.Gen(prog.GenOpts{
		MinClients: 2, MaxClients: 3, MaxSteps: pick(24, 40), MaxTail: 4,
		EditOps:  []string{"pmixh", "pmixh", "pmixh", "adel", "adel", "adel", "aadd", "pset", "pclear", "cinc"},
		SchedOps: []string{"undo", "undo", "undo", "redo", "redo", "attach", "round"}, SyncWeight: 6, OfflineBias: true,
	})
	return rapid.Custom(func(t *rapid.T) prog.Program {
		var p prog.Program
		if rapid.IntRange(0, 4).Draw(t, "undoable") == 0 {
			p = hist.Draw(t, "p")
			p.Cfg.ClientNoGC = true
			p.Cfg.Flags = map[string]int{"dpmask": 0, "ipmask": rapid.IntRange(0, 255).Draw(t, "ipmask"), "undoable": 1}
			return p
		}
		if rapid.IntRange(0, 1).Draw(t, "snap") == 0 {
			p = a.Draw(t, "p")
		} else {
			p = b.Draw(t, "p")
		}
		dp := rapid.IntRange(0, 255).Draw(t, "dpmask")
		if rapid.IntRange(0, 2).Draw(t, "enabled") > 0 {
			dp &^= 1 // two thirds of the cases: presence-enabled document
		}
		p.Cfg.Flags = map[string]int{"dpmask": dp, "ipmask": rapid.IntRange(0, 255).Draw(t, "ipmask")}
		return p
	})
}

func TestC12(t *testing.T) {
	checkPrograms(t, "C12", "random", genC12(), evalC12)
}
