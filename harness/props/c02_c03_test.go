package props

import (
	"testing"

	"pgregory.net/rapid"

	api "github.com/yorkie-team/yorkie/api/yorkie/v1"
	"github.com/yorkie-team/yorkie/client"
	"github.com/yorkie-team/yorkie/pkg/document"

	"verifharness/prog"
	"verifharness/world"
)

// withGCFree adds GC-free attachments (client.WithDisableGC, never the first
// attacher) to a run when the program carries a "gcfree" mask: the attachments
// whose index is in the mask keep no version-vector row and are synchronised
// by lamport only; by their contract they produce no tombstones, so their
// edits are confined to counter increases and primitive root values.
func withGCFree(p prog.Program, o prog.RunOpts) prog.RunOpts {
	mask := p.Cfg.Flags["gcfree"]
	if mask == 0 {
		return o
	}
	gcFree := map[int]bool{}
	o.NonParticipant = func(q *prog.Peer) bool { return gcFree[q.Idx] }
	prevMake := o.MakeGuard
	o.MakeGuard = func(r *prog.Runner) prog.Guard {
		contract := func(d *document.Document, s prog.Step) (prog.Step, string) {
			for _, q := range r.Peers {
				if q.D == d && gcFree[q.Idx] && s.Op != "cinc" && s.Op != "rootset" && s.Op != "pset" && s.Op != "pclear" {
					ns := s
					ns.Op = "cinc"
					return ns, "gcfree-contract"
				}
			}
			return s, ""
		}
		if prevMake != nil {
			return prog.Chain(contract, prevMake(r))
		}
		return contract
	}
	o.AttachOpts = func(i int) []interface{} {
		if mask&(1<<uint(i%16)) != 0 {
			return []interface{}{client.WithDisableGC()}
		}
		return nil
	}
	prevEx := o.OnExchange
	o.OnExchange = func(r *prog.Runner, pe *prog.Peer, ex *world.Exchange) {
		if m, ok := ex.Req.(*api.AttachDocumentRequest); ok {
			gcFree[pe.Idx] = m.DisableGc
			if m.DisableGc {
				r.Ev["gcfree_attachment"]++
			}
		}
		if prevEx != nil {
			prevEx(r, pe, ex)
		}
	}
	return o
}

// twinRun executes p and a variant of p and compares the contents after each
// quiescent round. Actor ids must sort in activation order in both runs for
// the contents to be comparable (LWW/RGA ties are broken by actor id).
//
// seqOnly: compare only when neither run contains concurrent changes. A
// snapshot receiver adopts the snapshot's clock while a change receiver
// advances its clock per change, so lamport values (and with them the
// outcome of LWW races between concurrent edits) legitimately differ between
// a snapshot run and a change-replay run; only causally ordered histories
// have a clock-independent result.
func twinRun(a, b prog.Program, oa, ob prog.RunOpts, diffKind string, seqOnly bool) (Outcome, prog.Result, prog.Result) {
	ra := prog.Run(a, oa)
	out := Outcome{Fail: ra.Fail, Hist: ra.Hist, Ev: ra.Ev}
	if ra.Fail != nil {
		return out, ra, prog.Result{}
	}
	ob.Forced = ra.Decisions // the second run repeats the exclusion decisions of the first
	rb := prog.Run(b, ob)
	out.Ev["twin_runs"] = 1
	if rb.Fail != nil {
		rb.Fail.Kind = "TWIN-" + rb.Fail.Kind
		out.Fail, out.Hist = rb.Fail, rb.Hist
		return out, ra, rb
	}
	if !ra.Ordered || !rb.Ordered {
		out.Ev["twin_incomparable"] = 1
		return out, ra, rb
	}
	if rb.Ev["decision_mismatch"] > 0 {
		// the second run had to exclude a step the first one executed: the
		// two runs did not execute the same program
		out.Ev["twin_decision_mismatch"] = 1
		return out, ra, rb
	}
	if seqOnly && (ra.Ev["concurrent_pairs"] > 0 || rb.Ev["concurrent_pairs"] > 0) {
		out.Ev["twin_not_compared_concurrent"] = 1
		return out, ra, rb
	}
	out.Ev["twin_compared"] = 1
	for i := range ra.Contents {
		if i < len(rb.Contents) && ra.Contents[i] != rb.Contents[i] {
			out.Fail = &prog.Failure{Kind: diffKind, Msg: "contents differ after quiescent round " +
				string(rune('1'+i)) + ":\nrun A: " + ra.Contents[i] + "\nrun B: " + rb.Contents[i]}
			return out, ra, rb
		}
	}
	return out, ra, rb
}

// ---------------------------------------------------------------- C02

func init() { evals["C02"] = evalC02 }

var c02Sched = []string{"attach", "attach", "detach", "reattach", "cachepurge", "cacheremove", "pushonly", "compact", "syncedit"}

// evalC02: snapshot catch-up == change replay. Run A uses the drawn small
// snapshot interval/threshold; run B is the same program in a project that
// never snapshots (pure change replay).
func evalC02(p prog.Program) Outcome {
	b := p.Clone()
	b.Cfg.Interval, b.Cfg.Threshold = 1000, 1000
	g := guardFor("C02", p)
	out, ra, _ := twinRun(p, b,
		withGCFree(p, prog.RunOpts{ProjTag: "c02", Guard: g, Rebuild: true}),
		withGCFree(p, prog.RunOpts{ProjTag: "c02", Guard: g}), "SNAPSHOT!=REPLAY", true)
	if out.Fail == nil {
		out.NonTrivial = ra.Ev["snapshot_pull"] > 0 && ra.Ev["pull_on_snapshot_fed"] > 0
	}
	return out
}

func genC02() *rapid.Generator[prog.Program] {
	base := prog.Gen(prog.GenOpts{
		MinClients: 2, MaxClients: pick(3, 5), MaxSteps: pick(30, 50), MaxTail: pick(10, 20),
		Kinds: prog.AllEditKinds, SchedOps: c02Sched, SyncWeight: 6, OfflineBias: true, Snapshots: true,
	})
	return rapid.Custom(func(t *rapid.T) prog.Program {
		p := base.Draw(t, "p")
		p.Cfg.ClientNoGC = rapid.IntRange(0, 4).Draw(t, "nogc") == 0
		p.Cfg.ServerNoGC = rapid.IntRange(0, 4).Draw(t, "snogc") == 0
		if rapid.IntRange(0, 3).Draw(t, "serial") == 0 {
			p.Cfg.Flags = map[string]int{"serial": 1}
		} else if rapid.IntRange(0, 3).Draw(t, "gcfree") == 0 {
			// a quarter of the concurrent cases: some attachments (never the first) are GC-free
			p.Cfg.Flags = map[string]int{"gcfree": rapid.IntRange(1, 127).Draw(t, "mask") << 1}
		}
		// a tenth of the cases end in GC-free episodes: client 1 is attached
		// GC-free, has a change of its own in the document, stays away while
		// the others set and DELETE root keys (more changes than the snapshot
		// threshold), comes back (served by snapshot) and at once writes the
		// deleted keys again (last-writer-wins against tombstones that some
		// replicas have purged and others still hold).
		if rapid.IntRange(0, 9).Draw(t, "gcfreeepisode") == 0 {
			p.Cfg.Flags = map[string]int{"gcfree": 1 << 1}
			p.Cfg.Threshold = int64(rapid.IntRange(1, 3).Draw(t, "gfthreshold"))
			p.Cfg.Interval = int64(rapid.IntRange(1, 4).Draw(t, "gfinterval"))
			sync := func(w int) prog.Step { return prog.Step{Who: w, Op: "sync"} }
			for e := rapid.IntRange(1, 2).Draw(t, "gfepisodes"); e > 0; e-- {
				p.Steps = append(p.Steps, prog.Step{Op: "round"}, prog.Step{Who: 1, Op: "rootset", A: 1, B: rapid.IntRange(0, 7).Draw(t, "b")}, sync(1))
				for k := int(p.Cfg.Threshold) + rapid.IntRange(1, 3).Draw(t, "more"); k > 0; k-- {
					w := []int{0, 2}[rapid.IntRange(0, 1).Draw(t, "w")] % p.Cfg.N
					if w == 1 {
						w = 0
					}
					p.Steps = append(p.Steps, prog.Step{Who: w, Op: rapid.SampledFrom([]string{"rootset", "rootdel", "rootdel", "oset", "cinc"}).Draw(t, "op"),
						A: rapid.IntRange(0, 1).Draw(t, "a"), B: rapid.IntRange(0, 7).Draw(t, "b")}, sync(w))
				}
				p.Steps = append(p.Steps, prog.Step{Who: 0, Op: "rootdel", A: 0}, sync(0), sync(0))
				if p.Cfg.N > 2 {
					p.Steps = append(p.Steps, sync(2))
				}
				p.Steps = append(p.Steps, sync(1),
					prog.Step{Who: 1, Op: "rootset", A: 0, B: rapid.IntRange(0, 7).Draw(t, "b2")},
					prog.Step{Who: 1, Op: "rootset", A: 1, B: rapid.IntRange(0, 7).Draw(t, "b3")}, sync(1), prog.Step{Op: "round"})
			}
			return p
		}
		// an eighth of the cases: a forced compaction (everybody re-attaches)
		// after a short prefix, so that the new log outgrows the old head and
		// later snapshot builds start from whatever the cache holds
		if len(p.Steps) > 6 && rapid.IntRange(0, 7).Draw(t, "earlycompact") == 0 {
			p.Steps[rapid.IntRange(1, 5).Draw(t, "at")] = prog.Step{Op: "compact"}
		}
		return p
	})
}

func TestC02(t *testing.T) {
	checkPrograms(t, "C02", "twin", genC02(), evalC02)
}

// ---------------------------------------------------------------- C03

func init() { evals["C03"] = evalC03 }

var c03Sched = []string{"attach", "detach", "reattach", "pushonly", "round", "round", "losesync", "syncedit", "syncedit"}

// evalC03: the identical program with garbage collection on (client GC on
// change pulls, server GC before snapshots) and off must never fail a sync or
// a server rebuild and must end in the same content.
func evalC03(p prog.Program) Outcome {
	a := p.Clone()
	a.Cfg.ClientNoGC, a.Cfg.ServerNoGC = false, false
	b := p.Clone()
	b.Cfg.ClientNoGC, b.Cfg.ServerNoGC = true, true
	g := guardFor("C03", p)
	// The GC-off run goes first: it never purges, so its guard sees a superset
	// of the tombstones and its exclusion decisions are repeated by the GC-on run.
	out, _, ra := twinRun(b, a,
		prog.RunOpts{ProjTag: "c03", Guard: g, Rebuild: true},
		prog.RunOpts{ProjTag: "c03", Guard: g, Rebuild: true}, "GC-CHANGES-CONTENT", false)
	if ra.Ev != nil {
		// the class histogram describes the GC-on run
		for k, v := range out.Ev {
			if len(k) >= 4 && k[:4] == "twin" {
				ra.Ev[k] = v
			}
		}
		out.Ev = ra.Ev
	}
	if out.Fail == nil {
		out.NonTrivial = ra.Ev["pull_after_purge"] > 0 || (ra.Ev["snapshot_pull"] > 0 && ra.Ev["pull_on_snapshot_fed"] > 0)
	}
	return out
}

func genC03() *rapid.Generator[prog.Program] {
	base := func(snap bool) *rapid.Generator[prog.Program] {
		return prog.Gen(prog.GenOpts{
			MinClients: 2, MaxClients: pick(4, 5), MaxSteps: pick(36, 60), MaxTail: pick(8, 16),
			Kinds: prog.AllEditKinds, SchedOps: c03Sched, SyncWeight: 10, OfflineBias: true, Snapshots: snap,
			ExtraOps: []string{"adel", "adel", "odel", "rootdel", "trdel", "trdel", "tedit", "amove", "aset", "trstyle", "replObj", "replArr", "replText"},
		})
	}
	withSnap, without := base(true), base(false)
	return rapid.Custom(func(t *rapid.T) prog.Program {
		var p prog.Program
		if rapid.IntRange(0, 2).Draw(t, "snap") == 0 {
			p = withSnap.Draw(t, "p")
		} else {
			p = without.Draw(t, "p")
		}
		// a third of the cases end in 1..3 "staggered purge" episodes: X
		// deletes something and syncs; R learns of it (two syncs) while D is
		// still behind, so R must keep the tombstone; D catches up and X syncs
		// again (both may purge now); R - without syncing in between - makes
		// 1..3 more edits next to what it still holds, then syncs.
		if p.Cfg.N >= 3 && rapid.IntRange(0, 2).Draw(t, "staggered") == 0 {
			p.Steps = append(p.Steps, staggeredPurge(t, p.Cfg.N, rapid.IntRange(1, 3).Draw(t, "episodes"))...)
		}
		// a sixth of the cases end in "in-flight" episodes in a project with a
		// small snapshot threshold: X deletes (and edits enough for the
		// laggard R to be served by snapshot); R synchronises and goes on
		// editing next to what it still sees while the request is in flight
		// (or the response is lost); X synchronises twice (it may purge what
		// the server believes everybody has seen); R pushes; X pulls.
		if rapid.IntRange(0, 5).Draw(t, "inflight") == 0 {
			p.Cfg.Threshold = int64(rapid.IntRange(1, 3).Draw(t, "ifthreshold"))
			p.Cfg.Interval = int64(rapid.IntRange(1, 4).Draw(t, "ifinterval"))
			p.Steps = append(p.Steps, inflightEpisodes(t, p.Cfg.N, int(p.Cfg.Threshold), rapid.IntRange(1, 3).Draw(t, "ifepisodes"))...)
		}
		return p
	})
}

func staggeredPurge(t *rapid.T, n, episodes int) []prog.Step {
	var out []prog.Step
	sync := func(w int) prog.Step { return prog.Step{Who: w, Op: "sync"} }
	out = append(out, prog.Step{Op: "round"})
	for e := 0; e < episodes; e++ {
		perm := rapid.Permutation([]int{0, 1, 2}).Draw(t, "roles")
		off := rapid.IntRange(0, n-1).Draw(t, "off")
		x, r, d := (perm[0]+off)%n, (perm[1]+off)%n, (perm[2]+off)%n
		if n == 3 {
			x, r, d = perm[0], perm[1], perm[2]
		}
		kind := rapid.IntRange(0, 2).Draw(t, "kind")
		del := [][]string{{"adel"}, {"tedit"}, {"trdel", "trtext"}}[kind]
		follow := [][]string{{"amovefront", "amove", "ains", "aadd", "aset", "adel"}, {"tedit", "tedit", "tstyle"}, {"trins", "trtext", "trdel", "trstyle"}}[kind]
		dop := prog.Step{Who: x, Op: rapid.SampledFrom(del).Draw(t, "del"), A: rapid.IntRange(0, 7).Draw(t, "a"), B: rapid.IntRange(1, 3).Draw(t, "b")}
		// C == 0 selects the empty replacement: a pure deletion for tedit/trtext
		// (three syncs to purge since the F65 fix: pull, report, receive the covering vector)
		out = append(out, dop, sync(x), sync(r), sync(r), sync(d), sync(d), sync(d), sync(x), sync(x))
		if rapid.Bool().Draw(t, "serverbuild") {
			out = append(out, prog.Step{Op: "histview", A: 7, B: 7})
		}
		for k := rapid.IntRange(1, 3).Draw(t, "edits"); k > 0; k-- {
			out = append(out, prog.Step{Who: r, Op: rapid.SampledFrom(follow).Draw(t, "op"),
				A: rapid.IntRange(0, 7).Draw(t, "a"), B: rapid.IntRange(0, 7).Draw(t, "b"), C: rapid.IntRange(0, 8).Draw(t, "c")})
		}
		out = append(out, sync(r), prog.Step{Op: "round"})
	}
	return out
}

func inflightEpisodes(t *rapid.T, n, threshold, episodes int) []prog.Step {
	var out []prog.Step
	sync := func(w int) prog.Step { return prog.Step{Who: w, Op: "sync"} }
	for e := 0; e < episodes; e++ {
		out = append(out, prog.Step{Op: "round"}, prog.Step{Who: 1, Op: "round"})
		x := rapid.IntRange(0, n-1).Draw(t, "x")
		r := (x + 1 + rapid.IntRange(0, n-2).Draw(t, "r")) % n
		kind := rapid.IntRange(0, 2).Draw(t, "kind")
		del := [][]string{{"adel", "adel", "amove", "aadd"}, {"tedit"}, {"trdel", "trtext", "trtext"}}[kind]
		follow := [][]string{{"amovefront", "amove", "ains", "aadd", "aset", "adel"}, {"tedit", "tedit", "tstyle"}, {"trins", "trtext", "trdel", "trstyle"}}[kind]
		// X: enough changes for R to fall behind the snapshot threshold, deletions among them
		for k := threshold + rapid.IntRange(0, 2).Draw(t, "more"); k > 0; k-- {
			out = append(out, prog.Step{Who: x, Op: rapid.SampledFrom(del).Draw(t, "del"),
				A: rapid.IntRange(0, 7).Draw(t, "a"), B: rapid.IntRange(1, 3).Draw(t, "b")})
		}
		out = append(out, sync(x))
		fop := prog.Step{Who: r, A: rapid.IntRange(0, 7).Draw(t, "a"), B: rapid.IntRange(0, 7).Draw(t, "b"), C: rapid.IntRange(0, 8).Draw(t, "c")}
		if rapid.Bool().Draw(t, "lost") {
			// the response is lost: R still holds the old state and edits on
			fop.Op = rapid.SampledFrom(follow).Draw(t, "op")
			out = append(out, prog.Step{Who: r, Op: "losesync"}, fop)
		} else {
			fop.Op, fop.E = "syncedit", rapid.SampledFrom(follow).Draw(t, "op")
			out = append(out, fop)
		}
		out = append(out, sync(x), sync(x), sync(x))
		if rapid.Bool().Draw(t, "serverbuild") {
			out = append(out, prog.Step{Op: "histview", A: 7, B: 7})
		}
		out = append(out, sync(r), sync(x))
	}
	out = append(out, prog.Step{Op: "round"})
	return out
}

func TestC03(t *testing.T) {
	checkPrograms(t, "C03", "twin", genC03(), evalC03)
}
