package props

import (
	"fmt"
	"testing"

	"pgregory.net/rapid"

	"github.com/yorkie-team/yorkie/api/converter"
	"github.com/yorkie-team/yorkie/api/types"
	"github.com/yorkie-team/yorkie/client"
	"github.com/yorkie-team/yorkie/pkg/document/json"
	"github.com/yorkie-team/yorkie/pkg/document/presence"
	"github.com/yorkie-team/yorkie/server/backend/database"
	"github.com/yorkie-team/yorkie/server/documents"
	"github.com/yorkie-team/yorkie/server/packs"

	"verifharness/prog"
)

// C10 — compaction keeps content; it is refused while attached unless forced;
// stale clients are refused (not merged) and can still detach.

func init() { evals["C10"] = evalC10 }

func c10fail(kind, format string, a ...any) *prog.Failure {
	return &prog.Failure{Kind: kind, Msg: fmt.Sprintf(format, a...)}
}

func evalC10(p prog.Program) (out Outcome) {
	r := prog.NewRunner(p, "c10")
	rod := p.Cfg.Flags["rod"] == 1 && p.Cfg.Flags["mode"] == 1
	if rod {
		// a project with RemoveOnDetach: the detach of the last attached
		// client - here a stale one - is turned into a removal by the server
		r.Proj = r.S.ProjectWith(p.Cfg.Interval, p.Cfg.Threshold, "c10", true)
	}
	r.Guard = guardFor("C01", p)
	out.Ev = r.Ev
	defer func() {
		out.Hist = r.Hist
		r.Close()
	}()
	fail := func(f *prog.Failure) Outcome {
		out.Fail = f
		return out
	}
	if f := r.Start(); f != nil {
		return fail(f)
	}
	for _, s := range p.Steps {
		if f := r.Step(s); f != nil {
			return fail(f)
		}
	}
	if p.Cfg.Flags["empty"] == 1 {
		// stratum: the live content is empty ({}) when the compaction runs
		if f := r.Step(prog.Step{Who: 0, Op: "rootclear"}); f != nil {
			return fail(f)
		}
		r.Ev["empty_content"]++
	}
	if f := r.Quiesce(false); f != nil {
		return fail(f)
	}
	if f := r.CheckConverged(); f != nil {
		return fail(f)
	}
	before := r.Content()
	ctx := r.Ctx()
	be := r.S.BE
	mode := p.Cfg.Flags["mode"] // 0: all detached, non-forced; 1: forced with attached (stale) clients
	staleActs := p.Cfg.Flags["stale"]
	stalePO := p.Cfg.Flags["stalepo"]
	staleEdit := p.Cfg.Flags["staleedit"]
	var docID types.ID
	if di, err := r.DocInfo(); err == nil {
		docID = di.ID
	}

	state := func() (epoch int64, head int64, rows int, f *prog.Failure) {
		infos, di, err := r.Log()
		if err != nil {
			return 0, 0, 0, c10fail("HARNESS", "log: %v", err)
		}
		return di.Epoch, di.ServerSeq, len(infos), nil
	}
	compact := func(force bool) (bool, *prog.Failure) {
		di, err := r.DocInfo()
		if err != nil {
			return false, c10fail("HARNESS", "docinfo: %v", err)
		}
		ok, err := documents.CompactDocument(ctx, be, r.Proj, di, force)
		r.S.WaitIdle()
		r.Logf("server: compact(force=%v) -> compacted=%v err=%v", force, ok, err)
		if err != nil {
			return false, c10fail("COMPACTFAIL", "CompactDocument(force=%v): %v (content before: %s)", force, err, before)
		}
		return ok, nil
	}

	// A. non-forced compaction while clients are attached must be refused and change nothing
	e0, h0, n0, f := state()
	if f != nil {
		return fail(f)
	}
	if p.Cfg.Flags["tryattached"] == 1 {
		ok, f := compact(false)
		if f != nil {
			return fail(f)
		}
		if ok {
			return fail(c10fail("COMPACTED-WHILE-ATTACHED", "non-forced compaction succeeded although clients are attached"))
		}
		e1, h1, n1, f := state()
		if f != nil {
			return fail(f)
		}
		if e1 != e0 || h1 != h0 || n1 != n0 {
			return fail(c10fail("REFUSED-COMPACTION-CHANGED-STATE", "epoch %d->%d head %d->%d rows %d->%d", e0, e1, h0, h1, n0, n1))
		}
		r.Ev["refused_while_attached"]++
	}

	var stale []*prog.Peer
	if mode == 0 {
		for _, q := range r.Peers {
			if q.Attached {
				r.Logf("c%d: detach", q.Idx)
				if err := q.C.Detach(ctx, q.D); err != nil {
					return fail(c10fail("DETACHFAIL", "c%d: %v", q.Idx, err))
				}
				q.Attached = false
			}
		}
		r.S.WaitIdle()
		e0, h0, n0, f = state() // detaches appended presence rows
		if f != nil {
			return fail(f)
		}
		ok, f := compact(false)
		if f != nil {
			return fail(f)
		}
		if !ok {
			return fail(c10fail("COMPACTION-REFUSED", "non-forced compaction refused although every client detached"))
		}
	} else {
		// unsent edits on the soon-to-be-stale clients
		for _, s := range p.Tail {
			if prog.IsEditOp(s.Op) && s.Op != "undo" && s.Op != "redo" {
				if f := r.Step(s); f != nil {
					return fail(f)
				}
			}
		}
		for _, q := range r.Peers {
			if q.Attached {
				stale = append(stale, q)
			}
		}
		ok, f := compact(true)
		if f != nil {
			return fail(f)
		}
		if !ok {
			return fail(c10fail("COMPACTION-REFUSED", "forced compaction reported not compacted"))
		}
	}
	e1, _, _, f := state()
	if f != nil {
		return fail(f)
	}
	if e1 <= e0 {
		return fail(c10fail("EPOCH-NOT-INCREASED", "epoch %d -> %d after a successful compaction", e0, e1))
	}
	r.Ev["compacted"]++

	// B. a fresh attach yields exactly the content before compaction
	for _, q := range r.Peers {
		q.Attached = false // compare only fresh clients from here on
	}
	nFirstFresh := len(r.Peers)
	r.MaxPeers = 64
	if f := r.AddPeer(true); f != nil {
		return fail(f)
	}
	fresh := r.Peers[nFirstFresh]
	r.Logf("c%d: fresh attach after compaction", fresh.Idx)
	if got := fresh.D.Marshal(); got != before {
		return fail(c10fail("COMPACTION-CHANGED-CONTENT", "fresh attach after compaction:\n got %s\nwant %s", got, before))
	}

	// C. stale clients: sync is refused with ErrEpochMismatch and stores nothing; detach succeeds
	handleStale := func() *prog.Failure {
		for i, q := range stale {
			_, h2, n2, f := state()
			if f != nil {
				return f
			}
			unchanged := func(what string) *prog.Failure {
				_, h3, n3, f := state()
				if f != nil {
					return f
				}
				if h3 != h2 || n3 != n2 {
					return c10fail("STALE-CHANGES-STORED", "%s of c%d changed the log: head %d->%d rows %d->%d", what, q.Idx, h2, h3, n2, n3)
				}
				return nil
			}
			unsent := q.D.HasLocalChanges()
			if stalePO&(1<<uint(i)) != 0 {
				// a push-only sync first (a realtime client in push-only mode):
				// whatever it is answered, nothing of it may be stored and it
				// must not turn the client into a member of the new generation
				err := q.C.Sync(ctx, client.WithKey(r.DocKey).WithPushOnly())
				r.S.WaitIdle()
				r.Logf("c%d: stale push-only sync (unsent edits: %v) -> %v", q.Idx, unsent, err)
				if err != nil && converter.ErrorCodeOf(err) != packs.ErrEpochMismatch.Code() {
					return c10fail("STALE-SYNC-WRONG-ERROR", "c%d: stale push-only sync failed with %q (%v)", q.Idx, converter.ErrorCodeOf(err), err)
				}
				if f := unchanged("stale push-only sync"); f != nil {
					return f
				}
				r.Ev["stale_pushonly"]++
				if staleEdit&(1<<uint(i)) != 0 {
					// and one more unsent edit of the old generation
					if err := q.D.Update(func(root *json.Object, _ *presence.Presence) error {
						root.SetString("stale", "old-generation")
						return nil
					}); err != nil {
						return c10fail("HARNESS", "stale edit: %v", err)
					}
					unsent = true
				}
			}
			if staleActs&(1<<uint(i)) == 0 {
				err := q.C.Sync(ctx)
				r.S.WaitIdle()
				r.Logf("c%d: stale sync (unsent edits: %v) -> %v", q.Idx, unsent, err)
				if err == nil {
					return c10fail("STALE-SYNC-ACCEPTED", "c%d (old generation, unsent edits: %v) synced successfully after compaction", q.Idx, unsent)
				}
				if code := converter.ErrorCodeOf(err); code != packs.ErrEpochMismatch.Code() {
					return c10fail("STALE-SYNC-WRONG-ERROR", "c%d: stale sync failed with %q (%v), want ErrEpochMismatch", q.Idx, code, err)
				}
				if f := unchanged("refused stale sync"); f != nil {
					return f
				}
				r.Ev["stale_sync_refused"]++
				if unsent {
					r.Ev["stale_sync_with_unsent"]++
				}
			}
			err := q.C.Detach(ctx, q.D)
			r.S.WaitIdle()
			r.Logf("c%d: stale detach -> %v", q.Idx, err)
			if err != nil {
				return c10fail("STALE-DETACH-FAILED", "c%d: %v", q.Idx, err)
			}
			ci, err := be.DB.FindClientInfoByRefKey(ctx, types.ClientRefKey{ProjectID: r.Proj.ID, ClientID: types.IDFromActorID(q.C.ID())})
			if err != nil {
				return c10fail("HARNESS", "client info: %v", err)
			}
			d := ci.Documents[docID]
			if d == nil || !(d.Status == database.DocumentDetached || (rod && d.Status == database.DocumentRemoved)) {
				return c10fail("STALE-DETACH-NO-EFFECT", "c%d: document status after stale detach: %+v", q.Idx, d)
			}
			// a stale detach may store nothing of the old generation
			infos, _, _ := r.Log()
			for _, row := range infos[min(n2, len(infos)):] {
				if len(row.Operations) > 0 && row.ActorID.String() == q.ID {
					return c10fail("STALE-CHANGES-STORED", "stale detach of c%d stored an old-generation change with operations (serverSeq %d)", q.Idx, row.ServerSeq)
				}
			}
			r.Ev["stale_detach"]++
		}
		return nil
	}

	// D. fresh clients go on editing and converge; content starts from `before`
	freshTail := func() *prog.Failure {
		if f := r.AddPeer(true); f != nil {
			return f
		}
		if got := r.Peers[len(r.Peers)-1].D.Marshal(); got != before {
			return c10fail("COMPACTION-CHANGED-CONTENT", "second fresh attach:\n got %s\nwant %s", got, before)
		}
		for _, s := range p.Tail {
			s.Who = nFirstFresh + s.Who%2
			if s.Op == "attach" || s.Op == "detach" || s.Op == "reattach" {
				s.Op = "sync"
			}
			r.Peers[s.Who].Attached = true
			if f := r.Step(prog.Step{Who: s.Who, Op: s.Op, A: s.A, B: s.B, C: s.C}); f != nil {
				f.Kind = "AFTER-COMPACTION-" + f.Kind
				return f
			}
		}
		if f := r.Quiesce(false); f != nil {
			f.Kind = "AFTER-COMPACTION-" + f.Kind
			return f
		}
		if f := r.CheckConverged(); f != nil {
			f.Kind = "AFTER-COMPACTION-" + f.Kind
			return f
		}
		return nil
	}
	if rod {
		// the fresh client leaves again, so that the last stale client to
		// detach is the last attached client of the document
		if err := fresh.C.Detach(ctx, fresh.D); err != nil {
			return fail(c10fail("DETACHFAIL", "fresh c%d: %v", fresh.Idx, err))
		}
		fresh.Attached = false
		r.S.WaitIdle()
		if f := handleStale(); f != nil {
			return fail(f)
		}
		r.Ev["remove_on_detach"]++
		out.NonTrivial = r.Ev["compacted"] > 0 && r.Ev["stale_detach"] > 0
		return out
	}
	if p.Cfg.Flags["order"] == 1 {
		// the new generation grows first (past the head the stale clients
		// acknowledged), then the stale clients show up
		if f := freshTail(); f != nil {
			return fail(f)
		}
		want := r.Content()
		if f := handleStale(); f != nil {
			return fail(f)
		}
		if f := r.Quiesce(false); f != nil {
			f.Kind = "AFTER-COMPACTION-" + f.Kind
			return fail(f)
		}
		if f := r.CheckConverged(); f != nil {
			f.Kind = "AFTER-COMPACTION-" + f.Kind
			return fail(f)
		}
		if got := r.Content(); got != want {
			return fail(c10fail("STALE-CHANGES-MERGED", "content of the new generation changed while the stale clients were handled:\n got %s\nwant %s", got, want))
		}
		r.Ev["stale_after_growth"]++
	} else {
		if f := handleStale(); f != nil {
			return fail(f)
		}
		if got := fresh.D.Marshal(); got != before {
			return fail(c10fail("HARNESS", "fresh content changed without sync"))
		}
		if f := freshTail(); f != nil {
			return fail(f)
		}
	}
	// a late joiner and the server's own (cache-assisted) build of the head
	// both equal the new generation's replicas
	want := r.Content()
	if f := r.AddPeer(true); f != nil {
		return fail(f)
	}
	if got := r.Peers[len(r.Peers)-1].D.Marshal(); got != want {
		return fail(c10fail("AFTER-COMPACTION-LATE-ATTACH-DIFFERS", "late attach to the compacted and since edited document:\n got %s\nwant %s", got, want))
	}
	if di, err := r.DocInfo(); err == nil {
		d, err := packs.BuildInternalDocForServerSeq(ctx, be, di, di.ServerSeq)
		if err != nil {
			return fail(c10fail("AFTER-COMPACTION-BUILDFAIL", "server build of head %d: %v", di.ServerSeq, err))
		}
		if got := d.Marshal(); got != want {
			return fail(c10fail("AFTER-COMPACTION-SERVERDOC-DIFFERS", "server build of head %d (old head %d):\n got %s\nwant %s", di.ServerSeq, h0, got, want))
		}
		if di.ServerSeq >= h0 {
			r.Ev["outgrew_old_head"]++
		}
	}
	// E. optional second compaction
	if p.Cfg.Flags["second"] == 1 {
		before2 := r.Content()
		e2, _, _, _ := state()
		ok, f := compact(true)
		if f != nil {
			return fail(f)
		}
		e3, _, _, _ := state()
		if !ok || e3 <= e2 {
			return fail(c10fail("EPOCH-NOT-INCREASED", "second compaction: compacted=%v epoch %d -> %d", ok, e2, e3))
		}
		for _, q := range r.Peers {
			q.Attached = false
		}
		n := len(r.Peers)
		if f := r.AddPeer(true); f != nil {
			return fail(f)
		}
		if got := r.Peers[n].D.Marshal(); got != before2 {
			return fail(c10fail("COMPACTION-CHANGED-CONTENT", "fresh attach after second compaction:\n got %s\nwant %s", got, before2))
		}
		r.Ev["second_compaction"]++
	}
	out.NonTrivial = r.Ev["compacted"] > 0 && (r.Ev["stale_sync_with_unsent"] > 0 || (mode == 0 && r.Ev["edit"] > 2))
	return out
}

func genC10() *rapid.Generator[prog.Program] {
	base := prog.Gen(prog.GenOpts{
		MinClients: 2, MaxClients: pick(3, 4), MaxSteps: pick(24, 40), MaxTail: pick(10, 16),
		Kinds: prog.AllEditKinds, SchedOps: []string{"attach", "detach"}, SyncWeight: 8, OfflineBias: true,
	})
	snap := prog.Gen(prog.GenOpts{
		MinClients: 2, MaxClients: pick(3, 4), MaxSteps: pick(24, 40), MaxTail: pick(10, 16),
		Kinds: prog.AllEditKinds, SchedOps: []string{"attach", "detach"}, SyncWeight: 8, Snapshots: true,
	})
	return rapid.Custom(func(t *rapid.T) prog.Program {
		var p prog.Program
		if rapid.IntRange(0, 2).Draw(t, "snap") == 0 {
			p = snap.Draw(t, "p")
		} else {
			p = base.Draw(t, "p")
		}
		p.Cfg.Flags = map[string]int{
			"mode":        rapid.IntRange(0, 1).Draw(t, "mode"),
			"stale":       rapid.IntRange(0, 63).Draw(t, "stale"),
			"tryattached": rapid.IntRange(0, 1).Draw(t, "tryattached"),
			"second":      boolInt(rapid.IntRange(0, 3).Draw(t, "second") == 0),
			"empty":       boolInt(rapid.IntRange(0, 5).Draw(t, "empty") == 0),
			"stalepo":     rapid.IntRange(0, 63).Draw(t, "stalepo") & rapid.IntRange(0, 63).Draw(t, "stalepo2"),
			"staleedit":   rapid.IntRange(0, 63).Draw(t, "staleedit"),
			"order":       rapid.IntRange(0, 1).Draw(t, "order"),
			"rod":         boolInt(rapid.IntRange(0, 4).Draw(t, "rod") == 0),
		}
		// a quarter of the cases: a short history before the compaction, so
		// that the new generation outgrows the old head
		if rapid.IntRange(0, 3).Draw(t, "short") == 0 && len(p.Steps) > 4 {
			p.Steps = p.Steps[:rapid.IntRange(0, 4).Draw(t, "prefix")]
		}
		return p
	})
}

func TestC10(t *testing.T) {
	checkPrograms(t, "C10", "random", genC10(), evalC10)
}
