package props

import (
	"encoding/json"
	"fmt"
	"os"
	"testing"

	"github.com/yorkie-team/yorkie/pkg/document/crdt"

	"verifharness/prog"
)

func TestZZDebug(t *testing.T) {
	f := os.Getenv("DEBUG_REPLAY")
	if f == "" {
		t.Skip()
	}
	raw, _ := os.ReadFile(f)
	var rf ReplayFile
	_ = json.Unmarshal(raw, &rf)
	p := *rf.Program
	r := prog.NewRunner(p, "dbg")
	r.TolerateUndoError = true
	r.Guard = prog.Chain(guardFor("C15", p), makeGuardC15(r))
	if f := r.Start(); f != nil {
		t.Fatal(f)
	}
	defer r.Close()
	dump := func(tag string) {
		for _, q := range r.Peers {
			tx, _ := q.D.InternalDocument().Root().Object().Get("t").(*crdt.Text)
			if tx != nil && os.Getenv("DEBUG_TREE") == "" {
				fmt.Printf("  [%s] c%d: %s   garbage=%d\n", tag, q.Idx, tx.ToTestString(), q.D.GarbageLen())
			}
			if tr, _ := q.D.InternalDocument().Root().Object().Get("tr").(*crdt.Tree); tr != nil && os.Getenv("DEBUG_TREE") != "" {
				var sb []string
				var walk func(n *crdt.TreeNode, depth int)
				walk = func(n *crdt.TreeNode, depth int) {
					for _, ch := range n.Index.Children(true) {
						v := ch.Value
						st := "live"
						if v.IsRemoved() {
							st = "DEAD"
						}
						sb = append(sb, fmt.Sprintf("%*s%s %q id=%s:%d %s", depth*2, "", v.Type(), v.Value, v.ID().CreatedAt.ToTestString(), v.ID().Offset, st))
						walk(v, depth+1)
					}
				}
				walk(tr.Root(), 1)
				fmt.Printf("  [%s] c%d garbage=%d %s\n", tag, q.Idx, q.D.GarbageLen(), tr.ToXML())
				for _, l := range sb {
					fmt.Println("        " + l)
				}
			}
		}
	}
	for i, s := range p.Steps {
		if s.Op == "redo" || s.Op == "undo" {
			q := r.Peers[s.Who%len(r.Peers)]
			top := q.D.UndoStackTopForTest()
			if s.Op == "redo" {
				top = q.D.RedoStackTopForTest()
			}
			for _, h := range top {
				fmt.Printf("   %s top op: %T %+v\n", s.Op, h.Op, h.Op)
			}
		}
		if f := r.Step(s); f != nil {
			fmt.Println("FAIL at", i, f.Error())
			dump("fail")
			return
		}
		fmt.Printf("step %d %+v\n", i, s)
		dump(fmt.Sprint(i))
	}
	for round := 0; round < 3; round++ {
		for _, q := range r.Peers {
			if f := r.SyncPeer(q, false); f != nil {
				fmt.Println("SYNC FAIL", f.Error())
				dump("syncfail")
				return
			}
		}
		dump(fmt.Sprintf("round%d", round))
	}
}
