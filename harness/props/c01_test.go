package props

import (
	"testing"

	"pgregory.net/rapid"

	"verifharness/prog"
)

// C01 — replicas converge: same changes delivered => same document on every
// client, no sync step fails, and the result does not depend on the order of
// the final synchronisation.

func init() { evals["C01"] = evalC01 }

var c01Sched = []string{"pushonly", "attach", "detach", "reattach", "round", "losesync", "syncedit"} // "preattach" (edits before Attach) exists as a step but is not generated: known finding F64

func evalC01(p prog.Program) Outcome {
	res := prog.Run(p, prog.RunOpts{ProjTag: "c01", Guard: guardFor("C01", p), Reverse: p.Cfg.Flags["reverse"] == 1})
	out := Outcome{Fail: res.Fail, Hist: res.Hist, Ev: res.Ev}
	if res.Fail != nil {
		return out
	}
	out.NonTrivial = res.Ev["concurrent_pairs"] > 0
	if p.Cfg.Flags["twin"] == 1 {
		// Metamorphic twin: the same program with the final round in the
		// opposite peer order delivers the same set of changes, so it must
		// end in the same content.
		q := p.Clone()
		q.Cfg.Flags["reverse"] = 1 - p.Cfg.Flags["reverse"]
		res2 := prog.Run(q, prog.RunOpts{ProjTag: "c01", Guard: guardFor("C01", q), Reverse: q.Cfg.Flags["reverse"] == 1})
		out.Ev["twin_runs"] = 1
		if res2.Fail != nil {
			res2.Fail.Kind = "TWIN-" + res2.Fail.Kind
			out.Fail, out.Hist = res2.Fail, res2.Hist
			return out
		}
		if !res.Ordered || !res2.Ordered {
			out.Ev["twin_incomparable"] = 1
		} else if a, b := last(res.Contents), last(res2.Contents); a != b {
			out.Fail = &prog.Failure{Kind: "ORDER-DEPENDENT",
				Msg: "final round order changes the result:\nforward: " + a + "\nreverse: " + b}
		}
	}
	return out
}

func last(s []string) string {
	if len(s) == 0 {
		return ""
	}
	return s[len(s)-1]
}

func genC01() *rapid.Generator[prog.Program] {
	base := prog.Gen(prog.GenOpts{
		MinClients: 2, MaxClients: pick(4, 5), MaxSteps: pick(30, 60),
		Kinds: prog.AllEditKinds, SchedOps: c01Sched, SyncWeight: 8, OfflineBias: true,
	})
	// a fifth of the cases run in a project with a small snapshot
	// interval/threshold: late joiners and lagging clients are then served
	// server-built snapshots (copies) instead of the change history
	snap := prog.Gen(prog.GenOpts{
		MinClients: 2, MaxClients: pick(4, 5), MaxSteps: pick(30, 60),
		Kinds: prog.AllEditKinds, SchedOps: c01Sched, SyncWeight: 8, OfflineBias: true, Snapshots: true,
	})
	return rapid.Custom(func(t *rapid.T) prog.Program {
		var p prog.Program
		if rapid.IntRange(0, 4).Draw(t, "snap") == 0 {
			p = snap.Draw(t, "p")
		} else {
			p = base.Draw(t, "p")
		}
		p.Cfg.Flags = map[string]int{
			"reverse": rapid.IntRange(0, 1).Draw(t, "reverse"),
			"twin":    boolInt(rapid.IntRange(0, 3).Draw(t, "twin") == 0),
		}
		p.Cfg.ClientNoGC = rapid.IntRange(0, 3).Draw(t, "nogc") == 0
		return p
	})
}

func boolInt(b bool) int {
	if b {
		return 1
	}
	return 0
}

func TestC01(t *testing.T) {
	checkPrograms(t, "C01", "random", genC01(), evalC01)
}
