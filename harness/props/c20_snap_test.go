package props

import (
	"testing"

	"pgregory.net/rapid"

	"verifharness/prog"
)

// C20 (part c) — the snapshot cache is transparent end-to-end: histories with
// snapshot pulls, cache purge/remove steps and history views of OLDER
// serverSeqs (what AdminService.GetSnapshotMeta does) placed before late
// attaches and lagging syncs; every document the server builds with the warm
// cache equals the log replay, every snapshot pull succeeds and leaves the
// receiver equal to the change-fed replicas. Forced compactions (after which
// every client re-attaches) are part of the histories: the log restarts at
// serverSeq 1, so an entry of the old generation left in the cache would be
// used again once the new log has grown past the old head.

func init() { evals["C20"] = evalC20Snap; evals["C20/snapcache"] = evalC20Snap }

func evalC20Snap(p prog.Program) Outcome {
	order := []int{}
	for i := 0; i < 12; i++ {
		order = append(order, (p.Cfg.Flags["order"]>>uint(i*2))*7+i*5+p.Cfg.Flags["order"]%11)
	}
	res := prog.Run(p, prog.RunOpts{ProjTag: "c20", Guard: guardFor("C02", p),
		AfterQuiesc: func(r *prog.Runner) *prog.Failure { return r.CheckWarmCacheBuilds(order) }})
	out := Outcome{Fail: res.Fail, Hist: res.Hist, Ev: res.Ev}
	if res.Fail == nil {
		out.NonTrivial = res.Ev["warm_build_checked"] > 0 && res.Ev["snapshot_pull"] > 0 && (res.Ev["histview"] > 0 || res.Ev["cache_purge"]+res.Ev["cache_remove"] > 0)
	}
	return out
}

func genC20Snap() *rapid.Generator[prog.Program] {
	base := prog.Gen(prog.GenOpts{
		MinClients: 2, MaxClients: pick(3, 4), MaxSteps: pick(30, 50), MaxTail: pick(8, 14),
		Kinds: prog.AllEditKinds, SchedOps: []string{"attach", "attach", "histview", "histview", "histview", "cachepurge", "cacheremove", "round", "compact", "adminedit", "adminedit", "adminedit"},
		SyncWeight: 6, OfflineBias: true, Snapshots: true,
	})
	return rapid.Custom(func(t *rapid.T) prog.Program {
		p := base.Draw(t, "p")
		p.Cfg.Flags = map[string]int{"order": rapid.IntRange(0, 1<<20).Draw(t, "order")}
		// a fifth of the cases: compaction right after a short prefix, so that
		// the rest of the history outgrows the old head
		if len(p.Steps) > 6 && rapid.IntRange(0, 4).Draw(t, "earlycompact") == 0 {
			p.Steps[rapid.IntRange(1, 5).Draw(t, "at")] = prog.Step{Op: "compact"}
		}
		// the tail also views history and attaches late
		for i := range p.Tail {
			if x := rapid.IntRange(0, 5).Draw(t, "tailop"); x == 0 {
				p.Tail[i].Op = "histview"
			} else if x == 1 {
				p.Tail[i].Op = "attach"
			}
		}
		return p
	})
}

func TestC20Snap(t *testing.T) {
	checkPrograms(t, "C20", "snapcache", genC20Snap(), evalC20Snap)
}
