package props

import (
	"testing"

	"pgregory.net/rapid"

	api "github.com/yorkie-team/yorkie/api/yorkie/v1"
	"github.com/yorkie-team/yorkie/client"
	"github.com/yorkie-team/yorkie/pkg/document"
	"github.com/yorkie-team/yorkie/pkg/document/time"

	"verifharness/prog"
	"verifharness/world"
)

// runWithHistory executes p with the traffic recorder attached and evaluates
// the log/delivery (C04) and clock (C06) invariants over the recorded history.
func runWithHistory(p prog.Program, tag string, sessionsRestart bool) (Outcome, *prog.History) {
	h := prog.NewHistory()
	h.LamportOnly = p.Cfg.Flags["allow_all_detach"] != 0
	gcFree := map[int]bool{} // peers whose current attachment is GC-free (seen in their attach request)
	res := prog.Run(p, prog.RunOpts{
		ProjTag:        tag,
		NonParticipant: func(q *prog.Peer) bool { return gcFree[q.Idx] },
		MakeGuard: func(r *prog.Runner) prog.Guard {
			// the contract of a GC-free attachment: the client produces no
			// tombstones - its edits are confined to counter increases and
			// primitive root values
			return func(d *document.Document, s prog.Step) (prog.Step, string) {
				for _, q := range r.Peers {
					if q.D == d && gcFree[q.Idx] && s.Op != "cinc" && s.Op != "rootset" && s.Op != "pset" && s.Op != "pclear" {
						ns := s
						ns.Op = "cinc"
						return ns, "gcfree-contract"
					}
				}
				return s, ""
			}
		},
		Guard: guardFor("C01", p),
		AttachOpts: func(i int) []interface{} {
			// GC-free attachments (client.WithDisableGC): the client keeps no
			// version-vector row and is synchronised by lamport only
			if p.Cfg.Flags["gcfree"]&(1<<uint(i%16)) != 0 {
				return []interface{}{client.WithDisableGC()}
			}
			return nil
		},
		OnExchange: func(r *prog.Runner, pe *prog.Peer, ex *world.Exchange) {
			if m, ok := ex.Req.(*api.AttachDocumentRequest); ok {
				gcFree[pe.Idx] = m.DisableGc
			}
			if h.LogVV == nil {
				h.LogVV = func(upTo int64) (time.VersionVector, int64) {
					vv, lamp := time.NewVersionVector(), int64(0)
					infos, _, err := r.Log()
					if err != nil {
						return vv, 0
					}
					for _, ci := range infos {
						if ci.ServerSeq <= upTo && len(ci.Operations) > 0 {
							vv.Max(&ci.VersionVector)
							lamp = max(lamp, ci.Lamport)
						}
					}
					return vv, lamp
				}
			}
			h.OnExchange(pe, ex)
			if f := h.Fail(); f != nil && r.ExFail == nil {
				r.ExFail = f
			}
		},
		OnEdit: func(r *prog.Runner, pe *prog.Peer) {
			h.OnLocalChange(pe)
			if f := h.Fail(); f != nil && r.ExFail == nil {
				r.ExFail = f
			}
		},
		AfterQuiesc: func(r *prog.Runner) *prog.Failure { return h.CheckLog(r, sessionsRestart) },
	})
	out := Outcome{Fail: res.Fail, Hist: res.Hist, Ev: res.Ev}
	if out.Ev != nil {
		out.Ev["minvv_checks"] = h.MinVVChecks
		out.Ev["causal_checks"] = h.CausalChecks
		out.Ev["snapshot_responses"] = h.SnapshotResponses
	}
	return out, h
}

// ---------------------------------------------------------------- C04 (sequential part)

func init() { evals["C04"] = evalC04; evals["C04/seq"] = evalC04 }

func evalC04(p prog.Program) Outcome {
	out, _ := runWithHistory(p, "c04", false)
	if out.Fail == nil {
		// non-trivial: >= 2 actors pushed changes that other clients had to pull
		out.NonTrivial = out.Ev["concurrent_pairs"] > 0 && out.Ev["change_pull"] > 2
	}
	return out
}

func genC04() *rapid.Generator[prog.Program] {
	change := prog.Gen(prog.GenOpts{
		MinClients: 2, MaxClients: pick(4, 6), MaxSteps: pick(30, 60),
		Kinds: []string{"obj", "counter", "text", "arr", "pres"}, SchedOps: []string{"pushonly", "pushonly", "attach", "detach", "losesync", "losesync", "syncedit"},
		SyncWeight: 8, OfflineBias: true,
	})
	snap := prog.Gen(prog.GenOpts{
		MinClients: 2, MaxClients: pick(4, 6), MaxSteps: pick(30, 60),
		Kinds: []string{"obj", "counter", "text", "arr", "pres"}, SchedOps: []string{"pushonly", "pushonly", "attach", "detach", "losesync", "losesync", "syncedit"},
		SyncWeight: 8, OfflineBias: true, Snapshots: true,
	})
	return rapid.Custom(func(t *rapid.T) prog.Program {
		var p prog.Program
		if rapid.IntRange(0, 3).Draw(t, "snap") == 0 {
			p = snap.Draw(t, "p")
		} else {
			p = change.Draw(t, "p")
		}
		// a quarter of the cases: the document is created presenceless by the
		// first attacher while the others attach plainly and keep sending
		// presence (their presence-only changes are stripped by the server)
		p.Cfg.NoPresence = rapid.IntRange(0, 3).Draw(t, "nopresence") == 0
		return p
	})
}

func TestC04(t *testing.T) {
	checkPrograms(t, "C04", "seq", genC04(), evalC04)
}

// ---------------------------------------------------------------- C06

func init() { evals["C06"] = evalC06 }

func evalC06(p prog.Program) Outcome {
	out, h := runWithHistory(p, "c06", true)
	if out.Fail == nil {
		out.NonTrivial = h.MinVVChecks > 0 && h.CausalChecks > 0 &&
			(h.SnapshotResponses > 0 || out.Ev["detach"] > 0 || out.Ev["reattach"] > 0 || out.Ev["late_attach"] > 0)
		if p.Cfg.Flags["allow_all_detach"] != 0 && out.Ev != nil {
			out.Ev["orphan_stratum"] = 1
			if h.SnapshotResponses > 0 {
				out.Ev["orphan_stratum_snapshot_fed"] = 1
			}
		}
	}
	return out
}

func genC06() *rapid.Generator[prog.Program] {
	sched := []string{"pushonly", "attach", "detach", "detach", "reattach", "reattach", "syncedit", "losesync"}
	change := prog.Gen(prog.GenOpts{
		MinClients: 2, MaxClients: pick(4, 5), MaxSteps: pick(30, 60), MaxTail: pick(6, 12),
		Kinds: prog.AllEditKinds, SchedOps: sched, SyncWeight: 8, OfflineBias: true,
	})
	snap := prog.Gen(prog.GenOpts{
		MinClients: 2, MaxClients: pick(4, 5), MaxSteps: pick(30, 60), MaxTail: pick(6, 12),
		Kinds: prog.AllEditKinds, SchedOps: sched, SyncWeight: 8, OfflineBias: true, Snapshots: true,
	})
	// orphan stratum: every client may detach, so snapshots are stored while
	// the document has no version-vector row (F23 region: the stored vector is
	// empty there, the stored lamport is the only carrier of the document's
	// time); cache purges make later attachers be served from those stored
	// snapshots. Vector-free edit kinds only (F23 breaks the vectors of the
	// changes made afterwards); the lamport rules all apply.
	orphan := prog.Gen(prog.GenOpts{
		MinClients: 1, MaxClients: 3, MaxSteps: pick(30, 50), MaxTail: pick(6, 10),
		EditOps:    []string{"oset", "odel", "rootset", "cinc", "aadd", "oset", "rootset"},
		SchedOps:   []string{"detach", "detach", "detach", "reattach", "reattach", "reattach", "cachepurge", "cachepurge", "attach"},
		SyncWeight: 5, Snapshots: true,
	})
	return rapid.Custom(func(t *rapid.T) prog.Program {
		var p prog.Program
		if rapid.IntRange(0, 5).Draw(t, "orphan") == 0 {
			p = orphan.Draw(t, "p")
			p.Cfg.Flags = map[string]int{"allow_all_detach": 1}
			return p
		}
		if rapid.IntRange(0, 1).Draw(t, "snap") == 0 {
			p = snap.Draw(t, "p")
		} else {
			p = change.Draw(t, "p")
		}
		// a third of the cases: some attachments (never the first) are GC-free
		if rapid.IntRange(0, 2).Draw(t, "gcfree") == 0 {
			p.Cfg.Flags = map[string]int{"gcfree": rapid.IntRange(1, 127).Draw(t, "mask") << 1}
		}
		return p
	})
}

func TestC06(t *testing.T) {
	checkPrograms(t, "C06", "history", genC06(), evalC06)
}
