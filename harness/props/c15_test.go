package props

import (
	"os"
	"testing"

	"github.com/yorkie-team/yorkie/pkg/document"

	"pgregory.net/rapid"

	"verifharness/prog"
)

// C15 — undo and redo propagate like ordinary edits: peers converge.

func init() { evals["C15"] = evalC15 }

func evalC15(p prog.Program) Outcome {
	res := prog.Run(p, prog.RunOpts{ProjTag: "c15", Guard: guardFor("C15", p), TolerateUndoError: true, NormaliseChunks: true, MakeGuard: makeGuardC15})
	out := Outcome{Fail: res.Fail, Hist: res.Hist, Ev: res.Ev}
	if res.Fail == nil {
		out.NonTrivial = res.Ev["undo_redo_executed"] > 0 && (res.Ev["concurrent_pairs"] > 0 || res.Ev["client_gc_purged"] > 0)
		if p.Cfg.Flags["styleonly"] == 1 {
			out.Ev["styleonly_stratum"] = 1
		}
		if p.Cfg.Flags["serial"] == 1 {
			out.Ev["serial_stratum"] = 1
			// no concurrency by construction: non-trivial = an undo/redo ran on a multi-client history
			out.NonTrivial = res.Ev["undo_redo_executed"] > 0
		}
	}
	return out
}

// c15Kinds is the C14 content alphabet (no styles, moves, set-by-index).
var c15Kinds = []string{"obj", "arr", "text", "counter", "tree"}

func genC15() *rapid.Generator[prog.Program] {
	base := prog.Gen(prog.GenOpts{
		MinClients: 2, MaxClients: pick(3, 4), MaxSteps: pick(24, 40),
		Kinds: c15Kinds, SchedOps: []string{"undo", "undo", "undo", "redo", "redo", "round", "round"}, SyncWeight: 6, OfflineBias: true,
	})
	// Serial multi-writer stratum: every change (edit, undo, redo) is delivered
	// to every replica before the next one is made, so there is no concurrency
	// and the F10/F11 exclusion does not apply: every client edits the same
	// text/tree/array and undoes/redoes entries whose content peers have since
	// changed; updates with several operations in one change ("multi").
	serialOps := append(prog.Ops(c15Kinds...), "multi", "multi", "multi", "multi", "tedit", "tedit")
	serial := prog.Gen(prog.GenOpts{
		MinClients: 2, MaxClients: 3, MaxSteps: pick(20, 32),
		EditOps: serialOps, SchedOps: []string{"undo", "undo", "undo", "undo", "redo", "redo", "round"}, SyncWeight: 1,
	})
	// Style-only stratum: after the base state nobody changes the text content;
	// every client styles sub-ranges (splitting nodes), undoes and redoes its
	// styles (the only way the Go SDK removes an attribute) while the peers
	// style the same characters concurrently.
	styleonly := prog.Gen(prog.GenOpts{
		MinClients: 2, MaxClients: 3, MaxSteps: pick(20, 32),
		EditOps: []string{"tstyle", "tstyle", "tstyle", "cinc"}, SchedOps: []string{"undo", "undo", "undo", "redo", "redo", "round"}, SyncWeight: 4, OfflineBias: true,
	})
	return rapid.Custom(func(t *rapid.T) prog.Program {
		if rapid.IntRange(0, 11).Draw(t, "styleonly") == 0 {
			p := styleonly.Draw(t, "p")
			p.Steps = append(append([]prog.Step{}, c15Base...), p.Steps...)
			p.Cfg.Flags = map[string]int{"styleonly": 1}
			p.Cfg.ClientNoGC = rapid.IntRange(0, 2).Draw(t, "nogc") == 0
			return p
		}
		if rapid.IntRange(0, 4).Draw(t, "serial") == 0 {
			p := serial.Draw(t, "p")
			p.Steps = append(append([]prog.Step{}, c15Base...), p.Steps...)
			// directed episodes: X makes a multi-operation update that starts
			// with a text insertion; Y deletes around that position; X undoes
			// (part of what its entry reverses is gone already) and maybe redoes
			for e := rapid.IntRange(0, 3).Draw(t, "episodes"); e > 0; e-- {
				x := rapid.IntRange(0, p.Cfg.N-1).Draw(t, "x")
				y := (x + 1 + rapid.IntRange(0, p.Cfg.N-2).Draw(t, "y")) % p.Cfg.N
				a := 2 * rapid.IntRange(0, 3).Draw(t, "a")
				p.Steps = append(p.Steps,
					prog.Step{Who: x, Op: "multi", A: a, B: rapid.IntRange(0, 7).Draw(t, "b"), C: rapid.IntRange(0, 8).Draw(t, "c")},
					prog.Step{Who: y, Op: "tedit", A: a, B: rapid.IntRange(1, 3).Draw(t, "len"), C: 6 * rapid.IntRange(0, 1).Draw(t, "c6")},
					prog.Step{Who: x, Op: "undo"})
				if rapid.Bool().Draw(t, "redo") {
					p.Steps = append(p.Steps, prog.Step{Who: x, Op: "redo"})
				}
			}
			p.Cfg.Flags = map[string]int{"serial": 1}
			// no client GC in this stratum: with several writers the known
			// "GC vs undo" defects (F33 re-creation, F49 operations on purged
			// targets, F58) all fire - each needs some replica to have purged
			p.Cfg.ClientNoGC = true
			return p
		}
		p := base.Draw(t, "p")
		if rapid.IntRange(0, 2).Draw(t, "gcthenundo") == 0 {
			// Stratum "undo after everybody collected": a few edits, then
			// enough full rounds for the minimum version vector to pass them
			// (so the undoer itself has purged the tombstones), then undo/redo
			// calls separated by rounds.
			var edits []prog.Step
			for _, st := range p.Steps {
				if prog.IsEditOp(st.Op) && st.Op != "undo" && st.Op != "redo" && len(edits) < 4 {
					edits = append(edits, st)
				}
			}
			// start from the base state of the enumeration (non-empty text,
			// array and object) so that deletes and replaces have a target
			steps := append(append([]prog.Step{}, c15Base...), edits...)
			for i := rapid.IntRange(2, 4).Draw(t, "rounds"); i > 0; i-- {
				steps = append(steps, prog.Step{Who: rapid.IntRange(0, p.Cfg.N-1).Draw(t, "rw"), Op: "round"})
			}
			for i := rapid.IntRange(1, 4).Draw(t, "undos"); i > 0; i-- {
				steps = append(steps, prog.Step{Who: rapid.IntRange(0, p.Cfg.N-1).Draw(t, "uw"),
					Op: rapid.SampledFrom([]string{"undo", "undo", "redo"}).Draw(t, "uop")})
				if rapid.Bool().Draw(t, "roundafter") {
					steps = append(steps, prog.Step{Who: 0, Op: "round"})
				}
			}
			p.Steps = steps
		}
		if rapid.IntRange(0, 2).Draw(t, "staggered") == 0 {
			// Stratum "undo on replicas in different purge states": client 0 is
			// the only writer of the text / the tree; it makes a few edits
			// (incl. styles, so that deleted ranges cover nodes with different
			// attributes) and pushes them; the peers sync twice (they may purge
			// what client 0 deleted, client 0 still holds it); client 0 then
			// undoes / redoes and pushes; more rounds in between.
			kind := rapid.IntRange(0, 1).Draw(t, "kind")
			pool := [][]string{{"tedit", "tedit", "tedit", "tstyle", "tstyle"}, {"trtext", "trtext", "trdel", "trins", "trstyle"}}[kind]
			steps := append([]prog.Step{}, c15Base...)
			for episode := rapid.IntRange(1, 2).Draw(t, "episodes"); episode > 0; episode-- {
				if kind == 0 && rapid.Bool().Draw(t, "mixedattrs") {
					// a removed range that covers pieces with DIFFERENT attributes and
					// keeps live neighbours of the same insertion on both sides
					at := rapid.IntRange(0, 2).Draw(t, "at")
					steps = append(steps,
						prog.Step{Who: 0, Op: "tstyle", A: at, B: 1, C: rapid.IntRange(0, 3).Draw(t, "s1") * 2},
						prog.Step{Who: 0, Op: "tstyle", A: at + 1, B: 1, C: rapid.IntRange(0, 3).Draw(t, "s2")*2 + 1},
						prog.Step{Who: 0, Op: "tedit", A: at, B: 2, C: 0})
				}
				for i := rapid.IntRange(2, 5).Draw(t, "edits"); i > 0; i-- {
					steps = append(steps, prog.Step{Who: 0, Op: rapid.SampledFrom(pool).Draw(t, "op"),
						A: rapid.IntRange(0, 7).Draw(t, "a"), B: rapid.IntRange(0, 7).Draw(t, "b"), C: rapid.IntRange(0, 8).Draw(t, "c")})
				}
				steps = append(steps, prog.Step{Who: 0, Op: "sync"})
				// (three syncs: pull the removal, report it as seen, receive a minimum
				// vector that covers it - one more than before the F65 fix)
				for w := 1; w < p.Cfg.N; w++ {
					steps = append(steps, prog.Step{Who: w, Op: "sync"}, prog.Step{Who: w, Op: "sync"})
				}
				for w := 1; w < p.Cfg.N; w++ {
					steps = append(steps, prog.Step{Who: w, Op: "sync"})
				}
				for i := rapid.IntRange(1, 4).Draw(t, "undos"); i > 0; i-- {
					steps = append(steps, prog.Step{Who: 0, Op: rapid.SampledFrom([]string{"undo", "undo", "redo"}).Draw(t, "uop")})
					if rapid.IntRange(0, 2).Draw(t, "pushnow") == 0 {
						steps = append(steps, prog.Step{Who: 0, Op: "sync"}, prog.Step{Who: 1, Op: "sync"}, prog.Step{Who: 1, Op: "sync"}, prog.Step{Who: 1, Op: "sync"})
					}
				}
				steps = append(steps, prog.Step{Who: 0, Op: "sync"}, prog.Step{Who: 0, Op: "round"})
			}
			p.Steps = steps
			p.Tail = nil
		}
		p.Cfg.ClientNoGC = rapid.IntRange(0, 3).Draw(t, "nogc") == 0
		if rapid.IntRange(0, 2).Draw(t, "partition") > 0 {
			// Partition stratum: the text and the tree each have one owner,
			// so undo/redo of text/tree edits is exercised (it is excluded
			// for multi-writer containers, see F10/F11) while the peers edit
			// other containers concurrently and run GC.
			tOwner := rapid.IntRange(0, p.Cfg.N-1).Draw(t, "towner")
			trOwner := rapid.IntRange(0, p.Cfg.N-1).Draw(t, "trowner")
			for i := range p.Steps {
				switch p.Steps[i].Op {
				case "tedit":
					p.Steps[i].Who = tOwner
				case "trtext", "trins", "trdel", "trstyle":
					p.Steps[i].Who = trOwner
				}
			}
		}
		return p
	})
}

func TestC15(t *testing.T) {
	checkPrograms(t, "C15", "random", genC15(), evalC15)
}

// makeGuardC15 adds the exclusions that need to look at every replica.
func makeGuardC15(r *prog.Runner) prog.Guard {
	if envInt("VERIF_NO_EXCLUSIONS", 0) != 0 || os.Getenv("VERIF_NO_EXCLUSIONS") != "" {
		return func(d *document.Document, s prog.Step) (prog.Step, string) { return s, "" }
	}
	return prog.Chain(prog.GuardF49Anchors(r), prog.GuardF33(r))
}
