package props

import (
	"context"
	"encoding/json"
	"fmt"
	"io"
	"net/http"
	"net/http/httptest"
	"strings"
	"sync"
	"testing"

	"connectrpc.com/connect"
	"pgregory.net/rapid"

	"github.com/yorkie-team/yorkie/api/converter"
	"github.com/yorkie-team/yorkie/api/types"
	api "github.com/yorkie-team/yorkie/api/yorkie/v1"
	"github.com/yorkie-team/yorkie/api/yorkie/v1/v1connect"
	"github.com/yorkie-team/yorkie/client"
	"github.com/yorkie-team/yorkie/pkg/document"
	yjson "github.com/yorkie-team/yorkie/pkg/document/json"
	"github.com/yorkie-team/yorkie/pkg/document/presence"
	"github.com/yorkie-team/yorkie/pkg/document/time"
	"github.com/yorkie-team/yorkie/pkg/key"

	"verifharness/prog"
	"verifharness/stats"
	"verifharness/world"
)

// C13, webhook part: two projects protect their data RPCs with an
// authorization webhook each (the per-project credential check for client
// tokens). Each webhook has a fixed policy over five tokens; generated
// sequences of requests (project, token, procedure, document key) are sent
// and the server's decision must be the decision of THAT project's webhook
// for THAT token, whatever was asked - and cached - before.

var c13Tokens = []string{"tok-A-only", "tok-B-only", "tok-both", "tok-nobody", "tok-unauthenticated"}

// c13Policy[project][token]: 200 allow, 403 deny, 401 unauthenticated.
var c13Policy = [2][5]int{
	{200, 403, 200, 403, 401},
	{403, 200, 200, 403, 401},
}

type c13HookStep struct {
	Proj int `json:"proj"`
	Tok  int `json:"tok"`
	Op   int `json:"op"` // 0 ActivateClient, 1 AttachDocument, 2 DeactivateClient
	Key  int `json:"key"`
}

type c13HookWorld struct {
	s     *world.Server
	projs [2]*types.Project
	asked [2]int
	mu    sync.Mutex
}

var (
	c13HookOnce sync.Once
	c13Hook     *c13HookWorld
	c13HookErr  error
)

func c13HookSetup() (*c13HookWorld, error) {
	c13HookOnce.Do(func() {
		s := world.Get()
		w := &c13HookWorld{s: s}
		srv := httptest.NewServer(http.HandlerFunc(func(rw http.ResponseWriter, r *http.Request) {
			body, _ := io.ReadAll(r.Body)
			var req types.AuthWebhookRequest
			_ = json.Unmarshal(body, &req)
			p := 0
			if strings.HasSuffix(r.URL.Path, "/b") {
				p = 1
			}
			w.mu.Lock()
			w.asked[p]++
			w.mu.Unlock()
			status := 403
			for i, t := range c13Tokens {
				if t == req.Token {
					status = c13Policy[p][i]
				}
			}
			rw.Header().Set("Content-Type", "application/json")
			rw.WriteHeader(status)
			_ = json.NewEncoder(rw).Encode(types.AuthWebhookResponse{Allowed: status == 200, Reason: "policy"})
		}))
		ctx := context.Background()
		var methods []string
		for _, m := range types.AuthMethods() {
			methods = append(methods, string(m))
		}
		for i, path := range []string{"/a", "/b"} {
			p, err := s.Y.CreateProject(ctx, fmt.Sprintf("hook%d-%s", i, world.FreshDocKey("p")))
			if err != nil {
				c13HookErr = err
				return
			}
			url := srv.URL + path
			info, err := s.BE.DB.UpdateProjectInfo(ctx, p.ID, &types.UpdatableProjectFields{AuthWebhookURL: &url, AuthWebhookMethods: &methods})
			if err != nil {
				c13HookErr = err
				return
			}
			w.projs[i] = info.ToProject()
		}
		c13Hook = w
	})
	return c13Hook, c13HookErr
}

func (w *c13HookWorld) cli(p int, tok string) v1connect.YorkieServiceClient {
	return v1connect.NewYorkieServiceClient(http.DefaultClient, "http://"+w.s.Addr,
		connect.WithInterceptors(client.NewAuthInterceptor(w.projs[p].PublicKey, tok)))
}

// allowedToken returns a token the project's webhook accepts.
func allowedToken(p int) string { return c13Tokens[p] }

func runC13Hook(steps []c13HookStep) (fail *prog.Failure, cls map[string]int, hist []string) {
	cls = map[string]int{}
	w, err := c13HookSetup()
	if err != nil {
		return c13fail("HARNESS", "webhook setup: %v", err), cls, nil
	}
	ctx := context.Background()
	for i, st := range steps {
		tok := c13Tokens[st.Tok]
		want := c13Policy[st.Proj][st.Tok]
		var err error
		what := ""
		switch st.Op {
		case 0:
			what = "ActivateClient"
			var res *connect.Response[api.ActivateClientResponse]
			res, err = w.cli(st.Proj, tok).ActivateClient(ctx, connect.NewRequest(&api.ActivateClientRequest{ClientKey: "hook-client"}))
			if err == nil {
				_, _ = w.cli(st.Proj, allowedToken(st.Proj)).DeactivateClient(ctx, connect.NewRequest(&api.DeactivateClientRequest{ClientId: res.Msg.ClientId, Synchronous: true}))
			}
		case 1, 2:
			// a client activated with a token its project accepts
			act, aerr := w.cli(st.Proj, allowedToken(st.Proj)).ActivateClient(ctx, connect.NewRequest(&api.ActivateClientRequest{ClientKey: world.FreshDocKey("hk")}))
			if aerr != nil {
				return c13fail("OWN-TOKEN-REFUSED", "step %d: ActivateClient in project %d with the token its webhook accepts failed: %v", i, st.Proj, aerr), cls, hist
			}
			cid := act.Msg.ClientId
			if st.Op == 1 {
				what = "AttachDocument"
				k := key.Key(fmt.Sprintf("hook-doc-%d", st.Key))
				d := document.New(k)
				actor, _ := time.ActorIDFromHex(cid)
				d.SetActor(actor)
				_ = d.Update(func(r *yjson.Object, p *presence.Presence) error { p.Initialize(nil); return nil })
				pack, _ := converter.ToChangePack(d.CreateChangePack())
				_, err = w.cli(st.Proj, tok).AttachDocument(ctx, connect.NewRequest(&api.AttachDocumentRequest{ClientId: cid, ChangePack: pack}))
			} else {
				what = "DeactivateClient"
				_, err = w.cli(st.Proj, tok).DeactivateClient(ctx, connect.NewRequest(&api.DeactivateClientRequest{ClientId: cid, Synchronous: true}))
			}
			_, _ = w.cli(st.Proj, allowedToken(st.Proj)).DeactivateClient(ctx, connect.NewRequest(&api.DeactivateClientRequest{ClientId: cid, Synchronous: true}))
		}
		w.s.WaitIdle()
		code := "ok"
		if err != nil {
			code = connect.CodeOf(err).String()
		}
		hist = append(hist, fmt.Sprintf("project %c, token %q: %s -> %s (policy of this project's webhook: %d)", 'A'+rune(st.Proj), tok, what, code, want))
		cls["hook:"+what] = 1
		cls[fmt.Sprintf("hook:policy=%d", want)] = 1
		refused := code == "permission_denied" || code == "unauthenticated"
		switch {
		case want == 200 && refused:
			return c13fail("WEBHOOK-ALLOWED-BUT-REFUSED", "step %d: %s", i, hist[len(hist)-1]), cls, hist
		case want == 403 && code != "permission_denied":
			return c13fail("WEBHOOK-DENIED-BUT-ANSWERED", "step %d: %s (want permission_denied)", i, hist[len(hist)-1]), cls, hist
		case want == 401 && code != "unauthenticated":
			return c13fail("WEBHOOK-DENIED-BUT-ANSWERED", "step %d: %s (want unauthenticated)", i, hist[len(hist)-1]), cls, hist
		}
	}
	return nil, cls, hist
}

func init() {
	replayers["c13hook"] = func(raw json.RawMessage) *prog.Failure {
		var steps []c13HookStep
		if err := json.Unmarshal(raw, &steps); err != nil {
			return c13fail("HARNESS", "%v", err)
		}
		f, _, _ := runC13Hook(steps)
		return f
	}
}

func TestC13Webhook(t *testing.T) {
	col := stats.New("C13", "webhook")
	defer col.Flush(true)
	step := rapid.Custom(func(t *rapid.T) c13HookStep {
		return c13HookStep{
			Proj: rapid.IntRange(0, 1).Draw(t, "proj"),
			Tok:  rapid.IntRange(0, 4).Draw(t, "tok"),
			Op:   rapid.IntRange(0, 2).Draw(t, "op"),
			Key:  rapid.IntRange(0, 1).Draw(t, "key"),
		}
	})
	rapid.Check(t, func(rt *rapid.T) {
		steps := rapid.SliceOfN(step, 2, 10).Draw(rt, "steps")
		fail, cls, hist := runC13Hook(steps)
		raw, _ := json.Marshal(steps)
		h := uint64(1469598103934665603)
		for _, x := range raw {
			h = (h ^ uint64(x)) * 1099511628211
		}
		// non-trivial: the same (token, procedure, key) was sent to both projects, whose policies differ for it
		cross := false
		for i, a := range steps {
			for _, b := range steps[i+1:] {
				if a.Proj != b.Proj && a.Tok == b.Tok && a.Op == b.Op && (a.Op != 1 || a.Key == b.Key) && c13Policy[0][a.Tok] != c13Policy[1][a.Tok] {
					cross = true
				}
			}
		}
		col.Record(h, fail == nil && cross, cls, func() any { return hist })
		if fail != nil {
			if fail.Kind == "HARNESS" {
				fmt.Printf("HARNESS-ERROR property=C13 %s\n", fail.Msg)
				rt.Fatalf("harness: %s", fail.Msg)
			}
			rf := ReplayFile{Prop: "C13", Kind: "c13hook", Case: raw, Failure: fail.Error(), History: hist}
			path := writeReplay(rf, fmt.Sprintf("webhook-%016x", h))
			col.AddViolation(stats.Violation{Replay: path, Kind: fail.Kind, Msg: fail.Msg})
			fmt.Printf("VIOLATION-FOUND property=C13 replay=%s kind=%s\n  %s\n", path, fail.Kind, fail.Error())
			rt.Fatalf("%s", fail.Error())
		}
	})
}
