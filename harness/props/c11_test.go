package props

import (
	"context"
	"encoding/json"
	"fmt"
	"net/http"
	"strings"
	"testing"

	"connectrpc.com/connect"
	"pgregory.net/rapid"

	"github.com/yorkie-team/yorkie/api/converter"
	"github.com/yorkie-team/yorkie/api/types"
	api "github.com/yorkie-team/yorkie/api/yorkie/v1"
	"github.com/yorkie-team/yorkie/api/yorkie/v1/v1connect"
	"github.com/yorkie-team/yorkie/client"
	"github.com/yorkie-team/yorkie/pkg/document"
	yjson "github.com/yorkie-team/yorkie/pkg/document/json"
	"github.com/yorkie-team/yorkie/pkg/document/presence"
	"github.com/yorkie-team/yorkie/pkg/document/time"
	"github.com/yorkie-team/yorkie/pkg/key"
	"github.com/yorkie-team/yorkie/server/documents"

	"verifharness/prog"
	"verifharness/stats"
	"verifharness/world"
)

// C11 — client/document lifecycle rules are enforced in every state.
// Words over {Activate, Deactivate, Attach(d), PushPull(d), Detach(d),
// Remove(d)} x 2 clients x 2 documents are sent through raw RPC peers (so that
// invalid calls can be sent) and the server's accept/reject decision and the
// observable effects are compared with a reference automaton written from
// docs/design/document-client-lifecycle.md.

const (
	lActivate = iota
	lDeactivate
	lAttach
	lPushPull
	lDetach
	lRemove
	lAttachStale  // Attach re-using the client's previous Document instance of that key (documented as unsupported: must be refused)
	lAttachBroken // Attach whose pack has a hole in the client sequence: refused, and the document is left "attaching" for the client
	lPushOnly     // PushPull with push_only set (random words only; same rules as PushPull, nothing is pulled)
)

var c11Names = []string{"Activate", "Deactivate", "Attach", "PushPull", "Detach", "Remove", "AttachStaleInstance", "AttachBrokenPack", "PushOnly"}

// c11Letter is one call: Op by client C on document D (D ignored for
// Activate/Deactivate).
type c11Letter struct{ Op, C, D int }

func (l c11Letter) String() string {
	if l.Op <= lDeactivate {
		return fmt.Sprintf("%s(c%d)", c11Names[l.Op], l.C)
	}
	return fmt.Sprintf("%s(c%d,d%d)", c11Names[l.Op], l.C, l.D)
}

// c11Alphabet lists the 28 letters.
func c11Alphabet() []c11Letter {
	var a []c11Letter
	for c := 0; c < 2; c++ {
		a = append(a, c11Letter{lActivate, c, 0}, c11Letter{lDeactivate, c, 0})
		for d := 0; d < 2; d++ {
			for op := lAttach; op <= lAttachBroken; op++ {
				a = append(a, c11Letter{op, c, d})
			}
		}
	}
	return a
}

// canonical reports whether the word is the representative of its class under
// renaming of clients and documents (first client used is c0, first document d0).
func c11Canonical(w []c11Letter) bool {
	seenC, seenD := false, false
	for _, l := range w {
		if !seenC {
			if l.C != 0 {
				return false
			}
			seenC = true
		}
		if l.Op > lDeactivate && !seenD {
			if l.D != 0 {
				return false
			}
			seenD = true
		}
	}
	return true
}

// ---- model

type c11DocGen struct {
	id      string
	removed bool
	head    int64 // log head when it was removed (must not move afterwards)
}

type c11Att struct {
	status string // "", "attaching", "attached", "detached", "removed"
	gen    *c11DocGen
	doc    *document.Document
}

type c11Slot struct {
	id        string
	everID    string
	activated bool
	att       [2]*c11Att
}

type c11World struct {
	s     *world.Server
	ctx   context.Context
	cli   v1connect.YorkieServiceClient
	keys  [2]key.Key
	gens  [2]*c11DocGen // current generation per key (nil: none yet)
	slots [2]*c11Slot
	hist  []string
	ev    map[string]int
	val   int
	// smallThreshold: the project answers pulls of >=2 changes with snapshots
	smallThreshold bool
}

var debugC11 = false

const c11FakeID = "000000000000000000000001"

func (w *c11World) logf(f string, a ...any) { w.hist = append(w.hist, fmt.Sprintf(f, a...)) }

func c11fail(kind, f string, a ...any) *prog.Failure {
	return &prog.Failure{Kind: kind, Msg: fmt.Sprintf(f, a...)}
}

func (w *c11World) head(docID string) int64 {
	if docID == "" || docID == c11FakeID {
		return -1
	}
	di, err := w.s.BE.DB.FindDocInfoByRefKey(w.ctx, types.DocRefKey{ProjectID: w.proj().ID, DocID: types.ID(docID)})
	if err != nil {
		return -1
	}
	return di.ServerSeq
}

func (w *c11World) proj() *types.Project {
	if w.smallThreshold {
		return w.s.Project(2, 2, "c11s")
	}
	return w.s.Project(1000, 1000, "c11")
}

// rows returns the number of stored rows with operations of the document.
func (w *c11World) opRows(docID string) int {
	if docID == "" || docID == c11FakeID {
		return -1
	}
	infos, err := w.s.DB.Database.FindChangeInfosBetweenServerSeqs(w.ctx,
		types.DocRefKey{ProjectID: w.proj().ID, DocID: types.ID(docID)}, 1, 1<<60)
	if err != nil {
		return -1
	}
	n := 0
	for _, ci := range infos {
		if len(ci.Operations) > 0 {
			n++
		}
	}
	return n
}

func (w *c11World) clientID(s *c11Slot) string {
	if s.id != "" {
		return s.id
	}
	return c11FakeID
}

// localEdit makes one change with an operation on the replica.
func (w *c11World) localEdit(d *document.Document) {
	w.val++
	v := w.val
	_ = d.Update(func(r *yjson.Object, p *presence.Presence) error {
		r.SetInteger("k", v)
		return nil
	})
}

// step executes one letter and compares the decision with the model.
func (w *c11World) step(l c11Letter) *prog.Failure {
	s := w.slots[l.C]
	switch l.Op {
	case lActivate:
		if s.activated {
			w.logf("%v: already activated (no call, as the SDK does)", l)
			return nil
		}
		res, err := w.cli.ActivateClient(w.ctx, connect.NewRequest(&api.ActivateClientRequest{ClientKey: world.FreshDocKey("ck")}))
		w.logf("%v -> err=%v", l, err)
		if err != nil {
			return c11fail("ACTIVATE-REJECTED", "%v: %v", l, err)
		}
		s.id, s.everID, s.activated = res.Msg.ClientId, res.Msg.ClientId, true
		s.att = [2]*c11Att{{}, {}}
		return nil
	case lDeactivate:
		_, err := w.cli.DeactivateClient(w.ctx, connect.NewRequest(&api.DeactivateClientRequest{ClientId: w.clientID(s), Synchronous: true}))
		w.s.WaitIdle()
		w.logf("%v -> err=%v", l, err)
		if !s.activated {
			if err == nil {
				return c11fail("DEACTIVATE-ACCEPTED", "%v accepted although the client is not activated", l)
			}
			w.ev["rejected"]++
			return nil
		}
		if err != nil {
			return c11fail("DEACTIVATE-REJECTED", "%v of an activated client failed: %v", l, err)
		}
		s.activated = false
		for _, a := range s.att {
			if a.status == "attached" || a.status == "attaching" {
				a.status = "detached"
			}
		}
		w.ev["state_change"]++
		return nil
	}

	a := s.att[l.D]
	if a == nil {
		a = &c11Att{}
	}
	k := w.keys[l.D]
	cur := w.gens[l.D]
	// PushPull needs the document attached; Detach and Remove are also allowed
	// from the attaching state (residue of a failed attach)
	pushOnly := l.Op == lPushOnly
	if pushOnly {
		l.Op = lPushPull
	}
	valid := s.activated && (a.status == "attached" || (a.status == "attaching" && l.Op != lPushPull))
	// document id to address: the attachment's, else the key's current one, else a fake
	docID := c11FakeID
	if a.gen != nil {
		docID = a.gen.id
	} else if cur != nil {
		docID = cur.id
	}
	before := w.opRows(docID)
	beforeHead := w.head(docID)
	reject := func(err error, what string) *prog.Failure {
		if err == nil {
			return c11fail("INVALID-CALL-ACCEPTED", "%v accepted although %s", l, what)
		}
		if after := w.opRows(docID); after != before {
			return c11fail("REJECTED-CALL-STORED-CHANGES", "%v was rejected (%v) but the document's stored operation rows went %d -> %d",
				l, short(err), before, after)
		}
		w.ev["rejected"]++
		return nil
	}

	if l.Op == lAttachStale {
		if a.doc == nil || !s.activated || (a.status != "detached" && a.status != "attached") || a.gen.removed {
			l.Op = lAttach // nothing to re-use (or not the interesting state): a plain attach
		} else {
			// re-use the instance that was attached before: never allowed
			_ = a.doc.Update(func(r *yjson.Object, p *presence.Presence) error { p.Initialize(nil); return nil })
			pack, _ := converter.ToChangePack(a.doc.CreateChangePack())
			_, err := w.cli.AttachDocument(w.ctx, connect.NewRequest(&api.AttachDocumentRequest{ClientId: w.clientID(s), ChangePack: pack}))
			w.s.WaitIdle()
			w.logf("%v -> err=%v", l, short(err))
			w.ev["stale_instance_attach"]++
			return reject(err, fmt.Sprintf("it re-uses a Document instance that is %q for this client", a.status))
		}
	}
	if l.Op == lAttachBroken {
		if !s.activated || (a.status == "attached" && !a.gen.removed) {
			l.Op = lAttach // refused for the plain reason
		} else {
			d := document.New(k)
			actor, _ := time.ActorIDFromHex(w.clientID(s))
			d.SetActor(actor)
			_ = d.Update(func(r *yjson.Object, p *presence.Presence) error { p.Initialize(nil); return nil })
			w.localEdit(d)
			cp := d.CreateChangePack()
			cp.Changes = cp.Changes[1:] // the first change is missing
			pack, _ := converter.ToChangePack(cp)
			_, err := w.cli.AttachDocument(w.ctx, connect.NewRequest(&api.AttachDocumentRequest{ClientId: w.clientID(s), ChangePack: pack}))
			w.s.WaitIdle()
			w.logf("%v -> err=%v", l, short(err))
			w.ev["broken_attach"]++
			if f := reject(err, "its change pack has a hole in the client sequence"); f != nil {
				return f
			}
			// the server has created/resolved the document and recorded it as
			// "attaching" for this client before it refused the pack
			di, derr := documents.FindDocInfoByKey(w.ctx, w.s.BE, w.proj(), k)
			if derr != nil {
				return c11fail("HARNESS", "doc by key after a refused attach: %v", derr)
			}
			if cur == nil || cur.removed {
				if cur != nil && cur.id == di.ID.String() {
					return c11fail("REMOVED-DOC-REUSED", "%v after removal resolved to the removed document id %s", l, cur.id)
				}
				cur = &c11DocGen{id: di.ID.String()}
				w.gens[l.D] = cur
			} else if di.ID.String() != cur.id {
				return c11fail("DOC-ID-CHANGED", "%v: key resolved to %s, expected the live document %s", l, di.ID, cur.id)
			}
			s.att[l.D] = &c11Att{status: "attaching", gen: cur}
			w.ev["state_change"]++
			return nil
		}
	}
	switch l.Op {
	case lAttach:
		d := document.New(k)
		actor, _ := time.ActorIDFromHex(w.clientID(s))
		d.SetActor(actor)
		_ = d.Update(func(r *yjson.Object, p *presence.Presence) error { p.Initialize(nil); return nil })
		pack, _ := converter.ToChangePack(d.CreateChangePack())
		res, err := w.cli.AttachDocument(w.ctx, connect.NewRequest(&api.AttachDocumentRequest{ClientId: w.clientID(s), ChangePack: pack}))
		w.s.WaitIdle()
		w.logf("%v -> err=%v", l, short(err))
		if !s.activated {
			return reject(err, "the client is not activated")
		}
		if a.status == "attached" && !a.gen.removed {
			return reject(err, "the document is already attached by this client")
		}
		if err != nil {
			return c11fail("ATTACH-REJECTED", "%v (client activated, document %q by this client) failed: %v", l, a.status, err)
		}
		rp, err := converter.FromChangePack(res.Msg.ChangePack)
		if err != nil {
			return c11fail("HARNESS", "decode: %v", err)
		}
		if debugC11 {
			fmt.Printf("attach resp: snapshot=%d changes=%d vv=%s cp=%s\n", len(rp.Snapshot), len(rp.Changes), rp.VersionVector.Marshal(), rp.Checkpoint.String())
		}
		if err := d.ApplyChangePack(rp); err != nil {
			return c11fail("ATTACH-APPLY", "%v: response does not apply: %v", l, err)
		}
		if cur == nil || cur.removed {
			// a removed (or never created) key yields a NEW document id
			for _, g := range []*c11DocGen{cur} {
				if g != nil && g.id == res.Msg.DocumentId {
					return c11fail("REMOVED-DOC-REUSED", "%v after removal returned the removed document id %s", l, g.id)
				}
			}
			cur = &c11DocGen{id: res.Msg.DocumentId}
			w.gens[l.D] = cur
		} else if res.Msg.DocumentId != cur.id {
			return c11fail("DOC-ID-CHANGED", "%v: key resolved to %s, expected the live document %s", l, res.Msg.DocumentId, cur.id)
		}
		if rp.IsRemoved {
			return c11fail("ATTACH-TO-REMOVED", "%v: attach response carries the removed flag", l)
		}
		d.SetStatus(document.StatusAttached)
		s.att[l.D] = &c11Att{status: "attached", gen: cur, doc: d}
		w.ev["state_change"]++
		return nil

	case lPushPull, lDetach, lRemove:
		d := a.doc
		if d == nil {
			d = document.New(k)
			actor, _ := time.ActorIDFromHex(w.clientID(s))
			d.SetActor(actor)
		}
		w.localEdit(d)
		pack, _ := converter.ToChangePack(d.CreateChangePack())
		var resPack *api.ChangePack
		var err error
		switch l.Op {
		case lPushPull:
			var r *connect.Response[api.PushPullChangesResponse]
			r, err = w.cli.PushPullChanges(w.ctx, connect.NewRequest(&api.PushPullChangesRequest{ClientId: w.clientID(s), DocumentId: docID, ChangePack: pack, PushOnly: pushOnly}))
			if err == nil {
				resPack = r.Msg.ChangePack
			}
			if pushOnly {
				w.ev["push_only_call"]++
			}
		case lDetach:
			var r *connect.Response[api.DetachDocumentResponse]
			r, err = w.cli.DetachDocument(w.ctx, connect.NewRequest(&api.DetachDocumentRequest{ClientId: w.clientID(s), DocumentId: docID, ChangePack: pack}))
			if err == nil {
				resPack = r.Msg.ChangePack
			}
		case lRemove:
			pack.IsRemoved = true
			var r *connect.Response[api.RemoveDocumentResponse]
			r, err = w.cli.RemoveDocument(w.ctx, connect.NewRequest(&api.RemoveDocumentRequest{ClientId: w.clientID(s), DocumentId: docID, ChangePack: pack}))
			if err == nil {
				resPack = r.Msg.ChangePack
			}
		}
		w.s.WaitIdle()
		w.logf("%v%s -> err=%v", l, map[bool]string{true: " [push_only]"}[pushOnly], short(err))
		if !valid {
			what := "the client is not activated"
			if s.activated {
				what = fmt.Sprintf("the document is %q for this client, not attached", a.status)
			}
			return reject(err, what)
		}
		if err != nil {
			return c11fail("VALID-CALL-REJECTED", "%v (client activated, document attached) failed: %v", l, err)
		}
		rp, derr := converter.FromChangePack(resPack)
		if derr != nil {
			return c11fail("HARNESS", "decode: %v", derr)
		}
		if aerr := d.ApplyChangePack(rp); aerr != nil {
			return c11fail("RESPONSE-APPLY", "%v: response does not apply: %v", l, aerr)
		}
		g := a.gen
		if g.removed {
			// removed for everyone: flag on every response, nothing stored any more
			if !rp.IsRemoved {
				return c11fail("REMOVED-FLAG-MISSING", "%v on a removed document: response lacks the removed flag", l)
			}
			if after := w.opRows(g.id); after != before {
				return c11fail("CHANGE-STORED-ON-REMOVED-DOC", "%v: the removed document's stored operation rows went %d -> %d", l, before, after)
			}
			w.ev["call_on_removed_doc"]++
		} else if (l.Op == lPushPull || l.Op == lDetach) && a.status == "attached" {
			if after := w.opRows(g.id); after != before+1 {
				return c11fail("ACCEPTED-CHANGE-NOT-STORED", "%v accepted but stored operation rows went %d -> %d (expected +1)", l, before, after)
			}
		}
		_ = beforeHead
		switch l.Op {
		case lDetach:
			a.status = "detached"
			w.ev["state_change"]++
		case lRemove:
			if !rp.IsRemoved {
				return c11fail("REMOVED-FLAG-MISSING", "%v: response lacks the removed flag", l)
			}
			a.status = "removed"
			if !g.removed {
				g.removed = true
			}
			w.ev["state_change"]++
			w.ev["removed"]++
		}
		return nil
	}
	return c11fail("HARNESS", "bad letter %v", l)
}

func short(err error) string {
	if err == nil {
		return "<nil>"
	}
	s := err.Error()
	if len(s) > 110 {
		s = s[:110] + "..."
	}
	return strings.ReplaceAll(s, "\n", " ")
}

// finish runs the end-of-word probes: a client that is the only one attached
// to a live document must be able to collect its own garbage (detached and
// deactivated clients no longer hold back GC), and statuses on the server match.
func (w *c11World) finish() *prog.Failure {
	for d := 0; d < 2; d++ {
		var holders []*c11Slot
		for _, s := range w.slots {
			if s.activated && s.att[d] != nil && s.att[d].status == "attached" && !s.att[d].gen.removed && s.att[d].gen == w.gens[d] {
				holders = append(holders, s)
			}
		}
		// server-side status of every attachment
		for ci, s := range w.slots {
			if s.everID == "" || s.att[d] == nil || s.att[d].gen == nil {
				continue
			}
			info, err := w.s.BE.DB.FindClientInfoByRefKey(w.ctx, types.ClientRefKey{ProjectID: w.proj().ID, ClientID: types.ID(s.everID)}, true)
			if err != nil {
				return c11fail("HARNESS", "client info: %v", err)
			}
			cd := info.Documents[types.ID(s.att[d].gen.id)]
			got := ""
			if cd != nil {
				got = cd.Status
			}
			if got != s.att[d].status {
				return c11fail("STATUS-MISMATCH", "c%d/d%d: server says %q, lifecycle model says %q", ci, d, got, s.att[d].status)
			}
			if want := s.activated; (info.Status == "activated") != want {
				return c11fail("STATUS-MISMATCH", "c%d: server client status %q, model activated=%v", ci, info.Status, want)
			}
		}
		if len(holders) != 1 {
			continue
		}
		s := holders[0]
		a := s.att[d]
		// create garbage, then sync three times: with no other attached client the
		// minimum version vector is this client's own, so everything this probe
		// creates is collected. (Garbage that was there before is not asserted:
		// see known finding F23, tombstones of actors missing from a snapshot's
		// version vector are never collectable.)
		g0 := a.doc.GarbageLen()
		if err := a.doc.Update(func(r *yjson.Object, p *presence.Presence) error {
			r.SetInteger("g", 1)
			return nil
		}); err != nil {
			return c11fail("PROBE-EDIT-FAILED", "local edit on the attached replica failed: %v", err)
		}
		if err := a.doc.Update(func(r *yjson.Object, p *presence.Presence) error {
			r.Delete("g")
			return nil
		}); err != nil {
			return c11fail("PROBE-EDIT-FAILED", "local edit on the attached replica failed: %v", err)
		}
		for i := 0; i < 3; i++ {
			pack, _ := converter.ToChangePack(a.doc.CreateChangePack())
			r, err := w.cli.PushPullChanges(w.ctx, connect.NewRequest(&api.PushPullChangesRequest{ClientId: s.id, DocumentId: a.gen.id, ChangePack: pack}))
			if err != nil {
				return c11fail("PROBE-SYNC-FAILED", "GC probe sync of the only attached client failed: %v", err)
			}
			rp, _ := converter.FromChangePack(r.Msg.ChangePack)
			if debugC11 {
				fmt.Printf("probe %d: resp vv=%s snapshot=%d doc vv=%s actor=%s\n", i, rp.VersionVector.Marshal(), len(rp.Snapshot), a.doc.VersionVector().Marshal(), a.doc.ActorID().String())
			}
			if err := a.doc.ApplyChangePack(rp); err != nil {
				return c11fail("PROBE-APPLY-FAILED", "%v", err)
			}
			w.s.WaitIdle()
		}
		if g := a.doc.GarbageLen(); g != 0 && debugC11 {
			infos, _ := w.s.DB.Database.FindChangeInfosBetweenServerSeqs(w.ctx, types.DocRefKey{ProjectID: w.proj().ID, DocID: types.ID(a.gen.id)}, 1, 1<<60)
			for _, ci := range infos {
				fmt.Printf("row %d actor=%s cseq=%d lamport=%d vv=%s ops=%d pres=%v\n", ci.ServerSeq, ci.ActorID, ci.ClientSeq, ci.Lamport, ci.VersionVector.Marshal(), len(ci.Operations), ci.PresenceChange != nil)
			}
			fmt.Println("doc:", a.doc.Marshal())
		}
		if g := a.doc.GarbageLen(); g > g0 {
			return c11fail("GC-HELD-BACK", "the only attached client of d%d cannot collect the tombstone it just created (garbage %d -> %d after 3 syncs): a detached/deactivated client holds back the minimum version vector", d, g0, g)
		}
		w.ev["gc_probe"]++
	}
	return nil
}

func runC11(word []c11Letter) (fail *prog.Failure, hist []string, ev map[string]int) {
	s := world.Get()
	w := &c11World{s: s, ctx: context.Background(), ev: map[string]int{}}
	// words longer than the enumerated bound run in a snapshot-threshold-2
	// project so that lagging clients are answered with snapshots
	w.smallThreshold = len(word) > 5
	proj := w.proj()
	w.cli = v1connect.NewYorkieServiceClient(http.DefaultClient, "http://"+s.Addr,
		connect.WithInterceptors(client.NewAuthInterceptor(proj.PublicKey, "")))
	w.keys = [2]key.Key{key.Key(world.FreshDocKey("c11a")), key.Key(world.FreshDocKey("c11b"))}
	w.slots = [2]*c11Slot{{att: [2]*c11Att{{}, {}}}, {att: [2]*c11Att{{}, {}}}}
	defer func() {
		if r := recover(); r != nil {
			fail = c11fail("PANIC", "%v", r)
		}
		hist, ev = w.hist, w.ev
		for _, sl := range w.slots {
			if sl.activated {
				_, _ = w.cli.DeactivateClient(w.ctx, connect.NewRequest(&api.DeactivateClientRequest{ClientId: sl.id, Synchronous: true}))
			}
		}
		s.WaitIdle()
	}()
	for _, l := range word {
		if f := w.step(l); f != nil {
			return f, w.hist, w.ev
		}
	}
	if f := w.finish(); f != nil {
		return f, w.hist, w.ev
	}
	return nil, w.hist, w.ev
}

func init() {
	replayers["c11"] = func(raw json.RawMessage) *prog.Failure {
		var word []c11Letter
		if err := json.Unmarshal(raw, &word); err != nil {
			return c11fail("HARNESS", "%v", err)
		}
		f, _, _ := runC11(word)
		return f
	}
}

func c11Hash(word []c11Letter) uint64 {
	h := uint64(1469598103934665603)
	for _, l := range word {
		h = (h ^ uint64(l.Op*4+l.C*2+l.D+1)) * 1099511628211
	}
	return h
}

func c11Record(col *stats.Collector, t *testing.T, word []c11Letter, part string) bool {
	fail, hist, ev := runC11(word)
	nontrivial := fail == nil && ev["rejected"] > 0 && ev["state_change"] > 0
	cls := map[string]int{fmt.Sprintf("len:%d", len(word)): 1}
	for k, v := range ev {
		cls[k] = v
	}
	col.Record(c11Hash(word), nontrivial, cls, func() any {
		var ws []string
		for _, l := range word {
			ws = append(ws, l.String())
		}
		return map[string]any{"word": strings.Join(ws, " "), "history": hist}
	})
	if fail != nil {
		if fail.Kind == "HARNESS" {
			fmt.Printf("HARNESS-ERROR property=C11 %s\n", fail.Msg)
			t.Fatalf("harness: %s", fail.Msg)
		}
		// shrink: drop letters while it still fails
		for i := 0; i < len(word); {
			cand := append(append([]c11Letter{}, word[:i]...), word[i+1:]...)
			if f, h, _ := runC11(cand); f != nil && f.Kind != "HARNESS" {
				word, fail, hist = cand, f, h
			} else {
				i++
			}
		}
		raw, _ := json.Marshal(word)
		rf := ReplayFile{Prop: "C11", Kind: "c11", Case: raw, Failure: fail.Error(), History: hist}
		path := writeReplay(rf, fmt.Sprintf("%s-%016x", part, c11Hash(word)))
		col.AddViolation(stats.Violation{Replay: path, Kind: fail.Kind, Msg: fail.Msg})
		fmt.Printf("VIOLATION-FOUND property=C11 replay=%s kind=%s\n  %s\n", path, fail.Kind, fail.Error())
		for _, h := range hist {
			fmt.Printf("    %s\n", h)
		}
		return false
	}
	return true
}

// TestC11Enum enumerates all canonical words up to the tier's length.
func TestC11Enum(t *testing.T) {
	col := stats.New("C11", "enum")
	defer col.Flush(true)
	alpha := c11Alphabet()
	sh, n := shard()
	maxLen := pick(4, 5)
	sampleLast := 1 // every word of the tier's bound is run
	seed := envInt("VERIF_SEED", 1)
	idx, total, ran, failures := 0, 0, 0, 0
	var rec func(word []c11Letter)
	rec = func(word []c11Letter) {
		if failures >= 3 {
			return
		}
		if len(word) > 0 && c11Canonical(word) {
			idx++
			total++
			take := idx%n == sh
			if len(word) == maxLen && sampleLast > 1 && (idx/n+seed)%sampleLast != 0 {
				take = false
			}
			if take {
				ran++
				if !c11Record(col, t, append([]c11Letter{}, word...), "enum") {
					failures++
				}
			}
		}
		if len(word) == maxLen {
			return
		}
		for _, l := range alpha {
			rec(append(word, l))
		}
	}
	rec(nil)
	col.SetExtra("canonical_words_in_scope", total)
	col.SetExhaustive(sampleLast == 1)
	col.Note("C11 enum: %d canonical words of length <= %d (client/document renaming symmetry removed); this shard ran %d", total, maxLen, ran)
	if failures > 0 {
		t.Fatalf("%d words violate C11", failures)
	}
}

// TestC11Random draws longer words (6..10), biased towards words that
// activate and attach early so that deep states are reached.
func TestC11Random(t *testing.T) {
	col := stats.New("C11", "random")
	defer col.Flush(true)
	alpha := c11Alphabet()
	ok := true
	rapid.Check(t, func(rt *rapid.T) {
		n := rapid.IntRange(6, 10).Draw(rt, "len")
		word := []c11Letter{{lActivate, 0, 0}}
		if rapid.Bool().Draw(rt, "second") {
			word = append(word, c11Letter{lActivate, 1, 0})
		}
		if rapid.Bool().Draw(rt, "shared") {
			// scenario prefix: both clients attached to the same document
			word = []c11Letter{{lActivate, 0, 0}, {lActivate, 1, 0}, {lAttach, 0, 0}, {lAttach, 1, 0}}
			n += 3
		}
		for len(word) < n {
			l := alpha[rapid.IntRange(0, len(alpha)-1).Draw(rt, "l")]
			if l.Op == lDeactivate && rapid.IntRange(0, 2).Draw(rt, "keep") > 0 {
				l = c11Letter{lAttach + rapid.IntRange(0, 5).Draw(rt, "op"), l.C, rapid.IntRange(0, 1).Draw(rt, "d")}
			}
			if l.Op == lPushPull && rapid.IntRange(0, 2).Draw(rt, "pushonly") == 0 {
				l.Op = lPushOnly
			}
			word = append(word, l)
		}
		if !c11Record(col, t, word, "random") {
			ok = false
			rt.Fatalf("word violates C11")
		}
	})
	_ = ok
}
