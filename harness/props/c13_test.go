package props

import (
	"bytes"
	"context"
	"encoding/binary"
	"encoding/json"
	"fmt"
	"io"
	"net/http"
	"sort"
	"strings"
	"sync"
	"testing"
	gotime "time"

	"connectrpc.com/connect"
	"google.golang.org/protobuf/proto"
	"google.golang.org/protobuf/reflect/protoreflect"
	"google.golang.org/protobuf/reflect/protoregistry"
	"google.golang.org/protobuf/types/known/wrapperspb"
	"pgregory.net/rapid"

	"github.com/yorkie-team/yorkie/api/converter"
	"github.com/yorkie-team/yorkie/api/types"
	api "github.com/yorkie-team/yorkie/api/yorkie/v1"
	"github.com/yorkie-team/yorkie/api/yorkie/v1/v1connect"
	"github.com/yorkie-team/yorkie/client"
	"github.com/yorkie-team/yorkie/pkg/document"
	yjson "github.com/yorkie-team/yorkie/pkg/document/json"
	"github.com/yorkie-team/yorkie/pkg/document/presence"
	"github.com/yorkie-team/yorkie/pkg/document/time"
	"github.com/yorkie-team/yorkie/pkg/key"
	"github.com/yorkie-team/yorkie/server/rpc/auth"

	"verifharness/prog"
	"verifharness/stats"
	"verifharness/world"
)

// C13 — projects are isolated and every data RPC requires the right
// credential. Every procedure of the three generated service descriptors is
// called with generated requests (identifier fields drawn from pools of the
// attacker's own, the victim's, random and malformed values) under every
// credential; with any credential that is not the victim's, the victim
// project's stored state must stay byte-identical and the response must carry
// none of the victim's planted secrets.

type c13Side struct {
	user, pass, token string
	proj              *api.Project
	oldPublic         string // rotated-out keys (victim only)
	oldSecret         string
	clientID          string
	clientKey         string
	docID             string
	uniqueKey         string
	revID             string
	marker            string // planted in document content, revision label, schema body
	schemaName        string
}

type c13World struct {
	s *world.Server
	// A is the attacker, B the victim (never addressed with its own
	// credentials, so that nothing legitimate ever changes it), C a control
	// project that is called with its OWN credentials to show that the same
	// requests do succeed for the rightful owner.
	A, B, C *c13Side
	shared  string // document key used in all projects
	procs   []c13Proc
	calls   int
}

type c13Proc struct {
	Service, Method string
	In              protoreflect.MessageDescriptor
	Streaming       bool
}

func (p c13Proc) Path() string { return "/" + p.Service + "/" + p.Method }

var (
	c13Once sync.Once
	c13W    *c13World
	c13Err  error
)

func c13Procs() []c13Proc {
	var out []c13Proc
	for _, fd := range []protoreflect.FileDescriptor{api.File_yorkie_v1_yorkie_proto, api.File_yorkie_v1_admin_proto, api.File_yorkie_v1_cluster_proto} {
		svcs := fd.Services()
		for i := 0; i < svcs.Len(); i++ {
			sd := svcs.Get(i)
			ms := sd.Methods()
			for j := 0; j < ms.Len(); j++ {
				m := ms.Get(j)
				out = append(out, c13Proc{Service: string(sd.FullName()), Method: string(m.Name()), In: m.Input(),
					Streaming: m.IsStreamingServer() || m.IsStreamingClient()})
			}
		}
	}
	sort.Slice(out, func(i, j int) bool { return out[i].Path() < out[j].Path() })
	return out
}

func c13Setup() (*c13World, error) {
	c13Once.Do(func() {
		w := &c13World{s: world.Get(), shared: world.FreshDocKey("shared"), procs: c13Procs()}
		var err error
		if w.A, err = w.mkSide("a"); err != nil {
			c13Err = fmt.Errorf("populate A: %w", err)
			return
		}
		if w.B, err = w.mkSide("b"); err != nil {
			c13Err = fmt.Errorf("populate B: %w", err)
			return
		}
		if w.C, err = w.mkSide("c"); err != nil {
			c13Err = fmt.Errorf("populate C: %w", err)
			return
		}
		c13W = w
	})
	return c13W, c13Err
}

func c13Name(prefix string) string {
	n := strings.ReplaceAll(world.FreshDocKey(prefix), "-", "")
	return n[:min(28, len(n))]
}

// mkSide creates a user, a project and its data (client, two documents with
// planted content, a revision, a schema).
func (w *c13World) mkSide(tag string) (*c13Side, error) {
	s := w.s
	ctx := context.Background()
	admin := v1connect.NewAdminServiceClient(http.DefaultClient, "http://"+s.Addr)
	sd := &c13Side{user: c13Name("u" + tag), pass: "Passw0rd!" + tag, marker: strings.ToUpper("MARK" + tag + c13Name("x")),
		uniqueKey: world.FreshDocKey("only" + tag), schemaName: c13Name("sch" + tag)}
	if _, err := admin.SignUp(ctx, connect.NewRequest(&api.SignUpRequest{Username: sd.user, Password: sd.pass})); err != nil {
		return nil, fmt.Errorf("signup: %w", err)
	}
	li, err := admin.LogIn(ctx, connect.NewRequest(&api.LogInRequest{Username: sd.user, Password: sd.pass}))
	if err != nil {
		return nil, fmt.Errorf("login: %w", err)
	}
	sd.token = li.Msg.Token
	adm := v1connect.NewAdminServiceClient(&http.Client{Transport: c13HeaderTransport{"Authorization": "Bearer " + sd.token}}, "http://"+s.Addr)
	cp, err := adm.CreateProject(ctx, connect.NewRequest(&api.CreateProjectRequest{Name: c13Name("p" + tag)}))
	if err != nil {
		return nil, fmt.Errorf("create project: %w", err)
	}
	sd.proj = cp.Msg.Project
	if tag != "a" {
		// the victim (and the control) rotate their keys once: the old ones must be dead
		sd.oldPublic, sd.oldSecret = sd.proj.PublicKey, sd.proj.SecretKey
		rot, err := adm.RotateProjectKeys(ctx, connect.NewRequest(&api.RotateProjectKeysRequest{Id: sd.proj.Id}))
		if err != nil {
			return nil, fmt.Errorf("rotate: %w", err)
		}
		sd.proj = rot.Msg.Project
	}
	// schema: the project comes from the API-Key scheme
	hc := &http.Client{Transport: c13HeaderTransport{"Authorization": "API-Key " + sd.proj.SecretKey}}
	admKey := v1connect.NewAdminServiceClient(hc, "http://"+s.Addr)
	if _, err := admKey.CreateSchema(ctx, connect.NewRequest(&api.CreateSchemaRequest{SchemaName: sd.schemaName, SchemaVersion: 1,
		SchemaBody: "type Document = { title: string; }; // " + sd.marker,
		Rules:      []*api.Rule{{Path: "$.title", Type: "string"}}})); err != nil {
		return nil, fmt.Errorf("create schema: %w", err)
	}
	// data plane
	cl, err := client.Dial(s.Addr, client.WithAPIKey(sd.proj.PublicKey), client.WithSyncLoopDuration(gotime.Hour))
	if err != nil {
		return nil, err
	}
	if err := cl.Activate(ctx); err != nil {
		return nil, fmt.Errorf("activate: %w", err)
	}
	sd.clientID, sd.clientKey = cl.ID().String(), cl.Key()
	for _, k := range []string{w.shared, sd.uniqueKey} {
		d := document.New(key.Key(k))
		if err := cl.Attach(ctx, d); err != nil {
			return nil, fmt.Errorf("attach: %w", err)
		}
		if err := d.Update(func(r *yjson.Object, p *presence.Presence) error {
			r.SetString("secret", sd.marker)
			r.SetNewText("t").Edit(0, 0, sd.marker)
			return nil
		}); err != nil {
			return nil, err
		}
		if err := cl.Sync(ctx); err != nil {
			return nil, fmt.Errorf("sync: %w", err)
		}
	}
	s.WaitIdle()
	di, err := s.BE.DB.FindDocInfoByKey(ctx, types.ID(sd.proj.Id), key.Key(w.shared))
	if err != nil {
		return nil, err
	}
	sd.docID = di.ID.String()
	yk := v1connect.NewYorkieServiceClient(http.DefaultClient, "http://"+s.Addr,
		connect.WithInterceptors(client.NewAuthInterceptor(sd.proj.PublicKey, "")))
	rv, err := yk.CreateRevision(ctx, connect.NewRequest(&api.CreateRevisionRequest{ClientId: sd.clientID, DocumentId: sd.docID,
		Label: "rev-" + sd.marker, Description: "desc " + sd.marker}))
	if err != nil {
		return nil, fmt.Errorf("create revision: %w", err)
	}
	sd.revID = rv.Msg.Revision.Id
	s.WaitIdle()
	return sd, nil
}

// c13HeaderTransport adds fixed headers to every request.
type c13HeaderTransport map[string]string

func (h c13HeaderTransport) RoundTrip(r *http.Request) (*http.Response, error) {
	for k, v := range h {
		r.Header.Set(k, v)
	}
	return http.DefaultTransport.RoundTrip(r)
}

// fingerprint serialises everything the victim project has stored, read
// through the Database interface.
func (w *c13World) fingerprint(sd *c13Side) (string, error) {
	ctx := context.Background()
	db := w.s.DB.Database
	pid := types.ID(sd.proj.Id)
	var parts []any
	pi, err := db.FindProjectInfoByID(ctx, pid)
	if err != nil {
		return "", err
	}
	parts = append(parts, pi)
	ci, err := db.FindClientInfoByRefKey(ctx, types.ClientRefKey{ProjectID: pid, ClientID: types.ID(sd.clientID)}, true)
	if err != nil {
		return "", err
	}
	parts = append(parts, ci)
	docs, err := db.FindDocInfosByPaging(ctx, pid, types.Paging[types.ID]{PageSize: 100, IsForward: false})
	if err != nil {
		return "", err
	}
	parts = append(parts, len(docs))
	for _, k := range []string{w.shared, sd.uniqueKey} {
		di, err := db.FindDocInfoByKey(ctx, pid, key.Key(k))
		if err != nil {
			return "", fmt.Errorf("victim document %s: %w", k, err)
		}
		parts = append(parts, di)
		infos, err := db.FindChangeInfosBetweenServerSeqs(ctx, di.RefKey(), 1, 1<<60)
		if err != nil {
			return "", err
		}
		for _, ci := range infos {
			parts = append(parts, fmt.Sprintf("%s/%d/%d/%d/%s/%s/%x/%v", ci.ID, ci.ServerSeq, ci.ClientSeq, ci.Lamport, ci.ActorID,
				ci.VersionVector.Marshal(), ci.Operations, ci.PresenceChange))
		}
		sn, err := db.FindClosestSnapshotInfo(ctx, di.RefKey(), 1<<60, false)
		if err == nil {
			parts = append(parts, sn.ServerSeq)
		}
		vv, err := db.GetMinVersionVector(ctx, di.RefKey(), time.NewVersionVector())
		if err == nil {
			parts = append(parts, vv.Marshal())
		}
		revs, err := db.FindRevisionInfosByPaging(ctx, di.RefKey(), types.Paging[int]{PageSize: 100}, false)
		if err == nil {
			parts = append(parts, revs)
		}
	}
	schemas, err := db.ListSchemaInfos(ctx, pid)
	if err == nil {
		parts = append(parts, schemas)
	}
	members, err := db.ListMemberInfos(ctx, pid)
	if err == nil {
		parts = append(parts, members)
	}
	b, err := json.Marshal(parts)
	return string(b), err
}

// c13Case is one generated call.
type c13Case struct {
	Proc  int            `json:"proc"`
	Cred  string         `json:"cred"`
	Picks map[string]int `json:"picks"` // field name -> index into its pool
	Flags int            `json:"flags"`
}

var c13Creds = []string{"none", "A-public", "A-secret", "A-token", "B-old-public", "B-old-secret", "garbage", "own-public", "own-secret", "own-token", "cluster-wrong", "cluster-right",
	"A-token-expired", "A-token-wrongkey"}

func (w *c13World) headers(cred string, flags int) map[string]string {
	h := map[string]string{}
	switch cred {
	case "A-token-expired":
		// a token of the attacker's own (existing) user, signed with the
		// server's key, whose lifetime ended a drawn while ago
		ago := []gotime.Duration{2 * gotime.Second, gotime.Minute, gotime.Hour, 23 * gotime.Hour, 47 * gotime.Hour}[flags%5]
		tok, _ := auth.NewTokenManager(world.SecretKey, -ago).Generate(w.A.user)
		h["Authorization"] = "Bearer " + tok
	case "A-token-wrongkey":
		tok, _ := auth.NewTokenManager("not-the-servers-key", gotime.Hour).Generate(w.A.user)
		h["Authorization"] = "Bearer " + tok
	case "A-public":
		h["x-api-key"] = w.A.proj.PublicKey
	case "A-secret":
		h["Authorization"] = "API-Key " + w.A.proj.SecretKey
		h["x-api-key"] = w.A.proj.PublicKey
	case "A-token":
		h["Authorization"] = "Bearer " + w.A.token
		h["x-api-key"] = w.A.proj.PublicKey
	case "B-old-public":
		h["x-api-key"] = w.B.oldPublic
	case "B-old-secret":
		h["Authorization"] = "API-Key " + w.B.oldSecret
		h["x-api-key"] = w.B.oldPublic
	case "garbage":
		h["Authorization"] = "Bearer not.a.token"
		h["x-api-key"] = "no-such-key"
	case "own-public":
		h["x-api-key"] = w.C.proj.PublicKey
	case "own-secret":
		h["Authorization"] = "API-Key " + w.C.proj.SecretKey
		h["x-api-key"] = w.C.proj.PublicKey
	case "own-token":
		h["Authorization"] = "Bearer " + w.C.token
		h["x-api-key"] = w.C.proj.PublicKey
	case "cluster-wrong":
		h["x-cluster-secret"] = "wrong-secret"
		h["x-api-key"] = w.A.proj.PublicKey
	case "cluster-right":
		h["x-cluster-secret"] = world.ClusterSecret
		h["x-api-key"] = w.A.proj.PublicKey
	}
	return h
}

const c13RandomID = "65f0c0ffee0000000000beef"

// pool returns the candidate values of an identifier field.
func (w *c13World) pool(name string, v *c13Side) []string {
	switch name {
	case "client_id":
		return []string{w.A.clientID, v.clientID, c13RandomID, "zz-not-hex"}
	case "document_id":
		return []string{w.A.docID, v.docID, c13RandomID, "zz-not-hex"}
	case "document_key", "key":
		return []string{w.shared, v.uniqueKey, w.A.uniqueKey, "no-such-doc-key"}
	case "project_name", "name":
		return []string{w.A.proj.Name, v.proj.Name, "nosuchproject"}
	case "project_id", "id":
		return []string{w.A.proj.Id, v.proj.Id, c13RandomID}
	case "revision_id":
		return []string{w.A.revID, v.revID, c13RandomID}
	case "schema_name":
		return []string{w.A.schemaName, v.schemaName, "nosuchschema"}
	case "username":
		return []string{w.A.user, v.user, "nosuchuser"}
	case "password", "current_password":
		return []string{w.A.pass, "wrong-password"}
	case "channel_key", "topic":
		return []string{"room-1", "room-" + w.shared}
	case "client_key":
		return []string{w.A.clientKey, v.clientKey, "fresh-client-key"}
	case "query":
		return []string{"shared", "only", ""}
	case "label", "description":
		return []string{"attacker-label"}
	case "new_password":
		return []string{"N3wPassw0rd!"}
	case "role":
		return []string{"admin", "member"}
	case "token", "session_id", "previous_id":
		return []string{"", c13RandomID}
	}
	return nil
}

// build creates the request message of the case.
func (w *c13World) build(c c13Case, v *c13Side) (proto.Message, map[string]string) {
	p := w.procs[c.Proc]
	mt, err := protoregistry.GlobalTypes.FindMessageByName(p.In.FullName())
	if err != nil {
		panic(err)
	}
	msg := mt.New()
	used := map[string]string{}
	fields := p.In.Fields()
	docKey := ""
	for i := 0; i < fields.Len(); i++ {
		fd := fields.Get(i)
		name := string(fd.Name())
		switch {
		case fd.IsMap():
			continue
		case fd.Kind() == protoreflect.StringKind && !fd.IsList():
			if pool := w.pool(name, v); pool != nil {
				v := pool[c.Picks[name]%len(pool)]
				msg.Set(fd, protoreflect.ValueOfString(v))
				used[name] = v
				if name == "document_key" || name == "key" {
					docKey = v
				}
			}
		case fd.Kind() == protoreflect.StringKind && fd.IsList():
			if pool := w.pool(strings.TrimSuffix(name, "s"), v); pool != nil {
				l := msg.Mutable(fd).List()
				for k := 0; k < 2; k++ {
					v := pool[(c.Picks[name]+k)%len(pool)]
					l.Append(protoreflect.ValueOfString(v))
					used[fmt.Sprintf("%s[%d]", name, k)] = v
				}
			}
		case fd.Kind() == protoreflect.BoolKind:
			msg.Set(fd, protoreflect.ValueOfBool(c.Flags&(1<<uint(i%8)) != 0))
		case fd.Kind() == protoreflect.Int32Kind:
			msg.Set(fd, protoreflect.ValueOfInt32(int32(1+c.Flags%5)))
		case fd.Kind() == protoreflect.Int64Kind:
			msg.Set(fd, protoreflect.ValueOfInt64(int64(c.Flags%3)))
		case fd.Kind() == protoreflect.BytesKind:
			msg.Set(fd, protoreflect.ValueOfBytes([]byte(`{"x":1}`)))
		}
	}
	// message-typed fields
	m := msg.Interface()
	cid := used["client_id"]
	if docKey == "" {
		docKey = w.shared
	}
	mkPack := func() *api.ChangePack {
		d := document.New(key.Key(docKey))
		if a, err := time.ActorIDFromHex(cid); err == nil {
			d.SetActor(a)
		}
		_ = d.Update(func(r *yjson.Object, p *presence.Presence) error {
			r.SetString("written-by", "attacker")
			return nil
		})
		pk, _ := converter.ToChangePack(d.CreateChangePack())
		return pk
	}
	switch r := m.(type) {
	case *api.AttachDocumentRequest:
		r.ChangePack = mkPack()
	case *api.DetachDocumentRequest:
		r.ChangePack = mkPack()
	case *api.PushPullChangesRequest:
		r.ChangePack = mkPack()
	case *api.RemoveDocumentRequest:
		r.ChangePack = mkPack()
		r.ChangePack.IsRemoved = true
	case *api.UpdateProjectRequest:
		n := "renamedbyattacker"
		r.Fields = &api.UpdatableProjectFields{Name: wrapperspb.String(n)}
	case *api.ClusterServiceDetachDocumentRequest:
		r.Project = v.proj
		if c.Picks["project"]%2 == 0 {
			r.Project = w.A.proj
		}
	case *api.UpdateDocumentRequest:
		r.Root = `{"overwritten":"by-attacker"}`
	}
	return m, used
}

type c13Resp struct {
	Status int
	Code   string
	Body   []byte
}

func (w *c13World) call(p c13Proc, msg proto.Message, hdr map[string]string) (c13Resp, error) {
	body, err := proto.Marshal(msg)
	if err != nil {
		return c13Resp{}, err
	}
	ctype := "application/proto"
	if p.Streaming {
		ctype = "application/connect+proto"
		env := make([]byte, 5+len(body))
		binary.BigEndian.PutUint32(env[1:5], uint32(len(body)))
		copy(env[5:], body)
		body = env
	}
	ctx, cancel := context.WithTimeout(context.Background(), 5*gotime.Second)
	if p.Streaming {
		cancel()
		ctx, cancel = context.WithTimeout(context.Background(), 250*gotime.Millisecond)
	}
	defer cancel()
	req, err := http.NewRequestWithContext(ctx, http.MethodPost, "http://"+w.s.Addr+p.Path(), bytes.NewReader(body))
	if err != nil {
		return c13Resp{}, err
	}
	req.Header.Set("Content-Type", ctype)
	req.Header.Set("Connect-Protocol-Version", "1")
	for k, v := range hdr {
		req.Header.Set(k, v)
	}
	res, err := http.DefaultTransport.RoundTrip(req)
	if err != nil {
		if p.Streaming {
			return c13Resp{Status: 0, Code: "stream-timeout"}, nil
		}
		// The server dropped the connection without an answer: net/http does
		// that when a handler panics (e.g. an Admin handler that reads the
		// project from a context a bearer token does not provide). The
		// isolation oracle still applies; the code is only classified.
		return c13Resp{Status: 0, Code: "connection-closed"}, nil
	}
	defer func() { _ = res.Body.Close() }()
	var buf bytes.Buffer
	_, _ = io.Copy(&buf, io.LimitReader(res.Body, 1<<20)) // streams end by the context deadline
	out := c13Resp{Status: res.StatusCode, Body: buf.Bytes()}
	if res.StatusCode == 200 && !p.Streaming {
		out.Code = "ok"
		return out, nil
	}
	var e struct {
		Code string `json:"code"`
	}
	raw := buf.Bytes()
	if p.Streaming && len(raw) >= 5 {
		// scan frames for the end-of-stream frame (flag 0x02) carrying the error
		out.Code = "ok"
		for off := 0; off+5 <= len(raw); {
			n := int(binary.BigEndian.Uint32(raw[off+1 : off+5]))
			if off+5+n > len(raw) {
				break
			}
			if raw[off]&0x02 != 0 {
				var es struct {
					Error *struct {
						Code string `json:"code"`
					} `json:"error"`
				}
				_ = json.Unmarshal(raw[off+5:off+5+n], &es)
				if es.Error != nil {
					out.Code = es.Error.Code
				}
			}
			off += 5 + n
		}
		return out, nil
	}
	_ = json.Unmarshal(raw, &e)
	out.Code = e.Code
	if out.Code == "" {
		out.Code = fmt.Sprintf("http-%d", res.StatusCode)
	}
	return out, nil
}

func c13fail(kind, f string, a ...any) *prog.Failure {
	return &prog.Failure{Kind: kind, Msg: fmt.Sprintf(f, a...)}
}

// runC13 executes one case and evaluates the isolation oracle.
func runC13(c c13Case) (fail *prog.Failure, cls map[string]int, desc string) {
	cls = map[string]int{}
	w, err := c13Setup()
	if err != nil {
		return c13fail("HARNESS", "setup: %v", err), cls, ""
	}
	p := w.procs[c.Proc%len(w.procs)]
	c.Proc = c.Proc % len(w.procs)
	victimCred := strings.HasPrefix(c.Cred, "own-")
	target := w.B
	if victimCred {
		target = w.C // the rightful owner's calls go to the control project
	}
	msg, used := w.build(c, target)
	hdr := w.headers(c.Cred, c.Flags)
	desc = fmt.Sprintf("%s cred=%s ids=%v", p.Path(), c.Cred, used)
	w.calls++
	if w.calls%400 == 0 {
		// the attacker's and the control project's own state wears out (their
		// own documents get removed, clients deactivated): renew them
		if a, err := w.mkSide("a"); err == nil {
			w.A = a
		}
		if cc, err := w.mkSide("c"); err == nil {
			w.C = cc
		}
	}
	isAdmin := strings.Contains(p.Service, "AdminService")
	isCluster := strings.Contains(p.Service, "ClusterService")
	foreign := !victimCred

	var before string
	if foreign {
		if before, err = w.fingerprint(w.B); err != nil {
			return c13fail("HARNESS", "fingerprint: %v", err), cls, desc
		}
	}
	res, err := w.call(p, msg, hdr)
	w.s.WaitIdle()
	if err != nil {
		return c13fail("HARNESS", "call %s: %v", p.Path(), err), cls, desc
	}
	desc += " -> " + res.Code
	cls["proc:"+p.Method] = 1
	cls["cred:"+c.Cred] = 1
	cls["code:"+res.Code] = 1

	if victimCred {
		if res.Code == "ok" {
			cls["own_credential_success"] = 1
		}
		return nil, cls, desc
	}
	// credentials
	if isCluster && c.Cred != "cluster-right" && res.Code != "unauthenticated" {
		return c13fail("CLUSTER-WITHOUT-SECRET", "%s answered %q without the cluster secret", p.Path(), res.Code), cls, desc
	}
	if isCluster && c.Cred == "cluster-right" {
		return nil, cls, desc // the cluster secret is the server's own credential
	}
	noPassword := map[string]bool{"LogIn": true, "SignUp": true, "ChangePassword": true, "DeleteAccount": true}
	validAdmin := c.Cred == "A-secret" || c.Cred == "A-token"
	if isAdmin && !noPassword[p.Method] && !validAdmin && res.Code != "unauthenticated" {
		return c13fail("ADMIN-WITHOUT-CREDENTIAL", "%s answered %q with credential %q (want unauthenticated)", p.Path(), res.Code, c.Cred), cls, desc
	}
	if (c.Cred == "B-old-public" || c.Cred == "B-old-secret" || c.Cred == "garbage") && res.Code == "ok" && !noPassword[p.Method] && p.Method != "GetServerVersion" {
		return c13fail("DEAD-CREDENTIAL-ACCEPTED", "%s succeeded with the rotated-out/invalid credential %q", p.Path(), c.Cred), cls, desc
	}
	// isolation
	after, err := w.fingerprint(w.B)
	if err != nil {
		return c13fail("VICTIM-STATE-DAMAGED", "%s with %q: the victim's state can no longer be read: %v", p.Path(), c.Cred, err), cls, desc
	}
	if after != before {
		return c13fail("VICTIM-STATE-CHANGED", "%s with credential %q and ids %v changed the victim project's stored state (response %s)\nbefore: %s\nafter:  %s",
			p.Path(), c.Cred, used, res.Code, diffHint(before, after), ""), cls, desc
	}
	secrets := []string{w.B.marker, w.B.proj.SecretKey, w.B.proj.PublicKey, w.B.token}
	// (The victim's document keys are not treated as secrets: the attacker is
	// given them on purpose, and attaching the same key in its own project
	// legitimately creates its own document of that name.)
	for _, sct := range secrets {
		if sct != "" && bytes.Contains(res.Body, []byte(sct)) {
			return c13fail("VICTIM-DATA-LEAKED", "%s with credential %q and ids %v returned the victim's %q (response %s)", p.Path(), c.Cred, used, sct, res.Code), cls, desc
		}
	}
	usesForeign := false
	for _, v := range used {
		if v == w.B.clientID || v == w.B.docID || v == w.B.uniqueKey || v == w.B.revID || v == w.B.proj.Id || v == w.B.proj.Name || v == w.B.schemaName || v == w.B.user {
			usesForeign = true
		}
	}
	if usesForeign && res.Code != "unauthenticated" && res.Code != "stream-timeout" {
		cls["reached_handler_with_foreign_id"] = 1
	}
	return nil, cls, desc
}

func diffHint(a, b string) string {
	i := 0
	for i < len(a) && i < len(b) && a[i] == b[i] {
		i++
	}
	lo := max(0, i-120)
	return fmt.Sprintf("...%s  <<differs from here>>  was: %s | now: %s", a[lo:i], a[i:min(len(a), i+160)], b[i:min(len(b), i+160)])
}

func c13Hash(c c13Case) uint64 {
	b, _ := json.Marshal(c)
	h := uint64(1469598103934665603)
	for _, x := range b {
		h = (h ^ uint64(x)) * 1099511628211
	}
	return h
}

func init() {
	replayers["c13"] = func(raw json.RawMessage) *prog.Failure {
		var c c13Case
		if err := json.Unmarshal(raw, &c); err != nil {
			return c13fail("HARNESS", "%v", err)
		}
		f, _, _ := runC13(c)
		return f
	}
}

func TestC13(t *testing.T) {
	col := stats.New("C13", "matrix")
	defer col.Flush(true)
	w, err := c13Setup()
	if err != nil {
		fmt.Printf("HARNESS-ERROR property=C13 %v\n", err)
		t.Fatalf("setup: %v", err)
	}
	col.SetExtra("procedures", len(w.procs))
	fieldNames := []string{"client_id", "document_id", "document_key", "key", "project_name", "name", "project_id", "id", "revision_id",
		"schema_name", "username", "password", "current_password", "channel_key", "topic", "client_key", "query", "role", "token",
		"session_id", "previous_id", "document_keys", "channel_keys", "project"}
	sh, n := shard()
	seen := 0
	rapid.Check(t, func(rt *rapid.T) {
		// every procedure gets the same share of the budget: procedure by counter, the rest drawn
		seen++
		c := c13Case{Proc: (seen*n + sh) % len(w.procs), Picks: map[string]int{}}
		// credentials: mostly the attacker's VALID credential for that service
		// (the interesting case: the request passes the credential check), the rest
		// spread over the invalid/dead ones and the owner's (control project)
		pr := w.procs[c.Proc]
		var creds []string
		switch {
		case strings.Contains(pr.Service, "YorkieService"):
			creds = []string{"A-public", "A-public", "A-public", "A-public", "A-public", "A-public", "none", "B-old-public", "garbage", "own-public", "own-public", "A-token"}
		case strings.Contains(pr.Service, "AdminService"):
			creds = []string{"A-secret", "A-secret", "A-secret", "A-token", "A-token", "A-token", "none", "A-public", "B-old-secret", "garbage", "own-secret", "own-token",
				"A-token-expired", "A-token-expired", "A-token-wrongkey"}
		default:
			creds = []string{"cluster-wrong", "cluster-wrong", "none", "A-secret", "cluster-right"}
		}
		c.Cred = rapid.SampledFrom(creds).Draw(rt, "cred")
		// identifiers: own and victim's about equally often, independently per field
		for _, f := range fieldNames {
			switch x := rapid.IntRange(0, 19).Draw(rt, f); {
			case x < 9:
				c.Picks[f] = 0 // the attacker's own
			case x < 18:
				c.Picks[f] = 1 // the victim's
			case x < 19:
				c.Picks[f] = 2 // random well-formed
			default:
				c.Picks[f] = 3 // malformed / other
			}
		}
		c.Flags = rapid.IntRange(0, 255).Draw(rt, "flags")
		fail, cls, desc := runC13(c)
		col.Record(c13Hash(c), fail == nil && cls["reached_handler_with_foreign_id"] > 0, cls, func() any { return desc })
		if fail != nil {
			if fail.Kind == "HARNESS" {
				fmt.Printf("HARNESS-ERROR property=C13 %s\n", fail.Msg)
				rt.Fatalf("harness: %s", fail.Msg)
			}
			raw, _ := json.Marshal(c)
			rf := ReplayFile{Prop: "C13", Kind: "c13", Case: raw, Failure: fail.Error(), History: []string{desc}}
			path := writeReplay(rf, fmt.Sprintf("matrix-%016x", c13Hash(c)))
			col.AddViolation(stats.Violation{Replay: path, Kind: fail.Kind, Msg: fail.Msg})
			fmt.Printf("VIOLATION-FOUND property=C13 replay=%s kind=%s\n  %s\n  %s\n", path, fail.Kind, desc, fail.Error())
			rt.Fatalf("%s", fail.Error())
		}
	})
}
