package c18

import (
	"context"
	gojson "encoding/json"
	"fmt"
	"os"
	"sync"
	"testing"

	"pgregory.net/rapid"

	"github.com/yorkie-team/yorkie/api/types"
	"github.com/yorkie-team/yorkie/client"
	"github.com/yorkie-team/yorkie/pkg/document"
	"github.com/yorkie-team/yorkie/pkg/document/crdt"
	"github.com/yorkie-team/yorkie/pkg/document/json"
	"github.com/yorkie-team/yorkie/pkg/document/presence"
	"github.com/yorkie-team/yorkie/pkg/document/yson"
	"github.com/yorkie-team/yorkie/pkg/key"
	"github.com/yorkie-team/yorkie/server/documents"
	"github.com/yorkie-team/yorkie/server/revisions"

	"verifharness/kit"
	"verifharness/prog"
	"verifharness/stats"
	"verifharness/world"
)

// SCase: a literal is stored by a real client, a revision of it is created on
// the in-process server, the client replaces the content by After, the
// revision is restored, and finally the document is compacted.
type SCase struct {
	Sharp bool `json:"sharp,omitempty"` // as HCase.Sharp, for Steps
	Lit   Node `json:"lit"`
	// Steps: edit steps (prog alphabet and the extended one) made by the client
	// on top of the literal; when present the fixed schema of prog.InitDoc is
	// created first.
	Steps []HStep `json:"steps,omitempty"`
	After Node    `json:"after"`
	// GrowFirst: after the compaction the new generation first outgrows the old
	// head and only then a revision is created and restored (no server-side
	// build in between); otherwise the old revision is restored right after
	// the compaction, too.
	GrowFirst bool `json:"grow_first,omitempty"`
}

var (
	srvOnce   sync.Once
	srvClient *client.Client
	srvProj   *types.Project
	srvErr    error
)

func serverClient() (*world.Server, *client.Client, *types.Project, error) {
	s := world.Get()
	srvOnce.Do(func() {
		srvProj = s.Project(1000, 1000, "c18")
		srvClient, srvErr = s.NewClient(context.Background(), srvProj)
	})
	return s, srvClient, srvProj, srvErr
}

func harnessFail(format string, a ...any) *kit.Failure {
	return kit.Failf("HARNESS", "HARNESS-ERROR "+format, a...)
}

func setRoot(d *document.Document, y yson.Object, clear bool) error {
	err, _ := guarded(func() error {
		return d.Update(func(r *json.Object, p *presence.Presence) error {
			if clear {
				var keys []string
				for k := range r.Object.Members() {
					keys = append(keys, k)
				}
				for _, k := range keys {
					r.Delete(k)
				}
			}
			r.SetYSON(y)
			return nil
		})
	})
	return err
}

// Typed construction of a literal through the ordinary user API (no SetYSON):
// the client's content is built independently of the import code that
// revisions.Restore and packs.Compact run on the server.

func fillCounter(c *json.Counter, n Node) {
	for _, a := range n.Act {
		c.Add(a)
	}
}

func fillText(tx *json.Text, n Node) {
	pos := 0
	for _, r := range n.Runs {
		if a := copyAttrs(r.A); a != nil {
			tx.Edit(pos, pos, r.V, a)
		} else {
			tx.Edit(pos, pos, r.V)
		}
		pos += prog.UTF16Len(r.V)
	}
}

func putTyped(o *json.Object, k string, n Node) {
	switch n.K {
	case "obj":
		in := o.SetNewObject(k)
		for i, ck := range n.Keys {
			putTyped(in, ck, n.Kids[i])
		}
	case "arr":
		in := o.SetNewArray(k)
		for _, c := range n.Kids {
			addTyped(in, c)
		}
	case "text":
		fillText(o.SetNewText(k), n)
	case "tree":
		o.SetNewTree(k, n.Tree.yson())
	case "cint":
		o.SetNewCounter(k, int32(n.I))
	case "clong":
		o.SetNewCounter(k, n.I)
	case "cdedup":
		fillCounter(o.SetNewDedupCounter(k), n)
	default:
		setPrim(o, k, n.YSON())
	}
}

func addTyped(a *json.Array, n Node) {
	switch n.K {
	case "obj":
		in := a.AddNewObject()
		for i, ck := range n.Keys {
			putTyped(in, ck, n.Kids[i])
		}
	case "arr":
		in := a.AddNewArray()
		for _, c := range n.Kids {
			addTyped(in, c)
		}
	case "text":
		fillText(a.AddNewText(), n)
	case "tree":
		a.AddNewTree(n.Tree.yson())
	case "cint":
		a.AddNewCounter(crdt.IntegerCnt, int32(n.I))
	case "clong":
		a.AddNewCounter(crdt.LongCnt, n.I)
	case "cdedup":
		fillCounter(a.AddNewCounter(crdt.IntegerDedupCnt, 0), n)
	default:
		addPrim(a, n.YSON())
	}
}

// buildTyped stores the members of the literal under the given key names.
func buildTyped(d *document.Document, lit Node, rename func(string) string) error {
	err, _ := guarded(func() error {
		return d.Update(func(r *json.Object, p *presence.Presence) error {
			for i, k := range lit.Keys {
				putTyped(r, rename(k), lit.Kids[i])
			}
			return nil
		})
	})
	return err
}

// evalServer runs one case against the in-process server.
func evalServer(c SCase) (fail *kit.Failure, ev map[string]int, sh *shape) {
	ev = map[string]int{}
	useTables(c.Sharp)
	lit := c.Lit.YSON().(yson.Object)
	sh = classify(lit)
	if len(c.Steps) > 0 {
		ev["with_edit_steps"] = 1
	}
	s, cl, proj, err := serverClient()
	if err != nil {
		return harnessFail("client: %v", err), ev, sh
	}
	ctx := context.Background()
	k := key.Key(world.FreshDocKey("c18"))
	d := document.New(k)
	if err := cl.Attach(ctx, d); err != nil {
		return harnessFail("attach: %v", err), ev, sh
	}
	attached := d
	defer func() {
		if attached != nil {
			_ = cl.Detach(ctx, attached)
		}
	}()
	rename := func(k string) string { return k }
	if len(c.Steps) > 0 {
		if err := prog.InitDoc(d); err != nil {
			return harnessFail("init: %v", err), ev, sh
		}
		// keep the literal off the keys whose types the edit steps rely on
		rename = func(k string) string {
			switch k {
			case "o", "a", "t", "c", "tr", "tx", "lc", "dc", "ic":
				return "L" + k
			}
			return k
		}
	}
	if err := buildTyped(d, c.Lit, rename); err != nil {
		// the typed setters refusing a value is not this property's subject
		ev["aborted:build"] = 1
		if os.Getenv("C18_DEBUG") != "" {
			fmt.Printf("C18 abort build: %v\n", err)
		}
		return nil, ev, sh
	}
	if len(c.Steps) == 0 {
		// the export of the typed construction is the literal itself
		got, fail := exportYSON(d)
		if fail != nil {
			return fail, ev, sh
		}
		if diff := ysonDiff("$", lit, got); diff != "" {
			return kit.Failf("EXPORT-DIFF", "FromCRDT of a document built with the typed setters differs from the built value at %s", diff), ev, sh
		}
	}
	for _, st := range c.Steps {
		var err error
		if isExtOp(st.Op) {
			_, err = applyExt(d, st)
		} else {
			_, err = prog.ApplyEdit(d, prog.Step{Op: st.Op, A: st.A % 8, B: st.B % 8, C: st.C % 9})
		}
		if err != nil {
			// a failing edit is the subject of other properties
			ev["aborted:edit"] = 1
			if os.Getenv("C18_DEBUG") != "" {
				fmt.Printf("C18 abort edit: %v\n", err)
			}
			return nil, ev, sh
		}
	}
	if err := cl.Sync(ctx, client.WithKey(k)); err != nil {
		return harnessFail("sync 1: %v", err), ev, sh
	}
	want, fail := exportYSON(d)
	if fail != nil {
		return fail, ev, sh
	}
	sh = classify(want)
	di, err := documents.FindDocInfoByKey(ctx, s.BE, proj, k)
	if err != nil {
		return harnessFail("docinfo: %v", err), ev, sh
	}
	rev, err := revisions.Create(ctx, s.BE, di.RefKey(), "r", "")
	if err != nil {
		return kit.Failf("REVISION-CREATE-ERROR", "revisions.Create fails: %v", err), ev, sh
	}
	ev["revision_created"] = 1

	// the content moves on
	if err := setRoot(d, c.After.YSON().(yson.Object), true); err != nil {
		return kit.Failf("IMPORT-ERROR", "SetYSON of an accepted literal fails: %v", err), ev, sh
	}
	if err := cl.Sync(ctx, client.WithKey(k)); err != nil {
		return harnessFail("sync 2: %v", err), ev, sh
	}

	restoreExcluded := false
	if ex := sh.exclusionList(); (len(ex) > 0 || sh.sub["counter_dedup_nonempty"]) && !kit.NoExclusions() {
		restoreExcluded = true
		for _, e := range ex {
			ev["excluded:"+e] = 1
		}
		if sh.sub["counter_dedup_nonempty"] {
			ev["excluded:F31-dedup-wire"] = 1
		}
	} else {
		err, panicked := guarded(func() error { return revisions.Restore(ctx, s.BE, proj, rev.ID) })
		s.WaitIdle()
		if panicked {
			return kit.Failf("RESTORE-PANIC", "revisions.Restore panics: %v\nsnapshot: %s", err, clip(rev.Snapshot)), ev, sh
		}
		if err != nil {
			return kit.Failf("RESTORE-ERROR", "revisions.Restore fails: %v\nsnapshot: %s", err, clip(rev.Snapshot)), ev, sh
		}
		if err := cl.Sync(ctx, client.WithKey(k)); err != nil {
			return kit.Failf("RESTORE-SYNC-ERROR", "the client cannot synchronise after revisions.Restore (sync 3): %v", err), ev, sh
		}
		got, fail := exportYSON(d)
		if fail != nil {
			return fail, ev, sh
		}
		if diff := ysonDiff("$", want, got); diff != "" {
			return kit.Failf("RESTORE-DIFF", "content after revisions.Restore differs from the content at revisions.Create at %s\nsnapshot: %s",
				diff, clip(rev.Snapshot)), ev, sh
		}
		ev["restore_checked"] = 1
	}

	// compaction of the detached document, then a fresh attach
	before, fail := exportYSON(d)
	if fail != nil {
		return fail, ev, sh
	}
	if classify(before).sub["counter_dedup_nonempty"] && !kit.NoExclusions() {
		ev["excluded:F31-dedup-wire"] = 1
		return nil, ev, sh
	}
	if err := cl.Detach(ctx, d); err != nil {
		return harnessFail("detach: %v", err), ev, sh
	}
	attached = nil
	s.WaitIdle()
	di, err = documents.FindDocInfoByKey(ctx, s.BE, proj, k)
	if err != nil {
		return harnessFail("docinfo: %v", err), ev, sh
	}
	ok, err := documents.CompactDocument(ctx, s.BE, proj, di, false)
	s.WaitIdle()
	if err != nil {
		return kit.Failf("COMPACT-ERROR", "compaction of a detached document fails: %v", err), ev, sh
	}
	if !ok {
		return harnessFail("compaction refused although the only client detached"), ev, sh
	}
	d2 := document.New(k)
	if err := cl.Attach(ctx, d2); err != nil {
		return harnessFail("attach after compaction: %v", err), ev, sh
	}
	attached = d2
	after, fail := exportYSON(d2)
	if fail != nil {
		return fail, ev, sh
	}
	if diff := ysonDiff("$", before, after); diff != "" {
		return kit.Failf("COMPACT-DIFF", "content attached after compaction differs from the content before at %s", diff), ev, sh
	}
	ev["compact_checked"] = 1

	// the revision outlives the compaction: restoring it afterwards (the
	// document is in its next generation now) still yields its content
	if !restoreExcluded && !c.GrowFirst {
		if err := setRoot(d2, c.After.YSON().(yson.Object), true); err != nil {
			return kit.Failf("IMPORT-ERROR", "SetYSON of an accepted literal fails: %v", err), ev, sh
		}
		if err := d2.Update(func(r *json.Object, p *presence.Presence) error {
			r.SetString("afterCompaction", "x")
			return nil
		}); err != nil {
			return harnessFail("edit after compaction: %v", err), ev, sh
		}
		if err := cl.Sync(ctx, client.WithKey(k)); err != nil {
			return harnessFail("sync 4: %v", err), ev, sh
		}
		err, panicked := guarded(func() error { return revisions.Restore(ctx, s.BE, proj, rev.ID) })
		s.WaitIdle()
		if panicked {
			return kit.Failf("RESTORE-PANIC", "revisions.Restore after a compaction panics: %v\nsnapshot: %s", err, clip(rev.Snapshot)), ev, sh
		}
		if err != nil {
			return kit.Failf("RESTORE-ERROR", "revisions.Restore after a compaction fails: %v\nsnapshot: %s", err, clip(rev.Snapshot)), ev, sh
		}
		if err := cl.Sync(ctx, client.WithKey(k)); err != nil {
			return kit.Failf("RESTORE-SYNC-ERROR", "the client cannot synchronise after revisions.Restore (sync 5): %v", err), ev, sh
		}
		got, fail := exportYSON(d2)
		if fail != nil {
			return fail, ev, sh
		}
		if diff := ysonDiff("$", want, got); diff != "" {
			return kit.Failf("RESTORE-DIFF", "content after revisions.Restore of a compacted document differs from the content at revisions.Create at %s\nsnapshot: %s",
				diff, clip(rev.Snapshot)), ev, sh
		}
		ev["restore_after_compaction_checked"] = 1
	}
	if !restoreExcluded {
		// the new generation outgrows the old head; a revision created NOW is
		// built by the server from whatever its caches hold, and restoring it
		// must bring back the content present at its creation
		di2, err := documents.FindDocInfoByKey(ctx, s.BE, proj, k)
		if err != nil {
			return harnessFail("docinfo: %v", err), ev, sh
		}
		for i := int64(0); di2.ServerSeq+i <= di.ServerSeq+2; i++ {
			if err := d2.Update(func(r *json.Object, p *presence.Presence) error {
				r.SetInteger("grow", int(i))
				return nil
			}); err != nil {
				return harnessFail("grow edit: %v", err), ev, sh
			}
			if err := cl.Sync(ctx, client.WithKey(k)); err != nil {
				return harnessFail("sync 6: %v", err), ev, sh
			}
		}
		want2, fail := exportYSON(d2)
		if fail != nil {
			return fail, ev, sh
		}
		if sh2 := classify(want2); (len(sh2.exclusionList()) > 0 || sh2.sub["counter_dedup_nonempty"]) && !kit.NoExclusions() {
			for _, e := range sh2.exclusionList() {
				ev["excluded:"+e] = 1
			}
			return nil, ev, sh
		}
		di2, err = documents.FindDocInfoByKey(ctx, s.BE, proj, k)
		if err != nil {
			return harnessFail("docinfo: %v", err), ev, sh
		}
		rev2, err := revisions.Create(ctx, s.BE, di2.RefKey(), "r2", "")
		if err != nil {
			return kit.Failf("REVISION-CREATE-ERROR", "revisions.Create on the compacted and regrown document fails: %v", err), ev, sh
		}
		if err := d2.Update(func(r *json.Object, p *presence.Presence) error {
			r.SetString("afterRevision2", "y")
			r.Delete("grow")
			return nil
		}); err != nil {
			return harnessFail("edit after revision 2: %v", err), ev, sh
		}
		if err := cl.Sync(ctx, client.WithKey(k)); err != nil {
			return harnessFail("sync 7: %v", err), ev, sh
		}
		err, panicked := guarded(func() error { return revisions.Restore(ctx, s.BE, proj, rev2.ID) })
		s.WaitIdle()
		if panicked || err != nil {
			return kit.Failf("RESTORE-ERROR", "revisions.Restore of a revision created after compaction and regrowth fails: %v\nsnapshot: %s", err, clip(rev2.Snapshot)), ev, sh
		}
		if err := cl.Sync(ctx, client.WithKey(k)); err != nil {
			return kit.Failf("RESTORE-SYNC-ERROR", "the client cannot synchronise after revisions.Restore (sync 8): %v", err), ev, sh
		}
		got2, fail := exportYSON(d2)
		if fail != nil {
			return fail, ev, sh
		}
		if diff := ysonDiff("$", want2, got2); diff != "" {
			return kit.Failf("RESTORE-DIFF", "content after restoring a revision created after compaction and regrowth (old head %d, head at creation %d) differs from the content at its creation at %s\nsnapshot: %s",
				di.ServerSeq, di2.ServerSeq, diff, clip(rev2.Snapshot)), ev, sh
		}
		ev["revision_after_regrowth_checked"] = 1
	}
	return nil, ev, sh
}

func TestC18Server(t *testing.T) {
	col := stats.New(prop, "server")
	var best *SCase
	var bestFail *kit.Failure
	harnessErr := ""
	defer func() {
		if best != nil {
			path := kit.WriteReplay(prop, "server", fmt.Sprintf("server-%016x", hashJSON(*best)), *best, bestFail, nil)
			col.AddViolation(stats.Violation{Replay: path, Kind: bestFail.Kind, Msg: bestFail.Msg})
			kit.ReportViolation(prop, path, bestFail)
		}
		if harnessErr != "" {
			fmt.Printf("HARNESS-ERROR property=%s %s\n", prop, harnessErr)
		}
		col.Flush(true)
	}()
	lit, after := genLiteral(kit.Pick(4, 5)), genLiteral(2)
	editPool := append(append(append([]string{}, hExtOps...), hExtOps...), prog.Ops(prog.AllEditKinds...)...)
	rapid.Check(t, func(rt *rapid.T) {
		c := SCase{Lit: lit.Draw(rt, "literal")}
		c.Sharp = curCtx.sharp
		if rapid.Bool().Draw(rt, "edits") {
			c.Steps = rapid.SliceOfN(genHStep(editPool), 1, 10).Draw(rt, "steps")
		}
		c.After = after.Draw(rt, "after")
		c.GrowFirst = rapid.Bool().Draw(rt, "growfirst")
		fail, ev, sh := evalServer(c)
		sh.classes(ev)
		col.Record(hashJSON(c), fail == nil && sh.nonTrivial() && ev["restore_checked"] > 0, ev, func() any { return literalSample(c.Lit, sh) })
		if fail != nil {
			if fail.Kind == "HARNESS" {
				harnessErr = fail.Msg
				rt.Fatalf("harness error: %s", fail.Msg)
			}
			if best == nil || caseSize(c) < caseSize(*best) {
				cc := c
				best, bestFail = &cc, fail
			}
			rt.Fatalf("%s", fail.Error())
		}
	})
}

func replayServer(raw gojson.RawMessage) *kit.Failure {
	var c SCase
	if err := gojson.Unmarshal(raw, &c); err != nil {
		return kit.Failf("HARNESS", "HARNESS-ERROR decode server case: %v", err)
	}
	fail, _, _ := evalServer(c)
	return fail
}
