package c18

import (
	"bytes"
	gojson "encoding/json"
	"fmt"
	"hash/fnv"
	"math"
	"sort"
	"strconv"
	"strings"
	gotime "time"

	"github.com/yorkie-team/yorkie/pkg/document/crdt"
	"github.com/yorkie-team/yorkie/pkg/document/yson"
)

// Node is the plain, JSON-able form of one YSON value. A generated literal
// is a Node of kind "obj"; it is the case value stored in replay files.
type Node struct {
	K string `json:"k"` // null bool i32 i64 f64 str bytes date obj arr text tree cint clong cdedup
	B bool   `json:"b,omitempty"`
	// I: value of i32/i64/cint/clong; unix seconds of a date.
	I int64 `json:"i,omitempty"`
	// N: nanoseconds of a date.
	N int `json:"n,omitempty"`
	// Z: zone of a date: 0 UTC, 1 Local, otherwise a fixed zone of (Z-2000) minutes.
	Z int `json:"z,omitempty"`
	// F: IEEE-754 bits of an f64 in hex (NaN and Inf are not JSON numbers).
	F    string   `json:"f,omitempty"`
	S    string   `json:"s,omitempty"`
	Y    []byte   `json:"y,omitempty"`
	Keys []string `json:"keys,omitempty"` // obj: keys, parallel to Kids
	Kids []Node   `json:"kids,omitempty"` // obj / arr members
	Runs []Run    `json:"runs,omitempty"` // text
	Tree *TNode   `json:"tree,omitempty"` // tree root
	Act  []string `json:"act,omitempty"`  // cdedup: the actors that were added
}

// Run is one run of a text literal.
type Run struct {
	V string            `json:"v"`
	A map[string]string `json:"a,omitempty"`
}

// TNode is one node of a tree literal.
type TNode struct {
	T string            `json:"t"`
	V string            `json:"v,omitempty"`
	A map[string]string `json:"a,omitempty"`
	C []TNode           `json:"c,omitempty"`
}

func f64Node(f float64) Node { return Node{K: "f64", F: strconv.FormatUint(math.Float64bits(f), 16)} }

func (n Node) float() float64 {
	u, _ := strconv.ParseUint(n.F, 16, 64)
	return math.Float64frombits(u)
}

func (n Node) time() gotime.Time {
	t := gotime.Unix(n.I, int64(n.N))
	switch n.Z {
	case 0:
		return t.UTC()
	case 1:
		return t.In(gotime.Local)
	default:
		return t.In(gotime.FixedZone("", (n.Z-2000)*60))
	}
}

func copyAttrs(a map[string]string) map[string]string {
	if len(a) == 0 {
		return nil
	}
	m := make(map[string]string, len(a))
	for k, v := range a {
		m[k] = v
	}
	return m
}

func (t TNode) yson() yson.TreeNode {
	n := yson.TreeNode{Type: t.T, Value: t.V, Attributes: copyAttrs(t.A)}
	for _, c := range t.C {
		n.Children = append(n.Children, c.yson())
	}
	return n
}

// dedupState builds the registers and the value a dedup counter has after
// the given actors were added.
func dedupState(actors []string) (int32, []byte) {
	h := crdt.NewHLL()
	for _, a := range actors {
		h.Add(a)
	}
	return int32(h.Count()), append([]byte(nil), h.Bytes()...)
}

// YSON converts the node to the value the yson package works with.
func (n Node) YSON() interface{} {
	switch n.K {
	case "null":
		return nil
	case "bool":
		return n.B
	case "i32":
		return int32(n.I)
	case "i64":
		return n.I
	case "f64":
		return n.float()
	case "str":
		return n.S
	case "bytes":
		return append([]byte{}, n.Y...)
	case "date":
		return n.time()
	case "obj":
		o := yson.Object{}
		for i, k := range n.Keys {
			o[k] = n.Kids[i].YSON()
		}
		return o
	case "arr":
		var a yson.Array
		for _, c := range n.Kids {
			a = append(a, c.YSON())
		}
		return a
	case "text":
		var t yson.Text
		for _, r := range n.Runs {
			t.Nodes = append(t.Nodes, yson.TextNode{Value: r.V, Attributes: copyAttrs(r.A)})
		}
		return t
	case "tree":
		return yson.Tree{Root: n.Tree.yson()}
	case "cint":
		return yson.Counter{Type: crdt.IntegerCnt, Value: int32(n.I)}
	case "clong":
		return yson.Counter{Type: crdt.LongCnt, Value: n.I}
	case "cdedup":
		v, regs := dedupState(n.Act)
		return yson.Counter{Type: crdt.IntegerDedupCnt, Value: v, Registers: regs}
	}
	panic("harness: unknown node kind " + n.K)
}

func hashJSON(v any) uint64 {
	b, _ := gojson.Marshal(v)
	h := fnv.New64a()
	_, _ = h.Write(b)
	return h.Sum64()
}

// ---------------------------------------------------------------------------
// Deep comparison of YSON values: type-exact numbers, NaN equal to NaN, -0
// different from 0, dates by the millisecond instant the CRDT stores, byte
// slices / attribute maps / child lists by content (nil == empty).

func attrsDiff(path string, a, b map[string]string) string {
	if len(a) != len(b) {
		return fmt.Sprintf("%s: attributes %q vs %q", path, a, b)
	}
	for k, v := range a {
		if w, ok := b[k]; !ok || w != v {
			return fmt.Sprintf("%s: attribute %q: %q vs %q (present %v)", path, k, v, w, ok)
		}
	}
	return ""
}

func treeDiff(path string, a, b yson.TreeNode) string {
	if a.Type != b.Type {
		return fmt.Sprintf("%s: node type %q vs %q", path, a.Type, b.Type)
	}
	if a.Value != b.Value {
		return fmt.Sprintf("%s: node value %q vs %q", path, a.Value, b.Value)
	}
	if d := attrsDiff(path, a.Attributes, b.Attributes); d != "" {
		return d
	}
	if len(a.Children) != len(b.Children) {
		return fmt.Sprintf("%s: %d vs %d children", path, len(a.Children), len(b.Children))
	}
	for i := range a.Children {
		if d := treeDiff(fmt.Sprintf("%s/%d", path, i), a.Children[i], b.Children[i]); d != "" {
			return d
		}
	}
	return ""
}

func show(v interface{}) string {
	switch x := v.(type) {
	case float64:
		return fmt.Sprintf("float64 %s (bits %016x)", strconv.FormatFloat(x, 'g', -1, 64), math.Float64bits(x))
	case gotime.Time:
		return fmt.Sprintf("time.Time %s (unix ms %d)", x.Format(gotime.RFC3339Nano), x.UnixMilli())
	}
	s, err := marshalAny(v)
	if err != nil {
		s = fmt.Sprintf("%#v", v)
	}
	if len(s) > 160 {
		s = s[:160] + "…"
	}
	return fmt.Sprintf("%T %s", v, s)
}

// marshalAny renders any YSON value through the package's own marshaller.
func marshalAny(v interface{}) (string, error) {
	s, err := yson.Array{v}.Marshal()
	if err != nil {
		return "", err
	}
	return s[1 : len(s)-1], nil
}

// ysonDiff returns "" when a and b are the same YSON value, otherwise a
// description of the first difference.
func ysonDiff(path string, a, b interface{}) string {
	mismatch := func() string { return fmt.Sprintf("%s: %s vs %s", path, show(a), show(b)) }
	switch x := a.(type) {
	case nil:
		if b != nil {
			return mismatch()
		}
	case bool:
		if y, ok := b.(bool); !ok || x != y {
			return mismatch()
		}
	case int32:
		if y, ok := b.(int32); !ok || x != y {
			return mismatch()
		}
	case int64:
		if y, ok := b.(int64); !ok || x != y {
			return mismatch()
		}
	case float64:
		y, ok := b.(float64)
		if !ok {
			return mismatch()
		}
		if math.IsNaN(x) && math.IsNaN(y) {
			return ""
		}
		if math.Float64bits(x) != math.Float64bits(y) {
			return mismatch()
		}
	case string:
		if y, ok := b.(string); !ok || x != y {
			return mismatch()
		}
	case []byte:
		if y, ok := b.([]byte); !ok || !bytes.Equal(x, y) {
			return mismatch()
		}
	case gotime.Time:
		if y, ok := b.(gotime.Time); !ok || x.UnixMilli() != y.UnixMilli() {
			return mismatch()
		}
	case yson.Object:
		y, ok := b.(yson.Object)
		if !ok {
			return mismatch()
		}
		keys := make([]string, 0, len(x))
		for k := range x {
			keys = append(keys, k)
		}
		sort.Strings(keys)
		for _, k := range keys {
			w, ok := y[k]
			if !ok {
				return fmt.Sprintf("%s: key %q missing on the right", path, k)
			}
			if d := ysonDiff(path+"."+strconv.Quote(k), x[k], w); d != "" {
				return d
			}
		}
		if len(y) != len(x) {
			var extra []string
			for k := range y {
				if _, ok := x[k]; !ok {
					extra = append(extra, strconv.Quote(k))
				}
			}
			sort.Strings(extra)
			return fmt.Sprintf("%s: extra keys on the right: %s", path, strings.Join(extra, ","))
		}
	case yson.Array:
		y, ok := b.(yson.Array)
		if !ok {
			return mismatch()
		}
		if len(x) != len(y) {
			return fmt.Sprintf("%s: array length %d vs %d", path, len(x), len(y))
		}
		for i := range x {
			if d := ysonDiff(fmt.Sprintf("%s[%d]", path, i), x[i], y[i]); d != "" {
				return d
			}
		}
	case yson.Counter:
		y, ok := b.(yson.Counter)
		if !ok {
			return mismatch()
		}
		if x.Type != y.Type {
			return fmt.Sprintf("%s: counter type %d vs %d", path, x.Type, y.Type)
		}
		if d := ysonDiff(path+"(value)", x.Value, y.Value); d != "" {
			return d
		}
		if !bytes.Equal(x.Registers, y.Registers) {
			return fmt.Sprintf("%s: dedup registers differ (%d vs %d bytes, %d vs %d non-zero)", path,
				len(x.Registers), len(y.Registers), nonZero(x.Registers), nonZero(y.Registers))
		}
	case yson.Text:
		y, ok := b.(yson.Text)
		if !ok {
			return mismatch()
		}
		if len(x.Nodes) != len(y.Nodes) {
			return fmt.Sprintf("%s: %d vs %d text runs: %s vs %s", path, len(x.Nodes), len(y.Nodes), show(a), show(b))
		}
		for i := range x.Nodes {
			p := fmt.Sprintf("%s<run %d>", path, i)
			if x.Nodes[i].Value != y.Nodes[i].Value {
				return fmt.Sprintf("%s: %q vs %q", p, x.Nodes[i].Value, y.Nodes[i].Value)
			}
			if d := attrsDiff(p, x.Nodes[i].Attributes, y.Nodes[i].Attributes); d != "" {
				return d
			}
		}
	case yson.Tree:
		y, ok := b.(yson.Tree)
		if !ok {
			return mismatch()
		}
		return treeDiff(path+"<tree>", x.Root, y.Root)
	default:
		return fmt.Sprintf("%s: harness: unexpected type %T", path, a)
	}
	return ""
}

func nonZero(b []byte) int {
	n := 0
	for _, x := range b {
		if x != 0 {
			n++
		}
	}
	return n
}

// ---------------------------------------------------------------------------
// Classification of a value (coverage classes and the non-trivial rule).

type shape struct {
	kinds        map[string]bool // element kinds (counter variants count as one kind "counter")
	sub          map[string]bool // finer classes
	hostile      bool            // a string with a character outside [A-Za-z0-9 _-]
	contInArray  bool            // a container nested in an array
	depth        int
	excl         map[string]bool // triggers of listed findings (textual oracle only)
	attributedTx bool
	attributedTr bool
}

func newShape() *shape {
	return &shape{kinds: map[string]bool{}, sub: map[string]bool{}, excl: map[string]bool{}}
}

func isHostile(s string) bool {
	for _, r := range s {
		switch {
		case r >= 'a' && r <= 'z', r >= 'A' && r <= 'Z', r >= '0' && r <= '9', r == ' ', r == '_', r == '-':
		default:
			return true
		}
	}
	return false
}

// Triggers of the listed findings of yson.Unmarshal. They are functions of the
// exported value only (never of an output of Unmarshal).

// preprocessPatterns are the substrings yson.preprocessTypeValues replaces
// globally, wherever they occur in the marshalled text (F13).
var preprocessPatterns = []string{`)`, `Text(`, `Tree(`, `Counter(`, `Int(`, `Long(`, `BinData("`, `Date("`}

// f13Quoted: the marshalled token of a string (strconv.Quote form, including
// its quotes) contains a pattern that the global replacement rewrites.
func f13Quoted(tok string) bool {
	for _, p := range preprocessPatterns {
		if strings.Contains(tok, p) {
			return true
		}
	}
	return false
}

// f13Key: Object.Marshal writes keys without escaping, so a key with a quote,
// a backslash or a control character is not the JSON string it stands for;
// and the global replacement applies to keys as well (F13).
func f13Key(k string) bool {
	for _, r := range k {
		if r == '"' || r == '\\' || r < 0x20 {
			return true
		}
	}
	return f13Quoted(`"` + k + `"`)
}

// goQuoteNotJSON: the value marshaller uses strconv.Quote, whose \a \v \xNN
// \UNNNNNNNN escapes are not JSON; Unmarshal hands the text to encoding/json.
func goQuoteNotJSON(s string) bool {
	return !gojson.Valid([]byte(strconv.Quote(s)))
}

// longNotFloat: Unmarshal reads Long(n) through a float64.
func longNotFloat(v int64) bool {
	f := float64(v)
	if f >= 9.223372036854775807e18 || f < -9.223372036854775808e18 {
		return true
	}
	return int64(f) != v
}

// yearUnparseable: Marshal writes a date with time.RFC3339Nano in the zone the
// value happens to carry (its own on the replica that set it, the process zone
// on every replica that decoded it), and time.Parse only reads years
// 0000..9999. The predicate is zone independent: the instant shows a year
// outside that range in some zone (offsets reach at most +-14h).
func yearUnparseable(t gotime.Time) bool {
	u := t.UTC()
	return u.Add(-15*gotime.Hour).Year() < 0 || u.Add(15*gotime.Hour).Year() > 9999
}

func (sh *shape) str(s string) {
	if isHostile(s) {
		sh.hostile = true
	}
	if f13Quoted(strconv.Quote(s)) {
		sh.excl["F13"] = true
	}
	if goQuoteNotJSON(s) {
		sh.excl["F26-goquote"] = true
	}
}

func (sh *shape) attrs(a map[string]string) {
	for k, v := range a {
		sh.str(k)
		sh.str(v)
	}
}

func (sh *shape) tree(n yson.TreeNode, depth int) {
	sh.str(n.Type)
	sh.str(n.Value)
	sh.attrs(n.Attributes)
	if len(n.Attributes) > 0 {
		sh.attributedTr = true
	}
	if depth >= 3 {
		sh.sub["tree_depth>=3"] = true
	}
	for _, c := range n.Children {
		sh.tree(c, depth+1)
	}
}

func (sh *shape) walk(v interface{}, depth int, inArray, root bool) {
	if depth > sh.depth {
		sh.depth = depth
	}
	container := func(kind string) {
		sh.kinds[kind] = true
		if inArray {
			sh.contInArray = true
		}
	}
	switch x := v.(type) {
	case nil:
		sh.kinds["null"] = true
	case bool:
		sh.kinds["bool"] = true
	case int32:
		sh.kinds["int"] = true
		if x == math.MaxInt32 || x == math.MinInt32 {
			sh.sub["int32_bound"] = true
		}
	case int64:
		sh.kinds["long"] = true
		if x == math.MaxInt64 || x == math.MinInt64 {
			sh.sub["int64_bound"] = true
		}
		if longNotFloat(x) {
			sh.excl["F27-long53"] = true
		}
	case float64:
		sh.kinds["double"] = true
		switch {
		case math.IsNaN(x) || math.IsInf(x, 0):
			sh.sub["double_nan_inf"] = true
			sh.excl["F28-naninf"] = true
		case x == 0 && math.Signbit(x):
			sh.sub["double_negzero"] = true
		case x != 0 && (math.Abs(x) >= 1e21 || math.Abs(x) < 1e-6):
			sh.sub["double_extreme"] = true
		}
	case string:
		sh.kinds["string"] = true
		sh.str(x)
	case []byte:
		sh.kinds["bytes"] = true
		if len(x) == 0 {
			sh.sub["bytes_empty"] = true
		}
	case gotime.Time:
		sh.kinds["date"] = true
		if yearUnparseable(x) {
			sh.excl["F30-year"] = true
		}
		if x.Nanosecond()%1e6 != 0 {
			sh.sub["date_submilli"] = true
		}
	case yson.Object:
		container("object")
		if len(x) == 0 {
			sh.sub["empty_container"] = true
		}
		if t, ok := x["type"].(string); ok && !root {
			_ = t
			// a nested object with a string member "type" is read back as a
			// typed value (Int/Long/BinData/…) or rejected
			sh.excl["F29-typekey"] = true
		}
		for k, c := range x {
			if isHostile(k) {
				sh.hostile = true
				sh.sub["hostile_key"] = true
			}
			if f13Key(k) {
				sh.excl["F13"] = true
			}
			// 0x7f and valid UTF-8 are fine raw inside a JSON string.
			sh.walk(c, depth+1, false, false)
		}
	case yson.Array:
		container("array")
		if len(x) == 0 {
			sh.sub["empty_container"] = true
		}
		for _, c := range x {
			sh.walk(c, depth+1, true, false)
		}
	case yson.Counter:
		container("counter")
		switch x.Type {
		case crdt.IntegerCnt:
			sh.sub["counter_int"] = true
		case crdt.LongCnt:
			sh.sub["counter_long"] = true
			if l, ok := x.Value.(int64); ok && longNotFloat(l) {
				sh.excl["F27-long53"] = true
			}
		case crdt.IntegerDedupCnt:
			sh.sub["counter_dedup"] = true
			if nonZero(x.Registers) > 0 {
				sh.sub["counter_dedup_nonempty"] = true
			}
		}
	case yson.Text:
		container("text")
		if len(x.Nodes) == 0 {
			sh.sub["empty_container"] = true
		}
		for _, n := range x.Nodes {
			sh.str(n.Value)
			sh.attrs(n.Attributes)
			if len(n.Attributes) > 0 {
				sh.attributedTx = true
			}
		}
	case yson.Tree:
		container("tree")
		sh.tree(x.Root, 1)
	}
}

// classify computes the shape of a root object.
func classify(root yson.Object) *shape {
	sh := newShape()
	sh.walk(root, 0, false, true)
	return sh
}

func (sh *shape) nonTrivial() bool {
	return len(sh.kinds) >= 3 && (sh.hostile || sh.contInArray)
}

func (sh *shape) classes(into map[string]int) {
	for k := range sh.kinds {
		into["kind:"+k] = 1
	}
	for k := range sh.sub {
		into[k] = 1
	}
	if sh.hostile {
		into["hostile_string"] = 1
	}
	if sh.contInArray {
		into["container_in_array"] = 1
	}
	if sh.attributedTx {
		into["text_attributed_run"] = 1
	}
	if sh.attributedTr {
		into["tree_attributes"] = 1
	}
	if sh.depth >= 3 {
		into["depth>=3"] = 1
	}
	if len(sh.kinds) >= 3 {
		into["kinds>=3"] = 1
	}
}

func (sh *shape) exclusionList() []string {
	var l []string
	for k := range sh.excl {
		l = append(l, k)
	}
	sort.Strings(l)
	return l
}
