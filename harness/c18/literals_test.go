package c18

import (
	gojson "encoding/json"
	"fmt"
	"math"
	"strings"
	"testing"

	"pgregory.net/rapid"

	"github.com/yorkie-team/yorkie/pkg/document/yson"

	"verifharness/kit"
	"verifharness/stats"
)

// ---------------------------------------------------------------------------
// Generators (all draws come from rapid; the drawn Node is the case value).

var benignTokens = []string{"a", "b", "xyz", "0", "42", " ", "_", "-", "Z", "key"}

// hostile tokens that are legal everywhere and trigger no listed finding
var safeHostileTokens = []string{
	`"`, `\`, "\n", "\r", "\t", "(", "{", "}", "[", "]", ":", ",", "'", "`",
	"\ud55c", "\u00e9", "\U0001F600", "\U0001D11E", "\u2028", "\u00a0", "\ufeff", "\b", "\f", `\n`, `\u0041`, `\"`,
	"null", "true", "%s", "%", "$1", "&", "<", ">", "/", "Int", "Text", "Date", "BinData",
}

// hostile tokens that hit the text pre-processing or the quoting of Marshal
var sharpTokens = []string{
	")", "Int(", "Long(", "Text(", "Tree(", "Text()", "Tree()", "Counter(", `BinData("`, `Date("`,
	"BinData(", "Date(", `DedupCounter(Int(1),"AAAA")`, "Int(1)", `Date("2020-01-01T00:00:00Z")`,
	"\x00", "\x01", "\x1f", "\x7f", "\v", "\a", "\U000E0001",
}

// sharpAllowed is set per literal (drawn first): only a third of the literals
// may contain tokens that trigger a listed finding of Unmarshal, so that the
// textual oracle sees many hostile strings it does not have to skip.
type genCtx struct{ sharp bool }

var poolSafe = append(append([]string{}, benignTokens[:4]...), safeHostileTokens...)
var poolSharp = append(append(append([]string{}, benignTokens[:3]...), safeHostileTokens...), sharpTokens...)

func genString(t *rapid.T, label string) string {
	var pool []string
	switch rapid.IntRange(0, 5).Draw(t, label+"mode") {
	case 0, 1:
		pool = benignTokens
	case 2, 3:
		pool = poolSafe
	default:
		pool = poolSafe
		if curCtx.sharp {
			pool = poolSharp
		}
	}
	toks := rapid.SliceOfN(rapid.SampledFrom(pool), 0, 4).Draw(t, label)
	return strings.Join(toks, "")
}

var structuralKeys = []string{"type", "value", "val", "attrs", "children", "hll", "counterType", ""}

func genKey(t *rapid.T, label string) string {
	switch rapid.IntRange(0, 7).Draw(t, label+"kmode") {
	case 0, 1, 2:
		return rapid.SampledFrom([]string{"a", "b", "c", "k1", "k2", "x y"}).Draw(t, label)
	case 3:
		return rapid.SampledFrom(structuralKeys).Draw(t, label)
	default:
		if curCtx.sharp {
			return genString(t, label)
		}
		// Object.Marshal writes keys raw: without the sharp flag keys stay
		// within what is a JSON string as it stands
		return strings.Join(rapid.SliceOfN(rapid.SampledFrom(poolSafeKey), 0, 4).Draw(t, label), "")
	}
}

var poolSafeKey = func() []string {
	var l []string
	for _, s := range poolSafe {
		if !f13Key(s) {
			l = append(l, s)
		}
	}
	return l
}()

func genAttrs(t *rapid.T, label string) map[string]string {
	n := rapid.SampledFrom([]int{0, 0, 1, 1, 2, 3}).Draw(t, label+"n")
	if n == 0 {
		return nil
	}
	m := map[string]string{}
	for i := 0; i < n; i++ {
		var k string
		if rapid.IntRange(0, 2).Draw(t, label+"k?") == 0 {
			k = genString(t, label+"k")
		} else {
			k = rapid.SampledFrom([]string{"b", "i", "color", "href", "type"}).Draw(t, label+"k")
		}
		m[k] = genString(t, label+"v")
	}
	return m
}

var int32s = []int64{0, 1, -1, 7, math.MaxInt32, math.MinInt32, 65536, -32768}
var int64s = []int64{0, 1, -1, math.MaxInt32 + 1, math.MinInt32 - 1, 1 << 53, 1<<53 + 1, -(1 << 53), -(1<<53 + 1),
	1 << 60, math.MaxInt64, math.MaxInt64 - 1, math.MinInt64, math.MinInt64 + 1, 1234567890123}
var int64sExact = []int64{0, 1, -1, math.MaxInt32 + 1, math.MinInt32 - 1, 1 << 53, -(1 << 53), 1<<53 - 1, 1 << 60, math.MinInt64, 1234567890123}

// (the last three are NaN and the infinities)
var floats = []float64{0, math.Copysign(0, -1), 1, -1.5, 0.1, 1e21, 1e20, 1e300, -1e300, 5e-324, math.MaxFloat64,
	math.SmallestNonzeroFloat64, 2.2250738585072014e-308, 123456789, 1e-7, 3, 1 << 53, 0.30000000000000004,
	math.NaN(), math.Inf(1), math.Inf(-1)}

// seconds since the epoch of interesting instants
// (the first seven lie in the years 0001..9999)
var dateSecs = []int64{0, 1700000000, -1, 951782400, 253402128000, -62135596800, 1e9, 253402300799, 253402300800, -62167219200,
	-62167219201, -100000000000, 316000000000}

func genLeaf(t *rapid.T) Node {
	switch rapid.IntRange(0, 9).Draw(t, "leaf") {
	case 0:
		return Node{K: "null"}
	case 1:
		return Node{K: "bool", B: rapid.Bool().Draw(t, "b")}
	case 2:
		if rapid.Bool().Draw(t, "i32bound") {
			return Node{K: "i32", I: rapid.SampledFrom(int32s).Draw(t, "i32")}
		}
		return Node{K: "i32", I: int64(rapid.Int32().Draw(t, "i32"))}
	case 3:
		if !curCtx.sharp {
			// magnitudes a float64 holds exactly
			if rapid.Bool().Draw(t, "i64bound") {
				return Node{K: "i64", I: rapid.SampledFrom(int64sExact).Draw(t, "i64")}
			}
			return Node{K: "i64", I: rapid.Int64Range(-(1<<53), 1<<53).Draw(t, "i64")}
		}
		if rapid.Bool().Draw(t, "i64bound") {
			return Node{K: "i64", I: rapid.SampledFrom(int64s).Draw(t, "i64")}
		}
		return Node{K: "i64", I: rapid.Int64().Draw(t, "i64")}
	case 4:
		if rapid.IntRange(0, 2).Draw(t, "f64bound") > 0 {
			if !curCtx.sharp {
				return f64Node(rapid.SampledFrom(floats[:len(floats)-3]).Draw(t, "f64"))
			}
			return f64Node(rapid.SampledFrom(floats).Draw(t, "f64"))
		}
		return f64Node(rapid.Float64().Draw(t, "f64"))
	case 5, 6:
		return Node{K: "str", S: genString(t, "s")}
	case 7:
		return Node{K: "bytes", Y: rapid.SliceOfN(rapid.Byte(), 0, 6).Draw(t, "bytes")}
	default:
		n := Node{K: "date"}
		if rapid.IntRange(0, 2).Draw(t, "datebound") == 0 {
			if curCtx.sharp {
				n.I = rapid.SampledFrom(dateSecs).Draw(t, "sec")
			} else {
				n.I = rapid.SampledFrom(dateSecs[:7]).Draw(t, "sec")
			}
		} else {
			n.I = rapid.Int64Range(-2000000000, 5000000000).Draw(t, "sec")
		}
		switch rapid.IntRange(0, 3).Draw(t, "nsec") {
		case 0:
		case 1, 2:
			n.N = rapid.IntRange(0, 999).Draw(t, "ms") * 1000000
		default:
			n.N = rapid.IntRange(0, 999999999).Draw(t, "ns")
		}
		switch rapid.IntRange(0, 3).Draw(t, "zone") {
		case 0, 1:
		case 2:
			n.Z = 1
		default:
			n.Z = 2000 + rapid.SampledFrom([]int{540, -480, 330, 0, 845, -720}).Draw(t, "offset")
		}
		return n
	}
}

var actorPool = []string{"u1", "u2", "u3", "alice", "bob", "한", "a\"b", "x)", ""}

func genCounter(t *rapid.T) Node {
	switch rapid.IntRange(0, 3).Draw(t, "ckind") {
	case 0:
		return Node{K: "cint", I: rapid.SampledFrom(int32s).Draw(t, "cv")}
	case 1:
		if rapid.Bool().Draw(t, "clbound") {
			if !curCtx.sharp {
				return Node{K: "clong", I: rapid.SampledFrom(int64sExact).Draw(t, "cv")}
			}
			return Node{K: "clong", I: rapid.SampledFrom(int64s).Draw(t, "cv")}
		}
		return Node{K: "clong", I: rapid.Int64Range(-1<<40, 1<<40).Draw(t, "cv")}
	default:
		var act []string
		for _, a := range rapid.SliceOfN(rapid.SampledFrom(actorPool[:8]), 0, 5).Draw(t, "actors") {
			act = append(act, a)
		}
		return Node{K: "cdedup", Act: act}
	}
}

func genText(t *rapid.T) Node {
	n := Node{K: "text"}
	k := rapid.IntRange(0, 3).Draw(t, "runs")
	for i := 0; i < k; i++ {
		v := genString(t, "run")
		if v == "" {
			v = "r" // an empty run inserts nothing; not a document a user can reach
		}
		n.Runs = append(n.Runs, Run{V: v, A: genAttrs(t, "ra")})
	}
	return n
}

// (the first ten trigger no listed finding)
var elemTypes = []string{"p", "b", "li", "note", "doc", "type", "한", `q"t`, "t\\x", "Text", "x)y", "Int(", "a\x01"}

func genElemType(t *rapid.T, label string) string {
	if curCtx.sharp {
		return rapid.SampledFrom(elemTypes).Draw(t, label)
	}
	return rapid.SampledFrom(elemTypes[:10]).Draw(t, label)
}

func genTNode(t *rapid.T, depth int) TNode {
	if depth >= 3 || rapid.IntRange(0, 2).Draw(t, "tleaf") == 0 {
		if rapid.Bool().Draw(t, "ttext") {
			v := genString(t, "tv")
			if v == "" {
				v = "t" // validateTextNode: text nodes are never empty
			}
			return TNode{T: "text", V: v}
		}
	}
	n := TNode{T: genElemType(t, "ttype"), A: genAttrs(t, "ta")}
	if depth < 3 {
		k := rapid.IntRange(0, 3).Draw(t, "tkids")
		for i := 0; i < k; i++ {
			n.C = append(n.C, genTNode(t, depth+1))
		}
	}
	return n
}

func genTree(t *rapid.T) Node {
	// SetNewTree never stores attributes on the root element (buildRoot), so a
	// root with attributes is not a document state; the root has none.
	root := TNode{T: rapid.SampledFrom(elemTypes[:5]).Draw(t, "root")}
	k := rapid.IntRange(0, 3).Draw(t, "rkids")
	for i := 0; i < k; i++ {
		root.C = append(root.C, genTNode(t, 1))
	}
	return Node{K: "tree", Tree: &root}
}

func genObject(t *rapid.T, depth, minKeys int) Node {
	n := Node{K: "obj"}
	k := rapid.IntRange(minKeys, 4).Draw(t, "members")
	seen := map[string]bool{}
	for i := 0; i < k; i++ {
		key := genKey(t, "key")
		if seen[key] {
			continue
		}
		seen[key] = true
		n.Keys = append(n.Keys, key)
		n.Kids = append(n.Kids, genValue(t, depth+1))
	}
	if curCtx.sharp && !seen["type"] && rapid.IntRange(0, 5).Draw(t, "typemember") == 0 {
		// {"type": "<string>"} — the shape of most application objects
		n.Keys = append(n.Keys, "type")
		n.Kids = append(n.Kids, Node{K: "str", S: rapid.SampledFrom([]string{"rect", "Int", "Text", "paragraph"}).Draw(t, "typeval")})
	}
	return n
}

func genValue(t *rapid.T, depth int) Node {
	c := rapid.IntRange(0, 11).Draw(t, "kind")
	if depth >= 4 && c >= 6 && c <= 8 {
		c = 0
	}
	switch c {
	case 0, 1, 2, 3, 4, 5:
		return genLeaf(t)
	case 6, 7:
		return genObject(t, depth, 0)
	case 8:
		n := Node{K: "arr"}
		k := rapid.IntRange(0, 4).Draw(t, "elems")
		for i := 0; i < k; i++ {
			n.Kids = append(n.Kids, genValue(t, depth+1))
		}
		return n
	case 9:
		return genText(t)
	case 10:
		return genTree(t)
	default:
		return genCounter(t)
	}
}

// curCtx is the context of the literal being drawn (tests of this package do
// not run in parallel; the flag itself is a rapid draw, so replay and
// shrinking stay deterministic).
var curCtx genCtx

func genLiteral(maxTop int) *rapid.Generator[Node] {
	return rapid.Custom(func(t *rapid.T) Node {
		curCtx = genCtx{sharp: rapid.IntRange(0, 2).Draw(t, "sharp") == 0}
		n := Node{K: "obj"}
		k := rapid.IntRange(1, maxTop).Draw(t, "top")
		seen := map[string]bool{}
		for i := 0; i < k; i++ {
			key := genKey(t, "key")
			if seen[key] {
				continue
			}
			seen[key] = true
			n.Keys = append(n.Keys, key)
			n.Kids = append(n.Kids, genValue(t, 1))
		}
		return n
	})
}

// ---------------------------------------------------------------------------
// Evaluation of one literal.

// evalLiteral: y is imported into an empty document; FromCRDT of it must be y
// again; the resulting document must then pass checkDoc.
func evalLiteral(n Node) (fail *kit.Failure, ev map[string]int, sh *shape) {
	ev = map[string]int{}
	y := n.YSON().(yson.Object)
	sh = classify(y)
	d, fail := importYSON(y)
	if fail != nil {
		return fail, ev, sh
	}
	got, fail := exportYSON(d)
	if fail != nil {
		return fail, ev, sh
	}
	if diff := ysonDiff("$", y, got); diff != "" {
		m, _ := y.Marshal()
		return kit.Failf("LITERAL-DIFF", "FromCRDT(SetYSON(y)) differs from y at %s\ny: %s", diff, clip(m)), ev, sh
	}
	_, _, fail = checkDoc(d, ev)
	return fail, ev, sh
}

func literalSample(n Node, sh *shape) any {
	m, _ := n.YSON().(yson.Object).Marshal()
	return map[string]any{"yson": clip(m), "kinds": len(sh.kinds), "excluded_from_textual": sh.exclusionList()}
}

func caseSize(v any) int {
	b, _ := gojson.Marshal(v)
	return len(b)
}

func TestC18Literals(t *testing.T) {
	col := stats.New(prop, "literals")
	var best *Node
	var bestFail *kit.Failure
	defer func() {
		if best != nil {
			path := kit.WriteReplay(prop, "literal", fmt.Sprintf("literal-%016x", hashJSON(*best)), *best, bestFail, nil)
			col.AddViolation(stats.Violation{Replay: path, Kind: bestFail.Kind, Msg: bestFail.Msg})
			kit.ReportViolation(prop, path, bestFail)
		}
		col.Flush(true)
	}()
	gen := genLiteral(kit.Pick(5, 6))
	rapid.Check(t, func(rt *rapid.T) {
		n := gen.Draw(rt, "literal")
		fail, ev, sh := evalLiteral(n)
		sh.classes(ev)
		col.Record(hashJSON(n), fail == nil && sh.nonTrivial(), ev, func() any { return literalSample(n, sh) })
		if fail != nil {
			if best == nil || caseSize(n) < caseSize(*best) {
				c := n
				best, bestFail = &c, fail
			}
			rt.Fatalf("%s", fail.Error())
		}
	})
}

func replayLiteral(raw gojson.RawMessage) *kit.Failure {
	var n Node
	if err := gojson.Unmarshal(raw, &n); err != nil {
		return kit.Failf("HARNESS", "HARNESS-ERROR decode literal: %v", err)
	}
	fail, _, _ := evalLiteral(n)
	return fail
}
