package c18

import (
	"fmt"
	"math"
	"os"
	"path/filepath"
	"testing"

	"verifharness/kit"
)

// knownCases are the minimal cases of the findings this check excludes from
// the oracle named in the comment (see SPEC.py.txt). With VERIF_NO_EXCLUSIONS
// each of them fails; with the exclusions in place each passes.
var knownCases = []struct {
	ID   string
	Kind string
	Case any
}{
	// textual oracle (2)
	{"F13-paren-in-string", "literal", Node{K: "obj", Keys: []string{"s"}, Kids: []Node{{K: "str", S: "a)b"}}}},
	{"F13-quote-in-key", "literal", Node{K: "obj", Keys: []string{`"`}, Kids: []Node{{K: "null"}}}},
	{"F26-goquote", "literal", Node{K: "obj", Keys: []string{"s"}, Kids: []Node{{K: "str", S: "\x01"}}}},
	{"F27-long53", "literal", Node{K: "obj", Keys: []string{"l"}, Kids: []Node{{K: "i64", I: 1<<53 + 1}}}},
	{"F28-naninf", "literal", Node{K: "obj", Keys: []string{"d"}, Kids: []Node{f64Node(math.NaN())}}},
	{"F29-typekey", "literal", Node{K: "obj", Keys: []string{"o"}, Kids: []Node{{K: "obj", Keys: []string{"type"}, Kids: []Node{{K: "str", S: "rect"}}}}}},
	{"F30-year", "literal", Node{K: "obj", Keys: []string{"t"}, Kids: []Node{{K: "date", I: 253402300800}}}},
	// stored-change oracle (1b) and the server part
	{"F31-dedup-wire", "literal", Node{K: "obj", Keys: []string{"c"}, Kids: []Node{{K: "cdedup", Act: []string{"u1"}}}}},
	// (the dedup counter is created and filled by user operations only)
	{"F31-dedup-wire-restore", "server", SCase{
		Lit:   Node{K: "obj", Keys: []string{"k"}, Kids: []Node{{K: "null"}}},
		Sharp: true,
		Steps: []HStep{{Op: "xcnt", A: 1}, {Op: "xcinc", A: 1, C: 0}},
		After: Node{K: "obj", Keys: []string{"x"}, Kids: []Node{{K: "null"}}},
	}},
}

// TestWriteKnown writes the replay files of the known cases into
// $C18_WRITE_KNOWN (skipped otherwise).
func TestWriteKnown(t *testing.T) {
	dir := os.Getenv("C18_WRITE_KNOWN")
	if dir == "" {
		t.Skip("C18_WRITE_KNOWN not set")
	}
	t.Setenv("VERIF_REPLAY_DIR", dir)
	for _, kc := range knownCases {
		eval := func() *kit.Failure {
			switch c := kc.Case.(type) {
			case Node:
				f, _, _ := evalLiteral(c)
				return f
			case SCase:
				f, _, _ := evalServer(c)
				return f
			}
			return nil
		}
		t.Setenv("VERIF_NO_EXCLUSIONS", "")
		if f := eval(); f != nil {
			t.Errorf("%s: fails although its trigger is excluded: %v", kc.ID, f)
			continue
		}
		t.Setenv("VERIF_NO_EXCLUSIONS", "1")
		f := eval()
		if f == nil {
			t.Errorf("%s: does not reproduce", kc.ID)
			continue
		}
		path := kit.WriteReplay(prop, kc.Kind, kc.ID, kc.Case, f, nil)
		want := filepath.Join(dir, prop, kc.ID+".json")
		if path != want {
			t.Errorf("unexpected replay path %s", path)
		}
		fmt.Printf("%s: %s\n", kc.ID, f.Error())
	}
}
