package c18

import (
	gojson "encoding/json"
	"testing"

	"verifharness/kit"
)

// TestReplay re-executes a saved case without rapid.
func TestReplay(t *testing.T) {
	kit.Replay(t, map[string]kit.Replayer{
		"literal": func(raw gojson.RawMessage) *kit.Failure { return replayLiteral(raw) },
		"history": func(raw gojson.RawMessage) *kit.Failure { return replayHistory(raw) },
		"server":  func(raw gojson.RawMessage) *kit.Failure { return replayServer(raw) },
	})
}
