package c18

import (
	gojson "encoding/json"
	"fmt"
	"math"
	"os"
	"testing"
	gotime "time"

	"google.golang.org/protobuf/proto"
	"pgregory.net/rapid"

	"github.com/yorkie-team/yorkie/api/converter"
	api "github.com/yorkie-team/yorkie/api/yorkie/v1"
	"github.com/yorkie-team/yorkie/pkg/document"
	"github.com/yorkie-team/yorkie/pkg/document/change"
	"github.com/yorkie-team/yorkie/pkg/document/crdt"
	"github.com/yorkie-team/yorkie/pkg/document/json"
	"github.com/yorkie-team/yorkie/pkg/document/presence"
	"github.com/yorkie-team/yorkie/pkg/document/time"

	"verifharness/kit"
	"verifharness/prog"
	"verifharness/stats"
)

// HStep is one step of a two-replica history. Edit steps run on replica W%2;
// their integer parameters are resolved modulo the replica's visible state.
type HStep struct {
	W  int    `json:"w"`
	Op string `json:"op"`
	A  int    `json:"a,omitempty"`
	B  int    `json:"b,omitempty"`
	C  int    `json:"c,omitempty"`
	Y  *Node  `json:"y,omitempty"` // xyson: the literal to store
}

// HCase is a complete history (the case value / replay file content).
type HCase struct {
	// Sharp: the steps may use table values that trigger a listed finding of
	// yson.Unmarshal (and the drawn literals were generated with that licence).
	Sharp bool    `json:"sharp,omitempty"`
	Steps []HStep `json:"steps"`
}

// ---------------------------------------------------------------------------
// Value tables of the extended alphabet.

// Every table has a "safe" prefix of values that trigger no listed finding of
// yson.Unmarshal and a "sharp" rest. A history draws once whether it may use
// the sharp values (HCase.Sharp): otherwise one ")" would switch the textual
// oracle off for all later states of the history.

var allStrs = []string{"plain", `q"uote`, `back\slash`, "new\nline", "\ud55c\uae00", "\U0001F600", `{"type":"x"}`, `Date("`, "",
	"tab\there", "\u2028sep", `\u0041`, "(open", "[1,{2}]:", // safe: 14
	"par)en", "Int(7", "Text(", "a\x00b", "ver\vtab", "Long(1)"}

var allKeys = []string{"k", "\ud55c", "\U0001F600k", "", "value", "sp ace", "m", "n", "a(b", "x:y,z", // safe: 10
	"type", `q"k`, `b\k`, "n\nk", "p)k", "Long("}

var allAttrs = []map[string]string{nil, {"b": "1"}, {"color": "red", "b": "2"}, {`q"`: `v"`}, {"\ud55c": "\U0001F600"},
	{"nl": "a\nb", "bs": `c\d`}, {"type": "x", "value": ""}, // safe: 7
	{"p)": "Int("}, {"z": "\x01"}}

var allTypes = []string{"p", "b", "li", "\ud55c", `q"t`, "type", // safe: 6
	"x)y", "Int("}

var allLongs = []interface{}{int64(5), int64(math.MinInt64), int64(1 << 53), int64(math.MaxInt32 + 1), // safe: 4
	int64(1<<53 + 1), int64(math.MaxInt64)}

var allDoubles = []interface{}{0.5, math.Copysign(0, -1), 1e300, 5e-324, 3.0, 1e21, // safe: 6
	math.NaN(), math.Inf(-1)}

var allDates = []interface{}{gotime.UnixMilli(1700000000123).UTC(), gotime.Unix(951782400, 123456789),
	gotime.UnixMilli(-1).In(gotime.FixedZone("", 9*3600)), gotime.UnixMilli(0), // safe: 4
	gotime.Unix(316000000000, 0).UTC()}

var allBig = []interface{}{1, -3, math.MaxInt32, int64(1 << 40), 2.5, // safe: 5
	int64(1<<53 + 1), int64(math.MaxInt64), int64(math.MinInt64)}

var allLongInit = []int64{0, 1 << 40, 1 << 53, -(1 << 40), // safe: 4
	math.MaxInt64 - 2, -(1<<53 + 1)}

// the current tables (set by useTables; tests of this package run sequentially)
var (
	hStrs     []string
	hKeys     []string
	hAttrs    []map[string]string
	hTypes    []string
	hPrims    [][]interface{}
	hBig      []interface{}
	hLongInit []int64
	hTypeKey  string
)

func useTables(sharp bool) {
	cut := func(n, safe int) int {
		if sharp {
			return n
		}
		return safe
	}
	hStrs = allStrs[:cut(len(allStrs), 14)]
	hKeys = allKeys[:cut(len(allKeys), 10)]
	hAttrs = allAttrs[:cut(len(allAttrs), 7)]
	hTypes = allTypes[:cut(len(allTypes), 6)]
	hBig = allBig[:cut(len(allBig), 5)]
	hLongInit = allLongInit[:cut(len(allLongInit), 4)]
	hTypeKey = "kind"
	if sharp {
		hTypeKey = "type" // {"type": "<string>"} nested: F29
	}
	hPrims = [][]interface{}{
		{nil},
		{true, false},
		{int32(0), int32(math.MaxInt32), int32(math.MinInt32), int32(-7)},
		allLongs[:cut(len(allLongs), 4)],
		allDoubles[:cut(len(allDoubles), 6)],
		{[]byte{}, []byte{0, 255, 1, 34, 41}, []byte("Int(")},
		allDates[:cut(len(allDates), 4)],
		nil, // strings
		nil, // strings
	}
}

func init() { useTables(true) }

var hActors = []string{"u1", "u2", "u3", "alice", "bob", "한", `a"b`, "x)"}

// primAt picks the primitive type by c and the value of that type by sel.
func primAt(c, sel int) interface{} {
	g := hPrims[c%len(hPrims)]
	if g == nil {
		return hStrs[sel%len(hStrs)]
	}
	return g[sel%len(g)]
}

func setPrim(o *json.Object, k string, v interface{}) {
	switch x := v.(type) {
	case nil:
		o.SetNull(k)
	case bool:
		o.SetBool(k, x)
	case int32:
		o.SetInteger(k, int(x))
	case int64:
		o.SetLong(k, x)
	case float64:
		o.SetDouble(k, x)
	case string:
		o.SetString(k, x)
	case []byte:
		o.SetBytes(k, x)
	case gotime.Time:
		o.SetDate(k, x)
	}
}

func addPrim(a *json.Array, v interface{}) {
	switch x := v.(type) {
	case nil:
		a.AddNull()
	case bool:
		a.AddBool(x)
	case int32:
		a.AddInteger(int(x))
	case int64:
		a.AddLong(x)
	case float64:
		a.AddDouble(x)
	case string:
		a.AddString(x)
	case []byte:
		a.AddBytes(x)
	case gotime.Time:
		a.AddDate(x)
	}
}

// typed lookups that never hit the "unsupported type" misuse panic
func objOf(o *json.Object, k string) *json.Object {
	if _, ok := o.Object.Get(k).(*crdt.Object); ok {
		return o.GetObject(k)
	}
	return nil
}

func arrOf(o *json.Object, k string) *json.Array {
	if _, ok := o.Object.Get(k).(*crdt.Array); ok {
		return o.GetArray(k)
	}
	return nil
}

func textOf(o *json.Object, k string) *json.Text {
	if _, ok := o.Object.Get(k).(*crdt.Text); ok {
		return o.GetText(k)
	}
	return nil
}

func treeOf(o *json.Object, k string) *json.Tree {
	if _, ok := o.Object.Get(k).(*crdt.Tree); ok {
		return o.GetTree(k)
	}
	return nil
}

func counterOf(o *json.Object, k string) *json.Counter {
	if _, ok := o.Object.Get(k).(*crdt.Counter); ok {
		return o.GetCounter(k)
	}
	return nil
}

func editText(tx *json.Text, s HStep) string {
	n := prog.UTF16Len(tx.String())
	from := s.A % (n + 1)
	to := min(n, from+s.B%3)
	attrs := hAttrs[(s.A+s.B)%len(hAttrs)]
	if s.B%5 == 4 && to > from && attrs != nil {
		tx.Style(from, to, attrs)
		return fmt.Sprintf("style %d..%d %q", from, to, attrs)
	}
	c := hStrs[s.C%len(hStrs)]
	if c == "" && from == to {
		c = "q"
	}
	if attrs != nil {
		tx.Edit(from, to, c, attrs)
	} else {
		tx.Edit(from, to, c)
	}
	return fmt.Sprintf("edit %d..%d %q %q", from, to, c, attrs)
}

func treeContent(s HStep) *json.TreeNode {
	node := &json.TreeNode{Type: hTypes[s.B%len(hTypes)], Attributes: copyAttrs(hAttrs[s.C%len(hAttrs)])}
	txt := hStrs[(s.A+s.C)%len(hStrs)]
	if txt == "" {
		txt = "t"
	}
	switch s.A % 4 {
	case 1:
		node.Children = []json.TreeNode{{Type: "text", Value: txt}}
	case 2:
		node.Children = []json.TreeNode{{Type: hTypes[(s.B+1)%len(hTypes)], Attributes: copyAttrs(hAttrs[(s.C+1)%len(hAttrs)]),
			Children: []json.TreeNode{{Type: "text", Value: txt}}}}
	case 3:
		node.Children = []json.TreeNode{{Type: "text", Value: txt}, {Type: "b", Attributes: copyAttrs(hAttrs[(s.C+2)%len(hAttrs)])},
			{Type: "text", Value: "z"}}
	}
	return node
}

func editTree(tr *json.Tree, s HStep) string {
	n := len(tr.Root().Children())
	if s.B%4 == 3 && n > 0 {
		i := s.A % n
		j := min(n, i+1+s.C%2)
		attrs := hAttrs[1+s.C%(len(hAttrs)-1)]
		if s.C%3 == 0 {
			var keys []string
			for _, k := range []string{"b", "color", `q"`, "p)", "\ud55c", "nl", "z", "type"} {
				if _, ok := attrs[k]; ok {
					keys = append(keys, k)
				}
			}
			tr.RemoveStyleByPath([]int{i}, []int{j}, keys)
			return fmt.Sprintf("rmstyle %d..%d %q", i, j, keys)
		}
		tr.StyleByPath([]int{i}, []int{j}, attrs)
		return fmt.Sprintf("style %d..%d %q", i, j, attrs)
	}
	i := s.A % (n + 1)
	node := treeContent(s)
	tr.EditByPath([]int{i}, []int{i}, node, 0)
	return fmt.Sprintf("insert at %d <%s %q> with %d children", i, node.Type, node.Attributes, len(node.Children))
}

func bumpCounter(c *json.Counter, s HStep) string {
	if c.IsDedup() {
		a := hActors[s.C%len(hActors)]
		c.Add(a)
		return fmt.Sprintf("add actor %q", a)
	}
	v := hBig[s.C%len(hBig)]
	c.Increase(v)
	return fmt.Sprintf("increase %v", v)
}

// applyExt executes one step of the extended alphabet inside Update.
func applyExt(d *document.Document, s HStep) (desc string, err error) {
	desc = s.Op
	e, _ := guarded(func() error {
		return d.Update(func(r *json.Object, p *presence.Presence) error {
			switch s.Op {
			case "xprim":
				v := primAt(s.C, s.A/4+s.B)
				switch s.A % 4 {
				case 0:
					k := fmt.Sprintf("p%d", s.B%4)
					setPrim(r, k, v)
					desc = fmt.Sprintf("root.%s = %s", k, show(v))
				case 1:
					k := hKeys[s.B%len(hKeys)]
					setPrim(r, "h"+k, v)
					desc = fmt.Sprintf("root[%q] = %s", "h"+k, show(v))
				case 2:
					o := objOf(r, "o")
					if o == nil {
						o = r.SetNewObject("o")
					}
					k := hKeys[s.B%len(hKeys)]
					setPrim(o, k, v)
					desc = fmt.Sprintf("o[%q] = %s", k, show(v))
				default:
					a := arrOf(r, "a")
					if a == nil {
						a = r.SetNewArray("a")
					}
					addPrim(a, v)
					desc = fmt.Sprintf("a.add %s", show(v))
				}
			case "xcnt":
				switch s.A % 3 {
				case 0:
					v := hLongInit[s.B%len(hLongInit)]
					r.SetNewCounter("lc", v)
					desc = fmt.Sprintf("root.lc = LongCounter(%d)", v)
				case 1:
					r.SetNewDedupCounter("dc")
					desc = "root.dc = DedupCounter"
				default:
					r.SetNewCounter("ic", s.B-4)
					desc = fmt.Sprintf("root.ic = IntCounter(%d)", s.B-4)
				}
			case "xcinc":
				k := []string{"lc", "dc", "ic", "dc"}[s.A%4]
				c := counterOf(r, k)
				if c == nil {
					if k == "dc" {
						c = r.SetNewDedupCounter(k)
					} else if k == "lc" {
						c = r.SetNewCounter(k, int64(7))
					} else {
						c = r.SetNewCounter(k, 7)
					}
				}
				desc = k + ": " + bumpCounter(c, s)
			case "xarrc":
				a := arrOf(r, "a")
				if a == nil {
					a = r.SetNewArray("a")
				}
				switch s.A % 7 {
				case 0:
					o := a.AddNewObject()
					setPrim(o, hKeys[s.B%len(hKeys)], primAt(s.C, s.B))
					desc = "a.add {…}"
				case 1:
					in := a.AddNewArray()
					addPrim(in, primAt(s.C, s.B))
					if s.B%2 == 1 {
						in.AddNewArray().AddNewObject().SetNewText("t").Edit(0, 0, hStrs[s.C%len(hStrs)], hAttrs[s.B%len(hAttrs)])
					}
					desc = "a.add […]"
				case 2:
					tx := a.AddNewText()
					desc = "a.add Text: " + editText(tx, s)
				case 3:
					node := treeContent(s)
					a.AddNewTree(json.TreeNode{Type: "doc", Children: []json.TreeNode{*node}})
					desc = "a.add Tree"
				case 4:
					a.AddNewCounter(crdt.LongCnt, int64(s.B)<<50)
					desc = "a.add LongCounter"
				case 5:
					c := a.AddNewCounter(crdt.IntegerDedupCnt, 0)
					c.Add(hActors[s.C%len(hActors)])
					desc = "a.add DedupCounter"
				default:
					a.AddNewCounter(crdt.IntegerCnt, s.B)
					desc = "a.add IntCounter"
				}
			case "xnest":
				a := arrOf(r, "a")
				if a == nil || a.Len() == 0 {
					r.SetNewArray("a").AddNewObject()
					desc = "a = [{}]"
					return nil
				}
				i := s.A % a.Len()
				switch a.Get(i).(type) {
				case *crdt.Object:
					o := a.GetObject(i)
					k := hKeys[s.B%len(hKeys)]
					switch s.C % 5 {
					case 0:
						o.SetNewArray(k).AddNewObject().SetString(hTypeKey, "x")
					case 1:
						o.SetNewText(k).Edit(0, 0, hStrs[s.B%len(hStrs)], hAttrs[s.C%len(hAttrs)])
					case 2:
						o.Delete(k)
					default:
						setPrim(o, k, primAt(s.C, s.A))
					}
					desc = fmt.Sprintf("a[%d] (object) key %q variant %d", i, k, s.C%5)
				case *crdt.Array:
					in := a.GetArray(i)
					switch s.C % 5 {
					case 0:
						in.AddNewObject().SetNewArray("deep").AddLong(math.MinInt64)
					case 1:
						in.AddNewArray()
					case 2:
						in.Delete(0)
					default:
						addPrim(in, primAt(s.C, s.A))
					}
					desc = fmt.Sprintf("a[%d] (array) variant %d", i, s.C%5)
				case *crdt.Text:
					desc = fmt.Sprintf("a[%d] (text) %s", i, editText(a.GetText(i), s))
				case *crdt.Tree:
					desc = fmt.Sprintf("a[%d] (tree) %s", i, editTree(a.GetTree(i), s))
				case *crdt.Counter:
					desc = fmt.Sprintf("a[%d] (counter) %s", i, bumpCounter(a.GetCounter(i), s))
				default:
					v := hStrs[s.C%len(hStrs)]
					a.SetString(i, v)
					desc = fmt.Sprintf("a.set %d %q", i, v)
				}
			case "xtext":
				tx := textOf(r, "t")
				if tx == nil {
					tx = r.SetNewText("t")
				}
				desc = "t: " + editText(tx, s)
			case "xtree":
				// a tree of its own: the paths of prog's tr* steps assume that
				// the children of "tr" hold text only
				tr := treeOf(r, "tx")
				if tr == nil {
					tr = r.SetNewTree("tx", json.TreeNode{Type: "doc"})
				}
				desc = "tx: " + editTree(tr, s)
			case "xyson":
				if s.Y == nil {
					return fmt.Errorf("harness: xyson without literal")
				}
				v := s.Y.YSON()
				if s.A%3 == 2 {
					a := arrOf(r, "a")
					if a == nil {
						a = r.SetNewArray("a")
					}
					a.AddYSON(v)
					desc = "a.addYSON " + show(v)
				} else {
					k := fmt.Sprintf("y%d", s.A%3)
					r.SetYSONElement(k, v)
					desc = fmt.Sprintf("root.%s = YSON %s", k, show(v))
				}
			default:
				return fmt.Errorf("harness: unknown op %q", s.Op)
			}
			return nil
		})
	})
	return desc, e
}

// ---------------------------------------------------------------------------
// Two replicas that exchange change packs in memory, through the wire format.

type pair struct {
	d    [2]*document.Document
	hist []string
	ev   map[string]int
}

func newPair() (*pair, error) {
	p := &pair{ev: map[string]int{}}
	for i := range p.d {
		a, err := time.ActorIDFromHex(fmt.Sprintf("%024x", i+1))
		if err != nil {
			return nil, err
		}
		p.d[i] = document.New("c18h")
		p.d[i].SetActor(a)
	}
	if err := prog.InitDoc(p.d[0]); err != nil {
		return nil, err
	}
	if err := p.deliver(0); err != nil {
		return nil, err
	}
	return p, nil
}

// deliver sends the pending local changes of replica i to the other replica
// (encoded and decoded as on the wire) and acknowledges them to i. No version
// vector travels with the pack, so no GC happens here.
func (p *pair) deliver(i int) error {
	from, to := p.d[i], p.d[1-i]
	pack := from.CreateChangePack()
	if len(pack.Changes) == 0 {
		return nil
	}
	pb, err := converter.ToChangePack(pack)
	if err != nil {
		return fmt.Errorf("encode pack: %w", err)
	}
	raw, err := proto.Marshal(pb)
	if err != nil {
		return fmt.Errorf("marshal pack: %w", err)
	}
	var pb2 api.ChangePack
	if err := proto.Unmarshal(raw, &pb2); err != nil {
		return fmt.Errorf("unmarshal pack: %w", err)
	}
	dec, err := converter.FromChangePack(&pb2)
	if err != nil {
		return fmt.Errorf("decode pack: %w", err)
	}
	e, _ := guarded(func() error {
		return to.ApplyChangePack(change.NewPack(pack.DocumentKey, change.NewCheckpoint(0, 0), dec.Changes, time.InitialVersionVector, nil))
	})
	if e != nil {
		return fmt.Errorf("apply pack: %w", e)
	}
	last := pack.Changes[len(pack.Changes)-1].ClientSeq()
	e, _ = guarded(func() error {
		return from.ApplyChangePack(change.NewPack(pack.DocumentKey, change.NewCheckpoint(0, last), nil, time.InitialVersionVector, nil))
	})
	if e != nil {
		return fmt.Errorf("ack pack: %w", e)
	}
	return nil
}

// gc runs garbage collection on both replicas at the pointwise minimum of
// their version vectors. It is only called right after a complete exchange in
// both directions, when neither replica holds an undelivered change: that is
// the vector the server would hand out.
func (p *pair) gc() (int, error) {
	minVV := p.d[0].VersionVector().DeepCopy()
	other := p.d[1].VersionVector().DeepCopy()
	minVV.Min(&other)
	n := 0
	e, _ := guarded(func() error {
		n += p.d[0].GarbageCollect(minVV.DeepCopy())
		n += p.d[1].GarbageCollect(minVV.DeepCopy())
		return nil
	})
	return n, e
}

func isExtOp(op string) bool { return len(op) > 1 && op[0] == 'x' }

// runHistory executes a history and evaluates checkDoc on every replica state
// it produces (the edited replica after an edit, both after an exchange or GC).
func runHistory(c HCase) (fail *kit.Failure, hist []string, ev map[string]int, finals []*shape) {
	useTables(c.Sharp)
	p, err := newPair()
	if err != nil {
		return kit.Failf("HARNESS", "HARNESS-ERROR start: %v", err), nil, map[string]int{}, nil
	}
	if c.Sharp {
		p.ev["sharp_tables"] = 1
	}
	ev = p.ev
	logf := func(format string, a ...any) { p.hist = append(p.hist, fmt.Sprintf(format, a...)) }
	check := func(i int, at string) bool {
		_, _, f := checkDoc(p.d[i], ev)
		if f != nil {
			f.Msg = fmt.Sprintf("replica %d %s: %s", i, at, f.Msg)
			fail = f
			return false
		}
		return true
	}
	abort := func(why string, err error) {
		// an edit or an exchange failing is the subject of other properties
		// (C01, C07, C08); the history ends here and is not judged further
		ev["aborted:"+why] = 1
		logf("ABORTED (%s): %v", why, err)
		if os.Getenv("C18_DEBUG") != "" {
			fmt.Printf("C18 abort %s: %v\n", why, err)
		}
	}
	if !check(0, "after init") || !check(1, "after init") {
		return fail, p.hist, ev, nil
	}
	aborted := false
loop:
	for n, s := range c.Steps {
		i := s.W % 2
		at := fmt.Sprintf("after step %d", n)
		switch {
		case s.Op == "sync" || s.Op == "gc":
			if err := p.deliver(i); err != nil {
				abort("exchange", err)
				aborted = true
				break loop
			}
			if err := p.deliver(1 - i); err != nil {
				abort("exchange", err)
				aborted = true
				break loop
			}
			ev["sync"]++
			logf("%d: sync", n)
			if s.Op == "gc" {
				purged, err := p.gc()
				if err != nil {
					abort("gc", err)
					aborted = true
					break loop
				}
				ev["gc"]++
				if purged > 0 {
					ev["gc_purged"]++
				}
				logf("%d: gc at the minimum vector purged %d", n, purged)
			}
			if !check(0, at) || !check(1, at) {
				break loop
			}
		case s.Op == "push":
			if err := p.deliver(i); err != nil {
				abort("exchange", err)
				aborted = true
				break loop
			}
			ev["push"]++
			logf("%d: r%d pushes to r%d", n, i, 1-i)
			if !check(1-i, at) {
				break loop
			}
		default:
			var desc string
			var err error
			if isExtOp(s.Op) {
				desc, err = applyExt(p.d[i], s)
			} else {
				desc, err = prog.ApplyEdit(p.d[i], prog.Step{Op: s.Op, A: s.A % 8, B: s.B % 8, C: s.C % 9})
			}
			if err != nil {
				abort("edit", fmt.Errorf("%s: %w", desc, err))
				aborted = true
				break loop
			}
			ev["op:"+s.Op] = 1
			ev["edits"]++
			if p.d[0].HasLocalChanges() && p.d[1].HasLocalChanges() {
				ev["concurrent_edits"] = 1
			}
			logf("%d: r%d %s", n, i, desc)
			if !check(i, at) {
				break loop
			}
		}
	}
	if fail == nil && !aborted {
		// final exchange and GC, as at a quiescent point
		if err := p.deliver(0); err != nil {
			abort("exchange", err)
		} else if err := p.deliver(1); err != nil {
			abort("exchange", err)
		} else if _, err := p.gc(); err != nil {
			abort("gc", err)
		} else {
			logf("end: sync + gc")
			_ = check(0, "at the end") && check(1, "at the end")
		}
	}
	for i := range p.d {
		if root, f := exportYSON(p.d[i]); f == nil {
			finals = append(finals, classify(root))
		}
	}
	return fail, p.hist, ev, finals
}

// ---------------------------------------------------------------------------

var hProgOps = append(prog.Ops(prog.AllEditKinds...), "undo", "redo", "rootclear")

var hExtOps = []string{"xprim", "xprim", "xprim", "xcnt", "xcinc", "xcinc", "xarrc", "xarrc", "xarrc", "xnest", "xnest", "xnest", "xnest",
	"xtext", "xtext", "xtree", "xtree", "xyson", "xyson"}

func genHStep(pool []string) *rapid.Generator[HStep] {
	return rapid.Custom(func(t *rapid.T) HStep {
		s := HStep{
			W:  rapid.IntRange(0, 1).Draw(t, "w"),
			Op: rapid.SampledFrom(pool).Draw(t, "op"),
			A:  rapid.IntRange(0, 15).Draw(t, "a"),
			B:  rapid.IntRange(0, 15).Draw(t, "b"),
			C:  rapid.IntRange(0, 44).Draw(t, "c"),
		}
		if s.Op == "xyson" {
			y := genValue(t, 2)
			s.Y = &y
		}
		return s
	})
}

func genHistory(maxSteps int) *rapid.Generator[HCase] {
	pool := append([]string{}, hExtOps...)
	pool = append(pool, hExtOps...)
	pool = append(pool, hProgOps...)
	for i := 0; i < 6; i++ {
		pool = append(pool, "sync")
	}
	pool = append(pool, "push", "push", "push", "gc", "gc", "gc")
	// attribute stratum: both replicas set and remove the same attributes of the
	// same text ranges / paragraphs concurrently (tree: Style / RemoveStyle;
	// text: Style and its undo, the only attribute removal of the Go SDK), in
	// both delivery orders - a removal that loses against a newer value, a value
	// that loses against a newer removal, nodes whose only attribute is contested
	attrPool := []string{"trstyle", "trstyle", "trstyle", "trstyle", "tstyle", "tstyle", "tstyle", "undo", "undo", "redo",
		"tedit", "trtext", "sync", "sync", "push", "push", "push"}
	return rapid.Custom(func(t *rapid.T) HCase {
		curCtx = genCtx{sharp: rapid.IntRange(0, 2).Draw(t, "sharp") == 0}
		n := rapid.IntRange(3, maxSteps).Draw(t, "len")
		if rapid.IntRange(0, 5).Draw(t, "attrs") == 0 {
			steps := rapid.SliceOfN(genHStep(attrPool), n, n).Draw(t, "steps")
			// a few characters to style first
			steps = append([]HStep{{W: 0, Op: "tedit", A: 0, B: 0, C: 5}, {W: 0, Op: "sync"}}, steps...)
			return HCase{Sharp: curCtx.sharp, Steps: steps}
		}
		steps := rapid.SliceOfN(genHStep(pool), n, n).Draw(t, "steps")
		return HCase{Sharp: curCtx.sharp, Steps: steps}
	})
}

func historySample(c HCase, hist []string, finals []*shape) any {
	h := hist
	if len(h) > 40 {
		h = append(append([]string{}, h[:40]...), fmt.Sprintf("... (%d more)", len(hist)-40))
	}
	return map[string]any{"steps": len(c.Steps), "history": h}
}

func TestC18Histories(t *testing.T) {
	col := stats.New(prop, "histories")
	var best *HCase
	var bestFail *kit.Failure
	var bestHist []string
	harnessErr := ""
	states := map[string]int{}
	defer func() {
		if best != nil {
			path := kit.WriteReplay(prop, "history", fmt.Sprintf("history-%016x", hashJSON(*best)), *best, bestFail, bestHist)
			col.AddViolation(stats.Violation{Replay: path, Kind: bestFail.Kind, Msg: bestFail.Msg})
			kit.ReportViolation(prop, path, bestFail)
			for _, h := range bestHist {
				fmt.Printf("    %s\n", h)
			}
		}
		if harnessErr != "" {
			fmt.Printf("HARNESS-ERROR property=%s %s\n", prop, harnessErr)
		}
		// document states judged (a history yields one per edit and two per exchange)
		for k, v := range states {
			col.SetExtra("states_"+k, v)
		}
		col.Flush(true)
	}()
	gen := genHistory(kit.Pick(30, 60))
	rapid.Check(t, func(rt *rapid.T) {
		c := gen.Draw(rt, "history")
		fail, hist, ev, finals := runHistory(c)
		for _, k := range []string{"structural_checked", "stored_change_checked", "textual_checked", "textual_checked_hostile"} {
			states[k] += ev[k]
		}
		nonTrivial := false
		if ev["edits"] >= 10 {
			ev["edits>=10"] = 1
		}
		if ev["edits"] >= 20 {
			ev["edits>=20"] = 1
		}
		for _, sh := range finals {
			sh.classes(ev)
			if sh.nonTrivial() {
				nonTrivial = true
			}
		}
		aborted := false
		for k := range ev {
			if len(k) > 8 && k[:8] == "aborted:" {
				aborted = true
			}
		}
		col.Record(hashJSON(c), fail == nil && nonTrivial && !aborted, ev, func() any { return historySample(c, hist, finals) })
		if fail != nil {
			if fail.Kind == "HARNESS" {
				harnessErr = fail.Msg
				rt.Fatalf("harness error: %s", fail.Msg)
			}
			if best == nil || caseSize(c) < caseSize(*best) {
				cc := c
				best, bestFail, bestHist = &cc, fail, hist
			}
			rt.Fatalf("%s", fail.Error())
		}
	})
}

func replayHistory(raw gojson.RawMessage) *kit.Failure {
	var c HCase
	if err := gojson.Unmarshal(raw, &c); err != nil {
		return kit.Failf("HARNESS", "HARNESS-ERROR decode history: %v", err)
	}
	fail, hist, _, _ := runHistory(c)
	if fail != nil {
		for _, h := range hist {
			fmt.Printf("    %s\n", h)
		}
	}
	return fail
}
