package c18

import (
	"fmt"
	"runtime/debug"
	"strings"

	"google.golang.org/protobuf/proto"

	"github.com/yorkie-team/yorkie/api/converter"
	api "github.com/yorkie-team/yorkie/api/yorkie/v1"
	"github.com/yorkie-team/yorkie/pkg/document"
	"github.com/yorkie-team/yorkie/pkg/document/change"
	"github.com/yorkie-team/yorkie/pkg/document/json"
	"github.com/yorkie-team/yorkie/pkg/document/presence"
	"github.com/yorkie-team/yorkie/pkg/document/time"
	"github.com/yorkie-team/yorkie/pkg/document/yson"

	"verifharness/kit"
)

const prop = "C18"

func init() { kit.Pkg = "c18" }

// guarded runs f and turns a panic of the code under test into an error.
func guarded(f func() error) (err error, panicked bool) {
	defer func() {
		if r := recover(); r != nil {
			st := string(debug.Stack())
			if i := strings.Index(st, "panic("); i >= 0 {
				st = st[i:]
			}
			if len(st) > 1500 {
				st = st[:1500]
			}
			err, panicked = fmt.Errorf("panic: %v\n%s", r, st), true
		}
	}()
	return f(), false
}

// importYSON imports root into an empty document exactly as
// server/packs/compaction.go (and, after parsing, server/revisions) does.
func importYSON(root yson.Object) (*document.Document, *kit.Failure) {
	d := document.New("c18")
	err, panicked := guarded(func() error {
		return d.Update(func(r *json.Object, p *presence.Presence) error {
			r.SetYSON(root)
			return nil
		})
	})
	if panicked {
		return nil, kit.Failf("IMPORT-PANIC", "SetYSON of an exported/accepted value panics: %v", err)
	}
	if err != nil {
		return nil, kit.Failf("IMPORT-ERROR", "SetYSON of an exported/accepted value fails: %v", err)
	}
	return d, nil
}

func exportYSON(d *document.Document) (yson.Object, *kit.Failure) {
	var out yson.Object
	err, _ := guarded(func() error {
		v, err := yson.FromCRDT(d.RootObject())
		if err != nil {
			return err
		}
		o, ok := v.(yson.Object)
		if !ok {
			return fmt.Errorf("FromCRDT(root) is a %T", v)
		}
		out = o
		return nil
	})
	if err != nil {
		return nil, kit.Failf("EXPORT-ERROR", "yson.FromCRDT(root): %v", err)
	}
	return out, nil
}

var peerActor = func() time.ActorID {
	a, err := time.ActorIDFromHex("0000000000000000000000c1")
	if err != nil {
		panic(err)
	}
	return a
}()

// replayStored encodes the pending changes of d as the server stores and
// sends them (converter + protobuf) and applies them to an empty replica of
// another actor.
func replayStored(d *document.Document) (*document.Document, *kit.Failure) {
	pack := d.CreateChangePack()
	pb, err := converter.ToChangePack(pack)
	if err != nil {
		return nil, kit.Failf("STORED-CHANGE-ERROR", "the change of the rebuilt document does not encode: %v", err)
	}
	raw, err := proto.Marshal(pb)
	if err != nil {
		return nil, kit.Failf("STORED-CHANGE-ERROR", "the change of the rebuilt document does not marshal: %v", err)
	}
	var pb2 api.ChangePack
	if err := proto.Unmarshal(raw, &pb2); err != nil {
		return nil, kit.Failf("STORED-CHANGE-ERROR", "the change of the rebuilt document does not unmarshal: %v", err)
	}
	dec, err := converter.FromChangePack(&pb2)
	if err != nil {
		return nil, kit.Failf("STORED-CHANGE-ERROR", "the change of the rebuilt document does not decode: %v", err)
	}
	third := document.New("c18")
	third.SetActor(peerActor)
	err, _ = guarded(func() error {
		return third.ApplyChangePack(change.NewPack(pack.DocumentKey, change.NewCheckpoint(0, 0), dec.Changes, time.InitialVersionVector, nil))
	})
	if err != nil {
		return nil, kit.Failf("STORED-CHANGE-ERROR", "the encoded change of the rebuilt document does not apply to an empty replica: %v", err)
	}
	return third, nil
}

func clip(s string) string {
	if len(s) > 600 {
		return s[:600] + "…"
	}
	return s
}

// checkDoc evaluates the property on one document state:
//
//	(1) root := FromCRDT(d); newDoc := SetYSON(root) into an empty document;
//	    FromCRDT(newDoc) == root (deep, type-exact), the two YSON texts are
//	    equal (the comparison packs.Compact makes) and the documents marshal
//	    equally;
//	(1b) the change of newDoc, encoded as the server stores/sends it and
//	    applied to an empty replica, gives the same content again (this is what
//	    is left of the document after packs.Compact, and what clients receive
//	    after revisions.Restore);
//	(2) yson.Unmarshal(root.Marshal()) == root (what revisions.Restore parses),
//	    unless the value contains the trigger of a listed finding of Unmarshal.
//
// It returns the exported root and its shape for classification.
func checkDoc(d *document.Document, ev map[string]int) (yson.Object, *shape, *kit.Failure) {
	root, fail := exportYSON(d)
	if fail != nil {
		return nil, nil, fail
	}
	sh := classify(root)
	newDoc, fail := importYSON(root)
	if fail != nil {
		return root, sh, fail
	}
	newRoot, fail := exportYSON(newDoc)
	if fail != nil {
		return root, sh, fail
	}
	if diff := ysonDiff("$", root, newRoot); diff != "" {
		return root, sh, kit.Failf("REBUILD-DIFF", "FromCRDT(SetYSON(FromCRDT(d))) differs from FromCRDT(d) at %s", diff)
	}
	prev, err := root.Marshal()
	if err != nil {
		return root, sh, kit.Failf("MARSHAL-ERROR", "Marshal of the exported root: %v", err)
	}
	next, err := newRoot.Marshal()
	if err != nil {
		return root, sh, kit.Failf("MARSHAL-ERROR", "Marshal of the rebuilt root: %v", err)
	}
	if prev != next {
		return root, sh, kit.Failf("COMPACT-MISMATCH", "packs.Compact would report 'content mismatch after rebuild':\nprev: %s\n new: %s", clip(prev), clip(next))
	}
	if a, b := d.Marshal(), newDoc.Marshal(); a != b {
		return root, sh, kit.Failf("DOC-MARSHAL-DIFF", "document JSON differs after the rebuild:\nprev: %s\n new: %s", clip(a), clip(b))
	}
	ev["structural_checked"]++

	// (1b) what compaction stores and what a restore pushes is the change of
	// the rebuilt document: encoded as the server stores and sends it, and
	// applied to an empty replica, it must reproduce the content as well.
	if sh.sub["counter_dedup_nonempty"] && !kit.NoExclusions() {
		// F31: the Set/Add operation of a counter carries no HLL registers
		ev["excluded:F31-dedup-wire"] = 1
	} else {
		third, fail := replayStored(newDoc)
		if fail != nil {
			return root, sh, fail
		}
		thirdRoot, fail := exportYSON(third)
		if fail != nil {
			return root, sh, fail
		}
		if diff := ysonDiff("$", root, thirdRoot); diff != "" {
			return root, sh, kit.Failf("STORED-CHANGE-DIFF", "a replica that applies the encoded change of the rebuilt document (what "+
				"compaction stores / restore pushes) differs from FromCRDT(d) at %s", diff)
		}
		ev["stored_change_checked"]++
	}

	// (2) textual round trip
	if ex := sh.exclusionList(); len(ex) > 0 && !kit.NoExclusions() {
		for _, e := range ex {
			ev["excluded:"+e] = 1
		}
		return root, sh, nil
	}
	var back yson.Object
	err, panicked := guarded(func() error { return yson.Unmarshal(prev, &back) })
	if panicked {
		return root, sh, kit.Failf("UNMARSHAL-PANIC", "yson.Unmarshal(Marshal(root)) panics: %v\ntext: %s", err, clip(prev))
	}
	if err != nil {
		return root, sh, kit.Failf("UNMARSHAL-ERROR", "yson.Unmarshal(Marshal(root)) fails: %v\ntext: %s", err, clip(prev))
	}
	if diff := ysonDiff("$", root, back); diff != "" {
		return root, sh, kit.Failf("TEXTUAL-DIFF", "yson.Unmarshal(Marshal(root)) differs from root at %s\ntext: %s", diff, clip(prev))
	}
	ev["textual_checked"]++
	if sh.hostile {
		ev["textual_checked_hostile"]++
	}
	return root, sh, nil
}
