package c07

import (
	"os"
	"testing"

	"pgregory.net/rapid"
)

func TestProbeFind(t *testing.T) {
	id := os.Getenv("PROBE_ALLOW")
	g := genTree()
	gen := rapid.Custom(func(t *rapid.T) Case {
		c := g.Draw(t, "c")
		c.Mode = 1
		for i := range c.Steps {
			c.Steps[i].R = 0
			if c.Steps[i].Op != "fedit" {
				c.Steps[i].Op = "fedit"
			}
		}
		c.Allow = []string{id}
		return c
	})
	runRapid(t, "probe", "tree", gen, evalTree)
}
