// Package c07 checks property C07: on a single replica every editing call
// behaves like the obvious sequential data type (text = UTF-16 string with
// style ranges, array = slice, object = map, counter = wrapping integer, tree
// = XML), and deleted content never influences visible indices, lengths or
// lookups.
//
// Every case is a plain program of steps over TWO in-memory replicas of one
// document that exchange change packs through a tiny in-memory "server" (a
// change log plus the minimum-version-vector rule of the real server), so the
// replica an editing call runs on is not pristine: it holds tombstones, split
// nodes and dead array slots left by remote changes, garbage collection and
// snapshot round trips. Every editing call (on either replica) is compared
// against a plain reference model of that replica's visible content; the model
// is (re)initialised from the visible content after every sync / snapshot.
package c07

import (
	"encoding/json"
	"fmt"
	"hash/fnv"
	"runtime/debug"
	"testing"

	"pgregory.net/rapid"

	"github.com/yorkie-team/yorkie/api/converter"
	api "github.com/yorkie-team/yorkie/api/yorkie/v1"
	"github.com/yorkie-team/yorkie/pkg/document"
	"github.com/yorkie-team/yorkie/pkg/document/change"
	yjson "github.com/yorkie-team/yorkie/pkg/document/json"
	"github.com/yorkie-team/yorkie/pkg/document/presence"
	"github.com/yorkie-team/yorkie/pkg/document/time"

	"verifharness/kit"
	"verifharness/stats"
)

const prop = "C07"

func init() { kit.Pkg = "c07" }

// Step is one step of a program. All parameters are raw non-negative ints
// resolved modulo the current visible state by a total interpreter.
type Step struct {
	Op string `json:"op"`
	R  int    `json:"r,omitempty"` // replica the step runs on (mod 2)
	A  int    `json:"a,omitempty"`
	B  int    `json:"b,omitempty"`
	C  int    `json:"c,omitempty"`
	D  int    `json:"d,omitempty"`
}

// Case is a program.
type Case struct {
	Mode  int    `json:"mode,omitempty"` // part specific (tree: 0 structured, 1 free)
	Steps []Step `json:"steps"`
	// Allow lists findings whose exclusion is switched off for this case; only
	// hand-written replay files of those findings set it, generators never do.
	Allow []string `json:"allow,omitempty"`
}

// allowed holds Case.Allow of the case being evaluated (cases are evaluated one
// at a time).
var allowed map[string]bool

func setAllowed(c Case) {
	allowed = nil
	for _, id := range c.Allow {
		if allowed == nil {
			allowed = map[string]bool{}
		}
		allowed[id] = true
	}
}

// excluding reports whether the exclusion of the given finding is active.
func excluding(id string) bool { return !kit.NoExclusions() && !allowed[id] }

// verdict is what evaluating one case yields.
type verdict struct {
	Fail       *kit.Failure
	NonTrivial bool
	Classes    map[string]int
	Hist       []string
}

func hash64(b []byte) uint64 {
	h := fnv.New64a()
	_, _ = h.Write(b)
	return h.Sum64()
}

// ---------------------------------------------------------------------------
// two replicas and an in-memory server
// ---------------------------------------------------------------------------

var actorHex = [2]string{"0000000000000000000000a1", "0000000000000000000000b2"}

type world struct {
	docs   [2]*document.Document
	log    []*api.Change // pushed changes in push order (wire form)
	author []int
	cursor [2]int
	stored [2]time.VersionVector // vector each replica reported with its last sync

	trace bool
	hist  []string
	ev    map[string]int

	// what happened to a replica since it was created (sticky)
	sawRemote [2]bool
	sawGC     [2]bool
	sawSnap   [2]bool
}

func (w *world) logf(format string, a ...any) {
	if w.trace {
		w.hist = append(w.hist, fmt.Sprintf(format, a...))
	}
}

func (w *world) count(class string) { w.ev[class]++ }

// errHistory marks a failure of the machinery that builds the non-pristine
// state (pack exchange, snapshot, GC); it is not a verdict about C07.
type errHistory struct{ msg string }

func (e *errHistory) Error() string { return e.msg }

func newWorld(trace bool, initRoot func(r *yjson.Object)) (w *world, err error) {
	w = &world{trace: trace, ev: map[string]int{}}
	for i := 0; i < 2; i++ {
		actor, aerr := time.ActorIDFromHex(actorHex[i])
		if aerr != nil {
			return nil, fmt.Errorf("HARNESS-ERROR actor id: %w", aerr)
		}
		// automatic GC inside ApplyChangePack is switched off only so that the
		// harness can call the very same GarbageCollect(minVV) itself and learn
		// how many nodes it purged.
		d := document.New("c07", document.WithDisableGC())
		d.SetActor(actor)
		w.docs[i] = d
		w.stored[i] = time.NewVersionVector()
	}
	if uerr := w.docs[0].Update(func(r *yjson.Object, _ *presence.Presence) error {
		initRoot(r)
		return nil
	}); uerr != nil {
		return nil, fmt.Errorf("HARNESS-ERROR init update: %w", uerr)
	}
	if e := w.sync(0, false); e != nil {
		return nil, e
	}
	if e := w.sync(1, false); e != nil {
		return nil, e
	}
	return w, nil
}

func minVector(a, b time.VersionVector) time.VersionVector {
	return time.MinVersionVector(a, b)
}

// sync pushes the replica's local changes to the log and pulls everything it
// has not seen, exactly like a push-pull against the server: the response
// carries the pointwise minimum of the vectors all replicas reported with their
// own latest request, and the replica garbage-collects with it (unless noGC).
func (w *world) sync(r int, noGC bool) (err error) {
	defer func() {
		if rec := recover(); rec != nil {
			err = &errHistory{fmt.Sprintf("panic in sync(r%d): %v\n%s", r, rec, debug.Stack())}
		}
	}()
	d := w.docs[r]
	reqVV := d.VersionVector().DeepCopy()
	pack := d.CreateChangePack()
	pbs, cerr := converter.ToChanges(pack.Changes)
	if cerr != nil {
		return &errHistory{fmt.Sprintf("encode changes of r%d: %v", r, cerr)}
	}
	for _, pb := range pbs {
		w.log = append(w.log, pb)
		w.author = append(w.author, r)
	}
	w.stored[r] = reqVV

	var pull []*api.Change
	for i := w.cursor[r]; i < len(w.log); i++ {
		if w.author[i] != r {
			pull = append(pull, w.log[i])
		}
	}
	w.cursor[r] = len(w.log)
	changes, cerr := converter.FromChanges(pull)
	if cerr != nil {
		return &errHistory{fmt.Sprintf("decode changes for r%d: %v", r, cerr)}
	}
	minVV := minVector(w.stored[0], w.stored[1])
	resp := change.NewPack(d.Key(), change.NewCheckpoint(int64(len(w.log)), pack.Checkpoint.ClientSeq), changes, minVV, nil)
	if aerr := d.ApplyChangePack(resp); aerr != nil {
		return &errHistory{fmt.Sprintf("r%d ApplyChangePack: %v", r, aerr)}
	}
	purged := 0
	if !noGC {
		purged = d.GarbageCollect(minVV)
	}
	if len(changes) > 0 {
		w.sawRemote[r] = true
	}
	if purged > 0 {
		w.sawGC[r] = true
	}
	w.logf("r%d sync: pushed %d, pulled %d, gc purged %d (garbage left %d)", r, len(pbs), len(changes), purged, d.GarbageLen())
	return nil
}

// snapshot replaces the replica's state by a snapshot of itself (encode, then
// apply a pack that carries the snapshot), right after a sync so that it has no
// unsent local changes the snapshot would duplicate.
func (w *world) snapshot(r int) (err error) {
	if e := w.sync(r, true); e != nil {
		return e
	}
	defer func() {
		if rec := recover(); rec != nil {
			err = &errHistory{fmt.Sprintf("panic in snapshot(r%d): %v\n%s", r, rec, debug.Stack())}
		}
	}()
	d := w.docs[r]
	b, serr := converter.SnapshotToBytes(d.RootObject(), d.InternalDocument().AllPresences())
	if serr != nil {
		return &errHistory{fmt.Sprintf("encode snapshot of r%d: %v", r, serr)}
	}
	pack := change.NewPack(d.Key(), d.Checkpoint(), nil, d.VersionVector().DeepCopy(), b)
	if aerr := d.ApplyChangePack(pack); aerr != nil {
		return &errHistory{fmt.Sprintf("r%d apply snapshot: %v", r, aerr)}
	}
	w.sawSnap[r] = true
	w.logf("r%d snapshot round trip (%d bytes, garbage %d)", r, len(b), d.GarbageLen())
	return nil
}

// update runs fn inside Document.Update on replica r. A panic of the code
// under test is turned into a failure of the editing call.
func (w *world) update(r int, desc *string, fn func(root *yjson.Object) *kit.Failure) (fail *kit.Failure) {
	defer func() {
		if rec := recover(); rec != nil {
			fail = kit.Failf("PANIC", "r%d %s panicked: %v\n%s", r, *desc, rec, debug.Stack())
		}
	}()
	var inner *kit.Failure
	err := w.docs[r].Update(func(root *yjson.Object, _ *presence.Presence) error {
		inner = fn(root)
		return nil
	})
	if inner != nil {
		return inner
	}
	if err != nil {
		return kit.Failf("UPDATE-ERROR", "r%d %s: Update returned %v", r, *desc, err)
	}
	return nil
}

// stateClasses records in which kind of non-pristine state a checked call ran.
func (w *world) stateClasses(r int) {
	w.count("call")
	if w.sawRemote[r] {
		w.count("call:after_remote")
	}
	if w.sawGC[r] {
		w.count("call:after_gc")
	}
	if w.sawSnap[r] {
		w.count("call:after_snapshot")
	}
}

// caseClasses turns per-call counters into per-case classes (1 = the case had
// at least one such call).
func caseClasses(ev map[string]int) map[string]int {
	out := map[string]int{}
	for k, v := range ev {
		if v > 0 {
			out[k] = 1
		}
	}
	return out
}

// ---------------------------------------------------------------------------
// rapid driver, replay
// ---------------------------------------------------------------------------

type evalFn func(c Case, trace bool) verdict

// runRapid drives one part with rapid: every case is a plain value drawn up
// front (so rapid's shrinker works); the smallest failing case seen (rapid
// re-evaluates while shrinking) becomes the replay file.
func runRapid(t *testing.T, part, kind string, gen *rapid.Generator[Case], eval evalFn) {
	col := stats.New(prop, part)
	var (
		best     *Case
		bestSize int
		bestHash uint64
	)
	harnessErr := ""
	defer func() {
		if best != nil {
			v := eval(*best, true)
			if v.Fail == nil {
				v.Fail = kit.Failf("FLAKY", "case failed during the search but passed when re-evaluated for the replay file")
			}
			path := kit.WriteReplay(prop, kind, fmt.Sprintf("%s-%016x", part, bestHash), *best, v.Fail, v.Hist)
			col.AddViolation(stats.Violation{Replay: path, Kind: v.Fail.Kind, Msg: v.Fail.Msg})
			kit.ReportViolation(prop, path, v.Fail)
			for _, h := range v.Hist {
				fmt.Printf("    %s\n", h)
			}
		}
		if harnessErr != "" {
			fmt.Printf("HARNESS-ERROR property=%s %s\n", prop, harnessErr)
		}
		col.Flush(true)
	}()
	rapid.Check(t, func(rt *rapid.T) {
		c := gen.Draw(rt, "case")
		raw, err := json.Marshal(c)
		if err != nil {
			harnessErr = "marshal case: " + err.Error()
			rt.Fatalf("harness error: %v", err)
		}
		v := eval(c, false)
		h := hash64(raw)
		col.Record(h, v.NonTrivial && v.Fail == nil, v.Classes, func() any {
			return map[string]any{"case": c, "history": eval(c, true).Hist}
		})
		if v.Fail != nil {
			if v.Fail.Kind == "HARNESS" {
				harnessErr = v.Fail.Msg
				rt.Fatalf("harness error: %s", v.Fail.Msg)
			}
			if best == nil || len(raw) < bestSize {
				cc := c
				best, bestSize, bestHash = &cc, len(raw), h
			}
			rt.Fatalf("%s", v.Fail.Error())
		}
	})
}

// runEnum drives an enumerated part: next yields the cases of this shard's
// residue class (ordinal % shards == shard) one by one and reports whether the
// residue class was exhausted within the budget.
func runEnum(t *testing.T, part, kind string, eval evalFn, enumerate func(visit func(c Case) bool)) {
	col := stats.New(prop, part)
	defer col.Flush(true)
	shard, shards := kit.Shard()
	budget := kit.Checks(1 << 30)
	ordinal, done := 0, 0
	complete := true
	var failed *Case
	var failV verdict
	enumerate(func(c Case) bool {
		mine := ordinal%shards == shard
		ordinal++
		if !mine {
			return true
		}
		if done >= budget {
			complete = false
			return false
		}
		done++
		v := eval(c, false)
		raw, _ := json.Marshal(c)
		col.Record(hash64(raw), v.NonTrivial && v.Fail == nil, v.Classes, func() any {
			return map[string]any{"case": c, "history": eval(c, true).Hist}
		})
		if v.Fail != nil {
			if v.Fail.Kind == "HARNESS" {
				fmt.Printf("HARNESS-ERROR property=%s %s\n", prop, v.Fail.Msg)
				t.Fatalf("harness error: %s", v.Fail.Msg)
			}
			cc := c
			failed, failV = &cc, eval(c, true)
			if failV.Fail == nil {
				failV.Fail = v.Fail
			}
			return false
		}
		return true
	})
	col.SetExtra("enumerated_"+part, done)
	if failed != nil {
		raw, _ := json.Marshal(*failed)
		path := kit.WriteReplay(prop, kind, fmt.Sprintf("%s-%016x", part, hash64(raw)), *failed, failV.Fail, failV.Hist)
		col.AddViolation(stats.Violation{Replay: path, Kind: failV.Fail.Kind, Msg: failV.Fail.Msg})
		kit.ReportViolation(prop, path, failV.Fail)
		for _, h := range failV.Hist {
			fmt.Printf("    %s\n", h)
		}
		col.SetExhaustive(false)
		t.Fatalf("%s", failV.Fail.Error())
	}
	col.SetExhaustive(complete)
}

func replayer(eval evalFn) kit.Replayer {
	return func(raw json.RawMessage) *kit.Failure {
		var c Case
		if err := json.Unmarshal(raw, &c); err != nil {
			return kit.Failf("HARNESS", "HARNESS-ERROR bad case: %v", err)
		}
		v := eval(c, true)
		if v.Fail != nil {
			for _, h := range v.Hist {
				fmt.Printf("    %s\n", h)
			}
		}
		return v.Fail
	}
}

// TestReplay re-executes a saved failing case without rapid.
func TestReplay(t *testing.T) {
	kit.Replay(t, map[string]kit.Replayer{
		"text":   replayer(evalText),
		"array":  replayer(evalArray),
		"objcnt": replayer(evalObjCnt),
		"tree":   replayer(evalTree),

		"substrate": replayer(evalSubstrate),
	})
}

// finish assembles the verdict of a case.
func (w *world) finish(fail *kit.Failure, nonTrivial bool) verdict {
	return verdict{Fail: fail, NonTrivial: nonTrivial, Classes: caseClasses(w.ev), Hist: w.hist}
}

// historyVerdict maps a failure of the state-building machinery to a discarded
// (counted, never failing) case.
func historyVerdict(w *world, err error) verdict {
	if w == nil {
		return verdict{Fail: kit.Failf("HARNESS", "%v", err), Classes: map[string]int{}}
	}
	if he, ok := err.(*errHistory); ok {
		w.count("discarded:history_error")
		w.logf("DISCARDED: %s", he.msg)
		return verdict{Classes: caseClasses(w.ev), Hist: w.hist}
	}
	return verdict{Fail: kit.Failf("HARNESS", "%v", err), Classes: caseClasses(w.ev), Hist: w.hist}
}
