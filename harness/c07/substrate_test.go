package c07

import (
	"fmt"
	"sort"
	"testing"

	"pgregory.net/rapid"

	"github.com/yorkie-team/yorkie/pkg/llrb"
	"github.com/yorkie-team/yorkie/pkg/splay"
	"github.com/yorkie-team/yorkie/pkg/treelist"

	"verifharness/kit"
)

// ---------------------------------------------------------------------------
// (e) the substrate directly: pkg/splay (weighted index tree of Text),
// pkg/treelist (order-statistic tree of Array), pkg/llrb (ID map of Text/Tree)
// against slice / sorted-slice models. The trees are driven only the way
// RGATreeSplit / RGATreeList drive them: a length changes through a split
// (shrink + InsertAfter), through DeleteRange over nodes whose length was set to
// zero, or on a node that was splayed to the root; only zero-length nodes are
// physically deleted (GC purge).
// ---------------------------------------------------------------------------

type sval struct {
	id, n int
}

func (v *sval) Len() int       { return v.n }
func (v *sval) String() string { return fmt.Sprintf("#%d(%d)", v.id, v.n) }

type tval struct {
	id      int
	removed bool
}

func (v *tval) IsRemoved() bool { return v.removed }
func (v *tval) String() string  { return fmt.Sprintf("#%d", v.id) }

type lkey struct{ a, b int }

func (k lkey) Compare(o llrb.Key) int {
	x := o.(lkey)
	switch {
	case k.a != x.a && k.a < x.a, k.a == x.a && k.b < x.b:
		return -1
	case k == x:
		return 0
	}
	return 1
}

type lval struct{ s string }

func (v lval) String() string { return v.s }

func evalSubstrate(c Case, trace bool) (v verdict) {
	ev := map[string]int{}
	var hist []string
	logf := func(format string, a ...any) {
		if trace {
			hist = append(hist, fmt.Sprintf(format, a...))
		}
	}
	finish := func(f *kit.Failure, nonTrivial bool) verdict {
		if f != nil {
			logf("FAIL %s", f.Error())
		}
		return verdict{Fail: f, NonTrivial: nonTrivial, Classes: caseClasses(ev), Hist: hist}
	}
	desc := ""
	defer func() {
		if rec := recover(); rec != nil {
			v = finish(kit.Failf("PANIC", "%s panicked: %v", desc, rec), false)
		}
	}()

	// splay
	head := splay.NewNode(&sval{id: 0})
	st := splay.NewTree(head)
	snodes := []*splay.Node[*sval]{head}
	// treelist
	thead := treelist.NewNode(&tval{id: 0, removed: true}) // dummy head, like RGATreeList
	tt := treelist.NewTree(thead)
	tnodes := []*treelist.Node[*tval]{thead}
	// llrb
	lt := llrb.NewTree[lkey, lval]()
	var lkeys []lkey // sorted
	nextID := 1
	nonTrivial := false

	checkSplay := func(salt int) *kit.Failure {
		total := 0
		starts := make([]int, len(snodes))
		for i, n := range snodes {
			starts[i] = total
			total += n.Value().n
		}
		if st.Len() != total {
			return kit.Failf("SPLAY-LEN", "Len()=%d, model %d (%s)", st.Len(), total, st.ToTestString())
		}
		pos := map[*splay.Node[*sval]]int{}
		for i, n := range snodes {
			pos[n] = i
		}
		// Lookups splay the tree: they are made in a scrambled order so that the
		// checks do not leave the tree behind as a sorted chain (on which every
		// later operation would touch, and thereby repair, every node).
		for q := 0; q <= total; q++ {
			idx := (q*7 + salt) % (total + 1)
			if (total+1)%7 == 0 {
				idx = (q*5 + salt) % (total + 1)
			}
			n, off, err := st.FindForText(idx)
			if err != nil || n == nil {
				return kit.Failf("SPLAY-FIND", "FindForText(%d) of %d: node %v err %v", idx, total, n != nil, err)
			}
			i, ok := pos[n]
			if !ok || off < 0 || off > n.Value().n || starts[i]+off != idx {
				return kit.Failf("SPLAY-FIND", "FindForText(%d) = (%s, %d) which denotes offset %d", idx, n.Value(), off, starts[max(i, 0)]+off)
			}
		}
		if _, _, err := st.FindForText(total + 1); err == nil {
			return kit.Failf("SPLAY-FIND", "FindForText(%d) beyond length %d succeeded", total+1, total)
		}
		for q := range snodes {
			i := (q*7 + salt) % len(snodes)
			if len(snodes)%7 == 0 {
				i = (q*5 + salt) % len(snodes)
			}
			if salt%3 == 0 && q%2 == 1 {
				continue // leave some nodes untouched
			}
			if got := st.IndexOf(snodes[i]); got != starts[i] {
				return kit.Failf("SPLAY-INDEXOF", "IndexOf(%s)=%d, model %d", snodes[i].Value(), got, starts[i])
			}
		}
		return nil
	}
	checkTreelist := func() *kit.Failure {
		var live []*treelist.Node[*tval]
		for _, n := range tnodes {
			if !n.Value().removed {
				live = append(live, n)
			}
		}
		if tt.Len() != len(live) {
			return kit.Failf("TREELIST-LEN", "Len()=%d, model %d", tt.Len(), len(live))
		}
		for i, n := range live {
			got, err := tt.Find(i)
			if err != nil || got != n {
				return kit.Failf("TREELIST-FIND", "Find(%d) of %d: want %s, err %v", i, len(live), n.Value(), err)
			}
		}
		if _, err := tt.Find(len(live)); err == nil {
			return kit.Failf("TREELIST-FIND", "Find(%d) beyond length succeeded", len(live))
		}
		if _, err := tt.Find(-1); err == nil {
			return kit.Failf("TREELIST-FIND", "Find(-1) succeeded")
		}
		return nil
	}
	checkLLRB := func(q lkey) *kit.Failure {
		if lt.Len() != len(lkeys) {
			return kit.Failf("LLRB-LEN", "Len()=%d, model %d", lt.Len(), len(lkeys))
		}
		probes := append([]lkey{q, {-1, 0}, {99, 99}}, lkeys...)
		for _, p := range probes {
			i := sort.Search(len(lkeys), func(i int) bool { return lkeys[i].Compare(p) > 0 }) // first key > p
			k, val := lt.Floor(p)
			if i == 0 {
				if val.s != "" {
					return kit.Failf("LLRB-FLOOR", "Floor(%v)=%v, model has no key <= it", p, k)
				}
				continue
			}
			if k != lkeys[i-1] || val.s != fmt.Sprint(lkeys[i-1]) {
				return kit.Failf("LLRB-FLOOR", "Floor(%v)=%v/%q, model %v", p, k, val.s, lkeys[i-1])
			}
		}
		return nil
	}

	for si, s := range c.Steps {
		zeros, removed := 0, 0
		for _, n := range snodes[1:] {
			if n.Value().n == 0 {
				zeros++
			}
		}
		for _, n := range tnodes[1:] {
			if n.Value().removed {
				removed++
			}
		}
		if zeros > 0 || removed > 0 {
			nonTrivial = true
			ev["call:nontrivial"]++
		}
		ev["op:"+s.Op]++
		var fail *kit.Failure
		switch s.Op {
		case "sIns": // insert a new node after node A
			i := s.A % len(snodes)
			n := splay.NewNode(&sval{id: nextID, n: s.C % 4})
			nextID++
			desc = fmt.Sprintf("splay InsertAfter(%s, %s)", snodes[i].Value(), n.Value())
			st.InsertAfter(snodes[i], n)
			snodes = append(snodes[:i+1:i+1], append([]*splay.Node[*sval]{n}, snodes[i+1:]...)...)
		case "sSplit": // split node A at an inner offset, like RGATreeSplit.splitNode
			i := s.A % len(snodes)
			if snodes[i].Value().n < 2 {
				continue
			}
			k := 1 + s.B%(snodes[i].Value().n-1)
			right := splay.NewNode(&sval{id: nextID, n: snodes[i].Value().n - k})
			nextID++
			desc = fmt.Sprintf("splay split %s at %d", snodes[i].Value(), k)
			snodes[i].Value().n = k
			st.UpdateWeight(right)
			st.InsertAfter(snodes[i], right)
			snodes = append(snodes[:i+1:i+1], append([]*splay.Node[*sval]{right}, snodes[i+1:]...)...)
		case "sRange": // tombstone the nodes strictly between two boundaries, like deleteIndexNodes
			i := s.A % len(snodes)
			j := i + 1 + s.B%(len(snodes)-i) // i < j <= len; len means "to the end"
			if j == i+1 {
				continue // nothing between the boundaries: rga skips the call
			}
			for _, n := range snodes[i+1 : j] {
				n.Value().n = 0
			}
			if j == len(snodes) {
				desc = fmt.Sprintf("splay DeleteRange(%s, nil)", snodes[i].Value())
				st.DeleteRange(snodes[i], nil)
			} else {
				desc = fmt.Sprintf("splay DeleteRange(%s, %s)", snodes[i].Value(), snodes[j].Value())
				st.DeleteRange(snodes[i], snodes[j])
			}
		case "sPurge": // physically delete a zero-length node, like RGATreeSplit.Purge
			var cand []int
			for i, n := range snodes[1:] {
				if n.Value().n == 0 {
					cand = append(cand, i+1)
				}
			}
			if len(cand) == 0 {
				continue
			}
			i := cand[s.A%len(cand)]
			desc = fmt.Sprintf("splay Delete(%s)", snodes[i].Value())
			st.Delete(snodes[i])
			snodes = append(snodes[:i:i], snodes[i+1:]...)
		case "tIns":
			i := s.A % len(tnodes)
			n := treelist.NewNode(&tval{id: nextID, removed: s.C%5 == 0}) // sometimes born dead (lost move)
			nextID++
			desc = fmt.Sprintf("treelist InsertAfter(%s, %s removed=%v)", tnodes[i].Value(), n.Value(), n.Value().removed)
			tt.InsertAfter(tnodes[i], n)
			tnodes = append(tnodes[:i+1:i+1], append([]*treelist.Node[*tval]{n}, tnodes[i+1:]...)...)
		case "tFlip": // tombstone a live node / revive a removed one, then UpdateWeight
			if len(tnodes) < 2 {
				continue
			}
			i := 1 + s.A%(len(tnodes)-1)
			tnodes[i].Value().removed = !tnodes[i].Value().removed
			desc = fmt.Sprintf("treelist flip %s to removed=%v + UpdateWeight", tnodes[i].Value(), tnodes[i].Value().removed)
			tt.UpdateWeight(tnodes[i])
		case "tPurge": // physically delete any node but the head
			if len(tnodes) < 2 {
				continue
			}
			i := 1 + s.A%(len(tnodes)-1)
			desc = fmt.Sprintf("treelist Delete(%s removed=%v)", tnodes[i].Value(), tnodes[i].Value().removed)
			tt.Delete(tnodes[i])
			tnodes = append(tnodes[:i:i], tnodes[i+1:]...)
		case "lPut":
			k := lkey{s.A % 6, s.B % 5}
			desc = fmt.Sprintf("llrb Put(%v)", k)
			lt.Put(k, lval{fmt.Sprint(k)})
			i := sort.Search(len(lkeys), func(i int) bool { return lkeys[i].Compare(k) >= 0 })
			if i == len(lkeys) || lkeys[i] != k {
				lkeys = append(lkeys[:i:i], append([]lkey{k}, lkeys[i:]...)...)
			}
		case "lRemove": // only keys that are present (Purge removes the id of an existing node)
			if len(lkeys) == 0 {
				continue
			}
			i := s.A % len(lkeys)
			desc = fmt.Sprintf("llrb Remove(%v)", lkeys[i])
			lt.Remove(lkeys[i])
			lkeys = append(lkeys[:i:i], lkeys[i+1:]...)
		default:
			return finish(kit.Failf("HARNESS", "HARNESS-ERROR unknown substrate op %q", s.Op), false)
		}
		logf("step %d %s", si, desc)
		switch s.Op[0] {
		case 's':
			fail = checkSplay(s.D)
		case 't':
			fail = checkTreelist()
		default:
			fail = checkLLRB(lkey{s.C % 7, s.D % 6})
		}
		if fail != nil {
			fail.Msg = fmt.Sprintf("after step %d %s: %s", si, desc, fail.Msg)
			return finish(fail, false)
		}
	}
	return finish(nil, nonTrivial)
}

func genSubstrate() *rapid.Generator[Case] {
	ops := []string{"sIns", "sIns", "sIns", "sSplit", "sRange", "sRange", "sPurge", "tIns", "tIns", "tIns", "tFlip", "tFlip", "tPurge",
		"lPut", "lPut", "lPut", "lRemove", "lRemove"}
	steps := genSteps(kit.Pick(45, 90), ops, 40, 40, 19, 11)
	return rapid.Custom(func(t *rapid.T) Case { return Case{Steps: steps.Draw(t, "steps")} })
}

func TestC07Substrate(t *testing.T) {
	runRapid(t, "substrate", "substrate", genSubstrate(), evalSubstrate)
}
