package c07

import (
	"fmt"
	"sort"
	"strconv"
	"strings"
	"testing"

	"pgregory.net/rapid"

	"github.com/yorkie-team/yorkie/pkg/document/crdt"
	yjson "github.com/yorkie-team/yorkie/pkg/document/json"

	"verifharness/kit"
)

// ---------------------------------------------------------------------------
// plain JSON-ish values shared by the array and object models
// ---------------------------------------------------------------------------

// val is a model value: a leaf (its JSON text), an array or an object.
type val struct {
	kind byte // 'l' leaf, 'a' array, 'o' object
	raw  string
	arr  []*val
	obj  map[string]*val
}

func leaf(raw string) *val    { return &val{kind: 'l', raw: raw} }
func leafInt(v int) *val      { return leaf(strconv.Itoa(v)) }
func leafStr(s string) *val   { return leaf(`"` + s + `"`) }
func leafBool(b bool) *val    { return leaf(strconv.FormatBool(b)) }
func leafDbl(f float64) *val  { return leaf(fmt.Sprintf("%f", f)) }
func leafLong(v int64) *val   { return leaf(strconv.FormatInt(v, 10)) }
func newArr(xs ...*val) *val  { return &val{kind: 'a', arr: xs} }
func newObj() *val            { return &val{kind: 'o', obj: map[string]*val{}} }
func (v *val) String() string { return v.marshal() }

func (v *val) marshal() string {
	switch v.kind {
	case 'a':
		parts := make([]string, len(v.arr))
		for i, x := range v.arr {
			parts[i] = x.marshal()
		}
		return "[" + strings.Join(parts, ",") + "]"
	case 'o':
		keys := make([]string, 0, len(v.obj))
		for k := range v.obj {
			keys = append(keys, k)
		}
		sort.Strings(keys)
		parts := make([]string, len(keys))
		for i, k := range keys {
			parts[i] = `"` + k + `":` + v.obj[k].marshal()
		}
		return "{" + strings.Join(parts, ",") + "}"
	}
	return v.raw
}

// valOf builds the model of the visible content of an element. Containers are
// walked through their list / member views (not through the index tree, which
// the checks then compare against).
func valOf(e crdt.Element) *val {
	switch x := e.(type) {
	case *crdt.Array:
		v := newArr()
		for _, c := range x.Elements() {
			v.arr = append(v.arr, valOf(c))
		}
		return v
	case *crdt.Object:
		v := newObj()
		for k, c := range x.Members() {
			v.obj[k] = valOf(c)
		}
		return v
	}
	return leaf(e.Marshal())
}

// checkElem compares a crdt element with a model value, recursively, through
// every read path: Marshal, Len/Get(i) for arrays, Has/Get(k)/Members for
// objects.
func checkElem(path string, e crdt.Element, m *val) *kit.Failure {
	if e == nil {
		return kit.Failf("LOOKUP", "%s: lookup returned nil, model has %s", path, m.marshal())
	}
	if got, want := e.Marshal(), m.marshal(); got != want {
		return kit.Failf("MARSHAL", "%s: Marshal()=%s, model %s", path, got, want)
	}
	switch x := e.(type) {
	case *crdt.Array:
		if m.kind != 'a' {
			return kit.Failf("KIND", "%s: element is an array, model %s", path, m.marshal())
		}
		if x.Len() != len(m.arr) {
			return kit.Failf("ARRAY-LEN", "%s: Len()=%d, model length %d (%s)", path, x.Len(), len(m.arr), m.marshal())
		}
		els := x.Elements()
		if len(els) != len(m.arr) {
			return kit.Failf("ARRAY-LEN", "%s: Elements() has %d entries, model %d", path, len(els), len(m.arr))
		}
		for i := range m.arr {
			c, err := x.Get(i)
			if err != nil {
				return kit.Failf("ARRAY-GET", "%s: Get(%d) of %d: %v", path, i, len(m.arr), err)
			}
			if c == nil {
				return kit.Failf("ARRAY-GET", "%s: Get(%d) returned nil, model %s (array %s)", path, i, m.arr[i].marshal(), m.marshal())
			}
			if c.RemovedAt() != nil {
				return kit.Failf("ARRAY-GET", "%s: Get(%d) returned a removed element %s", path, i, c.Marshal())
			}
			if c.CreatedAt().Compare(els[i].CreatedAt()) != 0 {
				return kit.Failf("ARRAY-GET", "%s: Get(%d)=%s but the %d-th listed element is %s (array %s)",
					path, i, c.Marshal(), i, els[i].Marshal(), m.marshal())
			}
			if f := checkElem(fmt.Sprintf("%s[%d]", path, i), c, m.arr[i]); f != nil {
				return f
			}
			if byID := x.GetByID(c.CreatedAt()); byID != c {
				return kit.Failf("ARRAY-GET", "%s: GetByID(createdAt of element %d) does not return that element", path, i)
			}
		}
		if _, err := x.Get(len(m.arr)); err == nil {
			return kit.Failf("ARRAY-GET", "%s: Get(%d) beyond length %d succeeded", path, len(m.arr), len(m.arr))
		}
	case *crdt.Object:
		if m.kind != 'o' {
			return kit.Failf("KIND", "%s: element is an object, model %s", path, m.marshal())
		}
		members := x.Members()
		if len(members) != len(m.obj) {
			return kit.Failf("OBJECT-MEMBERS", "%s: Members() has %d keys, model %d (%s)", path, len(members), len(m.obj), m.marshal())
		}
		keys := make([]string, 0, len(m.obj))
		for k := range m.obj {
			keys = append(keys, k)
		}
		sort.Strings(keys) // deterministic failure messages
		for _, k := range keys {
			mv := m.obj[k]
			if !x.Has(k) {
				return kit.Failf("OBJECT-HAS", "%s: Has(%q)=false, model has %s", path, k, mv.marshal())
			}
			if f := checkElem(path+"."+k, x.Get(k), mv); f != nil {
				return f
			}
		}
	}
	return nil
}

// ---------------------------------------------------------------------------
// (b) json.Array against a slice model
// ---------------------------------------------------------------------------

func rootArray(w *world, r int) *crdt.Array {
	a, _ := w.docs[r].InternalDocument().RootObject().Get("a").(*crdt.Array)
	return a
}

// arrayShape counts dead slots (positions abandoned by a move) and tombstoned
// elements inside the list.
func arrayShape(a *crdt.Array) (dead, tombs int) {
	for _, n := range a.AllRGANodes() {
		switch {
		case n.Element() == nil:
			dead++
		case n.Element().RemovedAt() != nil:
			tombs++
		}
	}
	return
}

func marshalOrNil(e crdt.Element) string {
	if e == nil {
		return "<nil>"
	}
	return e.Marshal()
}

func sliceInsert(xs []*val, i int, v *val) []*val {
	out := make([]*val, 0, len(xs)+1)
	out = append(out, xs[:i]...)
	out = append(out, v)
	return append(out, xs[i:]...)
}

func sliceRemove(xs []*val, i int) []*val {
	out := make([]*val, 0, len(xs))
	out = append(out, xs[:i]...)
	return append(out, xs[i+1:]...)
}

func indexOf(xs []*val, v *val) int {
	for i, x := range xs {
		if x == v {
			return i
		}
	}
	return -1
}

var arrayEditOps = []string{"addInt", "addStr", "addMisc", "insInt", "insStr", "del", "delOut", "moveAfter", "moveBefore",
	"moveFront", "moveLast", "setInt", "setStr", "addArr", "addObj", "nested"}

func isArrayEdit(op string) bool {
	for _, o := range arrayEditOps {
		if o == op {
			return true
		}
	}
	return false
}

// applyArrayOp performs one editing call on the proxy and on the model.
// It returns the description; indices are resolved modulo the model length.
func applyArrayOp(w *world, a *yjson.Array, m *val, s Step, descOut *string, prefix string) (fail *kit.Failure) {
	var desc string
	n := len(m.arr)
	op := s.Op
	v := s.D % 100
	needIdx := map[string]bool{"insInt": true, "insStr": true, "del": true, "moveAfter": true, "moveBefore": true,
		"moveFront": true, "moveLast": true, "setInt": true, "setStr": true, "nested": true}
	if n == 0 && needIdx[op] {
		op = "addInt"
	}
	i, j := 0, 0
	if n > 0 {
		i, j = s.A%n, s.B%n
	}
	if op == "nested" {
		// pick among the container elements
		var cs []int
		for k, x := range m.arr {
			if x.kind != 'l' {
				cs = append(cs, k)
			}
		}
		if len(cs) == 0 {
			op = "addArr"
		} else {
			i = cs[s.A%len(cs)]
		}
	}
	if (op == "setInt" || op == "setStr") && excluding("F2") {
		// F2: ArraySet on an element that was moved earlier inserts the new value
		// at the element's original slot.
		el := a.Get(i)
		if el != nil {
			if node := a.RGATreeList().GetByID(el.CreatedAt()); node != nil && node.PositionMovedAt() != nil {
				w.count("excluded:F2")
				*descOut = fmt.Sprintf("a.%s(%d) skipped: element was moved (F2)", op, i)
				w.logf("%s %s", prefix, *descOut)
				return nil
			}
		}
	}
	switch op {
	case "addInt":
		desc = fmt.Sprintf("a.AddInteger(%d)", v)
	case "addStr":
		desc = fmt.Sprintf("a.AddString(%q)", "s"+strconv.Itoa(v))
	case "addMisc":
		desc = fmt.Sprintf("a.Add<misc %d>", s.C%4)
	case "insInt":
		desc = fmt.Sprintf("a.InsertIntegerAfter(%d,%d)", i, v)
	case "insStr":
		desc = fmt.Sprintf("a.InsertStringAfter(%d,%q)", i, "s"+strconv.Itoa(v))
	case "del":
		desc = fmt.Sprintf("a.Delete(%d)", i)
	case "delOut":
		desc = fmt.Sprintf("a.Delete(out of range %d)", []int{-1, n, n + 1}[s.A%3])
	case "moveAfter":
		desc = fmt.Sprintf("a.MoveAfterByIndex(prev=%d,target=%d)", i, j)
	case "moveBefore":
		desc = fmt.Sprintf("a.MoveBefore(next=#%d,target=#%d)", i, j)
	case "moveFront":
		desc = fmt.Sprintf("a.MoveFront(#%d)", j)
	case "moveLast":
		desc = fmt.Sprintf("a.MoveLast(#%d)", j)
	case "setInt":
		desc = fmt.Sprintf("a.SetInteger(%d,%d)", i, v)
	case "setStr":
		desc = fmt.Sprintf("a.SetString(%d,%q)", i, "s"+strconv.Itoa(v))
	case "addArr":
		desc = fmt.Sprintf("a.AddNewArray()+%d ints", s.C%3)
	case "addObj":
		desc = fmt.Sprintf("a.AddNewObject()+%d keys", s.C%3)
	case "nested":
		desc = fmt.Sprintf("nested edit %d in a[%d]", s.C%4, i)
	}
	desc += " on " + m.marshal()
	*descOut = desc
	w.logf("%s %s", prefix, desc)
	w.count("op:" + op)
	switch op {
	case "addInt":
		a.AddInteger(v)
		m.arr = append(m.arr, leafInt(v))
	case "addStr":
		a.AddString("s" + strconv.Itoa(v))
		m.arr = append(m.arr, leafStr("s"+strconv.Itoa(v)))
	case "addMisc":
		switch s.C % 4 {
		case 0:
			a.AddBool(v%2 == 0)
			m.arr = append(m.arr, leafBool(v%2 == 0))
		case 1:
			a.AddNull()
			m.arr = append(m.arr, leaf("null"))
		case 2:
			a.AddDouble(float64(v) + 0.5)
			m.arr = append(m.arr, leafDbl(float64(v)+0.5))
		case 3:
			a.AddLong(int64(v) << 33)
			m.arr = append(m.arr, leafLong(int64(v)<<33))
		}
	case "insInt":
		a.InsertIntegerAfter(i, v)
		m.arr = sliceInsert(m.arr, i+1, leafInt(v))
	case "insStr":
		a.InsertStringAfter(i, "s"+strconv.Itoa(v))
		m.arr = sliceInsert(m.arr, i+1, leafStr("s"+strconv.Itoa(v)))
	case "del":
		want := m.arr[i].marshal()
		got := a.Delete(i)
		if got == nil || got.Marshal() != want {
			return kit.Failf("ARRAY-DELETE", "%s returned %s, model deletes %s", desc, marshalOrNil(got), want)
		}
		m.arr = sliceRemove(m.arr, i)
	case "delOut":
		idx := []int{-1, n, n + 1}[s.A%3]
		if got := a.Delete(idx); got != nil {
			return kit.Failf("ARRAY-DELETE", "%s returned %s instead of nil", desc, got.Marshal())
		}
	case "moveAfter":
		if i == j {
			w.count("move:onto_itself")
		}
		a.MoveAfterByIndex(i, j)
		if i != j {
			prev, target := m.arr[i], m.arr[j]
			m.arr = sliceRemove(m.arr, j)
			m.arr = sliceInsert(m.arr, indexOf(m.arr, prev)+1, target)
		}
	case "moveBefore":
		if i == j {
			w.count("move:onto_itself")
		}
		a.MoveBefore(a.Get(i).CreatedAt(), a.Get(j).CreatedAt())
		if i != j {
			next, target := m.arr[i], m.arr[j]
			m.arr = sliceRemove(m.arr, j)
			m.arr = sliceInsert(m.arr, indexOf(m.arr, next), target)
		}
	case "moveFront":
		a.MoveFront(a.Get(j).CreatedAt())
		target := m.arr[j]
		m.arr = sliceRemove(m.arr, j)
		m.arr = sliceInsert(m.arr, 0, target)
	case "moveLast":
		a.MoveLast(a.Get(j).CreatedAt())
		target := m.arr[j]
		m.arr = sliceRemove(m.arr, j)
		m.arr = append(m.arr, target)
	case "setInt":
		a.SetInteger(i, v)
		m.arr[i] = leafInt(v)
	case "setStr":
		a.SetString(i, "s"+strconv.Itoa(v))
		m.arr[i] = leafStr("s" + strconv.Itoa(v))
	case "addArr":
		na := a.AddNewArray()
		mv := newArr()
		for k := 0; k < s.C%3; k++ {
			na.AddInteger(v + k)
			mv.arr = append(mv.arr, leafInt(v+k))
		}
		m.arr = append(m.arr, mv)
	case "addObj":
		no := a.AddNewObject()
		mv := newObj()
		for k := 0; k < s.C%3; k++ {
			key := objKeys[(s.B+k)%len(objKeys)]
			no.SetInteger(key, v+k)
			mv.obj[key] = leafInt(v + k)
		}
		m.arr = append(m.arr, mv)
	case "nested":
		mv := m.arr[i]
		if mv.kind == 'a' {
			na := a.GetArray(i)
			nn := len(mv.arr)
			switch {
			case s.C%4 == 0 || nn == 0:
				na.AddInteger(v)
				mv.arr = append(mv.arr, leafInt(v))
			case s.C%4 == 1:
				na.Delete(s.B % nn)
				mv.arr = sliceRemove(mv.arr, s.B%nn)
			case s.C%4 == 2:
				na.InsertIntegerAfter(s.B%nn, v)
				mv.arr = sliceInsert(mv.arr, s.B%nn+1, leafInt(v))
			default:
				t := mv.arr[s.B%nn]
				na.MoveFront(na.Get(s.B % nn).CreatedAt())
				mv.arr = sliceInsert(sliceRemove(mv.arr, s.B%nn), 0, t)
			}
		} else {
			no := a.GetObject(i)
			key := objKeys[s.B%len(objKeys)]
			if s.C%2 == 0 {
				no.SetInteger(key, v)
				mv.obj[key] = leafInt(v)
			} else {
				no.Delete(key)
				delete(mv.obj, key)
			}
		}
	}
	return nil
}

func checkArrayProxy(a *yjson.Array, m *val) *kit.Failure {
	if a.Len() != len(m.arr) {
		return kit.Failf("ARRAY-LEN", "clone: Len()=%d, model length %d (%s)", a.Len(), len(m.arr), m.marshal())
	}
	if a.Get(-1) != nil || a.Get(len(m.arr)) != nil {
		return kit.Failf("ARRAY-GET", "clone: Get(-1) or Get(%d) is not nil", len(m.arr))
	}
	for i := range m.arr {
		if e := a.Get(i); e == nil || e.Marshal() != m.arr[i].marshal() {
			return kit.Failf("ARRAY-GET", "clone: Get(%d)=%s, model %s (array %s, Marshal() %s)", i, marshalOrNil(e), m.arr[i].marshal(), m.marshal(), a.Marshal())
		}
	}
	return checkElem("clone:a", a.Array, m)
}

func evalArray(c Case, trace bool) verdict {
	v, _ := evalArrayModels(c, trace)
	return v
}

// evalArrayModels is evalArray that also returns the final models (nil after a
// failure or a discarded case).
func evalArrayModels(c Case, trace bool) (verdict, *[2]*val) {
	setAllowed(c)
	w, err := newWorld(trace, func(r *yjson.Object) { r.SetNewArray("a") })
	if err != nil {
		return historyVerdict(w, err), nil
	}
	var models [2]*val
	reinit := func(r int) *kit.Failure {
		a := rootArray(w, r)
		if a == nil {
			return kit.Failf("HARNESS", "HARNESS-ERROR array missing on r%d", r)
		}
		models[r] = valOf(a)
		return nil
	}
	for r := 0; r < 2; r++ {
		if f := reinit(r); f != nil {
			return w.finish(f, false), nil
		}
	}
	nonTrivial := false
	for si, s := range c.Steps {
		r := s.R % 2
		switch {
		case s.Op == "sync":
			if e := w.sync(r, s.A%4 == 0); e != nil {
				return historyVerdict(w, e), nil
			}
			_ = reinit(r)
			continue
		case s.Op == "syncall":
			for _, q := range []int{0, 1, 0, 1} {
				if e := w.sync(q, false); e != nil {
					return historyVerdict(w, e), nil
				}
			}
			_, _ = reinit(0), reinit(1)
			continue
		case s.Op == "snap":
			if e := w.snapshot(r); e != nil {
				return historyVerdict(w, e), nil
			}
			_ = reinit(r)
			continue
		case isArrayEdit(s.Op):
		default:
			return w.finish(kit.Failf("HARNESS", "HARNESS-ERROR unknown array op %q", s.Op), false), nil
		}
		m := models[r]
		dead, tombs := arrayShape(rootArray(w, r))
		if dead > 0 || tombs > 0 {
			nonTrivial = true
			w.count("call:nontrivial")
		}
		if dead > 0 {
			w.count("call:dead_slots_present")
		}
		if tombs > 0 {
			w.count("call:tombstones_present")
		}
		w.stateClasses(r)
		desc := s.Op
		fail := w.update(r, &desc, func(root *yjson.Object) *kit.Failure {
			a := root.GetArray("a")
			if a == nil {
				return kit.Failf("HARNESS", "HARNESS-ERROR array missing in clone of r%d", r)
			}
			f := applyArrayOp(w, a, m, s, &desc, fmt.Sprintf("step %d r%d", si, r))
			if f == nil {
				f = checkArrayProxy(a, m)
			}
			return f
		})
		if fail == nil {
			fail = checkElem("root:a", rootArray(w, r), m)
		}
		if fail != nil {
			fail.Msg = fmt.Sprintf("after step %d r%d %s: %s", si, r, desc, fail.Msg)
			w.logf("FAIL %s", fail.Error())
			return w.finish(fail, false), nil
		}
	}
	return w.finish(nil, nonTrivial), &models
}

func genArray() *rapid.Generator[Case] {
	ops := []string{"addInt", "addInt", "addStr", "addMisc", "insInt", "insInt", "insStr", "del", "del", "delOut",
		"moveAfter", "moveAfter", "moveBefore", "moveBefore", "moveFront", "moveLast", "setInt", "setInt", "setStr",
		"addArr", "addObj", "nested", "nested", "sync", "sync", "sync", "sync", "syncall", "snap", "snap"}
	steps := genSteps(kit.Pick(30, 48), ops, 12, 12, 11, 99)
	return rapid.Custom(func(t *rapid.T) Case { return Case{Steps: steps.Draw(t, "steps")} })
}

func TestC07Array(t *testing.T) {
	runRapid(t, "array", "array", genArray(), evalArray)
}
