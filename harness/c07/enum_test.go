package c07

import "testing"

// ---------------------------------------------------------------------------
// small-scope exhaustive parts (thorough tier)
//
// Every enumerated case is an ordinary Case: a fixed prefix that leaves
// tombstones / split nodes / dead slots on replica 0, followed by one
// enumerated program that runs on replica 0. The programs of length < N are
// the prefixes of the programs of length N (every call is checked), so only
// maximal programs are enumerated. Shard k evaluates the cases whose ordinal
// is k modulo the shard count.
// ---------------------------------------------------------------------------

// textPrefixes: pristine; "ac" with a remote tombstone and split nodes, not
// collected; the same after a snapshot round trip; concurrent inserts, style,
// delete, everything garbage-collected.
var textPrefixes = [][]Step{
	{},
	{{Op: "edit", R: 1, C: 5}, {Op: "sync", R: 1, A: 1}, {Op: "sync", R: 0, A: 1},
		{Op: "edit", R: 1, A: 1, B: 1, C: 0}, {Op: "sync", R: 1, A: 1}, {Op: "sync", R: 0, A: 0}},
	{{Op: "edit", R: 1, C: 5}, {Op: "sync", R: 1, A: 1}, {Op: "sync", R: 0, A: 1},
		{Op: "edit", R: 1, A: 1, B: 1, C: 0}, {Op: "sync", R: 1, A: 1}, {Op: "snap", R: 0}},
	{{Op: "edit", R: 0, C: 2}, {Op: "edit", R: 1, C: 1}, {Op: "syncall"}, {Op: "style", R: 1, A: 1, B: 2},
		{Op: "edit", R: 0, A: 0, B: 1, C: 0}, {Op: "syncall"}, {Op: "sync", R: 0, A: 1}},
}

func enumText(visit func(c Case) bool) {
	depth := 3
	for _, prefix := range textPrefixes {
		v, models := evalTextModels(Case{Steps: prefix}, false)
		if v.Fail != nil || models == nil {
			// the prefix itself fails or is unusable: let the driver see it
			if !visit(Case{Steps: prefix}) {
				return
			}
			continue
		}
		start := len(models[0].units)
		var rec func(steps []Step, n, d int) bool
		rec = func(steps []Step, n, d int) bool {
			if d == depth {
				c := Case{Steps: append(append([]Step{}, prefix...), steps...)}
				return visit(c)
			}
			for from := 0; from <= n; from++ {
				for to := from; to <= n; to++ {
					for k := 0; k < 5; k++ { // "", a, b, c, style
						st := Step{Op: "e3", A: from, B: to - from, C: k}
						nn := n - (to - from)
						if k > 0 && k < 4 {
							nn++
						}
						if k == 4 {
							st, nn = Step{Op: "s3", A: from, B: to - from}, n
						}
						if !rec(append(steps, st), nn, d+1) {
							return false
						}
					}
				}
			}
			return true
		}
		if !rec(nil, start, 0) {
			return
		}
	}
}

func TestC07TextEnum(t *testing.T) {
	runEnum(t, "text-enum", "text", evalText, enumText)
}

// arrayPrefixes: pristine; [3,1] with a remote tombstone and a dead slot, not
// collected; the same after a snapshot round trip; concurrent adds and a move,
// everything garbage-collected.
var arrayPrefixes = [][]Step{
	{},
	{{Op: "addInt", R: 1, D: 1}, {Op: "addInt", R: 1, D: 2}, {Op: "addInt", R: 1, D: 3}, {Op: "sync", R: 1, A: 1}, {Op: "sync", R: 0, A: 1},
		{Op: "del", R: 1, A: 1}, {Op: "moveFront", R: 1, B: 1}, {Op: "sync", R: 1, A: 1}, {Op: "sync", R: 0, A: 0}},
	{{Op: "addInt", R: 1, D: 1}, {Op: "addInt", R: 1, D: 2}, {Op: "addInt", R: 1, D: 3}, {Op: "sync", R: 1, A: 1}, {Op: "sync", R: 0, A: 1},
		{Op: "del", R: 1, A: 1}, {Op: "moveFront", R: 1, B: 1}, {Op: "sync", R: 1, A: 1}, {Op: "snap", R: 0}},
	{{Op: "addInt", R: 0, D: 1}, {Op: "addInt", R: 0, D: 2}, {Op: "addInt", R: 1, D: 3}, {Op: "syncall"},
		{Op: "moveAfter", R: 0, A: 2, B: 0}, {Op: "del", R: 1, A: 1}, {Op: "syncall"}, {Op: "sync", R: 0, A: 1}},
}

func enumArray(visit func(c Case) bool) {
	depth, maxLen := 4, 3
	for _, prefix := range arrayPrefixes {
		v, models := evalArrayModels(Case{Steps: prefix}, false)
		if v.Fail != nil || models == nil {
			if !visit(Case{Steps: prefix}) {
				return
			}
			continue
		}
		start := len(models[0].arr)
		var rec func(steps []Step, n, d int) bool
		rec = func(steps []Step, n, d int) bool {
			if d == depth {
				return visit(Case{Steps: append(append([]Step{}, prefix...), steps...)})
			}
			val := 10*(d+1) + 1 // distinct values make order mistakes visible
			var opts []Step
			var lens []int
			add := func(s Step, nn int) { opts, lens = append(opts, s), append(lens, nn) }
			if n < maxLen {
				add(Step{Op: "addInt", D: val}, n+1)
				for i := 0; i < n; i++ {
					add(Step{Op: "insInt", A: i, D: val}, n+1)
				}
			}
			for i := 0; i < n; i++ {
				add(Step{Op: "del", A: i}, n-1)
				add(Step{Op: "setInt", A: i, D: val}, n)
				add(Step{Op: "moveFront", B: i}, n)
				add(Step{Op: "moveLast", B: i}, n)
				for j := 0; j < n; j++ {
					add(Step{Op: "moveAfter", A: i, B: j}, n)
					add(Step{Op: "moveBefore", A: i, B: j}, n)
				}
			}
			if len(opts) == 0 {
				return visit(Case{Steps: append(append([]Step{}, prefix...), steps...)})
			}
			for k, st := range opts {
				if !rec(append(steps[:len(steps):len(steps)], st), lens[k], d+1) {
					return false
				}
			}
			return true
		}
		if !rec(nil, start, 0) {
			return
		}
	}
}

func TestC07ArrayEnum(t *testing.T) {
	runEnum(t, "array-enum", "array", evalArray, enumArray)
}
