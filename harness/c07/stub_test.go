package c07

func evalTree(c Case, trace bool) verdict   { return verdict{} }
