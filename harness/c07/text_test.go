package c07

import (
	"encoding/json"
	"fmt"
	"sort"
	"strings"
	"testing"
	"unicode/utf16"

	"pgregory.net/rapid"

	"github.com/yorkie-team/yorkie/pkg/document/crdt"
	yjson "github.com/yorkie-team/yorkie/pkg/document/json"

	"verifharness/kit"
)

// ---------------------------------------------------------------------------
// (a) json.Text against a []uint16 + attribute-map-per-unit model
// ---------------------------------------------------------------------------

// unit is one UTF-16 code unit with the style attributes it carries. The attrs
// map is never mutated after creation (copy on write).
type unit struct {
	u     uint16
	attrs map[string]string
}

type textModel struct{ units []unit }

// textContents are the inserted contents: empty, ASCII, Hangul (BMP, 3 bytes in
// UTF-8), a surrogate pair (2 units), mixed.
var textContents = []string{"", "x", "yz", "한", "😀", "abc", "가😀b", "한글"}

var textAttrs = []map[string]string{nil, nil, {"b": "1"}, {"i": "2"}, {"b": "2", "i": "1"}}

func u16(s string) []uint16 { return utf16.Encode([]rune(s)) }

func isHigh(u uint16) bool { return u >= 0xD800 && u <= 0xDBFF }
func isLow(u uint16) bool  { return u >= 0xDC00 && u <= 0xDFFF }

// insidePair reports whether index i lies between the two halves of a
// surrogate pair of the model.
func (m *textModel) insidePair(i int) bool {
	return i > 0 && i < len(m.units) && isHigh(m.units[i-1].u) && isLow(m.units[i].u)
}

func (m *textModel) str() string {
	us := make([]uint16, len(m.units))
	for i, x := range m.units {
		us[i] = x.u
	}
	return string(utf16.Decode(us))
}

func attrsString(a map[string]string) string {
	if len(a) == 0 {
		return ""
	}
	keys := make([]string, 0, len(a))
	for k := range a {
		keys = append(keys, k)
	}
	sort.Strings(keys)
	var sb strings.Builder
	for _, k := range keys {
		sb.WriteString(k + "=" + a[k] + ";")
	}
	return sb.String()
}

func unitsString(us []unit) string {
	var sb strings.Builder
	for i, x := range us {
		if i > 0 {
			sb.WriteString(" ")
		}
		fmt.Fprintf(&sb, "%04x", x.u)
		if s := attrsString(x.attrs); s != "" {
			sb.WriteString("{" + s + "}")
		}
	}
	return sb.String()
}

func (m *textModel) edit(from, to int, content string, attrs map[string]string) {
	ins := u16(content)
	out := make([]unit, 0, len(m.units)-(to-from)+len(ins))
	out = append(out, m.units[:from]...)
	var a map[string]string
	if len(attrs) > 0 {
		a = map[string]string{}
		for k, v := range attrs {
			a[k] = v
		}
	}
	for _, u := range ins {
		out = append(out, unit{u, a})
	}
	out = append(out, m.units[to:]...)
	m.units = out
}

func (m *textModel) style(from, to int, attrs map[string]string) {
	for i := from; i < to; i++ {
		a := map[string]string{}
		for k, v := range m.units[i].attrs {
			a[k] = v
		}
		for k, v := range attrs {
			a[k] = v
		}
		m.units[i].attrs = a
	}
}

// flattenText reads the visible content of a text through Text.Marshal(): the
// JSON list of {attrs, val} chunks is flattened to one entry per UTF-16 unit
// (chunking is an implementation detail).
func flattenText(t *crdt.Text) ([]unit, error) {
	var chunks []struct {
		Attrs map[string]string `json:"attrs"`
		Val   string            `json:"val"`
	}
	raw := t.Marshal()
	if err := json.Unmarshal([]byte(raw), &chunks); err != nil {
		return nil, fmt.Errorf("Text.Marshal() is not JSON: %v: %s", err, raw)
	}
	var out []unit
	for _, c := range chunks {
		for _, u := range u16(c.Val) {
			out = append(out, unit{u, c.Attrs})
		}
	}
	return out, nil
}

// textShape reports tombstones and split nodes inside the structure.
func textShape(t *crdt.Text) (tombstones, splits, nodes int) {
	for _, n := range t.Nodes() {
		nodes++
		if n.RemovedAt() != nil {
			tombstones++
		}
		if n.ID().Offset() > 0 {
			splits++
		}
	}
	return
}

// checkText compares one view (clone or root) of the text with the model.
func checkText(view string, t *crdt.Text, m *textModel) *kit.Failure {
	want := m.str()
	if got := t.String(); got != want {
		return kit.Failf("TEXT-STRING", "%s: String()=%q, model %q", view, got, want)
	}
	flat, err := flattenText(t)
	if err != nil {
		return kit.Failf("TEXT-MARSHAL", "%s: %v", view, err)
	}
	if len(flat) != len(m.units) {
		return kit.Failf("TEXT-UNITS", "%s: Marshal() holds %d UTF-16 units, model %d\n got   %s\n model %s",
			view, len(flat), len(m.units), unitsString(flat), unitsString(m.units))
	}
	for i := range flat {
		if flat[i].u != m.units[i].u || attrsString(flat[i].attrs) != attrsString(m.units[i].attrs) {
			return kit.Failf("TEXT-UNITS", "%s: unit %d differs\n got   %s\n model %s", view, i, unitsString(flat), unitsString(m.units))
		}
	}
	if n := t.TreeByIndex().Len(); n != len(m.units) {
		return kit.Failf("TEXT-LEN", "%s: index tree length %d, model length %d (%q)", view, n, len(m.units), want)
	}
	// index -> position: the position CreateRange(i, i) returns must denote
	// visible offset i when it is resolved against the node list (live lengths
	// of the nodes before it + relative offset), and NormalizePos must agree.
	type span struct{ start, live int }
	spans := map[string]span{}
	cum := 0
	for _, n := range t.Nodes() {
		spans[n.ID().ToTestString()] = span{cum, n.Len()}
		cum += n.Len()
	}
	if cum != len(m.units) {
		return kit.Failf("TEXT-LEN", "%s: live node lengths sum to %d, model length %d", view, cum, len(m.units))
	}
	for i := 0; i <= len(m.units); i++ {
		pos, _, err := t.CreateRange(i, i)
		if err != nil {
			return kit.Failf("TEXT-INDEX", "%s: CreateRange(%d,%d) on length %d: %v", view, i, i, len(m.units), err)
		}
		abs := -1
		if pos.ID().CreatedAt().Lamport() == 0 && pos.ID().Offset() == 0 {
			abs = pos.RelativeOffset() // initial head (not in Nodes())
		} else if sp, ok := spans[pos.ID().ToTestString()]; ok && pos.RelativeOffset() <= sp.live {
			abs = sp.start + pos.RelativeOffset()
		}
		if abs != i {
			return kit.Failf("TEXT-INDEX", "%s: CreateRange(%d,%d) = %s which denotes visible offset %d (text %q, nodes %s)",
				view, i, i, pos.ToTestString(), abs, want, t.ToTestString())
		}
		norm, err := t.NormalizePos(pos)
		if err != nil {
			return kit.Failf("TEXT-INDEX", "%s: NormalizePos(%s): %v", view, pos.ToTestString(), err)
		}
		if norm.RelativeOffset() != i {
			return kit.Failf("TEXT-INDEX", "%s: NormalizePos(CreateRange(%d)) = offset %d (text %q, nodes %s)",
				view, i, norm.RelativeOffset(), want, t.ToTestString())
		}
	}
	if _, _, err := t.CreateRange(len(m.units)+1, len(m.units)+1); err == nil {
		return kit.Failf("TEXT-INDEX", "%s: CreateRange(%d) beyond length %d succeeded", view, len(m.units)+1, len(m.units))
	}
	return nil
}

func rootText(w *world, r int) *crdt.Text {
	t, _ := w.docs[r].InternalDocument().RootObject().Get("t").(*crdt.Text)
	return t
}

func evalText(c Case, trace bool) verdict {
	v, _ := evalTextModels(c, trace)
	return v
}

// evalTextModels is evalText that also returns the final models (nil after a
// failure or a discarded case).
func evalTextModels(c Case, trace bool) (verdict, *[2]*textModel) {
	setAllowed(c)
	w, err := newWorld(trace, func(r *yjson.Object) { r.SetNewText("t") })
	if err != nil {
		return historyVerdict(w, err), nil
	}
	var models [2]*textModel
	reinit := func(r int) *kit.Failure {
		t := rootText(w, r)
		if t == nil {
			return kit.Failf("HARNESS", "HARNESS-ERROR text missing on r%d", r)
		}
		flat, ferr := flattenText(t)
		if ferr != nil {
			return kit.Failf("TEXT-MARSHAL", "r%d: %v", r, ferr)
		}
		models[r] = &textModel{units: flat}
		return nil
	}
	for r := 0; r < 2; r++ {
		if f := reinit(r); f != nil {
			return w.finish(f, false), nil
		}
	}
	nonTrivial := false
	for si, s := range c.Steps {
		r := s.R % 2
		switch s.Op {
		case "sync":
			if e := w.sync(r, s.A%4 == 0); e != nil {
				return historyVerdict(w, e), nil
			}
			if f := reinit(r); f != nil {
				return w.finish(f, false), nil
			}
			continue
		case "syncall":
			for _, q := range []int{0, 1, 0, 1} {
				if e := w.sync(q, false); e != nil {
					return historyVerdict(w, e), nil
				}
			}
			for q := 0; q < 2; q++ {
				if f := reinit(q); f != nil {
					return w.finish(f, false), nil
				}
			}
			continue
		case "snap":
			if e := w.snapshot(r); e != nil {
				return historyVerdict(w, e), nil
			}
			if f := reinit(r); f != nil {
				return w.finish(f, false), nil
			}
			continue
		case "edit", "style", "e3", "s3":
		default:
			return w.finish(kit.Failf("HARNESS", "HARNESS-ERROR unknown text op %q", s.Op), false), nil
		}
		m := models[r]
		n := len(m.units)
		from := s.A % (n + 1)
		to := from + s.B%(n-from+1)
		if excluding("F35") {
			// a boundary between the halves of a surrogate pair is moved outwards
			// (see SPEC: splitting a pair is lossy in the Go SDK)
			moved := false
			if m.insidePair(from) {
				from--
				moved = true
			}
			if m.insidePair(to) {
				to++
				moved = true
			}
			if moved {
				w.count("excluded:F35")
			}
		} else if m.insidePair(from) || m.insidePair(to) {
			w.count("splits_surrogate_pair")
		}
		tombs, splits, _ := textShape(rootText(w, r))
		if tombs > 0 || splits > 0 {
			nonTrivial = true
			w.count("call:nontrivial")
		}
		if tombs > 0 {
			w.count("call:tombstones_present")
		}
		if splits > 0 {
			w.count("call:split_nodes_present")
		}
		w.stateClasses(r)
		var desc string
		var content string
		var attrs map[string]string
		if s.Op == "e3" { // small-scope alphabet: "", a, b, c without attributes
			s.Op, content = "edit", []string{"", "a", "b", "c"}[s.C%4]
			desc = fmt.Sprintf("t.Edit(%d,%d,%q) on %q", from, to, content, m.str())
			w.count("enum:edit")
		} else if s.Op == "s3" {
			s.Op, attrs = "style", map[string]string{"b": "1"}
			desc = fmt.Sprintf("t.Style(%d,%d,%v) on %q", from, to, attrs, m.str())
			w.count("enum:style")
		} else if s.Op == "edit" {
			content = textContents[s.C%len(textContents)]
			attrs = textAttrs[s.D%len(textAttrs)]
			desc = fmt.Sprintf("t.Edit(%d,%d,%q,%v) on %q", from, to, content, attrs, m.str())
			switch {
			case content == "" && from == to:
				w.count("edit:noop")
			case content == "":
				w.count("edit:delete")
			case from == to:
				w.count("edit:insert")
			default:
				w.count("edit:replace")
			}
			if strings.ContainsRune(content, '😀') {
				w.count("edit:surrogate_content")
			}
			if strings.ContainsAny(content, "한글가") {
				w.count("edit:hangul_content")
			}
			if attrs != nil && content != "" {
				w.count("edit:with_attrs")
			}
		} else {
			attrs = textAttrs[2+s.C%(len(textAttrs)-2)]
			desc = fmt.Sprintf("t.Style(%d,%d,%v) on %q", from, to, attrs, m.str())
			if from == to {
				w.count("style:empty_range")
			} else {
				w.count("style:range")
			}
		}
		w.logf("step %d r%d %s", si, r, desc)
		fail := w.update(r, &desc, func(root *yjson.Object) *kit.Failure {
			t := root.GetText("t")
			if t == nil {
				return kit.Failf("HARNESS", "HARNESS-ERROR text missing in clone of r%d", r)
			}
			if s.Op == "edit" {
				if attrs != nil {
					t.Edit(from, to, content, attrs)
				} else {
					t.Edit(from, to, content)
				}
				m.edit(from, to, content, attrs)
			} else {
				t.Style(from, to, attrs)
				m.style(from, to, attrs)
			}
			if f := checkText("clone", t.Text, m); f != nil {
				f.Msg = fmt.Sprintf("after step %d r%d %s: %s", si, r, desc, f.Msg)
				return f
			}
			return nil
		})
		if fail == nil {
			if f := checkText("root", rootText(w, r), m); f != nil {
				f.Msg = fmt.Sprintf("after step %d r%d %s: %s", si, r, desc, f.Msg)
				fail = f
			}
		}
		if fail != nil {
			w.logf("FAIL %s", fail.Error())
			return w.finish(fail, false), nil
		}
	}
	return w.finish(nil, nonTrivial), &models
}

// genSteps draws a program as three concatenated slices (rapid's slice length
// is geometric with a small mean; three segments give a mean of ~15 steps while
// every segment still shrinks to nothing).
func genSteps(maxSteps int, ops []string, maxA, maxB, maxC, maxD int) *rapid.Generator[[]Step] {
	step := rapid.Custom(func(t *rapid.T) Step {
		return Step{
			Op: rapid.SampledFrom(ops).Draw(t, "op"),
			R:  rapid.IntRange(0, 1).Draw(t, "r"),
			A:  rapid.IntRange(0, maxA).Draw(t, "a"),
			B:  rapid.IntRange(0, maxB).Draw(t, "b"),
			C:  rapid.IntRange(0, maxC).Draw(t, "c"),
			D:  rapid.IntRange(0, maxD).Draw(t, "d"),
		}
	})
	seg := rapid.SliceOfN(step, 0, maxSteps/3)
	return rapid.Custom(func(t *rapid.T) []Step {
		out := append([]Step{}, seg.Draw(t, "s1")...)
		out = append(out, seg.Draw(t, "s2")...)
		return append(out, seg.Draw(t, "s3")...)
	})
}

func genText() *rapid.Generator[Case] {
	ops := []string{"edit", "edit", "edit", "edit", "edit", "edit", "edit", "style", "style", "sync", "sync", "sync", "syncall", "snap"}
	steps := genSteps(kit.Pick(30, 48), ops, 40, 5, len(textContents)-1, len(textAttrs)-1)
	return rapid.Custom(func(t *rapid.T) Case { return Case{Steps: steps.Draw(t, "steps")} })
}

func TestC07Text(t *testing.T) {
	runRapid(t, "text", "text", genText(), evalText)
}
