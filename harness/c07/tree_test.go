package c07

import (
	"fmt"
	"sort"
	"strings"
	"testing"
	"unicode/utf16"

	"pgregory.net/rapid"

	"github.com/yorkie-team/yorkie/pkg/document/crdt"
	yjson "github.com/yorkie-team/yorkie/pkg/document/json"

	"verifharness/kit"
)

// ---------------------------------------------------------------------------
// (d) json.Tree
//
// Mode 0 ("structured"): a structure-preserving alphabet (text edits inside one
// <p>, whole-<p> insert/delete, paragraph split (splitLevel 1) and merge
// (delete across paragraph boundaries), Style/RemoveStyle on whole elements)
// against a list-of-paragraphs model compared by ToXML().
// Mode 1 ("free"): arbitrary Edit(from,to,content,splitLevel) with any
// 0<=from<=to<=Len, checked by model-free invariants.
// Both modes check after every call, on the clone and on the root:
//   Len() == number of tokens of ToXML() (root tags excluded),
//   for every index i in 0..Len: FindPos(i) -> ToTreeNodes -> ToIndex == i,
//   ToPath -> PathToIndex == i and PathToPos(path) == FindPos(i) (only while no
//   element mixes text and element children: TreePosToPath documents that it
//   does not handle mixed children), FindPos(Len+1) fails,
//   and ToXML(clone) == ToXML(root).
// ---------------------------------------------------------------------------

type para struct {
	text  []uint16
	attrs map[string]string
}

type treeModel struct{ ps []*para }

func (m *treeModel) xml() string {
	var sb strings.Builder
	sb.WriteString("<doc>")
	for _, p := range m.ps {
		sb.WriteString("<p")
		keys := make([]string, 0, len(p.attrs))
		for k := range p.attrs {
			keys = append(keys, k)
		}
		sort.Strings(keys)
		for _, k := range keys {
			fmt.Fprintf(&sb, ` %s="%s"`, k, p.attrs[k])
		}
		sb.WriteString(">")
		sb.WriteString(string(utf16.Decode(p.text)))
		sb.WriteString("</p>")
	}
	sb.WriteString("</doc>")
	return sb.String()
}

func (m *treeModel) size() int {
	n := 0
	for _, p := range m.ps {
		n += len(p.text) + 2
	}
	return n
}

// before returns the index right before <p_i> (i may equal len(ps)).
func (m *treeModel) before(i int) int {
	n := 0
	for _, p := range m.ps[:i] {
		n += len(p.text) + 2
	}
	return n
}

func copyAttrs(a map[string]string) map[string]string {
	out := map[string]string{}
	for k, v := range a {
		out[k] = v
	}
	return out
}

// modelOfTree reads the visible tree as a list of paragraphs; ok=false when the
// tree is not of the shape doc > p* > text*.
func modelOfTree(t *crdt.Tree) (*treeModel, bool) {
	root := t.Root()
	if root.Type() != "doc" {
		return nil, false
	}
	m := &treeModel{}
	for _, c := range root.Children() {
		if c.IsText() || c.Type() != "p" {
			return nil, false
		}
		p := &para{attrs: map[string]string{}}
		if c.Attrs != nil {
			p.attrs = c.Attrs.Elements()
		}
		for _, tc := range c.Children() {
			if !tc.IsText() {
				return nil, false
			}
			p.text = append(p.text, u16(tc.Value)...)
		}
		m.ps = append(m.ps, p)
	}
	return m, true
}

// xmlTokens counts the tokens of an XML string produced by ToXML: one per open
// tag, one per close tag, one per UTF-16 unit of text.
func xmlTokens(x string) (tokens int, err error) {
	i := 0
	for i < len(x) {
		if x[i] == '<' {
			j := strings.IndexByte(x[i:], '>')
			if j < 0 {
				return 0, fmt.Errorf("unterminated tag in %q", x)
			}
			tokens++
			i += j + 1
			continue
		}
		j := strings.IndexByte(x[i:], '<')
		if j < 0 {
			j = len(x) - i
		}
		tokens += len(u16(x[i : i+j]))
		i += j
	}
	return tokens, nil
}

func hasMixedChildren(n *crdt.TreeNode) bool {
	if n.IsText() {
		return false
	}
	text, elem := false, false
	for _, c := range n.Children() {
		if c.IsText() {
			text = true
		} else {
			elem = true
			if hasMixedChildren(c) {
				return true
			}
		}
	}
	return text && elem
}

// treeShape counts tombstoned nodes and split text nodes inside the tree.
func treeShape(t *crdt.Tree) (tombs, splits int) {
	for _, n := range t.Nodes() {
		_ = n
	}
	var walk func(n *crdt.TreeNode)
	walk = func(n *crdt.TreeNode) {
		if n.IsRemoved() {
			tombs++
		}
		if n.ID().Offset > 0 || n.InsPrevID != nil {
			splits++
		}
		if !n.IsText() {
			for _, c := range n.Children(true) {
				walk(c)
			}
		}
	}
	walk(t.Root())
	return
}

func pathString(p []int) string { return fmt.Sprint(p) }

// checkTreeInvariants runs the model-free checks on one view of the tree.
func checkTreeInvariants(view string, t *crdt.Tree, excluded *int) *kit.Failure {
	xml := t.ToXML()
	tokens, err := xmlTokens(xml)
	if err != nil {
		return kit.Failf("TREE-XML", "%s: %v", view, err)
	}
	n := t.Root().Len()
	if n != tokens-2 {
		return kit.Failf("TREE-LEN", "%s: Len()=%d but ToXML() has %d tokens inside the root: %s", view, n, tokens-2, xml)
	}
	mixed := hasMixedChildren(t.Root())
	toks := xmlTokenize(xml)
	inner := toks[1 : len(toks)-1]
	for i := 0; i <= n; i++ {
		if mixed && excluding("F37") && mixedBoundary(inner, i) {
			continue // F37, see applyFree
		}
		pos, err := t.FindPos(i)
		if err != nil {
			return kit.Failf("TREE-INDEX", "%s: FindPos(%d) of %d: %v (%s)", view, i, n, err, xml)
		}
		parent, left := t.ToTreeNodes(pos)
		if parent == nil || left == nil {
			return kit.Failf("TREE-INDEX", "%s: ToTreeNodes(FindPos(%d)) found no nodes (%s)", view, i, xml)
		}
		idx, err := t.ToIndex(parent, left)
		if err != nil {
			return kit.Failf("TREE-INDEX", "%s: ToIndex(FindPos(%d)): %v (%s)", view, i, err, xml)
		}
		// ToTreeNodes documents that for a position in the middle of a text node
		// the left sibling is the node that contains the position, and ToIndex
		// denotes the end of that node: the remaining units are subtracted.
		rest := 0
		if left != parent && left.IsText() {
			rest = left.Len() - (pos.LeftSiblingID.Offset - left.ID().Offset)
			if rest < 0 || rest > left.Len() {
				return kit.Failf("TREE-INDEX", "%s: FindPos(%d) names offset %d of a text node of length %d at offset %d (%s)",
					view, i, pos.LeftSiblingID.Offset, left.Len(), left.ID().Offset, xml)
			}
		}
		if idx-rest != i {
			return kit.Failf("TREE-INDEX", "%s: FindPos(%d) resolves to index %d (%s)", view, i, idx-rest, xml)
		}
		if mixed {
			continue
		}
		if left != parent && left.IsText() && excluding("F36") {
			// F36: TreePosToPath takes the raw child offset of a text
			// node (tombstones included) but sums over the visible children only,
			// so ToPath is wrong (or panics) when a tombstoned sibling precedes the
			// text node. Excluded by construction, reported as a finding.
			raw := left.Index.Parent.OffsetOfChild(left.Index)
			vis, _ := left.Index.Parent.FindOffset(left.Index)
			if raw != vis {
				if excluded != nil {
					*excluded++
				}
				continue
			}
		}
		path, err := t.ToPath(parent, left)
		if err != nil {
			return kit.Failf("TREE-PATH", "%s: ToPath(FindPos(%d)): %v (%s)", view, i, err, xml)
		}
		if rest > 0 {
			path[len(path)-1] -= rest
		}
		back, err := t.IndexTree.PathToIndex(path)
		if err != nil {
			return kit.Failf("TREE-PATH", "%s: PathToIndex(%s) for index %d: %v (%s)", view, pathString(path), i, err, xml)
		}
		if back != i {
			return kit.Failf("TREE-PATH", "%s: index %d -> path %s -> index %d (%s)", view, i, pathString(path), back, xml)
		}
		pos2, err := t.PathToPos(path)
		if err != nil {
			return kit.Failf("TREE-PATH", "%s: PathToPos(%s): %v (%s)", view, pathString(path), err, xml)
		}
		if !pos2.Equal(pos) {
			return kit.Failf("TREE-PATH", "%s: PathToPos(%s) differs from FindPos(%d) (%s)", view, pathString(path), i, xml)
		}
	}
	if _, err := t.FindPos(n + 1); err == nil {
		return kit.Failf("TREE-INDEX", "%s: FindPos(%d) beyond Len()=%d succeeded (%s)", view, n+1, n, xml)
	}
	return nil
}

func rootTree(w *world, r int) *crdt.Tree {
	t, _ := w.docs[r].InternalDocument().RootObject().Get("tr").(*crdt.Tree)
	return t
}

var treeTexts = []string{"X", "YZ", "한", "abc", "가b"}

var structOps = []string{"trtext", "trins", "trdel", "trstyle", "trrmstyle", "trsplit", "trmerge"}

func isTreeEdit(op string) bool {
	for _, o := range structOps {
		if o == op {
			return true
		}
	}
	return op == "fedit" || op == "fstyle"
}

func textNode(s string) *yjson.TreeNode { return &yjson.TreeNode{Type: "text", Value: s} }

// applyStructured performs one structure-preserving call on the proxy and the
// model. Every call is issued either by index or by path (s.D odd/even).
func applyStructured(w *world, t *yjson.Tree, m *treeModel, s Step, descOut *string, prefix string) {
	op := s.Op
	np := len(m.ps)
	if np == 0 && op != "trins" {
		op = "trins"
	}
	if op == "trmerge" && np < 2 {
		op = "trtext"
	}
	byPath := s.D%2 == 1
	how := "index"
	if byPath {
		how = "path"
	}
	before := m.xml()
	say := func(format string, a ...any) {
		*descOut = fmt.Sprintf(format, a...) + " by " + how + " on " + before
		w.logf("%s %s", prefix, *descOut)
		w.count("op:" + op)
		if byPath {
			w.count("addr:path")
		} else {
			w.count("addr:index")
		}
	}
	switch op {
	case "trins":
		i := s.A % (np + 1)
		c := ""
		if s.C%4 != 0 {
			c = treeTexts[s.C%len(treeTexts)]
		}
		node := &yjson.TreeNode{Type: "p"}
		p := &para{text: u16(c), attrs: map[string]string{}}
		if c != "" {
			node.Children = []yjson.TreeNode{*textNode(c)}
		}
		if s.B%3 == 0 {
			node.Attributes = map[string]string{"b": "0"}
			p.attrs["b"] = "0"
		}
		say("insert <p>%s</p> at paragraph %d", c, i)
		if byPath {
			t.EditByPath([]int{i}, []int{i}, node, 0)
		} else {
			t.Edit(m.before(i), m.before(i), node, 0)
		}
		m.ps = append(m.ps[:i:i], append([]*para{p}, m.ps[i:]...)...)
	case "trdel":
		i := s.A % np
		j := min(np, i+1+s.B%2)
		say("delete paragraphs %d..%d", i, j)
		if byPath {
			t.EditByPath([]int{i}, []int{j}, nil, 0)
		} else {
			t.Edit(m.before(i), m.before(j), nil, 0)
		}
		m.ps = append(m.ps[:i:i], m.ps[j:]...)
	case "trtext":
		i := s.A % np
		p := m.ps[i]
		from := s.B % (len(p.text) + 1)
		to := from + (s.C%4)%(len(p.text)-from+1)
		c := ""
		if (s.C/4)%3 != 0 || from == to {
			c = treeTexts[(s.C/4)%len(treeTexts)]
		}
		var node *yjson.TreeNode
		if c != "" {
			node = textNode(c)
		}
		say("text edit p%d %d..%d %q", i, from, to, c)
		if byPath {
			t.EditByPath([]int{i, from}, []int{i, to}, node, 0)
		} else {
			base := m.before(i) + 1
			t.Edit(base+from, base+to, node, 0)
		}
		nt := append([]uint16{}, p.text[:from]...)
		nt = append(nt, u16(c)...)
		p.text = append(nt, p.text[to:]...)
	case "trstyle", "trrmstyle":
		i := s.A % np
		j := min(np, i+1+s.B%3)
		key := []string{"b", "i"}[s.C%2]
		val := []string{"1", "2"}[(s.C/2)%2]
		if op == "trstyle" {
			say("style paragraphs %d..%d %s=%s", i, j, key, val)
			if byPath {
				t.StyleByPath([]int{i}, []int{j}, map[string]string{key: val})
			} else {
				t.Style(m.before(i), m.before(j), map[string]string{key: val})
			}
			for _, p := range m.ps[i:j] {
				p.attrs[key] = val
			}
		} else {
			say("remove style %s from paragraphs %d..%d", key, i, j)
			if byPath {
				t.RemoveStyleByPath([]int{i}, []int{j}, []string{key})
			} else {
				t.RemoveStyle(m.before(i), m.before(j), []string{key})
			}
			for _, p := range m.ps[i:j] {
				delete(p.attrs, key)
			}
		}
	case "trsplit":
		i := s.A % np
		p := m.ps[i]
		k := s.B % (len(p.text) + 1)
		say("split p%d at %d (splitLevel 1)", i, k)
		if byPath {
			t.EditByPath([]int{i, k}, []int{i, k}, nil, 1)
		} else {
			at := m.before(i) + 1 + k
			t.Edit(at, at, nil, 1)
		}
		right := &para{text: append([]uint16{}, p.text[k:]...), attrs: copyAttrs(p.attrs)}
		p.text = append([]uint16{}, p.text[:k]...)
		m.ps = append(m.ps[:i+1:i+1], append([]*para{right}, m.ps[i+1:]...)...)
	case "trmerge":
		i := s.A % (np - 1)
		j := min(np-1, i+1+s.C%2)
		pi, pj := m.ps[i], m.ps[j]
		a := s.B % (len(pi.text) + 1)
		b := (s.B / 7) % (len(pj.text) + 1)
		say("delete from p%d offset %d to p%d offset %d (merge)", i, a, j, b)
		// path based edits need paths of equal length: [i,a] .. [j,b]
		if byPath {
			t.EditByPath([]int{i, a}, []int{j, b}, nil, 0)
		} else {
			t.Edit(m.before(i)+1+a, m.before(j)+1+b, nil, 0)
		}
		nt := append([]uint16{}, pi.text[:a]...)
		pi.text = append(nt, pj.text[b:]...)
		m.ps = append(m.ps[:i+1:i+1], m.ps[j+1:]...)
	}
}

// tok is one token of a ToXML() string.
type tok struct {
	kind       byte // 'o' open tag, 'c' close tag, 't' one UTF-16 unit of text
	start, end int  // byte range (a surrogate pair's two units share the range of the rune)
}

// xmlTokenize splits a ToXML() string into tokens, the root's tags included.
func xmlTokenize(x string) []tok {
	var out []tok
	i := 0
	for i < len(x) {
		if x[i] == '<' {
			j := i + strings.IndexByte(x[i:], '>') + 1
			k := byte('o')
			if x[i+1] == '/' {
				k = 'c'
			}
			out = append(out, tok{k, i, j})
			i = j
			continue
		}
		for _, r := range x[i:] {
			if r == '<' {
				break
			}
			w := len(string(r))
			for range u16(string(r)) {
				out = append(out, tok{'t', i, i + w})
			}
			i += w
		}
	}
	return out
}

// mixedBoundary reports whether index i (a boundary between the inner tokens)
// lies right after a close tag and right before a text unit: FindPos resolves
// such an index to the far side of the preceding text (F37).
func mixedBoundary(inner []tok, i int) bool {
	return i > 0 && i < len(inner) && inner[i-1].kind == 'c' && inner[i].kind == 't'
}

func balanced(inner []tok, from, to int) bool {
	depth := 0
	for _, t := range inner[from:to] {
		switch t.kind {
		case 'o':
			depth++
		case 'c':
			depth--
			if depth < 0 {
				return false
			}
		}
	}
	return depth == 0
}

// mergePropagateRisk reports whether deleting [from,to) would hit finding
// F39: the range fully contains a live element A that physically
// holds the tombstone X of an earlier merge source, while a live node that the
// merge moved out of X (MergedFrom == X) lives outside A. Tree.Edit then also
// tombstones that moved node (propagateMergeDeletes runs for every collected
// node, also for a tombstone collected only because its parent is deleted).
func mergePropagateRisk(t *crdt.Tree, from, to int) bool {
	if from == to {
		return false
	}
	root := t.Root()
	var moved []*crdt.TreeNode
	var walk func(n *crdt.TreeNode)
	walk = func(n *crdt.TreeNode) {
		if n.IsRemoved() {
			return // only visible nodes can be lost
		}
		if n.MergedFrom != nil {
			moved = append(moved, n)
		}
		if !n.IsText() {
			for _, c := range n.Children(true) {
				walk(c)
			}
		}
	}
	walk(root)
	visible := func(n *crdt.TreeNode) bool {
		for ; n != nil; n = parentOf(n) {
			if n.IsRemoved() {
				return false
			}
		}
		return true
	}
	for _, n := range moved {
		_, x := t.NodeMapByID.Floor(n.MergedFrom)
		if x == nil || !x.ID().Equal(n.MergedFrom) || !x.IsRemoved() {
			continue
		}
		for a := parentOf(x); a != nil && a != root; a = parentOf(a) {
			if !visible(a) {
				continue
			}
			inside := false // is n below a?
			for q := parentOf(n); q != nil; q = parentOf(q) {
				if q == a {
					inside = true
				}
			}
			if inside {
				continue
			}
			p := parentOf(a)
			left := p
			for _, c := range p.Children() {
				if c == a {
					break
				}
				left = c
			}
			start, err := t.ToIndex(p, left)
			if err != nil {
				return true
			}
			if from <= start && start+a.Index.PaddedLength() <= to {
				return true
			}
		}
	}
	return false
}

// rangeNarrowingRisk reports whether Edit(from,to) would hit finding
// F47: from's left sibling is an element with an earlier split
// sibling (InsNextID chain) that lives in to's parent while from's own parent
// is a different node. Tree.Edit then "narrows" the collected range to start
// after that split sibling, which can lie before from, and deletes live content
// outside [from,to).
func rangeNarrowingRisk(t *crdt.Tree, from, to int) bool {
	if from == to {
		return false
	}
	nodesAt := func(i int) (parent, left *crdt.TreeNode) {
		pos, err := t.FindPos(i)
		if err != nil {
			return nil, nil
		}
		parent, left = t.ToTreeNodes(pos)
		if parent != nil && left != nil && left != parent {
			parent = parentOf(left)
		}
		return parent, left
	}
	fp, fl := nodesAt(from)
	tp, _ := nodesAt(to)
	if fp == nil || tp == nil || fl == nil || fl == fp || fl.IsText() || fp == tp {
		return false
	}
	for cur, hops := fl, 0; cur.InsNextID != nil && hops < 1000; hops++ {
		_, next := t.NodeMapByID.Floor(cur.InsNextID)
		if next == nil || next.ID().CreatedAt.Compare(cur.InsNextID.CreatedAt) != 0 || next.IsText() {
			return false
		}
		if parentOf(next) == tp {
			return true
		}
		cur = next
	}
	return false
}

func parentOf(n *crdt.TreeNode) *crdt.TreeNode {
	if n.Index.Parent == nil {
		return nil
	}
	return n.Index.Parent.Value
}

// applyFree performs an arbitrary edit or style call; only from<=to within
// 0..Len is guaranteed (that is all json.Tree validates). When the edit does
// not split (splitLevel 0) and the range is balanced (every tag in it has its
// partner in it), the expected XML is the plain splice of the content into the
// token sequence; it is returned in want (empty = no model for this call).
func applyFree(w *world, t *yjson.Tree, s Step, descOut *string, prefix string) (want string) {
	n := t.Len()
	from := s.A % (n + 1)
	to := from + s.B%(n-from+1)
	before := t.ToXML()
	toks := xmlTokenize(before)
	inner := toks[1 : len(toks)-1]
	haveModel := len(inner) == n // otherwise Len() is already off; the invariant check reports it
	if haveModel && excluding("F37") {
		moved := false
		if mixedBoundary(inner, from) {
			from++
			moved = true
			if to < from {
				to = from
			}
		}
		if mixedBoundary(inner, to) {
			to++
			moved = true
		}
		if moved {
			w.count("excluded:F37")
		}
	}
	if s.Op == "fedit" && excluding("F39") && mergePropagateRisk(t.Tree, from, to) {
		to = from // keep the insertion, drop the deletion
		w.count("excluded:F39")
	}
	if s.Op == "fedit" && excluding("F47") && rangeNarrowingRisk(t.Tree, from, to) {
		to = from
		w.count("excluded:F47")
	}
	if s.Op == "fstyle" {
		key := []string{"b", "i"}[s.C%2]
		if s.D%3 == 0 {
			*descOut = fmt.Sprintf("tree.RemoveStyle(%d,%d,[%s]) on %s", from, to, key, before)
			w.logf("%s %s", prefix, *descOut)
			w.count("op:fstyle")
			t.RemoveStyle(from, to, []string{key})
		} else {
			*descOut = fmt.Sprintf("tree.Style(%d,%d,%s=%d) on %s", from, to, key, s.D%3, before)
			w.logf("%s %s", prefix, *descOut)
			w.count("op:fstyle")
			t.Style(from, to, map[string]string{key: fmt.Sprint(s.D % 3)})
		}
		return ""
	}
	var content *yjson.TreeNode
	cdesc, cxml := "nil", ""
	switch s.C % 6 {
	case 1:
		content, cdesc, cxml = textNode("Q"), `text "Q"`, "Q"
	case 2:
		content, cdesc, cxml = textNode("한z"), `text "한z"`, "한z"
	case 3:
		content, cdesc, cxml = &yjson.TreeNode{Type: "p"}, "<p></p>", "<p></p>"
	case 4:
		content, cdesc, cxml = &yjson.TreeNode{Type: "p", Children: []yjson.TreeNode{*textNode("mn")}}, "<p>mn</p>", "<p>mn</p>"
	case 5:
		content, cdesc, cxml = &yjson.TreeNode{Type: "q", Children: []yjson.TreeNode{{Type: "p", Children: []yjson.TreeNode{*textNode("k")}}}},
			"<q><p>k</p></q>", "<q><p>k</p></q>"
	}
	level := (s.D % 5) % 3 // 0,1,2,0,1
	*descOut = fmt.Sprintf("tree.Edit(%d,%d,%s,splitLevel %d) on %s", from, to, cdesc, level, before)
	w.logf("%s %s", prefix, *descOut)
	w.count("op:fedit")
	w.count(fmt.Sprintf("fedit:splitLevel%d", level))
	switch {
	case from == to && content == nil && level == 0:
		w.count("fedit:noop")
	case from == to:
		w.count("fedit:insert_or_split")
	case content == nil:
		w.count("fedit:delete")
	default:
		w.count("fedit:replace")
	}
	if haveModel && level == 0 && balanced(inner, from, to) {
		off := func(i int) int { // byte offset of boundary i
			if i == len(inner) {
				return toks[len(toks)-1].start
			}
			return inner[i].start
		}
		// a boundary inside a surrogate pair cannot occur: tree texts are BMP only
		want = before[:off(from)] + cxml + before[off(to):]
		w.count("fedit:splice_model")
	} else if haveModel {
		w.count("fedit:unbalanced_or_split")
	}
	t.Edit(from, to, content, level)
	return want
}

func evalTree(c Case, trace bool) verdict {
	setAllowed(c)
	w, err := newWorld(trace, func(r *yjson.Object) {
		r.SetNewTree("tr", yjson.TreeNode{Type: "doc", Children: []yjson.TreeNode{
			{Type: "p", Children: []yjson.TreeNode{{Type: "text", Value: "ab"}}},
			{Type: "p", Children: []yjson.TreeNode{{Type: "text", Value: "cd"}}},
		}})
	})
	if err != nil {
		return historyVerdict(w, err)
	}
	free := c.Mode%2 == 1
	if free {
		w.count("mode:free")
	} else {
		w.count("mode:structured")
	}
	var models [2]*treeModel
	var remoteBad *kit.Failure
	reinit := func(r int) {
		// the state a sync / snapshot / GC left behind must already satisfy the
		// invariants; if it does not, no local call is to blame: the case is
		// dropped and counted (F38, reported as a finding)
		if f := checkTreeInvariants(fmt.Sprintf("r%d after sync", r), rootTree(w, r), nil); f != nil && remoteBad == nil {
			remoteBad = f
		}
		if free {
			return
		}
		m, ok := modelOfTree(rootTree(w, r))
		if !ok {
			// concurrent structure-preserving edits can still leave another shape
			// behind; from then on only the invariants are checked on this case
			free = true
			w.count("mode:structured_shape_lost")
			return
		}
		models[r] = m
	}
	reinit(0)
	reinit(1)
	nonTrivial := false
	for si, s := range c.Steps {
		r := s.R % 2
		switch {
		case s.Op == "sync":
			if e := w.sync(r, s.A%4 == 0); e != nil {
				return historyVerdict(w, e)
			}
			reinit(r)
			continue
		case s.Op == "syncall":
			for _, q := range []int{0, 1, 0, 1} {
				if e := w.sync(q, false); e != nil {
					return historyVerdict(w, e)
				}
			}
			reinit(0)
			reinit(1)
			continue
		case s.Op == "snap":
			if e := w.snapshot(r); e != nil {
				return historyVerdict(w, e)
			}
			reinit(r)
			continue
		case isTreeEdit(s.Op):
		default:
			return w.finish(kit.Failf("HARNESS", "HARNESS-ERROR unknown tree op %q", s.Op), false)
		}
		if free && remoteBad == nil {
			// free mode never edits concurrently: arbitrary concurrent merges and
			// splits are a convergence topic, not a local-semantics one
			o := 1 - r
			if w.docs[o].HasLocalChanges() || w.cursor[r] < len(w.log) {
				w.count("free:handover_sync")
				for _, q := range []int{o, r} {
					if e := w.sync(q, false); e != nil {
						return historyVerdict(w, e)
					}
				}
				reinit(r)
			}
		}
		if remoteBad != nil {
			if !excluding("F38") {
				remoteBad.Msg = fmt.Sprintf("before step %d: %s", si, remoteBad.Msg)
				w.logf("FAIL %s", remoteBad.Error())
				return w.finish(remoteBad, false)
			}
			w.count("excluded:F38")
			w.logf("DISCARDED: %s", remoteBad.Error())
			return w.finish(nil, false)
		}
		if rootTree(w, r) == nil {
			return w.finish(kit.Failf("HARNESS", "HARNESS-ERROR tree missing on r%d", r), false)
		}
		tombs, splits := treeShape(rootTree(w, r))
		if tombs > 0 || splits > 0 {
			nonTrivial = true
			w.count("call:nontrivial")
		}
		if tombs > 0 {
			w.count("call:tombstones_present")
		}
		if splits > 0 {
			w.count("call:split_nodes_present")
		}
		w.stateClasses(r)
		structured := !free && s.Op != "fedit" && s.Op != "fstyle"
		if !structured && !free {
			// a free op inside a structured case: run it structured instead
			s.Op = structOps[s.C%len(structOps)]
			structured = true
		}
		if free && s.Op != "fedit" && s.Op != "fstyle" {
			s.Op = "fedit"
		}
		m := models[r]
		desc := s.Op
		var cloneXML string
		fail := w.update(r, &desc, func(root *yjson.Object) *kit.Failure {
			t := root.GetTree("tr")
			if t == nil {
				return kit.Failf("HARNESS", "HARNESS-ERROR tree missing in clone of r%d", r)
			}
			prefix := fmt.Sprintf("step %d r%d", si, r)
			if structured {
				applyStructured(w, t, m, s, &desc, prefix)
				if got, want := t.ToXML(), m.xml(); got != want {
					return kit.Failf("TREE-XML", "clone: ToXML()=%s, model %s", got, want)
				}
				if t.Len() != m.size() {
					return kit.Failf("TREE-LEN", "clone: Len()=%d, model size %d (%s)", t.Len(), m.size(), m.xml())
				}
			} else if want := applyFree(w, t, s, &desc, prefix); want != "" {
				if got := t.ToXML(); got != want {
					return kit.Failf("TREE-XML", "clone: ToXML()=%s, the plain splice gives %s", got, want)
				}
			}
			cloneXML = t.ToXML()
			if hasMixedChildren(t.Root()) {
				w.count("call:mixed_children")
			}
			ex := 0
			f := checkTreeInvariants("clone", t.Tree, &ex)
			if ex > 0 {
				w.count("excluded:F36")
			}
			return f
		})
		if fail == nil {
			rt := rootTree(w, r)
			if got := rt.ToXML(); got != cloneXML {
				fail = kit.Failf("TREE-XML", "root: ToXML()=%s but the clone the call ran on shows %s", got, cloneXML)
			} else {
				fail = checkTreeInvariants("root", rt, nil)
			}
		}
		if fail != nil {
			fail.Msg = fmt.Sprintf("after step %d r%d %s: %s", si, r, desc, fail.Msg)
			w.logf("FAIL %s", fail.Error())
			return w.finish(fail, false)
		}
	}
	return w.finish(nil, nonTrivial)
}

func genTree() *rapid.Generator[Case] {
	sOps := []string{"trtext", "trtext", "trtext", "trins", "trins", "trdel", "trstyle", "trrmstyle", "trsplit", "trmerge",
		"sync", "sync", "sync", "syncall", "snap"}
	fOps := []string{"fedit", "fedit", "fedit", "fedit", "fedit", "fedit", "fstyle", "sync", "sync", "syncall", "snap"}
	sSteps := genSteps(kit.Pick(24, 40), sOps, 30, 30, 30, 29)
	fSteps := genSteps(kit.Pick(24, 40), fOps, 40, 6, 11, 29)
	return rapid.Custom(func(t *rapid.T) Case {
		mode := rapid.IntRange(0, 1).Draw(t, "mode")
		if mode == 0 {
			return Case{Mode: 0, Steps: sSteps.Draw(t, "steps")}
		}
		return Case{Mode: 1, Steps: fSteps.Draw(t, "steps")}
	})
}

func TestC07Tree(t *testing.T) {
	runRapid(t, "tree", "tree", genTree(), evalTree)
}
