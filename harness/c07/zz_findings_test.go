package c07

import (
	"encoding/json"
	"fmt"
	"os"
	"testing"

	"verifharness/kit"
)

func TestWriteFindings(t *testing.T) {
	os.Setenv("VERIF_REPLAY_DIR", "/tmp/c07out/findings-out")
	load := func(path string) Case {
		b, err := os.ReadFile(path)
		if err != nil {
			t.Fatal(err)
		}
		var rf struct {
			Case Case `json:"case"`
		}
		if err := json.Unmarshal(b, &rf); err != nil {
			t.Fatal(err)
		}
		return rf.Case
	}
	type f struct {
		id, kind string
		eval     evalFn
		c        Case
	}
	mp := load("/tmp/c07out/found/tree-8aa00448ee69baa1.json")
	rn := load("/tmp/c07out/found/min14.json")
	if p := os.Getenv("MP_FILE"); p != "" {
		mp = load(p)
	}
	if p := os.Getenv("RN_FILE"); p != "" {
		rn = load(p)
	}
	for _, x := range []f{
		{"F2", "array", evalArray, Case{Steps: []Step{{Op: "addInt", R: 1}, {Op: "moveBefore", R: 1}, {Op: "addInt", R: 1}, {Op: "setInt", R: 1, D: 1}}}},
		{"SURR-SPLIT", "text", evalText, Case{Steps: []Step{{Op: "edit", R: 0, C: 4}, {Op: "style", R: 0, A: 1, B: 0}}}},
		{"TOPATH-TOMBSTONE", "tree", evalTree, Case{Mode: 0, Steps: []Step{{Op: "trtext", R: 0, C: 1}}}},
		{"FINDPOS-MIXED", "tree", evalTree, Case{Mode: 1, Steps: []Step{{Op: "fedit", A: 2, C: 3}, {Op: "fedit", A: 4, C: 1}}}},
		{"REMOTE-INCONSISTENT", "tree", evalTree, Case{Mode: 0, Steps: []Step{{Op: "trdel", R: 0, A: 1}, {Op: "trsplit", R: 1, A: 1, B: 1}, {Op: "syncall"}, {Op: "trtext", R: 0}}}},
		{"MERGE-PROPAGATE", "tree", evalTree, mp},
		{"RANGE-NARROWING", "tree", evalTree, rn},
	} {
		x.c.Allow = []string{x.id}
		v := x.eval(x.c, true)
		if v.Fail == nil {
			t.Errorf("%s does not fail", x.id)
			continue
		}
		p := kit.WriteReplay(prop, x.kind, x.id, x.c, v.Fail, v.Hist)
		fmt.Println(p, "::", v.Fail.Error()[:min(400, len(v.Fail.Error()))])
	}
}
