package c07

import (
	"fmt"
	"strconv"
	"testing"

	"pgregory.net/rapid"

	"github.com/yorkie-team/yorkie/pkg/document/crdt"
	yjson "github.com/yorkie-team/yorkie/pkg/document/json"

	"verifharness/kit"
)

// ---------------------------------------------------------------------------
// (c) json.Object against a map, json.Counter against wrapping integers
// ---------------------------------------------------------------------------

// objKeys sort differently from their insertion order and include a non-ASCII
// key.
var objKeys = []string{"k", "b", "z", "a", "한", "k2"}

var objEditOps = []string{"setInt", "setStr", "setMisc", "del", "setObj", "setArr", "nestedSet", "nestedDel", "setCnt", "inc"}

func isObjEdit(op string) bool {
	for _, o := range objEditOps {
		if o == op {
			return true
		}
	}
	return false
}

// counter operands (the kinds json.Counter.Increase accepts).
type operand struct {
	name string
	v    any
	// exact integer the operand converts to for a 32-bit / 64-bit counter
	as32 int32
	as64 int64
}

func wrap32(v int64) int32 { return int32(uint32(uint64(v))) } // low 32 bits

func operands() []operand {
	mk := func(name string, v any, i int64) operand { return operand{name, v, wrap32(i), i} }
	return []operand{
		mk("int MaxInt32", 2147483647, 2147483647),
		mk("int 1", 1, 1),
		mk("int64 MaxInt64", int64(9223372036854775807), 9223372036854775807),
		mk("int -3", -3, -3),
		mk("int 7", 7, 7),
		mk("int MinInt32", -2147483648, -2147483648),
		mk("int 2^32+5", 4294967301, 4294967301),
		mk("int -(2^40)-1", -1099511627777, -1099511627777),
		mk("int64 2^62", int64(4611686018427387904), 4611686018427387904),
		mk("int64 -9", int64(-9), -9),
		mk("int32 -2^31", int32(-2147483648), -2147483648),
		mk("int16 300", int16(300), 300),
		mk("int8 -128", int8(-128), -128),
		mk("uint8 255", uint8(255), 255),
		mk("uint16 65535", uint16(65535), 65535),
		mk("uint32 4000000000", uint32(4000000000), 4000000000),
		mk("uint 12", uint(12), 12),
		// floats truncate toward zero; only values that fit the counter width
		// (out-of-range float->int conversion is implementation defined in Go)
		mk("float64 2.9", 2.9, 2),
		mk("float64 -2.9", -2.9, -2),
		mk("float64 1e9+0.5", 1000000000.5, 1000000000),
		mk("float32 1.5", float32(1.5), 1),
		mk("float64 0.0", 0.0, 0),
	}
}

var counterOperands = operands()

// cntModel is the model of one counter.
type cntModel struct {
	long bool
	i32  int32
	i64  int64
}

func (c *cntModel) marshal() string {
	if c.long {
		return strconv.FormatInt(c.i64, 10)
	}
	return strconv.FormatInt(int64(c.i32), 10)
}

func (c *cntModel) inc(o operand) {
	if c.long {
		c.i64 = int64(uint64(c.i64) + uint64(o.as64)) // two's complement wrap-around
	} else {
		c.i32 = int32(uint32(c.i32) + uint32(o.as32))
	}
}

type objWorldModel struct {
	o    *val
	cnts map[string]*cntModel // counters at root: "ci", "cl"
}

func rootObj(w *world, r int) *crdt.Object {
	o, _ := w.docs[r].InternalDocument().RootObject().Get("o").(*crdt.Object)
	return o
}

func checkCounter(view string, e crdt.Element, m *cntModel, name string) *kit.Failure {
	c, ok := e.(*crdt.Counter)
	if !ok || c == nil {
		return kit.Failf("COUNTER", "%s: %s is not a counter", view, name)
	}
	if got := c.Marshal(); got != m.marshal() {
		return kit.Failf("COUNTER", "%s: %s Marshal()=%s, model %s", view, name, got, m.marshal())
	}
	switch v := c.Value().(type) {
	case int32:
		if m.long || v != m.i32 {
			return kit.Failf("COUNTER", "%s: %s Value()=int32 %d, model %s (long=%v)", view, name, v, m.marshal(), m.long)
		}
	case int64:
		if !m.long || v != m.i64 {
			return kit.Failf("COUNTER", "%s: %s Value()=int64 %d, model %s (long=%v)", view, name, v, m.marshal(), m.long)
		}
	default:
		return kit.Failf("COUNTER", "%s: %s Value() has type %T", view, name, v)
	}
	return nil
}

func objShape(o *crdt.Object) (tombs int) {
	for _, n := range o.RHTNodes() {
		if n.Element().RemovedAt() != nil {
			tombs++
		}
	}
	return
}

func evalObjCnt(c Case, trace bool) verdict {
	w, err := newWorld(trace, func(r *yjson.Object) {
		r.SetNewObject("o")
		r.SetNewCounter("ci", 0)
		r.SetNewCounter("cl", int64(0))
	})
	if err != nil {
		return historyVerdict(w, err)
	}
	var models [2]*objWorldModel
	reinit := func(r int) *kit.Failure {
		o := rootObj(w, r)
		if o == nil {
			return kit.Failf("HARNESS", "HARNESS-ERROR object missing on r%d", r)
		}
		m := &objWorldModel{o: valOf(o), cnts: map[string]*cntModel{}}
		for _, name := range []string{"ci", "cl"} {
			cn, ok := w.docs[r].InternalDocument().RootObject().Get(name).(*crdt.Counter)
			if !ok {
				return kit.Failf("HARNESS", "HARNESS-ERROR counter %s missing on r%d", name, r)
			}
			switch v := cn.Value().(type) {
			case int32:
				m.cnts[name] = &cntModel{i32: v}
			case int64:
				m.cnts[name] = &cntModel{long: true, i64: v}
			}
		}
		models[r] = m
		return nil
	}
	for r := 0; r < 2; r++ {
		if f := reinit(r); f != nil {
			return w.finish(f, false)
		}
	}
	nonTrivial := false
	for si, s := range c.Steps {
		r := s.R % 2
		switch {
		case s.Op == "sync":
			if e := w.sync(r, s.A%4 == 0); e != nil {
				return historyVerdict(w, e)
			}
			if f := reinit(r); f != nil {
				return w.finish(f, false)
			}
			continue
		case s.Op == "syncall":
			for _, q := range []int{0, 1, 0, 1} {
				if e := w.sync(q, false); e != nil {
					return historyVerdict(w, e)
				}
			}
			for q := 0; q < 2; q++ {
				if f := reinit(q); f != nil {
					return w.finish(f, false)
				}
			}
			continue
		case s.Op == "snap":
			if e := w.snapshot(r); e != nil {
				return historyVerdict(w, e)
			}
			if f := reinit(r); f != nil {
				return w.finish(f, false)
			}
			continue
		case isObjEdit(s.Op):
		default:
			return w.finish(kit.Failf("HARNESS", "HARNESS-ERROR unknown object op %q", s.Op), false)
		}
		m := models[r]
		if tombs := objShape(rootObj(w, r)); tombs > 0 || w.docs[r].GarbageLen() > 0 {
			nonTrivial = true
			w.count("call:nontrivial")
			if tombs > 0 {
				w.count("call:tombstones_present")
			}
		}
		w.stateClasses(r)
		key := objKeys[s.A%len(objKeys)]
		v := s.D % 100
		op := s.Op
		if op == "nestedSet" || op == "nestedDel" {
			// pick among the keys that hold an object (sorted: no map order)
			var cs []string
			for _, k := range objKeys {
				if x := m.o.obj[k]; x != nil && x.kind == 'o' {
					cs = append(cs, k)
				}
			}
			if len(cs) == 0 {
				op = "setObj"
			} else {
				key = cs[s.A%len(cs)]
			}
		}
		desc := op
		fail := w.update(r, &desc, func(root *yjson.Object) *kit.Failure {
			o := root.GetObject("o")
			if o == nil {
				return kit.Failf("HARNESS", "HARNESS-ERROR object missing in clone of r%d", r)
			}
			before := m.o.marshal()
			w.count("op:" + op)
			switch op {
			case "setInt":
				desc = fmt.Sprintf("o.SetInteger(%q,%d)", key, v)
				o.SetInteger(key, v)
				m.o.obj[key] = leafInt(v)
			case "setStr":
				desc = fmt.Sprintf("o.SetString(%q,%q)", key, "s"+strconv.Itoa(v))
				o.SetString(key, "s"+strconv.Itoa(v))
				m.o.obj[key] = leafStr("s" + strconv.Itoa(v))
			case "setMisc":
				switch s.C % 4 {
				case 0:
					desc = fmt.Sprintf("o.SetBool(%q,%v)", key, v%2 == 0)
					o.SetBool(key, v%2 == 0)
					m.o.obj[key] = leafBool(v%2 == 0)
				case 1:
					desc = fmt.Sprintf("o.SetNull(%q)", key)
					o.SetNull(key)
					m.o.obj[key] = leaf("null")
				case 2:
					desc = fmt.Sprintf("o.SetDouble(%q,%v)", key, float64(v)+0.25)
					o.SetDouble(key, float64(v)+0.25)
					m.o.obj[key] = leafDbl(float64(v) + 0.25)
				case 3:
					desc = fmt.Sprintf("o.SetLong(%q,%d)", key, int64(v)<<34)
					o.SetLong(key, int64(v)<<34)
					m.o.obj[key] = leafLong(int64(v) << 34)
				}
			case "del":
				desc = fmt.Sprintf("o.Delete(%q)", key)
				got := o.Delete(key)
				want, has := m.o.obj[key]
				switch {
				case !has && got != nil:
					return kit.Failf("OBJECT-DELETE", "%s on %s returned %s for an absent key", desc, before, got.Marshal())
				case has && (got == nil || got.Marshal() != want.marshal()):
					return kit.Failf("OBJECT-DELETE", "%s on %s returned %s, model deletes %s", desc, before, marshalOrNil(got), want.marshal())
				}
				if !has {
					w.count("del:absent_key")
				}
				delete(m.o.obj, key)
			case "setObj":
				desc = fmt.Sprintf("o.SetNewObject(%q)+%d keys", key, s.C%3)
				no := o.SetNewObject(key)
				mv := newObj()
				for k := 0; k < s.C%3; k++ {
					nk := objKeys[(s.B+k)%len(objKeys)]
					no.SetInteger(nk, v+k)
					mv.obj[nk] = leafInt(v + k)
				}
				m.o.obj[key] = mv
			case "setArr":
				desc = fmt.Sprintf("o.SetNewArray(%q)+%d ints", key, s.C%3)
				na := o.SetNewArray(key)
				mv := newArr()
				for k := 0; k < s.C%3; k++ {
					na.AddInteger(v + k)
					mv.arr = append(mv.arr, leafInt(v+k))
				}
				m.o.obj[key] = mv
			case "nestedSet":
				nk := objKeys[s.B%len(objKeys)]
				desc = fmt.Sprintf("o.%s.SetInteger(%q,%d)", key, nk, v)
				o.GetObject(key).SetInteger(nk, v)
				m.o.obj[key].obj[nk] = leafInt(v)
			case "nestedDel":
				nk := objKeys[s.B%len(objKeys)]
				desc = fmt.Sprintf("o.%s.Delete(%q)", key, nk)
				o.GetObject(key).Delete(nk)
				delete(m.o.obj[key].obj, nk)
			case "setCnt":
				// a (new) counter inside the object, 32 or 64 bit by the Go type
				if s.C%2 == 0 {
					desc = fmt.Sprintf("o.SetNewCounter(%q,int %d)", key, v)
					o.SetNewCounter(key, v)
					m.o.obj[key] = leafInt(v)
				} else {
					desc = fmt.Sprintf("o.SetNewCounter(%q,int64 %d)", key, int64(v)<<40)
					o.SetNewCounter(key, int64(v)<<40)
					m.o.obj[key] = leafLong(int64(v) << 40)
				}
			case "inc":
				name := []string{"ci", "cl"}[s.A%2]
				od := counterOperands[s.B%len(counterOperands)]
				cm := m.cnts[name]
				desc = fmt.Sprintf("%s.Increase(%s) on %s", name, od.name, cm.marshal())
				cn := root.GetCounter(name)
				if cn == nil {
					return kit.Failf("HARNESS", "HARNESS-ERROR counter missing in clone of r%d", r)
				}
				beforeC := cm.marshal()
				cn.Increase(od.v)
				cm.inc(od)
				delta, after := od.as64, cm.i64
				if !cm.long {
					delta, after = int64(od.as32), int64(cm.i32)
				}
				if (delta > 0 && after < mustInt(beforeC)) || (delta < 0 && after > mustInt(beforeC)) {
					w.count("inc:wrapped_around")
				}
				if f := checkCounter("clone", cn.Counter, cm, name); f != nil {
					return f
				}
			}
			if op != "inc" {
				desc += " on " + before
			}
			w.logf("step %d r%d %s", si, r, desc)
			if f := checkElem("clone:o", o.Object, m.o); f != nil {
				return f
			}
			for _, k := range objKeys {
				if _, has := m.o.obj[k]; !has && (o.Has(k) || o.Get(k) != nil) {
					return kit.Failf("OBJECT-HAS", "clone: Has/Get(%q) finds a value, model has none (%s)", k, m.o.marshal())
				}
			}
			return nil
		})
		if fail == nil {
			ro := rootObj(w, r)
			fail = checkElem("root:o", ro, m.o)
			for _, k := range objKeys {
				if _, has := m.o.obj[k]; fail == nil && !has && (ro.Has(k) || ro.Get(k) != nil) {
					fail = kit.Failf("OBJECT-HAS", "root: Has/Get(%q) finds a value, model has none (%s)", k, m.o.marshal())
				}
			}
			for _, name := range []string{"ci", "cl"} {
				if fail == nil {
					fail = checkCounter("root", w.docs[r].InternalDocument().RootObject().Get(name), m.cnts[name], name)
				}
			}
		}
		if fail != nil {
			fail.Msg = fmt.Sprintf("after step %d r%d %s: %s", si, r, desc, fail.Msg)
			w.logf("FAIL %s", fail.Error())
			return w.finish(fail, false)
		}
	}
	return w.finish(nil, nonTrivial)
}

func mustInt(s string) int64 {
	v, _ := strconv.ParseInt(s, 10, 64)
	return v
}

func genObjCnt() *rapid.Generator[Case] {
	ops := []string{"setInt", "setInt", "setStr", "setMisc", "del", "del", "setObj", "setArr", "nestedSet", "nestedSet",
		"nestedDel", "setCnt", "inc", "inc", "inc", "inc", "sync", "sync", "sync", "syncall", "snap"}
	steps := genSteps(kit.Pick(30, 48), ops, 11, len(counterOperands)*3-1, 11, 99)
	return rapid.Custom(func(t *rapid.T) Case { return Case{Steps: steps.Draw(t, "steps")} })
}

func TestC07ObjectCounter(t *testing.T) {
	runRapid(t, "objcnt", "objcnt", genObjCnt(), evalObjCnt)
}
