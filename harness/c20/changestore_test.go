package c20

import (
	"errors"
	"fmt"
	"sort"
	"testing"

	"pgregory.net/rapid"

	"github.com/yorkie-team/yorkie/api/types"
	"github.com/yorkie-team/yorkie/pkg/document/presence"
	"github.com/yorkie-team/yorkie/server/backend/database"
	"github.com/yorkie-team/yorkie/server/backend/database/mongo"

	"verifharness/kit"
)

// C20 (a): mongo.ChangeStore driven with exactly the call patterns of
// mongo.Client.CreateChangeInfos / FindChangeInfosBetweenServerSeqs /
// UpdateClientInfoAfterPushPull, against a ground-truth change table.
//
// Ground truth of one document:
//   - table: the "changes" collection, i.e. every pushed change that has
//     operations, keyed by serverSeq. The fetcher reads only this table.
//   - pres : the presence-only changes; by design they are never written to
//     the collection and live only in the presence ChangeStore, so the model
//     mirrors what that store must hold (inserted by push, removed by
//     RemoveChangesByActor unless Clear, lost when the presence store is
//     evicted).
//   - changes with neither operations nor presence get a serverSeq but are
//     stored nowhere (a hole in both).
//   - covered: the serverSeqs the operations store has been told about:
//     [initial+1, head] of every push (ExpandRange) and every range a fetcher
//     call answered successfully; emptied when the operations store is evicted.

// change kinds of a pushed change
const (
	ckOp       = 0 // operations only
	ckPut      = 1 // presence-only, Put
	ckClear    = 2 // presence-only, Clear
	ckOpAndPut = 3 // operations and a presence change (stored as an operation change)
	ckEmpty    = 4 // neither (dropped by CreateChangeInfos)
)

type csChange struct {
	Kind  int `json:"k"`
	Actor int `json:"a"`
}

// csOp is one step of a program. Indices are resolved modulo the state.
type csOp struct {
	Op      string     `json:"op"`            // push | fetch | evict | remove
	Changes []csChange `json:"ch,omitempty"`  // push
	Mode    int        `json:"m,omitempty"`   // fetch: 0 pull pattern [from, head]; 1 short window; 2 arbitrary range in [0, head+2]
	A       int        `json:"x,omitempty"`   // fetch: selector of from
	B       int        `json:"y,omitempty"`   // fetch: selector of to
	FailAt  int        `json:"f,omitempty"`   // fetch: 1-based index of the fetcher call that fails (0 = none)
	Which   int        `json:"w,omitempty"`   // evict: 0 operations store, 1 presence store, 2 both
	Actor   int        `json:"act,omitempty"` // remove
}

type csCase struct {
	Ops []csOp `json:"ops"`
	// FinalFailAt is the fetcher fault of the complete pull every case ends with
	// (1-based fetcher call, 0 = none).
	FinalFailAt int `json:"final_fail_at,omitempty"`
}

var errInjected = errors.New("injected fetcher fault")

var csActors = []types.ID{
	"000000000000000000000001",
	"000000000000000000000002",
	"000000000000000000000003",
}

type csWorld struct {
	head    int64
	table   map[int64]*database.ChangeInfo
	pres    map[int64]*database.ChangeInfo
	covered map[int64]bool
	opStore *mongo.ChangeStore // nil = not in the change cache
	prStore *mongo.ChangeStore // nil = not in the presence cache
	nextCS  []uint32

	fail        *kit.Failure
	afterFault  bool
	afterEvict  bool
	afterRemove bool
	nonTrivial  bool
	classes     map[string]int
	trace       bool
	hist        []string
}

func (w *csWorld) logf(format string, a ...any) {
	if w.trace {
		w.hist = append(w.hist, fmt.Sprintf(format, a...))
	}
}

func (w *csWorld) setFail(kind, format string, a ...any) {
	if w.fail == nil {
		w.fail = kit.Failf(kind, format, a...)
		w.logf("  !! %s", w.fail.Error())
	}
}

func descr(ci *database.ChangeInfo) string {
	k := "empty"
	switch {
	case len(ci.Operations) > 0 && ci.PresenceChange != nil:
		k = "op+put"
	case len(ci.Operations) > 0:
		k = "op"
	case ci.PresenceChange != nil && ci.PresenceChange.IsClear():
		k = "clear"
	case ci.PresenceChange != nil:
		k = "put"
	}
	return fmt.Sprintf("%d:%s/%s", ci.ServerSeq, k, ci.Message)
}

func descrAll(cis []*database.ChangeInfo) string {
	s := "["
	for i, ci := range cis {
		if i > 0 {
			s += " "
		}
		if ci == nil {
			s += "<nil>"
			continue
		}
		s += descr(ci)
	}
	return s + "]"
}

// push does what CreateChangeInfos does with the two stores.
func (w *csWorld) push(changes []csChange) {
	initial := w.head
	var prChanges, opChanges []*database.ChangeInfo
	for _, c := range changes {
		w.head++
		a := c.Actor % len(csActors)
		w.nextCS[a]++
		ci := &database.ChangeInfo{
			ServerSeq: w.head,
			ActorID:   csActors[a],
			ClientSeq: w.nextCS[a],
			Message:   fmt.Sprintf("a%d.%d", a, w.nextCS[a]),
		}
		switch c.Kind {
		case ckOp:
			ci.Operations = [][]byte{{1}}
		case ckPut:
			ci.PresenceChange = &presence.Change{ChangeType: presence.Put, Presence: presence.Data{"k": ci.Message}}
		case ckClear:
			ci.PresenceChange = &presence.Change{ChangeType: presence.Clear}
		case ckOpAndPut:
			ci.Operations = [][]byte{{1}}
			ci.PresenceChange = &presence.Change{ChangeType: presence.Put, Presence: presence.Data{"k": ci.Message}}
		}
		if ci.PresenceOnly() {
			prChanges = append(prChanges, ci)
			continue
		}
		if ci.HasOperations() {
			opChanges = append(opChanges, ci)
		}
	}
	if len(prChanges) > 0 {
		if w.prStore == nil {
			w.prStore = mongo.NewChangeStore()
		}
		w.prStore.ReplaceOrInsert(prChanges)
		for _, ci := range prChanges {
			w.pres[ci.ServerSeq] = ci
		}
	}
	for _, ci := range opChanges { // the BulkWrite into the collection
		w.table[ci.ServerSeq] = ci.DeepCopy()
	}
	if w.opStore == nil {
		w.opStore = mongo.NewChangeStore()
	}
	w.opStore.ReplaceOrInsert(opChanges)
	w.opStore.ExpandRange(mongo.ChangeRange{From: initial + 1, To: w.head})
	for s := initial + 1; s <= w.head; s++ {
		w.covered[s] = true
	}
	w.logf("push %d changes -> serverSeq %d..%d (ops %s, presence-only %s)", len(changes), initial+1, w.head, descrAll(opChanges), descrAll(prChanges))
}

type fetchStat struct {
	calls         int
	faultFired    bool
	coveredBefore int
	wasCovered    map[int64]bool // serverSeqs of the range that were covered before the call
	asked         []mongo.ChangeRange
	opPart        []*database.ChangeInfo
	prPart        []*database.ChangeInfo
}

// find does what FindChangeInfosBetweenServerSeqs does with the two stores;
// failAt is the 1-based index of the fetcher call that returns an error.
func (w *csWorld) find(from, to int64, failAt int) ([]*database.ChangeInfo, error, fetchStat) {
	var st fetchStat
	if from > to {
		return nil, nil, st
	}
	store := mongo.NewChangeStore()
	if w.prStore != nil {
		st.prPart = w.prStore.ChangesInRange(from, to)
		store.ReplaceOrInsert(st.prPart)
	}
	if w.opStore == nil {
		w.opStore = mongo.NewChangeStore()
	}
	st.wasCovered = map[int64]bool{}
	for s := from; s <= to; s++ {
		if w.covered[s] {
			st.coveredBefore++
			st.wasCovered[s] = true
		}
	}
	err := w.opStore.EnsureChanges(from, to, func(f, t int64) ([]*database.ChangeInfo, error) {
		st.calls++
		st.asked = append(st.asked, mongo.ChangeRange{From: f, To: t})
		if f > t || t-f > 1<<16 {
			w.setFail("FETCHER-BAD-RANGE", "fetcher asked for [%d,%d] while ensuring [%d,%d]", f, t, from, to)
			return nil, errInjected
		}
		for s := f; s <= t; s++ {
			if w.covered[s] {
				w.setFail("REFETCH-COVERED", "fetcher asked for [%d,%d] while ensuring [%d,%d], but serverSeq %d is already covered (pushed via ExpandRange or fetched successfully before)", f, t, from, to, s)
				break
			}
		}
		if st.calls == failAt {
			st.faultFired = true
			return nil, errInjected
		}
		var out []*database.ChangeInfo
		for s := f; s <= t; s++ {
			if ci, ok := w.table[s]; ok {
				out = append(out, ci.DeepCopy()) // a fresh decode, as from the collection
			}
		}
		for s := f; s <= t; s++ {
			w.covered[s] = true
		}
		return out, nil
	})
	if err != nil {
		return nil, err, st
	}
	st.opPart = w.opStore.ChangesInRange(from, to)
	store.ReplaceOrInsert(st.opPart)
	return store.ChangesInRange(from, to), nil, st
}

func inRange(m map[int64]*database.ChangeInfo, from, to int64) []*database.ChangeInfo {
	var out []*database.ChangeInfo
	for s, ci := range m {
		if s >= from && s <= to {
			out = append(out, ci)
		}
	}
	sort.Slice(out, func(i, j int) bool { return out[i].ServerSeq < out[j].ServerSeq })
	return out
}

func sameChange(a, b *database.ChangeInfo) bool {
	if a == nil || b == nil {
		return false
	}
	if a.ServerSeq != b.ServerSeq || a.ActorID != b.ActorID || a.ClientSeq != b.ClientSeq || a.Message != b.Message {
		return false
	}
	if len(a.Operations) != len(b.Operations) || (a.PresenceChange == nil) != (b.PresenceChange == nil) {
		return false
	}
	return a.PresenceChange == nil || a.PresenceChange.ChangeType == b.PresenceChange.ChangeType
}

// diffChanges returns "" when got is exactly want (same elements, ascending, no duplicates).
func diffChanges(got, want []*database.ChangeInfo) string {
	for i, g := range got {
		if g == nil {
			return fmt.Sprintf("element %d is nil", i)
		}
		if i > 0 && got[i-1].ServerSeq == g.ServerSeq {
			return fmt.Sprintf("serverSeq %d returned twice", g.ServerSeq)
		}
		if i > 0 && got[i-1].ServerSeq > g.ServerSeq {
			return fmt.Sprintf("not ascending: %d before %d", got[i-1].ServerSeq, g.ServerSeq)
		}
	}
	gi, wi := 0, 0
	for gi < len(got) || wi < len(want) {
		switch {
		case wi == len(want) || (gi < len(got) && got[gi].ServerSeq < want[wi].ServerSeq):
			return fmt.Sprintf("extra element %s that the store does not hold in the range", descr(got[gi]))
		case gi == len(got) || got[gi].ServerSeq > want[wi].ServerSeq:
			return fmt.Sprintf("stored change %s is missing", descr(want[wi]))
		case !sameChange(got[gi], want[wi]):
			return fmt.Sprintf("serverSeq %d differs: got %s, stored %s", want[wi].ServerSeq, descr(got[gi]), descr(want[wi]))
		}
		gi++
		wi++
	}
	return ""
}

// checkFetch runs one find and its oracle; it returns false when the case is over.
func (w *csWorld) checkFetch(from, to int64, failAt int, label string) {
	got, err, st := w.find(from, to, failAt)
	w.logf("%s [%d,%d] failAt=%d -> fetcher asked %v, fault fired=%v, err=%v, result %s", label, from, to, failAt, st.asked, st.faultFired, err, descrAll(got))
	if w.fail != nil {
		return
	}
	if from > to {
		w.classes["fetch:inverted_range"] = 1
		if got != nil || err != nil {
			w.setFail("WRONG-RANGE-RESULT", "inverted range [%d,%d] returned %s, %v", from, to, descrAll(got), err)
		}
		return
	}
	if st.faultFired {
		w.classes["fault:fired"] = 1
		if st.calls > 1 {
			w.classes["fault:after_successful_subrange"] = 1
		}
		if err == nil {
			w.setFail("FAULT-SWALLOWED", "fetcher call %d of fetch [%d,%d] returned an error but the call returned success with %s", failAt, from, to, descrAll(got))
			return
		}
		w.afterFault = true
		// the retry must return the complete range
		if label == "final fetch" {
			w.checkFetch(from, to, 0, "final fetch")
		} else {
			w.checkFetch(from, to, 0, "retry")
		}
		return
	}
	if err != nil {
		w.setFail("SPURIOUS-ERROR", "fetch [%d,%d] failed without an injected fault: %v", from, to, err)
		return
	}

	wantOps := inRange(w.table, from, to)
	wantPr := inRange(w.pres, from, to)
	want := append(append([]*database.ChangeInfo{}, wantOps...), wantPr...)
	sort.Slice(want, func(i, j int) bool { return want[i].ServerSeq < want[j].ServerSeq })
	ctx := ""
	if w.afterFault {
		ctx = " (first fetch after a fetcher fault)"
	}
	if d := diffChanges(st.opPart, wantOps); d != "" {
		w.setFail("WRONG-RANGE-RESULT", "operations store, range [%d,%d]%s: %s; got %s, table holds %s", from, to, ctx, d, descrAll(st.opPart), descrAll(wantOps))
		return
	}
	if w.prStore != nil {
		if d := diffChanges(st.prPart, wantPr); d != "" {
			w.setFail("WRONG-RANGE-RESULT", "presence store, range [%d,%d]: %s; got %s, expected %s", from, to, d, descrAll(st.prPart), descrAll(wantPr))
			return
		}
	}
	if d := diffChanges(got, want); d != "" {
		w.setFail("WRONG-RANGE-RESULT", "merged result, range [%d,%d]%s: %s; got %s, stores hold %s", from, to, ctx, d, descrAll(got), descrAll(want))
		return
	}

	// classification; non-trivial = a fetch with a non-empty result that is
	// served partly from the cache and partly by the fetcher (>=1 stored
	// operation change on a serverSeq covered before AND >=1 on a fetched one),
	// or the first non-empty fetch after a fetcher fault / an eviction that
	// dropped a store / a RemoveChangesByActor that removed something.
	pre := "fetch:"
	if label == "final fetch" {
		pre = "final:"
	}
	cachedElems, fetchedElems := 0, 0
	for _, ci := range wantOps {
		if st.wasCovered[ci.ServerSeq] {
			cachedElems++
		} else {
			fetchedElems++
		}
	}
	switch {
	case st.calls == 0:
		w.classes[pre+"served_from_cache_only"] = 1
	case st.coveredBefore == 0:
		w.classes[pre+"served_by_fetcher_only"] = 1
	default:
		w.classes[pre+"covered_and_missing_seqs"] = 1
	}
	if cachedElems > 0 && fetchedElems > 0 {
		w.classes[pre+"partly_cache_partly_fetcher"] = 1
		w.nonTrivial = true
	}
	if st.calls > 1 {
		w.classes[pre+"several_missing_subranges"] = 1
	}
	if len(want) < int(to-from+1) && from >= 1 && to <= w.head {
		w.classes[pre+"range_with_holes"] = 1
	}
	if len(wantPr) > 0 && len(wantOps) > 0 {
		w.classes[pre+"merges_presence_and_operations"] = 1
	}
	if len(want) == 0 {
		w.classes[pre+"empty_result"] = 1
		return
	}
	if to > w.head && label != "final fetch" {
		w.classes[pre+"beyond_head"] = 1
	}
	if w.afterFault {
		w.classes[pre+"nonempty_after_fault"] = 1
		w.nonTrivial = true
		w.afterFault = false
	}
	if w.afterEvict {
		w.classes[pre+"nonempty_after_evict"] = 1
		w.nonTrivial = true
		w.afterEvict = false
	}
	if w.afterRemove {
		w.classes[pre+"nonempty_after_remove_by_actor"] = 1
		w.nonTrivial = true
		w.afterRemove = false
	}
}

func evalChangeStore(c csCase, trace bool) verdict {
	w := &csWorld{
		table:   map[int64]*database.ChangeInfo{},
		pres:    map[int64]*database.ChangeInfo{},
		covered: map[int64]bool{},
		nextCS:  make([]uint32, len(csActors)),
		classes: map[string]int{},
		trace:   trace,
	}
	run := func() {
		for _, op := range c.Ops {
			if w.fail != nil {
				return
			}
			switch op.Op {
			case "push":
				w.push(op.Changes)
				w.classes["op:push"] = 1
				if len(op.Changes) == 0 {
					w.classes["push:empty"] = 1
				}
			case "fetch":
				var from, to int64
				a, b := int64(abs(op.A)), int64(abs(op.B))
				hi := w.head + 2
				switch op.Mode % 3 {
				case 0: // what a pull does: everything after the client's checkpoint
					from = 1 + a%(w.head+1)
					if from > w.head && w.head > 0 {
						from = 1
					}
					to = w.head
				case 1: // a short window (leaves gaps between fetched ranges)
					from = a % (hi + 1)
					to = min(from+b%3, hi)
				default: // any range, including the inverted [from, from-1]
					from = a % (hi + 1)
					to = from - 1 + b%(hi-from+2)
				}
				w.checkFetch(from, to, op.FailAt, "fetch")
			case "evict":
				dropped := (op.Which%3 != 1 && w.opStore != nil) || (op.Which%3 != 0 && w.prStore != nil)
				switch op.Which % 3 {
				case 0:
					w.opStore, w.covered = nil, map[int64]bool{}
				case 1:
					w.prStore, w.pres = nil, map[int64]*database.ChangeInfo{}
				default:
					w.opStore, w.covered = nil, map[int64]bool{}
					w.prStore, w.pres = nil, map[int64]*database.ChangeInfo{}
				}
				if dropped {
					w.afterEvict = true
				}
				w.classes[fmt.Sprintf("op:evict_%d", op.Which%3)] = 1
				w.logf("evict which=%d", op.Which%3)
			case "remove":
				// UpdateClientInfoAfterPushPull of a client that is no longer attached
				actor := csActors[abs(op.Actor)%len(csActors)]
				removed := 0
				if w.prStore != nil {
					w.prStore.RemoveChangesByActor(actor)
					for s, ci := range w.pres {
						if ci.ActorID == actor && !ci.PresenceChange.IsClear() {
							delete(w.pres, s)
							removed++
						}
					}
				}
				w.classes["op:remove_by_actor"] = 1
				if removed > 0 {
					w.afterRemove = true
					w.classes["remove:removed_something"] = 1
				}
				w.logf("RemoveChangesByActor(%s) removed %d presence changes", actor, removed)
			default:
				w.setFail("HARNESS", "unknown op %q", op.Op)
			}
		}
		if w.fail == nil {
			// epilogue: a complete pull of the document
			w.checkFetch(0, w.head+1, c.FinalFailAt, "final fetch")
		}
	}
	func() {
		defer func() {
			if r := recover(); r != nil {
				w.setFail("PANIC", "panic: %v", r)
			}
		}()
		run()
	}()
	switch {
	case len(c.Ops) <= 5:
		w.classes["size:ops<=5"] = 1
	case len(c.Ops) <= 15:
		w.classes["size:ops6-15"] = 1
	default:
		w.classes["size:ops>15"] = 1
	}
	switch {
	case w.head == 0:
		w.classes["size:head=0"] = 1
	case w.head <= 8:
		w.classes["size:head1-8"] = 1
	default:
		w.classes["size:head>8"] = 1
	}
	return verdict{Fail: w.fail, NonTrivial: w.nonTrivial, Classes: w.classes, Hist: w.hist}
}

func abs(x int) int {
	if x < 0 {
		return -x
	}
	return x
}

func genChangeStore() *rapid.Generator[csCase] {
	maxOps := kit.Pick(24, 40)
	// weights by repetition
	kinds := []int{ckOp, ckOp, ckOp, ckOp, ckPut, ckPut, ckPut, ckClear, ckOpAndPut, ckEmpty}
	opNames := []string{"fetch", "push", "evict", "fetch", "push", "remove", "fetch", "push", "fetch", "evict", "fetch", "push", "fetch", "push"}
	change := rapid.Custom(func(t *rapid.T) csChange {
		return csChange{Kind: rapid.SampledFrom(kinds).Draw(t, "kind"), Actor: rapid.IntRange(0, len(csActors)-1).Draw(t, "actor")}
	})
	mk := func(t *rapid.T, name string, modes []int) csOp {
		o := csOp{Op: name}
		switch o.Op {
		case "push":
			// mostly 1..5 changes; an empty push (document removal without changes) now and then
			if rapid.SampledFrom([]int{1, 1, 1, 1, 1, 1, 1, 1, 1, 0}).Draw(t, "nonempty") == 1 {
				o.Changes = rapid.SliceOfN(change, 1, 5).Draw(t, "changes")
			}
		case "fetch":
			o.Mode = rapid.SampledFrom(modes).Draw(t, "mode")
			o.A = rapid.IntRange(0, 60).Draw(t, "a")
			if o.Mode != 0 {
				o.B = rapid.IntRange(0, 60).Draw(t, "b")
			}
			// fault on the 1st/2nd/3rd fetcher call in 40% of the fetches
			o.FailAt = rapid.SampledFrom([]int{0, 1, 0, 2, 0, 1, 0, 3, 0, 0}).Draw(t, "failAt")
		case "evict":
			o.Which = rapid.SampledFrom([]int{0, 2, 0, 1, 0}).Draw(t, "which")
		case "remove":
			o.Actor = rapid.IntRange(0, len(csActors)-1).Draw(t, "actor")
		}
		return o
	}
	op := rapid.Custom(func(t *rapid.T) csOp {
		return mk(t, rapid.SampledFrom(opNames).Draw(t, "op"), []int{0, 1, 2, 1, 0})
	})
	pushOp := rapid.Custom(func(t *rapid.T) csOp { return mk(t, "push", nil) })
	windowFetch := rapid.Custom(func(t *rapid.T) csOp { return mk(t, "fetch", []int{1}) })
	return rapid.Custom(func(t *rapid.T) csCase {
		var ops []csOp
		// a third of the programs start with a scripted preamble that leaves the
		// operations store with several separate covered ranges: pushes, an
		// eviction of the operations store, a few short window fetches
		if rapid.IntRange(0, 2).Draw(t, "shape") == 0 {
			ops = append(ops, rapid.SliceOfN(pushOp, 2, 4).Draw(t, "pre_push")...)
			ops = append(ops, csOp{Op: "evict", Which: rapid.SampledFrom([]int{0, 2}).Draw(t, "pre_which")})
			ops = append(ops, rapid.SliceOfN(windowFetch, 1, 3).Draw(t, "pre_fetch")...)
		}
		ops = append(ops, rapid.SliceOfN(op, 3, maxOps-len(ops)).Draw(t, "ops")...)
		return csCase{Ops: ops, FinalFailAt: rapid.SampledFrom([]int{0, 2, 0, 1, 3, 0}).Draw(t, "final_fail_at")}
	})
}

// reduceChangeStore lists the cases that are one element smaller.
func reduceChangeStore(c csCase) []csCase {
	var out []csCase
	with := func(i int, repl *csOp) csCase {
		ops := append([]csOp{}, c.Ops[:i]...)
		if repl != nil {
			ops = append(ops, *repl)
		}
		return csCase{Ops: append(ops, c.Ops[i+1:]...), FinalFailAt: c.FinalFailAt}
	}
	for i := range c.Ops {
		out = append(out, with(i, nil))
	}
	if c.FinalFailAt != 0 {
		out = append(out, csCase{Ops: c.Ops})
	}
	for i, op := range c.Ops {
		if op.FailAt != 0 {
			o := op
			o.FailAt = 0
			out = append(out, with(i, &o))
		}
		for j := range op.Changes {
			o := op
			o.Changes = append(append([]csChange{}, op.Changes[:j]...), op.Changes[j+1:]...)
			out = append(out, with(i, &o))
		}
	}
	return out
}

func TestC20ChangeStore(t *testing.T) {
	runRapid(t, "changestore", "changestore", genChangeStore(), evalChangeStore, reduceChangeStore)
}
