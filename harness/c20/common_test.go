// Package c20 checks property C20 (server-side caches are transparent),
// parts (a) mongo.ChangeStore against a ground-truth change table and
// (b) the pkg/cache LRU wrappers against a reference model.
package c20

import (
	"encoding/json"
	"fmt"
	"hash/fnv"
	"testing"
	"time"

	"pgregory.net/rapid"

	"verifharness/kit"
	"verifharness/stats"
)

const prop = "C20"

func init() { kit.Pkg = "c20" }

// verdict is what evaluating one case yields.
type verdict struct {
	Fail       *kit.Failure
	NonTrivial bool
	Classes    map[string]int
	Hist       []string
}

func hash64(b []byte) uint64 {
	h := fnv.New64a()
	_, _ = h.Write(b)
	return h.Sum64()
}

// runRapid drives one case-shaped sub-check with rapid: every case is a plain
// value drawn up front (so rapid's shrinker works), evaluated by eval, counted
// in the collector; the smallest failing case seen (rapid re-evaluates while
// shrinking) becomes the replay file.
func runRapid[C any](t *testing.T, part, kind string, gen *rapid.Generator[C], eval func(c C, trace bool) verdict, reduce func(c C) []C) {
	col := stats.New(prop, part)
	var (
		best     *C
		bestSize int
		bestHash uint64
	)
	harnessErr := ""
	defer func() {
		if best != nil {
			// the generators have minimum lengths; finish rapid's shrinking with a
			// greedy pass that drops single elements while the case keeps failing
			deadline := time.Now().Add(20 * time.Second)
			for progress := true; progress && time.Now().Before(deadline); {
				progress = false
				for _, cand := range reduce(*best) {
					if v := eval(cand, false); v.Fail != nil && v.Fail.Kind != "HARNESS" {
						cc := cand
						best, progress = &cc, true
						break
					}
				}
			}
			if raw, err := json.Marshal(*best); err == nil {
				bestHash = hash64(raw)
			}
			v := eval(*best, true)
			if v.Fail == nil { // not reproducible in a second evaluation: keep the message of the first
				v.Fail = kit.Failf("FLAKY", "case failed during the search but passed when re-evaluated for the replay file")
			}
			path := kit.WriteReplay(prop, kind, fmt.Sprintf("%s-%016x", part, bestHash), *best, v.Fail, v.Hist)
			col.AddViolation(stats.Violation{Replay: path, Kind: v.Fail.Kind, Msg: v.Fail.Msg})
			kit.ReportViolation(prop, path, v.Fail)
			for _, h := range v.Hist {
				fmt.Printf("    %s\n", h)
			}
		}
		if harnessErr != "" {
			fmt.Printf("HARNESS-ERROR property=%s %s\n", prop, harnessErr)
		}
		col.Flush(true)
	}()
	rapid.Check(t, func(rt *rapid.T) {
		c := gen.Draw(rt, "case")
		raw, err := json.Marshal(c)
		if err != nil {
			harnessErr = "marshal case: " + err.Error()
			rt.Fatalf("harness error: %v", err)
		}
		v := eval(c, false)
		h := hash64(raw)
		col.Record(h, v.NonTrivial && v.Fail == nil, v.Classes, func() any {
			return map[string]any{"case": c, "history": eval(c, true).Hist}
		})
		if v.Fail != nil {
			if v.Fail.Kind == "HARNESS" {
				harnessErr = v.Fail.Msg
				rt.Fatalf("harness error: %s", v.Fail.Msg)
			}
			if best == nil || len(raw) < bestSize {
				cc := c
				best, bestSize, bestHash = &cc, len(raw), h
			}
			rt.Fatalf("%s", v.Fail.Error())
		}
	})
}

// TestReplay re-executes a saved failing case without rapid.
func TestReplay(t *testing.T) {
	kit.Replay(t, map[string]kit.Replayer{
		"changestore": func(raw json.RawMessage) *kit.Failure {
			var c csCase
			if err := json.Unmarshal(raw, &c); err != nil {
				return kit.Failf("HARNESS", "HARNESS-ERROR bad changestore case: %v", err)
			}
			v := evalChangeStore(c, true)
			if v.Fail != nil {
				for _, h := range v.Hist {
					fmt.Printf("    %s\n", h)
				}
			}
			return v.Fail
		},
		"lru": func(raw json.RawMessage) *kit.Failure {
			var c lruCase
			if err := json.Unmarshal(raw, &c); err != nil {
				return kit.Failf("HARNESS", "HARNESS-ERROR bad lru case: %v", err)
			}
			return replayLRU(c)
		},
	})
}
