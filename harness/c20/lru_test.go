package c20

import (
	"fmt"
	"sync"
	"sync/atomic"
	"testing"
	"time"

	"pgregory.net/rapid"

	"github.com/yorkie-team/yorkie/pkg/cache"

	"verifharness/kit"
)

// C20 (b): the pkg/cache LRU wrappers against a reference model that states
// only what is deterministic.
//
//   - cache.LRU (16 shards, per-shard capacity max(size/16,1), shard chosen by
//     a per-process random hash): a bounds model. A key is MUST-PRESENT while
//     fewer than perShard distinct other keys were used (Add, or Get hit) since
//     its own last use (then it cannot be the eviction victim of any shard);
//     MUST-ABSENT when never added, removed, purged, or seen missing since its
//     last Add; otherwise MAYBE. A hit always has to carry the value of the
//     key's last Add. MUST-PRESENT <= Len <= min(16*perShard, keys not MUST-ABSENT).
//   - cache.LRUWithExpires without TTL or with a 1h TTL: an exact LRU model
//     (Add and Get hit move to the front, Peek/Contains do not, capacity
//     `size`, size <= 0 unbounded): every answer and Len are compared exactly.
//   - cache.LRUWithExpires with a short real TTL (one shared cache per
//     process, fresh keys per case): only monotone facts: a hit carries the last
//     added value, a removed/purged/never added key misses, and after sleeping
//     longer than the TTL every key added before the sleep misses on Get/Peek.

type lruOp struct {
	Op string `json:"op"` // add | get | peek | contains | remove | purge | len | sleep
	K  int    `json:"k,omitempty"`
	// Ref 0: K names a key of the universe (mod Keys); Ref 1: K counts back
	// from the most recently added key (mod the number of keys added so far).
	Ref int `json:"ref,omitempty"`
}

type lruCase struct {
	Kind string  `json:"kind"`          // sharded | expires
	TTL  string  `json:"ttl,omitempty"` // expires: "" (no expiry) | long | short
	Size int     `json:"size"`
	Keys int     `json:"keys"` // size of the key universe
	Salt int     `json:"salt"` // key naming variant (moves keys to other shards)
	Ops  []lruOp `json:"ops"`
}

type lruAPI interface {
	Get(string) (int, bool)
	Add(string, int) bool
	Contains(string) bool
	Peek(string) (int, bool)
	Remove(string) bool
	Purge()
	Len() int
}

const (
	shortTTL   = 20 * time.Millisecond
	shortSleep = 2*shortTTL + 10*time.Millisecond
	longTTL    = time.Hour
	lruShards  = 16 // numShards of cache.LRU
)

var (
	sharedShortOnce sync.Once
	sharedShort     *cache.LRUWithExpires[string, int]
	lruRun          atomic.Int64
)

// tri-state of a key in the model
const (
	stAbsent = iota
	stPresent
	stMaybe
)

// lruModel answers, for a key, whether the cache must / must not / may hold it
// and with which value.
type lruModel interface {
	state(k int) (st int, val int)
	add(k, v int)
	hit(k int, promote bool) // an observed hit
	miss(k int)              // an observed miss
	remove(k int)
	purge()
	lenBounds() (lo, hi int)
	expireAll()
}

// ---- exact LRU (unsharded, no effective expiry) ----

type exactLRU struct {
	cap   int   // <= 0: unbounded
	order []int // front (most recent) first
	vals  map[int]int
	evict int
}

func (m *exactLRU) idx(k int) int {
	for i, x := range m.order {
		if x == k {
			return i
		}
	}
	return -1
}
func (m *exactLRU) front(k int) {
	if i := m.idx(k); i >= 0 {
		m.order = append(m.order[:i], m.order[i+1:]...)
	}
	m.order = append([]int{k}, m.order...)
}
func (m *exactLRU) state(k int) (int, int) {
	if v, ok := m.vals[k]; ok {
		return stPresent, v
	}
	return stAbsent, 0
}
func (m *exactLRU) add(k, v int) {
	m.vals[k] = v
	m.front(k)
	if m.cap > 0 && len(m.order) > m.cap {
		victim := m.order[len(m.order)-1]
		m.order = m.order[:len(m.order)-1]
		delete(m.vals, victim)
		m.evict++
	}
}
func (m *exactLRU) hit(k int, promote bool) {
	if promote {
		m.front(k)
	}
}
func (m *exactLRU) miss(int) {}
func (m *exactLRU) remove(k int) {
	if i := m.idx(k); i >= 0 {
		m.order = append(m.order[:i], m.order[i+1:]...)
	}
	delete(m.vals, k)
}
func (m *exactLRU) purge()                { m.order, m.vals = nil, map[int]int{} }
func (m *exactLRU) lenBounds() (int, int) { return len(m.order), len(m.order) }
func (m *exactLRU) expireAll()            {}

// ---- bounds model (sharded) ----

type boundsLRU struct {
	perShard int
	live     map[int]bool
	vals     map[int]int
	lastUse  map[int]int // index into uses of the key's last use
	uses     []int       // keys in order of use
}

func (m *boundsLRU) state(k int) (int, int) {
	if !m.live[k] {
		return stAbsent, 0
	}
	others := map[int]bool{}
	for _, x := range m.uses[m.lastUse[k]+1:] {
		if x != k {
			others[x] = true
		}
	}
	if len(others) < m.perShard {
		return stPresent, m.vals[k]
	}
	return stMaybe, m.vals[k]
}
func (m *boundsLRU) touch(k int) {
	m.uses = append(m.uses, k)
	m.lastUse[k] = len(m.uses) - 1
}
func (m *boundsLRU) add(k, v int) {
	m.live[k], m.vals[k] = true, v
	m.touch(k)
}
func (m *boundsLRU) hit(k int, promote bool) {
	if promote {
		m.touch(k)
	}
}
func (m *boundsLRU) miss(k int)   { m.live[k] = false }
func (m *boundsLRU) remove(k int) { m.live[k] = false }
func (m *boundsLRU) purge()       { m.live = map[int]bool{} }
func (m *boundsLRU) lenBounds() (int, int) {
	lo, hi := 0, 0
	for k, l := range m.live {
		if !l {
			continue
		}
		hi++
		if st, _ := m.state(k); st == stPresent {
			lo++
		}
	}
	if c := lruShards * m.perShard; hi > c {
		hi = c
	}
	return lo, hi
}
func (m *boundsLRU) expireAll() {}

// ---- short TTL model: monotone facts only ----

type ttlModel struct {
	maybe map[int]bool
	vals  map[int]int
}

func (m *ttlModel) state(k int) (int, int) {
	if m.maybe[k] {
		return stMaybe, m.vals[k]
	}
	return stAbsent, 0
}
func (m *ttlModel) add(k, v int)          { m.maybe[k], m.vals[k] = true, v }
func (m *ttlModel) hit(int, bool)         {}
func (m *ttlModel) miss(int)              {} // a miss may be an expiry; the key stays "maybe" (it is anyway never required)
func (m *ttlModel) remove(k int)          { m.maybe[k] = false }
func (m *ttlModel) purge()                { m.maybe = map[int]bool{} }
func (m *ttlModel) lenBounds() (int, int) { return 0, 1 << 30 }
func (m *ttlModel) expireAll()            { m.maybe = map[int]bool{} }

func evalLRU(c lruCase, trace bool) verdict {
	classes := map[string]int{}
	var hist []string
	var fail *kit.Failure
	logf := func(format string, a ...any) {
		if trace {
			hist = append(hist, fmt.Sprintf(format, a...))
		}
	}
	failf := func(kind, format string, a ...any) {
		if fail == nil {
			fail = kit.Failf(kind, format, a...)
			logf("  !! %s", fail.Error())
		}
	}

	nKeys := c.Keys
	if nKeys < 1 {
		nKeys = 1
	}
	prefix := fmt.Sprintf("s%d-", c.Salt)
	var api lruAPI
	var model lruModel
	short := false
	switch {
	case c.Kind == "sharded":
		l, err := cache.NewLRU[string, int](c.Size, "c20")
		if err != nil {
			return verdict{Fail: kit.Failf("HARNESS", "NewLRU(%d): %v", c.Size, err)}
		}
		per := c.Size / lruShards
		if per < 1 {
			per = 1
		}
		api = l
		model = &boundsLRU{perShard: per, live: map[int]bool{}, vals: map[int]int{}, lastUse: map[int]int{}}
		classes["kind:sharded"] = 1
		if nKeys <= per {
			classes["sharded:no_eviction_possible(exact)"] = 1
		} else {
			classes["sharded:eviction_possible"] = 1
		}
	case c.Kind == "expires" && c.TTL == "short":
		sharedShortOnce.Do(func() {
			sharedShort, _ = cache.NewLRUWithExpires[string, int](0, shortTTL, "c20-short")
		})
		if sharedShort == nil {
			return verdict{Fail: kit.Failf("HARNESS", "NewLRUWithExpires failed")}
		}
		api = sharedShort
		model = &ttlModel{maybe: map[int]bool{}, vals: map[int]int{}}
		prefix = fmt.Sprintf("r%d-%s", lruRun.Add(1), prefix)
		short = true
		classes["kind:expires_short_ttl"] = 1
	case c.Kind == "expires":
		ttl := time.Duration(0)
		if c.TTL == "long" {
			ttl = longTTL
			classes["kind:expires_long_ttl"] = 1
		} else {
			classes["kind:expires_no_ttl"] = 1
		}
		l, err := cache.NewLRUWithExpires[string, int](c.Size, ttl, "c20")
		if err != nil {
			return verdict{Fail: kit.Failf("HARNESS", "NewLRUWithExpires(%d): %v", c.Size, err)}
		}
		api = l
		model = &exactLRU{cap: c.Size, vals: map[int]int{}}
	default:
		return verdict{Fail: kit.Failf("HARNESS", "unknown lru kind %q", c.Kind)}
	}
	key := func(k int) string { return fmt.Sprintf("%sk%d", prefix, k) }

	// why a key that was added before is (possibly) not there any more
	const (
		goneNo = iota
		goneRemoved
		gonePurged
		goneExpired
	)
	gone := map[int]int{}
	added := map[int]bool{}
	var addOrder []int // distinct keys, most recently added last
	nonTrivial := false
	sleeps := 0

	lookup := func(i int, name string, k int, got int, ok bool, hasVal, promote bool) {
		st, val := model.state(k)
		logf("%d: %s(k%d) -> %d,%v (model: %s %d)", i, name, k, got, ok, [...]string{"must-miss", "must-hit", "may-hit"}[st], val)
		switch {
		case ok && st == stAbsent:
			why := "was never added"
			switch gone[k] {
			case goneRemoved:
				why = "was removed"
			case gonePurged:
				why = "was purged"
			case goneExpired:
				why = fmt.Sprintf("was added more than %v (TTL %v) ago", shortSleep, shortTTL)
			default:
				if added[k] {
					why = "is no longer cached (evicted as least recently used, or seen missing) and was not added again"
				}
			}
			failf("STALE-HIT", "op %d: %s(k%d) hit with value %d although the key %s", i, name, k, got, why)
		case !ok && st == stPresent:
			failf("LOST-ENTRY", "op %d: %s(k%d) missed although the key was added (value %d) and no eviction can have hit it", i, name, k, val)
		case ok && hasVal && got != val:
			failf("WRONG-VALUE", "op %d: %s(k%d) returned %d, the last value added for the key is %d", i, name, k, got, val)
		}
		if fail != nil {
			return
		}
		if ok {
			classes["lookup:hit"] = 1
			if st == stMaybe {
				classes["lookup:may_hit->hit"] = 1
			}
			model.hit(k, promote)
		} else {
			classes["lookup:miss"] = 1
			if st == stMaybe {
				classes["lookup:may_hit->miss"] = 1
			}
			model.miss(k)
		}
		if added[k] {
			switch {
			case gone[k] == goneRemoved:
				classes["lookup:after_remove"] = 1
				nonTrivial = true
			case gone[k] == gonePurged:
				classes["lookup:after_purge"] = 1
				nonTrivial = true
			case gone[k] == goneExpired:
				classes["lookup:after_ttl"] = 1
				nonTrivial = true
			case st == stMaybe && !short:
				nonTrivial = true
			case st == stAbsent: // exact model evicted it
				classes["lookup:after_capacity_eviction"] = 1
				nonTrivial = true
			}
		}
	}

	func() {
		defer func() {
			if r := recover(); r != nil {
				failf("PANIC", "panic: %v", r)
			}
		}()
		ops := c.Ops
		if short {
			// every short-TTL case ends with: sleep past the TTL, then look up the whole universe
			ops = append(append([]lruOp{}, c.Ops...), lruOp{Op: "sleep", K: -1})
			for k := 0; k < nKeys; k++ {
				ops = append(ops, lruOp{Op: [...]string{"get", "peek"}[k%2], K: k})
			}
		}
		for i, op := range ops {
			if fail != nil {
				return
			}
			k := abs(op.K) % nKeys
			if op.Ref == 1 && len(addOrder) > 0 {
				k = addOrder[len(addOrder)-1-abs(op.K)%len(addOrder)]
			}
			switch op.Op {
			case "add":
				v := 1000*(i+1) + k // unique per Add, names the key
				if st, _ := model.state(k); st != stAbsent {
					classes["add:overwrite"] = 1
				}
				api.Add(key(k), v)
				model.add(k, v)
				added[k], gone[k] = true, goneNo
				for x, y := range addOrder {
					if y == k {
						addOrder = append(addOrder[:x], addOrder[x+1:]...)
						break
					}
				}
				addOrder = append(addOrder, k)
				logf("%d: Add(k%d,%d)", i, k, v)
			case "get":
				got, ok := api.Get(key(k))
				lookup(i, "Get", k, got, ok, true, true)
			case "peek":
				got, ok := api.Peek(key(k))
				lookup(i, "Peek", k, got, ok, true, false)
			case "contains":
				if short && gone[k] == goneExpired {
					// the library's Contains does not look at the expiry time; whether the
					// background sweep already ran is timing, so nothing is asserted
					continue
				}
				ok := api.Contains(key(k))
				lookup(i, "Contains", k, 0, ok, false, false)
			case "remove":
				st, _ := model.state(k)
				was := api.Remove(key(k))
				logf("%d: Remove(k%d) -> %v", i, k, was)
				if was && st == stAbsent && !(short && gone[k] == goneExpired) {
					failf("STALE-HIT", "op %d: Remove(k%d) reports the key was contained although it must be absent", i, k)
				}
				if !was && st == stPresent {
					failf("LOST-ENTRY", "op %d: Remove(k%d) reports the key was not contained although it must be present", i, k)
				}
				model.remove(k)
				if added[k] && gone[k] == goneNo {
					gone[k] = goneRemoved
				}
				classes["op:remove"] = 1
			case "purge":
				api.Purge()
				model.purge()
				for x := range added {
					if gone[x] == goneNo {
						gone[x] = gonePurged
					}
				}
				classes["op:purge"] = 1
				logf("%d: Purge()", i)
			case "len":
				if short {
					continue // shared cache
				}
				n := api.Len()
				lo, hi := model.lenBounds()
				logf("%d: Len() -> %d (model %d..%d)", i, n, lo, hi)
				if n < lo || n > hi {
					failf("WRONG-LEN", "op %d: Len() = %d, the model allows %d..%d", i, n, lo, hi)
				}
				classes["op:len"] = 1
				if lo == hi {
					classes["len:exact"] = 1
				}
			case "sleep":
				if !short || (sleeps >= 1 && op.K != -1) {
					continue // at most one drawn sleep per case, plus the closing one
				}
				sleeps++
				time.Sleep(shortSleep)
				model.expireAll()
				for x := range added {
					if gone[x] == goneNo {
						gone[x] = goneExpired
					}
				}
				classes["op:sleep_past_ttl"] = 1
				logf("%d: sleep %v (> TTL %v)", i, shortSleep, shortTTL)
			default:
				failf("HARNESS", "unknown op %q", op.Op)
			}
		}
		if fail == nil && !short { // epilogue
			n := api.Len()
			lo, hi := model.lenBounds()
			if n < lo || n > hi {
				failf("WRONG-LEN", "at the end: Len() = %d, the model allows %d..%d", n, lo, hi)
			}
		}
	}()
	if m, ok := model.(*exactLRU); ok && m.evict > 0 {
		classes["exact:model_evicted"] = 1
	}
	return verdict{Fail: fail, NonTrivial: nonTrivial, Classes: classes, Hist: hist}
}

// replayLRU re-executes a saved case. The shard of a key depends on a
// per-process random hash seed, so a sharded case is tried under many key
// namings (starting with its own).
func replayLRU(c lruCase) *kit.Failure {
	v := evalLRU(c, true)
	if v.Fail == nil && c.Kind == "sharded" {
		for salt := 0; salt < 256 && v.Fail == nil; salt++ {
			cc := c
			cc.Salt = salt
			v = evalLRU(cc, true)
		}
	}
	if v.Fail != nil {
		for _, h := range v.Hist {
			fmt.Printf("    %s\n", h)
		}
	}
	return v.Fail
}

func genLRU() *rapid.Generator[lruCase] {
	maxOps := kit.Pick(36, 60)
	opNames := []string{"add", "add", "add", "add", "add", "add", "add", "get", "get", "get", "get", "get",
		"peek", "peek", "contains", "contains", "remove", "remove", "purge", "len", "len"}
	shortOps := append(append([]string{}, opNames...), "sleep", "sleep", "sleep")
	expSizes := []int{1, 2, 3, 0, 2, 4, 1, 6, -1, 3}
	shardedSizes := []int{-3, 0, 1, 5, 16, 17, 31, 32, 40, 48, 64, 80, 128}
	mkOps := func(names []string, t *rapid.T) []lruOp {
		op := rapid.Custom(func(t *rapid.T) lruOp {
			o := lruOp{Op: rapid.SampledFrom(names).Draw(t, "op")}
			if o.Op != "purge" && o.Op != "len" && o.Op != "sleep" {
				o.K = rapid.IntRange(0, 11).Draw(t, "k")
				if o.Op != "add" {
					o.Ref = rapid.IntRange(0, 1).Draw(t, "ref")
				}
			}
			return o
		})
		return rapid.SliceOfN(op, 6, maxOps).Draw(t, "ops")
	}
	return rapid.Custom(func(t *rapid.T) lruCase {
		var c lruCase
		names := opNames
		switch rapid.IntRange(0, 3).Draw(t, "kind") {
		case 0, 1:
			c.Kind = "sharded"
			c.Size = rapid.SampledFrom(shardedSizes).Draw(t, "size")
			c.Keys = rapid.IntRange(1, 12).Draw(t, "keys")
			c.Salt = rapid.IntRange(0, 15).Draw(t, "salt")
		case 2:
			c.Kind = "expires"
			c.Size = rapid.SampledFrom(expSizes).Draw(t, "size")
			c.Keys = rapid.IntRange(1, 8).Draw(t, "keys")
		default:
			c.Kind = "expires"
			c.Size = rapid.SampledFrom(expSizes).Draw(t, "size")
			c.Keys = rapid.IntRange(1, 8).Draw(t, "keys")
			// rare variants, selected by fair coin flips (rapid's integer ranges are
			// biased to small values): short real TTL ~1/512 of all cases (they
			// sleep), 1h TTL ~1/70 (each leaves a sweeper goroutine behind)
			n := 0
			for n < 7 && rapid.Bool().Draw(t, "rare") {
				n++
			}
			switch {
			case n == 7:
				c.TTL = "short"
				names = shortOps
			case n >= 4:
				c.TTL = "long"
			}
		}
		c.Ops = mkOps(names, t)
		return c
	})
}

// reduceLRU lists the cases that are one operation shorter.
func reduceLRU(c lruCase) []lruCase {
	var out []lruCase
	for i := range c.Ops {
		cc := c
		cc.Ops = append(append([]lruOp{}, c.Ops[:i]...), c.Ops[i+1:]...)
		out = append(out, cc)
	}
	return out
}

func TestC20LRU(t *testing.T) {
	runRapid(t, "lru", "lru", genLRU(), evalLRU, reduceLRU)
}
