package c14

import (
	"fmt"
	"os"
	"runtime/debug"
	"sort"
	"strings"
	"unicode/utf16"

	"github.com/yorkie-team/yorkie/api/converter"
	api "github.com/yorkie-team/yorkie/api/yorkie/v1"
	"github.com/yorkie-team/yorkie/pkg/document"
	"github.com/yorkie-team/yorkie/pkg/document/change"
	"github.com/yorkie-team/yorkie/pkg/document/crdt"
	"github.com/yorkie-team/yorkie/pkg/document/json"
	"github.com/yorkie-team/yorkie/pkg/document/operations"
	"github.com/yorkie-team/yorkie/pkg/document/presence"
	"github.com/yorkie-team/yorkie/pkg/document/time"
	"github.com/yorkie-team/yorkie/pkg/key"

	"verifharness/kit"
	"verifharness/prog"
)

const docKey = key.Key("c14-doc")

// ---------------------------------------------------------------------------
// In-memory relay: the part of the server protocol a replica can observe
// (log order, own changes not echoed, checkpoint, minimum version vector over
// the vectors the attached replicas reported in their own latest request).
// Changes travel through the protobuf converter, so replicas never share
// operation objects.

type relay struct {
	log      []*api.Change
	owner    []string
	reported map[string]time.VersionVector
	cursor   map[string]int
	actors   []string
}

func newRelay(docs ...*document.Document) *relay {
	r := &relay{reported: map[string]time.VersionVector{}, cursor: map[string]int{}}
	for _, d := range docs {
		r.actors = append(r.actors, d.ActorID().String())
	}
	return r
}

// minVV is the pointwise minimum of the reported vectors; empty (purges
// nothing) while some attached replica has not reported yet.
func (r *relay) minVV() time.VersionVector {
	var out time.VersionVector
	for _, a := range r.actors {
		vv, ok := r.reported[a]
		if !ok {
			return time.NewVersionVector()
		}
		if out == nil {
			out = vv.DeepCopy()
			continue
		}
		out.Min(&vv)
	}
	if out == nil {
		out = time.NewVersionVector()
	}
	return out
}

// push stores the pending local changes of d (from index `from` of its pack)
// and returns how many changes the pack holds.
func (r *relay) push(d *document.Document, from int) (int, error) {
	actor := d.ActorID().String()
	pack := d.CreateChangePack()
	if from > len(pack.Changes) {
		return 0, fmt.Errorf("harness: %d local changes, %d already sent", len(pack.Changes), from)
	}
	sub := change.NewPack(pack.DocumentKey, pack.Checkpoint, pack.Changes[from:], pack.VersionVector, nil)
	pb, err := converter.ToChangePack(sub)
	if err != nil {
		return 0, fmt.Errorf("encode pack: %w", err)
	}
	r.reported[actor] = pack.VersionVector.DeepCopy()
	for _, c := range pb.Changes {
		c.Id.ServerSeq = int64(len(r.log) + 1)
		r.log = append(r.log, c)
		r.owner = append(r.owner, actor)
	}
	return len(pack.Changes), nil
}

// pull delivers everything d has not seen and (gc) the minimum vector.
func (r *relay) pull(d *document.Document, ackClientSeq uint32, gc bool) error {
	actor := d.ActorID().String()
	var out []*api.Change
	for i := r.cursor[actor]; i < len(r.log); i++ {
		if r.owner[i] != actor {
			out = append(out, r.log[i])
		}
	}
	r.cursor[actor] = len(r.log)
	changes, err := converter.FromChanges(out)
	if err != nil {
		return fmt.Errorf("decode changes: %w", err)
	}
	vv := time.NewVersionVector()
	if gc {
		vv = r.minVV()
	}
	resp := change.NewPack(docKey, change.NewCheckpoint(int64(len(r.log)), ackClientSeq), changes, vv, nil)
	return d.ApplyChangePack(resp)
}

// sync is a full push-pull of d.
func (r *relay) sync(d *document.Document) (err error) {
	defer func() {
		if p := recover(); p != nil {
			err = fmt.Errorf("PANIC in sync: %v\n%s", p, debug.Stack())
		}
	}()
	pack := d.CreateChangePack()
	if _, err := r.push(d, 0); err != nil {
		return err
	}
	// the request vector is what the replica had applied before this pull
	return r.pull(d, pack.Checkpoint.ClientSeq, true)
}

// ---------------------------------------------------------------------------
// Edit interpreter: prog.ApplyEdit, except that text ranges are aligned to
// code point boundaries (splitting a surrogate pair is lossy in a Go string
// and outside this property) and undo/redo are never executed here.

func isLowSurrogate(u uint16) bool { return u >= 0xDC00 && u <= 0xDFFF }

func applyEdit(d *document.Document, s prog.Step) (desc string, err error) {
	if s.Op != "tedit" && s.Op != "tstyle" {
		return prog.ApplyEdit(d, s)
	}
	defer func() {
		if r := recover(); r != nil {
			err = fmt.Errorf("PANIC in %s: %v\n%s", desc, r, debug.Stack())
		}
	}()
	desc = s.Op
	err = d.Update(func(r *json.Object, p *presence.Presence) error {
		tx := r.GetText("t")
		if tx == nil {
			r.SetNewText("t")
			desc = "recreate t"
			return nil
		}
		units := utf16.Encode([]rune(tx.String()))
		n := len(units)
		from := s.A % (n + 1)
		to := min(n, from+s.B%4)
		if from > 0 && from < n && isLowSurrogate(units[from]) {
			from--
		}
		if to > 0 && to < n && isLowSurrogate(units[to]) {
			to++
		}
		if s.Op == "tedit" {
			c := prog.Contents[s.C%len(prog.Contents)]
			if c == "" && from == to {
				c = "q"
			}
			tx.Edit(from, to, c)
			desc = fmt.Sprintf("t.edit %d %d %q", from, to, c)
		} else {
			k := []string{"b", "i"}[s.C%2]
			v := []string{"1", "2"}[(s.C/2)%2]
			tx.Style(from, to, map[string]string{k: v})
			desc = fmt.Sprintf("t.style %d %d %s=%s", from, to, k, v)
		}
		return nil
	})
	return desc, err
}

// KindOf maps an edit op to the element kind it touches.
func kindOf(op string) string {
	switch op {
	case "oset", "odel", "rootset", "rootdel", "onest", "replObj", "replArr", "replText":
		return "obj"
	case "aadd", "ains", "adel", "amove", "amovefront", "aset":
		return "arr"
	case "tedit", "tstyle":
		return "text"
	case "cinc":
		return "counter"
	case "trtext", "trins", "trdel", "trstyle":
		return "tree"
	}
	return ""
}

// ---------------------------------------------------------------------------
// Exclusion of the listed known finding F2 (ArraySet executed on an element
// whose position was set by a move). The trigger is decided on the editing
// replica's own state right before the step.

func movedInArray(d *document.Document, createdAt *time.Ticket) bool {
	if createdAt == nil {
		return false
	}
	arr, ok := d.RootObject().Get("a").(*crdt.Array)
	if !ok || arr == nil {
		return false
	}
	n := arr.RGATreeList().GetByID(createdAt)
	return n != nil && n.PositionMovedAt() != nil
}

// entryTriggersF2 reports whether a stacked history entry would execute an
// ArraySet on a moved element.
func entryTriggersF2(d *document.Document, ops []document.HistoryOperation) bool {
	for _, h := range ops {
		if set, ok := h.Op.(*operations.ArraySet); ok && movedInArray(d, set.CreatedAt()) {
			return true
		}
	}
	return false
}

// entryHasObjectSet reports whether a stacked entry contains an Object.Set
// (the trigger of the listed finding F6 once the applying peer collects
// garbage afterwards).
func entryHasObjectSet(ops []document.HistoryOperation) bool {
	for _, h := range ops {
		if _, ok := h.Op.(*operations.Set); ok {
			return true
		}
	}
	return false
}

// entrySetsNonEmptyText reports whether a stacked entry contains an
// Object.Set whose value is a Text that holds any node, live or tombstoned
// (finding F32: the wire form of a Text value carries no nodes at all, so
// the peer restores an empty text; even when every node is a tombstone a
// later restore-by-identity recreates them there in a different order).
func entrySetsNonEmptyText(ops []document.HistoryOperation) bool {
	for _, h := range ops {
		if set, ok := h.Op.(*operations.Set); ok {
			if tx, ok := set.Value().(*crdt.Text); ok {
				for _, n := range tx.Nodes() {
					if v := n.Value(); v != nil && v.Value() != "" {
						return true
					}
				}
			}
		}
	}
	return false
}

// excluding reports whether the trigger of the given finding is excluded by
// construction: always, unless VERIF_NO_EXCLUSIONS is set (replay of a known
// finding) or the id is listed in VERIF_C14_ALLOW (investigation).
func excluding(id string) bool {
	if kit.NoExclusions() {
		return false
	}
	return !strings.Contains(","+os.Getenv("VERIF_C14_ALLOW")+",", ","+id+",")
}

// guard rewrites a step that would trigger F2; it returns the step to run
// ("" op = skip) and the finding id.
func guard(d *document.Document, s prog.Step) (prog.Step, string) {
	if !excluding("F2") {
		return s, ""
	}
	switch s.Op {
	case "aset":
		return prog.GuardF2(d, s)
	case "undo":
		if entryTriggersF2(d, d.UndoStackTopForTest()) {
			s.Op = ""
			return s, "F2"
		}
	case "redo":
		if entryTriggersF2(d, d.RedoStackTopForTest()) {
			s.Op = ""
			return s, "F2"
		}
	}
	return s, ""
}

// ---------------------------------------------------------------------------
// Normalised visible content: objects/arrays/primitives/counters by value,
// text flattened per UTF-16 unit with its attributes, tree by ToXML (which
// concatenates adjacent text nodes).

func normalise(d *document.Document) string {
	var sb strings.Builder
	normElem(&sb, d.RootObject())
	return sb.String()
}

func normElem(sb *strings.Builder, e crdt.Element) {
	switch v := e.(type) {
	case *crdt.Object:
		m := v.Members()
		keys := make([]string, 0, len(m))
		for k := range m {
			keys = append(keys, k)
		}
		sort.Strings(keys)
		sb.WriteString("{")
		for i, k := range keys {
			if i > 0 {
				sb.WriteString(",")
			}
			fmt.Fprintf(sb, "%q:", k)
			normElem(sb, m[k])
		}
		sb.WriteString("}")
	case *crdt.Array:
		sb.WriteString("[")
		for i, el := range v.Elements() {
			if i > 0 {
				sb.WriteString(",")
			}
			normElem(sb, el)
		}
		sb.WriteString("]")
	case *crdt.Text:
		sb.WriteString("T<")
		for _, n := range v.Nodes() {
			if n.RemovedAt() != nil {
				continue
			}
			val := n.Value()
			if val == nil {
				continue
			}
			attrs := ""
			if val.Attrs() != nil && val.Attrs().Len() > 0 {
				attrs = val.Attrs().Marshal()
			}
			for _, u := range utf16.Encode([]rune(val.Value())) {
				fmt.Fprintf(sb, "%04x%s;", u, attrs)
			}
		}
		sb.WriteString(">")
	case *crdt.Tree:
		sb.WriteString("X<" + v.ToXML() + ">")
	default:
		sb.WriteString(e.Marshal())
	}
}

// identities renders the identity (creation ticket) of every live element,
// text unit and tree node. Used only to decide whether the two setup replicas
// really hold the same structure at the start (equal visible content over
// different identities is a divergence of the setup history, which belongs
// to the convergence properties).
func identities(d *document.Document) string {
	var sb strings.Builder
	identElem(&sb, d.InternalDocument().Root(), d.RootObject())
	return sb.String()
}

func identElem(sb *strings.Builder, root *crdt.Root, e crdt.Element) {
	sb.WriteString(e.CreatedAt().Key())
	if root.FindByCreatedAt(e.CreatedAt()) != e {
		// two elements share one identity and the registry resolves it to
		// the one that is not visible (left behind by concurrent undos of
		// Object.Set in the setup history, the F6 family)
		sb.WriteString("!CLASH")
	}
	switch v := e.(type) {
	case *crdt.Object:
		m := v.Members()
		keys := make([]string, 0, len(m))
		for k := range m {
			keys = append(keys, k)
		}
		sort.Strings(keys)
		sb.WriteString("{")
		for _, k := range keys {
			fmt.Fprintf(sb, "%q:", k)
			identElem(sb, root, m[k])
			sb.WriteString(",")
		}
		sb.WriteString("}")
	case *crdt.Array:
		sb.WriteString("[")
		for _, el := range v.Elements() {
			identElem(sb, root, el)
			sb.WriteString(",")
		}
		sb.WriteString("]")
	case *crdt.Text:
		sb.WriteString("T<")
		for _, n := range v.Nodes() {
			if n.RemovedAt() != nil || n.Value() == nil {
				continue
			}
			for i := range utf16.Encode([]rune(n.Value().Value())) {
				fmt.Fprintf(sb, "%s+%d;", n.ID().CreatedAt().Key(), n.ID().Offset()+i)
			}
		}
		sb.WriteString(">")
	case *crdt.Tree:
		sb.WriteString("X<")
		identTree(sb, v.Root())
		sb.WriteString(">")
	}
}

func identTree(sb *strings.Builder, n *crdt.TreeNode) {
	if n.IsText() {
		for i := range utf16.Encode([]rune(n.Value)) {
			fmt.Fprintf(sb, "%s+%d;", n.ID().CreatedAt.Key(), n.ID().Offset+i)
		}
		return
	}
	fmt.Fprintf(sb, "(%s+%d:", n.ID().CreatedAt.Key(), n.ID().Offset)
	for _, ch := range n.Index.Children() {
		identTree(sb, ch.Value)
	}
	sb.WriteString(")")
}

// entryTriggersF34 reports whether a stacked entry would re-insert an array
// element (Add reverse of an array delete) anchored on a position that an
// element was MOVED into and that element has since been removed (finding
// F34: the anchor is a position identity, which ReconcileCreatedAt does not
// rewrite when the removed sibling is itself restored under a fresh identity,
// so the element comes back at the wrong index).
func entryTriggersF34(d *document.Document, ops []document.HistoryOperation) bool {
	for _, h := range ops {
		add, ok := h.Op.(*operations.Add)
		if !ok || add.PrevCreatedAt() == nil {
			continue
		}
		arr, ok := d.InternalDocument().Root().FindByCreatedAt(add.ParentCreatedAt()).(*crdt.Array)
		if !ok || arr == nil {
			continue
		}
		n := arr.RGATreeList().GetByID(add.PrevCreatedAt())
		if n == nil || n.Element() == nil {
			continue
		}
		if n.PositionCreatedAt().Key() != n.Element().CreatedAt().Key() && n.Element().RemovedAt() != nil {
			return true
		}
	}
	return false
}

// ---------------------------------------------------------------------------
// Starting state: a short two-replica history exchanged through the relay
// with GC at the protocol's minimum vectors, brought to a point where the
// replica under test and its peer hold exactly the same changes.

type env struct {
	test, peer *document.Document
	rl         *relay
	sent       int // local changes of test already forwarded to the relay
	// noPeerGC: F6 exclusion — once an undo/redo executed an Object.Set the
	// peer no longer collects garbage (its stale GC registration of the
	// restored identity would delete the live key; listed under C15).
	noPeerGC bool
	// peerOff: F32 exclusion — once an undo/redo restored a non-empty Text
	// through Object.Set the peer is no longer fed or compared.
	peerOff bool
	hist    []string
	ev      map[string]int
	// skip != "" : the starting state could not be built (a failure of some
	// other property, or of the harness) and the case is not evaluated.
	skip string
}

func newDoc(actorHex string) *document.Document {
	d := document.New(docKey)
	a, err := time.ActorIDFromHex(actorHex)
	if err != nil {
		panic(err)
	}
	d.SetActor(a)
	return d
}

func buildEnv(c Case) *env {
	e := &env{ev: map[string]int{}}
	docs := []*document.Document{newDoc("000000000000000000000001"), newDoc("000000000000000000000002")}
	e.rl = newRelay(docs...)
	logf := func(f string, a ...any) { e.hist = append(e.hist, fmt.Sprintf(f, a...)) }
	if err := prog.InitDoc(docs[0]); err != nil {
		e.skip = "init: " + err.Error()
		return e
	}
	for _, d := range docs {
		if err := e.rl.sync(d); err != nil {
			e.skip = "initial sync: " + err.Error()
			return e
		}
	}
	for _, s := range c.Setup {
		w := s.Who % 2
		d := docs[w]
		if s.Op == "sync" {
			if err := e.rl.sync(d); err != nil {
				e.skip = fmt.Sprintf("setup sync r%d: %v", w, err)
				return e
			}
			logf("setup r%d sync (garbage %d)", w, d.GarbageLen())
			continue
		}
		gs, why := guard(d, s)
		if why != "" {
			e.ev["excluded:"+why]++
		}
		if gs.Op == "" {
			continue
		}
		var desc string
		var err error
		switch gs.Op {
		case "undo", "redo":
			desc, err = prog.ApplyEdit(d, gs)
		default:
			desc, err = applyEdit(d, gs)
		}
		if err != nil {
			e.skip = fmt.Sprintf("setup r%d %s: %v", w, desc, err)
			return e
		}
		logf("setup r%d %s", w, desc)
	}
	t := c.Who % 2
	e.test, e.peer = docs[t], docs[1-t]
	for _, d := range []*document.Document{e.peer, e.test, e.peer} {
		if err := e.rl.sync(d); err != nil {
			e.skip = "final sync: " + err.Error()
			return e
		}
	}
	if e.test.HasLocalChanges() {
		e.skip = "harness: test replica still has local changes after the final round"
		return e
	}
	if a, b := e.test.Marshal(), e.peer.Marshal(); normalise(e.test) != normalise(e.peer) ||
		identities(e.test) != identities(e.peer) || strings.Contains(identities(e.test), "!CLASH") {
		e.skip = "setup diverged"
		logf("setup diverged:\n test %s\n peer %s", a, b)
		return e
	}
	logf("start r%d: %s (garbage %d, undo stack %d)", t, e.test.Marshal(), e.test.GarbageLen(), e.test.UndoStackLenForTest())
	return e
}

// forward sends the new local changes of the replica under test to the peer
// (push-only on the test side: it receives nothing) and compares.
func (e *env) forward(peerGC bool) *kit.Failure {
	if e.peerOff {
		return nil
	}
	var n int
	var err error
	func() {
		defer func() {
			if p := recover(); p != nil {
				err = fmt.Errorf("PANIC: %v\n%s", p, debug.Stack())
			}
		}()
		n, err = e.rl.push(e.test, e.sent)
	}()
	if err != nil {
		return kit.Failf("SYNC-ENCODE", "pending changes of the replica do not encode: %v", err)
	}
	if n == e.sent {
		return nil
	}
	e.sent = n
	// the peer's own request vector is what it had applied before this pull
	func() {
		defer func() {
			if p := recover(); p != nil {
				err = fmt.Errorf("PANIC: %v\n%s", p, debug.Stack())
			}
		}()
		e.rl.reported[e.peer.ActorID().String()] = e.peer.VersionVector().DeepCopy()
		err = e.rl.pull(e.peer, e.peer.Checkpoint().ClientSeq, peerGC && !e.noPeerGC)
	}()
	if err != nil {
		return kit.Failf("SYNC-APPLY", "peer fails to apply the replica's changes: %v", err)
	}
	// compared as normalised content: the chunking of text into nodes may
	// legitimately differ (a peer recreates a restored run as one node)
	if normalise(e.test) != normalise(e.peer) {
		return kit.Failf("SYNC-DIVERGED", "after applying the replica's changes the peer differs:\n replica %s\n peer    %s", e.test.Marshal(), e.peer.Marshal())
	}
	return nil
}
