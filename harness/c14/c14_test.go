// Package c14 checks property C14: undo restores the previous content and
// redo restores the undone one (single replica, no concurrent remote changes).
package c14

import (
	"encoding/json"
	"fmt"
	"hash/fnv"
	"runtime/debug"
	"testing"

	"pgregory.net/rapid"

	"github.com/yorkie-team/yorkie/pkg/document"

	"verifharness/kit"
	"verifharness/prog"
	"verifharness/stats"
)

func init() { kit.Pkg = "c14" }

const prop = "C14"

// Case is one generated case: a plain value drawn up front.
type Case struct {
	Stratum string      `json:"stratum"` // "content" (stack model) or "robust"
	Setup   []prog.Step `json:"setup"`   // two-replica history that builds the starting state
	Who     int         `json:"who"`     // replica under test: 0 created the containers, 1 received them
	Clear   bool        `json:"clear"`   // ClearHistory() before the checked program
	PeerGC  bool        `json:"peer_gc"` // the peer garbage-collects at the protocol's minimum vector
	Steps   []prog.Step `json:"steps"`   // checked program: edits, undo, redo
}

func (c Case) hash() uint64 {
	b, _ := json.Marshal(c)
	h := fnv.New64a()
	_, _ = h.Write(b)
	return h.Sum64()
}

func (c Case) size() int { return len(c.Steps)*3 + len(c.Setup) }

// Outcome of one evaluation.
type Outcome struct {
	Fail       *kit.Failure
	Hist       []string
	Ev         map[string]int
	NonTrivial bool
}

var (
	contentOps = []string{"oset", "odel", "rootset", "rootdel", "onest", "replObj", "replArr", "replText",
		"aadd", "ains", "adel", "tedit", "cinc", "trtext", "trins", "trdel"}
	robustOnlyOps = []string{"tstyle", "trstyle", "amove", "amovefront", "aset"}
)

func isContentOp(op string) bool {
	for _, o := range contentOps {
		if o == op {
			return true
		}
	}
	return false
}

// entry is one element of the model's undo/redo stacks.
type entry struct {
	before, after string
	known         bool // pushed by a checked edit (content recorded); false: left over from the setup history or tainted
	kind          string
	ops           []document.HistoryOperation // the real entry (captured when it reached the top of its stack)
}

// redoTop identifies the top entry of the real redo stack.
func redoTop(d *document.Document) *document.HistoryOperation {
	top := d.RedoStackTopForTest()
	if len(top) == 0 {
		return nil
	}
	return &top[0]
}

func callUndoRedo(d *document.Document, undo bool) (err error, panicked bool) {
	defer func() {
		if r := recover(); r != nil {
			err = fmt.Errorf("PANIC: %v\n%s", r, debug.Stack())
			panicked = true
		}
	}()
	if undo {
		return d.Undo(), false
	}
	return d.Redo(), false
}

// eval runs one case. In the content stratum the stack model decides the
// visible content after every Undo/Redo; in the robust stratum only the
// "never fails, never corrupts, still syncs" part is decided.
func eval(c Case) (out Outcome) {
	e := buildEnv(c)
	out = Outcome{Ev: e.ev}
	defer func() { out.Hist = e.hist }()
	logf := func(f string, a ...any) { e.hist = append(e.hist, fmt.Sprintf(f, a...)) }
	if e.skip != "" {
		if len(e.skip) > 8 && e.skip[:8] == "harness:" {
			out.Fail = kit.Failf("HARNESS", "%s", e.skip)
			return out
		}
		if e.skip == "setup diverged" {
			out.Ev["skip_setup_diverged"] = 1
		} else {
			out.Ev["skip_setup_error"] = 1
			logf("setup error: %s", e.skip)
		}
		return out
	}
	d := e.test
	content := c.Stratum == "content"
	if d.CanRedo() && !c.Clear {
		// the depth of a redo stack left by the setup history cannot be read
		c.Clear = true
		out.Ev["forced_clear"] = 1
	}
	if c.Clear {
		if err := d.ClearHistory(); err != nil {
			out.Fail = kit.Failf("HARNESS", "ClearHistory: %v", err)
			return out
		}
		out.Ev["history_cleared"] = 1
	}
	var undo, redo []entry
	for i := 0; i < d.UndoStackLenForTest(); i++ {
		undo = append(undo, entry{})
	}
	if len(undo) > 0 {
		out.Ev["setup_history_kept"] = 1
	} else {
		out.Ev["undo_stack_initially_empty"] = 1
	}
	if c.Who%2 == 1 {
		out.Ev["containers_received"] = 1
	} else {
		out.Ev["containers_own"] = 1
	}
	if c.PeerGC {
		out.Ev["peer_gc"] = 1
	}
	garbage := d.GarbageLen() > 0
	if garbage {
		out.Ev["garbage_at_start"] = 1
	}

	undoRedoRan := false
	consecUndo, maxNest := 0, 0 // effective undos in a row (no edit/redo in between)
	redoAfterNest := false
	redosAfterAll := -1 // redos executed since an undo emptied the undo stack (-1: not in that situation)
	kinds := map[string]bool{}
	depthRedo := 0
	fail := func(f *kit.Failure) Outcome {
		out.Fail = f
		logf("FAIL %s", f.Error())
		return out
	}
	cloneCheck := func(what string) *kit.Failure {
		var a, b string
		var err error
		func() {
			defer func() {
				if r := recover(); r != nil {
					err = fmt.Errorf("PANIC: %v\n%s", r, debug.Stack())
				}
			}()
			a, b = d.Root().Marshal(), d.Marshal()
		}()
		if err != nil {
			return kit.Failf("MARSHAL-PANIC", "after %s: %v", what, err)
		}
		if a != b {
			return kit.Failf("CLONE-DIVERGED", "after %s: clone %s != root %s", what, a, b)
		}
		return nil
	}

	track := prog.NewTreeAnchorTrack()
	track.ObserveDoc(0, d)
	for _, s := range c.Steps {
		if d.UndoStackLenForTest() >= document.MaxUndoRedoStackDepth-1 {
			out.Ev["stack_cap_reached"] = 1
			break
		}
		if s.Op == "gc" {
			// The replica synchronises (nobody else edits: it receives no
			// remote change) and collects its own garbage. Undo/redo then has
			// to RE-CREATE what it revives. Which entries stay inside the
			// content oracle is decided now, while the tombstones still exist:
			// only the top entry of each stack, only when it consists of
			// text/tree edits and counter increases, and only when the anchor
			// upstream's re-creation ladder will use is live and adjacent
			// (anything else is the trigger of known finding F33). All other
			// entries become opaque to the model (never popped).
			if e.peerOff || e.noPeerGC || d.GarbageLen() == 0 {
				out.Ev["gc_step_noop"]++
				continue
			}
			// decide, per stack from the top down, which entries stay in the
			// content oracle: an entry is kept when its own revivals have live
			// adjacent anchors, it holds nothing but text/tree edits and counter
			// increases, and every entry above it revives nothing (undoing those
			// first only tombstones nodes, which leaves the neighbours of the
			// deeper tombstones in place)
			decide := func(st []entry) (kept int) {
				benignAbove := true
				for i := len(st) - 1; i >= 0; i-- {
					if !st[i].known {
						break
					}
					ok, revives, other := prog.ReviveAnchorsAdjacent(d, st[i].ops, track, 0)
					if !(ok && !other && benignAbove && len(st[i].ops) > 0) {
						st[i].known = false
						break
					}
					kept++
					if revives {
						benignAbove = false
					}
				}
				return kept
			}
			// (decided before the purge, applied below)
			undoBefore := append([]entry{}, undo...)
			redoBefore := append([]entry{}, redo...)
			keptU, keptR := decide(undoBefore), decide(redoBefore)
			if f := e.forward(c.PeerGC); f != nil {
				return fail(f)
			}
			var err error
			func() {
				defer func() {
					if p := recover(); p != nil {
						err = fmt.Errorf("PANIC: %v\n%s", p, debug.Stack())
					}
				}()
				pack := d.CreateChangePack()
				e.rl.reported[e.peer.ActorID().String()] = e.peer.VersionVector().DeepCopy()
				e.rl.reported[d.ActorID().String()] = pack.VersionVector.DeepCopy()
				err = e.rl.pull(d, pack.Checkpoint.ClientSeq, true)
				e.sent = 0
			}()
			if err != nil {
				return fail(kit.Failf("GC-SYNC-FAILED", "the replica's own synchronisation (no remote changes) failed: %v", err))
			}
			logf("gc -> garbage %d (undo entries kept in the model: %d of %d, redo entries: %d of %d)", d.GarbageLen(), keptU, len(undo), keptR, len(redo))
			if f := cloneCheck("gc"); f != nil {
				return fail(f)
			}
			out.Ev["gc_step_purged"]++
			for i := range undo {
				if i < len(undo)-keptU {
					undo[i].known = false
				}
			}
			for i := range redo {
				if i < len(redo)-keptR {
					redo[i].known = false
				}
			}
			keepU := keptU > 0
			if keptU >= 2 {
				out.Ev["gc_kept_deeper_undo_entry"]++
			}
			if keepU && len(undo) > 0 && undo[len(undo)-1].known {
				out.Ev["gc_then_undo_candidate"]++
			}
			continue
		}
		s, why := guard(d, s)
		if why != "" {
			out.Ev["excluded:"+why]++
		}
		if s.Op == "" {
			continue
		}
		switch s.Op {
		case "undo", "redo":
			isUndo := s.Op == "undo"
			if isUndo && len(undo) > 0 && !undo[len(undo)-1].known {
				// The top entry stems from the setup history: that edit was
				// followed by (possibly concurrent) remote changes and GC, so
				// undoing it is outside the quantifier (and runs into the
				// upstream-documented "GC vs undo", issue #664). The entries
				// stay on the stack; they are never popped.
				out.Ev["undo_skipped_at_setup_entry"]++
				continue
			}
			{
				top := d.RedoStackTopForTest()
				if isUndo {
					top = d.UndoStackTopForTest()
				}
				if content && excluding("F34") && entryTriggersF34(d, top) {
					// the step is skipped: the entry stays on its stack
					out.Ev["excluded:F34"]++
					continue
				}
				if excluding("F6") && c.PeerGC && !e.noPeerGC && entryHasObjectSet(top) {
					e.noPeerGC = true
					out.Ev["excluded:F6"]++
				}
				if excluding("F32") && !e.peerOff && entrySetsNonEmptyText(top) {
					e.peerOff = true
					out.Ev["excluded:F32"]++
				}
			}
			before := normalise(d)
			var can, modelCan bool
			if isUndo {
				can, modelCan = d.CanUndo(), len(undo) > 0
			} else {
				can, modelCan = d.CanRedo(), len(redo) > 0
			}
			if can != modelCan {
				return fail(kit.Failf("CAN-MISMATCH", "Can%s()=%v but the stack model holds %d entries (undo %d, redo %d)",
					title(s.Op), can, map[bool]int{true: len(undo), false: len(redo)}[isUndo], len(undo), len(redo)))
			}
			l0, r0 := d.UndoStackLenForTest(), redoTop(d)
			err, _ := callUndoRedo(d, isUndo)
			if err != nil {
				return fail(kit.Failf(upper(s.Op)+"-FAILED", "%s() returned %v", title(s.Op), err))
			}
			after := normalise(d)
			l1, r1 := d.UndoStackLenForTest(), redoTop(d)
			logf("%s -> %s", s.Op, d.Marshal())
			if f := cloneCheck(s.Op); f != nil {
				return fail(f)
			}
			if !modelCan {
				out.Ev[s.Op+"_on_empty"]++
				if content && after != before {
					return fail(kit.Failf(upper(s.Op)+"-ON-EMPTY", "%s() with an empty stack changed the content:\n before %s\n after  %s", title(s.Op), before, after))
				}
				break
			}
			undoRedoRan = true
			if isUndo {
				en := undo[len(undo)-1]
				undo = undo[:len(undo)-1]
				if en.known {
					out.Ev["undo_known"]++
					if content && after != en.before {
						return fail(kit.Failf("UNDO-CONTENT", "after Undo() the content is not what it was before the undone %s edit:\n want %s\n got  %s", en.kind, en.before, after))
					}
					// content stratum: an undone content edit must be
					// redoable (strict); robust stratum: restoration of
					// styles/moves is approximate, the model follows the
					// real stack
					if content || r1 != r0 {
						en.ops = d.RedoStackTopForTest()
						redo = append(redo, en)
					} else {
						out.Ev["undo_left_no_redo_entry"]++
					}
				} else {
					out.Ev["undo_setup_entry"]++
					// an entry that predates remote changes is outside the
					// quantifier and its round trip is not exact: what lies
					// on the redo stack is no longer decided by the model
					for i := range redo {
						redo[i].known = false
					}
					if r1 != r0 {
						redo = append(redo, entry{})
					}
				}
				consecUndo++
				redosAfterAll = -1
				if len(undo) == 0 {
					redosAfterAll = 0 // everything undone: the real undo stack is empty
				}
				maxNest = max(maxNest, consecUndo)
				kinds[en.kind] = true
				depthRedo = max(depthRedo, len(redo))
			} else {
				en := redo[len(redo)-1]
				redo = redo[:len(redo)-1]
				if en.known {
					out.Ev["redo_known"]++
					if content && after != en.after {
						return fail(kit.Failf("REDO-CONTENT", "after Redo() the content is not what it was after the redone %s edit:\n want %s\n got  %s", en.kind, en.after, after))
					}
					if content || l1 == l0+1 {
						en.ops = d.UndoStackTopForTest()
						undo = append(undo, en)
					} else {
						out.Ev["redo_left_no_undo_entry"]++
					}
				} else {
					out.Ev["redo_opaque_entry"]++
					if l1 == l0+1 {
						undo = append(undo, entry{})
					}
				}
				if consecUndo >= 2 {
					redoAfterNest = true
				}
				consecUndo = 0
				if redosAfterAll >= 0 {
					redosAfterAll++
					if redosAfterAll >= 2 {
						out.Ev["undo_all_then_redo>=2"] = 1
						if c.Who%2 == 1 {
							out.Ev["undo_all_then_redo>=2_on_received_containers"] = 1
						}
					}
				}
			}
		default:
			if content && !isContentOp(s.Op) {
				return fail(kit.Failf("HARNESS", "op %s in a content case", s.Op))
			}
			before := normalise(d)
			l0 := d.UndoStackLenForTest()
			desc, err := applyEdit(d, s)
			if err != nil {
				if undoRedoRan {
					return fail(kit.Failf("EDIT-AFTER-UNDO-FAILED", "%s failed after an undo/redo: %v", desc, err))
				}
				out.Ev["skip_edit_error"] = 1
				logf("edit error before any undo/redo (not this property): %s: %v", desc, err)
				return out
			}
			after := normalise(d)
			l1 := d.UndoStackLenForTest()
			logf("%s -> %s", desc, d.Marshal())
			if f := cloneCheck(desc); f != nil {
				if undoRedoRan {
					return fail(f)
				}
				out.Ev["skip_edit_error"] = 1
				return out
			}
			consecUndo = 0
			redosAfterAll = -1
			k := kindOf(s.Op)
			out.Ev["edit_"+k]++
			changed := before != after
			if changed && d.CanRedo() {
				// every edit of the alphabet that changes the content is
				// observable; it must invalidate the redo stack
				if len(redo) > 0 {
					return fail(kit.Failf("REDO-NOT-CLEARED", "%s changed the content but CanRedo() is still true (%d redo entries)", desc, len(redo)))
				}
				return fail(kit.Failf("CAN-MISMATCH", "CanRedo()=true after %s with an empty model redo stack", desc))
			}
			if !d.CanRedo() {
				if len(redo) > 0 {
					out.Ev["redo_cleared_by_edit"]++
				}
				redo = nil
			} else if len(redo) == 0 {
				return fail(kit.Failf("CAN-MISMATCH", "CanRedo()=true after %s with an empty model redo stack", desc))
			} else {
				out.Ev["noop_edit_kept_redo"]++
			}
			if l1 > l0 {
				undo = append(undo, entry{before: before, after: after, known: true, kind: k, ops: d.UndoStackTopForTest()})
				if !changed {
					out.Ev["entry_without_content_change"]++
				}
			} else {
				out.Ev["edit_pushed_nothing"]++
				if changed && content {
					return fail(kit.Failf("NO-HISTORY-ENTRY", "%s changed the content but pushed no undo entry: Undo() cannot bring the content back", desc))
				}
			}
		}
		if d.GarbageLen() > 0 {
			garbage = true
		}
		track.ObserveDoc(0, d)
		if f := e.forward(c.PeerGC); f != nil {
			return fail(f)
		}
	}
	if f := e.forward(c.PeerGC); f != nil {
		return fail(f)
	}
	nk := 0
	for k := range kinds {
		if k != "" {
			nk++
		}
	}
	if !content {
		// the robust stratum has no model of kinds; count the kinds edited
		nk = 0
		for _, k := range []string{"obj", "arr", "text", "counter", "tree"} {
			if out.Ev["edit_"+k] > 0 {
				nk++
			}
		}
	}
	if maxNest >= 2 {
		out.Ev["nested_undo>=2"] = 1
	}
	if maxNest >= 4 {
		out.Ev["nested_undo>=4"] = 1
	}
	if redoAfterNest {
		out.Ev["redo_after_nested_undo"] = 1
	}
	if depthRedo >= 2 && out.Ev["redo_known"] >= 2 {
		out.Ev["redo_depth>=2"] = 1
	}
	if len(undo) == 0 && undoRedoRan {
		out.Ev["ended_fully_undone"] = 1
	}
	if garbage {
		out.Ev["garbage_seen"] = 1
	}
	out.Ev["kinds_"+fmt.Sprint(nk)] = 1
	out.NonTrivial = maxNest >= 2 && redoAfterNest && nk >= 2 && garbage
	return out
}

func title(op string) string {
	if op == "undo" {
		return "Undo"
	}
	return "Redo"
}

func upper(op string) string {
	if op == "undo" {
		return "UNDO"
	}
	return "REDO"
}

// ---------------------------------------------------------------------------
// Generators.

func genStep(pool []string, maxWho int) *rapid.Generator[prog.Step] {
	return rapid.Custom(func(t *rapid.T) prog.Step {
		return prog.Step{
			Who: rapid.IntRange(0, maxWho).Draw(t, "w"),
			Op:  rapid.SampledFrom(pool).Draw(t, "op"),
			A:   rapid.IntRange(0, 7).Draw(t, "a"),
			B:   rapid.IntRange(0, 7).Draw(t, "b"),
			C:   rapid.IntRange(0, 8).Draw(t, "c"),
		}
	})
}

var setupPool = func() []string {
	p := append([]string{}, contentOps...)
	p = append(p, robustOnlyOps...)
	// deletions and overwrites leave the tombstones the property talks about
	p = append(p, "adel", "adel", "odel", "tedit", "tedit", "trdel", "trtext", "aadd", "aadd", "ains", "trins")
	// No undo/redo in the setup history: together with GC on the other
	// replica they leave structural differences between the two setup
	// replicas that neither the content nor the identities show (restored
	// nodes recreated at another physical position, two elements under one
	// identity; the F6/F33 family, convergence properties) and that would
	// surface later as a divergence blamed on the checked program.
	p = append(p, "sync", "sync", "sync", "sync", "sync", "sync")
	return p
}()

const maxSteps = 25

// genCase draws a case of the given stratum. The checked program is drawn as
// blocks (a run of edits, a run of undos, a run of redos) so that deep
// well-nested undo/redo words are frequent, flattened to at most 25 steps.
func genCase(stratum string) *rapid.Generator[Case] {
	// weights: plain element edits dominate container replacement; deletes of
	// object keys are rarer than sets (a delete of an absent key is a no-op)
	edits := []string{
		"oset", "oset", "oset", "odel", "odel", "rootset", "rootset", "rootdel", "onest", "replObj", "replArr", "replText",
		"aadd", "aadd", "ains", "ains", "adel", "adel", "adel",
		"tedit", "tedit", "tedit", "tedit", "tedit",
		"cinc", "cinc", "cinc",
		"trtext", "trtext", "trtext", "trins", "trins", "trdel", "trdel",
	}
	if stratum == "robust" {
		edits = append(edits, "tstyle", "tstyle", "tstyle", "trstyle", "trstyle", "trstyle",
			"amove", "amove", "amovefront", "amovefront", "aset", "aset", "aset")
	}
	kindsAll := []string{"obj", "arr", "text", "counter", "tree"}
	return rapid.Custom(func(t *rapid.T) Case {
		c := Case{Stratum: stratum}
		c.Setup = rapid.SliceOfN(genStep(setupPool, 1), 0, kit.Pick(12, 16)).Draw(t, "setup")
		c.Who = rapid.IntRange(0, 1).Draw(t, "who")
		c.Clear = rapid.IntRange(0, 2).Draw(t, "clear") > 0
		// Exploration knob, off in the check: let the passive peer collect
		// garbage at the protocol's minimum vector. Divergences that need it
		// belong to the convergence properties (C03/C15), not to C14.
		if kit.EnvInt("VERIF_C14_PEERGC", 0) != 0 {
			c.PeerGC = rapid.Bool().Draw(t, "peergc")
		}
		// focus: most programs edit 2..3 drawn kinds so that several history
		// entries touch the same elements
		pool := edits
		if rapid.IntRange(0, 4).Draw(t, "focus") > 0 {
			mask := 0
			for _, i := range rapid.SliceOfN(rapid.IntRange(0, 4), 2, 3).Draw(t, "kinds") {
				mask |= 1 << i
			}
			pool = nil
			for _, op := range edits {
				for i, k := range kindsAll {
					if mask&(1<<i) != 0 && kindOf(op) == k {
						pool = append(pool, op)
					}
				}
			}
		}
		// a third of the cases let the replica collect its own garbage
		// between edits and undos (step "gc")
		gcSteps := rapid.IntRange(0, 2).Draw(t, "gcsteps") == 0
		// blocks: E(dits) U(ndos) R(edos); the successor kind is biased so
		// that E->U->R chains (nested undos followed by redos) are frequent
		nb := rapid.IntRange(2, 8).Draw(t, "blocks")
		prev := byte('-')
		for b := 0; b < nb && len(c.Steps) < maxSteps; b++ {
			x := rapid.IntRange(0, 9).Draw(t, "next")
			kind := byte('E')
			switch prev {
			case 'E':
				if x < 8 {
					kind = 'U'
				}
			case 'U':
				if x < 6 {
					kind = 'R'
				} else if x < 8 {
					kind = 'U'
				}
			case 'R':
				if x < 4 {
					kind = 'U'
				} else if x < 6 {
					kind = 'R'
				}
			}
			prev = kind
			switch kind {
			case 'E':
				n := rapid.IntRange(1, 6).Draw(t, "n")
				c.Steps = append(c.Steps, rapid.SliceOfN(genStep(pool, 0), n, n).Draw(t, "edits")...)
				if gcSteps && rapid.IntRange(0, 2).Draw(t, "gc") == 0 {
					c.Steps = append(c.Steps, prog.Step{Op: "gc"})
				}
			case 'U':
				for i, n := 0, rapid.IntRange(1, 6).Draw(t, "n"); i < n; i++ {
					c.Steps = append(c.Steps, prog.Step{Op: "undo"})
				}
			case 'R':
				for i, n := 0, rapid.IntRange(1, 5).Draw(t, "n"); i < n; i++ {
					c.Steps = append(c.Steps, prog.Step{Op: "redo"})
				}
			}
		}
		if len(c.Steps) > maxSteps {
			c.Steps = c.Steps[:maxSteps]
		}
		return c
	})
}

// ---------------------------------------------------------------------------
// Driver.

func sampleOf(c Case, out Outcome) any {
	b, _ := json.Marshal(c)
	h := out.Hist
	if len(h) > 50 {
		h = append(append([]string{}, h[:50]...), fmt.Sprintf("... (%d more)", len(out.Hist)-50))
	}
	return map[string]any{"case": string(b), "history": h}
}

func runRapid(t *testing.T, part, stratum string) {
	col := stats.New(prop, part)
	var best *Case
	var bestOut Outcome
	harness := ""
	notes := 0
	defer func() {
		if best != nil {
			path := kit.WriteReplay(prop, "case", fmt.Sprintf("%s-%016x", part, best.hash()), best, bestOut.Fail, bestOut.Hist)
			col.AddViolation(stats.Violation{Replay: path, Kind: bestOut.Fail.Kind, Msg: bestOut.Fail.Msg})
			kit.ReportViolation(prop, path, bestOut.Fail)
			for _, h := range bestOut.Hist {
				fmt.Printf("    %s\n", h)
			}
		}
		if harness != "" {
			fmt.Printf("HARNESS-ERROR property=%s %s\n", prop, harness)
		}
		col.Flush(true)
	}()
	gen := genCase(stratum)
	rapid.Check(t, func(rt *rapid.T) {
		c := gen.Draw(rt, "case")
		out := eval(c)
		col.Record(c.hash(), out.NonTrivial && out.Fail == nil, out.Ev, func() any { return sampleOf(c, out) })
		if out.Ev["skip_setup_error"] > 0 && notes < 3 && len(out.Hist) > 0 {
			notes++
			b, _ := json.Marshal(c)
			col.Note("setup error (case not evaluated, not this property): %s | case %s", out.Hist[len(out.Hist)-1], b)
		}
		if out.Fail != nil {
			if out.Fail.Kind == "HARNESS" {
				harness = out.Fail.Msg
				rt.Fatalf("harness error: %s", out.Fail.Msg)
			}
			if best == nil || c.size() < best.size() {
				cc := c
				best, bestOut = &cc, out
			}
			rt.Fatalf("%s", out.Fail.Error())
		}
	})
}

// TestC14Content: content alphabet, stack model decides the content.
func TestC14Content(t *testing.T) { runRapid(t, "content", "content") }

// TestC14Robustness: content alphabet + styles, array move, set-by-index.
func TestC14Robustness(t *testing.T) { runRapid(t, "robust", "robust") }

// TestReplay re-executes a saved case without rapid.
func TestReplay(t *testing.T) {
	kit.Replay(t, map[string]kit.Replayer{
		"case": func(raw json.RawMessage) *kit.Failure {
			var c Case
			if err := json.Unmarshal(raw, &c); err != nil {
				return kit.Failf("HARNESS", "bad case: %v", err)
			}
			out := eval(c)
			for _, h := range out.Hist {
				fmt.Printf("    %s\n", h)
			}
			return out.Fail
		},
	})
}
