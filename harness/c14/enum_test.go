package c14

import (
	"fmt"
	"testing"

	"verifharness/kit"
	"verifharness/prog"
	"verifharness/stats"
)

// Small-scope exhaustive part: every program of <= 3 content edits from a
// fixed template set, followed by every well-nested undo/redo word of length
// <= 4 (every prefix holds at least as many undos as redos), on fixed
// starting states. Shards take residue classes of the case index.

var enumTemplates = []prog.Step{
	{Op: "oset", A: 0, B: 1},         // o.x=1
	{Op: "oset", A: 0, B: 2},         // o.x=2
	{Op: "odel", A: 0},               // o.del x
	{Op: "aadd", B: 1},               // a.add
	{Op: "ains", A: 0, B: 2},         // a.insAfter 0
	{Op: "adel", A: 0},               // a.del 0
	{Op: "tedit", A: 1, B: 0, C: 4},  // insert a surrogate pair at 1
	{Op: "tedit", A: 0, B: 2, C: 0},  // delete [0,2)
	{Op: "tedit", A: 1, B: 1, C: 2},  // replace [1,2) by "yz"
	{Op: "cinc", B: 1},               // c.inc -2
	{Op: "cinc", B: 6},               // c.inc +3
	{Op: "trins", A: 1, C: 1},        // insert <p>q</p> at 1
	{Op: "trdel", A: 0},              // delete <p> 0
	{Op: "trtext", A: 0, B: 1, C: 3}, // insert "X" into p0 at 1
	{Op: "trtext", A: 0, B: 0, C: 1}, // delete p0 [0,1)
}

// enumStates are the fixed starting states: containers received from the
// other replica without tombstones; and a state built by both replicas with
// deletions on either side (tombstones, split nodes, dead array slots), seen
// from the receiving and from the creating replica.
var enumStates = func() []Case {
	hist := []prog.Step{
		{Who: 0, Op: "aadd", B: 1}, {Who: 0, Op: "aadd", B: 2}, {Who: 0, Op: "aadd", B: 3},
		{Who: 0, Op: "tedit", A: 0, B: 0, C: 5}, {Who: 0, Op: "tedit", A: 1, B: 0, C: 4},
		{Who: 0, Op: "oset", A: 0, B: 5}, {Who: 0, Op: "sync"}, {Who: 1, Op: "sync"},
		{Who: 1, Op: "adel", A: 1}, {Who: 1, Op: "tedit", A: 0, B: 1, C: 0}, {Who: 1, Op: "trtext", A: 1, B: 0, C: 1},
		{Who: 0, Op: "trins", A: 1, C: 2}, {Who: 0, Op: "adel", A: 0}, {Who: 0, Op: "tedit", A: 4, B: 1, C: 3},
		{Who: 1, Op: "sync"}, {Who: 0, Op: "sync"}, {Who: 1, Op: "trdel", A: 1}, {Who: 0, Op: "odel", A: 0},
	}
	return []Case{
		{Stratum: "content", Who: 1, Clear: true},
		{Stratum: "content", Who: 1, Clear: true, Setup: hist},
		{Stratum: "content", Who: 0, Clear: false, Setup: hist},
	}
}()

func undoRedoWords(maxLen int) [][]string {
	var out [][]string
	var rec func(w []string, u, r int)
	rec = func(w []string, u, r int) {
		out = append(out, append([]string{}, w...))
		if len(w) == maxLen {
			return
		}
		rec(append(w, "undo"), u+1, r)
		if r < u {
			rec(append(w, "redo"), u, r+1)
		}
	}
	rec(nil, 0, 0)
	return out
}

func TestC14Enum(t *testing.T) {
	col := stats.New(prop, "enum")
	defer col.Flush(true)
	maxEdits := kit.Pick(2, 3)
	words := undoRedoWords(4)
	nT := len(enumTemplates)
	var programs [][]prog.Step
	var rec func(p []prog.Step)
	rec = func(p []prog.Step) {
		programs = append(programs, append([]prog.Step{}, p...))
		if len(p) == maxEdits {
			return
		}
		for i := 0; i < nT; i++ {
			rec(append(p, enumTemplates[i]))
		}
	}
	rec(nil)
	sh, shards := kit.Shard()
	idx := 0
	total := 0
	// ordered by program length so that the first failure is a smallest one
	for l := 0; l <= maxEdits; l++ {
		for _, p := range programs {
			if len(p) != l {
				continue
			}
			for _, w := range words {
				for si, st := range enumStates {
					idx++
					if idx%shards != sh {
						continue
					}
					c := st
					c.Steps = append([]prog.Step{}, p...)
					for _, op := range w {
						c.Steps = append(c.Steps, prog.Step{Op: op})
					}
					out := eval(c)
					total++
					out.Ev[fmt.Sprintf("state_%d", si)] = 1
					out.Ev[fmt.Sprintf("edits_%d", l)] = 1
					out.Ev[fmt.Sprintf("word_len_%d", len(w))] = 1
					col.Record(c.hash(), out.NonTrivial && out.Fail == nil, out.Ev, func() any { return sampleOf(c, out) })
					if out.Fail != nil {
						if out.Fail.Kind == "HARNESS" {
							fmt.Printf("HARNESS-ERROR property=%s %s\n", prop, out.Fail.Msg)
							t.Fatalf("harness error: %s", out.Fail.Msg)
						}
						path := kit.WriteReplay(prop, "case", fmt.Sprintf("enum-%016x", c.hash()), c, out.Fail, out.Hist)
						col.AddViolation(stats.Violation{Replay: path, Kind: out.Fail.Kind, Msg: out.Fail.Msg})
						kit.ReportViolation(prop, path, out.Fail)
						for _, h := range out.Hist {
							fmt.Printf("    %s\n", h)
						}
						col.SetExhaustive(false)
						t.Fatalf("%s", out.Fail.Error())
					}
				}
			}
		}
	}
	col.SetExtra("enum_space", len(programs)*len(words)*len(enumStates))
	col.SetExtra("enum_templates", nT)
	col.SetExtra("enum_max_edits", maxEdits)
	col.SetExtra("enum_words", len(words))
	// each shard covers its whole residue class: the union is the full space
	col.SetExhaustive(true)
	t.Logf("enumerated %d cases (shard %d/%d) of %d", total, sh, shards, len(programs)*len(words)*len(enumStates))
}

// Small-scope exhaustive part with self-GC: every program of exactly 3 edits of
// the tree text (12 templates: insert "X" / insert "YZ" / delete one character
// at offsets 0..3 of the first paragraph) or of the text (the same 12 on "t"),
// then the replica collects its own garbage (step "gc"), then every well-nested
// undo/redo word of length <= 4. Undo after the purge has to re-create what it
// revives; the content oracle applies to the entries the gc step keeps in the
// model (live adjacent ladder anchor, see eval).
var gcEnumTree, gcEnumText = func() (tree, text []prog.Step) {
	for off := 0; off < 4; off++ {
		tree = append(tree,
			prog.Step{Op: "trtext", A: 0, B: off, C: 3}, // insert "X"
			prog.Step{Op: "trtext", A: 0, B: off, C: 6}, // insert "YZ"
			prog.Step{Op: "trtext", A: 0, B: off, C: 1}, // delete one character
		)
		text = append(text,
			prog.Step{Op: "tedit", A: off, B: 0, C: 1}, // insert "x"
			prog.Step{Op: "tedit", A: off, B: 0, C: 2}, // insert "yz"
			prog.Step{Op: "tedit", A: off, B: 1, C: 0}, // delete one character
		)
	}
	return tree, text
}()

func TestC14EnumGC(t *testing.T) {
	col := stats.New(prop, "enumgc")
	defer col.Flush(true)
	words := undoRedoWords(4)
	var programs [][]prog.Step
	for _, set := range [][]prog.Step{gcEnumTree, gcEnumText} {
		for _, a := range set {
			for _, b := range set {
				for _, c := range set {
					programs = append(programs, []prog.Step{a, b, c})
				}
			}
		}
	}
	// the text needs content to delete from: a fixed prefix fills "t"
	prefix := []prog.Step{{Op: "tedit", A: 0, B: 0, C: 5}}
	sh, shards := kit.Shard()
	idx, total := 0, 0
	for _, p := range programs {
		for _, w := range words {
			idx++
			if idx%shards != sh || len(w) == 0 {
				continue
			}
			c := Case{Stratum: "content", Who: 0, Clear: true}
			c.Steps = append(append([]prog.Step{}, prefix...), p...)
			c.Steps = append(c.Steps, prog.Step{Op: "gc"})
			for _, op := range w {
				c.Steps = append(c.Steps, prog.Step{Op: op})
			}
			out := eval(c)
			total++
			out.Ev[fmt.Sprintf("word_len_%d", len(w))] = 1
			col.Record(c.hash(), out.Fail == nil && out.Ev["gc_step_purged"] > 0 && out.Ev["undo_known"] > 0, out.Ev, func() any { return sampleOf(c, out) })
			if out.Fail != nil {
				if out.Fail.Kind == "HARNESS" {
					fmt.Printf("HARNESS-ERROR property=%s %s\n", prop, out.Fail.Msg)
					t.Fatalf("harness error: %s", out.Fail.Msg)
				}
				path := kit.WriteReplay(prop, "case", fmt.Sprintf("enumgc-%016x", c.hash()), c, out.Fail, out.Hist)
				col.AddViolation(stats.Violation{Replay: path, Kind: out.Fail.Kind, Msg: out.Fail.Msg})
				kit.ReportViolation(prop, path, out.Fail)
				for _, h := range out.Hist {
					fmt.Printf("    %s\n", h)
				}
				col.SetExhaustive(false)
				t.Fatalf("%s", out.Fail.Error())
			}
		}
	}
	col.SetExtra("enumgc_space", len(programs)*(len(words)-1))
	col.SetExhaustive(true)
	t.Logf("enumerated %d cases (shard %d/%d)", total, sh, shards)
}
