package prog

import (
	"context"
	"fmt"
	"github.com/yorkie-team/yorkie/pkg/document/yson"
	"math"
	"os"
	"sort"
	"strings"

	"google.golang.org/protobuf/proto"

	"github.com/yorkie-team/yorkie/api/types"
	api "github.com/yorkie-team/yorkie/api/yorkie/v1"
	"github.com/yorkie-team/yorkie/client"
	"github.com/yorkie-team/yorkie/pkg/document"
	"github.com/yorkie-team/yorkie/pkg/document/change"
	"github.com/yorkie-team/yorkie/pkg/key"
	"github.com/yorkie-team/yorkie/server/backend/database"
	"github.com/yorkie-team/yorkie/server/documents"
	"github.com/yorkie-team/yorkie/server/packs"

	"verifharness/world"
)

// Failure is an oracle verdict. nil means the property held.
type Failure struct {
	Kind string
	Msg  string
}

func (f *Failure) Error() string { return f.Kind + ": " + f.Msg }

func failf(kind, format string, a ...any) *Failure {
	return &Failure{Kind: kind, Msg: fmt.Sprintf(format, a...)}
}

// Peer is one real client with one document instance.
type Peer struct {
	Idx         int
	C           *client.Client
	D           *document.Document
	Attached    bool
	SnapshotFed bool
	Purged      bool
	Dead        bool // deactivated
	Late        bool
	ID          string
}

// Runner executes a Program against the in-process server.
type Runner struct {
	S      *world.Server
	P      Program
	Proj   *types.Project
	DocKey key.Key
	Peers  []*Peer
	Hist   []string
	Ev     map[string]int
	Guard  Guard
	// OnExchange, when set, is called for every recorded RPC of a peer.
	OnExchange func(r *Runner, p *Peer, ex *world.Exchange)
	// TolerateUndoError: an Undo/Redo that returns an error is counted, not
	// reported (C15 is about convergence of what undo/redo produce; "never
	// fails" is C14's clause and only without concurrent remote changes).
	TolerateUndoError bool
	// StepGuard rewrites schedule steps that would trigger a listed known
	// finding (see exclusions.go); it returns the finding id.
	StepGuard func(s Step) (Step, string)
	// OnEdit, when set, is called after every successful local edit.
	OnEdit func(r *Runner, p *Peer)
	// NormaliseChunks: replicas are compared as content (adjacent text chunks
	// with equal attributes merged), not as node boundaries. Only for
	// properties that speak of content (C15): an undo revives a tombstone in
	// place on one replica and re-creates it as one node on another.
	NormaliseChunks bool
	// NonParticipant reports peers whose attachment keeps no version-vector
	// row (GC-free): they do not count as "still attached" for the F23 exclusion.
	NonParticipant func(p *Peer) bool
	// MaxPeers bounds late attachers.
	MaxPeers int
	// AttachOpts returns the attach options for the i-th attaching peer.
	AttachOpts func(i int) []interface{}

	// Decisions records which steps (by index) a guard excluded; Forced, when
	// set, are the decisions of the twin run that this run must repeat so that
	// both runs execute the same steps. A step that this run's own guard
	// excludes although the twin did not is excluded too and counted as
	// decision_mismatch (the cross-run comparison is then not valid).
	Decisions map[int]string
	Forced    map[int]string
	// RecordCalls collects the storage events of every sync step (fault-free
	// twin of a fault-enumeration case).
	RecordCalls bool
	Calls       map[int][]CallRec
	cur         int

	byID      map[string]*Peer
	docs      []*document.Document
	ctx       context.Context
	ExFail    *Failure // failure raised from inside OnExchange
	Exchanges int
}

// NewRunner prepares (but does not start) a run.
func NewRunner(p Program, projTag string) *Runner {
	s := world.Get()
	r := &Runner{
		S:        s,
		P:        p,
		Proj:     s.Project(p.Cfg.Interval, p.Cfg.Threshold, projTag),
		DocKey:   key.Key(world.FreshDocKey("d")),
		Ev:       map[string]int{},
		byID:     map[string]*Peer{},
		ctx:      context.Background(),
		MaxPeers: 6,
	}
	return r
}

func (r *Runner) log(format string, a ...any) {
	r.Hist = append(r.Hist, fmt.Sprintf(format, a...))
}

func (r *Runner) sink(ex *world.Exchange) {
	var cid string
	var pack *api.ChangePack
	switch m := ex.Req.(type) {
	case *api.PushPullChangesRequest:
		cid = m.ClientId
	case *api.AttachDocumentRequest:
		cid = m.ClientId
	case *api.DetachDocumentRequest:
		cid = m.ClientId
	case *api.RemoveDocumentRequest:
		cid = m.ClientId
	case *api.DeactivateClientRequest:
		cid = m.ClientId
	}
	switch m := ex.Resp.(type) {
	case *api.PushPullChangesResponse:
		pack = m.ChangePack
	case *api.AttachDocumentResponse:
		pack = m.ChangePack
	case *api.DetachDocumentResponse:
		pack = m.ChangePack
	}
	p := r.byID[cid]
	r.Exchanges++
	if p != nil && pack != nil {
		if len(pack.Snapshot) > 0 {
			p.SnapshotFed = true
			r.Ev["snapshot_pull"]++
		}
		if len(pack.Changes) > 0 {
			r.Ev["change_pull"]++
			if p.SnapshotFed {
				r.Ev["pull_on_snapshot_fed"]++
			}
			if p.Purged {
				r.Ev["pull_after_purge"]++
			}
		}
	}
	if r.OnExchange != nil && p != nil {
		r.OnExchange(r, p, ex)
	}
}

// Start creates the initial peers, the schema, and syncs everyone once.
func (r *Runner) Start() *Failure {
	r.S.BE.Config.SnapshotDisableGC = r.P.Cfg.ServerNoGC
	world.Rec.SetSink(r.sink)
	for i := 0; i < r.P.Cfg.N; i++ {
		if f := r.addPeer(false); f != nil {
			return f
		}
	}
	if err := InitDoc(r.Peers[0].D); err != nil {
		return failf("EDITFAIL", "init: %v", err)
	}
	for _, p := range r.Peers {
		if f := r.sync(p, false); f != nil {
			return f
		}
	}
	return nil
}

// Close releases the clients.
func (r *Runner) Close() {
	world.Rec.SetSink(nil)
	world.Rec.SetDrop(nil)
	r.S.DB.SetHook(nil)
	for _, p := range r.Peers {
		_ = p.C.Deactivate(r.ctx)
		_ = p.C.Close()
	}
	r.S.WaitIdle()
	r.S.BE.Config.SnapshotDisableGC = false
	for _, d := range r.docs {
		runnerOf.Delete(d)
	}
	r.docs = nil
}

func (r *Runner) newDoc() *document.Document {
	var opts []document.Option
	if r.P.Cfg.ClientNoGC {
		opts = append(opts, document.WithDisableGC())
	}
	d := document.New(r.DocKey, opts...)
	runnerOf.Store(d, r)
	r.docs = append(r.docs, d)
	return d
}

func (r *Runner) attachOpts(i int) []interface{} {
	var opts []interface{}
	if r.AttachOpts != nil {
		opts = r.AttachOpts(i)
	}
	if r.P.Cfg.NoPresence && i == 0 {
		opts = append(opts, client.WithDisablePresence())
	}
	return opts
}

func (r *Runner) addPeer(late bool, pre ...Step) *Failure {
	c, err := r.S.NewClient(r.ctx, r.Proj)
	if err != nil {
		return failf("ACTIVATEFAIL", "%v", err)
	}
	p := &Peer{Idx: len(r.Peers), C: c, D: r.newDoc(), Late: late, ID: c.ID().String()}
	r.Peers = append(r.Peers, p)
	r.byID[p.ID] = p
	// edits made before the document is attached (they are pushed by the attach)
	for _, e := range pre {
		desc, err := ApplyEdit(p.D, e)
		r.log("c%d (not attached yet): %s", p.Idx, desc)
		if err != nil {
			return failf("EDITFAIL", "c%d before attach: %s: %v", p.Idx, desc, err)
		}
		r.Ev["edit_before_attach"]++
	}
	if err := c.Attach(r.ctx, p.D, r.attachOpts(p.Idx)...); err != nil {
		return failf("ATTACHFAIL", "c%d: %v", p.Idx, err)
	}
	p.Attached = true
	r.S.WaitIdle()
	return nil
}

func (r *Runner) sync(p *Peer, pushOnly bool) *Failure {
	before := p.D.GarbageLen()
	var err error
	if pushOnly {
		err = p.C.Sync(r.ctx, client.WithKey(r.DocKey).WithPushOnly())
	} else {
		err = p.C.Sync(r.ctx)
	}
	if err != nil {
		return failf("SYNCFAIL", "c%d: %v", p.Idx, err)
	}
	if p.D.GarbageLen() < before {
		r.Ev["client_gc_purged"]++
		p.Purged = true
	}
	r.S.WaitIdle()
	if r.ExFail != nil {
		return r.ExFail
	}
	return nil
}

// ActorsOrdered reports whether actor ids sort in activation order (needed
// for comparing contents across two runs of the same program).
func (r *Runner) ActorsOrdered() bool {
	for i := 1; i < len(r.Peers); i++ {
		if strings.Compare(r.Peers[i-1].ID, r.Peers[i].ID) >= 0 {
			return false
		}
	}
	return true
}

var showStates = os.Getenv("VERIF_SHOW_STATES") != ""

// Step executes one step.
func (r *Runner) Step(s Step) *Failure {
	if r.StepGuard != nil {
		if ns, why := r.StepGuard(s); why != "" {
			r.Ev["excluded:"+why]++
			s = ns
		}
	}
	p := r.Peers[s.Who%len(r.Peers)]
	switch {
	case IsEditOp(s.Op):
		if !p.Attached {
			r.log("c%d: %s (skipped: detached)", p.Idx, s.Op)
			return nil
		}
		if r.Guard != nil {
			ns, why := r.Guard(p.D, s)
			if r.Forced != nil {
				fw, ok := r.Forced[r.cur]
				rewriting := fw == "F2" || fw == "F6" || fw == "F10" || fw == "F11" || fw == "gcfree-contract"
				switch {
				case ok && !rewriting:
					// the twin skipped this step: repeat its decision, whatever
					// this run's own guard says
					ns, why = Step{}, fw
				case ok && why == "":
					// the twin rewrote the step (a deterministic function of
					// the - equal - states) and this run's guard does not
					r.Ev["decision_mismatch"]++
				case !ok && why != "":
					r.Ev["decision_mismatch"]++
				}
			}
			if why != "" {
				if r.Decisions == nil {
					r.Decisions = map[int]string{}
				}
				r.Decisions[r.cur] = why
				r.Ev["excluded:"+why]++
				s = ns
				if s.Op == "" {
					r.log("c%d: (excluded %s)", p.Idx, why)
					return nil
				}
			}
		}
		desc, err := ApplyEdit(p.D, s)
		r.log("c%d: %s", p.Idx, desc)
		if err != nil && r.TolerateUndoError && (s.Op == "undo" || s.Op == "redo") && !strings.HasPrefix(err.Error(), "PANIC") {
			r.log("c%d: %s returned an error (tolerated): %v", p.Idx, s.Op, err)
			r.Ev["undo_redo_error"]++
			return nil
		}
		if err != nil {
			return failf("EDITFAIL", "c%d %s: %v", p.Idx, desc, err)
		}
		r.Ev["edit"]++
		if desc == "undo" || desc == "redo" {
			r.Ev["undo_redo_executed"]++
		}
		if s.Op == "pset" || s.Op == "pclear" || s.Op == "pmix" || s.Op == "pmixh" {
			r.Ev["presence_write"]++
		}
		if r.OnEdit != nil {
			r.OnEdit(r, p)
			if r.ExFail != nil {
				return r.ExFail
			}
		}
		if r.P.Cfg.Flags["serial"] == 1 {
			// Serial stratum: every edit is delivered to everyone before
			// the next one, so the history contains no concurrency.
			if f := r.sync(p, false); f != nil {
				return f
			}
			for _, q := range r.Peers {
				if q != p && q.Attached {
					if f := r.sync(q, false); f != nil {
						return f
					}
				}
			}
		}
		return nil
	case s.Op == "sync" || s.Op == "pushonly":
		if !p.Attached {
			r.log("c%d: %s (skipped: detached)", p.Idx, s.Op)
			return nil
		}
		r.log("c%d: %s", p.Idx, s.Op)
		if r.RecordCalls {
			return r.faultySync(p, s.Op == "pushonly", 0, true)
		}
		return r.sync(p, s.Op == "pushonly")
	case s.Op == "faultsync" || s.Op == "faultpushonly":
		// A = index of the storage event that fails; C == 1: the response is lost
		// instead; B == 1: no immediate retry (the next sync of the program retries);
		// B == 2: the immediate retry is a push-only sync; B == 3: one more
		// edit, then a push-only sync.
		if !p.Attached {
			r.log("c%d: %s (skipped: detached)", p.Idx, s.Op)
			return nil
		}
		ev := s.A
		if s.C == 1 {
			ev = -1
		}
		r.log("c%d: %s with a fault at storage event %d", p.Idx, s.Op[5:], ev)
		return r.faultySync(p, s.Op == "faultpushonly", ev, false, s.B)
	case s.Op == "round":
		// every attached client syncs once, in order, starting with Who
		r.log("-- round: every client syncs once")
		n := len(r.Peers)
		for i := 0; i < n; i++ {
			q := r.Peers[(s.Who+i)%n]
			if q.Attached {
				if f := r.sync(q, false); f != nil {
					return f
				}
			}
		}
		return nil
	case s.Op == "losesync":
		// The server handles the request completely but the response is
		// lost; the client keeps its local changes and checkpoint and will
		// resend the identical pack with its next sync.
		if !p.Attached {
			r.log("c%d: losesync (skipped: detached)", p.Idx)
			return nil
		}
		r.log("c%d: sync whose response is lost", p.Idx)
		fired := false
		world.Rec.SetDrop(func(method string, req proto.Message) bool {
			m, ok := req.(*api.PushPullChangesRequest)
			if ok && m.ClientId == p.ID && !fired {
				fired = true
				return true
			}
			return false
		})
		err := p.C.Sync(r.ctx)
		world.Rec.SetDrop(nil)
		r.S.WaitIdle()
		if err == nil || !fired {
			return failf("HARNESS", "response drop did not fire (err=%v fired=%v)", err, fired)
		}
		r.Ev["response_lost"]++
		if r.ExFail != nil {
			return r.ExFail
		}
		return nil
	case s.Op == "syncedit":
		// The client goes on editing while its sync request is in flight: the
		// edit is made after the server handled the request and before the
		// client applies the response (what any interactive application does).
		if !p.Attached || s.E == "" || !IsEditOp(s.E) {
			return r.Step(Step{Who: s.Who, Op: "sync"})
		}
		if r.P.Cfg.Flags["serial"] == 1 {
			// serial stratum (no concurrency by construction): sync, then edit
			if f := r.Step(Step{Who: s.Who, Op: "sync"}); f != nil {
				return f
			}
			return r.Step(Step{Who: s.Who, Op: s.E, A: s.A, B: s.B, C: s.C})
		}
		r.log("c%d: sync, editing while the request is in flight", p.Idx)
		fired := false
		var inner *Failure
		world.Rec.SetInflight(func(method string, req proto.Message) {
			m, ok := req.(*api.PushPullChangesRequest)
			if ok && m.ClientId == p.ID && !fired {
				fired = true
				inner = r.Step(Step{Who: s.Who, Op: s.E, A: s.A, B: s.B, C: s.C})
			}
		})
		f := r.sync(p, false)
		world.Rec.SetInflight(nil)
		if inner != nil {
			return inner
		}
		if f != nil {
			f.Msg = "(an edit was made while the request was in flight) " + f.Msg
			return f
		}
		if !fired {
			return failf("HARNESS", "in-flight callback did not fire")
		}
		r.Ev["edit_while_sync_in_flight"]++
		if r.ExFail != nil {
			return r.ExFail
		}
		return nil
	case s.Op == "preattach":
		// a late attacher that edited its new document before attaching it
		if len(r.Peers) >= r.MaxPeers {
			return r.Step(Step{Who: s.Who, Op: "sync"})
		}
		r.log("c%d: late attach of a document that was edited before", len(r.Peers))
		r.Ev["late_attach"]++
		ops := []string{"rootset", "oset", "aadd", "cinc", "tedit", "rootset", "aadd"}
		var pre []Step
		for i := 0; i < 1+s.C%3; i++ {
			pre = append(pre, Step{Op: ops[(s.A+i*3+s.B)%len(ops)], A: s.A + i, B: s.B + i, C: 1 + (s.C+i)%5})
		}
		return r.addPeer(true, pre...)
	case s.Op == "attach":
		if len(r.Peers) >= r.MaxPeers {
			return r.Step(Step{Who: s.Who, Op: "sync"})
		}
		r.log("c%d: late attach", len(r.Peers))
		r.Ev["late_attach"]++
		return r.addPeer(true)
	case s.Op == "detach":
		attached := 0
		for _, q := range r.Peers {
			// (F23: some client with a version-vector row must stay attached;
			// GC-free attachments have none)
			if q.Attached && (r.NonParticipant == nil || !r.NonParticipant(q) || q == p) {
				attached++
			}
		}
		if !p.Attached || (attached <= 1 && r.P.Cfg.Flags["allow_all_detach"] == 0) {
			return r.Step(Step{Who: s.Who, Op: "sync"})
		}
		r.log("c%d: detach", p.Idx)
		if err := p.C.Detach(r.ctx, p.D); err != nil {
			return failf("DETACHFAIL", "c%d: %v", p.Idx, err)
		}
		p.Attached = false
		r.Ev["detach"]++
		r.S.WaitIdle()
		return nil
	case s.Op == "deactivate":
		attached := 0
		for _, q := range r.Peers {
			if q.Attached && (r.NonParticipant == nil || !r.NonParticipant(q) || q == p) {
				attached++
			}
		}
		if !p.Attached || attached <= 1 {
			return r.Step(Step{Who: s.Who, Op: "sync"})
		}
		if r.Guard != nil {
			if _, why := r.Guard(p.D, s); why != "" {
				r.Ev["excluded:"+why]++
				return r.Step(Step{Who: s.Who, Op: "detach"})
			}
		}
		r.log("c%d: deactivate", p.Idx)
		if err := p.C.Deactivate(r.ctx); err != nil {
			return failf("DEACTIVATEFAIL", "c%d: %v", p.Idx, err)
		}
		p.Attached, p.Dead = false, true
		r.Ev["deactivate"]++
		r.S.WaitIdle()
		return nil
	case s.Op == "reattach":
		if p.Dead {
			return nil
		}
		if p.Attached {
			return r.Step(Step{Who: s.Who, Op: "sync"})
		}
		r.log("c%d: reattach with a new document instance", p.Idx)
		p.D = r.newDoc()
		if err := p.C.Attach(r.ctx, p.D, r.attachOpts(p.Idx+1)...); err != nil {
			return failf("ATTACHFAIL", "c%d (reattach): %v", p.Idx, err)
		}
		p.Attached = true
		r.Ev["reattach"]++
		r.S.WaitIdle()
		return nil
	case s.Op == "compact":
		// Forced compaction at a quiescent point (what housekeeping or the
		// admin API do): everybody syncs, the server compacts, and every
		// attached client - now of the old generation - detaches and attaches
		// again with a new document instance, which must show the content
		// from before the compaction.
		if r.Ev["compact"] >= 2 {
			return r.Step(Step{Who: s.Who, Op: "sync"})
		}
		if f := r.Quiesce(false); f != nil {
			return f
		}
		if f := r.CheckConverged(); f != nil {
			return f
		}
		before := r.Content()
		di, err := r.DocInfo()
		if err != nil {
			return failf("HARNESS", "docinfo: %v", err)
		}
		// the compaction replaces the log: count the concurrency of the old
		// generation now (cross-run comparisons depend on it)
		r.Ev["concurrent_pairs_before_compaction"] += r.CountConcurrency()
		ok, err := documents.CompactDocument(r.ctx, r.S.BE, r.Proj, di, true)
		r.S.WaitIdle()
		r.log("server: forced compaction at head %d -> compacted=%v err=%v", di.ServerSeq, ok, err)
		if err != nil || !ok {
			return failf("COMPACTFAIL", "CompactDocument(force) at head %d: compacted=%v err=%v (content: %s)", di.ServerSeq, ok, err, before)
		}
		r.Ev["compact"]++
		for _, q := range r.Peers {
			if !q.Attached {
				continue
			}
			if err := q.C.Detach(r.ctx, q.D); err != nil {
				return failf("STALE-DETACH-FAILED", "c%d after compaction: %v", q.Idx, err)
			}
			q.D = r.newDoc()
			q.SnapshotFed, q.Purged = false, false
			if err := q.C.Attach(r.ctx, q.D, r.attachOpts(q.Idx+1)...); err != nil {
				return failf("ATTACHFAIL", "c%d (re-attach after compaction): %v", q.Idx, err)
			}
			r.S.WaitIdle()
			if got := q.D.Marshal(); got != before {
				return failf("COMPACTION-CHANGED-CONTENT", "c%d re-attached after compaction:\n got %s\nwant %s", q.Idx, got, before)
			}
		}
		r.log("-- all clients re-attached to the compacted document")
		return nil
	case s.Op == "cachepurge":
		r.log("server: snapshot cache purge")
		r.S.BE.Cache.Snapshot.Purge()
		r.Ev["cache_purge"]++
		return nil
	case s.Op == "cacheremove":
		r.log("server: snapshot cache remove(doc)")
		if di, err := r.DocInfo(); err == nil {
			r.S.BE.Cache.Snapshot.Remove(di.RefKey())
		}
		r.Ev["cache_remove"]++
		return nil
	case s.Op == "adminedit":
		// The admin API "edit document" (documents.UpdateDocument): the server
		// builds the head (through the snapshot cache), applies the given YSON
		// to it and pushes the change as the system client. C odd: the edit is
		// REFUSED by a schema rule after it was applied to the built document -
		// nothing may remain of it anywhere.
		di, err := r.DocInfo()
		if err != nil {
			return failf("HARNESS", "docinfo: %v", err)
		}
		key := fmt.Sprintf("adm%d", s.A%2)
		root := yson.Object{key: int32(s.B)}
		refused := s.C%2 == 1
		var schema *types.Schema
		mode := documents.UpdateModeRootOnly
		if refused {
			schema = &types.Schema{Name: "verif", Version: 1, Rules: []types.Rule{{Path: "$." + key, Type: "string"}}}
			mode = documents.UpdateModeBoth
		}
		before := di.ServerSeq
		_, uerr := documents.UpdateDocument(r.ctx, r.S.BE, r.Proj, di, root, schema, mode)
		r.S.WaitIdle()
		r.log("admin: edit document %s=%d (refused by schema: %v) at head %d -> err=%v", key, s.B, refused, before, uerr)
		switch {
		case refused && uerr == nil:
			return failf("ADMINEDIT-ACCEPTED", "an admin edit that violates the given schema rule was accepted")
		case refused:
			r.Ev["admin_edit_refused"]++
			if di2, err := r.DocInfo(); err == nil && di2.ServerSeq != before {
				return failf("REFUSED-ADMINEDIT-STORED", "the refused admin edit moved the head %d -> %d", before, di2.ServerSeq)
			}
		case uerr != nil:
			return failf("ADMINEDITFAIL", "documents.UpdateDocument(%s=%d) at head %d: %v", key, s.B, before, uerr)
		default:
			r.Ev["admin_edit"]++
		}
		return nil
	case s.Op == "histview":
		di, err := r.DocInfo()
		if err != nil {
			return failf("HARNESS", "docinfo: %v", err)
		}
		if di.ServerSeq < 2 {
			return nil
		}
		seq := 1 + int64(s.A*8+s.B)%(di.ServerSeq-1)
		if s.C == 8 {
			// an unusual input of the admin API: a serverSeq beyond the head.
			// Whatever the answer (an error, or the head), it must not change
			// what later builds return.
			beyond := di.ServerSeq + 1 + int64(s.B%3)
			r.log("admin: view history at serverSeq %d, beyond the head %d", beyond, di.ServerSeq)
			r.Ev["histview_beyond_head"]++
			got, err := documents.GetDocumentByServerSeq(r.ctx, r.S.BE, r.Proj, di.Key, beyond)
			if err == nil {
				refs, f := r.logPrefixContents(di, di.ServerSeq)
				if f != nil {
					return f
				}
				if want := refs[di.ServerSeq]; got.Marshal() != want {
					return failf("HISTVIEWDIFF", "document at serverSeq %d (beyond the head %d) is not the head:\n got %s\nwant %s", beyond, di.ServerSeq, got.Marshal(), want)
				}
			}
			return nil
		}
		r.log("admin: view history at serverSeq %d (head %d)", seq, di.ServerSeq)
		r.Ev["histview"]++
		got, err := documents.GetDocumentByServerSeq(r.ctx, r.S.BE, r.Proj, di.Key, seq)
		if err != nil {
			return failf("HISTVIEWFAIL", "seq %d: %v", seq, err)
		}
		// the answer computed with the (warm) snapshot cache must be the
		// answer the store gives: the log prefix replayed from scratch
		refs, f := r.logPrefixContents(di, seq)
		if f != nil {
			return f
		}
		if want := refs[seq]; got.Marshal() != want {
			return failf("HISTVIEWDIFF", "document at serverSeq %d (head %d):\n got %s\nwant %s", seq, di.ServerSeq, got.Marshal(), want)
		}
		return nil
	}
	return failf("HARNESS", "unknown op %q", s.Op)
}

// DocInfo returns the server's document row.
func (r *Runner) DocInfo() (*database.DocInfo, error) {
	return documents.FindDocInfoByKey(r.ctx, r.S.BE, r.Proj, r.DocKey)
}

// Quiesce runs the final quiescent rounds: every attached peer syncs, three
// rounds (the minimum version vector lags one round trip per client).
func (r *Runner) Quiesce(reverse bool) *Failure {
	order := make([]*Peer, 0, len(r.Peers))
	for _, p := range r.Peers {
		if p.Attached {
			order = append(order, p)
		}
	}
	if reverse {
		for i, j := 0, len(order)-1; i < j; i, j = i+1, j-1 {
			order[i], order[j] = order[j], order[i]
		}
	}
	r.log("-- quiescent round (reverse=%v)", reverse)
	for round := 0; round < 3; round++ {
		for _, p := range order {
			if f := r.sync(p, false); f != nil {
				f.Kind = "FINAL" + f.Kind
				return f
			}
		}
	}
	return nil
}

// CheckConverged compares all attached replicas and each clone with its root.
func (r *Runner) CheckConverged() *Failure {
	var first *Peer
	for _, p := range r.Peers {
		if !p.Attached {
			continue
		}
		if first == nil {
			first = p
		} else if got, want := p.D.Marshal(), first.D.Marshal(); got != want {
			if r.NormaliseChunks && NormaliseChunks(got) == NormaliseChunks(want) {
				// same characters with the same attributes, cut into nodes differently
				r.Ev["chunking_only_difference"]++
				continue
			}
			return failf("DIVERGED", "c%d vs c%d (snapshot-fed: %v/%v):\n%s\n%s",
				first.Idx, p.Idx, first.SnapshotFed, p.SnapshotFed, want, got)
		}
		if root, m := p.D.Root().Marshal(), p.D.Marshal(); root != m {
			return failf("CLONE!=ROOT", "c%d:\n%s\n%s", p.Idx, root, m)
		}
	}
	return nil
}

// Content returns the marshalled content of the first attached replica.
func (r *Runner) Content() string {
	for _, p := range r.Peers {
		if p.Attached {
			return p.D.Marshal()
		}
	}
	return ""
}

// Log returns the stored change rows of the document.
func (r *Runner) Log() ([]*database.ChangeInfo, *database.DocInfo, error) {
	di, err := r.DocInfo()
	if err != nil {
		return nil, nil, err
	}
	infos, err := r.S.DB.Database.FindChangeInfosBetweenServerSeqs(r.ctx, di.RefKey(), 1, math.MaxInt64)
	return infos, di, err
}

// CountConcurrency counts pairs of stored changes with operations by
// different actors whose version vectors are incomparable.
func (r *Runner) CountConcurrency() int {
	infos, _, err := r.Log()
	if err != nil {
		return 0
	}
	var ops []*database.ChangeInfo
	for _, ci := range infos {
		if len(ci.Operations) > 0 {
			ops = append(ops, ci)
		}
	}
	n := 0
	for i := 0; i < len(ops); i++ {
		for j := i + 1; j < len(ops); j++ {
			a, b := ops[i], ops[j]
			if a.ActorID == b.ActorID {
				continue
			}
			if !a.VersionVector.AfterOrEqual(b.VersionVector) && !b.VersionVector.AfterOrEqual(a.VersionVector) {
				n++
			}
		}
	}
	return n
}

// logPrefixContents replays the stored log from scratch (no cache, no GC) and
// returns the content after each serverSeq up to upTo.
func (r *Runner) logPrefixContents(di *database.DocInfo, upTo int64) (map[int64]string, *Failure) {
	changes, err := r.S.DB.Database.FindChangesBetweenServerSeqs(r.ctx, di.RefKey(), 1, upTo)
	if err != nil {
		return nil, failf("HARNESS", "log: %v", err)
	}
	ref := document.NewInternalDocument(r.DocKey)
	refs := map[int64]string{0: ref.Marshal()}
	for _, c := range changes {
		seq := c.ServerSeq()
		if err := ref.ApplyChangePack(change.NewPack(r.DocKey,
			change.InitialCheckpoint.NextServerSeq(seq), []*change.Change{c}, nil, nil), true); err != nil {
			return nil, failf("REFAPPLYFAIL", "log replay without GC fails at seq %d: %v", seq, err)
		}
		refs[seq] = ref.Marshal()
	}
	return refs, nil
}

// CheckWarmCacheBuilds calls BuildInternalDocForServerSeq for a drawn order of
// serverSeqs WITHOUT touching the snapshot cache in between (so cached
// documents of newer and older sequences are met) and compares each answer
// with the log replay.
func (r *Runner) CheckWarmCacheBuilds(order []int) *Failure {
	di, err := r.DocInfo()
	if err != nil {
		return failf("HARNESS", "docinfo: %v", err)
	}
	if di.ServerSeq < 1 {
		return nil
	}
	refs, f := r.logPrefixContents(di, di.ServerSeq)
	if f != nil {
		return f
	}
	for _, o := range order {
		s := 1 + int64(o)%di.ServerSeq
		d, err := packs.BuildInternalDocForServerSeq(r.ctx, r.S.BE, di, s)
		if err != nil {
			return failf("WARMBUILDFAIL", "BuildInternalDocForServerSeq(%d) with a warm cache (head %d): %v", s, di.ServerSeq, err)
		}
		if got := d.Marshal(); got != refs[s] {
			return failf("WARMBUILDDIFF", "seq %d (head %d):\nbuilt: %s\nref:   %s", s, di.ServerSeq, got, refs[s])
		}
		if d.Checkpoint().ServerSeq != s {
			return failf("WARMBUILDSEQ", "asked for serverSeq %d, the built document is at %d", s, d.Checkpoint().ServerSeq)
		}
		r.Ev["warm_build_checked"]++
	}
	return nil
}

// CheckServerRebuild compares BuildInternalDocForServerSeq at every serverSeq
// (cold cache per build) with a from-scratch replay of the log prefix.
func (r *Runner) CheckServerRebuild() *Failure {
	di, err := r.DocInfo()
	if err != nil {
		return failf("HARNESS", "docinfo: %v", err)
	}
	changes, err := r.S.DB.Database.FindChangesBetweenServerSeqs(r.ctx, di.RefKey(), 1, di.ServerSeq)
	if err != nil {
		return failf("HARNESS", "log: %v", err)
	}
	ref := document.NewInternalDocument(r.DocKey)
	refs := map[int64]string{}
	for _, c := range changes {
		seq := c.ServerSeq()
		if err := ref.ApplyChangePack(change.NewPack(r.DocKey,
			change.InitialCheckpoint.NextServerSeq(seq), []*change.Change{c}, nil, nil), true); err != nil {
			return failf("REFAPPLYFAIL", "log replay without GC fails at seq %d: %v", seq, err)
		}
		refs[seq] = ref.Marshal()
	}
	defer r.S.BE.Cache.Snapshot.Purge()
	seqs := make([]int64, 0, len(refs))
	for s := range refs {
		seqs = append(seqs, s)
	}
	sort.Slice(seqs, func(i, j int) bool { return seqs[i] < seqs[j] })
	for _, s := range seqs {
		r.S.BE.Cache.Snapshot.Purge()
		d, err := packs.BuildInternalDocForServerSeq(r.ctx, r.S.BE, di, s)
		if err != nil {
			return failf("BUILDFAIL", "BuildInternalDocForServerSeq(%d): %v", s, err)
		}
		if got := d.Marshal(); got != refs[s] {
			return failf("BUILDDIFF", "seq %d:\nbuilt: %s\nref:   %s", s, got, refs[s])
		}
		r.Ev["rebuild_checked"]++
	}
	if c := r.Content(); c != "" && len(seqs) > 0 && refs[seqs[len(seqs)-1]] != c {
		allSynced := true
		for _, p := range r.Peers {
			if p.Attached && p.D.HasLocalChanges() {
				allSynced = false
			}
		}
		if allSynced {
			return failf("SERVERDOC!=REPLICA", "server log replay:\n%s\nreplica:\n%s", refs[seqs[len(seqs)-1]], c)
		}
	}
	return nil
}

// Result is the outcome of a complete run.
type Result struct {
	Fail     *Failure
	Hist     []string
	Ev       map[string]int
	Contents []string // per round: content after each quiescent round
	Ordered  bool
	Peers    int
	Calls    map[int][]CallRec
	// Decisions are the exclusion decisions taken (step index -> finding id).
	Decisions map[int]string
}

// RunOpts selects optional oracles of Run.
type RunOpts struct {
	ProjTag           string
	Guard             Guard
	Rebuild           bool // sweep BuildInternalDocForServerSeq at the end
	Reverse           bool // reversed final round order
	OnExchange        func(r *Runner, p *Peer, ex *world.Exchange)
	OnEdit            func(r *Runner, p *Peer)
	StepGuard         func(s Step) (Step, string)
	TolerateUndoError bool
	NormaliseChunks   bool
	NonParticipant    func(p *Peer) bool
	AfterQuiesc       func(r *Runner) *Failure
	AttachOpts        func(i int) []interface{}
	RecordCalls       bool
	Forced            map[int]string // exclusion decisions of the twin run to repeat
	// MakeGuard builds an additional guard that can look at all replicas of
	// the run (harness-side knowledge); it is chained after Guard.
	MakeGuard func(r *Runner) Guard
}

// Run executes the whole program: start, steps, quiescent round, convergence
// check, tail, quiescent round, convergence check.
func Run(p Program, o RunOpts) (res Result) {
	r := NewRunner(p, o.ProjTag)
	r.Guard = o.Guard
	r.OnExchange = o.OnExchange
	r.OnEdit = o.OnEdit
	r.StepGuard = o.StepGuard
	r.TolerateUndoError = o.TolerateUndoError
	r.NormaliseChunks = o.NormaliseChunks
	r.NonParticipant = o.NonParticipant
	r.AttachOpts = o.AttachOpts
	defer func() {
		res.Hist = r.Hist
		res.Ev = r.Ev
		res.Ordered = r.ActorsOrdered()
		res.Peers = len(r.Peers)
		res.Calls = r.Calls
		res.Decisions = r.Decisions
		if res.Decisions == nil {
			res.Decisions = map[int]string{}
		}
		r.Close()
	}()
	if f := r.Start(); f != nil {
		res.Fail = f
		return
	}
	r.RecordCalls = o.RecordCalls
	r.Forced = o.Forced
	if o.MakeGuard != nil {
		if r.Guard != nil {
			r.Guard = Chain(r.Guard, o.MakeGuard(r))
		} else {
			r.Guard = o.MakeGuard(r)
		}
	}
	base := 0
	phase := func(steps []Step) *Failure {
		for i, s := range steps {
			r.cur = base + i
			if f := r.Step(s); f != nil {
				return f
			}
			if showStates {
				for _, q := range r.Peers {
					if q.Attached {
						r.log("      c%d garbage=%d %s", q.Idx, q.D.GarbageLen(), q.D.Marshal())
					}
				}
			}
		}
		if f := r.Quiesce(o.Reverse); f != nil {
			return f
		}
		if f := r.CheckConverged(); f != nil {
			return f
		}
		res.Contents = append(res.Contents, r.Content())
		if o.AfterQuiesc != nil {
			if f := o.AfterQuiesc(r); f != nil {
				return f
			}
		}
		return nil
	}
	if f := phase(p.Steps); f != nil {
		res.Fail = f
		return
	}
	if len(p.Tail) > 0 {
		base = len(p.Steps)
		r.log("-- tail")
		if f := phase(p.Tail); f != nil {
			f.Kind = "TAIL-" + f.Kind
			res.Fail = f
			return
		}
	}
	r.Ev["concurrent_pairs"] = r.CountConcurrency() + r.Ev["concurrent_pairs_before_compaction"]
	if o.Rebuild {
		if f := r.CheckServerRebuild(); f != nil {
			res.Fail = f
			return
		}
	}
	return
}

// AddPeer attaches a new client (exported for property-specific flows).
func (r *Runner) AddPeer(late bool) *Failure { return r.addPeer(late) }

// SyncPeer syncs one peer.
func (r *Runner) SyncPeer(p *Peer, pushOnly bool) *Failure { return r.sync(p, pushOnly) }

// Ctx returns the runner's context.
func (r *Runner) Ctx() context.Context { return r.ctx }

// Logf appends a line to the readable history.
func (r *Runner) Logf(format string, a ...any) { r.log(format, a...) }
