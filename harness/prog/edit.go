package prog

import (
	"fmt"
	"math"
	"runtime/debug"
	"strings"
	"unicode/utf16"

	"github.com/yorkie-team/yorkie/pkg/document"
	"github.com/yorkie-team/yorkie/pkg/document/crdt"
	"github.com/yorkie-team/yorkie/pkg/document/json"
	"github.com/yorkie-team/yorkie/pkg/document/presence"
)

// InitDoc creates the fixed small schema on which all edits collide.
func InitDoc(d *document.Document) error {
	return d.Update(func(r *json.Object, p *presence.Presence) error {
		r.SetNewObject("o")
		r.SetNewArray("a")
		r.SetNewText("t")
		r.SetNewCounter("c", 0)
		r.SetNewTree("tr", json.TreeNode{Type: "doc", Children: []json.TreeNode{
			{Type: "p", Children: []json.TreeNode{{Type: "text", Value: "ab"}}},
			{Type: "p", Children: []json.TreeNode{{Type: "text", Value: "cd"}}},
		}})
		return nil
	})
}

// Contents are the text contents the generator draws from: empty, ASCII,
// Hangul (BMP), and a surrogate pair.
var Contents = []string{"", "x", "yz", "한", "😀", "abc"}

// UTF16Len is the length in UTF-16 code units.
func UTF16Len(s string) int { return len(utf16.Encode([]rune(s))) }

// IsEditOp reports whether op is a document edit (executed through Update,
// Undo or Redo on one replica) as opposed to a schedule step.
func IsEditOp(op string) bool {
	switch op {
	case "rootset", "rootdel", "oset", "odel", "onest", "replObj", "replArr", "replText",
		"aadd", "ains", "adel", "amove", "amovefront", "aset", "tedit", "tstyle", "cinc",
		"trtext", "trins", "trdel", "trstyle", "undo", "redo", "pset", "pclear", "pmix", "pmixh", "rootclear", "multi":
		return true
	}
	return false
}

// Guard decides, right before an edit is executed, whether the step must be
// rewritten because it would trigger a listed known finding. It returns the
// (possibly replaced) op and the id of the finding that excluded it.
type Guard func(d *document.Document, s Step) (Step, string)

// ApplyEdit applies one edit step to a document and returns a readable
// description. A panic of the code under test is returned as an error.
func ApplyEdit(d *document.Document, s Step) (desc string, err error) {
	defer func() {
		if r := recover(); r != nil {
			err = fmt.Errorf("PANIC in %s: %v\n%s", desc, r, debug.Stack())
		}
	}()
	desc = s.Op
	switch s.Op {
	case "undo":
		if !d.CanUndo() {
			return "undo(nothing)", nil
		}
		return "undo", d.Undo()
	case "redo":
		if !d.CanRedo() {
			return "redo(nothing)", nil
		}
		return "redo", d.Redo()
	}
	err = d.Update(func(r *json.Object, p *presence.Presence) error {
		if s.Op == "multi" {
			// several edits in ONE Update (one change, one undo entry)
			var descs []string
			for _, sub := range MultiSubs(s) {
				sd, serr := editIn(r, p, sub)
				if serr != nil {
					return serr
				}
				descs = append(descs, sd)
			}
			desc = "one update: " + strings.Join(descs, " + ")
			return nil
		}
		var ierr error
		desc, ierr = editIn(r, p, s)
		return ierr
	})
	return desc, err
}

// multiPool are the edits a "multi" step combines: the C14/C15 content alphabet (no styles, moves,
// set-by-index - F2 is decided per step).
var multiPool = []string{"tedit", "cinc", "oset", "aadd", "tedit", "rootset", "ains", "adel", "odel", "cinc", "trtext", "trins", "cinc", "tedit"}

// MultiSubs derives the 2..3 edits of a "multi" step from its parameters.
func MultiSubs(s Step) []Step {
	n := 2 + s.C%2
	var out []Step
	for i := 0; i < n; i++ {
		out = append(out, Step{Who: s.Who, Op: multiPool[(s.A*3+s.B*5+i*7+s.C)%len(multiPool)], A: s.A + i, B: s.B + 2*i, C: (s.C + 3*i) % 9})
	}
	if out[0].Op != "tedit" && s.A%2 == 0 {
		// half of the cases start with a text insertion (an entry whose first reverse is a text removal)
		out[0].Op = "tedit"
	}
	return out
}

// editIn executes one edit of the alphabet through the proxies of an Update callback.
func editIn(r *json.Object, p *presence.Presence, s Step) (desc string, err error) {
	desc = s.Op
	{
		switch s.Op {
		case "pset":
			k := []string{"cursor", "name"}[s.A%2]
			v := fmt.Sprintf("v%d", s.B)
			p.Set(k, v)
			desc = fmt.Sprintf("presence.%s=%s", k, v)
		case "pmix":
			// one Update that edits the root AND touches the presence
			k := []string{"cursor", "name"}[s.A%2]
			v := fmt.Sprintf("m%d", s.B)
			r.SetInteger([]string{"k0", "k1"}[s.C%2], s.B)
			p.Set(k, v)
			desc = fmt.Sprintf("root.k%d=%d + presence.%s=%s (one update)", s.C%2, s.B, k, v)
		case "pmixh":
			// one Update that appends to the array AND sets an UNDOABLE presence
			// key (presence.WithHistory): its undo entry is mixed - a Remove of
			// the element and a presence restore
			k := []string{"cursor", "name"}[s.A%2]
			v := fmt.Sprintf("h%d", s.B)
			a := r.GetArray("a")
			if a == nil {
				a = r.SetNewArray("a")
			}
			a.AddInteger(s.C*10 + s.B)
			p.Set(k, v, presence.WithHistory())
			desc = fmt.Sprintf("a.add %d + presence.%s=%s (undoable, one update)", s.C*10+s.B, k, v)
		case "pclear":
			p.Clear()
			desc = "presence.clear"
		case "rootclear":
			for _, k := range []string{"o", "a", "t", "c", "tr", "k0", "k1"} {
				r.Delete(k)
			}
			desc = "root: delete every key"
		case "rootset":
			key := []string{"k0", "k1"}[s.A%2]
			r.SetInteger(key, s.B)
			desc = fmt.Sprintf("root.%s=%d", key, s.B)
		case "rootdel":
			key := []string{"k0", "k1"}[s.A%2]
			r.Delete(key)
			desc = fmt.Sprintf("root.del %s", key)
		case "oset", "odel", "onest":
			o := r.GetObject("o")
			if o == nil {
				r.SetNewObject("o")
				desc = "recreate o"
				return desc, nil
			}
			key := []string{"x", "y", "z"}[s.A%3]
			switch s.Op {
			case "oset":
				o.SetInteger(key, s.B)
				desc = fmt.Sprintf("o.%s=%d", key, s.B)
			case "odel":
				o.Delete(key)
				desc = fmt.Sprintf("o.del %s", key)
			case "onest":
				o.SetNewObject(key).SetInteger("n", s.B)
				desc = fmt.Sprintf("o.%s={n:%d}", key, s.B)
			}
		case "replObj":
			r.SetNewObject("o").SetInteger("x", s.B)
			desc = "replace o"
		case "replArr":
			r.SetNewArray("a").AddInteger(100 + s.B)
			desc = "replace a"
		case "replText":
			r.SetNewText("t").Edit(0, 0, "R")
			desc = "replace t"
		case "aadd", "ains", "adel", "amove", "amovefront", "aset":
			a := r.GetArray("a")
			if a == nil {
				r.SetNewArray("a")
				desc = "recreate a"
				return desc, nil
			}
			n := a.Len()
			v := s.C*10 + s.B
			switch {
			case s.Op == "aadd" || n == 0:
				a.AddInteger(v)
				desc = fmt.Sprintf("a.add %d", v)
			case s.Op == "ains":
				a.InsertIntegerAfter(s.A%n, v)
				desc = fmt.Sprintf("a.insAfter %d %d", s.A%n, v)
			case s.Op == "adel":
				a.Delete(s.A % n)
				desc = fmt.Sprintf("a.del %d", s.A%n)
			case s.Op == "aset":
				a.SetInteger(s.A%n, v)
				desc = fmt.Sprintf("a.set %d %d", s.A%n, v)
			case n < 2:
				a.AddInteger(v)
				desc = fmt.Sprintf("a.add %d", v)
			case s.Op == "amove":
				i, j := s.A%n, s.B%n
				if i == j {
					j = (j + 1) % n
				}
				a.MoveAfterByIndex(i, j)
				desc = fmt.Sprintf("a.moveAfter prev=%d target=%d", i, j)
			case s.Op == "amovefront":
				i, j := s.A%n, s.B%n
				if i == j {
					j = (j + 1) % n
				}
				a.MoveBefore(a.Get(i).CreatedAt(), a.Get(j).CreatedAt())
				desc = fmt.Sprintf("a.moveBefore next=%d target=%d", i, j)
			}
		case "tedit", "tstyle":
			tx := r.GetText("t")
			if tx == nil {
				r.SetNewText("t")
				desc = "recreate t"
				return desc, nil
			}
			n := UTF16Len(tx.String())
			from := s.A % (n + 1)
			to := min(n, from+s.B%4)
			if s.Op == "tedit" {
				c := Contents[s.C%len(Contents)]
				if c == "" && from == to {
					c = "q"
				}
				tx.Edit(from, to, c)
				desc = fmt.Sprintf("t.edit %d %d %q", from, to, c)
			} else {
				key := []string{"b", "i"}[s.C%2]
				val := []string{"1", "2"}[(s.C/2)%2]
				tx.Style(from, to, map[string]string{key: val})
				desc = fmt.Sprintf("t.style %d %d %s=%s", from, to, key, val)
			}
		case "cinc":
			c := r.GetCounter("c")
			if c == nil {
				r.SetNewCounter("c", 0)
				desc = "recreate c"
				return desc, nil
			}
			v := s.B - 3
			if s.C == 8 {
				v = math.MaxInt32 - s.B // wraps a 32-bit counter
			}
			c.Increase(v)
			desc = fmt.Sprintf("c.inc %d", v)
		case "trtext", "trins", "trdel", "trstyle":
			tr := r.GetTree("tr")
			if tr == nil {
				desc = "no tree"
				r.SetInteger("k0", 0)
				return desc, nil
			}
			var ps []*crdt.TreeNode
			for _, ch := range tr.Root().Index.Children() {
				ps = append(ps, ch.Value)
			}
			if s.Op != "trins" && len(ps) == 0 {
				tr.EditByPath([]int{0}, []int{0}, &json.TreeNode{Type: "p"}, 0)
				desc = "tr.insP at 0"
				return desc, nil
			}
			switch s.Op {
			case "trins":
				i := s.A % (len(ps) + 1)
				c := []string{"", "q", "rs"}[s.C%3]
				node := &json.TreeNode{Type: "p"}
				if c != "" {
					node.Children = []json.TreeNode{{Type: "text", Value: c}}
				}
				tr.EditByPath([]int{i}, []int{i}, node, 0)
				desc = fmt.Sprintf("tr.insP at %d %q", i, c)
			case "trdel":
				i := s.A % len(ps)
				tr.EditByPath([]int{i}, []int{i + 1}, nil, 0)
				desc = fmt.Sprintf("tr.delP %d", i)
			case "trstyle":
				i := s.A % len(ps)
				// the styled range covers 1..3 whole elements
				j := min(len(ps), i+1+(s.B/2)%3)
				if s.C%2 == 0 {
					tr.RemoveStyleByPath([]int{i}, []int{j}, []string{"b"})
					desc = fmt.Sprintf("tr.rmstyle %d..%d", i, j)
				} else {
					val := []string{"1", "2"}[s.B%2]
					tr.StyleByPath([]int{i}, []int{j}, map[string]string{"b": val})
					desc = fmt.Sprintf("tr.style %d..%d b=%s", i, j, val)
				}
			case "trtext":
				i := s.A % len(ps)
				plen := ps[i].Index.Len()
				from := s.B % (plen + 1)
				to := min(plen, from+s.C%3)
				c := []string{"", "X", "YZ"}[(s.C/3)%3]
				if from == to && c == "" {
					c = "W"
				}
				var node *json.TreeNode
				if c != "" {
					node = &json.TreeNode{Type: "text", Value: c}
				}
				tr.EditByPath([]int{i, from}, []int{i, to}, node, 0)
				desc = fmt.Sprintf("tr.text p%d %d..%d %q", i, from, to, c)
			}
		default:
			return desc, fmt.Errorf("harness: unknown edit op %q", s.Op)
		}
		return desc, nil
	}
}
