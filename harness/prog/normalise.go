package prog

import (
	"encoding/json"
	"reflect"
)

// NormaliseChunks rewrites a marshalled document so that node boundaries do
// not show: adjacent text chunks ({"val":..,"attrs":..}) with equal attributes
// and adjacent tree text nodes ({"type":"text","value":..}) are merged.
// Input that is not valid JSON is returned unchanged.
func NormaliseChunks(marshalled string) string {
	var v any
	if err := json.Unmarshal([]byte(marshalled), &v); err != nil {
		return marshalled
	}
	b, err := json.Marshal(normChunks(v))
	if err != nil {
		return marshalled
	}
	return string(b)
}

func normChunks(v any) any {
	switch x := v.(type) {
	case map[string]any:
		for k, c := range x {
			x[k] = normChunks(c)
		}
		return x
	case []any:
		var out []any
		for _, c := range x {
			c = normChunks(c)
			if len(out) > 0 {
				if m, ok := mergeChunk(out[len(out)-1], c); ok {
					out[len(out)-1] = m
					continue
				}
			}
			out = append(out, c)
		}
		if out == nil {
			out = []any{}
		}
		return out
	}
	return v
}

func mergeChunk(a, b any) (any, bool) {
	ma, ok1 := a.(map[string]any)
	mb, ok2 := b.(map[string]any)
	if !ok1 || !ok2 {
		return nil, false
	}
	// text chunk: only "val" and optionally "attrs"
	if va, ok := ma["val"].(string); ok {
		vb, ok := mb["val"].(string)
		if !ok || !onlyKeys(ma, "val", "attrs") || !onlyKeys(mb, "val", "attrs") || !reflect.DeepEqual(ma["attrs"], mb["attrs"]) {
			return nil, false
		}
		m := map[string]any{"val": va + vb}
		if at, has := ma["attrs"]; has {
			m["attrs"] = at
		}
		return m, true
	}
	// tree text node
	if ma["type"] == "text" && mb["type"] == "text" && len(ma) == 2 && len(mb) == 2 {
		va, ok1 := ma["value"].(string)
		vb, ok2 := mb["value"].(string)
		if ok1 && ok2 {
			return map[string]any{"type": "text", "value": va + vb}, true
		}
	}
	return nil, false
}

func onlyKeys(m map[string]any, keys ...string) bool {
	for k := range m {
		found := false
		for _, x := range keys {
			if k == x {
				found = true
			}
		}
		if !found {
			return false
		}
	}
	return true
}
