package prog

import (
	"fmt"

	"github.com/yorkie-team/yorkie/api/converter"
	api "github.com/yorkie-team/yorkie/api/yorkie/v1"
	"github.com/yorkie-team/yorkie/pkg/document/change"
	"github.com/yorkie-team/yorkie/pkg/document/time"

	"verifharness/world"
)

// History records, from the traffic of the real clients and from the
// replicas themselves, what each client sent, received and had applied, and
// evaluates the log/delivery invariants of C04 and the clock invariants of C06
// against it. It is independent of the server's own tables.
type History struct {
	peers map[string]*peerHist
	fail  *Failure
	// LogVV, when set, returns the pointwise maximum of the version vectors
	// (and the maximum lamport) of the stored changes with serverSeq <= upTo.
	// It is what a replica that received a snapshot at that checkpoint has
	// "seen", independently of the vector the snapshot response claims.
	LogVV func(upTo int64) (time.VersionVector, int64)
	// LamportOnly switches the pointwise vector rule off (known finding F23:
	// a snapshot stored while no client has a vector row carries an empty
	// vector). Every lamport rule stays on: a change is strictly newer than
	// everything its author had applied, own timestamps only grow, (lamport,
	// actor) is unique, vv[self] == lamport.
	LamportOnly bool
	// Counters for classification.
	Responses, SnapshotResponses, MinVVChecks, CausalChecks int
}

type delivered struct {
	ServerSeq int64
	Actor     string
	ClientSeq uint32
}

type peerHist struct {
	idx        int
	actor      time.ActorID
	attached   bool
	gcFree     bool // attached with disable_gc: no vector row, not a participant of the minimum vector
	reported   time.VersionVector
	recv       []delivered
	recvFrom   int64 // deliveries are complete for serverSeq > recvFrom
	lastCP     change.Checkpoint
	haveCP     bool
	seenVV     time.VersionVector // pointwise max of the clocks of every change the replica has applied
	seenLamp   int64
	checkedSeq uint32 // clientSeq of the last own local change checked for causality
}

// NewHistory creates an empty history.
func NewHistory() *History { return &History{peers: map[string]*peerHist{}} }

// Fail returns the first invariant violation seen while recording.
func (h *History) Fail() *Failure { return h.fail }

func (h *History) failf(kind, format string, a ...any) {
	if h.fail == nil {
		h.fail = failf(kind, format, a...)
	}
}

func (h *History) peer(p *Peer) *peerHist {
	ph, ok := h.peers[p.ID]
	if !ok {
		ph = &peerHist{idx: p.Idx, actor: p.C.ID(), seenVV: time.NewVersionVector(), reported: time.NewVersionVector()}
		h.peers[p.ID] = ph
	}
	return ph
}

// OnLocalChange must be called after every local edit of p: it checks that
// the clocks of the newly created change(s) dominate everything the replica
// had applied before (C06 causality), using harness-side knowledge only.
func (h *History) OnLocalChange(p *Peer) {
	ph := h.peer(p)
	pack := p.D.CreateChangePack()
	for _, c := range pack.Changes {
		if c.ClientSeq() <= ph.checkedSeq {
			continue
		}
		ph.checkedSeq = c.ClientSeq()
		if !c.HasOperations() {
			continue
		}
		h.CausalChecks++
		id := c.ID()
		if id.Lamport() <= ph.seenLamp {
			h.failf("CLOCK-NOT-AFTER-SEEN", "c%d created a change with lamport %d but had applied a change with lamport %d",
				ph.idx, id.Lamport(), ph.seenLamp)
		}
		for a, l := range ph.seenVV {
			if ph.gcFree || h.LamportOnly {
				// a GC-free attachment is synchronised by lamport only (its
				// contract: commutative edits, no tombstones); the pointwise
				// vector rule is checked for participating clients
				break
			}
			if id.VersionVector().VersionOf(a) < l {
				h.failf("VV-NOT-DOMINATING", "c%d created a change with vv[%s]=%d < %d seen before",
					ph.idx, a.String(), id.VersionVector().VersionOf(a), l)
			}
		}
		if v, ok := id.VersionVector().Get(id.ActorID()); !ok || v != id.Lamport() {
			h.failf("VV-SELF", "c%d local change: vv[self]=%d (present %v) lamport=%d", ph.idx, v, ok, id.Lamport())
		}
		ph.note(id)
	}
}

func (ph *peerHist) note(id change.ID) {
	if !id.HasClocks() {
		return
	}
	if id.Lamport() > ph.seenLamp {
		ph.seenLamp = id.Lamport()
	}
	vv := id.VersionVector()
	ph.seenVV.Max(&vv)
}

// OnExchange consumes one recorded RPC of peer p.
func (h *History) OnExchange(p *Peer, ex *world.Exchange) {
	var reqPack, resPack *api.ChangePack
	detach := false
	pushOnly := false
	disableGC := false
	switch m := ex.Req.(type) {
	case *api.AttachDocumentRequest:
		reqPack = m.ChangePack
		disableGC = m.DisableGc
	case *api.PushPullChangesRequest:
		reqPack = m.ChangePack
		pushOnly = m.PushOnly
		disableGC = m.DisableGc
	case *api.DetachDocumentRequest:
		reqPack = m.ChangePack
		detach = true
	default:
		return
	}
	if reqPack != nil && !disableGC {
		// The request reached the server, which may have stored its vector
		// even if the response was lost or an error was returned. A client's
		// vector only grows, so the newer one is a sound upper bound of the
		// server's row.
		if vv, err := converter.FromVersionVector(reqPack.VersionVector); err == nil {
			h.peer(p).reported = vv
		}
	}
	if ex.Resp == nil || ex.Dropped {
		return
	}
	switch m := ex.Resp.(type) {
	case *api.AttachDocumentResponse:
		resPack = m.ChangePack
	case *api.PushPullChangesResponse:
		resPack = m.ChangePack
	case *api.DetachDocumentResponse:
		resPack = m.ChangePack
	}
	if reqPack == nil || resPack == nil {
		return
	}
	ph := h.peer(p)
	req, err := converter.FromChangePack(reqPack)
	if err != nil {
		h.failf("HARNESS", "decode request pack: %v", err)
		return
	}
	res, err := converter.FromChangePack(resPack)
	if err != nil {
		h.failf("DECODE-RESPONSE", "response pack of c%d does not decode: %v", ph.idx, err)
		return
	}
	h.Responses++

	// what the client acknowledged with this request
	if _, isAttach := ex.Req.(*api.AttachDocumentRequest); isAttach {
		// a new attachment starts a new session: checkpoints restart
		ph.attached = true
		ph.gcFree = disableGC
		ph.haveCP = false
		ph.recv = nil
		ph.recvFrom = 0
		ph.checkedSeq = 0
		for _, c := range req.Changes {
			ph.checkedSeq = max(ph.checkedSeq, c.ClientSeq())
		}
	}
	if detach {
		ph.attached = false
	}
	if !disableGC {
		ph.reported = req.VersionVector.DeepCopy()
	}
	// C04: response checkpoint monotone
	if ph.haveCP {
		if res.Checkpoint.ServerSeq < ph.lastCP.ServerSeq || res.Checkpoint.ClientSeq < ph.lastCP.ClientSeq {
			h.failf("CHECKPOINT-NOT-MONOTONE", "c%d: response checkpoint %s after %s", ph.idx, res.Checkpoint.String(), ph.lastCP.String())
		}
	}
	ph.lastCP, ph.haveCP = res.Checkpoint, true

	if len(res.Snapshot) > 0 {
		h.SnapshotResponses++
		ph.recv = nil
		ph.recvFrom = res.Checkpoint.ServerSeq
		// the snapshot carries the document's clock
		ph.seenVV.Max(&res.VersionVector)
		if l := res.VersionVector.MaxLamport(); l > ph.seenLamp {
			ph.seenLamp = l
		}
		if h.LogVV != nil {
			vv, lamp := h.LogVV(res.Checkpoint.ServerSeq)
			ph.seenVV.Max(&vv)
			if lamp > ph.seenLamp {
				ph.seenLamp = lamp
			}
		}
	} else {
		for _, c := range res.Changes {
			ph.recv = append(ph.recv, delivered{c.ServerSeq(), c.ID().ActorID().String(), c.ClientSeq()})
			ph.note(c.ID())
		}
		_ = pushOnly
		// C06: the minimum vector handed out never overstates what any
		// attached participating client has acknowledged.
		if !disableGC && len(res.VersionVector) > 0 {
			h.MinVVChecks++
			for _, q := range h.peers {
				if !q.attached || q.gcFree {
					continue
				}
				for a, l := range res.VersionVector {
					if l > q.reported.VersionOf(a) {
						h.failf("MINVV-OVERSTATES", "response to c%d carries minVV[%s]=%d but attached c%d last acknowledged %d",
							ph.idx, a.String(), l, q.idx, q.reported.VersionOf(a))
					}
				}
			}
		}
	}
}

// CheckLog evaluates the C04/C06 invariants over the final stored log.
func (h *History) CheckLog(r *Runner, sessionsRestart bool) *Failure {
	if h.fail != nil {
		return h.fail
	}
	infos, di, err := r.Log()
	if err != nil {
		return failf("HARNESS", "read log: %v", err)
	}
	lastClientSeq := map[string]uint32{}
	lastLamport := map[string]int64{}
	seenClock := map[string]int64{}
	for i, ci := range infos {
		if ci.ServerSeq != int64(i+1) {
			return failf("LOG-GAP", "row %d has serverSeq %d", i, ci.ServerSeq)
		}
		a := ci.ActorID.String()
		if ci.ClientSeq != lastClientSeq[a]+1 {
			// On a presenceless document the presence-only changes of clients
			// that did not opt out are stripped before they are stored: they
			// leave gaps in the actor's clientSeq (never a repeat).
			gapOK := r.P.Cfg.NoPresence && ci.ClientSeq > lastClientSeq[a]
			if !(sessionsRestart && ci.ClientSeq == 1) && !gapOK {
				return failf("LOG-CLIENTSEQ", "actor %s: clientSeq %d after %d at serverSeq %d", a, ci.ClientSeq, lastClientSeq[a], ci.ServerSeq)
			}
		}
		lastClientSeq[a] = ci.ClientSeq
		if len(ci.Operations) == 0 {
			continue
		}
		actor, err := ci.ActorID.ToActorID()
		if err != nil {
			return failf("HARNESS", "actor id: %v", err)
		}
		if v, ok := ci.VersionVector.Get(actor); !ok || v != ci.Lamport {
			return failf("VV-SELF", "stored change seq %d: vv[self]=%d (present %v) lamport=%d", ci.ServerSeq, v, ok, ci.Lamport)
		}
		k := fmt.Sprintf("%d@%s", ci.Lamport, a)
		if prev, dup := seenClock[k]; dup {
			return failf("CLOCK-DUPLICATE", "(lamport, actor) %s stored at serverSeq %d and %d", k, prev, ci.ServerSeq)
		}
		seenClock[k] = ci.ServerSeq
		if ci.Lamport <= lastLamport[a] {
			return failf("LAMPORT-NOT-INCREASING", "actor %s: lamport %d after %d (serverSeq %d)", a, ci.Lamport, lastLamport[a], ci.ServerSeq)
		}
		lastLamport[a] = ci.Lamport
	}
	if di.ServerSeq != int64(len(infos)) {
		return failf("LOG-HEAD", "document head %d but %d rows", di.ServerSeq, len(infos))
	}
	// Deliveries: what each client received (since its last snapshot) must be
	// exactly the log rows of the other actors in that range, in order.
	for id, ph := range h.peers {
		if !ph.haveCP {
			continue
		}
		if ph.lastCP.ServerSeq > di.ServerSeq {
			return failf("CHECKPOINT-BEYOND-HEAD", "c%d checkpoint %d > head %d", ph.idx, ph.lastCP.ServerSeq, di.ServerSeq)
		}
		var want []delivered
		for _, ci := range infos {
			if ci.ServerSeq <= ph.recvFrom || ci.ServerSeq > ph.lastCP.ServerSeq {
				continue
			}
			if ci.ActorID.String() == id && !sessionsRestart {
				continue
			}
			want = append(want, delivered{ci.ServerSeq, ci.ActorID.String(), ci.ClientSeq})
		}
		got := ph.recv
		if sessionsRestart {
			// with re-attachments own earlier changes are legitimately
			// delivered again; compare other actors only
			filter := func(in []delivered) (out []delivered) {
				for _, d := range in {
					if d.Actor != id {
						out = append(out, d)
					}
				}
				return
			}
			want, got = filter(want), filter(got)
		}
		if len(want) != len(got) {
			return failf("DELIVERY-MISMATCH", "c%d received %d changes in (%d,%d], log has %d of other actors:\n got %v\nwant %v",
				ph.idx, len(got), ph.recvFrom, ph.lastCP.ServerSeq, len(want), got, want)
		}
		for i := range want {
			if want[i] != got[i] {
				return failf("DELIVERY-MISMATCH", "c%d delivery %d: got %v want %v", ph.idx, i, got[i], want[i])
			}
		}
	}
	return nil
}
