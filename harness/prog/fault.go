package prog

import (
	"context"
	"errors"
	"fmt"

	"google.golang.org/protobuf/proto"

	api "github.com/yorkie-team/yorkie/api/yorkie/v1"
	"github.com/yorkie-team/yorkie/client"
	"github.com/yorkie-team/yorkie/server/projects"

	"verifharness/world"
)

// CallRec is one storage event (a wrapped database call, before or after it
// took effect) issued by the handler of a sync request.
type CallRec struct {
	Method     string      `json:"m"`
	Phase      world.Phase `json:"ph"`
	HasChanges bool        `json:"chg"` // the request stored >=1 change
}

func (c CallRec) String() string {
	ph := "before"
	if c.Phase == world.After {
		ph = "after"
	}
	return fmt.Sprintf("%s/%s", c.Method, ph)
}

// ErrInjected is the injected storage error.
var ErrInjected = errors.New("verif: injected storage fault")

// faultySync performs the sync of the current step while recording its
// storage events or injecting the configured fault; after an injected fault
// the client retries, as a user would, and the retry must succeed.
func (r *Runner) faultySync(p *Peer, pushOnly bool, event int, record bool, retryMode ...int) *Failure {
	var events []CallRec
	stored := false
	fired := false
	r.S.DB.SetHook(func(ctx context.Context, method string, ph world.Phase, args any) error {
		if !projects.HasProject(ctx) {
			return nil // background work (snapshot storing), not the handler
		}
		if a, ok := args.(*world.CreateChangeInfosArgs); ok && len(a.Changes) > 0 {
			stored = true
		}
		idx := len(events)
		events = append(events, CallRec{Method: method, Phase: ph})
		if !record && !fired && idx == event {
			fired = true
			return ErrInjected
		}
		return nil
	})
	if !record && event == -1 {
		world.Rec.SetDrop(func(method string, req proto.Message) bool {
			m, ok := req.(*api.PushPullChangesRequest)
			if ok && m.ClientId == p.ID && !fired {
				fired = true
				return true
			}
			return false
		})
	}
	doSync := func() error {
		if pushOnly {
			return p.C.Sync(r.ctx, client.WithKey(r.DocKey).WithPushOnly())
		}
		return p.C.Sync(r.ctx)
	}
	err := doSync()
	r.S.DB.SetHook(nil)
	world.Rec.SetDrop(nil)
	r.S.WaitIdle()
	if record {
		for i := range events {
			events[i].HasChanges = stored
		}
		if r.Calls == nil {
			r.Calls = map[int][]CallRec{}
		}
		r.Calls[r.cur] = events
		if err != nil {
			return failf("SYNCFAIL", "c%d: %v", p.Idx, err)
		}
		return r.ExFail
	}
	if !fired {
		// the fault point does not exist in this run (the run diverged from
		// the recording twin): inconclusive for this fault, not a violation
		r.Ev["fault_not_reached"]++
		if err != nil {
			return failf("SYNCFAIL", "c%d: %v", p.Idx, err)
		}
		return r.ExFail
	}
	r.Ev["fault_fired"]++
	if err == nil {
		r.Ev["fault_tolerated_by_server"]++
	} else {
		r.log("c%d: sync failed as injected (%v); retrying", p.Idx, truncate(err.Error(), 80))
	}
	mode := 0
	if len(retryMode) > 0 {
		mode = retryMode[0]
	}
	if mode == 1 {
		// no immediate retry: the client goes on (possibly editing) and the
		// next sync of the program resends the unacknowledged changes
		// together with whatever was added since
		r.Ev["retry_deferred"]++
		return r.ExFail
	}
	if mode == 3 {
		// the client goes on: one more edit, pushed by a push-only sync (a
		// realtime client in push-only mode), before any pulling sync
		r.Ev["retry_edit_then_pushonly"]++
		if f := r.Step(Step{Who: p.Idx, Op: "cinc", A: 1}); f != nil {
			return f
		}
		if err := p.C.Sync(r.ctx, client.WithKey(r.DocKey).WithPushOnly()); err != nil {
			return failf("RETRYFAIL", "c%d: push-only sync (one more edit) after the injected fault fails: %v", p.Idx, err)
		}
		r.S.WaitIdle()
		return r.ExFail
	}
	if mode == 2 {
		// the retry is a push-only sync (a client in realtime push-only mode):
		// it resends the changes but pulls nothing
		r.Ev["retry_pushonly"]++
		if err := p.C.Sync(r.ctx, client.WithKey(r.DocKey).WithPushOnly()); err != nil {
			return failf("RETRYFAIL", "c%d: push-only retry after the injected fault fails: %v", p.Idx, err)
		}
		r.S.WaitIdle()
		return r.ExFail
	}
	if err := doSync(); err != nil {
		return failf("RETRYFAIL", "c%d: retry after the injected fault fails: %v", p.Idx, err)
	}
	r.S.WaitIdle()
	return r.ExFail
}

func truncate(s string, n int) string {
	if len(s) > n {
		return s[:n] + "..."
	}
	return s
}
