package prog

import (
	"github.com/yorkie-team/yorkie/pkg/document"
	"github.com/yorkie-team/yorkie/pkg/document/operations"
)

// Exclusions by construction for the open entries of /verif/known_findings.json.
// Each predicate is evaluated by the interpreter right before a step is
// executed, on the editing replica's own state only; a matching step is
// rewritten to the nearest step that does not trigger the finding and counted.
// Predicates are keyed to the finding's trigger, never to an output pattern.

// GuardF2 — ArraySet on an element that has been moved: Set inserts the new
// value after the element's ORIGINAL (dead) slot while that slot exists and
// after its current slot once GC purged it, so the result depends on GC and
// the value does not land at the index the caller named.
func GuardF2(d *document.Document, s Step) (Step, string) {
	if s.Op != "aset" {
		return s, ""
	}
	a := d.Root().GetArray("a")
	if a == nil || a.Len() == 0 {
		return s, ""
	}
	n := a.Len()
	moved := func(i int) bool {
		node, err := a.RGATreeList().Get(i)
		return err == nil && node != nil && node.PositionMovedAt() != nil
	}
	idx := s.A % n
	if !moved(idx) {
		return s, ""
	}
	for k := 1; k < n; k++ {
		j := (idx + k) % n
		if !moved(j) {
			ns := s
			ns.A = j
			return ns, "F2"
		}
	}
	ns := s
	ns.Op = "aadd"
	return ns, "F2"
}

// Chain combines guards; the first one that rewrites wins, later guards see
// the rewritten step.
func Chain(gs ...Guard) Guard {
	return func(d *document.Document, s Step) (Step, string) {
		why := ""
		for _, g := range gs {
			ns, w := g(d, s)
			if w != "" {
				s = ns
				if why == "" {
					why = w
				}
			}
		}
		return s, why
	}
}

// GuardF6 — upstream-known and deliberately unfixed (docs/tasks/active/
// 20260816-remote-redo-replica-divergence-todo.md): an undo/redo whose
// reverse entry contains an Object.Set restores an element under its
// original createdAt; a peer applying that Set remotely keeps the stale GC
// registration of that identity and its next GC deletes the live key.
func GuardF6(d *document.Document, s Step) (Step, string) {
	var top []document.HistoryOperation
	switch s.Op {
	case "undo":
		top = d.UndoStackTopForTest()
	case "redo":
		top = d.RedoStackTopForTest()
	default:
		return s, ""
	}
	for _, h := range top {
		if _, ok := h.Op.(*operations.Set); ok {
			return Step{}, "F6"
		}
	}
	return s, ""
}

// Writers returns, per container ("t", "tr", "a", "o", "c"), the set of
// clients that edit it anywhere in the program (valid for programs without
// late attachers: Who resolves modulo the initial client count).
func Writers(p Program) map[string]map[int]bool {
	w := map[string]map[int]bool{}
	add := func(c string, who int) {
		if w[c] == nil {
			w[c] = map[int]bool{}
		}
		w[c][who%p.Cfg.N] = true
	}
	for _, s := range append(append([]Step{}, p.Steps...), p.Tail...) {
		switch s.Op {
		case "tedit", "tstyle", "replText":
			add("t", s.Who)
		case "trtext", "trins", "trdel", "trstyle":
			add("tr", s.Who)
		case "aadd", "ains", "adel", "amove", "amovefront", "aset", "replArr":
			add("a", s.Who)
		}
	}
	return w
}

// GuardF10F11 — undo/redo of a text edit (F10) or tree edit (F11) diverges
// when a peer edits the same text/tree concurrently (the reverse operation
// restores or removes a range that the peers reconcile differently). The
// trigger is excluded coarsely: an undo/redo whose reverse entry contains a
// text Edit / TreeEdit is only executed in programs where that container has a
// single writer.
func GuardF10F11(p Program) Guard {
	w := Writers(p)
	return func(d *document.Document, s Step) (Step, string) {
		var top []document.HistoryOperation
		switch s.Op {
		case "undo":
			top = d.UndoStackTopForTest()
		case "redo":
			top = d.RedoStackTopForTest()
		default:
			return s, ""
		}
		for _, h := range top {
			switch h.Op.(type) {
			case *operations.Edit, *operations.Style:
				if len(w["t"]) > 1 {
					return Step{}, "F10"
				}
			case *operations.TreeEdit, *operations.TreeStyle:
				if len(w["tr"]) > 1 {
					return Step{}, "F11"
				}
			}
		}
		return s, ""
	}
}
