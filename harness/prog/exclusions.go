package prog

import (
	"github.com/yorkie-team/yorkie/pkg/document"
	"github.com/yorkie-team/yorkie/pkg/document/operations"
	"sync"
)

// Exclusions by construction for the open entries of /verif/known_findings.json.
// Each predicate is evaluated by the interpreter right before a step is
// executed, on the editing replica's own state only; a matching step is
// rewritten to the nearest step that does not trigger the finding and counted.
// Predicates are keyed to the finding's trigger, never to an output pattern.

// GuardF2 — ArraySet on an element that has been moved: Set inserts the new
// value after the element's ORIGINAL (dead) slot while that slot exists and
// after its current slot once GC purged it, so the result depends on GC and
// the value does not land at the index the caller named.
func GuardF2(d *document.Document, s Step) (Step, string) {
	if s.Op != "aset" {
		return s, ""
	}
	a := d.Root().GetArray("a")
	if a == nil || a.Len() == 0 {
		return s, ""
	}
	n := a.Len()
	moved := func(i int) bool {
		node, err := a.RGATreeList().Get(i)
		return err == nil && node != nil && node.PositionMovedAt() != nil
	}
	idx := s.A % n
	if !moved(idx) {
		return s, ""
	}
	for k := 1; k < n; k++ {
		j := (idx + k) % n
		if !moved(j) {
			ns := s
			ns.A = j
			return ns, "F2"
		}
	}
	ns := s
	ns.Op = "aadd"
	return ns, "F2"
}

// Chain combines guards; later guards see the rewritten step. The reported
// finding is the first one that rewrote the step, or the one that skipped it.
func Chain(gs ...Guard) Guard {
	return func(d *document.Document, s Step) (Step, string) {
		why := ""
		for _, g := range gs {
			ns, w := g(d, s)
			if w != "" {
				s = ns
				if why == "" || ns.Op == "" {
					// the finding that decided: the first rewrite, or whoever skips the step
					why = w
				}
				if ns.Op == "" {
					return s, why
				}
			}
		}
		return s, why
	}
}

// GuardF6 — upstream-known and deliberately unfixed (docs/tasks/active/
// 20260816-remote-redo-replica-divergence-todo.md): an undo/redo whose
// reverse entry contains an Object.Set restores an element under its
// original createdAt; a peer applying that Set remotely keeps the stale GC
// registration of that identity and its next GC deletes the live key.
func GuardF6(d *document.Document, s Step) (Step, string) {
	var top []document.HistoryOperation
	switch s.Op {
	case "undo":
		top = d.UndoStackTopForTest()
	case "redo":
		top = d.RedoStackTopForTest()
	default:
		return s, ""
	}
	for _, h := range top {
		if _, ok := h.Op.(*operations.Set); ok {
			return Step{}, "F6"
		}
	}
	return s, ""
}

// Writers returns, per container ("t", "tr", "a", "o", "c"), the set of
// clients that edit it anywhere in the program (valid for programs without
// late attachers: Who resolves modulo the initial client count).
func Writers(p Program) map[string]map[int]bool {
	w := map[string]map[int]bool{}
	add := func(c string, who int) {
		if w[c] == nil {
			w[c] = map[int]bool{}
		}
		w[c][who%p.Cfg.N] = true
	}
	for _, s := range append(append([]Step{}, p.Steps...), p.Tail...) {
		switch s.Op {
		case "tedit", "tstyle", "replText":
			add("t", s.Who)
		case "trtext", "trins", "trdel", "trstyle":
			add("tr", s.Who)
		case "aadd", "ains", "adel", "amove", "amovefront", "aset", "replArr":
			add("a", s.Who)
		}
	}
	return w
}

// GuardF10F11 — undo/redo of a text edit (F10) or tree edit (F11) diverges
// when a peer edits the same text/tree concurrently (the reverse operation
// restores or removes a range that the peers reconcile differently). The
// trigger is excluded coarsely: an undo/redo whose reverse entry contains a
// text Edit / TreeEdit is only executed in programs where that container has a
// single writer.
func GuardF10F11(p Program) Guard {
	w := Writers(p)
	return func(d *document.Document, s Step) (Step, string) {
		var top []document.HistoryOperation
		switch s.Op {
		case "undo":
			top = d.UndoStackTopForTest()
		case "redo":
			top = d.RedoStackTopForTest()
		default:
			return s, ""
		}
		for _, h := range top {
			switch h.Op.(type) {
			case *operations.Edit, *operations.Style:
				if len(w["t"]) > 1 {
					return Step{}, "F10"
				}
			case *operations.TreeEdit, *operations.TreeStyle:
				if len(w["tr"]) > 1 {
					return Step{}, "F11"
				}
			}
		}
		return s, ""
	}
}

// tombAdjacent reports whether a removed node lies physically between the
// k-th live node (k = 0: the start) and the next live node (or the end).
func tombAdjacent(removed []bool, k int) bool {
	live := 0
	i := 0
	for ; i < len(removed) && live < k; i++ {
		if !removed[i] {
			live++
		}
	}
	// i is right after the k-th live node (or 0)
	for ; i < len(removed); i++ {
		if !removed[i] {
			return false
		}
		return true
	}
	return false
}

// GuardF48 — purged tombstones stop acting as barriers for the RGA
// "skip newer siblings" rule (text, array, tree alike): a replica inserts a
// node N right before a tombstone T it already knows; a peer that has purged T
// (allowed: every client has seen T's removal) but holds nodes that were
// inserted after T concurrently places N behind them, everyone else in front
// of them. The trigger is decidable on the editing replica at creation time:
// the new node would be inserted at a boundary that is physically followed by a
// tombstone (a removed text/tree node, a removed array element or a dead array
// slot). Such inserts are skipped (counted) in runs where clients collect
// garbage; the GC-off strata are never restricted.
//
// The divergence additionally needs a node that is concurrent with the new
// insert and NEWER than it at that boundary: one made by a client that has not
// seen the insert. When the harness knows all replicas of the run (a Runner
// registered the document), the step is therefore executed after all when no
// such node can exist: the editing replica has pulled the whole log and every
// other attached replica is fully synchronised and holds no unsent change -
// then every existing node is older than the new one, and whoever inserts at
// that boundary later knows the tombstone and anchors on the same live node.
func GuardF48(d *document.Document, s Step) (Step, string) {
	out, why := guardF48Local(d, s)
	if why == "" {
		return out, why
	}
	if v, ok := runnerOf.Load(d); ok {
		if r := v.(*Runner); r.othersQuiescent(d) {
			r.Ev["F48_boundary_executed_no_concurrent_insert_possible"]++
			return s, ""
		}
	}
	return out, why
}

// runnerOf maps the documents of running Runners to their Runner.
var runnerOf sync.Map

// othersQuiescent: d has pulled the whole log, every other attached replica
// is at the head too and has nothing unsent.
func (r *Runner) othersQuiescent(d *document.Document) bool {
	di, err := r.DocInfo()
	if err != nil {
		return false
	}
	for _, q := range r.Peers {
		if !q.Attached {
			continue
		}
		if q.D.Checkpoint().ServerSeq != di.ServerSeq {
			return false
		}
		if q.D != d && q.D.HasLocalChanges() {
			return false
		}
	}
	return true
}
func guardF48Local(d *document.Document, s Step) (Step, string) {
	skip := Step{}
	root := d.Root()
	switch s.Op {
	case "tedit":
		tx := root.GetText("t")
		if tx == nil {
			return s, ""
		}
		n := UTF16Len(tx.String())
		from := s.A % (n + 1)
		to := min(n, from+s.B%4)
		c := Contents[s.C%len(Contents)]
		if c == "" && from == to {
			c = "q"
		}
		if c == "" {
			return s, "" // pure delete: inserts nothing
		}
		// does `from` fall on a node boundary, and is a tombstone adjacent to it?
		acc := 0
		var removed []bool
		boundaryLive := -1
		live := 0
		if from == 0 {
			boundaryLive = 0
		}
		for _, nd := range tx.Nodes() {
			isRemoved := nd.RemovedAt() != nil
			removed = append(removed, isRemoved)
			if !isRemoved {
				acc += nd.Len()
				live++
				if acc == from {
					boundaryLive = live
				}
			}
		}
		if boundaryLive >= 0 && tombAdjacent(removed, boundaryLive) {
			return skip, "F48"
		}
	case "aadd", "ains", "amove", "amovefront", "aset":
		a := root.GetArray("a")
		if a == nil {
			return s, ""
		}
		n := a.Len()
		var removed []bool
		for _, nd := range a.RGATreeList().AllNodes() {
			removed = append(removed, nd.IsRemoved())
		}
		k := -1 // number of live nodes before the insertion point
		switch {
		case s.Op == "aadd" || n == 0:
			k = n
		case s.Op == "ains":
			k = s.A%n + 1
		case s.Op == "aset":
			k = s.A%n + 1
		case n < 2:
			k = n // executed as an append
		case s.Op == "amove":
			k = s.A%n + 1 // the new position follows element prev=i
		case s.Op == "amovefront":
			k = s.A % n // the new position precedes element next=i
		}
		if k >= 0 && tombAdjacent(removed, k) {
			return skip, "F48"
		}
	case "trins", "trtext":
		tr := root.GetTree("tr")
		if tr == nil {
			return s, ""
		}
		all := tr.Root().Index.Children(true)
		var ps []int // physical index of live paragraphs
		var removed []bool
		for i, ch := range all {
			removed = append(removed, ch.Value.IsRemoved())
			if !ch.Value.IsRemoved() {
				ps = append(ps, i)
			}
		}
		if s.Op == "trins" {
			if tombAdjacent(removed, s.A%(len(ps)+1)) {
				return skip, "F48"
			}
			return s, ""
		}
		if len(ps) == 0 {
			if tombAdjacent(removed, 0) { // executed as "insert <p> at 0"
				return skip, "F48"
			}
			return s, ""
		}
		p := all[ps[s.A%len(ps)]]
		plen := p.Value.Index.Len()
		from := s.B % (plen + 1)
		to := min(plen, from+s.C%3)
		c := []string{"", "X", "YZ"}[(s.C/3)%3]
		if from == to && c == "" {
			c = "W"
		}
		if c == "" {
			return s, ""
		}
		acc, live, boundaryLive := 0, 0, -1
		if from == 0 {
			boundaryLive = 0
		}
		var cremoved []bool
		for _, ch := range p.Children(true) {
			isRemoved := ch.Value.IsRemoved()
			cremoved = append(cremoved, isRemoved)
			if !isRemoved {
				acc += ch.Value.Len()
				live++
				if acc == from {
					boundaryLive = live
				}
			}
		}
		if boundaryLive >= 0 && tombAdjacent(cremoved, boundaryLive) {
			return skip, "F48"
		}
	}
	return s, ""
}

// GCGuard wraps a guard so that it only applies when the replicas collect
// garbage (the GC-off strata are never restricted by GC-related findings).
func GCGuard(p Program, g Guard) Guard {
	if p.Cfg.ClientNoGC {
		return func(d *document.Document, s Step) (Step, string) { return s, "" }
	}
	return g
}

// undoTop returns the history entry an undo/redo step would execute.
func undoTop(d *document.Document, s Step) []document.HistoryOperation {
	switch s.Op {
	case "undo":
		return d.UndoStackTopForTest()
	case "redo":
		return d.RedoStackTopForTest()
	}
	return nil
}

// GuardF49 — an undo/redo operation that targets a container the undoing
// client already knows to be removed (e.g. a counter increase undone after a
// peer's undo removed the counter): only Set and Remove are skipped in that
// situation, every other operation kind is executed and pushed; a peer that has
// purged the container can never apply it ('not applicable datatype' on every
// later sync; upstream issue 'GC vs undo').
func GuardF49(d *document.Document, s Step) (Step, string) {
	root := d.InternalDocument().Root()
	for _, h := range undoTop(d, s) {
		if h.Op == nil {
			continue
		}
		switch h.Op.(type) {
		case *operations.Set, *operations.Remove:
			continue // these are skipped by the code under test itself
		}
		parent := root.FindByCreatedAt(h.Op.ParentCreatedAt())
		if parent == nil || parent.RemovedAt() != nil {
			return Step{}, "F49"
		}
	}
	return s, ""
}

// GuardF33 — an undo/redo that RESTORES removed text/tree content by identity
// (restore mode) revives the tombstone in place on a replica that still has
// it, but re-creates the content on a replica that has purged it — at another
// position when something was inserted between the split parts meanwhile
// (t="abc"; insert "yz" at 1; replace "bc"; two rounds; undo -> a,yz,bc on the
// undoer, a,bc,yz on the peer). The trigger needs replicas in different purge
// states, so such an undo/redo is only executed when nobody collects garbage or
// every attached replica has no garbage left at all (all re-create alike).
func GuardF33(r *Runner) Guard {
	return func(d *document.Document, s Step) (Step, string) {
		if r.P.Cfg.ClientNoGC {
			return s, ""
		}
		restores := false
		for _, h := range undoTop(d, s) {
			switch op := h.Op.(type) {
			case *operations.Edit:
				if len(op.RestoreSpans()) > 0 || len(op.RetombstoneSpans()) > 0 {
					restores = true
				}
			case *operations.TreeEdit:
				if len(op.RestoreSpans()) > 0 || len(op.RetombstoneSpans()) > 0 {
					restores = true
				}
			}
		}
		if !restores {
			return s, ""
		}
		for _, q := range r.Peers {
			if q.Attached && q.D.GarbageLen() > 0 {
				return Step{}, "F33"
			}
		}
		return s, ""
	}
}
