package prog

import (
	"github.com/yorkie-team/yorkie/pkg/document"
)

// Exclusions by construction for the open entries of /verif/known_findings.json.
// Each predicate is evaluated by the interpreter right before a step is
// executed, on the editing replica's own state only; a matching step is
// rewritten to the nearest step that does not trigger the finding and counted.
// Predicates are keyed to the finding's trigger, never to an output pattern.

// GuardF2 — ArraySet on an element that has been moved: Set inserts the new
// value after the element's ORIGINAL (dead) slot while that slot exists and
// after its current slot once GC purged it, so the result depends on GC and
// the value does not land at the index the caller named.
func GuardF2(d *document.Document, s Step) (Step, string) {
	if s.Op != "aset" {
		return s, ""
	}
	a := d.Root().GetArray("a")
	if a == nil || a.Len() == 0 {
		return s, ""
	}
	n := a.Len()
	moved := func(i int) bool {
		node, err := a.RGATreeList().Get(i)
		return err == nil && node != nil && node.PositionMovedAt() != nil
	}
	idx := s.A % n
	if !moved(idx) {
		return s, ""
	}
	for k := 1; k < n; k++ {
		j := (idx + k) % n
		if !moved(j) {
			ns := s
			ns.A = j
			return ns, "F2"
		}
	}
	ns := s
	ns.Op = "aadd"
	return ns, "F2"
}

// Chain combines guards; the first one that rewrites wins, later guards see
// the rewritten step.
func Chain(gs ...Guard) Guard {
	return func(d *document.Document, s Step) (Step, string) {
		why := ""
		for _, g := range gs {
			ns, w := g(d, s)
			if w != "" {
				s = ns
				if why == "" {
					why = w
				}
			}
		}
		return s, why
	}
}
