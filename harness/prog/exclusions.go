package prog

import (
	"fmt"
	"sort"
	"sync"
	"unicode/utf16"

	"github.com/yorkie-team/yorkie/pkg/document"
	"github.com/yorkie-team/yorkie/pkg/document/crdt"
	"github.com/yorkie-team/yorkie/pkg/document/operations"
	"github.com/yorkie-team/yorkie/pkg/document/time"
)

// Exclusions by construction for the open entries of /verif/known_findings.json.
// Each predicate is evaluated by the interpreter right before a step is
// executed, on the editing replica's own state only; a matching step is
// rewritten to the nearest step that does not trigger the finding and counted.
// Predicates are keyed to the finding's trigger, never to an output pattern.

// GuardF2 — ArraySet on an element that has been moved: Set inserts the new
// value after the element's ORIGINAL (dead) slot while that slot exists and
// after its current slot once GC purged it, so the result depends on GC and
// the value does not land at the index the caller named.
func GuardF2(d *document.Document, s Step) (Step, string) {
	if s.Op != "aset" {
		return s, ""
	}
	a := d.Root().GetArray("a")
	if a == nil || a.Len() == 0 {
		return s, ""
	}
	n := a.Len()
	moved := func(i int) bool {
		node, err := a.RGATreeList().Get(i)
		return err == nil && node != nil && node.PositionMovedAt() != nil
	}
	idx := s.A % n
	if !moved(idx) {
		return s, ""
	}
	for k := 1; k < n; k++ {
		j := (idx + k) % n
		if !moved(j) {
			ns := s
			ns.A = j
			return ns, "F2"
		}
	}
	ns := s
	ns.Op = "aadd"
	return ns, "F2"
}

// Chain combines guards; later guards see the rewritten step. The reported
// finding is the first one that rewrote the step, or the one that skipped it.
func Chain(gs ...Guard) Guard {
	return func(d *document.Document, s Step) (Step, string) {
		why := ""
		for _, g := range gs {
			ns, w := g(d, s)
			if w != "" {
				s = ns
				if why == "" || ns.Op == "" {
					// the finding that decided: the first rewrite, or whoever skips the step
					why = w
				}
				if ns.Op == "" {
					return s, why
				}
			}
		}
		return s, why
	}
}

// GuardF6 — upstream-known and deliberately unfixed (docs/tasks/active/
// 20260816-remote-redo-replica-divergence-todo.md): an undo/redo whose
// reverse entry contains an Object.Set restores an element under its
// original createdAt; a peer applying that Set remotely keeps the stale GC
// registration of that identity and its next GC deletes the live key.
func GuardF6(d *document.Document, s Step) (Step, string) {
	var top []document.HistoryOperation
	switch s.Op {
	case "undo":
		top = d.UndoStackTopForTest()
	case "redo":
		top = d.RedoStackTopForTest()
	default:
		return s, ""
	}
	for _, h := range top {
		if _, ok := h.Op.(*operations.Set); ok {
			return Step{}, "F6"
		}
	}
	return s, ""
}

// Writers returns, per container ("t", "tr", "a", "o", "c"), the set of
// clients that edit it anywhere in the program (valid for programs without
// late attachers: Who resolves modulo the initial client count).
func Writers(p Program) map[string]map[int]bool {
	w := map[string]map[int]bool{}
	add := func(c string, who int) {
		if w[c] == nil {
			w[c] = map[int]bool{}
		}
		w[c][who%p.Cfg.N] = true
	}
	for _, s := range append(append([]Step{}, p.Steps...), p.Tail...) {
		switch s.Op {
		case "tedit", "tstyle", "replText":
			add("t", s.Who)
		case "trtext", "trins", "trdel", "trstyle":
			add("tr", s.Who)
		case "aadd", "ains", "adel", "amove", "amovefront", "aset", "replArr":
			add("a", s.Who)
		case "multi":
			add("t", s.Who)
			add("tr", s.Who)
			add("a", s.Who)
		case "syncedit":
			if s.E != "" {
				es := s
				es.Op, es.E = s.E, ""
				for c, ws := range Writers(Program{Cfg: p.Cfg, Steps: []Step{es}}) {
					for who := range ws {
						add(c, who)
					}
				}
			}
		}
	}
	return w
}

// GuardF10F11 — undo/redo of a text edit (F10) or tree edit (F11) diverges
// when a peer edits the same text/tree concurrently (the reverse operation
// restores or removes a range that the peers reconcile differently). The
// trigger is excluded coarsely: an undo/redo whose reverse entry contains a
// text Edit / TreeEdit is only executed in programs where that container has a
// single writer.
func GuardF10F11(p Program) Guard {
	w := Writers(p)
	if p.Cfg.Flags["serial"] == 1 {
		// serial stratum: every change reaches every replica before the next
		// one is made - no peer edits anything concurrently, the trigger of
		// F10/F11 cannot occur, and undo/redo of multi-writer text/tree runs
		return func(d *document.Document, s Step) (Step, string) { return s, "" }
	}
	return func(d *document.Document, s Step) (Step, string) {
		var top []document.HistoryOperation
		switch s.Op {
		case "undo":
			top = d.UndoStackTopForTest()
		case "redo":
			top = d.RedoStackTopForTest()
		default:
			return s, ""
		}
		for _, h := range top {
			switch h.Op.(type) {
			case *operations.Style:
				// style-only stratum: the text content is fixed after the base
				// state (no Edit anywhere in the program), clients only style
				// and undo/redo styles - the trigger of F10 (the reverse of a
				// content edit against a concurrent content edit) cannot occur
				if len(w["t"]) > 1 && p.Cfg.Flags["styleonly"] != 1 {
					return Step{}, "F10"
				}
			case *operations.Edit:
				if len(w["t"]) > 1 {
					return Step{}, "F10"
				}
			case *operations.TreeEdit, *operations.TreeStyle:
				if len(w["tr"]) > 1 {
					return Step{}, "F11"
				}
			}
		}
		return s, ""
	}
}

// tombAdjacent reports whether a removed node lies physically between the
// k-th live node (k = 0: the start) and the next live node (or the end).
func tombAdjacent(removed []bool, k int) bool {
	live := 0
	i := 0
	for ; i < len(removed) && live < k; i++ {
		if !removed[i] {
			live++
		}
	}
	// i is right after the k-th live node (or 0)
	for ; i < len(removed); i++ {
		if !removed[i] {
			return false
		}
		return true
	}
	return false
}

// GuardF48 — purged tombstones stop acting as barriers for the RGA
// "skip newer siblings" rule (text, array, tree alike): a replica inserts a
// node N right before a tombstone T it already knows; a peer that has purged T
// (allowed: every client has seen T's removal) but holds nodes that were
// inserted after T concurrently places N behind them, everyone else in front
// of them. The trigger is decidable on the editing replica at creation time:
// the new node would be inserted at a boundary that is physically followed by a
// tombstone (a removed text/tree node, a removed array element or a dead array
// slot). Such inserts are skipped (counted) in runs where clients collect
// garbage; the GC-off strata are never restricted.
//
// The divergence additionally needs a node that is concurrent with the new
// insert and NEWER than it at that boundary: one made by a client that has not
// seen the insert. When the harness knows all replicas of the run (a Runner
// registered the document), the step is therefore executed after all when no
// such node can exist: the editing replica has pulled the whole log and every
// other attached replica is fully synchronised and holds no unsent change -
// then every existing node is older than the new one, and whoever inserts at
// that boundary later knows the tombstone and anchors on the same live node.
func GuardF48(d *document.Document, s Step) (Step, string) {
	out, why := guardF48Local(d, s)
	if why == "" {
		return out, why
	}
	if v, ok := runnerOf.Load(d); ok {
		if r := v.(*Runner); r.othersQuiescent(d) {
			r.Ev["F48_boundary_executed_no_concurrent_insert_possible"]++
			return s, ""
		}
	}
	return out, why
}

// runnerOf maps the documents of running Runners to their Runner.
var runnerOf sync.Map

// othersQuiescent: d has pulled the whole log, every other attached replica
// is at the head too and has nothing unsent.
func (r *Runner) othersQuiescent(d *document.Document) bool {
	di, err := r.DocInfo()
	if err != nil {
		return false
	}
	for _, q := range r.Peers {
		if !q.Attached {
			continue
		}
		if q.D.Checkpoint().ServerSeq != di.ServerSeq {
			return false
		}
		if q.D != d && q.D.HasLocalChanges() {
			return false
		}
	}
	return true
}
func guardF48Local(d *document.Document, s Step) (Step, string) {
	skip := Step{}
	root := d.Root()
	switch s.Op {
	case "tedit":
		tx := root.GetText("t")
		if tx == nil {
			return s, ""
		}
		n := UTF16Len(tx.String())
		from := s.A % (n + 1)
		to := min(n, from+s.B%4)
		c := Contents[s.C%len(Contents)]
		if c == "" && from == to {
			c = "q"
		}
		if c == "" {
			return s, "" // pure delete: inserts nothing
		}
		// does `from` fall on a node boundary, and is a tombstone adjacent to it?
		acc := 0
		var removed []bool
		boundaryLive := -1
		live := 0
		if from == 0 {
			boundaryLive = 0
		}
		for _, nd := range tx.Nodes() {
			isRemoved := nd.RemovedAt() != nil
			removed = append(removed, isRemoved)
			if !isRemoved {
				acc += nd.Len()
				live++
				if acc == from {
					boundaryLive = live
				}
			}
		}
		if boundaryLive >= 0 && tombAdjacent(removed, boundaryLive) {
			return skip, "F48"
		}
	case "aadd", "ains", "amove", "amovefront", "aset", "adel":
		a := root.GetArray("a")
		if a == nil {
			return s, ""
		}
		n := a.Len()
		if s.Op == "adel" && n > 0 {
			return s, "" // a pure delete inserts nothing (on an empty array the interpreter executes it as an append)
		}
		var removed []bool
		for _, nd := range a.RGATreeList().AllNodes() {
			removed = append(removed, nd.IsRemoved())
		}
		k := -1 // number of live nodes before the insertion point
		switch {
		case s.Op == "aadd" || n == 0:
			k = n
		case s.Op == "ains":
			k = s.A%n + 1
		case s.Op == "aset":
			k = s.A%n + 1
		case n < 2:
			k = n // executed as an append
		case s.Op == "amove":
			k = s.A%n + 1 // the new position follows element prev=i
		case s.Op == "amovefront":
			k = s.A % n // the new position precedes element next=i
		}
		if k >= 0 && tombAdjacent(removed, k) {
			return skip, "F48"
		}
	case "trins", "trtext", "trdel", "trstyle":
		tr := root.GetTree("tr")
		if tr == nil {
			return s, ""
		}
		if s.Op == "trdel" || s.Op == "trstyle" {
			// they insert nothing - except on a tree without a live paragraph,
			// where the interpreter executes them as "insert <p> at 0"
			live := 0
			for _, ch := range tr.Root().Index.Children(true) {
				if !ch.Value.IsRemoved() {
					live++
				}
			}
			if live > 0 {
				return s, ""
			}
		}
		all := tr.Root().Index.Children(true)
		var ps []int // physical index of live paragraphs
		var removed []bool
		for i, ch := range all {
			removed = append(removed, ch.Value.IsRemoved())
			if !ch.Value.IsRemoved() {
				ps = append(ps, i)
			}
		}
		if s.Op == "trins" {
			if tombAdjacent(removed, s.A%(len(ps)+1)) {
				return skip, "F48"
			}
			return s, ""
		}
		if len(ps) == 0 {
			if tombAdjacent(removed, 0) { // executed as "insert <p> at 0"
				return skip, "F48"
			}
			return s, ""
		}
		p := all[ps[s.A%len(ps)]]
		plen := p.Value.Index.Len()
		from := s.B % (plen + 1)
		to := min(plen, from+s.C%3)
		c := []string{"", "X", "YZ"}[(s.C/3)%3]
		if from == to && c == "" {
			c = "W"
		}
		if c == "" {
			return s, ""
		}
		acc, live, boundaryLive := 0, 0, -1
		if from == 0 {
			boundaryLive = 0
		}
		var cremoved []bool
		for _, ch := range p.Children(true) {
			isRemoved := ch.Value.IsRemoved()
			cremoved = append(cremoved, isRemoved)
			if !isRemoved {
				acc += ch.Value.Len()
				live++
				if acc == from {
					boundaryLive = live
				}
			}
		}
		if boundaryLive >= 0 && tombAdjacent(cremoved, boundaryLive) {
			return skip, "F48"
		}
	}
	return s, ""
}

// GCGuard wraps a guard so that it only applies when the replicas collect
// garbage (the GC-off strata are never restricted by GC-related findings).
func GCGuard(p Program, g Guard) Guard {
	if p.Cfg.ClientNoGC {
		return func(d *document.Document, s Step) (Step, string) { return s, "" }
	}
	return g
}

// undoTop returns the history entry an undo/redo step would execute.
func undoTop(d *document.Document, s Step) []document.HistoryOperation {
	switch s.Op {
	case "undo":
		return d.UndoStackTopForTest()
	case "redo":
		return d.RedoStackTopForTest()
	}
	return nil
}

// GuardF49 — an undo/redo operation that targets a container the undoing
// client already knows to be removed (e.g. a counter increase undone after a
// peer's undo removed the counter): only Set and Remove are skipped in that
// situation, every other operation kind is executed and pushed; a peer that has
// purged the container can never apply it ('not applicable datatype' on every
// later sync; upstream issue 'GC vs undo').
func GuardF49(d *document.Document, s Step) (Step, string) {
	root := d.InternalDocument().Root()
	for _, h := range undoTop(d, s) {
		if h.Op == nil {
			continue
		}
		switch h.Op.(type) {
		case *operations.Set, *operations.Remove:
			continue // these are skipped by the code under test itself
		}
		parent := root.FindByCreatedAt(h.Op.ParentCreatedAt())
		if parent == nil || parent.RemovedAt() != nil {
			return Step{}, "F49"
		}
	}
	return s, ""
}

// GuardF35 — known finding F35 (C07): a text edit or style whose range boundary
// falls between the two UTF-16 units of a surrogate pair splits the pair into
// halves no Go string can hold; what the replica shows afterwards depends on
// whether its working copy was rebuilt in between (seen as a schedule-dependent
// CLONE!=ROOT in a C16 workload). Such steps are skipped (counted) where the
// schedule is not owned by the harness.
func GuardF35(d *document.Document, s Step) (Step, string) {
	if s.Op != "tedit" && s.Op != "tstyle" {
		return s, ""
	}
	tx := d.Root().GetText("t")
	if tx == nil {
		return s, ""
	}
	units := utf16.Encode([]rune(tx.String()))
	n := len(units)
	from := s.A % (n + 1)
	to := min(n, from+s.B%4)
	splits := func(i int) bool {
		return i > 0 && i < n && units[i-1] >= 0xD800 && units[i-1] <= 0xDBFF && units[i] >= 0xDC00 && units[i] <= 0xDFFF
	}
	if splits(from) || splits(to) {
		return Step{}, "F35"
	}
	return s, ""
}

// GuardF49Anchors — variant c of F49 (arrays): the reverse of an array delete
// is an Add anchored on the element that preceded the deleted one. The code
// under test picks the nearest LIVE predecessor when the delete executes; the
// known defect is that a peer may remove that element afterwards (the undoer
// learns of it, some replica purges it) and the undo still pushes the Add
// ('insertAfter ...: child not found' where the anchor was purged). The harness
// records, right after every edit, whether the anchor of each stacked Add was
// live at that moment; an undo/redo is skipped only when its anchor WAS live
// then and is removed or purged now. An Add whose anchor was a tombstone from
// the start is a different defect (not this finding) and is executed.
func GuardF49Anchors(r *Runner) Guard {
	liveAtCreation := map[string]bool{} // document pointer + value createdAt -> anchor live when first seen on the stack
	key := func(d *document.Document, add *operations.Add) string {
		return fmt.Sprintf("%p/%s", d, add.Value().CreatedAt().Key())
	}
	anchorState := func(d *document.Document, add *operations.Add) (exists, live, head bool) {
		prev := add.PrevCreatedAt()
		if prev == nil || prev.Compare(time.InitialTicket) == 0 || prev.Compare(add.ParentCreatedAt()) == 0 {
			return true, true, true
		}
		anchor := d.InternalDocument().Root().FindByCreatedAt(prev)
		if anchor == nil {
			return false, false, false
		}
		return true, anchor.RemovedAt() == nil, false
	}
	observe := func(p *Peer) {
		for _, stack := range [][]document.HistoryOperation{p.D.UndoStackTopForTest(), p.D.RedoStackTopForTest()} {
			for _, h := range stack {
				if add, ok := h.Op.(*operations.Add); ok {
					k := key(p.D, add)
					if _, seen := liveAtCreation[k]; !seen {
						_, live, _ := anchorState(p.D, add)
						liveAtCreation[k] = live
					}
				}
			}
		}
	}
	prevOnEdit := r.OnEdit
	r.OnEdit = func(r *Runner, p *Peer) {
		observe(p)
		if prevOnEdit != nil {
			prevOnEdit(r, p)
		}
	}
	return func(d *document.Document, s Step) (Step, string) {
		for _, h := range undoTop(d, s) {
			add, ok := h.Op.(*operations.Add)
			if !ok {
				continue
			}
			_, live, head := anchorState(d, add)
			if head || live {
				continue
			}
			if wasLive, seen := liveAtCreation[key(d, add)]; !seen || wasLive {
				return Step{}, "F49"
			}
		}
		return s, ""
	}
}

// GuardF33 — an undo/redo that RESTORES removed text/tree content by identity
// (restore mode) revives the tombstone in place on a replica that still has
// it, but re-creates the content on a replica that has purged it — at another
// position when something was inserted between the split parts meanwhile
// (t="abc"; insert "yz" at 1; replace "bc"; two rounds; undo -> a,yz,bc on the
// undoer, a,bc,yz on the peer). The trigger needs replicas in different purge
// states, so such an undo/redo is only executed when nobody collects garbage or
// every attached replica has no garbage left at all (all re-create alike).
func GuardF33(r *Runner) Guard {
	// Harness-side record of the physical neighbours every tree node had when
	// the editing replica first saw it removed by one of its own edits (what
	// upstream captures as the removed run's boundary anchors). Kept per
	// replica and node id; the guard compares the neighbours at undo time with
	// this record instead of trusting the anchors inside the operation.
	track := &treeAnchorTrack{seen: map[string]*treeAnchors{}}
	prevOnEdit := r.OnEdit
	r.OnEdit = func(r *Runner, p *Peer) {
		track.observe(p)
		if prevOnEdit != nil {
			prevOnEdit(r, p)
		}
	}
	return func(d *document.Document, s Step) (Step, string) {
		if r.P.Cfg.ClientNoGC {
			return s, ""
		}
		restores := false
		for _, h := range undoTop(d, s) {
			switch op := h.Op.(type) {
			case *operations.Edit:
				if len(op.RestoreSpans()) > 0 || len(op.RetombstoneSpans()) > 0 {
					restores = true
				}
			case *operations.TreeEdit:
				if len(op.RestoreSpans()) > 0 || len(op.RetombstoneSpans()) > 0 {
					restores = true
				}
			}
		}
		if !restores {
			return s, ""
		}
		garbage := false
		for _, q := range r.Peers {
			if q.Attached && q.D.GarbageLen() > 0 {
				garbage = true
			}
		}
		if !garbage {
			return s, ""
		}
		// The narrowing below models the re-creation ladder for containers with
		// ONE writer (its fall-through rung - the operation's own normalised
		// position - is the same place everywhere only then). With several
		// writers (serial stratum) a peer may have inserted next to the
		// tombstones: the coarse rule applies.
		if w := Writers(r.P); len(w["t"]) > 1 || len(w["tr"]) > 1 {
			return Step{}, "F33"
		}
		// Replicas are in different purge states. The known defect needs the
		// re-created content to be anchored on something that is NOT its
		// physical neighbour; where the anchor the ladder will choose on every
		// purged replica is a live, physically adjacent piece of the same
		// insertion, re-creation and in-place revival coincide and the step
		// is executed.
		//
		// An entry with several reviving operations (a multi-operation update)
		// is outside this model: each operation is a re-creation of its own and
		// the later ones are anchored on what the earlier ones produced (found
		// by the serial stratum: "q"+"q" inserted by one update, deleted by a
		// peer, undo, redo - the replica that had purged rebuilt the two pieces
		// in the other order).
		reviving := 0
		for _, h := range undoTop(d, s) {
			switch op := h.Op.(type) {
			case *operations.Edit:
				if len(op.RestoreSpans()) > 0 || len(op.RetombstoneSpans()) > 0 {
					reviving++
				}
			case *operations.TreeEdit:
				if len(op.RestoreSpans()) > 0 || len(op.RetombstoneSpans()) > 0 {
					reviving++
				}
			}
		}
		if reviving > 1 {
			return Step{}, "F33"
		}
		for _, h := range undoTop(d, s) {
			switch op := h.Op.(type) {
			case *operations.Edit:
				// the direction decides which span set is revived
				revive := op.RestoreSpans()
				if op.RestoreMode() == crdt.RestoreModeRetombstone {
					revive = op.RetombstoneSpans()
				}
				if len(revive) > 0 && !f33TextAnchorsAdjacent(d, op.ParentCreatedAt(), revive) {
					return Step{}, "F33"
				}
			case *operations.TreeEdit:
				revive := op.RestoreSpans()
				if op.RestoreMode() == crdt.RestoreModeRetombstone {
					revive = op.RetombstoneSpans()
				}
				if len(revive) > 0 && !f33TreeAnchorsAdjacent(d, op.ParentCreatedAt(), revive, track.forDoc(r, d)) {
					return Step{}, "F33"
				}
			}
		}
		r.Ev["F33_region_executed_adjacent_live_anchor"]++
		return s, ""
	}
}

// f33TextAnchorsAdjacent evaluates, on the undoing replica (which must still
// hold the tombstones), the trigger of F33 for a restore-mode text Edit: for
// every insertion whose characters are revived, the run of tombstoned pieces is
// physically contiguous and its neighbour(s) of the same insertion - the
// anchors upstream's re-creation ladder resolves first (piece covering the
// run's end, else nearest piece left of its start) - are live and physically
// adjacent. Anything else (other anchors, partial runs, pieces already purged
// on this replica) counts as the trigger.
func f33TextAnchorsAdjacent(d *document.Document, parent *time.Ticket, revive []*crdt.RestoreSpan) bool {
	tx, ok := d.InternalDocument().Root().FindByCreatedAt(parent).(*crdt.Text)
	if !ok || tx == nil {
		return false
	}
	type piece struct {
		key      string
		off, n   int
		dead     bool
		physical int
		attrs    map[string]string
	}
	var all []piece
	for i, nd := range tx.Nodes() {
		all = append(all, piece{key: nd.ID().CreatedAt().Key(), off: nd.ID().Offset(), n: nd.Value().Len(), dead: nd.RemovedAt() != nil, physical: i,
			attrs: nd.Value().Attrs().Elements()})
	}
	// F58: a tombstone keeps receiving styles (a Style / RemoveStyle whose range
	// spans it physically), a span carries the attributes the text had when it
	// was removed: where the two differ, in-place revival and re-creation show
	// different attributes.
	for _, sp := range revive {
		for _, pc := range all {
			if pc.key != sp.CreatedAt.Key() || !pc.dead || pc.off+pc.n <= sp.Start || pc.off >= sp.End {
				continue
			}
			if len(pc.attrs) != len(sp.Attributes) {
				return false
			}
			for k, v := range sp.Attributes {
				if pc.attrs[k] != v {
					return false
				}
			}
		}
	}
	// spans per insertion, in offset order
	type rng struct{ a, b int }
	byIns := map[string][]rng{}
	var order []string
	for _, sp := range revive {
		k := sp.CreatedAt.Key()
		if _, seen := byIns[k]; !seen {
			order = append(order, k)
		}
		byIns[k] = append(byIns[k], rng{sp.Start, sp.End})
	}
	for _, k := range order {
		rs := byIns[k]
		sort.Slice(rs, func(i, j int) bool { return rs[i].a < rs[j].a })
		for i := 1; i < len(rs); i++ {
			if rs[i].a != rs[i-1].b {
				return false // two separate runs of one insertion
			}
		}
		a, b := rs[0].a, rs[len(rs)-1].b
		var run []piece
		leftExists, rightExists := false, false
		rightmost := -1
		for _, pc := range all {
			if pc.key != k {
				continue
			}
			switch {
			case pc.off+pc.n <= a:
				leftExists = true
			case pc.off >= b:
				rightExists = true
				rightmost = max(rightmost, pc.off)
			case pc.off >= a && pc.off+pc.n <= b:
				run = append(run, pc)
			default:
				return false // a piece straddles the boundary of the revived range
			}
		}
		if len(run) == 0 {
			return false // already purged here too: this replica re-creates as well
		}
		sort.Slice(run, func(i, j int) bool { return run[i].off < run[j].off })
		live := 0
		cover := a
		for i, pc := range run {
			if pc.off != cover || (i > 0 && pc.physical != run[i-1].physical+1) {
				return false // hole in the run, or something sits between its pieces
			}
			cover = pc.off + pc.n
			if !pc.dead {
				live++
			}
		}
		if cover != b {
			return false
		}
		if live == len(run) {
			continue // nothing to revive for this insertion
		}
		if live > 0 {
			return false
		}
		first, last := run[0], run[len(run)-1]
		lOK := first.physical > 0 && all[first.physical-1].key == k && !all[first.physical-1].dead &&
			all[first.physical-1].off+all[first.physical-1].n == a
		sOK := last.physical+1 < len(all) && all[last.physical+1].key == k && !all[last.physical+1].dead &&
			all[last.physical+1].off == b
		switch {
		case !rightExists && !leftExists:
			// The whole insertion is revived (no other piece of it exists in
			// any state): the ladder falls through to the operation's own
			// normalised from-position, an offset over the live text, which -
			// with a single writer and last-in-first-out undo - is the same
			// place on every replica. Only when it is the operation's only
			// span: the spans of one operation arrive in Go map order (known
			// finding F44) and a fragment placed before this one would become
			// its anchor instead.
			if len(revive) != 1 {
				return false
			}
		case rightExists && !sOK:
			return false
		case rightExists && len(rs) > 1 && leftExists && !lOK:
			return false
		case rightExists && len(rs) > 1 && !leftExists && rightmost != b:
			return false // the first fragment would be placed before the rightmost piece, which is not the neighbour
		case !rightExists && !(leftExists && lOK):
			return false
		}
	}
	return true
}

// f33TreeAnchorsAdjacent is the tree counterpart of f33TextAnchorsAdjacent,
// evaluated on the undoing replica, which must still hold every node the
// operation revives. Upstream's re-creation ladder (Tree.recreateFromSpan)
// resolves, in this order: a piece of the same text insertion right after /
// right before the range, the left boundary sibling captured when the node was
// removed, the captured right boundary sibling. The step is executed only when
// the anchor that ladder will pick on a replica that purged the node is live
// and is the node's physical neighbour here; everything else (other rungs,
// anchors that are tombstones, nodes already purged here, element nodes whose
// children are not all part of the same revival) counts as the trigger.
func f33TreeAnchorsAdjacent(d *document.Document, parent *time.Ticket, revive []*crdt.TreeRestoreSpan, recorded func(n *crdt.TreeNode) *treeAnchors) bool {
	tr, ok := d.InternalDocument().Root().FindByCreatedAt(parent).(*crdt.Tree)
	if !ok || tr == nil {
		return false
	}
	floor := func(id *crdt.TreeNodeID) *crdt.TreeNode {
		if id == nil {
			return nil
		}
		k, n := tr.NodeMapByID.Floor(id)
		if n == nil || k.CreatedAt.Compare(id.CreatedAt) != 0 {
			return nil
		}
		return n
	}
	exact := func(id *crdt.TreeNodeID) *crdt.TreeNode {
		n := floor(id)
		if n == nil || !n.ID().Equal(id) {
			return nil
		}
		return n
	}
	revived := map[*crdt.TreeNode]bool{} // nodes this operation brings back (they exist everywhere once it has run up to them)
	sibs := func(n *crdt.TreeNode) (all []*crdt.TreeNode, idx int) {
		if n.Index.Parent == nil {
			return nil, -1
		}
		idx = -1
		for i, c := range n.Index.Parent.Children(true) {
			all = append(all, c.Value)
			if c.Value == n {
				idx = i
			}
		}
		return all, idx
	}
	usable := func(n *crdt.TreeNode) bool { return n != nil && (!n.IsRemoved() || revived[n]) }
	for _, sp := range revive {
		if sp.ParentID == nil {
			return false
		}
		par := exact(sp.ParentID)
		if !usable(par) {
			return false
		}
		if !sp.IsText {
			n := exact(sp.ID)
			if n == nil || n.Index.Parent == nil || n.Index.Parent.Value != par {
				return false
			}
			if !n.IsRemoved() {
				continue
			}
			all, idx := sibs(n)
			rec := recorded(n)
			switch {
			case rec == nil:
				return false
			case rec.left != nil:
				l := floor(rec.left)
				if !usable(l) || idx < 1 || all[idx-1] != l {
					return false
				}
			case rec.right != nil:
				rr := floor(rec.right)
				if !usable(rr) || idx < 0 || idx+1 >= len(all) || all[idx+1] != rr {
					return false
				}
			default:
				return false
			}
			// every child of the element must come back with it
			want := map[string]bool{}
			for _, other := range revive {
				if other.ParentID != nil && other.ParentID.Equal(sp.ID) {
					want[other.ID.CreatedAt.Key()] = true
				}
			}
			for _, c := range n.Index.Children(true) {
				if !want[c.Value.ID().CreatedAt.Key()] {
					return false
				}
			}
			revived[n] = true
			continue
		}
		// text: the pieces of [start, end) on this replica
		start, end := sp.ID.Offset, sp.ID.Offset+sp.Length
		var run []*crdt.TreeNode
		for probe := end - 1; probe >= start; {
			n := floor(&crdt.TreeNodeID{CreatedAt: sp.ID.CreatedAt, Offset: probe})
			if n == nil || !n.IsText() || n.ID().Offset+n.Length() <= probe {
				return false // (partly) purged here as well
			}
			if n.ID().Offset < start || n.ID().Offset+n.Length() > end {
				return false // a piece straddles the range
			}
			run = append([]*crdt.TreeNode{n}, run...)
			probe = n.ID().Offset - 1
		}
		if len(run) == 0 {
			return false
		}
		dead := 0
		for i, n := range run {
			if n.Index.Parent == nil || n.Index.Parent.Value != par {
				return false
			}
			if n.IsRemoved() {
				dead++
			}
			if i > 0 {
				all, idx := sibs(n)
				if idx < 1 || all[idx-1] != run[i-1] {
					return false // something sits between the pieces
				}
			}
		}
		if dead == 0 {
			continue
		}
		if dead != len(run) {
			return false
		}
		all, first := sibs(run[0])
		_, last := sibs(run[len(run)-1])
		succ := exact(&crdt.TreeNodeID{CreatedAt: sp.ID.CreatedAt, Offset: end})
		var pred *crdt.TreeNode
		if start > 0 {
			pred = floor(&crdt.TreeNodeID{CreatedAt: sp.ID.CreatedAt, Offset: start - 1})
		}
		switch {
		case succ != nil:
			if !succ.IsText() || !usable(succ) || succ.Index.Parent == nil || succ.Index.Parent.Value != par || last+1 >= len(all) || all[last+1] != succ {
				return false
			}
		case pred != nil:
			if !pred.IsText() || !usable(pred) || pred.Index.Parent == nil || pred.Index.Parent.Value != par || first < 1 || all[first-1] != pred {
				return false
			}
		default:
			// boundary anchors: the neighbours recorded when the run was removed
			recL, recR := recorded(run[0]), recorded(run[len(run)-1])
			switch {
			case recL == nil || recR == nil:
				return false
			case recL.left != nil:
				l := floor(recL.left)
				if !usable(l) || l.Index.Parent == nil || l.Index.Parent.Value != par || first < 1 || all[first-1] != l {
					return false
				}
			case recR.right != nil:
				rr := floor(recR.right)
				if !usable(rr) || rr.Index.Parent == nil || rr.Index.Parent.Value != par || last+1 >= len(all) || all[last+1] != rr {
					return false
				}
			default:
				return false
			}
		}
		for _, n := range run {
			revived[n] = true
		}
	}
	return true
}

// treeAnchors are the physical neighbours of a tree node at the moment it was
// removed: left as the id of the neighbour's LAST character (so that later
// splits of a text neighbour still resolve to its rightmost fragment), right
// as the neighbour's own id. nil: no neighbour on that side.
type treeAnchors struct{ left, right *crdt.TreeNodeID }

type treeAnchorTrack struct {
	seen map[string]*treeAnchors // "<peer>/<createdAt>:<offset>"
}

func treeNodeKey(idx int, n *crdt.TreeNode) string {
	return fmt.Sprintf("%d/%s:%d", idx, n.ID().CreatedAt.Key(), n.ID().Offset)
}

// observe records the neighbours of every node of p's tree that is removed now
// and was not seen removed before. Runs of nodes removed together share the
// run's external boundaries.
func (t *treeAnchorTrack) observe(p *Peer) { t.ObserveDoc(p.Idx, p.D) }

// ObserveDoc is observe for a document that is not a Runner's peer.
func (t *treeAnchorTrack) ObserveDoc(idx int, d *document.Document) {
	p := &Peer{Idx: idx, D: d}
	tr, ok := p.D.InternalDocument().Root().Object().Get("tr").(*crdt.Tree)
	if !ok || tr == nil {
		return
	}
	var walk func(n *crdt.TreeNode)
	walk = func(n *crdt.TreeNode) {
		kids := n.Index.Children(true)
		for i := 0; i < len(kids); {
			c := kids[i].Value
			if !c.IsRemoved() || t.seen[treeNodeKey(p.Idx, c)] != nil {
				// (the first record is kept when a node is revived and removed
				// again: the operation's spans are captured once and only flipped)
				i++
				continue
			}
			// maximal run of newly removed siblings starting at i
			j := i
			for j < len(kids) && kids[j].Value.IsRemoved() && t.seen[treeNodeKey(p.Idx, kids[j].Value)] == nil {
				j++
			}
			a := &treeAnchors{}
			if i > 0 {
				l := kids[i-1].Value
				if l.IsText() {
					a.left = &crdt.TreeNodeID{CreatedAt: l.ID().CreatedAt, Offset: l.ID().Offset + l.Length() - 1}
				} else {
					a.left = l.ID()
				}
			}
			if j < len(kids) {
				a.right = kids[j].Value.ID()
			}
			for k := i; k < j; k++ {
				t.seen[treeNodeKey(p.Idx, kids[k].Value)] = a
			}
			i = j
		}
		for _, k := range kids {
			walk(k.Value)
		}
	}
	walk(tr.Root())
}

func (t *treeAnchorTrack) forDoc(r *Runner, d *document.Document) func(n *crdt.TreeNode) *treeAnchors {
	idx := -1
	for _, q := range r.Peers {
		if q.D == d {
			idx = q.Idx
		}
	}
	return func(n *crdt.TreeNode) *treeAnchors {
		if idx < 0 {
			return nil
		}
		return t.seen[treeNodeKey(idx, n)]
	}
}

// TreeAnchorTrack is the harness-side record of removal-time neighbours.
type TreeAnchorTrack = treeAnchorTrack

// NewTreeAnchorTrack returns an empty record.
func NewTreeAnchorTrack() *TreeAnchorTrack { return &treeAnchorTrack{seen: map[string]*treeAnchors{}} }

// ReviveAnchorsAdjacent evaluates the F33 trigger for one undo/redo entry on a
// replica that still holds every tombstone the entry revives: ok reports that
// every revived text/tree range has a live, physically adjacent ladder anchor
// (see f33TextAnchorsAdjacent / f33TreeAnchorsAdjacent); revives reports
// whether the entry revives anything at all; other reports operations other
// than text/tree edits and counter increases in the entry.
func ReviveAnchorsAdjacent(d *document.Document, ops []document.HistoryOperation, t *TreeAnchorTrack, idx int) (ok, revives, other bool) {
	ok = true
	rec := func(n *crdt.TreeNode) *treeAnchors { return t.seen[treeNodeKey(idx, n)] }
	for _, h := range ops {
		switch op := h.Op.(type) {
		case *operations.Edit:
			revive := op.RestoreSpans()
			if op.RestoreMode() == crdt.RestoreModeRetombstone {
				revive = op.RetombstoneSpans()
			}
			if op.RestoreMode() == crdt.RestoreModeNone {
				revive = nil
			}
			if len(revive) > 0 {
				revives = true
				if !f33TextAnchorsAdjacent(d, op.ParentCreatedAt(), revive) {
					ok = false
				}
			}
		case *operations.TreeEdit:
			revive := op.RestoreSpans()
			if op.RestoreMode() == crdt.RestoreModeRetombstone {
				revive = op.RetombstoneSpans()
			}
			if op.RestoreMode() == crdt.RestoreModeNone {
				revive = nil
			}
			if len(revive) > 0 {
				revives = true
				if !f33TreeAnchorsAdjacent(d, op.ParentCreatedAt(), revive, rec) {
					ok = false
				}
			}
		case *operations.Increase:
		default:
			if h.Op != nil {
				other = true
			}
		}
	}
	return ok, revives, other
}
