// Package prog holds the program-as-data model: a case is a plain value
// (config + steps with raw integer parameters) drawn up front by rapid and
// executed by a total interpreter that resolves the parameters modulo the
// current visible state. The JSON of a Program is the replay file.
package prog

import (
	"encoding/json"
	"fmt"
	"hash/fnv"
	"os"

	"pgregory.net/rapid"
)

// Step is one abstract step of a program.
type Step struct {
	Who int    `json:"w"`
	Op  string `json:"op"`
	A   int    `json:"a,omitempty"`
	B   int    `json:"b,omitempty"`
	C   int    `json:"c,omitempty"`
	// E is the edit op embedded in a "syncedit" step (the client edits while
	// its sync request is in flight); A, B, C are that edit's parameters.
	E string `json:"e,omitempty"`
}

func (s Step) String() string {
	return fmt.Sprintf("c%d:%s(%d,%d,%d)", s.Who, s.Op, s.A, s.B, s.C)
}

// Config is the configuration part of a case.
type Config struct {
	N          int   `json:"n"`                     // initial clients
	Interval   int64 `json:"interval"`              // project snapshot interval
	Threshold  int64 `json:"threshold"`             // project snapshot threshold
	ClientNoGC bool  `json:"client_nogc,omitempty"` // document.WithDisableGC on every document
	ServerNoGC bool  `json:"server_nogc,omitempty"` // backend SnapshotDisableGC
	// NoPresence: the first attacher creates the document presenceless.
	NoPresence bool `json:"no_presence,omitempty"`
	// Flags carries property-specific options (e.g. final round order).
	Flags map[string]int `json:"flags,omitempty"`
}

// Program is a complete generated case.
type Program struct {
	Prop  string `json:"prop,omitempty"`
	Cfg   Config `json:"cfg"`
	Steps []Step `json:"steps"`
	// Tail is executed after the first quiescent round (C02: further edits
	// on top of snapshot-fed replicas).
	Tail []Step `json:"tail,omitempty"`
}

// JSON renders the program as its replay file content.
func (p Program) JSON() []byte {
	b, err := json.MarshalIndent(p, "", " ")
	if err != nil {
		panic(err)
	}
	return b
}

// Compact renders the program on one line.
func (p Program) Compact() string {
	b, _ := json.Marshal(p)
	return string(b)
}

// Hash is a stable hash of the program.
func (p Program) Hash() uint64 {
	h := fnv.New64a()
	_, _ = h.Write([]byte(p.Compact()))
	return h.Sum64()
}

// Load reads a replay file.
func Load(path string) (Program, error) {
	var p Program
	b, err := os.ReadFile(path)
	if err != nil {
		return p, err
	}
	err = json.Unmarshal(b, &p)
	return p, err
}

// Clone deep-copies the program.
func (p Program) Clone() Program {
	q := p
	q.Steps = append([]Step(nil), p.Steps...)
	q.Tail = append([]Step(nil), p.Tail...)
	if p.Cfg.Flags != nil {
		q.Cfg.Flags = map[string]int{}
		for k, v := range p.Cfg.Flags {
			q.Cfg.Flags[k] = v
		}
	}
	return q
}

// Op groups by kind.
var OpsByKind = map[string][]string{
	"obj":     {"oset", "odel", "rootset", "rootdel"},
	"nested":  {"onest", "replArr", "replText", "replObj"},
	"arr":     {"aadd", "ains", "adel"},
	"move":    {"amove", "amovefront"},
	"aset":    {"aset"},
	"text":    {"tedit", "tedit"},
	"tstyle":  {"tstyle"},
	"counter": {"cinc"},
	"tree":    {"trtext", "trins", "trdel", "trstyle"},
	"undo":    {"undo", "redo"},
	"pres":    {"pset", "pclear", "pmix"},
}

// Ops flattens the op names of the given kinds.
func Ops(kinds ...string) []string {
	var ops []string
	for _, k := range kinds {
		o, ok := OpsByKind[k]
		if !ok {
			panic("unknown kind " + k)
		}
		ops = append(ops, o...)
	}
	return ops
}

// AllEditKinds is the C01 edit alphabet.
var AllEditKinds = []string{"obj", "nested", "arr", "move", "aset", "text", "tstyle", "counter", "tree"}

// GenOpts parameterises the program generator.
type GenOpts struct {
	MinClients, MaxClients int
	MaxSteps               int
	EditOps                []string // edit alphabet
	Kinds                  []string // if set, each program focuses on a drawn subset of these kinds
	SchedOps               []string // schedule alphabet, e.g. sync, pushonly, attach, detach
	ExtraOps               []string // extra edit ops added to the pool when their kind is in focus (bias)
	SyncWeight             int      // how many times "sync" is repeated in the pool
	Snapshots              bool     // draw small interval/threshold
	MaxTail                int
	OfflineBias            bool // one client's syncs are suppressed for a window
}

// GenSteps draws a step slice.
func GenSteps(t *rapid.T, label string, n int, pool []string, minLen, maxLen int) []Step {
	return rapid.SliceOfN(rapid.Custom(func(t *rapid.T) Step {
		return Step{
			Who: rapid.IntRange(0, n+1).Draw(t, "w"),
			Op:  rapid.SampledFrom(pool).Draw(t, "op"),
			A:   rapid.IntRange(0, 7).Draw(t, "a"),
			B:   rapid.IntRange(0, 7).Draw(t, "b"),
			C:   rapid.IntRange(0, 8).Draw(t, "c"),
		}
	}), minLen, maxLen).Draw(t, label)
}

// Gen returns a generator of programs.
func Gen(o GenOpts) *rapid.Generator[Program] {
	return rapid.Custom(func(t *rapid.T) Program {
		p := Program{}
		p.Cfg.N = rapid.IntRange(o.MinClients, o.MaxClients).Draw(t, "n")
		p.Cfg.Interval, p.Cfg.Threshold = 1000, 1000
		if o.Snapshots {
			p.Cfg.Interval = int64(rapid.IntRange(1, 6).Draw(t, "interval"))
			p.Cfg.Threshold = int64(rapid.IntRange(1, 6).Draw(t, "threshold"))
		}
		editOps := o.EditOps
		if len(o.Kinds) > 0 {
			// Focus: a program edits a drawn subset of the element kinds so
			// that edits collide densely on the same containers.
			// 40 % one kind, 25 % two kinds, 20 % a random subset, 15 % all kinds
			mask := 0
			switch x := rapid.IntRange(0, 19).Draw(t, "focus"); {
			case x < 8:
				mask = 1 << rapid.IntRange(0, len(o.Kinds)-1).Draw(t, "kind1")
			case x < 13:
				mask = 1<<rapid.IntRange(0, len(o.Kinds)-1).Draw(t, "kind1") | 1<<rapid.IntRange(0, len(o.Kinds)-1).Draw(t, "kind2")
			case x < 17:
				mask = rapid.IntRange(1, (1<<len(o.Kinds))-1).Draw(t, "kinds")
			default:
				mask = (1 << len(o.Kinds)) - 1
			}
			editOps = nil
			for i, k := range o.Kinds {
				if mask&(1<<i) != 0 {
					editOps = append(editOps, OpsByKind[k]...)
				}
			}
		}
		pool := append([]string{}, editOps...)
		for _, x := range o.ExtraOps {
			for _, e := range editOps {
				if e == x {
					pool = append(pool, x)
					break
				}
			}
		}
		nSync := max(o.SyncWeight, len(editOps)*o.SyncWeight/12)
		for i := 0; i < nSync; i++ {
			pool = append(pool, "sync")
		}
		pool = append(pool, o.SchedOps...)
		p.Steps = GenSteps(t, "steps", p.Cfg.N, pool, 1, o.MaxSteps)
		for i := range p.Steps {
			if s := &p.Steps[i]; s.Op == "syncedit" {
				s.E = editOps[(s.A*5+s.B*3+s.C)%len(editOps)]
			}
		}
		if o.OfflineBias && rapid.IntRange(0, 2).Draw(t, "offline") > 0 {
			// Suppress the syncs of one client inside a window: the client
			// stays offline for a long stretch while the others go on.
			who := rapid.IntRange(0, p.Cfg.N-1).Draw(t, "offwho")
			from := rapid.IntRange(0, len(p.Steps)).Draw(t, "offfrom")
			to := rapid.IntRange(from, len(p.Steps)).Draw(t, "offto")
			for i := from; i < to; i++ {
				s := &p.Steps[i]
				if s.Who%p.Cfg.N == who && (s.Op == "sync" || s.Op == "pushonly") {
					s.Op = editOps[(s.A+s.B*8)%len(editOps)]
				}
			}
		}
		if o.MaxTail > 0 {
			tpool := append(append([]string{}, editOps...), "sync", "sync")
			p.Tail = GenSteps(t, "tail", p.Cfg.N, tpool, 0, o.MaxTail)
		}
		return p
	})
}
