package c16

import (
	"context"
	"encoding/json"
	"fmt"
	"math"
	"strings"
	"sync"
	"testing"
	gotime "time"

	"pgregory.net/rapid"

	"github.com/yorkie-team/yorkie/client"
	"github.com/yorkie-team/yorkie/pkg/document"
	"github.com/yorkie-team/yorkie/pkg/key"
	"github.com/yorkie-team/yorkie/server/documents"
	"github.com/yorkie-team/yorkie/server/projects"

	"verifharness/kit"
	"verifharness/prog"
	"verifharness/stats"
	"verifharness/world"
)

// A Freeze generalises the owned schedules: ONE request of client C is frozen
// at a drawn point inside its handler (before/after any storage call of the
// sync path, or before its 2nd/3rd lock acquisition) while the rest of the
// world moves on - the other clients make edits of the C01 alphabet, sync,
// and the server may be asked for a history view or a compaction attempt -
// then the request is let go and everybody goes on. Every handler reads
// several things (document head, client record, pull range, vector rows,
// snapshot, cache) at different moments; the case asks whether its answer is
// still right when the world changed between any two of them. Oracle (C16:
// the outcome satisfies the ordering and convergence guarantees): no failing
// sync/attach/detach, replicas converge byte-identically, clone == root, the
// stored log is gap-free without duplicates.
type Freeze struct {
	Threshold int         `json:"threshold"` // snapshot threshold of the project (0: none)
	Pre       []prog.Step `json:"pre"`       // warm-up, sequential (who = w%3)
	Frozen    string      `json:"frozen"`    // sync | pushonly | detach
	FEdits    []prog.Step `json:"fedits"`    // unsent edits of C carried by the frozen request
	Park      int         `json:"park"`      // freezeParkNames
	Nth       int         `json:"nth"`       // freeze at the Nth occurrence of that point (1..2)
	World     []prog.Step `json:"world"`     // what A and B (who = w%2) do while C's request is frozen
	Admin     int         `json:"admin"`     // 0 nothing; 1 history view; 2 compaction attempt (non-forced) while frozen
	Post      []prog.Step `json:"post"`      // afterwards, sequential (who = w%3)
	// Conflict != 0: before the freeze A removes something (array element, text
	// range, paragraph: 1..3) that C then learns about (two syncs each), while B -
	// not knowing the removal - makes an unsent change next to / inside it; the
	// world starts with two syncs of B (push the change, then report the removal
	// as seen). CA is the position parameter shared by the two edits.
	Conflict int `json:"conflict"`
	CA       int `json:"ca"`
}

var freezeParkNames = []string{
	"lock#2", "lock#3",
	"FindClientInfoByRefKey/before", "FindClientInfoByRefKey/after",
	"FindDocInfoByRefKey/before", "FindDocInfoByRefKey/after",
	"GetMinVersionVector/before", "GetMinVersionVector/after",
	"CreateChangeInfos/before", "CreateChangeInfos/after",
	"FindChangeInfosBetweenServerSeqs/before", "FindChangeInfosBetweenServerSeqs/after",
	"FindClosestSnapshotInfo/before", "FindClosestSnapshotInfo/after",
	"FindChangesBetweenServerSeqs/before", "FindChangesBetweenServerSeqs/after",
	"UpdateMinVersionVector/before", "UpdateMinVersionVector/after",
	"UpdateClientInfoAfterPushPull/before", "UpdateClientInfoAfterPushPull/after",
}

// the C01 alphabet without array move / set-by-index (known finding F2 is decided per replica state)
var freezeEdits = []string{"oset", "odel", "rootset", "rootdel", "cinc", "tedit", "tedit", "tstyle", "aadd", "ains", "adel", "adel", "trtext", "trins", "trdel"}

func genFreeze() *rapid.Generator[Freeze] {
	pool := append(append([]string{}, freezeEdits...), "sync", "sync", "sync", "sync", "sync")
	step := func(n int) *rapid.Generator[prog.Step] {
		return rapid.Custom(func(t *rapid.T) prog.Step {
			return prog.Step{Who: rapid.IntRange(0, n-1).Draw(t, "w"), Op: rapid.SampledFrom(pool).Draw(t, "op"),
				A: rapid.IntRange(0, 7).Draw(t, "a"), B: rapid.IntRange(0, 7).Draw(t, "b"), C: rapid.IntRange(0, 8).Draw(t, "c")}
		})
	}
	edit := rapid.Custom(func(t *rapid.T) prog.Step {
		return prog.Step{Who: 2, Op: rapid.SampledFrom(freezeEdits).Draw(t, "op"),
			A: rapid.IntRange(0, 7).Draw(t, "a"), B: rapid.IntRange(0, 7).Draw(t, "b"), C: rapid.IntRange(0, 8).Draw(t, "c")}
	})
	return rapid.Custom(func(t *rapid.T) Freeze {
		f := Freeze{
			Pre:    rapid.SliceOfN(step(3), 2, kit.Pick(10, 16)).Draw(t, "pre"),
			Frozen: rapid.SampledFrom([]string{"sync", "sync", "sync", "pushonly", "detach"}).Draw(t, "frozen"),
			FEdits: rapid.SliceOfN(edit, 0, 2).Draw(t, "fedits"),
			Park:   rapid.IntRange(0, len(freezeParkNames)-1).Draw(t, "park"),
			Nth:    rapid.SampledFrom([]int{1, 1, 1, 2}).Draw(t, "nth"),
			World:  rapid.SliceOfN(step(2), 1, kit.Pick(8, 12)).Draw(t, "world"),
			Admin:  max(0, rapid.IntRange(-2, 2).Draw(t, "admin")),
			Post:   rapid.SliceOfN(step(3), 0, kit.Pick(6, 10)).Draw(t, "post"),
		}
		if rapid.IntRange(0, 2).Draw(t, "snap") == 0 {
			f.Threshold = rapid.IntRange(1, 4).Draw(t, "threshold")
		}
		if rapid.IntRange(0, 1).Draw(t, "conflict") == 0 {
			f.Conflict = rapid.IntRange(1, 3).Draw(t, "kind")
			f.CA = rapid.IntRange(0, 7).Draw(t, "ca")
		}
		return f
	})
}

func runFreeze(c Freeze) (fail *kit.Failure, ev map[string]int, hist []string) {
	ev = map[string]int{}
	logf := func(f string, a ...any) { hist = append(hist, fmt.Sprintf(f, a...)) }
	s := world.Get()
	ctx, cancelAll := context.WithTimeout(context.Background(), 90*gotime.Second)
	defer cancelAll()
	interval, threshold := int64(1000), int64(1000)
	if c.Threshold > 0 {
		interval, threshold = int64(c.Threshold), int64(c.Threshold)
	}
	proj := s.Project(interval, threshold, "c16fz")
	dk := key.Key(world.FreshDocKey("c16fz"))
	world.Locks.Install()
	world.Locks.Reset(0)
	defer world.Locks.SetIntercept(nil)
	defer s.DB.SetHook(nil)

	type peer struct {
		c        *client.Client
		d        *document.Document
		attached bool
	}
	var ps []*peer
	defer func() {
		for _, p := range ps {
			_ = p.c.Deactivate(ctx)
			_ = p.c.Close()
		}
		s.WaitIdle()
	}()
	for i := 0; i < 3; i++ {
		cl, err := s.NewClient(ctx, proj)
		if err != nil {
			return kit.Failf("HARNESS", "client: %v", err), ev, hist
		}
		d := document.New(dk)
		if err := cl.Attach(ctx, d); err != nil {
			return kit.Failf("ATTACHFAIL", "setup: %v", err), ev, hist
		}
		ps = append(ps, &peer{cl, d, true})
		if i == 0 {
			if err := prog.InitDoc(d); err != nil {
				return kit.Failf("HARNESS", "init: %v", err), ev, hist
			}
		}
		if err := cl.Sync(ctx); err != nil {
			return kit.Failf("SYNCFAIL", "setup: %v", err), ev, hist
		}
		s.WaitIdle()
	}
	name := func(i int) string { return []string{"A", "B", "C"}[i] }
	doEdit := func(i int, st prog.Step) *kit.Failure {
		p := ps[i]
		if !p.attached {
			return nil
		}
		if _, why := prog.GuardF48(p.d, st); why != "" && !kit.NoExclusions() {
			ev["excluded:"+why]++
			return nil
		}
		if _, why := prog.GuardF35(p.d, st); why != "" && !kit.NoExclusions() {
			ev["excluded:"+why]++
			return nil
		}
		desc, err := prog.ApplyEdit(p.d, st)
		logf("%s: %s", name(i), desc)
		if err != nil {
			return kit.Failf("EDITFAIL", "%s %s: %v", name(i), desc, err)
		}
		return nil
	}
	seq := func(steps []prog.Step, n int, phase string) *kit.Failure {
		for _, st := range steps {
			i := st.Who % n
			if st.Op == "sync" {
				if !ps[i].attached {
					continue
				}
				logf("%s: sync", name(i))
				if err := ps[i].c.Sync(ctx); err != nil {
					return kit.Failf("SYNCFAIL", "%s (%s): %v", name(i), phase, err)
				}
				s.WaitIdle()
				continue
			}
			if f := doEdit(i, st); f != nil {
				return f
			}
		}
		return nil
	}
	if f := seq(c.Pre, 3, "warm-up"); f != nil {
		return f, ev, hist
	}
	if c.Conflict != 0 {
		for round := 0; round < 2; round++ {
			for i := range ps {
				if err := ps[i].c.Sync(ctx); err != nil {
					return kit.Failf("SYNCFAIL", "%s (before the conflict episode): %v", name(i), err), ev, hist
				}
				s.WaitIdle()
			}
		}
		// make sure there is something to remove, known to everybody
		for _, st := range []prog.Step{{Op: "aadd", B: 1}, {Op: "aadd", B: 2}, {Op: "tedit", A: 0, B: 0, C: 5}, {Op: "sync"}} {
			if st.Op == "sync" {
				for round := 0; round < 2; round++ {
					for i := range ps {
						if err := ps[i].c.Sync(ctx); err != nil {
							return kit.Failf("SYNCFAIL", "%s (before the conflict episode): %v", name(i), err), ev, hist
						}
						s.WaitIdle()
					}
				}
				continue
			}
			_, _ = prog.ApplyEdit(ps[0].d, st)
		}
		remove := [][2]prog.Step{
			{{Op: "adel", A: c.CA}, {Op: []string{"adel", "ains"}[c.CA%2], A: c.CA, B: 5}},
			{{Op: "tedit", A: c.CA, B: 3, C: 0}, {Op: "tedit", A: c.CA + 1, B: 0, C: 1}},
			{{Op: "trdel", A: c.CA}, {Op: "trtext", A: c.CA, B: 1, C: 3}},
		}[c.Conflict-1]
		dA, errA := prog.ApplyEdit(ps[0].d, remove[0])
		dB, errB := prog.ApplyEdit(ps[1].d, remove[1])
		logf("conflict episode: A: %s (err %v); B, not knowing it: %s (err %v)", dA, errA, dB, errB)
		for _, i := range []int{0, 0, 2, 2} {
			if err := ps[i].c.Sync(ctx); err != nil {
				return kit.Failf("SYNCFAIL", "%s (conflict episode): %v", name(i), err), ev, hist
			}
			s.WaitIdle()
		}
		c.World = append([]prog.Step{{Who: 1, Op: "sync"}, {Who: 1, Op: "sync"}}, c.World...)
		ev["conflict_episode"]++
	}
	C := ps[2]
	for _, st := range c.FEdits {
		if f := doEdit(2, st); f != nil {
			return f, ev, hist
		}
	}

	// freeze C's request
	var mu sync.Mutex
	seen := 0
	frozenOnce := false
	frozen := make(chan struct{}, 1)
	release := make(chan struct{})
	released := false
	letGo := func() {
		if !released {
			released = true
			close(release)
		}
	}
	park := func() {
		frozen <- struct{}{}
		<-release
	}
	pname := freezeParkNames[c.Park]
	if strings.HasPrefix(pname, "lock#") {
		want := int(pname[5] - '1') // number of locks already held
		world.Locks.SetIntercept(func(class, lk string, held []string) {
			if class != "pull" && class != "push" && class != "attachment" {
				return
			}
			mu.Lock()
			doPark := !frozenOnce && len(held) == want
			if doPark {
				frozenOnce = true
			}
			mu.Unlock()
			if doPark {
				park()
			}
		})
	} else {
		s.DB.SetHook(func(hctx context.Context, method string, ph world.Phase, _ any) error {
			if !projects.HasProject(hctx) {
				return nil
			}
			n := method + "/" + map[world.Phase]string{world.Before: "before", world.After: "after"}[ph]
			mu.Lock()
			doPark := false
			if !frozenOnce && n == pname {
				seen++
				if seen == c.Nth {
					doPark, frozenOnce = true, true
				}
			}
			mu.Unlock()
			if doPark {
				park()
			}
			return nil
		})
	}
	cdone := make(chan error, 1)
	go func() {
		switch c.Frozen {
		case "pushonly":
			cdone <- C.c.Sync(ctx, client.WithKey(dk).WithPushOnly())
		case "detach":
			cdone <- C.c.Detach(ctx, C.d)
		default:
			cdone <- C.c.Sync(ctx)
		}
	}()
	logf("C: %s with %d unsent edits - to be frozen at %s (occurrence %d)", c.Frozen, len(c.FEdits), pname, c.Nth)
	cFinished := false
	var cErr error
	select {
	case <-frozen:
		ev["frozen"]++
		ev["frozen@"+pname]++
		logf("C's request is frozen")
	case cErr = <-cdone:
		cFinished = true
		ev["not_frozen"]++
	case <-gotime.After(20 * gotime.Second):
		letGo()
		return kit.Failf("HARNESS", "C's request neither froze nor returned"), ev, hist
	}
	// the world moves on
	if !cFinished {
		for _, st := range c.World {
			i := st.Who % 2
			if st.Op != "sync" {
				if f := doEdit(i, st); f != nil {
					letGo()
					<-cdone
					return f, ev, hist
				}
				continue
			}
			logf("%s: sync (C frozen: %v)", name(i), !released)
			bd := make(chan error, 1)
			go func() { bd <- ps[i].c.Sync(ctx) }()
			var err error
			select {
			case err = <-bd:
				if !released {
					ev["world_requests_while_frozen"]++
				}
			case <-gotime.After(1500 * gotime.Millisecond):
				// it needs something the frozen request holds: let C go on
				ev["world_waited_for_the_frozen_request"]++
				logf("   (waits for C's request: C released)")
				letGo()
				err = <-bd
			}
			if err != nil {
				letGo()
				<-cdone
				return kit.Failf("SYNCFAIL", "%s (while C's %s was frozen at %s): %v", name(i), c.Frozen, pname, err), ev, hist
			}
		}
		if c.Admin != 0 && !released {
			if di, err := documents.FindDocInfoByKey(ctx, s.BE, proj, dk); err == nil && di.ServerSeq >= 2 {
				adone := make(chan error, 1)
				go func() {
					if c.Admin == 1 {
						_, err := documents.GetDocumentByServerSeq(ctx, s.BE, proj, dk, di.ServerSeq-1)
						adone <- err
					} else {
						_, err := documents.CompactDocument(ctx, s.BE, proj, di, false)
						adone <- err
					}
				}()
				select {
				case err := <-adone:
					logf("admin action %d while frozen -> %v", c.Admin, err)
					ev["admin_while_frozen"]++
				case <-gotime.After(1500 * gotime.Millisecond):
					letGo()
					<-adone
				}
			}
		}
		letGo()
		cErr = <-cdone
	}
	world.Locks.SetIntercept(nil)
	s.DB.SetHook(nil)
	s.WaitIdle()
	if cErr != nil {
		return kit.Failf("SYNCFAIL", "C's %s (frozen at %s, occurrence %d): %v", c.Frozen, pname, c.Nth, cErr), ev, hist
	}
	logf("C's request returned")
	if c.Frozen == "detach" {
		C.attached = false
		// C comes back with a new document instance
		nd := document.New(dk)
		if err := C.c.Attach(ctx, nd); err != nil {
			return kit.Failf("ATTACHFAIL", "C attaches again after its (frozen) detach: %v", err), ev, hist
		}
		C.d, C.attached = nd, true
		s.WaitIdle()
	}
	if f := seq(c.Post, 3, "afterwards"); f != nil {
		return f, ev, hist
	}
	// quiesce
	for round := 0; round < 3; round++ {
		for i, p := range ps {
			if err := p.c.Sync(ctx); err != nil {
				return kit.Failf("FINALSYNCFAIL", "%s round %d (C's %s had been frozen at %s): %v", name(i), round, c.Frozen, pname, err), ev, hist
			}
			s.WaitIdle()
		}
	}
	for i, p := range ps {
		if a, b := ps[0].d.Marshal(), p.d.Marshal(); a != b {
			return kit.Failf("DIVERGED", "A vs %s (C's %s had been frozen at %s):\n%s\n%s", name(i), c.Frozen, pname, a, b), ev, hist
		}
		if root, m := p.d.Root().Marshal(), p.d.Marshal(); root != m {
			return kit.Failf("CLONE!=ROOT", "%s:\n%s\n%s", name(i), root, m), ev, hist
		}
	}
	di, err := documents.FindDocInfoByKey(ctx, s.BE, proj, dk)
	if err != nil {
		return kit.Failf("HARNESS", "docinfo: %v", err), ev, hist
	}
	if di.Epoch == 0 {
		infos, err := s.DB.Database.FindChangeInfosBetweenServerSeqs(ctx, di.RefKey(), 1, math.MaxInt64)
		if err != nil {
			return kit.Failf("HARNESS", "log: %v", err), ev, hist
		}
		seenC := map[string]int64{}
		for i, ci := range infos {
			if ci.ServerSeq != int64(i+1) {
				return kit.Failf("LOG-GAP", "row %d has serverSeq %d", i, ci.ServerSeq), ev, hist
			}
			if len(ci.Operations) == 0 {
				continue
			}
			k := fmt.Sprintf("%s/%d", ci.ActorID.String(), ci.Lamport)
			if prev, dup := seenC[k]; dup {
				return kit.Failf("LOG-DUPLICATE", "the change of actor %s with lamport %d is stored twice: serverSeq %d and %d", ci.ActorID.String(), ci.Lamport, prev, ci.ServerSeq), ev, hist
			}
			seenC[k] = ci.ServerSeq
		}
	} else {
		ev["compacted"]++
	}
	if v := world.Locks.Violations(); len(v) > 0 {
		return kit.Failf("LOCK-ORDER", "%d violations of the lock discipline, first: %s", len(v), v[0]), ev, hist
	}
	return nil, ev, hist
}

func fzHash(c Freeze) uint64 {
	b, _ := json.Marshal(c)
	var h uint64 = 1469598103934665603
	for _, x := range b {
		h = (h ^ uint64(x)) * 1099511628211
	}
	return h
}

func TestC16Freeze(t *testing.T) {
	col := stats.New("C16", "freeze")
	defer col.Flush(true)
	var failed *kit.Failure
	var failedCase Freeze
	var failedHist []string
	defer func() {
		if failed != nil {
			path := kit.WriteReplay("C16", "freeze", fmt.Sprintf("freeze-%016x", fzHash(failedCase)), failedCase, failed, failedHist)
			col.AddViolation(stats.Violation{Replay: path, Kind: failed.Kind, Msg: failed.Msg})
			kit.ReportViolation("C16", path, failed)
		}
	}()
	rapid.Check(t, func(rt *rapid.T) {
		c := genFreeze().Draw(rt, "case")
		kit.SetInflight(childEnv, "freeze", "freeze", fmt.Sprintf("freeze-%016x", fzHash(c)), c)
		f, ev, hist := runFreeze(c)
		classes := map[string]int{}
		for k, v := range ev {
			classes[k] = v
		}
		col.Record(fzHash(c), f == nil && ev["frozen"] > 0 && ev["world_requests_while_frozen"] > 0, classes, func() any {
			return map[string]any{"case": c, "history": hist}
		})
		if f != nil {
			if f.Kind == "HARNESS" {
				fmt.Printf("HARNESS-ERROR property=C16 %s\n", f.Msg)
				rt.Fatalf("harness: %s", f.Msg)
			}
			if failed == nil || len(c.Pre)+len(c.World)+len(c.Post) < len(failedCase.Pre)+len(failedCase.World)+len(failedCase.Post) {
				failed, failedCase, failedHist = f, c, hist
			}
			rt.Fatalf("%s", f.Error())
		}
	})
}

func replayFreeze(raw json.RawMessage) *kit.Failure {
	var c Freeze
	if err := json.Unmarshal(raw, &c); err != nil {
		return kit.Failf("HARNESS", "%v", err)
	}
	f, _, hist := runFreeze(c)
	for _, h := range hist {
		fmt.Println("  " + h)
	}
	return f
}
