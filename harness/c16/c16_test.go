// Package c16 checks property C16 (the sync pipeline is free of data races and
// deadlocks under load) and the parallel part of C04 with generated parallel
// workloads of real clients against the in-process server. It is built with
// -race; the race detector is part of the oracle.
package c16

import (
	"context"
	"encoding/json"
	"fmt"
	"math"
	"net/http"
	"os"
	"runtime"
	"strings"
	"sync"
	"sync/atomic"
	"testing"
	gotime "time"

	"google.golang.org/protobuf/proto"
	"pgregory.net/rapid"

	"connectrpc.com/connect"

	"github.com/yorkie-team/yorkie/api/converter"
	"github.com/yorkie-team/yorkie/api/types"
	api "github.com/yorkie-team/yorkie/api/yorkie/v1"
	"github.com/yorkie-team/yorkie/api/yorkie/v1/v1connect"
	"github.com/yorkie-team/yorkie/client"
	"github.com/yorkie-team/yorkie/pkg/document"
	yjson "github.com/yorkie-team/yorkie/pkg/document/json"
	"github.com/yorkie-team/yorkie/pkg/document/presence"
	"github.com/yorkie-team/yorkie/pkg/document/time"
	"github.com/yorkie-team/yorkie/pkg/key"
	"github.com/yorkie-team/yorkie/server/clients"
	"github.com/yorkie-team/yorkie/server/documents"
	"github.com/yorkie-team/yorkie/server/packs"

	"verifharness/kit"
	"verifharness/prog"
	"verifharness/stats"
	"verifharness/world"
)

const childEnv = "C16_CHILD"

func init() {
	kit.Pkg = "c16"
	kit.Race = true
}

func TestMain(m *testing.M) {
	if os.Getenv(childEnv) != "" {
		os.Exit(m.Run())
	}
	prop := "C16"
	for _, a := range os.Args {
		if strings.Contains(a, "TestC04Par") || strings.Contains(a, "TestC04Inflight") {
			prop = "C04"
		}
		if strings.Contains(a, "TestC05Inflight") {
			prop = "C05"
		}
		if strings.Contains(a, "TestC11Conc") {
			prop = "C11"
		}
	}
	os.Exit(kit.Supervise(prop, childEnv))
}

// Workload is one generated case.
type Workload struct {
	Clients   int       `json:"clients"`
	Docs      int       `json:"docs"`
	Interval  int64     `json:"interval"`
	Threshold int64     `json:"threshold"`
	Scripts   [][]WStep `json:"scripts"`     // per client
	Compactor int       `json:"compactor"`   // number of non-forced compaction attempts by a background actor
	Histview  int       `json:"histview"`    // number of history views by a background actor
	Deactiv   bool      `json:"deactivator"` // clients.DeactivateInactives runs in the background
	Dup       bool      `json:"dup"`         // one raw peer sends every request twice, concurrently
	Rush      bool      `json:"rush"`        // before the scripts: all clients attach one brand-new key at the same time
	Watchers  int       `json:"watchers"`    // raw WatchDocument streams on document 0 that come and go while the scripts run
	WatchGap  int       `json:"watchgap"`    // base life time of a watch stream (x 1ms, varied per loop)
	MaxSubs   int       `json:"maxsubs"`     // project limit of watch streams per document (0 = unlimited): watchers beyond it are refused and retry
	MaxAtt    int       `json:"maxatt"`      // != 0: the project limits attachments per document to what the setup needs: later attaches may be refused
	Yield     uint64    `json:"yield"`       // != 0: pseudo-random yields/sleeps injected at every lock boundary and storage call of the sync path
}

// WStep is one step of a client script.
type WStep struct {
	Op string `json:"op"` // edit, sync, pushonly, attach, detach, watch, unwatch, yield
	D  int    `json:"d"`  // document index
	A  int    `json:"a"`
	B  int    `json:"b"`
	C  int    `json:"c"`
}

var editOps = []string{"oset", "odel", "rootset", "cinc", "cinc", "tedit", "tedit", "aadd", "adel", "ains"}

func genWorkload() *rapid.Generator[Workload] {
	return rapid.Custom(func(t *rapid.T) Workload {
		w := Workload{
			Clients:   rapid.IntRange(2, kit.Pick(6, 8)).Draw(t, "clients"),
			Docs:      rapid.IntRange(1, 3).Draw(t, "docs"),
			Compactor: rapid.IntRange(0, 4).Draw(t, "compactor"),
			Histview:  rapid.IntRange(0, 6).Draw(t, "histview"),
			Deactiv:   rapid.IntRange(0, 3).Draw(t, "deactivator") == 0,
			Dup:       rapid.IntRange(0, 2).Draw(t, "dup") == 0,
			Rush:      rapid.IntRange(0, 1).Draw(t, "rush") == 0,
			Watchers:  max(0, rapid.IntRange(-3, 6).Draw(t, "watchers")),
			WatchGap:  rapid.IntRange(0, 40).Draw(t, "watchgap"),
		}
		switch rapid.IntRange(0, 5).Draw(t, "limits") {
		case 0:
			w.MaxSubs = rapid.IntRange(1, 2).Draw(t, "maxsubs")
			w.Watchers = max(w.Watchers, w.MaxSubs+rapid.IntRange(1, 3).Draw(t, "extrawatchers"))
		case 1:
			// (the rush phase and the duplicate-request peer attach beyond what the setup needs)
			w.MaxAtt, w.Rush, w.Dup = 1, false, false
		}
		if rapid.IntRange(0, 2).Draw(t, "yieldon") > 0 {
			w.Yield = rapid.Uint64Range(1, 1<<40).Draw(t, "yield")
		}
		if rapid.IntRange(0, 2).Draw(t, "snap") > 0 {
			w.Interval = int64(rapid.IntRange(1, 4).Draw(t, "interval"))
			w.Threshold = int64(rapid.IntRange(1, 4).Draw(t, "threshold"))
		} else {
			w.Interval, w.Threshold = 1000, 1000
		}
		pool := []string{"edit", "edit", "edit", "sync", "sync", "sync", "pushonly", "attach", "attach", "detach", "yield", "lag", "parsync", "parsync"}
		for c := 0; c < w.Clients; c++ {
			n := rapid.IntRange(4, kit.Pick(18, 30)).Draw(t, "len")
			var sc []WStep
			for i := 0; i < n; i++ {
				sc = append(sc, WStep{
					Op: rapid.SampledFrom(pool).Draw(t, "op"),
					D:  rapid.IntRange(0, w.Docs-1).Draw(t, "d"),
					A:  rapid.IntRange(0, 7).Draw(t, "a"),
					B:  rapid.IntRange(0, 7).Draw(t, "b"),
					C:  rapid.IntRange(0, 8).Draw(t, "c"),
				})
			}
			w.Scripts = append(w.Scripts, sc)
		}
		return w
	})
}

type stamp struct{ in, out int64 }

type peer struct {
	idx  int
	c    *client.Client
	docs []*document.Document // per doc index (nil = not attached)
	id   string
}

// history of one (client, document) for the C04 oracle.
type docHist struct {
	mu     sync.Mutex
	recv   []delivered
	from   int64
	lastCP int64
	have   bool
	fail   *kit.Failure
}

type delivered struct {
	ServerSeq int64
	Actor     string
	ClientSeq uint32
}

type run struct {
	s      *world.Server
	w      Workload
	keys   []key.Key
	peers  []*peer
	seq    atomic.Int64
	mu     sync.Mutex
	stamps map[string][]stamp  // document key -> PushPull request intervals
	hists  map[string]*docHist // clientID/docKey
	dupIDs map[string]bool     // raw peers whose requests are sent twice (deliveries not comparable)
	ev     map[string]int
	log    []string
}

func (r *run) logf(f string, a ...any) {
	r.mu.Lock()
	r.log = append(r.log, fmt.Sprintf(f, a...))
	r.mu.Unlock()
}

func (r *run) count(k string) {
	r.mu.Lock()
	r.ev[k]++
	r.mu.Unlock()
}

// sink records every exchange (goroutine safe).
func (r *run) sink(ex *world.Exchange) {
	var cid string
	var reqPack, resPack *api.ChangePack
	switch m := ex.Req.(type) {
	case *api.PushPullChangesRequest:
		cid, reqPack = m.ClientId, m.ChangePack
	case *api.AttachDocumentRequest:
		cid, reqPack = m.ClientId, m.ChangePack
	case *api.DetachDocumentRequest:
		cid, reqPack = m.ClientId, m.ChangePack
	default:
		return
	}
	switch m := ex.Resp.(type) {
	case *api.PushPullChangesResponse:
		resPack = m.ChangePack
	case *api.AttachDocumentResponse:
		resPack = m.ChangePack
	case *api.DetachDocumentResponse:
		resPack = m.ChangePack
	}
	if reqPack == nil || resPack == nil {
		return
	}
	hk := cid + "/" + reqPack.DocumentKey
	r.mu.Lock()
	h := r.hists[hk]
	if h == nil {
		h = &docHist{}
		r.hists[hk] = h
	}
	r.mu.Unlock()
	res, err := converter.FromChangePack(resPack)
	if err != nil {
		return
	}
	h.mu.Lock()
	defer h.mu.Unlock()
	if _, isAttach := ex.Req.(*api.AttachDocumentRequest); isAttach {
		h.recv, h.from, h.have = nil, 0, false
	}
	if h.have && res.Checkpoint.ServerSeq < h.lastCP && h.fail == nil {
		h.fail = kit.Failf("CHECKPOINT-NOT-MONOTONE", "client %s doc %s: response checkpoint %d after %d", cid, reqPack.DocumentKey, res.Checkpoint.ServerSeq, h.lastCP)
	}
	h.lastCP, h.have = res.Checkpoint.ServerSeq, true
	if len(res.Snapshot) > 0 {
		h.recv, h.from = nil, res.Checkpoint.ServerSeq
		return
	}
	for _, c := range res.Changes {
		h.recv = append(h.recv, delivered{c.ServerSeq(), c.ID().ActorID().String(), c.ClientSeq()})
	}
}

func (r *run) timed(docKey string, f func() error) error {
	in := r.seq.Add(1)
	err := f()
	out := r.seq.Add(1)
	r.mu.Lock()
	r.stamps[docKey] = append(r.stamps[docKey], stamp{in, out})
	r.mu.Unlock()
	return err
}

// clientScript runs one client's script.
func (r *run) clientScript(p *peer, sc []WStep) *kit.Failure {
	ctx := context.Background()
	for _, st := range sc {
		d := p.docs[st.D]
		k := r.keys[st.D]
		if st.Op != "yield" && st.Op != "lag" {
			r.logf("[%d] c%d %s doc %d (a%d b%d c%d) attached=%v", r.seq.Load(), p.idx, st.Op, st.D, st.A, st.B, st.C, d != nil)
		}
		switch st.Op {
		case "edit":
			if d == nil {
				continue
			}
			op := editOps[(st.A*8+st.B)%len(editOps)]
			if _, why := prog.GuardF48(d, prog.Step{Op: op, A: st.A, B: st.B, C: st.C}); why != "" && !kit.NoExclusions() {
				r.count("excluded:" + why) // known finding F48: insert right before a known tombstone
				continue
			}
			if _, why := prog.GuardF35(d, prog.Step{Op: op, A: st.A, B: st.B, C: st.C}); why != "" && !kit.NoExclusions() {
				r.count("excluded:" + why) // known finding F35: a range boundary inside a surrogate pair
				continue
			}
			if _, err := prog.ApplyEdit(d, prog.Step{Op: op, A: st.A, B: st.B, C: st.C}); err != nil {
				return kit.Failf("EDITFAIL", "c%d doc %d %s: %v", p.idx, st.D, op, err)
			}
		case "sync", "pushonly":
			if d == nil {
				continue
			}
			opt := client.WithKey(k)
			if st.Op == "pushonly" {
				opt = opt.WithPushOnly()
			}
			if err := r.timed(string(k), func() error { return p.c.Sync(ctx, opt) }); err != nil {
				return kit.Failf("SYNCFAIL", "c%d doc %d: %v", p.idx, st.D, err)
			}
			r.count("sync")
		case "attach":
			if d != nil {
				continue
			}
			nd := document.New(k)
			if err := r.timed(string(k), func() error { return p.c.Attach(ctx, nd) }); err != nil {
				if r.w.MaxAtt != 0 && strings.Contains(err.Error(), "attachments allowed per document") {
					r.count("attach_refused_by_limit")
					continue
				}
				return kit.Failf("ATTACHFAIL", "c%d doc %d: %v", p.idx, st.D, err)
			}
			p.docs[st.D] = nd
			r.count("attach")
		case "detach":
			if d == nil {
				continue
			}
			if err := r.timed(string(k), func() error { return p.c.Detach(ctx, d) }); err != nil {
				return kit.Failf("DETACHFAIL", "c%d doc %d: %v", p.idx, st.D, err)
			}
			p.docs[st.D] = nil
			r.count("detach")
		case "parsync":
			// the client syncs all its attached documents at the same time
			// (one request per document in flight; e.g. several realtime
			// attachments of one client)
			var pw sync.WaitGroup
			errs := make([]error, len(p.docs))
			n := 0
			for di, dd := range p.docs {
				if dd == nil {
					continue
				}
				n++
				pw.Add(1)
				go func() {
					defer pw.Done()
					kk := r.keys[di]
					errs[di] = r.timed(string(kk), func() error { return p.c.Sync(ctx, client.WithKey(kk)) })
				}()
			}
			pw.Wait()
			for di, err := range errs {
				if err != nil {
					return kit.Failf("SYNCFAIL", "c%d doc %d (parallel sync of the client's %d documents): %v", p.idx, di, n, err)
				}
			}
			if n >= 2 {
				r.count("parallel_sync_of_one_client")
			}
		case "yield":
			runtime.Gosched()
		case "lag":
			gotime.Sleep(gotime.Duration(st.A*200) * gotime.Microsecond)
		}
	}
	return nil
}

func execute(w Workload) (fail *kit.Failure, ev map[string]int, hist []string) {
	s := world.Get()
	r := &run{s: s, w: w, stamps: map[string][]stamp{}, hists: map[string]*docHist{}, ev: map[string]int{}, dupIDs: map[string]bool{}}
	ctx := context.Background()
	maxAtt := 0
	if w.MaxAtt != 0 {
		// what the setup attaches to the busiest document (client 0 has all, client c has c%Docs)
		for d := 0; d < w.Docs; d++ {
			n := 0
			for c := 0; c < w.Clients; c++ {
				if c == 0 || d == c%w.Docs {
					n++
				}
			}
			maxAtt = max(maxAtt, n)
		}
	}
	proj := s.ProjectLimits(w.Interval, w.Threshold, "c16", false, w.MaxSubs, maxAtt)
	for d := 0; d < w.Docs; d++ {
		r.keys = append(r.keys, key.Key(world.FreshDocKey("c16")))
	}
	baseGoroutines := serverGoroutines()
	world.Rec.SetSink(r.sink)
	defer world.Rec.SetSink(nil)
	// lock-order recorder (hook H3) for the whole workload; yield injection at
	// lock boundaries and storage calls (H2) only during the parallel phase
	world.Locks.Install()
	world.Locks.Reset(0)
	defer func() {
		world.Locks.Reset(0)
		s.DB.SetHook(nil)
	}()
	defer func() {
		if v := world.Locks.Violations(); len(v) > 0 {
			if fail == nil {
				fail = kit.Failf("LOCK-ORDER", "%d violations of the lock discipline, first: %s", len(v), v[0])
			} else {
				fail.Msg += fmt.Sprintf("\n(lock discipline: %d violations recorded, first: %s)", len(v), v[0])
			}
		}
		events, yields, classes, depth := world.Locks.Stats()
		if r.ev != nil {
			r.ev["lock_events"] += int(events)
			r.ev["yields_injected"] += int(yields)
			if depth >= 3 {
				r.ev["lock_nesting>=3"]++
			}
			if depth >= 4 {
				r.ev["lock_nesting>=4"]++
			}
			for k := range classes {
				if strings.HasPrefix(k, "nest:") {
					r.ev[k]++
				}
			}
			if w.Yield != 0 {
				r.ev["yield_injection_on"]++
			}
		}
	}()
	defer func() {
		if fail != nil && (strings.HasSuffix(fail.Kind, "FAIL") || fail.Kind == "CLONE!=ROOT" || fail.Kind == "DIVERGED") {
			// diagnostics for a failing client step: the stored log of every document
			for d, k := range r.keys {
				di, err := documents.FindDocInfoByKey(ctx, s.BE, proj, k)
				if err != nil {
					continue
				}
				infos, err := s.DB.Database.FindChangeInfosBetweenServerSeqs(ctx, di.RefKey(), 1, math.MaxInt64)
				if err != nil {
					continue
				}
				r.logf("-- stored log of doc %d (%s), head %d, epoch %d", d, k, di.ServerSeq, di.Epoch)
				for _, ci := range infos {
					c, err := ci.ToChange()
					if err != nil {
						continue
					}
					var ops []string
					for _, op := range c.Operations() {
						ops = append(ops, strings.TrimPrefix(fmt.Sprintf("%T", op), "*operations.")+"@"+op.ParentCreatedAt().ToTestString())
					}
					r.logf("   seq %d actor %s cseq %d lamport %d vv %s ops %v", ci.ServerSeq, ci.ActorID.String()[18:], ci.ClientSeq, ci.Lamport, ci.VersionVector.Marshal(), ops)
				}
			}
			for _, p := range r.peers {
				for d, doc := range p.docs {
					if doc != nil {
						r.logf("-- c%d (%s) doc %d: checkpoint %s vv %s garbage %d: %s", p.idx, p.id[18:], d, doc.Checkpoint().String(), doc.VersionVector().Marshal(), doc.GarbageLen(), abbreviate(doc.Marshal(), 300))
					}
				}
			}
		}
		ev, hist = r.ev, r.log
		if fail != nil && fail.Kind == "DEADLOCK" {
			return // the server is wedged: cleaning up would only wait for timeouts
		}
		for _, p := range r.peers {
			_ = p.c.Deactivate(ctx)
			_ = p.c.Close()
		}
		s.WaitIdle()
	}()
	// setup: every client attaches document 0; client 0 creates the schema in every document
	for c := 0; c < w.Clients; c++ {
		cl, err := s.NewClient(ctx, proj)
		if err != nil {
			return kit.Failf("HARNESS", "client: %v", err), r.ev, r.log
		}
		p := &peer{idx: c, c: cl, docs: make([]*document.Document, w.Docs), id: cl.ID().String()}
		r.peers = append(r.peers, p)
		for d := 0; d < w.Docs; d++ {
			if c == 0 || d == c%w.Docs {
				doc := document.New(r.keys[d])
				if err := cl.Attach(ctx, doc); err != nil {
					return kit.Failf("ATTACHFAIL", "setup c%d doc %d: %v", c, d, err), r.ev, r.log
				}
				p.docs[d] = doc
				if c == 0 {
					if err := prog.InitDoc(doc); err != nil {
						return kit.Failf("HARNESS", "init: %v", err), r.ev, r.log
					}
					if err := cl.Sync(ctx); err != nil {
						return kit.Failf("SYNCFAIL", "setup: %v", err), r.ev, r.log
					}
				} else if err := cl.Sync(ctx); err != nil {
					return kit.Failf("SYNCFAIL", "setup: %v", err), r.ev, r.log
				}
			}
		}
	}
	s.WaitIdle()

	if w.Rush {
		if f := r.rush(proj); f != nil {
			return f, r.ev, r.log
		}
	}

	// parallel phase
	var wg sync.WaitGroup
	fails := make(chan *kit.Failure, w.Clients+16)
	start := make(chan struct{})
	stop := make(chan struct{})
	for i, p := range r.peers {
		wg.Add(1)
		go func(p *peer, sc []WStep) {
			defer wg.Done()
			defer func() {
				if rec := recover(); rec != nil {
					fails <- kit.Failf("PANIC", "client goroutine: %v", rec)
				}
			}()
			<-start
			if f := r.clientScript(p, sc); f != nil {
				fails <- f
			}
		}(p, w.Scripts[i])
	}
	var bg sync.WaitGroup
	if w.Compactor > 0 {
		bg.Add(1)
		go func() {
			defer bg.Done()
			<-start
			for i := 0; i < w.Compactor; i++ {
				for _, k := range r.keys {
					di, err := documents.FindDocInfoByKey(ctx, s.BE, proj, k)
					if err != nil {
						continue
					}
					if _, err := documents.CompactDocument(ctx, s.BE, proj, di, false); err != nil {
						fails <- kit.Failf("COMPACTFAIL", "non-forced compaction in the background: %v", err)
						return
					}
					r.count("compaction_attempt")
				}
				gotime.Sleep(300 * gotime.Microsecond)
			}
		}()
	}
	if w.Histview > 0 {
		bg.Add(1)
		go func() {
			defer bg.Done()
			<-start
			for i := 0; i < w.Histview; i++ {
				k := r.keys[i%len(r.keys)]
				di, err := documents.FindDocInfoByKey(ctx, s.BE, proj, k)
				if err != nil || di.ServerSeq < 2 {
					continue
				}
				// under the document's read lock, like the admin handlers that serve history views
				dl := s.BE.Lockers.LockerWithRLock(packs.DocKey(proj.ID, k))
				di, err = documents.FindDocInfoByKey(ctx, s.BE, proj, k)
				if err != nil || di.ServerSeq < 2 {
					dl.RUnlock()
					continue
				}
				_, err = documents.GetDocumentByServerSeq(ctx, s.BE, proj, k, 1+int64(i)%(di.ServerSeq-1))
				dl.RUnlock()
				if err != nil {
					fails <- kit.Failf("HISTVIEWFAIL", "%v", err)
					return
				}
				r.count("histview")
				gotime.Sleep(200 * gotime.Microsecond)
			}
		}()
	}
	if w.Dup {
		bg.Add(1)
		go func() {
			defer bg.Done()
			<-start
			if f := r.dupPeer(proj, r.keys[0], 6); f != nil {
				fails <- f
			}
		}()
	}
	scriptsDone := make(chan struct{})
	for wi := 0; wi < w.Watchers; wi++ {
		bg.Add(1)
		go func() {
			defer bg.Done()
			<-start
			if f := r.watcher(proj, r.keys[0], wi, w.WatchGap, scriptsDone); f != nil {
				fails <- f
			}
		}()
	}
	if w.Deactiv {
		bg.Add(1)
		go func() {
			defer bg.Done()
			<-start
			for i := 0; i < 3; i++ {
				// the real housekeeping task; nobody is inactive, so it must not disturb anyone
				_, _, _, _ = clients.DeactivateInactives(ctx, s.BE, 10, 2, types.ID(""))
				r.count("housekeeping_run")
				gotime.Sleep(500 * gotime.Microsecond)
			}
		}()
	}
	if w.Yield != 0 {
		world.Locks.SetYield(w.Yield)
		var n atomic.Uint64
		s.DB.SetHook(func(_ context.Context, _ string, _ world.Phase, _ any) error {
			x := (n.Add(1) + w.Yield) * 0x9E3779B97F4A7C15
			x ^= x >> 31
			switch {
			case x%32 == 0:
				gotime.Sleep(gotime.Duration(30+(x>>8)%300) * gotime.Microsecond)
			case x%3 == 0:
				runtime.Gosched()
			}
			return nil
		})
	}
	close(start)
	done := make(chan struct{})
	go func() { wg.Wait(); close(scriptsDone); bg.Wait(); close(done) }()
	select {
	case <-done:
		world.Locks.SetYield(0)
		s.DB.SetHook(nil)
	case <-gotime.After(60 * gotime.Second):
		close(stop)
		dump := goroutineDump()
		if n := strings.Count(dump, "pkg/locker"); n > 0 {
			return kit.Failf("DEADLOCK", "requests did not return within 60 s; %d goroutines are parked in pkg/locker:\nlocks held: %s\n%s", n, world.Locks.HeldSummary(), abbreviate(dump, 6000)), r.ev, r.log
		}
		return kit.Failf("HARNESS", "workload did not finish within 60 s and no goroutine is parked in the lockers"), r.ev, r.log
	}
	close(fails)
	for f := range fails {
		if f != nil {
			return f, r.ev, r.log
		}
	}
	s.WaitIdle()

	// quiesce sequentially and evaluate the C01/C04 oracles on the outcome
	for round := 0; round < 3; round++ {
		for _, p := range r.peers {
			if err := p.c.Sync(ctx); err != nil && err != client.ErrNotAttached {
				return kit.Failf("FINALSYNCFAIL", "c%d: %v", p.idx, err), r.ev, r.log
			}
			s.WaitIdle()
		}
	}
	for d, k := range r.keys {
		var first *document.Document
		firstIdx := 0
		for _, p := range r.peers {
			if p.docs[d] == nil {
				continue
			}
			if first == nil {
				first, firstIdx = p.docs[d], p.idx
			} else if a, b := first.Marshal(), p.docs[d].Marshal(); a != b {
				return kit.Failf("DIVERGED", "doc %d: c%d vs c%d:\n%s\n%s", d, firstIdx, p.idx, a, b), r.ev, r.log
			}
			if root, m := p.docs[d].Root().Marshal(), p.docs[d].Marshal(); root != m {
				return kit.Failf("CLONE!=ROOT", "doc %d c%d:\n%s\n%s", d, p.idx, root, m), r.ev, r.log
			}
		}
		if f := r.checkLog(proj, k); f != nil {
			return f, r.ev, r.log
		}
	}
	// overlap classification
	for _, st := range r.stamps {
		maxOverlap := 0
		for i := range st {
			n := 0
			for j := range st {
				if st[j].in < st[i].out && st[i].in < st[j].out {
					n++
				}
			}
			maxOverlap = max(maxOverlap, n)
		}
		if maxOverlap >= 2 {
			r.ev["overlap>=2"]++
		}
		if maxOverlap >= 3 {
			r.ev["overlap>=3"]++
		}
	}
	// no server goroutine is left behind
	for _, p := range r.peers {
		_ = p.c.Deactivate(ctx)
	}
	s.WaitIdle()
	deadline := gotime.Now().Add(5 * gotime.Second)
	for serverGoroutines() > baseGoroutines && gotime.Now().Before(deadline) {
		gotime.Sleep(20 * gotime.Millisecond)
	}
	if n := serverGoroutines(); n > baseGoroutines {
		return kit.Failf("GOROUTINE-LEAK", "%d goroutines inside yorkie/server before the workload, %d after every client was deactivated:\n%s",
			baseGoroutines, n, abbreviate(goroutineDump(), 5000)), r.ev, r.log
	}
	return nil, r.ev, r.log
}

// watcher is a raw peer that opens WatchDocument streams on the document and
// leaves them again (cancelled request) after a short, varying time, until the
// client scripts are done. Half of the streams are read, half are left unread.
func (r *run) watcher(proj *types.Project, k key.Key, wi, gap int, done <-chan struct{}) *kit.Failure {
	ctx := context.Background()
	cli := v1connect.NewYorkieServiceClient(http.DefaultClient, "http://"+r.s.Addr,
		connect.WithInterceptors(client.NewAuthInterceptor(proj.PublicKey, "")))
	act, err := cli.ActivateClient(ctx, connect.NewRequest(&api.ActivateClientRequest{ClientKey: world.FreshDocKey("watch")}))
	if err != nil {
		return kit.Failf("HARNESS", "watcher activate: %v", err)
	}
	cid := act.Msg.ClientId
	defer func() {
		_, _ = cli.DeactivateClient(ctx, connect.NewRequest(&api.DeactivateClientRequest{ClientId: cid, Synchronous: true}))
	}()
	di, err := documents.FindDocInfoByKey(ctx, r.s.BE, proj, k)
	if err != nil {
		return kit.Failf("HARNESS", "watcher docinfo: %v", err)
	}
	for loop := 0; loop < 200; loop++ {
		select {
		case <-done:
			return nil
		default:
		}
		wctx, cancel := context.WithCancel(ctx)
		st, err := cli.WatchDocument(wctx, connect.NewRequest(&api.WatchDocumentRequest{ClientId: cid, DocumentId: di.ID.String()}))
		if err != nil {
			cancel()
			return kit.Failf("WATCHFAIL", "watcher %d: WatchDocument of an active client failed: %v", wi, err)
		}
		fin := make(chan struct{})
		first := make(chan bool, 1)
		read := (loop+wi)%2 == 0
		go func() {
			defer close(fin)
			// the first message answers the request: the initialisation of an
			// accepted watch, or the refusal
			ok := st.Receive()
			first <- ok
			if !ok {
				return
			}
			if !read {
				<-wctx.Done()
				return
			}
			for st.Receive() {
				r.count("watch_event_received")
			}
		}()
		select {
		case ok := <-first:
			if !ok {
				err := st.Err()
				cancel()
				<-fin
				_ = st.Close()
				if r.w.MaxSubs > 0 && connect.CodeOf(err) == connect.CodeResourceExhausted {
					// refused by the project's subscriber limit: retry like an SDK watch loop does
					r.count("watch_refused_by_limit")
					gotime.Sleep(gotime.Duration(1+loop%3) * gotime.Millisecond)
					continue
				}
				return kit.Failf("WATCHFAIL", "watcher %d: WatchDocument of an active client was refused: %v", wi, err)
			}
		case <-gotime.After(20 * gotime.Second):
			cancel()
			return kit.Failf("DEADLOCK", "watcher %d (attempt %d): WatchDocument was neither accepted nor refused within 20 s; locks held:\n%s\n%s",
				wi, loop, world.Locks.HeldSummary(), abbreviate(goroutineDump(), 4000))
		}
		gotime.Sleep(gotime.Duration((gap*(loop%4+1))%60)*gotime.Millisecond + gotime.Duration(loop%7)*150*gotime.Microsecond)
		cancel()
		<-fin
		_ = st.Close()
		r.count("watch_stream_opened_and_left")
	}
	return nil
}

// rush lets all clients attach one brand-new document key at the same time
// (the first attach creates the document): they must all end up on ONE
// document, i.e. see each other's edits.
func (r *run) rush(proj *types.Project) *kit.Failure {
	ctx := context.Background()
	rk := key.Key(world.FreshDocKey("c16rush"))
	docs := make([]*document.Document, len(r.peers))
	errs := make([]error, len(r.peers))
	gate := make(chan struct{})
	var wg sync.WaitGroup
	for i, p := range r.peers {
		wg.Add(1)
		go func() {
			defer wg.Done()
			d := document.New(rk)
			docs[i] = d
			<-gate
			if errs[i] = p.c.Attach(ctx, d); errs[i] != nil {
				return
			}
			if errs[i] = d.Update(func(root *yjson.Object, _ *presence.Presence) error {
				root.SetInteger(fmt.Sprintf("r%d", i), i)
				return nil
			}); errs[i] != nil {
				return
			}
			errs[i] = p.c.Sync(ctx, client.WithKey(rk))
		}()
	}
	close(gate)
	wg.Wait()
	r.s.WaitIdle()
	for i, err := range errs {
		if err != nil {
			return kit.Failf("ATTACHFAIL", "c%d: concurrent first attach of a new key: %v", i, err)
		}
	}
	for round := 0; round < 2; round++ {
		for i, p := range r.peers {
			if err := p.c.Sync(ctx, client.WithKey(rk)); err != nil {
				return kit.Failf("SYNCFAIL", "c%d after the concurrent first attach: %v", i, err)
			}
			r.s.WaitIdle()
		}
	}
	for i := 1; i < len(docs); i++ {
		if a, b := docs[0].Marshal(), docs[i].Marshal(); a != b {
			return kit.Failf("DELIVERY-SPLIT-DOCUMENT", "%d clients attached the new key %s at the same time; after two quiescent rounds c0 and c%d do not see each other's edits (the key resolved to different documents):\n%s\n%s",
				len(docs), rk, i, a, b)
		}
	}
	for i, p := range r.peers {
		if err := p.c.Detach(ctx, docs[i]); err != nil {
			return kit.Failf("DETACHFAIL", "c%d: %v", i, err)
		}
	}
	r.s.WaitIdle()
	r.count("concurrent_first_attach")
	return nil
}

// dupPeer is a raw RPC peer that sends every PushPull request TWICE at the
// same time (a client that timed out and resent while the first attempt is
// still being processed). Each change must still be stored exactly once.
func (r *run) dupPeer(proj *types.Project, k key.Key, n int) *kit.Failure {
	ctx := context.Background()
	cli := v1connect.NewYorkieServiceClient(http.DefaultClient, "http://"+r.s.Addr,
		connect.WithInterceptors(client.NewAuthInterceptor(proj.PublicKey, "")))
	act, err := cli.ActivateClient(ctx, connect.NewRequest(&api.ActivateClientRequest{ClientKey: world.FreshDocKey("dup")}))
	if err != nil {
		return kit.Failf("HARNESS", "dup peer activate: %v", err)
	}
	cid := act.Msg.ClientId
	r.mu.Lock()
	r.dupIDs[cid] = true
	r.mu.Unlock()
	defer func() {
		_, _ = cli.DeactivateClient(ctx, connect.NewRequest(&api.DeactivateClientRequest{ClientId: cid, Synchronous: true}))
	}()
	actor, _ := time.ActorIDFromHex(cid)
	d := document.New(k)
	d.SetActor(actor)
	_ = d.Update(func(root *yjson.Object, p *presence.Presence) error { p.Initialize(nil); return nil })
	pk, _ := converter.ToChangePack(d.CreateChangePack())
	att, err := cli.AttachDocument(ctx, connect.NewRequest(&api.AttachDocumentRequest{ClientId: cid, ChangePack: pk}))
	if err != nil {
		return kit.Failf("ATTACHFAIL", "dup peer: %v", err)
	}
	rp, _ := converter.FromChangePack(att.Msg.ChangePack)
	if err := d.ApplyChangePack(rp); err != nil {
		return kit.Failf("APPLYFAIL", "dup peer attach response: %v", err)
	}
	d.SetStatus(document.StatusAttached)
	docID := att.Msg.DocumentId
	for i := 0; i < n; i++ {
		if err := d.Update(func(root *yjson.Object, p *presence.Presence) error {
			if c := root.GetCounter("c"); c != nil {
				c.Increase(1)
			} else {
				root.SetInteger("k0", i)
			}
			return nil
		}); err != nil {
			return kit.Failf("EDITFAIL", "dup peer: %v", err)
		}
		pack, _ := converter.ToChangePack(d.CreateChangePack())
		type res struct {
			r   *connect.Response[api.PushPullChangesResponse]
			err error
		}
		ch := make(chan res, 2)
		for j := 0; j < 2; j++ {
			go func() {
				rr, err := cli.PushPullChanges(ctx, connect.NewRequest(&api.PushPullChangesRequest{ClientId: cid, DocumentId: docID,
					ChangePack: proto.Clone(pack).(*api.ChangePack)}))
				ch <- res{rr, err}
			}()
		}
		a, b := <-ch, <-ch
		r.count("duplicate_inflight_request")
		first := a
		if first.err != nil {
			first = b
		}
		if first.err != nil {
			return kit.Failf("SYNCFAIL", "dup peer: both copies of the request failed: %v / %v", a.err, b.err)
		}
		rp, err := converter.FromChangePack(first.r.Msg.ChangePack)
		if err != nil {
			return kit.Failf("HARNESS", "dup peer decode: %v", err)
		}
		if err := d.ApplyChangePack(rp); err != nil {
			return kit.Failf("APPLYFAIL", "dup peer: %v", err)
		}
	}
	pack, _ := converter.ToChangePack(d.CreateChangePack())
	_, _ = cli.DetachDocument(ctx, connect.NewRequest(&api.DetachDocumentRequest{ClientId: cid, DocumentId: docID, ChangePack: pack}))
	return nil
}

// checkLog evaluates the C04 invariants on the final log of one document.
func (r *run) checkLog(proj *types.Project, k key.Key) *kit.Failure {
	ctx := context.Background()
	di, err := documents.FindDocInfoByKey(ctx, r.s.BE, proj, k)
	if err != nil {
		return kit.Failf("HARNESS", "docinfo: %v", err)
	}
	if di.Epoch > 0 {
		r.ev["compacted_docs"]++
		return nil // a compaction reset the log; the per-generation oracle does not apply
	}
	infos, err := r.s.DB.Database.FindChangeInfosBetweenServerSeqs(ctx, di.RefKey(), 1, math.MaxInt64)
	if err != nil {
		return kit.Failf("HARNESS", "log: %v", err)
	}
	last := map[string]uint32{}
	for i, ci := range infos {
		if ci.ServerSeq != int64(i+1) {
			return kit.Failf("LOG-GAP", "doc %s row %d has serverSeq %d", k, i, ci.ServerSeq)
		}
		a := ci.ActorID.String()
		if ci.ClientSeq != last[a]+1 && ci.ClientSeq != 1 {
			return kit.Failf("LOG-CLIENTSEQ", "doc %s actor %s: clientSeq %d after %d at serverSeq %d", k, a, ci.ClientSeq, last[a], ci.ServerSeq)
		}
		if ci.ClientSeq == last[a] {
			return kit.Failf("LOG-DUPLICATE", "doc %s actor %s: clientSeq %d stored twice (serverSeq %d)", k, a, ci.ClientSeq, ci.ServerSeq)
		}
		last[a] = ci.ClientSeq
	}
	if di.ServerSeq != int64(len(infos)) {
		return kit.Failf("LOG-HEAD", "doc %s head %d but %d rows", k, di.ServerSeq, len(infos))
	}
	r.mu.Lock()
	defer r.mu.Unlock()
	for hk, h := range r.hists {
		if !strings.HasSuffix(hk, "/"+string(k)) {
			continue
		}
		cid := strings.TrimSuffix(hk, "/"+string(k))
		if r.dupIDs[cid] {
			continue
		}
		if h.fail != nil {
			return h.fail
		}
		if !h.have {
			continue
		}
		if h.lastCP > di.ServerSeq {
			return kit.Failf("CHECKPOINT-BEYOND-HEAD", "client %s doc %s: checkpoint %d > head %d", cid, k, h.lastCP, di.ServerSeq)
		}
		var want, got []delivered
		for _, ci := range infos {
			if ci.ServerSeq > h.from && ci.ServerSeq <= h.lastCP && ci.ActorID.String() != cid {
				want = append(want, delivered{ci.ServerSeq, ci.ActorID.String(), ci.ClientSeq})
			}
		}
		for _, d := range h.recv {
			if d.Actor != cid {
				got = append(got, d)
			}
		}
		if len(want) != len(got) {
			return kit.Failf("DELIVERY-MISMATCH", "client %s doc %s received %d changes of other actors in (%d,%d], the log has %d:\n got %v\nwant %v",
				cid, k, len(got), h.from, h.lastCP, len(want), got, want)
		}
		for i := range want {
			if want[i] != got[i] {
				return kit.Failf("DELIVERY-MISMATCH", "client %s doc %s delivery %d: got %v want %v", cid, k, i, got[i], want[i])
			}
		}
	}
	return nil
}

func goroutineDump() string {
	buf := make([]byte, 4<<20)
	return string(buf[:runtime.Stack(buf, true)])
}

func abbreviate(s string, n int) string {
	if len(s) > n {
		return s[:n] + "\n...(truncated)"
	}
	return s
}

// serverGoroutines counts goroutines whose stack is inside yorkie/server
// packages (handlers, publishers, stream loops), not HTTP keep-alive workers.
func serverGoroutines() int {
	n := 0
	for _, g := range strings.Split(goroutineDump(), "\n\n") {
		if strings.Contains(g, "yorkie/server/rpc.") || strings.Contains(g, "yorkie/server/packs.") ||
			strings.Contains(g, "yorkie/server/backend/pubsub.") || strings.Contains(g, "yorkie/server/documents.") {
			n++
		}
	}
	return n
}

func wlHash(w Workload) uint64 {
	b, _ := json.Marshal(w)
	h := uint64(1469598103934665603)
	for _, x := range b {
		h = (h ^ uint64(x)) * 1099511628211
	}
	return h
}

// runWorkloads drives the generated workloads for one property. isMine selects
// the failure kinds that are violations of that property (a failure of another
// kind ends the run as inconclusive for it: the other property's check reports it).
func runWorkloads(t *testing.T, prop, part string, isMine func(kind string) bool) {
	col := stats.New(prop, part)
	defer col.Flush(true)
	var failed *kit.Failure
	var failedCase Workload
	var failedHist []string
	defer func() {
		if failed != nil && isMine(failed.Kind) {
			path := kit.WriteReplay(prop, "workload", fmt.Sprintf("workload-%016x", wlHash(failedCase)), failedCase, failed, failedHist)
			col.AddViolation(stats.Violation{Replay: path, Kind: failed.Kind, Msg: failed.Msg})
			kit.ReportViolation(prop, path, failed)
		} else if failed != nil {
			fmt.Printf("HARNESS-ERROR property=%s the workload failed with %s, which is judged by the C16 check: %s\n", prop, failed.Kind, abbreviate(failed.Msg, 300))
		}
	}()
	rapid.Check(t, func(rt *rapid.T) {
		w := genWorkload().Draw(rt, "workload")
		if failed != nil {
			// schedule-dependent failures do not shrink meaningfully, and after a
			// deadlock the server is wedged: stop at the first failure
			rt.Fatalf("%s", failed.Error())
		}
		if prop == "C04" {
			w.Dup, w.MaxAtt = true, 0 // the C04 part always includes the duplicate-request peer
		}
		kit.SetInflight(childEnv, part, "workload", fmt.Sprintf("workload-%016x", wlHash(w)), w)
		fail, ev, hist := execute(w)
		cls := map[string]int{}
		for k, v := range ev {
			cls[k] = v
		}
		nontrivial := ev["overlap>=3"] > 0
		if prop == "C04" {
			nontrivial = ev["overlap>=2"] > 0
		}
		col.Record(wlHash(w), fail == nil && nontrivial, cls, func() any {
			b, _ := json.Marshal(w)
			return map[string]any{"workload": string(b), "events": ev}
		})
		if fail != nil {
			if fail.Kind == "HARNESS" {
				fmt.Printf("HARNESS-ERROR property=%s %s\n", prop, fail.Msg)
				rt.Fatalf("harness: %s", fail.Msg)
			}
			if failed == nil {
				failed, failedCase, failedHist = fail, w, hist
			}
			rt.Fatalf("%s", fail.Error())
		}
	})
}

func TestC16(t *testing.T) {
	runWorkloads(t, "C16", "workloads", func(string) bool { return true })
}

// TestC04Par is the parallel part of C04: the same workloads (always with the
// duplicate-request peer), judged by the log/delivery invariants only.
func TestC04Par(t *testing.T) {
	runWorkloads(t, "C04", "par", func(kind string) bool {
		return strings.HasPrefix(kind, "LOG-") || strings.HasPrefix(kind, "DELIVERY-") || strings.HasPrefix(kind, "CHECKPOINT-")
	})
}

func TestReplay(t *testing.T) {
	kit.Replay(t, map[string]kit.Replayer{
		"lifecase":   replayLife,
		"lockscript": replayLockScript,
		"inflight":   replayInflight,
		"snaprace":   replaySnapRace,
		"gcrace":     replayGCRace,
		"freeze":     replayFreeze,
		"workload": func(raw json.RawMessage) *kit.Failure {
			var w Workload
			if err := json.Unmarshal(raw, &w); err != nil {
				return kit.Failf("HARNESS", "%v", err)
			}
			// schedule-dependent: run the workload several times
			for i := 0; i < 20; i++ {
				if f, _, hist := execute(w); f != nil {
					if os.Getenv("VERIF_SHOW_HISTORY") != "" {
						for _, h := range hist {
							fmt.Println("    " + h)
						}
					}
					return f
				}
			}
			return nil
		},
	})
}

var _ = proto.Marshal
