package c16

import (
	"context"
	"encoding/json"
	"fmt"
	"net/http"
	"sync"
	"testing"
	gotime "time"

	"connectrpc.com/connect"
	"pgregory.net/rapid"

	api "github.com/yorkie-team/yorkie/api/yorkie/v1"
	"github.com/yorkie-team/yorkie/api/yorkie/v1/v1connect"
	"github.com/yorkie-team/yorkie/pkg/document"
	yjson "github.com/yorkie-team/yorkie/pkg/document/json"
	"github.com/yorkie-team/yorkie/pkg/document/presence"
	"github.com/yorkie-team/yorkie/pkg/key"
	"github.com/yorkie-team/yorkie/server/documents"
	"github.com/yorkie-team/yorkie/server/packs"
	"github.com/yorkie-team/yorkie/server/projects"

	"verifharness/kit"
	"verifharness/stats"
	"verifharness/world"
)

// A SnapRace is an owned schedule of the two background activities C16 names
// together with the sync pipeline: the snapshot that a PushPull leaves to a
// background goroutine (it runs after the request has released its locks) and
// a compaction of the same document. The background snapshot is parked at one
// of its storage calls (DB decorator; background calls carry no project in
// their context), the compaction runs to completion, the snapshot is let go;
// then the new generation grows and late attachers - served by whatever
// snapshot rows and cache entries exist now - must see exactly what the
// writer sees.
type SnapRace struct {
	Interval int  `json:"interval"` // snapshot interval = threshold of the project
	Edits    int  `json:"edits"`    // synced edits before the last batch
	Park     int  `json:"park"`     // snapParkNames
	Regrow   int  `json:"regrow"`   // edits of the new generation: old head + Regrow - 2
	Force    bool `json:"force"`    // forced compaction while the writer is still attached (else it detaches first)
	Hist     int  `json:"hist"`     // != 0: the parked party is an admin GetSnapshotMeta (history view) of serverSeq head+1-Hist instead of the background snapshot
}

var snapParkNames = []string{"FindClosestSnapshotInfo/before", "FindChangesBetweenServerSeqs/before", "CreateSnapshotInfo/before", "CreateSnapshotInfo/after"}

func genSnapRace() *rapid.Generator[SnapRace] {
	return rapid.Custom(func(t *rapid.T) SnapRace {
		return SnapRace{
			Interval: rapid.IntRange(1, 4).Draw(t, "interval"),
			Edits:    rapid.IntRange(0, 5).Draw(t, "edits"),
			Park:     rapid.IntRange(0, len(snapParkNames)-1).Draw(t, "park"),
			Regrow:   rapid.IntRange(0, 6).Draw(t, "regrow"),
			Force:    rapid.IntRange(0, 2).Draw(t, "force") == 0,
			Hist:     max(0, rapid.IntRange(-3, 3).Draw(t, "hist")),
		}
	})
}

func runSnapRace(c SnapRace) (fail *kit.Failure, ev map[string]int, hist []string) {
	ev = map[string]int{}
	logf := func(f string, a ...any) { hist = append(hist, fmt.Sprintf(f, a...)) }
	s := world.Get()
	ctx, cancelAll := context.WithTimeout(context.Background(), 60*gotime.Second)
	defer cancelAll()
	proj := s.Project(int64(c.Interval), int64(c.Interval), "c16snap")
	dk := key.Key(world.FreshDocKey("c16snap"))
	defer s.DB.SetHook(nil)
	world.Locks.Install()

	newClient := func() (*document.Document, func() error, func(), error) {
		cl, err := s.NewClient(ctx, proj)
		if err != nil {
			return nil, nil, nil, err
		}
		d := document.New(dk)
		if err := cl.Attach(ctx, d); err != nil {
			_ = cl.Close()
			return nil, nil, nil, fmt.Errorf("attach: %w", err)
		}
		return d, func() error { return cl.Sync(ctx) }, func() { _ = cl.Deactivate(ctx); _ = cl.Close() }, nil
	}
	n := 0
	edit := func(d *document.Document) error {
		n++
		return d.Update(func(root *yjson.Object, _ *presence.Presence) error {
			root.SetInteger(fmt.Sprintf("k%d", n%5), n)
			if t := root.GetText("t"); t != nil {
				t.Edit(0, 0, "x")
			} else {
				root.SetNewText("t").Edit(0, 0, "t")
			}
			return nil
		})
	}

	// writer A
	clA, err := s.NewClient(ctx, proj)
	if err != nil {
		return kit.Failf("HARNESS", "client: %v", err), ev, hist
	}
	defer func() { _ = clA.Deactivate(ctx); _ = clA.Close() }()
	dA := document.New(dk)
	if err := clA.Attach(ctx, dA); err != nil {
		return kit.Failf("ATTACHFAIL", "setup: %v", err), ev, hist
	}
	for i := 0; i < c.Edits; i++ {
		_ = edit(dA)
		if err := clA.Sync(ctx); err != nil {
			return kit.Failf("SYNCFAIL", "setup: %v", err), ev, hist
		}
		s.WaitIdle()
	}
	// the last batch: enough unsent changes for a snapshot to be due when they are pushed
	for i := 0; i < c.Interval+1; i++ {
		_ = edit(dA)
	}

	// park the background snapshot
	var mu sync.Mutex
	parkedOnce := false
	histArmed := false
	parked := make(chan struct{}, 1)
	release := make(chan struct{})
	s.DB.SetHook(func(hctx context.Context, method string, ph world.Phase, _ any) error {
		mu.Lock()
		wantHandler := histArmed
		mu.Unlock()
		if projects.HasProject(hctx) != wantHandler {
			return nil // park the background snapshot (no project in its context) or, for history views, the admin handler
		}
		if wantHandler && c.Park >= 2 {
			return nil
		}
		name := method + "/" + map[world.Phase]string{world.Before: "before", world.After: "after"}[ph]
		mu.Lock()
		doPark := !parkedOnce && name == snapParkNames[c.Park]
		if doPark {
			parkedOnce = true
		}
		mu.Unlock()
		if doPark {
			parked <- struct{}{}
			<-release
		}
		return nil
	})
	if c.Hist != 0 {
		mu.Lock()
		parkedOnce = true // history-view variant: the background snapshot of the last request is not parked
		mu.Unlock()
	}
	if c.Force {
		if err := clA.Sync(ctx); err != nil {
			return kit.Failf("SYNCFAIL", "last batch: %v", err), ev, hist
		}
	} else if err := clA.Detach(ctx, dA); err != nil {
		return kit.Failf("DETACHFAIL", "%v", err), ev, hist
	}
	before := dA.Marshal()
	histDone := make(chan error, 1)
	if c.Hist != 0 {
		// let the background work of the last request finish, then start the history view and park it
		mu.Lock()
		parkedOnce = true // nothing of the background snapshot is parked in this variant
		mu.Unlock()
		s.WaitIdle()
		hdi, err := documents.FindDocInfoByKey(ctx, s.BE, proj, dk)
		if err != nil {
			return kit.Failf("HARNESS", "docinfo: %v", err), ev, hist
		}
		seq := max(1, hdi.ServerSeq+1-int64(c.Hist))
		s.BE.Cache.Snapshot.Purge()
		mu.Lock()
		parkedOnce, histArmed = false, true
		mu.Unlock()
		adm := v1connect.NewAdminServiceClient(&http.Client{Transport: headerTransport{"Authorization": "API-Key " + proj.SecretKey}}, "http://"+s.Addr)
		go func() {
			_, err := adm.GetSnapshotMeta(ctx, connect.NewRequest(&api.GetSnapshotMetaRequest{DocumentKey: dk.String(), ServerSeq: seq}))
			histDone <- err
		}()
		ev["history_view_variant"]++
	} else {
		histDone <- nil
	}
	wasParked := false
	select {
	case <-parked:
		wasParked = true
		ev["background_snapshot_parked"]++
		ev["parked@"+snapParkNames[c.Park]]++
	case <-gotime.After(400 * gotime.Millisecond):
		ev["no_background_snapshot_to_park"]++
	}
	di, err := documents.FindDocInfoByKey(ctx, s.BE, proj, dk)
	if err != nil {
		close(release)
		return kit.Failf("HARNESS", "docinfo: %v", err), ev, hist
	}
	oldHead := di.ServerSeq
	type cres struct {
		ok  bool
		err error
	}
	cdone := make(chan cres, 1)
	go func() {
		ok, err := documents.CompactDocument(ctx, s.BE, proj, di, c.Force)
		cdone <- cres{ok, err}
	}()
	var cr cres
	select {
	case cr = <-cdone:
		// the compaction ran to completion while the background snapshot was parked
		if wasParked {
			ev["compaction_overtook_the_parked_snapshot"]++
		}
		close(release)
	case <-gotime.After(300 * gotime.Millisecond):
		// the compaction waits (for the snapshot, if that holds the document lock): let the snapshot go on
		ev["compaction_waited"]++
		close(release)
		select {
		case cr = <-cdone:
		case <-gotime.After(30 * gotime.Second):
			return kit.Failf("DEADLOCK", "the compaction did not return within 30 s after the background snapshot was released; locks held:\n%s", world.Locks.HeldSummary()), ev, hist
		}
	}
	select {
	case herr := <-histDone:
		if herr != nil {
			logf("history view returned: %v", herr)
		}
	case <-gotime.After(30 * gotime.Second):
		return kit.Failf("DEADLOCK", "the history view did not return within 30 s; locks held:\n%s", world.Locks.HeldSummary()), ev, hist
	}
	ok, cerr := cr.ok, cr.err
	logf("background snapshot parked=%v at %s; compaction (force=%v) at head %d -> compacted=%v err=%v", wasParked, snapParkNames[c.Park], c.Force, oldHead, ok, cerr)
	s.DB.SetHook(nil)
	s.WaitIdle()
	if cerr != nil {
		return kit.Failf("COMPACTFAIL", "CompactDocument(force=%v) with no request in flight: %v", c.Force, cerr), ev, hist
	}
	if !ok {
		ev["compaction_refused"]++
		return nil, ev, hist
	}
	ev["compacted"]++

	// the new generation: B attaches, must see the content from before, and grows the log around the old head
	dB, syncB, closeB, err := newClient()
	if err != nil {
		return kit.Failf("ATTACHFAIL", "first attach after the compaction: %v", err), ev, hist
	}
	defer closeB()
	if got := dB.Marshal(); got != before {
		return kit.Failf("COMPACTION-CHANGED-CONTENT", "first attach after the compaction (background snapshot parked=%v):\n got %s\nwant %s", wasParked, got, before), ev, hist
	}
	grow := int(oldHead) + c.Regrow - 2
	for i := 0; i < grow; i++ {
		_ = edit(dB)
		if err := syncB(); err != nil {
			return kit.Failf("SYNCFAIL", "writer of the new generation, edit %d: %v", i, err), ev, hist
		}
		s.WaitIdle()
	}
	want := dB.Marshal()
	// late attachers: warm cache, then cold cache
	for round := 0; round < 2; round++ {
		dC, _, closeC, err := newClient()
		if err != nil {
			return kit.Failf("ATTACHFAIL", "late attach (%s cache) after the new generation grew to %d (old head %d, background snapshot parked=%v at %s): %v",
				[]string{"warm", "cold"}[round], grow+1, oldHead, wasParked, snapParkNames[c.Park], err), ev, hist
		}
		got := dC.Marshal()
		closeC()
		s.WaitIdle()
		if got != want {
			return kit.Failf("STALE-SERVER-STATE", "late attach (%s cache) after the new generation grew to %d (old head %d, background snapshot parked=%v at %s):\n got %s\nwant %s",
				[]string{"warm", "cold"}[round], grow+1, oldHead, wasParked, snapParkNames[c.Park], got, want), ev, hist
		}
		s.BE.Cache.Snapshot.Purge()
	}
	di, _ = documents.FindDocInfoByKey(ctx, s.BE, proj, dk)
	doc, err := packs.BuildInternalDocForServerSeq(ctx, s.BE, di, di.ServerSeq)
	if err != nil {
		return kit.Failf("BUILDFAIL", "server build of the head: %v", err), ev, hist
	}
	if got := doc.RootObject().Marshal(); got != want {
		return kit.Failf("STALE-SERVER-STATE", "server build of the head:\n got %s\nwant %s", got, want), ev, hist
	}
	return nil, ev, hist
}

func srHash(c SnapRace) uint64 {
	b, _ := json.Marshal(c)
	var h uint64 = 1469598103934665603
	for _, x := range b {
		h = (h ^ uint64(x)) * 1099511628211
	}
	return h
}

func TestC16SnapRace(t *testing.T) {
	col := stats.New("C16", "snaprace")
	defer col.Flush(true)
	var failed *kit.Failure
	var failedCase SnapRace
	var failedHist []string
	defer func() {
		if failed != nil {
			path := kit.WriteReplay("C16", "snaprace", fmt.Sprintf("snaprace-%016x", srHash(failedCase)), failedCase, failed, failedHist)
			col.AddViolation(stats.Violation{Replay: path, Kind: failed.Kind, Msg: failed.Msg})
			kit.ReportViolation("C16", path, failed)
		}
	}()
	rapid.Check(t, func(rt *rapid.T) {
		c := genSnapRace().Draw(rt, "case")
		kit.SetInflight(childEnv, "snaprace", "snaprace", fmt.Sprintf("snaprace-%016x", srHash(c)), c)
		f, ev, hist := runSnapRace(c)
		classes := map[string]int{}
		for k, v := range ev {
			classes[k] = v
		}
		col.Record(srHash(c), f == nil && ev["background_snapshot_parked"] > 0 && ev["compacted"] > 0, classes, func() any {
			return map[string]any{"case": c, "history": hist}
		})
		if f != nil {
			if f.Kind == "HARNESS" {
				fmt.Printf("HARNESS-ERROR property=C16 %s\n", f.Msg)
				rt.Fatalf("harness: %s", f.Msg)
			}
			failed, failedCase, failedHist = f, c, hist
			rt.Fatalf("%s", f.Error())
		}
	})
}

func replaySnapRace(raw json.RawMessage) *kit.Failure {
	var c SnapRace
	if err := json.Unmarshal(raw, &c); err != nil {
		return kit.Failf("HARNESS", "%v", err)
	}
	f, _, hist := runSnapRace(c)
	for _, h := range hist {
		fmt.Println("  " + h)
	}
	return f
}

// headerTransport adds fixed headers to every request (admin calls with the project's secret key).
type headerTransport map[string]string

func (h headerTransport) RoundTrip(req *http.Request) (*http.Response, error) {
	r := req.Clone(req.Context())
	for k, v := range h {
		r.Header.Set(k, v)
	}
	return http.DefaultTransport.RoundTrip(r)
}
